/-
  psdriver: one request per line (an S-expression), one answer per line.
  Imports models/specs only (never a proof file), so it still builds when a proof breaks.
-/
import PS.Sexp
import PS.Drv.All
open PS

def answer (line : String) : String :=
  match Sexp.parse line with
  | none => "(error \"parse\")"
  | some req =>
    match PS.allHandlers.findSome? (fun h => h req) with
    | some r => toString r
    | none => "(error \"bad-request\")"

partial def loop (hin hout : IO.FS.Stream) : IO Unit := do
  let line ← hin.getLine
  if line.isEmpty then return ()
  let l := line.trimAscii.toString
  if l.isEmpty then loop hin hout else
  hout.putStrLn (answer l)
  hout.flush
  loop hin hout

def main : IO Unit := do loop (← IO.getStdin) (← IO.getStdout)
