-- Root of the `PS` library: models, specifications and driver glue (core Lean only).
import PS.Basic
import PS.Sexp
import PS.Model.Filter
import PS.Drv.C20
