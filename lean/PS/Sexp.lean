/-
  S-expressions: the wire format between the Python harness and the model driver.
  Core Lean only.  The reader is `partial` (it is glue outside the logic: no theorem
  mentions it); everything the theorems are about lives in `PS/Model`.
-/
namespace PS

inductive Sexp where
  | atom : String → Sexp          -- bare symbol or integer literal
  | str  : String → Sexp          -- double-quoted string
  | list : List Sexp → Sexp
  deriving Repr, Inhabited

namespace Sexp

private def escape (s : String) : String :=
  s.foldl (fun acc c =>
    if c == '"' then acc ++ "\\\"" else if c == '\\' then acc ++ "\\\\"
    else if c == '\n' then acc ++ "\\n" else acc.push c) ""

partial def toStr : Sexp → String
  | atom s => s
  | str s => "\"" ++ escape s ++ "\""
  | list xs => "(" ++ " ".intercalate (xs.map toStr) ++ ")"

instance : ToString Sexp := ⟨toStr⟩

/-- tokens: `(`, `)`, atoms, strings -/
inductive Tok where
  | lp | rp | at (s : String) | st (s : String)

partial def tokenize (cs : List Char) (acc : Array Tok) : Array Tok :=
  match cs with
  | [] => acc
  | c :: rest =>
    if c == '(' then tokenize rest (acc.push .lp)
    else if c == ')' then tokenize rest (acc.push .rp)
    else if c == ' ' || c == '\n' || c == '\t' || c == '\r' then tokenize rest acc
    else if c == '"' then
      let rec goS (cs : List Char) (s : String) : String × List Char :=
        match cs with
        | [] => (s, [])
        | '\\' :: 'n' :: r => goS r (s.push '\n')
        | '\\' :: d :: r => goS r (s.push d)
        | '"' :: r => (s, r)
        | d :: r => goS r (s.push d)
      let (s, r) := goS rest ""
      tokenize r (acc.push (.st s))
    else
      let rec go (cs : List Char) (s : String) : String × List Char :=
        match cs with
        | [] => (s, [])
        | d :: r =>
          if d == '(' || d == ')' || d == ' ' || d == '\n' || d == '\t' || d == '\r' || d == '"' then (s, d :: r)
          else go r (s.push d)
      let (s, r) := go rest (String.singleton c)
      tokenize r (acc.push (.at s))

partial def parseToks (ts : List Tok) : Option (Sexp × List Tok) :=
  match ts with
  | [] => none
  | .at s :: r => some (atom s, r)
  | .st s :: r => some (str s, r)
  | .rp :: _ => none
  | .lp :: r =>
    let rec items (ts : List Tok) (acc : Array Sexp) : Option (Sexp × List Tok) :=
      match ts with
      | [] => none
      | .rp :: r => some (list acc.toList, r)
      | _ => match parseToks ts with
        | none => none
        | some (x, r) => items r (acc.push x)
    items r #[]

def parse (s : String) : Option Sexp :=
  match parseToks (tokenize s.toList #[]).toList with
  | some (x, []) => some x
  | _ => none

def nat? : Sexp → Option Nat
  | atom s => s.toNat?
  | _ => none

def int? : Sexp → Option Int
  | atom s => s.toInt?
  | _ => none

def string? : Sexp → Option String
  | str s => some s
  | atom s => some s
  | _ => none

def list? : Sexp → Option (List Sexp)
  | list xs => some xs
  | _ => none

def ofBool (b : Bool) : Sexp := atom (if b then "1" else "0")
def ofNat (n : Nat) : Sexp := atom (toString n)
def ofInt (n : Int) : Sexp := atom (toString n)

def bool? : Sexp → Option Bool
  | atom "1" => some true
  | atom "0" => some false
  | _ => none

end Sexp

/-- `mapM` for `Option` over lists (kept explicit so it is usable in decoders). -/
def allSome {α β} (f : α → Option β) : List α → Option (List β)
  | [] => some []
  | x :: xs => match f x, allSome f xs with
    | some y, some ys => some (y :: ys)
    | _, _ => none

end PS
