/-
  Association lists with the semantics of a Python `dict`:
  insertion-ordered, `insert` overwrites the value of an existing key *in place*,
  otherwise appends at the end.  Core Lean only.
-/
namespace PS

abbrev AList (κ ν : Type) := List (κ × ν)

namespace AList
variable {κ ν : Type} [DecidableEq κ]

def lookup (k : κ) : AList κ ν → Option ν
  | [] => none
  | (k', v) :: r => if k' = k then some v else lookup k r

def contains (k : κ) (d : AList κ ν) : Bool := (lookup k d).isSome

def insert (k : κ) (v : ν) : AList κ ν → AList κ ν
  | [] => [(k, v)]
  | (k', v') :: r => if k' = k then (k, v) :: r else (k', v') :: insert k v r

def erase (k : κ) : AList κ ν → AList κ ν
  | [] => []
  | (k', v') :: r => if k' = k then r else (k', v') :: erase k r

def keys (d : AList κ ν) : List κ := d.map (·.1)
def values (d : AList κ ν) : List ν := d.map (·.2)

@[simp] theorem lookup_nil (k : κ) : lookup k ([] : AList κ ν) = none := rfl

theorem lookup_insert_self (k : κ) (v : ν) (d : AList κ ν) :
    lookup k (insert k v d) = some v := by
  induction d with
  | nil => simp [insert, lookup]
  | cons p r ih =>
    obtain ⟨k', v'⟩ := p
    by_cases h : k' = k
    · simp [insert, lookup, h]
    · simp [insert, lookup, h, ih]

theorem lookup_insert_ne {k k' : κ} (v : ν) (d : AList κ ν) (h : k' ≠ k) :
    lookup k' (insert k v d) = lookup k' d := by
  induction d with
  | nil => simp [insert, lookup, Ne.symm h]
  | cons p r ih =>
    obtain ⟨k2, v2⟩ := p
    by_cases h2 : k2 = k
    · subst h2
      simp [insert, lookup, Ne.symm h]
    · by_cases h3 : k2 = k'
      · subst h3; simp [insert, lookup, h2]
      · simp [insert, lookup, h2, h3, ih]

theorem lookup_insert (k k' : κ) (v : ν) (d : AList κ ν) :
    lookup k' (insert k v d) = if k' = k then some v else lookup k' d := by
  by_cases h : k' = k
  · subst h; simp [lookup_insert_self]
  · simp [h, lookup_insert_ne v d h]

theorem lookup_some_mem {k : κ} {v : ν} {d : AList κ ν} (h : lookup k d = some v) :
    (k, v) ∈ d := by
  induction d with
  | nil => simp [lookup] at h
  | cons p r ih =>
    obtain ⟨k', v'⟩ := p
    by_cases hk : k' = k
    · simp [lookup, hk] at h; subst h; subst hk; simp
    · simp [lookup, hk] at h; exact List.mem_cons_of_mem _ (ih h)

theorem lookup_isSome_iff_mem_keys {k : κ} {d : AList κ ν} :
    (lookup k d).isSome ↔ k ∈ keys d := by
  induction d with
  | nil => simp [lookup, keys]
  | cons p r ih =>
    obtain ⟨k', v'⟩ := p
    by_cases hk : k' = k
    · simp [lookup, keys, hk]
    · simp only [lookup, hk, if_false, keys, List.map_cons, List.mem_cons]
      constructor
      · intro h; exact Or.inr (ih.mp h)
      · intro h
        rcases h with h | h
        · exact absurd h.symm hk
        · exact ih.mpr h

end AList

/-- Python `all(...)` / `any(...)` over a list. -/
theorem List.all_append' {α} (p : α → Bool) (a b : List α) :
    (a ++ b).all p = (a.all p && b.all p) := by simp

end PS

namespace PS.AList
variable {κ ν : Type} [DecidableEq κ]

theorem lookup_of_mem_nodup {k : κ} {v : ν} {d : AList κ ν} (hnd : (keys d).Nodup)
    (h : (k, v) ∈ d) : lookup k d = some v := by
  induction d with
  | nil => cases h
  | cons p r ih =>
    obtain ⟨k', v'⟩ := p
    simp only [keys, List.map_cons, List.nodup_cons] at hnd
    rcases List.mem_cons.mp h with h | h
    · cases h; simp [lookup]
    · have hne : k' ≠ k := by
        intro hk; subst hk
        exact hnd.1 (List.mem_map.mpr ⟨(k', v), h, rfl⟩)
      simp only [lookup, hne, if_false]
      exact ih hnd.2 h

theorem contains_iff_lookup {k : κ} {d : AList κ ν} :
    contains k d = true ↔ ∃ v, lookup k d = some v := by
  unfold contains
  cases lookup k d <;> simp

end PS.AList
