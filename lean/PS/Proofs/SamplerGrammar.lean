import PS.Model.Sampler
import Mathlib.Algebra.BigOperators.Group.List.Basic
import Mathlib.Algebra.Order.Field.Rat
import Mathlib.Tactic.Ring

namespace PS.Sampler

/-! ## Membership: every sampled program is derivable -/

/-- pop the next pending non-terminal of the information stack -/
def popNext (l : List NT) : List NT × Option NT :=
  match l with
  | [] => ([], none)
  | x :: r => (r, some x)

theorem derive_eq_popNext (G : DetG) (info : List NT) (S : NT) (P : Sym) (args : List NT) (w : Rat)
    (h : (AList.lookup S G).bind (AList.lookup P) = some (args, w)) :
    derive G info S P = some (popNext (args ++ info)) := by
  unfold derive
  rw [h]
  simp only [popNext]
  cases args ++ info <;> rfl

theorem lookup_of_getElem?_nodup {κ ν : Type} [DecidableEq κ] :
    ∀ (rules : AList κ ν) (i : Nat) (P : κ) (v : ν),
      (rules.map (·.1)).Nodup → rules[i]? = some (P, v) → AList.lookup P rules = some v
  | [], i, P, v, _, h => by simp at h
  | (k, v') :: r, 0, P, v, _, h => by
    simp at h
    obtain ⟨h1, h2⟩ := h
    subst h1; subst h2
    simp [AList.lookup]
  | (k, v') :: r, i + 1, P, v, hn, h => by
    simp only [List.getElem?_cons_succ] at h
    simp only [List.map_cons, List.nodup_cons] at hn
    have hmem : (P, v) ∈ r := List.mem_of_getElem? h
    have hk : k ≠ P := by
      intro hk
      subst hk
      exact hn.1 (List.mem_map.mpr ⟨(k, v), hmem, rfl⟩)
    simp only [AList.lookup, hk, if_false]
    exact lookup_of_getElem?_nodup r i P v hn.2 h

mutual
  theorem deriveAll_of_derives (G : DetG) :
      ∀ (t : Tree Sym) (S : NT), derives G S t = true →
        ∀ info, deriveAll G info (some S) t = some (popNext info)
    | .node P kids, S, h, info => by
      rw [derives] at h
      rw [deriveAll]
      cases hl : (AList.lookup S G).bind (AList.lookup P) with
      | none => rw [hl] at h; simp at h
      | some aw =>
        obtain ⟨args, w⟩ := aw
        rw [hl] at h
        simp only at h
        rw [derive_eq_popNext G info S P args w hl]
        exact deriveAllList_of_derivesList G kids args h info
  theorem deriveAllList_of_derivesList (G : DetG) :
      ∀ (ts : List (Tree Sym)) (args : List NT), derivesList G args ts = true →
        ∀ info, deriveAllList G (popNext (args ++ info)).1 (popNext (args ++ info)).2 ts
          = some (popNext info)
    | [], [], _, info => by
      simp only [List.nil_append, deriveAllList]
    | [], _ :: _, h, _ => by simp [derivesList] at h
    | _ :: _, [], h, _ => by simp [derivesList] at h
    | t :: ts, a :: as, h, info => by
      rw [derivesList, Bool.and_eq_true] at h
      simp only [List.cons_append, popNext]
      rw [deriveAllList, deriveAll_of_derives G t a h.1 (as ++ info)]
      exact deriveAllList_of_derivesList G ts as h.2 info
end

theorem sampleArgsWith_derivesList (G : DetG)
    (rec : Draws → NT → List NT → Option (Tree Sym × Draws))
    (hrec : ∀ d c i t d', rec d c i = some (t, d') → derives G c t = true) :
    ∀ (as : List NT) (info : List NT) (d : Draws) (kids : List (Tree Sym)) (d' : Draws),
      sampleArgsWith G rec as.length d (popNext (as ++ info)).2 (popNext (as ++ info)).1
        = some (kids, d') →
      derivesList G as kids = true
  | [], info, d, kids, d', h => by
    simp only [List.length_nil, sampleArgsWith, Option.some.injEq, Prod.mk.injEq] at h
    rw [← h.1]; simp [derivesList]
  | a :: as, info, d, kids, d', h => by
    simp only [List.length_cons, List.cons_append, popNext, sampleArgsWith] at h
    cases hr : rec d a (as ++ info) with
    | none => rw [hr] at h; simp at h
    | some p =>
      obtain ⟨arg, d1⟩ := p
      rw [hr] at h
      simp only at h
      have hd := hrec _ _ _ _ _ hr
      rw [deriveAll_of_derives G arg a hd (as ++ info)] at h
      simp only at h
      cases hs : sampleArgsWith G rec as.length d1 (popNext (as ++ info)).2 (popNext (as ++ info)).1 with
      | none => rw [hs] at h; simp at h
      | some q =>
        obtain ⟨args, d2⟩ := q
        rw [hs] at h
        simp only [Option.some.injEq, Prod.mk.injEq] at h
        rw [← h.1, derivesList, hd, Bool.true_and]
        exact sampleArgsWith_derivesList G rec hrec as info d1 args d2 hs

theorem sampleDet_derives (G : DetG)
    (hG : ∀ S rules, AList.lookup S G = some rules → (rules.map (·.1)).Nodup)
    (fuel : Nat) (d : Draws) (S : NT) (info : List NT)
    (t : Tree Sym) (d' : Draws) (h : sampleDet G fuel d S info = some (t, d')) :
    derives G S t = true := by
  induction fuel generalizing d S info t d' with
  | zero => simp [sampleDet] at h
  | succ fuel ih =>
    rw [sampleDet] at h
    cases hp : popDraw d S with
    | none => rw [hp] at h; simp at h
    | some p =>
      obtain ⟨i, d1⟩ := p
      rw [hp] at h
      simp only at h
      cases hl : (AList.lookup S G).bind (fun r => r[i]?) with
      | none => rw [hl] at h; simp at h
      | some q =>
        obtain ⟨P, args, w⟩ := q
        rw [hl] at h
        simp only at h
        -- the rule is the one `AList.lookup P` finds
        have hlk : (AList.lookup S G).bind (AList.lookup P) = some (args, w) := by
          cases hS : AList.lookup S G with
          | none => rw [hS] at hl; simp at hl
          | some rules =>
            rw [hS] at hl
            simp only [Option.bind_some] at hl ⊢
            exact lookup_of_getElem?_nodup rules i P (args, w) (hG S rules hS) hl
        by_cases hz : args.length = 0
        · rw [if_pos hz] at h
          simp only [Option.some.injEq, Prod.mk.injEq] at h
          rw [← h.1, Tree.leaf, derives, hlk]
          have : args = [] := List.length_eq_zero_iff.mp hz
          subst this
          simp [derivesList]
        · rw [if_neg hz, derive_eq_popNext G info S P args w hlk] at h
          simp only at h
          cases hs : sampleArgsWith G (sampleDet G fuel) args.length d1
              (popNext (args ++ info)).2 (popNext (args ++ info)).1 with
          | none => rw [hs] at h; simp at h
          | some q =>
            obtain ⟨kids, d2⟩ := q
            rw [hs] at h
            simp only [Option.some.injEq, Prod.mk.injEq] at h
            rw [← h.1, derives, hlk]
            exact sampleArgsWith_derivesList G (sampleDet G fuel)
              (fun d c i t d' hh => ih d c i t d' hh) args info d1 kids d2 hs

end PS.Sampler
