import PS.Model.Sampler
import Mathlib.Algebra.BigOperators.Group.List.Basic
import Mathlib.Algebra.Order.Field.Rat

namespace PS.Sampler

/-! ## Membership: every sampled program is derivable -/

/-- pop the next pending non-terminal of the information stack -/
def popNext (l : List NT) : List NT × Option NT :=
  match l with
  | [] => ([], none)
  | x :: r => (r, some x)

theorem derive_eq_popNext (G : DetG) (info : List NT) (S : NT) (P : Sym) (args : List NT) (w : Rat)
    (h : (AList.lookup S G).bind (AList.lookup P) = some (args, w)) :
    derive G info S P = some (popNext (args ++ info)) := by
  unfold derive
  rw [h]
  simp only [popNext]
  cases args ++ info <;> rfl

theorem lookup_of_getElem?_nodup {κ ν : Type} [DecidableEq κ] :
    ∀ (rules : AList κ ν) (i : Nat) (P : κ) (v : ν),
      (rules.map (·.1)).Nodup → rules[i]? = some (P, v) → AList.lookup P rules = some v
  | [], i, P, v, _, h => by simp at h
  | (k, v') :: r, 0, P, v, _, h => by
    simp at h
    obtain ⟨h1, h2⟩ := h
    subst h1; subst h2
    simp [AList.lookup]
  | (k, v') :: r, i + 1, P, v, hn, h => by
    simp only [List.getElem?_cons_succ] at h
    simp only [List.map_cons, List.nodup_cons] at hn
    have hmem : (P, v) ∈ r := List.mem_of_getElem? h
    have hk : k ≠ P := by
      intro hk
      subst hk
      exact hn.1 (List.mem_map.mpr ⟨(k, v), hmem, rfl⟩)
    simp only [AList.lookup, hk, if_false]
    exact lookup_of_getElem?_nodup r i P v hn.2 h

mutual
  theorem deriveAll_of_derives (G : DetG) :
      ∀ (t : Tree Sym) (S : NT), derives G S t = true →
        ∀ info, deriveAll G info (some S) t = some (popNext info)
    | .node P kids, S, h, info => by
      rw [derives] at h
      rw [deriveAll]
      cases hl : (AList.lookup S G).bind (AList.lookup P) with
      | none => rw [hl] at h; simp at h
      | some aw =>
        obtain ⟨args, w⟩ := aw
        rw [hl] at h
        simp only at h
        rw [derive_eq_popNext G info S P args w hl]
        exact deriveAllList_of_derivesList G kids args h info
  theorem deriveAllList_of_derivesList (G : DetG) :
      ∀ (ts : List (Tree Sym)) (args : List NT), derivesList G args ts = true →
        ∀ info, deriveAllList G (popNext (args ++ info)).1 (popNext (args ++ info)).2 ts
          = some (popNext info)
    | [], [], _, info => by
      simp only [List.nil_append, deriveAllList]
    | [], _ :: _, h, _ => by simp [derivesList] at h
    | _ :: _, [], h, _ => by simp [derivesList] at h
    | t :: ts, a :: as, h, info => by
      rw [derivesList, Bool.and_eq_true] at h
      simp only [List.cons_append, popNext]
      rw [deriveAllList, deriveAll_of_derives G t a h.1 (as ++ info)]
      exact deriveAllList_of_derivesList G ts as h.2 info
end

theorem sampleArgsWith_derivesList (G : DetG)
    (rec : Draws → NT → List NT → Option (Tree Sym × Draws))
    (hrec : ∀ d c i t d', rec d c i = some (t, d') → derives G c t = true) :
    ∀ (as : List NT) (info : List NT) (d : Draws) (kids : List (Tree Sym)) (d' : Draws),
      sampleArgsWith G rec as.length d (popNext (as ++ info)).2 (popNext (as ++ info)).1
        = some (kids, d') →
      derivesList G as kids = true
  | [], info, d, kids, d', h => by
    simp only [List.length_nil, sampleArgsWith, Option.some.injEq, Prod.mk.injEq] at h
    rw [← h.1]; simp [derivesList]
  | a :: as, info, d, kids, d', h => by
    simp only [List.length_cons, List.cons_append, popNext, sampleArgsWith] at h
    cases hr : rec d a (as ++ info) with
    | none => rw [hr] at h; simp at h
    | some p =>
      obtain ⟨arg, d1⟩ := p
      rw [hr] at h
      simp only at h
      have hd := hrec _ _ _ _ _ hr
      rw [deriveAll_of_derives G arg a hd (as ++ info)] at h
      simp only at h
      cases hs : sampleArgsWith G rec as.length d1 (popNext (as ++ info)).2 (popNext (as ++ info)).1 with
      | none => rw [hs] at h; simp at h
      | some q =>
        obtain ⟨args, d2⟩ := q
        rw [hs] at h
        simp only [Option.some.injEq, Prod.mk.injEq] at h
        rw [← h.1, derivesList, hd, Bool.true_and]
        exact sampleArgsWith_derivesList G rec hrec as info d1 args d2 hs

theorem sampleDet_derives (G : DetG)
    (hG : ∀ S rules, AList.lookup S G = some rules → (rules.map (·.1)).Nodup)
    (fuel : Nat) (d : Draws) (S : NT) (info : List NT)
    (t : Tree Sym) (d' : Draws) (h : sampleDet G fuel d S info = some (t, d')) :
    derives G S t = true := by
  induction fuel generalizing d S info t d' with
  | zero => simp [sampleDet] at h
  | succ fuel ih =>
    rw [sampleDet] at h
    cases hp : popDraw d S with
    | none => rw [hp] at h; simp at h
    | some p =>
      obtain ⟨i, d1⟩ := p
      rw [hp] at h
      simp only at h
      cases hl : (AList.lookup S G).bind (fun r => r[i]?) with
      | none => rw [hl] at h; simp at h
      | some q =>
        obtain ⟨P, args, w⟩ := q
        rw [hl] at h
        simp only at h
        -- the rule is the one `AList.lookup P` finds
        have hlk : (AList.lookup S G).bind (AList.lookup P) = some (args, w) := by
          cases hS : AList.lookup S G with
          | none => rw [hS] at hl; simp at hl
          | some rules =>
            rw [hS] at hl
            simp only [Option.bind_some] at hl ⊢
            exact lookup_of_getElem?_nodup rules i P (args, w) (hG S rules hS) hl
        by_cases hz : args.length = 0
        · rw [if_pos hz] at h
          simp only [Option.some.injEq, Prod.mk.injEq] at h
          rw [← h.1, Tree.leaf, derives, hlk]
          have : args = [] := List.length_eq_zero_iff.mp hz
          subst this
          simp [derivesList]
        · rw [if_neg hz, derive_eq_popNext G info S P args w hlk] at h
          simp only at h
          cases hs : sampleArgsWith G (sampleDet G fuel) args.length d1
              (popNext (args ++ info)).2 (popNext (args ++ info)).1 with
          | none => rw [hs] at h; simp at h
          | some q =>
            obtain ⟨kids, d2⟩ := q
            rw [hs] at h
            simp only [Option.some.injEq, Prod.mk.injEq] at h
            rw [← h.1, derives, hlk]
            exact sampleArgsWith_derivesList G (sampleDet G fuel)
              (fun d c i t d' hh => ih d c i t d' hh) args info d1 kids d2 hs

/-! ## Probability: mass of a tree in the unfolded distribution = product of rule weights -/

theorem mass_nil {α : Type} [DecidableEq α] (x : α) : Dist.mass ([] : Dist α) x = 0 := by
  simp [Dist.mass]

theorem mass_cons {α : Type} [DecidableEq α] (p : α × Rat) (d : Dist α) (x : α) :
    Dist.mass (p :: d) x = (if p.1 = x then p.2 else 0) + Dist.mass d x := by
  simp [Dist.mass]

theorem mass_append {α : Type} [DecidableEq α] (d e : Dist α) (x : α) :
    Dist.mass (d ++ e) x = Dist.mass d x + Dist.mass e x := by
  simp [Dist.mass]

theorem mass_flatMap {α β : Type} [DecidableEq β] (l : List α) (f : α → Dist β) (x : β) :
    Dist.mass (l.flatMap f) x = (l.map (fun a => Dist.mass (f a) x)).sum := by
  induction l with
  | nil => simp [Dist.mass]
  | cons a l ih => simp [List.flatMap_cons, mass_append, ih]

theorem mass_map {α β : Type} [DecidableEq β] (l : List α) (g : α → β × Rat) (x : β) :
    Dist.mass (l.map g) x = (l.map (fun a => if (g a).1 = x then (g a).2 else 0)).sum := by
  simp [Dist.mass, Function.comp_def]

/-- scaling: the mass of `x :: xs` in the product with a fixed head -/
theorem mass_map_cons (tw : Tree Sym × Rat) (D : Dist (List (Tree Sym))) (t : Tree Sym)
    (ts : List (Tree Sym)) :
    Dist.mass (D.map (fun kw => (tw.1 :: kw.1, tw.2 * kw.2))) (t :: ts)
      = (if tw.1 = t then tw.2 else 0) * Dist.mass D ts := by
  induction D with
  | nil => simp [Dist.mass]
  | cons kw D ih =>
    rw [List.map_cons, mass_cons, mass_cons, ih]
    simp only [List.cons.injEq]
    by_cases h1 : tw.1 = t <;> by_cases h2 : kw.1 = ts <;> simp [h1, h2, mul_add]

theorem mass_map_cons_nil (tw : Tree Sym × Rat) (D : Dist (List (Tree Sym))) :
    Dist.mass (D.map (fun kw => (tw.1 :: kw.1, tw.2 * kw.2))) [] = 0 := by
  induction D with
  | nil => simp [Dist.mass]
  | cons kw D ih => rw [List.map_cons, mass_cons, ih]; simp

theorem sum_map_mul_right' {α : Type} (l : List α) (f : α → Rat) (c : Rat) :
    (l.map (fun a => f a * c)).sum = (l.map f).sum * c := by
  induction l with
  | nil => simp
  | cons a l ih => simp [ih, add_mul]

theorem mass_distArgs (G : DetG) (f : NT → Dist (Tree Sym)) :
    ∀ (as : List NT) (ts : List (Tree Sym)),
      (∀ a t, t ∈ ts → Dist.mass (f a) t = prob G a t) →
      Dist.mass (distArgs f as) ts = probList G as ts
  | [], [], _ => by simp [distArgs, Dist.mass, probList]
  | [], t :: ts, _ => by simp [distArgs, Dist.mass, probList]
  | a :: as, [], _ => by
    have hp : probList G (a :: as) [] = 0 := by simp [probList]
    rw [distArgs, mass_flatMap, hp]
    simp [mass_map_cons_nil]
  | a :: as, t :: ts, h => by
    rw [distArgs, mass_flatMap, probList]
    simp only [mass_map_cons]
    rw [sum_map_mul_right']
    rw [mass_distArgs G f as ts (fun a t' ht' => h a t' (List.mem_cons_of_mem _ ht'))]
    rw [← h a t (List.mem_cons_self ..)]
    rfl

theorem mass_map_node (P : Sym) (r : Sym × List NT × Rat) (D : Dist (List (Tree Sym)))
    (kids : List (Tree Sym)) :
    Dist.mass (D.map (fun kw => (Tree.node r.1 kw.1, r.2.2 * kw.2))) (Tree.node P kids)
      = if r.1 = P then r.2.2 * Dist.mass D kids else 0 := by
  induction D with
  | nil => simp [Dist.mass]
  | cons kw D ih =>
    rw [List.map_cons, mass_cons, mass_cons, ih]
    simp only [Tree.node.injEq]
    by_cases h1 : r.1 = P <;> by_cases h2 : kw.1 = kids <;> simp [h1, h2, mul_add]

theorem sum_key_not_mem {ν : Type} (P : Sym) (g : Sym × ν → Rat) :
    ∀ (rules : AList Sym ν), P ∉ rules.map (·.1) →
      (rules.map (fun r => if r.1 = P then g r else 0)).sum = 0
  | [], _ => by simp
  | (k, v) :: r, h => by
    simp only [List.map_cons, List.mem_cons, not_or] at h
    have hk : ¬ k = P := fun e => h.1 e.symm
    simp only [List.map_cons, List.sum_cons, hk, if_false, zero_add]
    exact sum_key_not_mem P g r h.2

theorem sum_key_lookup {ν : Type} (P : Sym) (g : Sym × ν → Rat) :
    ∀ (rules : AList Sym ν), (rules.map (·.1)).Nodup →
      (rules.map (fun r => if r.1 = P then g r else 0)).sum
        = match AList.lookup P rules with
          | none => 0
          | some v => g (P, v)
  | [], _ => by simp
  | (k, v) :: r, hn => by
    simp only [List.map_cons, List.nodup_cons] at hn
    by_cases hk : k = P
    · subst hk
      simp only [List.map_cons, List.sum_cons, if_true, AList.lookup]
      rw [sum_key_not_mem k g r hn.1, add_zero]
    · simp only [List.map_cons, List.sum_cons, hk, if_false, zero_add, AList.lookup]
      exact sum_key_lookup P g r hn.2

theorem depth_le_depthList {α : Type} {t : Tree α} :
    ∀ {ts : List (Tree α)}, t ∈ ts → Tree.depth t ≤ Tree.depthList ts
  | [], h => by cases h
  | x :: xs, h => by
    rw [Tree.depthList]
    rcases List.mem_cons.mp h with h | h
    · subst h; exact Nat.le_max_left _ _
    · exact Nat.le_trans (depth_le_depthList h) (Nat.le_max_right _ _)

theorem sampleDist_mass (G : DetG)
    (hG : ∀ S rules, AList.lookup S G = some rules → (rules.map (·.1)).Nodup)
    (fuel : Nat) (S : NT) (t : Tree Sym) (hd : Tree.depth t ≤ fuel) :
    Dist.mass (sampleDist G fuel S) t = prob G S t := by
  induction fuel generalizing S t with
  | zero =>
    cases t with
    | node P kids => rw [Tree.depth] at hd; omega
  | succ fuel ih =>
    cases t with
    | node P kids =>
      rw [Tree.depth] at hd
      have hk : Tree.depthList kids ≤ fuel := by omega
      rw [sampleDist, prob]
      cases hS : AList.lookup S G with
      | none => simp [mass_nil]
      | some rules =>
        simp only [Option.bind_some]
        rw [mass_flatMap]
        simp only [mass_map_node]
        rw [sum_key_lookup P (fun r => r.2.2 * Dist.mass (distArgs (sampleDist G fuel) r.2.1) kids)
          rules (hG S rules hS)]
        cases hP : AList.lookup P rules with
        | none => rfl
        | some aw =>
          obtain ⟨args, w⟩ := aw
          simp only
          rw [mass_distArgs G (sampleDist G fuel) args kids
            (fun a t' ht' => ih a t' (Nat.le_trans (depth_le_depthList ht') hk))]

end PS.Sampler
