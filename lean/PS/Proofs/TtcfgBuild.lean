/-
  C13, part 10: COMPLETENESS of the worklist of `__saturation_build__` as it is now (work list
  keyed by rule key AND pending stack, fix 6d9766e; `stackKey = true` in the model).

  * `satLoop_closed`   worklist invariant: when the loop ends, the set `seen` of treated
                       (rule key, pending stack) pairs contains the start configuration, is closed
                       under every push of every treated pair, and every treated key has a row.
  * `closed_run`       hence every derivation of the rule creation (`idealFn`), started in a
                       treated configuration, only meets keys of the table: the table derives it.
  * `saturation_lang`  the language of the table returned = the language of the rule creation,
                       for every builder, DSL, request, fuel and program.
-/
import PS.Proofs.TtcfgSat
import PS.Proofs.TtcfgCleanLang
namespace PS.T
open PS PS.G

variable {S T : Type} [DecidableEq S] [DecidableEq T]

/-- a work-list entry `((type, S), state, pending stack)` -/
abbrev Entry (S T : Type) := (Ty × S) × T × List (Ty × S)

/-- the pair a work-list entry is recorded under in `seen` -/
def entryKey (x : Entry S T) : NT S T × List (Ty × S) := ((x.1.1, (x.1.2, x.2.1)), x.2.2)

/-- what one iteration of the loop pushes for the pair `(rule, stack)` (ttcfg.py:497-518) -/
def pushesOf (B : Builder S T) (prims : List Sym) (request : Ty) (rule : NT S T) (stack : List (Ty × S)) :
    List (Entry S T) :=
  (rowList B prims request rule).filterMap (fun r =>
    match r.2.1 ++ stack with
    | [] => none
    | x :: rest => some (x, r.2.2, rest))

/-- work-list invariant: every push of a treated pair is treated or still pending -/
def WInv (B : Builder S T) (prims : List Sym) (request : Ty) (seen : List (NT S T × List (Ty × S)))
    (todo : List (Entry S T)) : Prop :=
  ∀ x ∈ seen, ∀ p ∈ pushesOf B prims request x.1 x.2, entryKey p ∈ seen ∨ p ∈ todo

/-- `if rule not in rules: rules[rule] = {...}` keeps the keys and makes `rule` one -/
theorem step_contains {κ ν : Type} [DecidableEq κ] (v : ν) (tbl : AList κ ν) (rule : κ) :
    (∀ k, AList.contains k tbl = true →
      AList.contains k (if AList.contains rule tbl then tbl else AList.insert rule v tbl) = true) ∧
    AList.contains rule (if AList.contains rule tbl then tbl else AList.insert rule v tbl) = true := by
  by_cases hc : AList.contains rule tbl = true
  · simp only [hc, if_true]
    exact ⟨fun k hk => hk, trivial⟩
  · have hc' : AList.contains rule tbl = false := by simpa using hc
    simp only [hc', Bool.false_eq_true, if_false]
    refine ⟨fun k hk => ?_, ?_⟩
    · rw [insert_of_not_contains _ _ tbl hc']
      exact contains_append k tbl _ hk
    · unfold AList.contains; rw [AList.lookup_insert_self]; rfl

/-- **worklist invariant of `__saturation_build__`** (as repaired: keyed by rule and stack) -/
theorem satLoop_closed (B : Builder S T) (prims : List Sym) (request : Ty) :
    ∀ (fuel : Nat) (todo : List (Entry S T)) (seen : List (NT S T × List (Ty × S))) (tbl r : Table S T),
      WInv B prims request seen todo → (∀ x ∈ seen, AList.contains x.1 tbl = true) →
      satLoop B prims request true fuel todo seen tbl = some r →
      ∃ seen', (∀ x ∈ seen, x ∈ seen') ∧ (∀ x ∈ todo, entryKey x ∈ seen') ∧
        WInv B prims request seen' [] ∧ (∀ x ∈ seen', AList.contains x.1 r = true)
  | fuel, [], seen, tbl, r, hw, hs, h => by
    cases fuel <;> (simp only [satLoop, Option.some.injEq] at h; subst h;
                    exact ⟨seen, fun x hx => hx, (by intro x hx; cases hx), hw, hs⟩)
  | 0, _ :: _, _, _, _, _, _, h => by simp [satLoop] at h
  | fuel + 1, (slot, cur, stack) :: todo, seen, tbl, r, hw, hs, h => by
    rw [satLoop] at h
    simp only [if_true] at h
    by_cases hskip : seen.contains ((slot.1, (slot.2, cur)), stack) = true
    · simp only [hskip, if_true] at h
      have hmem : ((slot.1, (slot.2, cur)), stack) ∈ seen := by simpa using hskip
      have hw' : WInv B prims request seen todo := by
        intro x hx p hp
        rcases hw x hx p hp with h1 | h1
        · exact Or.inl h1
        · rcases List.mem_cons.mp h1 with e | h2
          · left; rw [e]; exact hmem
          · exact Or.inr h2
      obtain ⟨seen', i1, i2, i3, i4⟩ := satLoop_closed B prims request fuel todo seen tbl r hw' hs h
      refine ⟨seen', i1, ?_, i3, i4⟩
      intro x hx
      rcases List.mem_cons.mp hx with e | hm
      · subst e; exact i1 _ hmem
      · exact i2 x hm
    · simp only [hskip, Bool.false_eq_true, if_false] at h
      have hinvk := step_contains (rowDict B prims request (slot.1, (slot.2, cur))) tbl (slot.1, (slot.2, cur))
      obtain ⟨j2, j3⟩ := hinvk
      have hs' : ∀ x ∈ ((slot.1, (slot.2, cur)), stack) :: seen,
          AList.contains x.1 (if AList.contains (slot.1, (slot.2, cur)) tbl then tbl
            else AList.insert (slot.1, (slot.2, cur)) (rowDict B prims request (slot.1, (slot.2, cur))) tbl) = true := by
        intro x hx
        rcases List.mem_cons.mp hx with e | hm
        · subst e; exact j3
        · exact j2 _ (hs x hm)
      have hw' : WInv B prims request (((slot.1, (slot.2, cur)), stack) :: seen)
          ((pushesOf B prims request (slot.1, (slot.2, cur)) stack).reverse ++ todo) := by
        intro x hx p hp
        rcases List.mem_cons.mp hx with e | hm
        · subst e
          right
          exact List.mem_append.mpr (Or.inl (List.mem_reverse.mpr hp))
        · rcases hw x hm p hp with h1 | h1
          · exact Or.inl (List.mem_cons_of_mem _ h1)
          · rcases List.mem_cons.mp h1 with e | h2
            · left; rw [e]; exact List.mem_cons_self ..
            · exact Or.inr (List.mem_append.mpr (Or.inr h2))
      obtain ⟨seen', i1, i2, i3, i4⟩ := satLoop_closed B prims request fuel _ _ _ r hw' hs' h
      refine ⟨seen', fun x hx => i1 x (List.mem_cons_of_mem _ hx), ?_, i3, i4⟩
      intro x hx
      rcases List.mem_cons.mp hx with e | hm
      · subst e; exact i1 _ (List.mem_cons_self ..)
      · exact i2 x (List.mem_append.mpr (Or.inr hm))

/-- a set of (rule key, pending stack) pairs closed under the pushes of the loop -/
def Closed (B : Builder S T) (prims : List Sym) (request : Ty) (seen : List (NT S T × List (Ty × S))) : Prop :=
  ∀ (rule : NT S T) (stack : List (Ty × S)), (rule, stack) ∈ seen →
    ∀ (P : Sym) (args : List (Ty × S)) (st : T), rowsFn (rowDict B prims request) rule P = some (args, st) →
      ∀ (x : Ty × S) (rest : List (Ty × S)), args ++ stack = x :: rest → ((x.1, (x.2, st)), rest) ∈ seen

omit [DecidableEq S] [DecidableEq T] in
theorem closed_of_winv (B : Builder S T) (prims : List Sym) (request : Ty) (seen : List (NT S T × List (Ty × S)))
    (h : WInv B prims request seen []) : Closed B prims request seen := by
  intro rule stack hm P args st hr x rest hx
  have hmem : (P, (args, st)) ∈ rowList B prims request rule := by
    unfold rowsFn rowDict at hr
    rcases lookup_dictOf_mem P (args, st) (rowList B prims request rule) [] hr with h1 | h1
    · exact h1
    · simp [AList.lookup] at h1
  have hp : (x, st, rest) ∈ pushesOf B prims request rule stack := by
    unfold pushesOf
    rw [List.mem_filterMap]
    exact ⟨(P, (args, st)), hmem, by simp only; rw [hx]⟩
  rcases h (rule, stack) hm (x, st, rest) hp with h1 | h1
  · exact h1
  · cases h1

/-- on a key of a table whose rows are the rows of the rule creation, the table's rule function
    is the rule creation's -/
theorem rule_of_key (rows : NT S T → Row S T) (G : TT S T) (hrows : ∀ e ∈ G.rules, e.2 = rows e.1)
    (nt : NT S T) (hk : AList.contains nt G.rules = true) (P : Sym) : G.rule? nt P = rowsFn rows nt P := by
  obtain ⟨row, hrow⟩ := lookup_of_contains hk
  have := hrows _ (AList.lookup_some_mem hrow)
  simp only at this
  unfold TT.rule? rowsFn
  rw [hrow, this]

/-- **completeness**: a derivation of the rule creation that starts in a treated configuration
    stays inside the treated configurations, hence inside the keys of the table -/
theorem closed_run (B : Builder S T) (prims : List Sym) (request : Ty) (seen : List (NT S T × List (Ty × S)))
    (G : TT S T) (hcl : Closed B prims request seen) (hkeys : ∀ x ∈ seen, AList.contains x.1 G.rules = true)
    (hrows : ∀ e ∈ G.rules, e.2 = rowDict B prims request e.1) : ∀ n : Nat,
    (∀ t : Prog, Tree.size t ≤ n → ∀ (a : Ty × S) (v w : T) (stk : List (Ty × S)),
      ((a.1, (a.2, v)), stk) ∈ seen → run (rowsFn (rowDict B prims request)) t a v = some w →
      run G.rule? t a v = some w ∧ ∀ x rest, stk = x :: rest → ((x.1, (x.2, w)), rest) ∈ seen) ∧
    (∀ ks : List Prog, Tree.sizeList ks ≤ n → ∀ (args : List (Ty × S)) (v w : T) (stk : List (Ty × S)),
      (∀ x rest, args ++ stk = x :: rest → ((x.1, (x.2, v)), rest) ∈ seen) →
      runList (rowsFn (rowDict B prims request)) ks args v = some w →
      runList G.rule? ks args v = some w ∧ ∀ x rest, stk = x :: rest → ((x.1, (x.2, w)), rest) ∈ seen) := by
  intro n
  induction n with
  | zero =>
    constructor
    · intro t ht; cases t with | node f kids => simp [Tree.size] at ht
    · intro ks hks args v w stk hin hr
      cases ks with
      | nil => cases args with
        | nil =>
          simp only [runList, Option.some.injEq] at hr; subst hr
          exact ⟨by simp [runList], fun x rest e => hin x rest (by simpa using e)⟩
        | cons a as => simp [runList] at hr
      | cons k ks => cases k with | node f kids => simp [Tree.sizeList, Tree.size] at hks
  | succ n ih =>
    have node_case : ∀ (f : Sym) (kids : List Prog), Tree.sizeList kids ≤ n → ∀ (a : Ty × S) (v w : T) (stk : List (Ty × S)),
        ((a.1, (a.2, v)), stk) ∈ seen → run (rowsFn (rowDict B prims request)) (.node f kids) a v = some w →
        run G.rule? (.node f kids) a v = some w ∧ ∀ x rest, stk = x :: rest → ((x.1, (x.2, w)), rest) ∈ seen := by
      intro f kids hs a v w stk hin hr
      rw [run] at hr ⊢
      rw [rule_of_key _ G hrows _ (hkeys _ hin) f]
      cases h1 : rowsFn (rowDict B prims request) (a.1, (a.2, v)) f with
      | none => simp [h1] at hr
      | some val =>
        obtain ⟨args, st⟩ := val
        simp only [h1] at hr ⊢
        exact ih.2 kids hs args st w stk (fun x rest e => hcl _ _ hin f args st h1 x rest e) hr
    constructor
    · intro t ht a v w stk hin hr
      cases t with
      | node f kids => exact node_case f kids (by simp [Tree.size] at ht; omega) a v w stk hin hr
    · intro ks hks args v w stk hin hr
      cases ks with
      | nil => cases args with
        | nil =>
          simp only [runList, Option.some.injEq] at hr; subst hr
          exact ⟨by simp [runList], fun x rest e => hin x rest (by simpa using e)⟩
        | cons a as => simp [runList] at hr
      | cons k ks =>
        cases args with
        | nil => simp [runList] at hr
        | cons a as =>
          rw [runList] at hr ⊢
          cases h1 : run (rowsFn (rowDict B prims request)) k a v with
          | none => simp [h1] at hr
          | some v1 =>
            simp only [h1] at hr
            have hpos : 1 ≤ Tree.size k := by cases k with | node f kids => simp [Tree.size]
            have hks' : Tree.sizeList ks ≤ n := by simp [Tree.sizeList] at hks; omega
            have hk : run G.rule? k a v = some v1 ∧ ∀ x rest, as ++ stk = x :: rest → ((x.1, (x.2, v1)), rest) ∈ seen := by
              cases k with
              | node f kids =>
                exact node_case f kids (by simp [Tree.sizeList, Tree.size] at hks; omega) a v v1 (as ++ stk)
                  (hin a (as ++ stk) rfl) h1
            rw [hk.1]
            exact ih.2 ks hks' as v1 w stk hk.2 hr

/-- **the worklist closes**: there is a set of (rule key, pending stack) pairs that contains the
    start configuration, is closed under every push, and whose keys all have a row in the table
    returned -/
theorem saturation_closed (B : Builder S T) (prims : List Sym) (request : Ty) (fuel : Nat) (G : TT S T)
    (h : saturationTable B prims request true fuel = some G) :
    ∃ seen, ((request.returns, B.init), []) ∈ seen ∧ Closed B prims request seen ∧
      ∀ x ∈ seen, AList.contains x.1 G.rules = true := by
  unfold saturationTable at h
  cases hl : satLoop B prims request true fuel [((request.returns, B.init.1), B.init.2, [])] [] [] with
  | none => simp [hl] at h
  | some tbl =>
    simp only [hl, Option.some.injEq] at h
    subst h
    obtain ⟨seen', _, i2, i3, i4⟩ := satLoop_closed B prims request fuel _ [] [] tbl
      (by intro x hx; cases hx) (by intro x hx; cases hx) hl
    exact ⟨seen', i2 _ (List.mem_singleton.mpr rfl), closed_of_winv B prims request seen' i3, i4⟩

/-- **`__saturation_build__` is complete**: every program the rule creation derives from the start
    symbol is derived by the table returned - with the same end state -/
theorem saturation_complete (B : Builder S T) (prims : List Sym) (request : Ty) (fuel : Nat) (G : TT S T)
    (h : saturationTable B prims request true fuel = some G) (t : Prog) (w : T)
    (hr : run (rowsFn (rowDict B prims request)) t (request.returns, B.init.1) B.init.2 = some w) :
    run G.rule? t (request.returns, B.init.1) B.init.2 = some w := by
  obtain ⟨seen, hin, hcl, hkeys⟩ := saturation_closed B prims request fuel G h
  obtain ⟨_, _, _, hrows⟩ := saturationTable_spec B prims request true fuel G h
  exact ((closed_run B prims request seen G hcl hkeys hrows (Tree.size t)).1 t (Nat.le_refl _)
    (request.returns, B.init.1) B.init.2 w [] hin hr).1

/-- **language of the uncleaned table = language of the rule creation** -/
theorem saturation_lang (B : Builder S T) (dsl : Dsl) (request : Ty) (fuel : Nat) (G : TT S T)
    (h : saturationTable B dsl.prims request true fuel = some G) (t : Prog) :
    inLang G t = (run (idealFn B dsl request) t (request.returns, B.init.1) B.init.2).isSome := by
  have hs := (saturationTable_spec B dsl.prims request true fuel G h).1
  unfold inLang
  rw [hs]
  simp only [startOf]
  cases hi : run (idealFn B dsl request) t (request.returns, B.init.1) B.init.2 with
  | some w => rw [saturation_complete B dsl.prims request fuel G h t w hi]
  | none =>
    cases hg : run G.rule? t (request.returns, B.init.1) B.init.2 with
    | none => rfl
    | some w =>
      have := (run_mono _ _ (saturation_rule B dsl request true fuel G h)).1 t _ _ w hg
      rw [hi] at this; cases this

/-! ### the types of the non-terminals created -/

theorem endsWithRec_sub : ∀ (t other : Ty) (acc tys : List Ty), Ty.endsWithRec t other acc = some tys →
    ∀ a ∈ tys, a ∈ acc ∨ a ∈ t.arguments
  | .arrow x y, other, acc, tys, h => by
    rw [Ty.endsWithRec] at h
    by_cases he : Ty.arrow x y = other
    · simp only [he, if_true, Option.some.injEq] at h; subst h
      intro a ha; exact Or.inl ha
    · simp only [he, if_false] at h
      intro a ha
      rcases endsWithRec_sub y other (acc ++ [x]) tys h a ha with h1 | h1
      · rcases List.mem_append.mp h1 with h2 | h2
        · exact Or.inl h2
        · right; simp only [List.mem_singleton] at h2; subst h2; simp [Ty.arguments]
      · right; simp [Ty.arguments, h1]
  | .base n, other, acc, tys, h => by
    simp only [Ty.endsWithRec] at h
    by_cases he : Ty.base n = other
    · simp only [he, if_true, Option.some.injEq] at h; subst h; intro a ha; exact Or.inl ha
    · simp [he] at h
  | .gen n x, other, acc, tys, h => by
    simp only [Ty.endsWithRec] at h
    by_cases he : Ty.gen n x = other
    · simp only [he, if_true, Option.some.injEq] at h; subst h; intro a ha; exact Or.inl ha
    · simp [he] at h
  | .unknown, other, acc, tys, h => by
    simp only [Ty.endsWithRec] at h
    by_cases he : Ty.unknown = other
    · simp only [he, if_true, Option.some.injEq] at h; subst h; intro a ha; exact Or.inl ha
    · simp [he] at h

/-- the arguments a primitive takes at a slot are among its declared arguments -/
theorem endsWith_sub (t other : Ty) (tys : List Ty) (h : Ty.endsWith t other = some tys) :
    ∀ a ∈ tys, a ∈ t.arguments := by
  intro a ha
  rcases endsWithRec_sub t other [] tys h a ha with h1 | h1
  · cases h1
  · exact h1

/-- neither the request's return type nor a declared argument of a primitive is the end marker
    `UnknownType` of `TTCFG.derive` (decidable; true of every DSL built from type strings) -/
def noUnknownDsl (dsl : Dsl) (request : Ty) : Bool :=
  decide (request.returns ≠ Ty.unknown) && dsl.prims.all (fun p => p.ty.arguments.all (fun a => decide (a ≠ Ty.unknown)))

omit [DecidableEq S] [DecidableEq T] in
/-- the argument slots of a created rule have declared argument types -/
theorem rowList_types (B : Builder S T) (prims : List Sym) (request : Ty) (rule : NT S T)
    (r : Sym × (List (Ty × S) × T)) (hr : r ∈ rowList B prims request rule) (y : Ty × S) (hy : y ∈ r.2.1) :
    ∃ p ∈ prims, y.1 ∈ p.ty.arguments := by
  obtain ⟨P, val⟩ := r
  obtain ⟨c, hc, h1, _, hv⟩ := (mem_rowList B prims request rule P val).mp hr
  subst hv
  simp only [decorate, List.mem_map] at hy
  obtain ⟨ia, hia, e⟩ := hy
  obtain ⟨i, a⟩ := ia
  have ha : a ∈ c.2 := List.mem_of_getElem? ((mem_enumFrom' _ _ _).mp hia)
  rcases (mem_candidates _ _ _ _).mp hc with ⟨j, _, ec⟩ | ⟨hp, he⟩
  · rw [ec] at ha; cases ha
  · exact ⟨c.1, hp, by rw [← e]; exact endsWith_sub _ _ _ he a ha⟩

/-- every key of the table, every pending slot: a type satisfying `Q` -/
theorem satLoop_types (B : Builder S T) (prims : List Sym) (request : Ty) (stackKey : Bool) (Q : Ty → Prop)
    (hQ : ∀ p ∈ prims, ∀ a ∈ p.ty.arguments, Q a) :
    ∀ (fuel : Nat) (todo : List (Entry S T)) (seen : List (NT S T × List (Ty × S))) (tbl r : Table S T),
      (∀ e ∈ tbl, Q e.1.1) → (∀ x ∈ todo, Q x.1.1 ∧ ∀ y ∈ x.2.2, Q y.1) →
      satLoop B prims request stackKey fuel todo seen tbl = some r → ∀ e ∈ r, Q e.1.1
  | fuel, [], seen, tbl, r, ht, _, h => by
    cases fuel <;> (simp only [satLoop, Option.some.injEq] at h; subst h; exact ht)
  | 0, _ :: _, _, _, _, _, _, h => by simp [satLoop] at h
  | fuel + 1, (slot, cur, stack) :: todo, seen, tbl, r, ht, hd, h => by
    rw [satLoop] at h
    simp only at h
    have hd' : ∀ x ∈ todo, Q x.1.1 ∧ ∀ y ∈ x.2.2, Q y.1 := fun x hx => hd x (List.mem_cons_of_mem _ hx)
    obtain ⟨hq1, hq2⟩ := hd _ (List.mem_cons_self ..)
    simp only at hq1 hq2
    by_cases hskip : (if stackKey then seen.contains ((slot.1, (slot.2, cur)), stack) else AList.contains (slot.1, (slot.2, cur)) tbl) = true
    · simp only [hskip, if_true] at h
      exact satLoop_types B prims request stackKey Q hQ fuel todo seen tbl r ht hd' h
    · simp only [hskip, Bool.false_eq_true, if_false] at h
      refine satLoop_types B prims request stackKey Q hQ fuel _ _ _ r ?_ ?_ h
      · by_cases hc : AList.contains (slot.1, (slot.2, cur)) tbl = true
        · simp only [hc, if_true]; exact ht
        · have hc' : AList.contains (slot.1, (slot.2, cur)) tbl = false := by simpa using hc
          simp only [hc', Bool.false_eq_true, if_false]
          rw [insert_of_not_contains _ _ tbl hc']
          intro e he
          rcases List.mem_append.mp he with h1 | h1
          · exact ht e h1
          · simp only [List.mem_singleton] at h1; subst h1; exact hq1
      · intro x hx
        rcases List.mem_append.mp hx with h1 | h1
        · rw [List.mem_reverse, List.mem_filterMap] at h1
          obtain ⟨r0, hr0, e⟩ := h1
          have hall : ∀ y ∈ r0.2.1 ++ stack, Q y.1 := by
            intro y hy
            rcases List.mem_append.mp hy with h2 | h2
            · obtain ⟨p, hp, ha⟩ := rowList_types B prims request _ r0 hr0 y h2
              exact hQ p hp _ ha
            · exact hq2 y h2
          cases hm : r0.2.1 ++ stack with
          | nil => simp [hm] at e
          | cons x0 rest =>
            simp only [hm, Option.some.injEq] at e
            subst e
            rw [hm] at hall
            exact ⟨hall x0 (List.mem_cons_self ..), fun y hy => hall y (List.mem_cons_of_mem _ hy)⟩
        · exact hd' x h1

/-- **no non-terminal of the saturation table has the end-marker type** -/
theorem saturation_noUnknown (B : Builder S T) (dsl : Dsl) (request : Ty) (stackKey : Bool) (fuel : Nat) (G : TT S T)
    (hd : noUnknownDsl dsl request = true) (h : saturationTable B dsl.prims request stackKey fuel = some G) :
    noUnknownKey G = true := by
  unfold noUnknownDsl at hd
  simp only [Bool.and_eq_true, decide_eq_true_eq, List.all_eq_true] at hd
  unfold saturationTable at h
  cases hl : satLoop B dsl.prims request stackKey fuel [((request.returns, B.init.1), B.init.2, [])] [] [] with
  | none => simp [hl] at h
  | some tbl =>
    simp only [hl, Option.some.injEq] at h
    subst h
    have := satLoop_types B dsl.prims request stackKey (fun a => a ≠ Ty.unknown) (fun p hp a ha => hd.2 p hp a ha)
      fuel _ [] [] tbl (by intro e he; cases he)
      (by intro x hx; rw [List.mem_singleton.mp hx]; exact ⟨hd.1, by intro y hy; cases hy⟩) hl
    unfold noUnknownKey
    rw [List.all_eq_true]
    intro e he
    simpa using this e he

end PS.T
