/-
  C13, part 2: the verified checker `subOK`.  A table accepted by it has exactly the language
  of the reference rule function it was checked against - for ALL programs.
-/
import PS.Proofs.TtcfgRun
namespace PS.T
open PS PS.G

variable {S T : Type} [DecidableEq S] [DecidableEq T]

/-- the rule function of a row function -/
def rowsFn (rows : NT S T → Row S T) : RuleFn S T := fun nt P => AList.lookup P (rows nt)

omit [DecidableEq S] [DecidableEq T] in
/-- `run` is monotone in the rule function -/
theorem run_mono (ρ₁ ρ₂ : RuleFn S T) (h : ∀ nt P val, ρ₁ nt P = some val → ρ₂ nt P = some val) :
    (∀ (t : Prog) (slot : Ty × S) (v w : T), run ρ₁ t slot v = some w → run ρ₂ t slot v = some w) ∧
    (∀ (ks : List Prog) (args : List (Ty × S)) (v w : T), runList ρ₁ ks args v = some w → runList ρ₂ ks args v = some w) := by
  have key : ∀ n : Nat,
      (∀ (t : Prog), Tree.size t ≤ n → ∀ (slot : Ty × S) (v w : T), run ρ₁ t slot v = some w → run ρ₂ t slot v = some w) ∧
      (∀ (ks : List Prog), Tree.sizeList ks ≤ n → ∀ (args : List (Ty × S)) (v w : T),
        runList ρ₁ ks args v = some w → runList ρ₂ ks args v = some w) := by
    intro n
    induction n with
    | zero =>
      constructor
      · intro t ht; cases t with | node f kids => simp [Tree.size] at ht
      · intro ks hks args v w hr
        cases ks with
        | nil => cases args with
          | nil => simpa [runList] using hr
          | cons a as => simp [runList] at hr
        | cons k ks =>
          cases k with | node f kids => simp [Tree.sizeList, Tree.size] at hks
    | succ n ih =>
      constructor
      · intro t ht slot v w hr
        cases t with
        | node f kids =>
          rw [run] at hr ⊢
          cases h1 : ρ₁ (slot.1, (slot.2, v)) f with
          | none => simp [h1] at hr
          | some val =>
            obtain ⟨args, st⟩ := val
            rw [h (slot.1, (slot.2, v)) f (args, st) h1]
            simp only [h1] at hr
            simp only
            have hs : Tree.sizeList kids ≤ n := by simp [Tree.size] at ht; omega
            exact ih.2 kids hs args st w hr
      · intro ks hks args v w hr
        cases ks with
        | nil => cases args with
          | nil => simpa [runList] using hr
          | cons a as => simp [runList] at hr
        | cons k ks =>
          cases args with
          | nil => simp [runList] at hr
          | cons a as =>
            rw [runList] at hr ⊢
            cases h1 : run ρ₁ k a v with
            | none => simp [h1] at hr
            | some v1 =>
              simp only [h1] at hr
              have hk : Tree.size k ≤ n + 1 := by simp [Tree.sizeList] at hks; omega
              have hpos : 1 ≤ Tree.size k := by cases k with | node f kids => simp [Tree.size]
              have hks' : Tree.sizeList ks ≤ n := by simp [Tree.sizeList] at hks; omega
              -- the head may be as large as n+1 only if the tail is empty; use both halves
              have hrun2 : run ρ₂ k a v = some v1 := by
                cases k with
                | node f kids =>
                  rw [run] at h1 ⊢
                  cases h2 : ρ₁ (a.1, (a.2, v)) f with
                  | none => simp [h2] at h1
                  | some val =>
                    obtain ⟨args', st⟩ := val
                    rw [h (a.1, (a.2, v)) f (args', st) h2]
                    simp only [h2] at h1
                    simp only
                    have hs : Tree.sizeList kids ≤ n := by simp [Tree.size] at hk; omega
                    exact ih.2 kids hs args' st v1 h1
              rw [hrun2]
              exact ih.2 ks hks' as v1 w hr
  exact ⟨fun t slot v w hr => (key (Tree.size t)).1 t (Nat.le_refl _) slot v w hr,
         fun ks args v w hr => (key (Tree.sizeList ks)).2 ks (Nat.le_refl _) args v w hr⟩

/-! ### the chain functions -/

theorem chainStep_spec (G : TT S T) (outs : AList (NT S T) (List T)) (dead : List (NT S T)) (ok : NT S T → Bool)
    (a : Ty × S) : ∀ (V V' : List T), chainStep G outs dead ok a V = some V' →
      ∀ v ∈ V, (AList.contains (a.1, (a.2, v)) G.rules = true →
                  ok (a.1, (a.2, v)) = true ∧ ∀ w ∈ outsOf outs (a.1, (a.2, v)), w ∈ V') ∧
               (AList.contains (a.1, (a.2, v)) G.rules = false → (a.1, (a.2, v)) ∈ dead)
  | [], _, _ => by intro v hv; cases hv
  | x :: xs, V', h => by
    rw [chainStep] at h
    cases hrec : chainStep G outs dead ok a xs with
    | none => simp [hrec] at h
    | some r =>
      simp only [hrec] at h
      have ih := chainStep_spec G outs dead ok a xs r hrec
      intro v hv
      by_cases hc : AList.contains (a.1, (a.2, x)) G.rules = true
      · simp only [hc, if_true] at h
        by_cases hok : ok (a.1, (a.2, x)) = true
        · simp only [hok, if_true, Option.some.injEq] at h
          subst h
          rcases List.mem_cons.mp hv with hv | hv
          · subst hv
            exact ⟨fun _ => ⟨hok, fun w hw => List.mem_append.mpr (Or.inl hw)⟩, fun hn => by simp [hc] at hn⟩
          · obtain ⟨i1, i2⟩ := ih v hv
            exact ⟨fun hcv => ⟨(i1 hcv).1, fun w hw => List.mem_append.mpr (Or.inr ((i1 hcv).2 w hw))⟩, i2⟩
        · simp [hok] at h
      · have hc' : AList.contains (a.1, (a.2, x)) G.rules = false := by simpa using hc
        simp only [hc', Bool.false_eq_true, if_false] at h
        cases hd : dead.contains (a.1, (a.2, x)) with
        | true =>
          simp only [hd, if_true, Option.some.injEq] at h
          subst h
          rcases List.mem_cons.mp hv with hv | hv
          · subst hv
            exact ⟨fun hcv => by simp [hc'] at hcv, fun _ => by simpa using hd⟩
          · exact ih v hv
        | false =>
          rw [hd] at h
          simp at h

/-- a chain that succeeds from `V` succeeds from every subset, with a smaller result -/
theorem chainStep_subset (G : TT S T) (outs : AList (NT S T) (List T)) (dead : List (NT S T)) (ok : NT S T → Bool)
    (a : Ty × S) : ∀ (V V' W : List T), chainStep G outs dead ok a V = some V' → (∀ w ∈ W, w ∈ V) →
      ∃ W', chainStep G outs dead ok a W = some W' ∧ ∀ w ∈ W', w ∈ V'
  | V, V', [], _, _ => ⟨[], by simp [chainStep], by intro w hw; cases hw⟩
  | V, V', x :: xs, h, hsub => by
    obtain ⟨W1, h1, h2⟩ := chainStep_subset G outs dead ok a V V' xs h (fun w hw => hsub w (List.mem_cons_of_mem _ hw))
    have hx := chainStep_spec G outs dead ok a V V' h x (hsub x (List.mem_cons_self ..))
    rw [chainStep, h1]
    by_cases hc : AList.contains (a.1, (a.2, x)) G.rules = true
    · obtain ⟨hok, hout⟩ := hx.1 hc
      simp only [hc, hok, if_true]
      refine ⟨_, rfl, ?_⟩
      intro w hw
      rcases List.mem_append.mp hw with hw | hw
      · exact hout w hw
      · exact h2 w hw
    · have hc' : AList.contains (a.1, (a.2, x)) G.rules = false := by simpa using hc
      have hd := hx.2 hc'
      have hd' : dead.contains (a.1, (a.2, x)) = true := by simpa using hd
      simp only [hc', Bool.false_eq_true, if_false, hd', if_true]
      exact ⟨_, rfl, h2⟩

theorem chain_subset (G : TT S T) (outs : AList (NT S T) (List T)) (dead : List (NT S T)) (ok : NT S T → Bool) :
    ∀ (args : List (Ty × S)) (V V' W : List T), chain G outs dead ok args V = some V' → (∀ w ∈ W, w ∈ V) →
      ∃ W', chain G outs dead ok args W = some W' ∧ ∀ w ∈ W', w ∈ V'
  | [], V, V', W, h, hsub => by
    simp only [chain, Option.some.injEq] at h
    subst h
    exact ⟨W, by simp [chain], hsub⟩
  | a :: as, V, V', W, h, hsub => by
    rw [chain] at h
    cases h1 : chainStep G outs dead ok a V with
    | none => simp [h1] at h
    | some V1 =>
      simp only [h1] at h
      obtain ⟨W1, hw1, hs1⟩ := chainStep_subset G outs dead ok a V V1 W h1 hsub
      obtain ⟨W2, hw2, hs2⟩ := chain_subset G outs dead ok as V1 V' W1 h hs1
      exact ⟨W2, by rw [chain, hw1]; exact hw2, hs2⟩

/-! ### soundness of `subOK` -/

/-- the components of `subOK`, as propositions -/
structure SubCert (rows : NT S T → Row S T) (G : TT S T) (outs : AList (NT S T) (List T)) (dead : List (NT S T)) : Prop where
  nodup : (AList.keys G.rules).Nodup
  sub : ∀ e ∈ G.rules, rowSub e.2 (rows e.1) = true
  kept : ∀ e ∈ G.rules, ∀ r ∈ rows e.1, ∃ V, chain G outs dead (fun _ => true) r.2.1 [r.2.2] = some V ∧
          (if (AList.lookup r.1 e.2).isSome then ∀ v ∈ V, v ∈ outsOf outs e.1 else V = [])
  deadNoKey : ∀ d ∈ dead, AList.contains d G.rules = false
  deadRows : ∀ d ∈ dead, ∀ r ∈ rows d, chain G outs dead (fun _ => true) r.2.1 [r.2.2] = some []
  start : AList.contains G.start G.rules = true ∨ G.start ∈ dead

theorem subCert_of_subOK (rows : NT S T → Row S T) (G : TT S T) (outs : AList (NT S T) (List T)) (dead : List (NT S T))
    (h : subOK rows G outs dead = true) : SubCert rows G outs dead := by
  unfold subOK at h
  simp only [Bool.and_eq_true, decide_eq_true_eq, List.all_eq_true, Bool.or_eq_true] at h
  obtain ⟨⟨⟨hnd, hkeys⟩, hdead⟩, hstart⟩ := h
  refine ⟨hnd, fun e he => (hkeys e he).1, ?_, ?_, ?_, ?_⟩
  · intro e he r hr
    have := (hkeys e he).2 r hr
    cases hch : chain G outs dead (fun _ => true) r.2.1 [r.2.2] with
    | none => simp [hch] at this
    | some V =>
      refine ⟨V, rfl, ?_⟩
      simp only [hch] at this
      by_cases hl : (AList.lookup r.1 e.2).isSome = true
      · simp only [hl, if_true] at this ⊢
        intro v hv
        simpa using List.all_eq_true.mp this v hv
      · simp only [hl] at this ⊢
        simpa using this
  · intro d hd
    simpa using (hdead d hd).1
  · intro d hd r hr
    have := (hdead d hd).2 r hr
    cases hch : chain G outs dead (fun _ => true) r.2.1 [r.2.2] with
    | none => simp [hch] at this
    | some V =>
      simp only [hch] at this
      have : V = [] := by simpa using this
      rw [this]
  · rcases hstart with h | h
    · exact Or.inl h
    · exact Or.inr (by simpa using h)

theorem lookup_of_contains {κ ν : Type} [DecidableEq κ] {k : κ} {d : AList κ ν}
    (h : AList.contains k d = true) : ∃ v, AList.lookup k d = some v :=
  AList.contains_iff_lookup.mp h

theorem contains_of_lookup {κ ν : Type} [DecidableEq κ] {k : κ} {d : AList κ ν} {v : ν}
    (h : AList.lookup k d = some v) : AList.contains k d = true :=
  AList.contains_iff_lookup.mpr ⟨v, h⟩

/-- kept rules of an accepted table are the reference rules -/
theorem rule_of_sub (rows : NT S T → Row S T) (G : TT S T)
    (hsub : ∀ e ∈ G.rules, rowSub e.2 (rows e.1) = true) (nt : NT S T) (P : Sym) (val : List (Ty × S) × T)
    (h : G.rule? nt P = some val) : rowsFn rows nt P = some val := by
  unfold TT.rule? at h
  cases hl : AList.lookup nt G.rules with
  | none => simp [hl] at h
  | some row =>
    simp only [hl] at h
    have hmem := AList.lookup_some_mem hl
    have hr := hsub (nt, row) hmem
    unfold rowSub at hr
    rw [List.all_eq_true] at hr
    have := hr (P, val) (AList.lookup_some_mem h)
    simpa [rowsFn] using this

/-- soundness half: an accepted table generates only programs of the reference -/
theorem sub_run (rows : NT S T → Row S T) (G : TT S T)
    (hsub : ∀ e ∈ G.rules, rowSub e.2 (rows e.1) = true) (t : Prog) (slot : Ty × S) (v w : T)
    (h : run G.rule? t slot v = some w) : run (rowsFn rows) t slot v = some w :=
  (run_mono G.rule? (rowsFn rows) (rule_of_sub rows G hsub)).1 t slot v w h

/-- completeness half (the certificate): nothing derivable by the reference is lost, and dead
    non-terminals derive nothing -/
theorem cert_run (rows : NT S T → Row S T) (G : TT S T) (outs : AList (NT S T) (List T)) (dead : List (NT S T))
    (C : SubCert rows G outs dead) :
    ∀ n : Nat,
      (∀ (t : Prog), Tree.size t ≤ n → ∀ (slot : Ty × S) (v w : T), run (rowsFn rows) t slot v = some w →
        (AList.contains (slot.1, (slot.2, v)) G.rules = true →
            run G.rule? t slot v = some w ∧ w ∈ outsOf outs (slot.1, (slot.2, v))) ∧
        ((slot.1, (slot.2, v)) ∈ dead → False)) ∧
      (∀ (ks : List Prog), Tree.sizeList ks ≤ n → ∀ (args : List (Ty × S)) (v w : T) (V V' : List T),
        v ∈ V → chain G outs dead (fun _ => true) args V = some V' →
        runList (rowsFn rows) ks args v = some w → runList G.rule? ks args v = some w ∧ w ∈ V') := by
  intro n
  induction n with
  | zero =>
    constructor
    · intro t ht; cases t with | node f kids => simp [Tree.size] at ht
    · intro ks hks args v w V V' hv hch hr
      cases ks with
      | nil => cases args with
        | nil =>
          simp only [runList, Option.some.injEq] at hr
          simp only [chain, Option.some.injEq] at hch
          subst hr; subst hch
          exact ⟨by simp [runList], hv⟩
        | cons a as => simp [runList] at hr
      | cons k ks => cases k with | node f kids => simp [Tree.sizeList, Tree.size] at hks
  | succ n ih =>
    have node_case : ∀ (f : Sym) (kids : List Prog), Tree.sizeList kids ≤ n → ∀ (slot : Ty × S) (v w : T),
        run (rowsFn rows) (.node f kids) slot v = some w →
        (AList.contains (slot.1, (slot.2, v)) G.rules = true →
            run G.rule? (.node f kids) slot v = some w ∧ w ∈ outsOf outs (slot.1, (slot.2, v))) ∧
        ((slot.1, (slot.2, v)) ∈ dead → False) := by
      intro f kids hs slot v w hr
      rw [run] at hr
      cases h1 : rowsFn rows (slot.1, (slot.2, v)) f with
      | none => simp [h1] at hr
      | some val =>
        obtain ⟨args, st⟩ := val
        simp only [h1] at hr
        have hmem : (f, (args, st)) ∈ rows (slot.1, (slot.2, v)) := AList.lookup_some_mem h1
        constructor
        · intro hc
          obtain ⟨row, hrow⟩ := lookup_of_contains hc
          have he := AList.lookup_some_mem hrow
          obtain ⟨V, hch, hV⟩ := C.kept _ he _ hmem
          simp only at hch hV
          obtain ⟨hrunG, hw⟩ := ih.2 kids hs args st w [st] V (List.mem_singleton.mpr rfl) hch hr
          cases hl : AList.lookup f row with
          | none =>
            simp only [hl, Option.isSome_none, Bool.false_eq_true, if_false] at hV
            subst hV; cases hw
          | some val' =>
            simp only [hl, Option.isSome_some, if_true] at hV
            have hG : G.rule? (slot.1, (slot.2, v)) f = some val' := by
              unfold TT.rule?; rw [hrow]; exact hl
            have := rule_of_sub rows G C.sub _ _ _ hG
            rw [h1] at this
            cases this
            refine ⟨?_, hV w hw⟩
            rw [run, hG]
            exact hrunG
        · intro hd
          have hch := C.deadRows _ hd _ hmem
          simp only at hch
          have := (ih.2 kids hs args st w [st] [] (List.mem_singleton.mpr rfl) hch hr).2
          cases this
    constructor
    · intro t ht slot v w hr
      cases t with
      | node f kids =>
        have hs : Tree.sizeList kids ≤ n := by simp [Tree.size] at ht; omega
        exact node_case f kids hs slot v w hr
    · intro ks hks args v w V V' hv hch hr
      cases ks with
      | nil => cases args with
        | nil =>
          simp only [runList, Option.some.injEq] at hr
          simp only [chain, Option.some.injEq] at hch
          subst hr; subst hch
          exact ⟨by simp [runList], hv⟩
        | cons a as => simp [runList] at hr
      | cons k ks =>
        cases args with
        | nil => simp [runList] at hr
        | cons a as =>
          rw [runList] at hr
          cases h1 : run (rowsFn rows) k a v with
          | none => simp [h1] at hr
          | some v1 =>
            simp only [h1] at hr
            rw [chain] at hch
            cases hcs : chainStep G outs dead (fun _ => true) a V with
            | none => simp [hcs] at hch
            | some V1 =>
              simp only [hcs] at hch
              have hspec := chainStep_spec G outs dead (fun _ => true) a V V1 hcs v hv
              have hks' : Tree.sizeList ks ≤ n := by
                have hpos : 1 ≤ Tree.size k := by cases k with | node f kids => simp [Tree.size]
                simp [Tree.sizeList] at hks; omega
              have hkfacts : (AList.contains (a.1, (a.2, v)) G.rules = true →
                    run G.rule? k a v = some v1 ∧ v1 ∈ outsOf outs (a.1, (a.2, v))) ∧
                  ((a.1, (a.2, v)) ∈ dead → False) := by
                cases k with
                | node f kids =>
                  have hs : Tree.sizeList kids ≤ n := by simp [Tree.sizeList, Tree.size] at hks; omega
                  exact node_case f kids hs a v v1 h1
              by_cases hc : AList.contains (a.1, (a.2, v)) G.rules = true
              · obtain ⟨hk1, hk2⟩ := hkfacts.1 hc
                have hv1 : v1 ∈ V1 := (hspec.1 hc).2 v1 hk2
                obtain ⟨hr2, hw⟩ := ih.2 ks hks' as v1 w V1 V' hv1 hch hr
                refine ⟨?_, hw⟩
                rw [runList, hk1]; exact hr2
              · have hc' : AList.contains (a.1, (a.2, v)) G.rules = false := by simpa using hc
                exact absurd (hspec.2 hc') (fun hd => hkfacts.2 hd)

/-- **certified language**: a table accepted by `subOK` against the rule function `rows`
    contains exactly the programs that `rows` derives from the start symbol - whatever produced
    the table and the certificate. -/
theorem cert_lang (rows : NT S T → Row S T) (G : TT S T) (outs : AList (NT S T) (List T)) (dead : List (NT S T))
    (h : subOK rows G outs dead = true) (t : Prog) :
    inLang G t = (run (rowsFn rows) t (G.start.1, G.start.2.1) G.start.2.2).isSome := by
  have C := subCert_of_subOK rows G outs dead h
  unfold inLang
  cases hG : run G.rule? t (G.start.1, G.start.2.1) G.start.2.2 with
  | some w =>
    rw [sub_run rows G C.sub t _ _ w hG]
  | none =>
    cases hR : run (rowsFn rows) t (G.start.1, G.start.2.1) G.start.2.2 with
    | none => rfl
    | some w =>
      have := (cert_run rows G outs dead C (Tree.size t)).1 t (Nat.le_refl _) _ _ w hR
      rcases C.start with hs | hs
      · have h2 := (this.1 hs).1
        rw [hG] at h2; cases h2
      · exact absurd hs (fun hd => this.2 hd)

end PS.T
