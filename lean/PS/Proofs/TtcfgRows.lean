/-
  C13, part 3: the rule-creation step of `__saturation_build__` as a rule function: what
  `rules[rule][P]` holds after one iteration of the worklist loop.
-/
import PS.Proofs.TtcfgCert
namespace PS.T
open PS PS.G

/-! ### dict built by successive insertions -/
section Dict
variable {κ ν : Type} [DecidableEq κ]

def dictOf (l : List (κ × ν)) (d0 : AList κ ν) : AList κ ν := l.foldl (fun d r => AList.insert r.1 r.2 d) d0

theorem dictOf_cons (r : κ × ν) (rs : List (κ × ν)) (d0 : AList κ ν) :
    dictOf (r :: rs) d0 = dictOf rs (AList.insert r.1 r.2 d0) := rfl

theorem lookup_dictOf_mem (k : κ) (v : ν) : ∀ (l : List (κ × ν)) (d0 : AList κ ν),
    AList.lookup k (dictOf l d0) = some v → (k, v) ∈ l ∨ AList.lookup k d0 = some v
  | [], d0, h => Or.inr h
  | r :: rs, d0, h => by
    rw [dictOf_cons] at h
    rcases lookup_dictOf_mem k v rs _ h with h | h
    · exact Or.inl (List.mem_cons_of_mem _ h)
    · rw [AList.lookup_insert] at h
      by_cases hk : k = r.1
      · simp only [hk, if_true, Option.some.injEq] at h
        left; subst h; subst hk; exact List.mem_cons_self ..
      · simp only [hk, if_false] at h
        exact Or.inr h

theorem lookup_dictOf_not_key (k : κ) : ∀ (l : List (κ × ν)) (d0 : AList κ ν),
    (∀ r ∈ l, r.1 ≠ k) → AList.lookup k (dictOf l d0) = AList.lookup k d0
  | [], _, _ => rfl
  | r :: rs, d0, h => by
    rw [dictOf_cons, lookup_dictOf_not_key k rs _ (fun r' hr' => h r' (List.mem_cons_of_mem _ hr'))]
    have : k ≠ r.1 := fun e => h r (List.mem_cons_self ..) e.symm
    rw [AList.lookup_insert_ne _ _ this]

/-- with values determined by their key, the dict holds every pair of the list -/
theorem lookup_dictOf_of_mem (k : κ) (v : ν) : ∀ (l : List (κ × ν)) (d0 : AList κ ν),
    (k, v) ∈ l → (∀ v', (k, v') ∈ l → v' = v) → AList.lookup k (dictOf l d0) = some v
  | [], _, h, _ => by cases h
  | r :: rs, d0, h, hf => by
    rw [dictOf_cons]
    by_cases hex : ∃ v', (k, v') ∈ rs
    · obtain ⟨v', hv'⟩ := hex
      have : v' = v := hf v' (List.mem_cons_of_mem _ hv')
      subst this
      exact lookup_dictOf_of_mem k v' rs _ hv' (fun v'' h'' => hf v'' (List.mem_cons_of_mem _ h''))
    · have hnk : ∀ r' ∈ rs, r'.1 ≠ k := by
        intro r' hr' e
        exact hex ⟨r'.2, by rw [← e]; exact hr'⟩
      rw [lookup_dictOf_not_key k rs _ hnk]
      rcases List.mem_cons.mp h with h | h
      · rw [← h]; exact AList.lookup_insert_self _ _ _
      · exact absurd ⟨v, h⟩ hex

end Dict

/-! ### types -/

theorem endsWithRec_self : ∀ (t : Ty) (acc : List Ty), Ty.endsWithRec t t acc = some acc
  | .arrow a b, acc => by simp [Ty.endsWithRec]
  | .base n, acc => by simp [Ty.endsWithRec]
  | .gen n a, acc => by simp [Ty.endsWithRec]
  | .unknown, acc => by simp [Ty.endsWithRec]

theorem endsWith_self (t : Ty) : Ty.endsWith t t = some [] := endsWithRec_self t []

/-- at a slot that is not of function type, a primitive takes all its declared arguments -/
theorem endsWithRec_nonarrow : ∀ (t other : Ty) (acc tys : List Ty), isArrow other = false →
    Ty.endsWithRec t other acc = some tys → tys = acc ++ t.arguments
  | .arrow a b, other, acc, tys, ho, h => by
    rw [Ty.endsWithRec] at h
    by_cases he : Ty.arrow a b = other
    · subst he; simp [isArrow] at ho
    · simp only [he, if_false] at h
      have := endsWithRec_nonarrow b other (acc ++ [a]) tys ho h
      simp [this, Ty.arguments]
  | .base n, other, acc, tys, _, h => by
    simp only [Ty.endsWithRec] at h
    by_cases he : Ty.base n = other
    · simp only [he, if_true, Option.some.injEq] at h; simp [← h, Ty.arguments]
    · simp [he] at h
  | .gen n a, other, acc, tys, _, h => by
    simp only [Ty.endsWithRec] at h
    by_cases he : Ty.gen n a = other
    · simp only [he, if_true, Option.some.injEq] at h; simp [← h, Ty.arguments]
    · simp [he] at h
  | .unknown, other, acc, tys, _, h => by
    simp only [Ty.endsWithRec] at h
    by_cases he : Ty.unknown = other
    · simp only [he, if_true, Option.some.injEq] at h; simp [← h, Ty.arguments]
    · simp [he] at h

theorem endsWith_nonarrow (t other : Ty) (tys : List Ty) (ho : isArrow other = false)
    (h : Ty.endsWith t other = some tys) : tys = t.arguments := by
  have := endsWithRec_nonarrow t other [] tys ho h
  simpa using this

theorem isArrow_iff_arguments (t : Ty) : isArrow t = !t.arguments.isEmpty := by
  cases t <;> simp [isArrow, Ty.arguments]

theorem returns_not_arrow : ∀ t : Ty, isArrow t.returns = false
  | .arrow a b => by simp [Ty.returns, returns_not_arrow b]
  | .base n => rfl
  | .gen n a => rfl
  | .unknown => rfl

/-! ### candidates -/

/-- a DSL is a list of primitives -/
def wfDsl (dsl : Dsl) : Bool := dsl.prims.all (fun p => p.kind == .prim)

theorem mem_enumFrom' {α : Type} (l : List α) (i : Nat) (a : α) :
    (i, a) ∈ enumFrom' l ↔ l[i]? = some a := by
  unfold enumFrom'
  simp only [List.mem_map, Prod.mk.injEq]
  constructor
  · rintro ⟨⟨a', i'⟩, hmem, h1, h2⟩
    simp only at h1 h2
    subst h1; subst h2
    have := List.mem_zipIdx_iff_getElem?.mp hmem
    simpa using this
  · intro h
    exact ⟨(a, i), List.mem_zipIdx_iff_getElem?.mpr (by simpa using h), rfl, rfl⟩

theorem mem_candidates (prims : List Sym) (request ty : Ty) (c : Sym × List Ty) :
    c ∈ candidates prims request ty ↔
      (∃ i, request.arguments[i]? = some ty ∧ c = (Sym.var i ty, [])) ∨
      (c.1 ∈ prims ∧ c.1.ty.endsWith ty = some c.2) := by
  unfold candidates
  simp only [List.mem_append, List.mem_filterMap]
  constructor
  · rintro (⟨iv, hiv, h⟩ | ⟨p, hp, h⟩)
    · left
      obtain ⟨i, a⟩ := iv
      by_cases hty : ty = a
      · simp only [hty, if_true, Option.some.injEq] at h
        refine ⟨i, ?_, ?_⟩
        · rw [hty]; exact (mem_enumFrom' _ _ _).mp hiv
        · rw [hty]; exact h.symm
      · simp [hty] at h
    · right
      cases he : p.ty.endsWith ty with
      | none => simp [he] at h
      | some tys =>
        simp only [he, Option.some.injEq] at h
        subst h
        exact ⟨hp, he⟩
  · rintro (⟨i, hi, hc⟩ | ⟨hp, he⟩)
    · left
      exact ⟨(i, ty), (mem_enumFrom' _ _ _).mpr hi, by simp [hc]⟩
    · right
      exact ⟨c.1, hp, by simp [he]⟩

/-- the argument types of a candidate are determined by its head -/
theorem candidates_functional (dsl : Dsl) (hwf : wfDsl dsl = true) (request ty : Ty) (c c' : Sym × List Ty)
    (hc : c ∈ candidates dsl.prims request ty) (hc' : c' ∈ candidates dsl.prims request ty) (h : c.1 = c'.1) :
    c.2 = c'.2 := by
  have hk : ∀ p ∈ dsl.prims, p.kind = .prim := by
    intro p hp
    unfold wfDsl at hwf
    rw [List.all_eq_true] at hwf
    simpa using hwf p hp
  rcases (mem_candidates _ _ _ _).mp hc with ⟨i, _, e⟩ | ⟨hp, he⟩ <;>
  rcases (mem_candidates _ _ _ _).mp hc' with ⟨i', _, e'⟩ | ⟨hp', he'⟩
  · rw [e, e']
  · exfalso
    have := hk _ hp'
    rw [← h, e] at this
    simp [Sym.var] at this
  · exfalso
    have := hk _ hp
    rw [h, e'] at this
    simp [Sym.var] at this
  · rw [h] at he
    rw [he'] at he
    exact (Option.some.inj he).symm

/-- the arguments a candidate takes = what its type gives at this slot -/
theorem candidate_args (prims : List Sym) (request ty : Ty) (c : Sym × List Ty)
    (hc : c ∈ candidates prims request ty) : c.1.ty.endsWith ty = some c.2 := by
  rcases (mem_candidates _ _ _ _).mp hc with ⟨i, _, e⟩ | ⟨_, he⟩
  · rw [e]; simp [Sym.var, endsWith_self]
  · exact he

/-! ### the rule function of the builder -/
section Rule
variable {S T : Type} [DecidableEq S] [DecidableEq T]

def decorate (B : Builder S T) (rule : NT S T) (P : Sym) (tys : List Ty) : List (Ty × S) :=
  (enumFrom' tys).map (fun ia => (ia.2, B.getNT rule P ia.1 ia.2))

/-- the ideal (infinite) grammar of the builder: every non-terminal carries the rules the
    worklist iteration creates for it -/
def idealFn (B : Builder S T) (dsl : Dsl) (request : Ty) : RuleFn S T := rowsFn (rowDict B dsl.prims request)

omit [DecidableEq S] [DecidableEq T] in
theorem mem_rowList (B : Builder S T) (prims : List Sym) (request : Ty) (rule : NT S T) (P : Sym)
    (val : List (Ty × S) × T) :
    (P, val) ∈ rowList B prims request rule ↔
      ∃ c ∈ candidates prims request rule.1, c.1 = P ∧ (B.transition rule P).1 = true ∧
        val = (decorate B rule P c.2, (B.transition rule P).2) := by
  unfold rowList
  simp only [List.mem_filterMap]
  constructor
  · rintro ⟨c, hc, h⟩
    by_cases ht : (B.transition rule c.1).1 = true
    · simp only [ht, if_true, Option.some.injEq, Prod.mk.injEq] at h
      obtain ⟨h1, h2⟩ := h
      subst h1
      exact ⟨c, hc, rfl, ht, by rw [← h2]; rfl⟩
    · simp [ht] at h
  · rintro ⟨c, hc, h1, ht, hv⟩
    subst h1
    exact ⟨c, hc, by simp [ht, hv, decorate]⟩

/-- **the rule function**: `rules[rule][P]` exists iff `P` is a candidate of the slot's type that
    the transition allows; it holds the decorated arguments and the new state -/
theorem idealFn_iff (B : Builder S T) (dsl : Dsl) (hwf : wfDsl dsl = true) (request : Ty) (rule : NT S T) (P : Sym)
    (val : List (Ty × S) × T) :
    idealFn B dsl request rule P = some val ↔
      ∃ c ∈ candidates dsl.prims request rule.1, c.1 = P ∧ (B.transition rule P).1 = true ∧
        val = (decorate B rule P c.2, (B.transition rule P).2) := by
  unfold idealFn rowsFn rowDict
  change AList.lookup P (dictOf (rowList B dsl.prims request rule) []) = some val ↔ _
  rw [← mem_rowList]
  constructor
  · intro h
    rcases lookup_dictOf_mem P val _ _ h with h | h
    · exact h
    · simp [AList.lookup] at h
  · intro h
    apply lookup_dictOf_of_mem P val _ _ h
    intro v' hv'
    obtain ⟨c, hc, h1, _, e⟩ := (mem_rowList _ _ _ _ _ _).mp h
    obtain ⟨c', hc', h1', _, e'⟩ := (mem_rowList _ _ _ _ _ _).mp hv'
    have := candidates_functional dsl hwf request rule.1 c c' hc hc' (h1.trans h1'.symm)
    rw [e, e', this]

end Rule

end PS.T
