/- C08, fragment grammar, part 7: the loop over the group, the refilling loop `fillLoop`, and the
   shape of the tables of `pcfgFrom` (`Facts`). -/
import PS.Proofs.SplitterFrag6
namespace PS.Sp
open PS PS.G

variable {U : Type} [DecidableEq U]

/-! ### the loop over the nodes of the group -/

theorem go_inv {pg : PUG U} : ∀ (group : List (Node U)) (st st' : FragSt U) (L : List (Lay U)),
    GoInv pg st L →
    (L.map (·.n) ++ group).Pairwise
      (fun a b => a.start = b.start → ¬ a.steps <+: b.steps ∧ ¬ b.steps <+: a.steps) →
    pcfgFrom.go pg st group = some st' →
    ∃ L', L'.map (·.n) = L.map (·.n) ++ group ∧ GoInv pg st' L'
  | [], st, st', L, hi, _, h => by
    simp only [pcfgFrom.go, Option.some.injEq] at h
    subst h
    exact ⟨L, by simp, hi⟩
  | n :: rest, st, st', L, hi, hpw, h => by
    simp only [pcfgFrom.go] at h
    cases ha : addNode pg st n with
    | none => rw [ha] at h; cases h
    | some st1 =>
      rw [ha] at h
      simp only at h
      have hfree : ∀ l ∈ L, l.n.start = n.start → l.n.steps ≠ [] ∧ n.steps ≠ [] := by
        intro l hl hs
        have := (List.pairwise_append.mp hpw).2.2 l.n (List.mem_map.mpr ⟨l, hl, rfl⟩) n (by simp) hs
        constructor
        · intro hnil; exact this.1 (by rw [hnil]; exact List.nil_prefix)
        · intro hnil; exact this.2 (by rw [hnil]; exact List.nil_prefix)
      obtain ⟨lay, hlay, hi1⟩ := addNode_inv hi hfree ha
      obtain ⟨L', hL', hi'⟩ := go_inv rest st1 st' (L ++ [lay]) hi1
        (by simp only [List.map_append, List.map_cons, List.map_nil, hlay, List.append_assoc, List.cons_append,
              List.nil_append]; exact hpw) h
      refine ⟨L', ?_, hi'⟩
      rw [hL']
      simp [hlay]

/-! ### the refilling loop -/

/-- invariant of `while to_fill`: the free copies that exist are copies, and the non-terminals on
    the right-hand sides of the copies in `P0` and of the free copies are copied or still to fill -/
structure FillInv (pg : PUG U) (P0 : UNT (U × Nat) → Prop) (st : FragSt U) : Prop where
  fr : ∀ S, AList.lookup (free S) st.rules = none ∨ IsCopy pg st.rules st.probs (free S)
  next : ∀ X, (idx X = 0 ∨ P0 X) → IsCopy pg st.rules st.probs X →
    ∀ S' ∈ rhsSyms pg (er X), S' ∈ st.toFill ∨ IsCopy pg st.rules st.probs (free S')

theorem fillLoop_spec (pg : PUG U) (P0 : UNT (U × Nat) → Prop) : ∀ (fuel : Nat) (st : FragSt U),
    FillInv pg P0 st →
    FillInv pg P0 (fillLoop pg fuel st) ∧
    (∀ Y, idx Y ≠ 0 → AList.lookup Y (fillLoop pg fuel st).rules = AList.lookup Y st.rules ∧
      AList.lookup Y (fillLoop pg fuel st).probs = AList.lookup Y st.probs) ∧
    (fillLoop pg fuel st).startProbs = st.startProbs
  | 0, st, hi => ⟨hi, fun _ _ => ⟨rfl, rfl⟩, rfl⟩
  | f + 1, st, hi => by
    unfold fillLoop
    cases hrev : st.toFill.reverse with
    | nil => exact ⟨hi, fun _ _ => ⟨rfl, rfl⟩, rfl⟩
    | cons S restRev =>
      have htf : st.toFill = restRev.reverse ++ [S] := by
        have := congrArg List.reverse hrev
        simpa using this
      simp only
      by_cases hc : AList.contains (free S) st.rules = true
      · simp only [hc, if_true]
        have hS : IsCopy pg st.rules st.probs (free S) := by
          rcases hi.fr S with h | h
          · simp [AList.contains, h] at hc
          · exact h
        have hi1 : FillInv pg P0 { st with toFill := restRev.reverse } := by
          refine ⟨hi.fr, ?_⟩
          intro X hX hXc S' hS'
          rcases hi.next X hX hXc S' hS' with h | h
          · rw [htf] at h
            rcases List.mem_append.mp h with h | h
            · exact Or.inl h
            · simp only [List.mem_singleton] at h; subst h; exact Or.inr hS
          · exact Or.inr h
        exact fillLoop_spec pg P0 f _ hi1
      · simp only [hc]
        have hnone : AList.lookup (free S) st.rules = none := by
          cases h : AList.lookup (free S) st.rules with
          | none => rfl
          | some v => simp [AList.contains, h] at hc
        -- the state after the copy
        have hlk := copyRules_lookup pg { st with toFill := restRev.reverse } S (free S)
        simp only at hlk
        have hpres : ∀ X, IsCopy pg st.rules st.probs X →
            IsCopy pg (copyRules pg { st with toFill := restRev.reverse } S (free S)).rules
              (copyRules pg { st with toFill := restRev.reverse } S (free S)).probs X := by
          intro X hX
          have hne : X ≠ free S := by intro he; rw [he] at hX; rw [hX.1] at hnone; cases hnone
          have := hlk X
          simp only [hne, if_false] at this
          exact ⟨this.1.trans hX.1, this.2.trans hX.2⟩
        have hnew : IsCopy pg (copyRules pg { st with toFill := restRev.reverse } S (free S)).rules
              (copyRules pg { st with toFill := restRev.reverse } S (free S)).probs (free S) := by
          have := hlk (free S)
          simp only [if_true] at this
          exact ⟨this.1, this.2⟩
        have hi1 : FillInv pg P0 (copyRules pg { st with toFill := restRev.reverse } S (free S)) := by
          refine ⟨?_, ?_⟩
          · intro S2
            by_cases he : free S2 = free S
            · right; rw [he]; exact hnew
            · rcases hi.fr S2 with h | h
              · left
                have := (hlk (free S2)).1
                simp only [he, if_false] at this
                rw [this]; exact h
              · right; exact hpres _ h
          · intro X hX hXc S' hS'
            by_cases he : X = free S
            · left
              subst he
              rw [copyRules_eq]
              exact List.mem_append.mpr (Or.inr hS')
            · have hold : IsCopy pg st.rules st.probs X := by
                have := hlk X
                simp only [he, if_false] at this
                exact ⟨this.1.symm.trans hXc.1, this.2.symm.trans hXc.2⟩
              rcases hi.next X hX hold S' hS' with h | h
              · rw [htf] at h
                rcases List.mem_append.mp h with h | h
                · left; rw [copyRules_eq]; exact List.mem_append.mpr (Or.inl h)
                · simp only [List.mem_singleton] at h; subst h; exact Or.inr hnew
              · exact Or.inr (hpres _ h)
        obtain ⟨r1, r2, r3⟩ := fillLoop_spec pg P0 f _ hi1
        refine ⟨r1, ?_, r3⟩
        intro Y hY
        have := r2 Y hY
        have hne : Y ≠ free S := by intro he; rw [he] at hY; exact hY rfl
        have h2 := hlk Y
        simp only [hne, if_false] at h2
        exact ⟨this.1.trans h2.1, this.2.trans h2.2⟩

/-! ### rows built by successive `append`s -/

omit [DecidableEq U] in
theorem mem_stepR {κ : Type} (P Q : Sym) (m a : List κ) : ∀ (rs : AList Sym (List (List κ))),
    (∃ r ∈ stepR rs P m, r.1 = Q ∧ a ∈ r.2) ↔ (∃ r ∈ rs, r.1 = Q ∧ a ∈ r.2) ∨ (Q = P ∧ a = m)
  | [] => by
    simp only [stepR, AList.lookup, Option.getD_none, List.nil_append, AList.insert, List.mem_singleton,
      exists_eq_left, List.not_mem_nil, false_and, exists_false, false_or]
    constructor
    · rintro ⟨h1, h2⟩; exact ⟨h1.symm, h2⟩
    · rintro ⟨h1, h2⟩; exact ⟨h1.symm, h2⟩
  | (k, v) :: r' => by
    by_cases hk : k = P
    · subst hk
      simp only [stepR, AList.lookup, if_true, Option.getD_some, AList.insert, List.mem_cons, exists_eq_or_imp,
        List.mem_append, List.not_mem_nil, or_false]
      constructor
      · rintro (⟨h1, h2 | h2⟩ | h)
        · exact Or.inl (Or.inl ⟨h1, h2⟩)
        · exact Or.inr ⟨h1.symm, h2⟩
        · exact Or.inl (Or.inr h)
      · rintro ((⟨h1, h2⟩ | h) | ⟨h1, h2⟩)
        · exact Or.inl ⟨h1, Or.inl h2⟩
        · exact Or.inr h
        · exact Or.inl ⟨h1.symm, Or.inr h2⟩
    · have ih := mem_stepR P Q m a r'
      simp only [stepR] at ih
      simp only [stepR, AList.lookup, hk, if_false, AList.insert, List.mem_cons, exists_eq_or_imp, ih]
      constructor
      · rintro (h | h | h)
        · exact Or.inl (Or.inl h)
        · exact Or.inl (Or.inr h)
        · exact Or.inr h
      · rintro ((h | h) | h)
        · exact Or.inl h
        · exact Or.inr (Or.inl h)
        · exact Or.inr (Or.inr h)

omit [DecidableEq U] in
theorem mem_foldl_stepR (Q : Sym) (a : List (UNT (U × Nat))) : ∀ (hs : List (Sym × List (UNT (U × Nat)) × Rat))
    (rs0 : AList Sym (List (List (UNT (U × Nat))))),
    (∃ r ∈ hs.foldl (fun rs h => stepR rs h.1 h.2.1) rs0, r.1 = Q ∧ a ∈ r.2) ↔
      (∃ r ∈ rs0, r.1 = Q ∧ a ∈ r.2) ∨ ∃ h ∈ hs, h.1 = Q ∧ h.2.1 = a
  | [], rs0 => by simp
  | h :: hs, rs0 => by
    simp only [List.foldl_cons]
    rw [mem_foldl_stepR Q a hs, mem_stepR]
    simp only [List.mem_cons, exists_eq_or_imp]
    constructor
    · rintro ((h1 | ⟨e1, e2⟩) | h1)
      · exact Or.inl h1
      · exact Or.inr (Or.inl ⟨e1.symm, e2.symm⟩)
      · exact Or.inr (Or.inr h1)
    · rintro (h1 | ⟨e1, e2⟩ | h1)
      · exact Or.inl (Or.inl h1)
      · exact Or.inl (Or.inr ⟨e1.symm, e2.symm⟩)
      · exact Or.inr h1

omit [DecidableEq U] in
theorem mem_buildR (Q : Sym) (a : List (UNT (U × Nat))) (hs : List (Sym × List (UNT (U × Nat)) × Rat)) :
    (∃ r ∈ buildR hs, r.1 = Q ∧ a ∈ r.2) ↔ ∃ h ∈ hs, h.1 = Q ∧ h.2.1 = a := by
  unfold buildR
  rw [mem_foldl_stepR]
  simp

theorem mem_alts_row {F : UG (U × Nat)} {X : UNT (U × Nat)} {Q : Sym} {a : List (UNT (U × Nat))} :
    (Q, a) ∈ alts F X ↔ ∃ r ∈ (AList.lookup X F.rules).getD [], r.1 = Q ∧ a ∈ r.2 := by
  unfold alts
  cases AList.lookup X F.rules with
  | none => simp
  | some rs =>
    simp only [Option.getD_some, List.mem_flatMap, List.mem_map, Prod.mk.injEq]
    constructor
    · rintro ⟨r, hr, a', ha', h1, h2⟩
      exact ⟨r, hr, h1, h2 ▸ ha'⟩
    · rintro ⟨r, hr, h1, h2⟩
      exact ⟨r, hr, a, h2, h1, rfl⟩

theorem mem_heads {L : List (Lay U)} {X : UNT (U × Nat)} {h : Sym × List (UNT (U × Nat)) × Rat} :
    h ∈ heads L X ↔ ∃ l ∈ L, l.sp = X ∧ ∃ s0, l.steps'.head? = some s0 ∧ h = (s0.2.1, s0.2.2, l.n.prob) := by
  simp only [heads, List.mem_filterMap, List.mem_filter, decide_eq_true_eq, Option.map_eq_some_iff]
  constructor
  · rintro ⟨l, ⟨hl, hsp⟩, s0, h1, h2⟩
    exact ⟨l, hl, hsp, s0, h1, h2.symm⟩
  · rintro ⟨l, hl, hsp, s0, h1, h2⟩
    exact ⟨l, ⟨hl, hsp⟩, s0, h1, h2.symm⟩

/-! ### the fragment -/

/-- the grammar that `pcfgFrom` returns for the final state -/
def fragOf (pg : PUG U) (st : FragSt U) : PUG (U × Nat) :=
  { g := { starts := AList.keys st.startProbs, rules := st.rules,
           someStart := (AList.keys st.startProbs).headD (Ty.unknown, (pg.g.someStart.2, 0)) },
    tags := normaliseTags st.probs, startTags := normaliseStarts st.startProbs }

/-- the state of `__pcfg_from__` before the grammar is assembled -/
def fragState (pg : PUG U) (group : List (Node U)) (fuel : Nat) : Option (FragSt U) :=
  (pcfgFrom.go pg ⟨0, [], [], [], [], []⟩ group).map (fillLoop pg fuel)

theorem pcfgFrom_eq (pg : PUG U) (group : List (Node U)) (fuel : Nat) :
    pcfgFrom pg group fuel = (fragState pg group fuel).map (fragOf pg) := by
  unfold pcfgFrom fragState
  cases pcfgFrom.go pg ⟨0, [], [], [], [], []⟩ group <;> rfl

/-- **the shape of the tables of a fragment** -/
theorem facts_of_pcfgFrom {pg : PUG U} {group : List (Node U)} {fuel : Nat} {st : FragSt U}
    (hpf : PrefixFree group) (h : fragState pg group fuel = some st) (hfuel : st.toFill = []) :
    ∃ L stG, Facts pg group (fragOf pg st).g st.probs L ∧ GoInv pg stG L ∧
      st.startProbs = stG.startProbs ∧
      ∀ Y, idx Y ≠ 0 → AList.lookup Y st.probs = AList.lookup Y stG.probs := by
  unfold fragState at h
  cases hg : pcfgFrom.go pg ⟨0, [], [], [], [], []⟩ group with
  | none => rw [hg] at h; cases h
  | some stG =>
    rw [hg] at h
    simp only [Option.map_some, Option.some.injEq] at h
    obtain ⟨L, hL, hi⟩ := go_inv group _ stG [] (goInv_init pg) (by simpa [PrefixFree] using hpf) hg
    simp only [List.map_nil, List.nil_append] at hL
    have hFill0 : FillInv pg (fun X => ∃ l ∈ L, ∃ e ∈ l.pend, e.2 = X) stG := by
      refine ⟨fun S => Or.inl (hi.keys (free S) (Or.inl rfl)).1, ?_⟩
      intro X hX hXc S' hS'
      rcases hX with hX | ⟨l, hl, e, he, rfl⟩
      · have := hXc.1
        rw [(hi.keys X (Or.inl hX)).1] at this
        cases this
      · have hok := (renPath_er l.n.steps l.lo [(l.n.start, l.sp)] _
          (by intro e' he'; simp only [List.mem_singleton] at he'; subst he'; exact hi.spEr l hl) (hi.path l hl)).2 e he
        rw [hok] at hS'
        exact Or.inl ((hi.pendC l hl e he).2 S' hS')
    obtain ⟨r1, r2, r3⟩ := fillLoop_spec pg _ fuel stG hFill0
    rw [h] at r1 r2 r3
    refine ⟨L, stG, ?_, hi, r3, fun Y hY => (r2 Y hY).2⟩
    have hposSp : ∀ l ∈ L, idx l.sp ≠ 0 := fun l hl => by have := (hi.rng l hl).1; omega
    constructor
    · exact hL
    · exact hi.path
    · exact hi.spEr
    · intro l1 h1 l2 h2 hs
      have e1 := hi.spLook l1 h1
      have e2 := hi.spLook l2 h2
      rw [hs, e2] at e1
      exact (Option.some.inj e1).symm
    · intro X
      show X ∈ AList.keys st.startProbs ↔ _
      rw [r3]
      exact hi.spKeys X
    · intro l hl s hs
      have hrng := hi.rng l hl
      have := lay_tail_idx (hi.path l hl) hrng.2.1 s hs
      show AList.lookup s.1 st.rules = _
      rw [(r2 s.1 (by omega)).1]
      exact (hi.chain l hl s hs).1
    · intro l hl e he
      have hrng := hi.rng l hl
      have hidx : idx e.2 ≠ 0 := by
        rcases (lay_own (hi.path l hl) hrng.2.1).2.2.1 e.2
          (List.mem_append.mpr (Or.inr (List.mem_map.mpr ⟨e, he, rfl⟩))) with h | h
        · rw [h]; exact hposSp l hl
        · omega
      have := r2 e.2 hidx
      obtain ⟨q1, q2⟩ := (hi.pendC l hl e he).1
      exact ⟨this.1.trans q1, this.2.trans q2⟩
    · intro X hX hXc S' hS'
      rcases r1.next X hX hXc S' hS' with h | h
      · rw [hfuel] at h; cases h
      · exact h
    · intro X hex hall Q a
      obtain ⟨l0, hl0, hsp0⟩ := hex
      have hrow := (hi.startT l0 hl0 (by intro l2 hl2 he; exact hall l2 hl2 (he.trans hsp0))).1
      rw [hsp0] at hrow
      rw [mem_alts_row]
      show (∃ r ∈ (AList.lookup X st.rules).getD [], _) ↔ _
      rw [(r2 X (by rw [← hsp0]; exact hposSp l0 hl0)).1, hrow, mem_buildR]
      constructor
      · rintro ⟨h', hh, e1, e2⟩
        obtain ⟨l, hl, hsp, s0, hs0, rfl⟩ := mem_heads.mp hh
        refine ⟨l, hl, hsp, ?_⟩
        have hne : l.n.steps ≠ [] := hall l hl hsp
        obtain ⟨s0', t, e3, e4⟩ := (lay_own (hi.path l hl) (hi.rng l hl).2.1).2.2.2.2.1 hne
        rw [e3] at hs0 ⊢
        simp only [List.head?_cons, Option.some.injEq] at hs0 ⊢
        subst hs0
        simp only at e1 e2
        rw [← e1, ← e2, ← hsp, ← e4]
      · rintro ⟨l, hl, hsp, hh⟩
        exact ⟨(Q, a, l.n.prob), mem_heads.mpr ⟨l, hl, hsp, (X, Q, a), hh, rfl⟩, rfl, rfl⟩

/-- the refilling loop ran to completion with this fuel (`while to_fill` exited) -/
def fillDone (pg : PUG U) (group : List (Node U)) (fuel : Nat) : Bool :=
  match fragState pg group fuel with
  | some st => st.toFill.isEmpty
  | none => false

theorem pcfgFrom_some {pg : PUG U} {group : List (Node U)} {fuel : Nat} {frag : PUG (U × Nat)}
    (h : pcfgFrom pg group fuel = some frag) (hd : fillDone pg group fuel = true) :
    ∃ st, fragState pg group fuel = some st ∧ frag = fragOf pg st ∧ st.toFill = [] := by
  rw [pcfgFrom_eq] at h
  unfold fillDone at hd
  cases hs : fragState pg group fuel with
  | none => rw [hs] at h; cases h
  | some st =>
    rw [hs] at h hd
    simp only [Option.map_some, Option.some.injEq] at h
    exact ⟨st, rfl, h.symm, by simpa using hd⟩

end PS.Sp
