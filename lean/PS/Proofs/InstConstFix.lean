/-
  C17, the repaired code (`Fix` with f2, f3, f4).

  * `rulesOK_of_rulesWF`   with the repairs of C17-F2 and C17-F3 the hypothesis `rulesOK fx` of the
                           generic theorems follows from `rulesWF` (no clause of a finding);
                           `progOK_of_fix`: with the three repairs `progOK fx` holds for every
                           program and every table.
  * `instRules_restrict`   the repaired code only looks at the entries of the table for the types
                           of the slots of the grammar: `restrict (slotTys d) tbl`;
  * `isInst_restrict`, `allInst_restrict`   so does the specification / the program side on the
                           programs of the grammar (`slotsIn_of_gen`, `slotsIn_of_genU`).
-/
import PS.Proofs.InstConstU
namespace PS.IC
open PS PS.G

variable {ν : Type}

/-! ### `rulesWF → rulesOK fx` -/

theorem not_mem_distinct_of {l : List String} {v : String} (h : v ∉ l) : v ∉ distinct l :=
  fun hm => h (mem_distinct.mp hm)

theorem okKey_of_keyWF {fx : Fix} (h2 : fx.f2 = true) (h3 : fx.f3 = true) {tbl : Tbl} {P : Sym}
    (h : keyWF tbl P = true) : okKey fx tbl P := by
  unfold keyWF at h
  constructor
  · intro vals hs
    obtain ⟨hk, hn, vals0, hl, rfl⟩ := slot?_some hs
    have hname := hn h2
    simp only [hk, decide_true, Bool.not_true, Bool.false_or, hl, Bool.and_eq_true,
      decide_eq_true_eq, Bool.not_eq_true', List.contains_eq_mem, decide_eq_false_iff_not] at h
    obtain ⟨⟨hP, _⟩, hempty⟩ := h
    refine ⟨by rw [hname] at hP; exact hP, ?_⟩
    unfold valsOK
    simp only [Bool.and_eq_true, decide_eq_true_eq, Bool.not_eq_true', List.contains_eq_mem,
      decide_eq_false_iff_not]
    exact ⟨nodup_fxvals_of_f3 h3 vals0, fun hm => hempty (mem_fxvals.mp hm)⟩
  · intro _ hk vals0 hl
    simp only [hk, decide_true, Bool.not_true, Bool.false_or, hl, Bool.and_eq_true,
      decide_eq_true_eq, Bool.not_eq_true', List.contains_eq_mem, decide_eq_false_iff_not] at h
    exact h.1.2

theorem rowOK_of_rowWF {fx : Fix} (h2 : fx.f2 = true) (h3 : fx.f3 = true) {tbl : Tbl}
    {row : AList Sym ν} (h : rowWF tbl row = true) : rowOK fx tbl row = true := by
  unfold rowWF at h
  simp only [Bool.and_eq_true, decide_eq_true_eq, List.all_eq_true] at h
  exact rowOK_iff.mpr ⟨h.1, fun P hP => okKey_of_keyWF h2 h3 (h.2 P hP)⟩

theorem rulesOK_of_rulesWF {κ : Type} {fx : Fix} (h2 : fx.f2 = true) (h3 : fx.f3 = true) {tbl : Tbl}
    {d : AList κ (AList Sym ν)} (h : rulesWF tbl d = true) : rulesOK fx tbl d = true := by
  unfold rulesWF at h
  unfold rulesOK
  rw [List.all_eq_true] at h ⊢
  exact fun e he => rowOK_of_rowWF h2 h3 (h e he)

/-- with the three repairs the program side needs no hypothesis -/
theorem symOK_of_fix {fx : Fix} (h2 : fx.f2 = true) (h3 : fx.f3 = true) (h4 : fx.f4 = true)
    (tbl : Tbl) (P : Sym) : symOK fx tbl P = true := by
  unfold symOK
  by_cases hk : P.kind = .const
  · by_cases hn : P.name = ""
    · cases hl : AList.lookup P.ty tbl with
      | none => simp [hn, h4]
      | some vals => simp [hn, nodup_fxvals_of_f3 h3 vals]
    · simp [hn, h2]
  · simp [hk]

mutual
  theorem progOK_of_fix {fx : Fix} (h2 : fx.f2 = true) (h3 : fx.f3 = true) (h4 : fx.f4 = true)
      (tbl : Tbl) : ∀ t : Prog, progOK fx tbl t = true
    | .node f kids => by
      unfold progOK
      rw [symOK_of_fix h2 h3 h4, progOKList_of_fix h2 h3 h4 tbl kids]; rfl
  theorem progOKList_of_fix {fx : Fix} (h2 : fx.f2 = true) (h3 : fx.f3 = true) (h4 : fx.f4 = true)
      (tbl : Tbl) : ∀ ks : List Prog, progOKList fx tbl ks = true
    | [] => rfl
    | k :: ks => by
      unfold progOKList
      rw [progOK_of_fix h2 h3 h4 tbl k, progOKList_of_fix h2 h3 h4 tbl ks]; rfl
end

/-! ### the part of the table that matters -/

theorem lookup_restrict (ts : List Ty) (tbl : Tbl) (τ : Ty) :
    AList.lookup τ (restrict ts tbl) = if τ ∈ ts then AList.lookup τ tbl else none := by
  unfold restrict
  induction tbl with
  | nil => simp
  | cons e r ih =>
    obtain ⟨k, v⟩ := e
    by_cases hk : k ∈ ts
    · rw [List.filter_cons_of_pos (by simpa using hk)]
      by_cases hkt : k = τ
      · subst hkt; simp [AList.lookup, hk]
      · simp only [AList.lookup, hkt, if_false]; exact ih
    · rw [List.filter_cons_of_neg (by simpa using hk)]
      by_cases hkt : k = τ
      · subst hkt; rw [ih]; simp [hk]
      · simp only [AList.lookup, hkt, if_false]; exact ih

theorem lookup_restrict_of_mem {ts : List Ty} {tbl : Tbl} {τ : Ty} (h : τ ∈ ts) :
    AList.lookup τ (restrict ts tbl) = AList.lookup τ tbl := by
  rw [lookup_restrict, if_pos h]

/-- the slots of `P` (if it is one) have their type in `ts` -/
def covered (ts : List Ty) (P : Sym) : Prop := slotLike P = true → P.ty ∈ ts

theorem slot?_restrict {fx : Fix} (h2 : fx.f2 = true) {ts : List Ty} {tbl : Tbl} {P : Sym}
    (h : covered ts P) : slot? fx (restrict ts tbl) P = slot? fx tbl P := by
  unfold slot?
  by_cases hc : fx.isConst P = true
  · rw [if_pos hc, if_pos hc]
    have : slotLike P = true := by
      unfold Fix.isConst at hc
      simp only [h2, Bool.not_true, Bool.false_or, Bool.and_eq_true, decide_eq_true_eq] at hc
      simp [slotLike, hc.1, hc.2]
    rw [lookup_restrict_of_mem (h this)]
  · rw [if_neg hc, if_neg hc]

theorem foldl_congr_mem {α β : Type} {f g : β → α → β} {l : List α} (h : ∀ a ∈ l, ∀ b, f b a = g b a)
    (b : β) : l.foldl f b = l.foldl g b := by
  induction l generalizing b with
  | nil => rfl
  | cons a r ih =>
    simp only [List.foldl_cons]
    rw [h a (by simp), ih (fun a' ha' => h a' (by simp [ha']))]

theorem instRow_restrict {fx : Fix} (h2 : fx.f2 = true) {ts : List Ty} {tbl : Tbl} (f : ν → Nat → ν)
    {row : AList Sym ν} (h : ∀ P ∈ AList.keys row, covered ts P) :
    instRow fx (restrict ts tbl) f row = instRow fx tbl f row := by
  unfold instRow
  apply foldl_congr_mem
  intro e he acc
  unfold step
  rw [slot?_restrict h2 (h e.1 (List.mem_map.mpr ⟨e, he, rfl⟩))]

theorem mem_slotTys {κ : Type} {d : AList κ (AList Sym ν)} {e : κ × AList Sym ν} (he : e ∈ d)
    {P : Sym} (hP : P ∈ AList.keys e.2) : covered (slotTys d) P := by
  intro hs
  unfold slotTys
  exact List.mem_flatMap.mpr ⟨e, he, List.mem_map.mpr ⟨P, List.mem_filter.mpr ⟨hP, hs⟩, rfl⟩⟩

theorem covered_mono {ts ts' : List Ty} (h : ∀ t ∈ ts, t ∈ ts') {P : Sym} (hP : covered ts P) :
    covered ts' P := fun hs => h _ (hP hs)

/-- every slot of the rows of `d` has its type in `ts` -/
def Covers {κ : Type} (ts : List Ty) (d : AList κ (AList Sym ν)) : Prop :=
  ∀ e ∈ d, ∀ P ∈ AList.keys e.2, covered ts P

theorem covers_slotTys {κ : Type} (d : AList κ (AList Sym ν)) : Covers (slotTys d) d :=
  fun _ he _ hP => mem_slotTys he hP

theorem all_congr_mem {α : Type} {p q : α → Bool} {l : List α} (h : ∀ a ∈ l, p a = q a) :
    l.all p = l.all q := by
  induction l with
  | nil => rfl
  | cons a r ih =>
    simp only [List.all_cons]
    rw [h a (by simp), ih (fun a' ha' => h a' (by simp [ha']))]

theorem instRules_restrict {κ : Type} {fx : Fix} (h2 : fx.f2 = true) {ts : List Ty} {tbl : Tbl}
    (f : ν → Nat → ν) {d : AList κ (AList Sym ν)} (h : Covers ts d) :
    instRules fx (restrict ts tbl) f d = instRules fx tbl f d := by
  unfold instRules
  apply List.map_congr_left
  intro e he
  rw [instRow_restrict h2 f (h e he)]

theorem rulesNonEmpty_restrict {κ : Type} {fx : Fix} (h2 : fx.f2 = true) {ts : List Ty} {tbl : Tbl}
    {d : AList κ (AList Sym ν)} (h : Covers ts d) :
    rulesNonEmpty fx (restrict ts tbl) d = rulesNonEmpty fx tbl d := by
  unfold rulesNonEmpty
  apply all_congr_mem
  intro e he
  unfold rowNonEmpty
  apply all_congr_mem
  intro P hP
  rw [slot?_restrict h2 (h e he P hP)]

/-! ### specification and program side on programs whose slots are covered -/

mutual
  def slotsIn (ts : List Ty) : Prog → Prop
    | .node f kids => covered ts f ∧ slotsInList ts kids
  def slotsInList (ts : List Ty) : List Prog → Prop
    | [] => True
    | k :: ks => slotsIn ts k ∧ slotsInList ts ks
end

theorem symInst_restrict {ts : List Ty} {tbl : Tbl} {P : Sym} (h : covered ts P) (k : Sym) :
    symInst (restrict ts tbl) P k = symInst tbl P k := by
  unfold symInst isSlot covered slotLike at *
  by_cases hs : (decide (P.kind = .const) && decide (P.name = "")) = true
  · have hm := h hs
    simp only [AList.contains, lookup_restrict_of_mem hm]
    rfl
  · have : (decide (P.kind = .const) && decide (P.name = "")) = false := by
      simpa using hs
    simp [this]

mutual
  theorem isInst_restrict (ts : List Ty) (tbl : Tbl) : ∀ (t t' : Prog), slotsIn ts t →
      isInst (restrict ts tbl) t t' = isInst tbl t t'
    | .node f kids, .node f' kids' => by
      intro h
      unfold slotsIn at h
      unfold isInst
      rw [symInst_restrict h.1, isInstList_restrict ts tbl kids kids' h.2]
  theorem isInstList_restrict (ts : List Ty) (tbl : Tbl) : ∀ (ks ks' : List Prog), slotsInList ts ks →
      isInstList (restrict ts tbl) ks ks' = isInstList tbl ks ks'
    | [], [] => by intro _; rfl
    | [], _ :: _ => by intro _; simp [isInstList]
    | _ :: _, [] => by intro _; simp [isInstList]
    | k :: ks, k' :: ks' => by
      intro h
      unfold slotsInList at h
      unfold isInstList
      rw [isInst_restrict ts tbl k k' h.1, isInstList_restrict ts tbl ks ks' h.2]
end

theorem allInstSym_restrict {fx : Fix} (h2 : fx.f2 = true) {ts : List Ty} {tbl : Tbl} {P : Sym}
    (h : covered ts P) : allInstSym fx (restrict ts tbl) P = allInstSym fx tbl P := by
  unfold allInstSym
  by_cases hk : P.kind = .const
  · rw [if_pos hk, if_pos hk]
    by_cases hc : fx.isConst P = true
    · rw [if_pos hc, if_pos hc]
      have : slotLike P = true := by
        unfold Fix.isConst at hc
        simp only [h2, Bool.not_true, Bool.false_or, Bool.and_eq_true, decide_eq_true_eq] at hc
        simp [slotLike, hc.1, hc.2]
      rw [lookup_restrict_of_mem (h this)]
    · rw [if_neg hc, if_neg hc]
  · rw [if_neg hk, if_neg hk]

mutual
  theorem allInst_restrict {fx : Fix} (h2 : fx.f2 = true) (ts : List Ty) (tbl : Tbl) :
      ∀ (t : Prog), slotsIn ts t → allInst fx (restrict ts tbl) t = allInst fx tbl t
    | .node f kids => by
      intro h
      unfold slotsIn at h
      unfold allInst
      rw [allInstSym_restrict h2 h.1, allInstList_restrict h2 ts tbl kids h.2]
  theorem allInstList_restrict {fx : Fix} (h2 : fx.f2 = true) (ts : List Ty) (tbl : Tbl) :
      ∀ (ks : List Prog), slotsInList ts ks → allInstList fx (restrict ts tbl) ks = allInstList fx tbl ks
    | [] => by intro _; rfl
    | k :: ks => by
      intro h
      unfold slotsInList at h
      unfold allInstList
      rw [allInst_restrict h2 ts tbl k h.1, allInstList_restrict h2 ts tbl ks h.2]
end

/-! ### the programs of a grammar have their slots among the slots of the grammar -/

section det
variable {S : Type} [DecidableEq S]

theorem covered_of_rule {ts : List Ty} {G : TT S Unit} (hc : Covers ts G.rules) {nt : NT S Unit}
    {P : Sym} {r : List (Ty × S) × Unit} (hr : G.rule? nt P = some r) : covered ts P := by
  unfold TT.rule? at hr
  cases hl : AList.lookup nt G.rules with
  | none => rw [hl] at hr; cases hr
  | some row =>
    rw [hl] at hr
    exact hc (nt, row) (AList.lookup_some_mem hl) P (mem_keys_of_lookup hr)

mutual
  theorem slotsIn_of_gen {ts : List Ty} (G : TT S Unit) (hc : Covers ts G.rules) :
      ∀ (t : Prog) (nt : NT S Unit), gen G t nt = true → slotsIn ts t
    | .node P kids, nt => by
      intro hg
      unfold gen at hg
      cases hr : G.rule? nt P with
      | none => rw [hr] at hg; cases hg
      | some r =>
        obtain ⟨args, u⟩ := r
        rw [hr] at hg
        unfold slotsIn
        exact ⟨covered_of_rule hc hr, slotsInList_of_genList G hc kids args hg⟩
  theorem slotsInList_of_genList {ts : List Ty} (G : TT S Unit) (hc : Covers ts G.rules) :
      ∀ (ks : List Prog) (args : List (Ty × S)), genList G ks args = true → slotsInList ts ks
    | [], _ => by intro _; trivial
    | _ :: _, [] => by intro hg; simp [genList] at hg
    | k :: ks, (t, s) :: as => by
      intro hg
      unfold genList at hg
      rw [Bool.and_eq_true] at hg
      unfold slotsInList
      exact ⟨slotsIn_of_gen G hc k (t, (s, ())) hg.1, slotsInList_of_genList G hc ks as hg.2⟩
end
end det

section ucfg
variable {V : Type} [DecidableEq V]

theorem covered_of_alts {ts : List Ty} {G : U.UCFG V} (hc : Covers ts G.rules) {nt : U.UNT V}
    {P : Sym} {c : List (List (U.UNT V))} (hr : G.alts? nt P = some c) : covered ts P := by
  obtain ⟨row, hl, hP⟩ := alts?_row hr
  exact hc (nt, row) (AList.lookup_some_mem hl) P (mem_keys_of_lookup hP)

mutual
  theorem slotsIn_of_derivs {ts : List Ty} (G : U.UCFG V) (hc : Covers ts G.rules) :
      ∀ (t : Prog) (nt : U.UNT V), U.derivs G t nt ≠ [] → slotsIn ts t
    | .node P kids, nt => by
      intro hd
      rw [U.derivs] at hd
      cases ha : G.alts? nt P with
      | none => rw [ha] at hd; exact absurd rfl hd
      | some cands =>
        rw [ha] at hd
        obtain ⟨args, _, hne⟩ := flatMap_ne_nil hd
        have hne' : U.derivsList G kids args ≠ [] := by
          intro e; rw [e] at hne; exact hne rfl
        unfold slotsIn
        exact ⟨covered_of_alts hc ha, slotsInList_of_derivs G hc kids args hne'⟩
  theorem slotsInList_of_derivs {ts : List Ty} (G : U.UCFG V) (hc : Covers ts G.rules) :
      ∀ (ks : List Prog) (as : List (U.UNT V)), U.derivsList G ks as ≠ [] → slotsInList ts ks
    | [], _ => by intro _; trivial
    | _ :: _, [] => by intro hd; simp [U.derivsList] at hd
    | k :: ks, a :: as => by
      intro hd
      rw [U.derivsList] at hd
      obtain ⟨d, hdm, hne⟩ := flatMap_ne_nil hd
      have h1 : U.derivs G k a ≠ [] := by intro e; rw [e] at hdm; cases hdm
      have h2 : U.derivsList G ks as ≠ [] := by intro e; rw [e] at hne; exact hne rfl
      unfold slotsInList
      exact ⟨slotsIn_of_derivs G hc k a h1, slotsInList_of_derivs G hc ks as h2⟩
end

theorem slotsIn_of_genU {ts : List Ty} (G : U.UCFG V) (hc : Covers ts G.rules) (t : Prog)
    (hg : U.genU G t = true) : slotsIn ts t := by
  obtain ⟨s, _, hd⟩ := genU_iff.mp hg
  exact slotsIn_of_derivs G hc t s hd

end ucfg

end PS.IC
