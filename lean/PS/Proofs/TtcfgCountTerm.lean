/-
  C13, part 19: TERMINATION of `TTCFG.programs()` (as it is now: `computeR`, ttcfg.py:278-311) on
  non-recursive tables: the recursion depth of `__compute__` is bounded by a rank of the
  non-terminals.  A table is RANKED by `(m, ρ)` when every rule `(args, st)` of a non-terminal
  `nt` has `m st ≤ m nt.state` (the state measure never grows along a derivation) and
  `ρ a st < ρ nt` for each of its argument slots `a`, and `ρ slot ·` is monotone in `m`.
  Then `computeR G fuel nt` returns as soon as `fuel ≥ ρ nt + 2`.
-/
import PS.Proofs.TtcfgCountR
namespace PS.T
open PS PS.G

variable {S T : Type} [DecidableEq S] [DecidableEq T]

structure Ranked (G : TT S T) (m : T → Nat) (ρ : Ty × S → T → Nat) : Prop where
  rule : ∀ nt row, AList.lookup nt G.rules = some row → ∀ r ∈ row,
    m r.2.2 ≤ m nt.2.2 ∧ ∀ a ∈ r.2.1, ρ a r.2.2 < ρ (nt.1, nt.2.1) nt.2.2
  mono : ∀ slot v v', m v ≤ m v' → ρ slot v ≤ ρ slot v'

/-- the recursive call returns a dictionary whose end states are not above its start state -/
def GoodRec (m : T → Nat) (rec : NT S T → Option (AList T Nat)) (nt : NT S T) : Prop :=
  ∃ d, rec nt = some d ∧ ∀ e ∈ d, m e.1 ≤ m nt.2.2

omit [DecidableEq S] in
theorem stepLocal_term (m : T → Nat) (rec : NT S T → Option (AList T Nat)) (base : Ty × S) (s : Nat)
    (hrec : ∀ v, m v ≤ s → GoodRec m rec (base.1, (base.2, v))) :
    ∀ (loc acc : AList T Nat), (∀ e ∈ loc, m e.1 ≤ s) → (∀ e ∈ acc, m e.1 ≤ s) →
      ∃ r, stepLocal rec base loc acc = some r ∧ ∀ e ∈ r, m e.1 ≤ s
  | [], acc, _, ha => ⟨acc, rfl, ha⟩
  | (v, cnt) :: rest, acc, hl, ha => by
    rw [stepLocal]
    have hv : m v ≤ s := hl (v, cnt) (List.mem_cons_self ..)
    obtain ⟨sub, hsub, hk⟩ := hrec v hv
    rw [hsub]
    simp only
    apply stepLocal_term m rec base s hrec rest _ (fun e he => hl e (List.mem_cons_of_mem _ he))
    intro e he
    rcases keys_addScaled cnt sub acc e he with ⟨e', he', h1⟩ | ⟨e', he', h1⟩
    · rw [← h1]; exact Nat.le_trans (hk e' he') hv
    · rw [← h1]; exact ha e' he'

omit [DecidableEq S] in
theorem chainLocal_term (m : T → Nat) (rec : NT S T → Option (AList T Nat)) (s : Nat) :
    ∀ (info : List (Ty × S)) (loc : AList T Nat),
      (∀ base ∈ info, ∀ v, m v ≤ s → GoodRec m rec (base.1, (base.2, v))) → (∀ e ∈ loc, m e.1 ≤ s) →
      ∃ loc', chainLocal rec info loc = some loc' ∧ ∀ e ∈ loc', m e.1 ≤ s
  | [], loc, _, hl => ⟨loc, rfl, hl⟩
  | base :: info, loc, hrec, hl => by
    rw [chainLocal]
    obtain ⟨nl, hnl, hk⟩ := stepLocal_term m rec base s (hrec base (List.mem_cons_self ..)) loc [] hl
      (by intro e he; cases he)
    rw [hnl]
    simp only
    exact chainLocal_term m rec s info nl (fun b hb => hrec b (List.mem_cons_of_mem _ hb)) hk

theorem rowCounts_term (m : T → Nat) (rec : NT S T → Option (AList T Nat)) (state : NT S T) (s : Nat) :
    ∀ (rs : Row S T) (out : AList T Nat),
      (∀ r ∈ rs, m r.2.2 ≤ s ∧ GoodRec m rec (deriveWith [] state r.2.1 r.2.2).2 ∧
        (deriveWith [] state r.2.1 r.2.2).2.2.2 = r.2.2 ∧
        ∀ base ∈ (deriveWith [] state r.2.1 r.2.2).1, ∀ v, m v ≤ m r.2.2 → GoodRec m rec (base.1, (base.2, v))) →
      (∀ e ∈ out, m e.1 ≤ s) →
      ∃ out', rowCounts rec state rs out = some out' ∧ ∀ e ∈ out', m e.1 ≤ s
  | [], out, _, ho => ⟨out, rfl, ho⟩
  | r :: rs, out, hr, ho => by
    rw [rowCounts]
    obtain ⟨h1, ⟨loc, hloc, hk⟩, hst, h3⟩ := hr r (List.mem_cons_self ..)
    try simp only
    rw [hloc]
    try simp only
    rw [hst] at hk
    obtain ⟨loc', hl', hk'⟩ := chainLocal_term m rec (m r.2.2) _ loc h3 hk
    rw [hl']
    try simp only
    apply rowCounts_term m rec state s rs _ (fun r' hr' => hr r' (List.mem_cons_of_mem _ hr'))
    intro e he
    rcases keys_addScaled 1 loc' out e he with ⟨e', he', h4⟩ | ⟨e', he', h4⟩
    · rw [← h4]; exact Nat.le_trans (hk' e' he') h1
    · rw [← h4]; exact ho e' he'

omit [DecidableEq S] [DecidableEq T] in
theorem deriveWith_state (state : NT S T) (args : List (Ty × S)) (st : T) :
    (deriveWith [] state args st).2.2.2 = st := by
  cases args with
  | nil => simp [deriveWith]
  | cons a as => obtain ⟨t, s⟩ := a; simp [deriveWith]

/-- **`__compute__` returns** at every non-terminal whose rank is below the recursion depth allowed -/
theorem computeR_terminates (G : TT S T) (hU : noUnknownKey G = true) (m : T → Nat) (ρ : Ty × S → T → Nat)
    (hR : Ranked G m ρ) : ∀ (n : Nat) (nt : NT S T),
    (AList.lookup nt G.rules = none ∨ ρ (nt.1, nt.2.1) nt.2.2 < n) → GoodRec m (computeR G (n + 1)) nt
  | n, nt, h => by
    cases hrow : AList.lookup nt G.rules with
    | none =>
      unfold GoodRec
      simp only [computeR, hrow]
      by_cases hu : nt.1 = Ty.unknown
      · simp only [hu, if_true]
        exact ⟨_, rfl, by intro e he; rw [List.mem_singleton.mp he]; exact Nat.le_refl _⟩
      · simp only [hu, if_false]
        exact ⟨_, rfl, by intro e he; cases he⟩
    | some row =>
      have hlt : ρ (nt.1, nt.2.1) nt.2.2 < n := by
        rcases h with h | h
        · rw [hrow] at h; cases h
        · exact h
      cases n with
      | zero => omega
      | succ n' =>
        unfold GoodRec
        simp only [computeR, hrow]
        have := rowCounts_term m (computeR G (n' + 1)) nt (m nt.2.2) row [] ?_ (by intro e he; cases he)
        · obtain ⟨out', h1, h2⟩ := this
          exact ⟨out', h1, h2⟩
        · intro r hr
          obtain ⟨g1, g2⟩ := hR.rule nt row hrow r hr
          refine ⟨g1, ?_, deriveWith_state nt r.2.1 r.2.2, ?_⟩
          · cases hargs : r.2.1 with
            | nil =>
              apply computeR_terminates G hU m ρ hR n'
              left
              simp only [deriveWith, List.nil_append]
              cases hl : AList.lookup ((Ty.unknown, (nt.2.1, r.2.2)) : NT S T) G.rules with
              | none => rfl
              | some row' => exact absurd rfl (noUnknown_inRules G hU _ (contains_of_lookup hl))
            | cons a as =>
              rw [deriveWith_cons]
              apply computeR_terminates G hU m ρ hR n'
              right
              have := g2 a (by rw [hargs]; exact List.mem_cons_self ..)
              change ρ a r.2.2 < n'
              omega
          · intro base hb v hv
            apply computeR_terminates G hU m ρ hR n'
            right
            have hbm : base ∈ r.2.1 := by
              cases hargs : r.2.1 with
              | nil => rw [hargs] at hb; simp [deriveWith] at hb
              | cons a as =>
                rw [hargs, deriveWith_cons] at hb
                simp only [List.append_nil] at hb
                exact List.mem_cons_of_mem _ hb
            have h1 := g2 base hbm
            have h2 := hR.mono base v r.2.2 hv
            change ρ base v < n'
            omega

/-- **`programs()` returns** on a ranked table as soon as `fuel ≥ ρ start + 2` -/
theorem programsR_terminates (G : TT S T) (hU : noUnknownKey G = true) (m : T → Nat) (ρ : Ty × S → T → Nat)
    (hR : Ranked G m ρ) (fuel : Nat) (hf : ρ (G.start.1, G.start.2.1) G.start.2.2 + 2 ≤ fuel) :
    (programsR G fuel).isSome = true := by
  unfold programsR
  by_cases hc : AList.contains G.start G.rules = true
  · simp only [hc, if_true]
    obtain ⟨k, hk⟩ : ∃ k, fuel = k + 1 := ⟨fuel - 1, by omega⟩
    subst hk
    obtain ⟨d, hd, _⟩ := computeR_terminates G hU m ρ hR k G.start (Or.inr (by omega))
    rw [hd]; rfl
  · simp [hc]

/-- a sub-table of a ranked table is ranked -/
theorem ranked_restrict (G : TT S T) (m : T → Nat) (ρ : Ty × S → T → Nat) (hR : Ranked G m ρ) (G' : TT S T)
    (hsub : ∀ nt row', AList.lookup nt G'.rules = some row' → ∃ row, AList.lookup nt G.rules = some row ∧ ∀ r ∈ row', r ∈ row) :
    Ranked G' m ρ := by
  refine ⟨?_, hR.mono⟩
  intro nt row' hl r hr
  obtain ⟨row, h1, h2⟩ := hsub nt row' hl
  exact hR.rule nt row h1 r (h2 r hr)

end PS.T
