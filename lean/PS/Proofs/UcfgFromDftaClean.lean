/-
  C06, part 5: `UCFG.clean()` (PS/Model/UcfgFromDfta.lean `clean`) keeps the language, for EVERY
  unambiguous grammar none of whose non-terminals has the type `UnknownType` (the end-of-derivation
  marker), whenever it returns.
  * `CInv`      invariant of the `while to_test` loop: every start configuration is in `done`; every
                configuration of `done` is an end marker, still to be tested, or expanded (all its
                successors by `derive` are in `done`); its non-terminal is in `reached`
  * `keep`      a derivation in the grammar only visits configurations of `done`, so it survives
  * `clean_contains`  the theorem
-/
import PS.Model.UcfgFromDfta
import PS.Proofs.Ucfg
import PS.Proofs.Dfta
namespace PS.U.CL
open PS PS.G PS.U

variable {U : Type} [DecidableEq U]
set_option linter.unusedSectionVars false

/-! ### extension of a state by `cleanVisit` -/

/-- `st'` extends `st`: the three collections grow, and every configuration added to `done` is
    an end marker or was put on the work list, and its non-terminal was added to `reached` -/
structure Ext (st st' : CleanSt U) : Prop where
  done_sub : ∀ c ∈ st.done, c ∈ st'.done
  test_sub : ∀ x ∈ st.toTest, x ∈ st'.toTest
  reach_sub : ∀ x ∈ st.reached, x ∈ st'.reached
  fresh : ∀ c ∈ st'.done, c ∈ st.done ∨ ((c.2.1 = Ty.unknown ∨ (c.2, c.1) ∈ st'.toTest) ∧ c.2 ∈ st'.reached)

theorem Ext.refl (st : CleanSt U) : Ext st st :=
  ⟨fun _ h => h, fun _ h => h, fun _ h => h, fun _ h => Or.inl h⟩

theorem Ext.trans {a b c : CleanSt U} (h1 : Ext a b) (h2 : Ext b c) : Ext a c :=
  { done_sub := fun x hx => h2.done_sub x (h1.done_sub x hx)
    test_sub := fun x hx => h2.test_sub x (h1.test_sub x hx)
    reach_sub := fun x hx => h2.reach_sub x (h1.reach_sub x hx)
    fresh := by
      intro x hx
      rcases h2.fresh x hx with h | h
      · rcases h1.fresh x h with h' | ⟨h', h''⟩
        · exact Or.inl h'
        · right
          refine ⟨?_, h2.reach_sub _ h''⟩
          rcases h' with h' | h'
          · exact Or.inl h'
          · exact Or.inr (h2.test_sub _ h')
      · exact Or.inr h }

theorem ext_visit (st : CleanSt U) (a : List (UNT U) × UNT U × List (UNT U)) :
    Ext st (cleanVisit st a) ∧ (a.1, a.2.1) ∈ (cleanVisit st a).done := by
  unfold cleanVisit
  by_cases h : (a.1, a.2.1) ∈ st.done
  · rw [if_pos h]
    exact ⟨Ext.refl st, h⟩
  · rw [if_neg h]
    refine ⟨⟨?_, ?_, ?_, ?_⟩, ?_⟩
    · intro c hc; exact List.mem_append_left _ hc
    · intro x hx
      simp only
      split
      · exact hx
      · exact List.mem_cons_of_mem _ hx
    · intro x hx
      exact (mem_addNew _ _ _).mpr (Or.inl hx)
    · intro c hc
      simp only at hc
      rcases List.mem_append.mp hc with h1 | h1
      · exact Or.inl h1
      · simp only [List.mem_singleton] at h1
        subst h1
        right
        refine ⟨?_, (mem_addNew _ _ _).mpr (Or.inr rfl)⟩
        simp only
        by_cases hu : a.2.1.1 = Ty.unknown
        · exact Or.inl hu
        · right; rw [if_neg hu]; exact List.mem_cons_self
    · simp

theorem ext_fold (L : List (List (UNT U) × UNT U × List (UNT U))) :
    ∀ (st : CleanSt U), Ext st (L.foldl cleanVisit st) ∧
      ∀ a ∈ L, (a.1, a.2.1) ∈ (L.foldl cleanVisit st).done := by
  induction L with
  | nil => intro st; exact ⟨Ext.refl st, by intro a ha; cases ha⟩
  | cons x xs ih =>
    intro st
    rw [List.foldl_cons]
    obtain ⟨e1, m1⟩ := ext_visit st x
    obtain ⟨e2, m2⟩ := ih (cleanVisit st x)
    refine ⟨e1.trans e2, ?_⟩
    intro a ha
    rcases List.mem_cons.mp ha with h | h
    · subst h; exact e2.done_sub _ m1
    · exact m2 a h

/-! ### the loop invariant -/

/-- the configuration `(info, S)` has been expanded: all results of `derive` are in `done` -/
def Expanded (G : UCFG U) (done : List (List (UNT U) × UNT U)) (c : List (UNT U) × UNT U) : Prop :=
  ∃ row, AList.lookup c.2 G.rules = some row ∧
    ∀ a ∈ row.flatMap (fun e => derive G c.1 c.2 e.1), (a.1, a.2.1) ∈ done

structure CInv (G : UCFG U) (st : CleanSt U) : Prop where
  starts_done : ∀ s ∈ G.starts, ([], s) ∈ st.done
  starts_reached : ∀ s ∈ G.starts, s ∈ st.reached
  status : ∀ c ∈ st.done, c.2.1 = Ty.unknown ∨ (c.2, c.1) ∈ st.toTest ∨ Expanded G st.done c
  reached_done : ∀ c ∈ st.done, c.2 ∈ st.reached

theorem cinv_init (G : UCFG U) : CInv G (cleanInit G) := by
  unfold cleanInit
  refine ⟨?_, ?_, ?_, ?_⟩
  · intro s hs; exact List.mem_map.mpr ⟨s, hs, rfl⟩
  · intro s hs; exact hs
  · intro c hc
    simp only at hc
    obtain ⟨s, hs, rfl⟩ := List.mem_map.mp hc
    right; left
    simp only
    exact List.mem_reverse.mpr (List.mem_map.mpr ⟨s, hs, rfl⟩)
  · intro c hc
    simp only at hc
    obtain ⟨s, hs, rfl⟩ := List.mem_map.mp hc
    exact hs

theorem cinv_step (G : UCFG U) (st : CleanSt U) (S : UNT U) (info : List (UNT U))
    (rest : List (UNT U × List (UNT U))) (row : Row U) (hinv : CInv G st)
    (ht : st.toTest = (S, info) :: rest) (hl : AList.lookup S G.rules = some row) :
    CInv G (cleanExpand G S info row { st with toTest := rest }) := by
  unfold cleanExpand
  obtain ⟨ext, mem⟩ := ext_fold (row.flatMap (fun e => derive G info S e.1)) { st with toTest := rest }
  refine ⟨?_, ?_, ?_, ?_⟩
  · intro s hs; exact ext.done_sub _ (hinv.starts_done s hs)
  · intro s hs; exact ext.reach_sub _ (hinv.starts_reached s hs)
  · intro c hc
    rcases ext.fresh c hc with h | ⟨h, _⟩
    · rcases hinv.status c h with h1 | h1 | h1
      · exact Or.inl h1
      · rw [ht] at h1
        rcases List.mem_cons.mp h1 with h2 | h2
        · -- the configuration that was just expanded
          right; right
          have hc2 : c.2 = S := (Prod.mk.inj h2).1
          have hc1 : c.1 = info := (Prod.mk.inj h2).2
          exact ⟨row, by rw [hc2]; exact hl, by rw [hc1, hc2]; exact mem⟩
        · right; left; exact ext.test_sub _ h2
      · right; right
        obtain ⟨row', h1, h2⟩ := h1
        exact ⟨row', h1, fun a ha => ext.done_sub _ (h2 a ha)⟩
    · rcases h with h | h
      · exact Or.inl h
      · exact Or.inr (Or.inl h)
  · intro c hc
    rcases ext.fresh c hc with h | ⟨_, h⟩
    · exact ext.reach_sub _ (hinv.reached_done c h)
    · exact h

theorem cleanLoop_inv (G : UCFG U) : ∀ (fuel : Nat) (st st' : CleanSt U), CInv G st →
    cleanLoop G fuel st = some st' → CInv G st' ∧ st'.toTest = [] := by
  intro fuel
  induction fuel with
  | zero => intro st st' _ h; simp [cleanLoop] at h
  | succ fuel ih =>
    intro st st' hinv h
    rw [cleanLoop] at h
    cases ht : st.toTest with
    | nil =>
      rw [ht] at h
      simp only [Option.some.injEq] at h
      subst h
      exact ⟨hinv, ht⟩
    | cons x rest =>
      obtain ⟨S, info⟩ := x
      rw [ht] at h
      simp only at h
      cases hl : AList.lookup S G.rules with
      | none => rw [hl] at h; cases h
      | some row =>
        rw [hl] at h
        exact ih _ st' (cinv_step G st S info rest row hinv ht hl) h


/-! ### the filtered grammar -/

/-- the grammar after its rows were filtered by `reached` (u_cfg.py:99-103) -/
def restrict (G : UCFG U) (reached : List (UNT U)) : UCFG U :=
  { G with rules := G.rules.filter (fun e => decide (e.1 ∈ reached)) }

theorem lookup_filter_key {κ ν : Type} [DecidableEq κ] (p : κ → Bool) (k : κ) (d : AList κ ν) :
    AList.lookup k (d.filter (fun e => p e.1)) = if p k = true then AList.lookup k d else none := by
  induction d with
  | nil => simp [AList.lookup]
  | cons e r ih =>
    obtain ⟨k', v⟩ := e
    by_cases hp : p k' = true
    · rw [List.filter_cons_of_pos (by simpa using hp)]
      by_cases hk : k' = k
      · subst hk; simp [AList.lookup, hp]
      · simp only [AList.lookup, hk, if_false, ih]
    · rw [List.filter_cons_of_neg (by simpa using hp)]
      by_cases hk : k' = k
      · subst hk
        rw [ih]
        simp [hp]
      · simp only [AList.lookup, hk, if_false, ih]

theorem alts_restrict (G : UCFG U) (reached : List (UNT U)) (nt : UNT U) (f : Sym) :
    (restrict G reached).alts? nt f = if nt ∈ reached then G.alts? nt f else none := by
  unfold UCFG.alts? restrict
  simp only
  rw [lookup_filter_key (fun k => decide (k ∈ reached))]
  by_cases h : nt ∈ reached
  · simp [h]
  · simp [h]

/-! ### non-empty derivation lists -/

theorem derivs_ne_nil_iff (G : UCFG U) (f : Sym) (kids : List Prog) (nt : UNT U) :
    derivs G (.node f kids) nt ≠ [] ↔
      ∃ cands, G.alts? nt f = some cands ∧ ∃ args ∈ cands, derivsList G kids args ≠ [] := by
  rw [derivs]
  cases h : G.alts? nt f with
  | none => simp
  | some cands =>
    simp only [ne_eq, List.flatMap_eq_nil_iff, List.map_eq_nil_iff, not_forall, Option.some.injEq,
      exists_eq_left']
    constructor
    · rintro ⟨args, ha, hne⟩; exact ⟨args, ha, hne⟩
    · rintro ⟨args, ha, hne⟩; exact ⟨args, ha, hne⟩

theorem derivsList_cons_ne_nil_iff (G : UCFG U) (k : Prog) (ks : List Prog) (a : UNT U) (as : List (UNT U)) :
    derivsList G (k :: ks) (a :: as) ≠ [] ↔ derivs G k a ≠ [] ∧ derivsList G ks as ≠ [] := by
  rw [derivsList]
  simp only [ne_eq, List.flatMap_eq_nil_iff, List.map_eq_nil_iff, not_forall]
  constructor
  · rintro ⟨d, hd, hne⟩
    exact ⟨fun e => by (rw [e] at hd; cases hd), hne⟩
  · rintro ⟨h1, h2⟩
    obtain ⟨d, hd⟩ := List.exists_mem_of_ne_nil _ h1
    exact ⟨d, hd, h2⟩

/-- a derivation of the filtered grammar is a derivation of the grammar -/
theorem mono (G : UCFG U) (reached : List (UNT U)) :
    (∀ (t : Prog) (nt : UNT U), derivs (restrict G reached) t nt ≠ [] → derivs G t nt ≠ []) ∧
    (∀ (ks : List Prog) (args : List (UNT U)), derivsList (restrict G reached) ks args ≠ [] →
      derivsList G ks args ≠ []) := by
  have key : ∀ t : Prog, ∀ nt, derivs (restrict G reached) t nt ≠ [] → derivs G t nt ≠ [] := by
    intro t
    induction t using Tree.rec (motive_2 := fun ks => ∀ args,
        derivsList (restrict G reached) ks args ≠ [] → derivsList G ks args ≠ []) with
    | node f kids ih =>
      intro nt h
      obtain ⟨cands, hc, args, ha, hne⟩ := (derivs_ne_nil_iff _ f kids nt).mp h
      rw [alts_restrict] at hc
      split at hc
      · exact (derivs_ne_nil_iff G f kids nt).mpr ⟨cands, hc, args, ha, ih args hne⟩
      · cases hc
    | nil =>
      rename_i args h
      cases args with
      | nil => simp [derivsList]
      | cons a as => simp [derivsList] at h
    | cons k ks ihk ihks =>
      rename_i args h
      cases args with
      | nil => simp [derivsList] at h
      | cons a as =>
        rw [derivsList_cons_ne_nil_iff] at h ⊢
        exact ⟨ihk a h.1, ihks as h.2⟩
  refine ⟨key, ?_⟩
  intro ks
  induction ks with
  | nil =>
    intro args h
    cases args with
    | nil => simp [derivsList]
    | cons a as => simp [derivsList] at h
  | cons k ks ih =>
    intro args h
    cases args with
    | nil => simp [derivsList] at h
    | cons a as =>
      rw [derivsList_cons_ne_nil_iff] at h ⊢
      exact ⟨key k a h.1, ih as h.2⟩


/-! ### a derivation only visits configurations of `done` -/

section Keep
variable (G : UCFG U) (st : CleanSt U) (hinv : CInv G st) (hT : st.toTest = [])
  (hK : ∀ k ∈ AList.keys G.rules, k.1 ≠ Ty.unknown)
include hinv hT hK

theorem expanded_alt (info : List (UNT U)) (nt : UNT U) (hc : (info, nt) ∈ st.done) (f : Sym)
    (cands : List (List (UNT U))) (ha : G.alts? nt f = some cands) (args : List (UNT U))
    (hargs : args ∈ cands) : pop G (args ++ info) ∈ st.done := by
  unfold UCFG.alts? at ha
  cases hl : AList.lookup nt G.rules with
  | none => rw [hl] at ha; cases ha
  | some row0 =>
    rw [hl] at ha
    simp only at ha
    have hk : nt ∈ AList.keys G.rules := AList.lookup_isSome_iff_mem_keys.mp (by rw [hl]; rfl)
    rcases hinv.status _ hc with h | h | h
    · exact absurd h (hK nt hk)
    · rw [hT] at h; cases h
    · obtain ⟨row, hrow, hall⟩ := h
      simp only at hrow hall
      rw [hl] at hrow
      cases hrow
      have hmem : deriveOne G info args ∈ row0.flatMap (fun e => derive G info nt e.1) := by
        refine List.mem_flatMap.mpr ⟨(f, cands), AList.lookup_some_mem ha, ?_⟩
        unfold derive UCFG.alts?
        rw [hl]
        simp only [ha]
        exact List.mem_map.mpr ⟨args, hargs, rfl⟩
      have := hall _ hmem
      rw [deriveOne_pop] at this
      exact this

theorem keep : ∀ (t : Prog) (nt : UNT U) (info : List (UNT U)), (info, nt) ∈ st.done →
    derivs G t nt ≠ [] → derivs (restrict G st.reached) t nt ≠ [] ∧ pop G info ∈ st.done := by
  intro t
  induction t using Tree.rec (motive_2 := fun ks => ∀ (args info : List (UNT U)),
      (∀ a rest, args = a :: rest → (rest ++ info, a) ∈ st.done) → derivsList G ks args ≠ [] →
      derivsList (restrict G st.reached) ks args ≠ [] ∧ (args ≠ [] → pop G info ∈ st.done)) with
  | node f kids ih =>
    intro nt info hc h
    obtain ⟨cands, hca, args, ha, hne⟩ := (derivs_ne_nil_iff G f kids nt).mp h
    have hpop := expanded_alt G st hinv hT hK info nt hc f cands hca args ha
    have hr : nt ∈ st.reached := hinv.reached_done _ hc
    obtain ⟨h1, h2⟩ := ih args info (by
      intro a rest e
      subst e
      exact hpop) hne
    refine ⟨(derivs_ne_nil_iff _ f kids nt).mpr ⟨cands, by rw [alts_restrict, if_pos hr]; exact hca, args, ha, h1⟩, ?_⟩
    cases args with
    | nil => exact hpop
    | cons a rest => exact h2 (by simp)
  | nil =>
    rename_i args info hyp h
    cases args with
    | nil => exact ⟨by simp [derivsList], fun e => absurd rfl e⟩
    | cons a as => simp [derivsList] at h
  | cons k ks ihk ihks =>
    rename_i args info hyp h
    cases args with
    | nil => simp [derivsList] at h
    | cons a as =>
      rw [derivsList_cons_ne_nil_iff] at h
      obtain ⟨k1, kpop⟩ := ihk a (as ++ info) (hyp a as rfl) h.1
      obtain ⟨l1, lpop⟩ := ihks as info (by
        intro a2 rest e
        subst e
        exact kpop) h.2
      refine ⟨(derivsList_cons_ne_nil_iff _ k ks a as).mpr ⟨k1, l1⟩, fun _ => ?_⟩
      cases as with
      | nil => exact kpop
      | cons a2 rest => exact lpop (by simp)

end Keep


/-! ### the theorem -/

theorem derivs_congr (G1 G2 : UCFG U) (h : G1.rules = G2.rules) :
    ∀ (t : Prog) (nt : UNT U), derivs G1 t nt = derivs G2 t nt := by
  intro t
  induction t using Tree.rec (motive_2 := fun ks => ∀ args, derivsList G1 ks args = derivsList G2 ks args) with
  | node f kids ih =>
    intro nt
    rw [derivs, derivs]
    have : G1.alts? nt f = G2.alts? nt f := by unfold UCFG.alts?; rw [h]
    rw [this]
    cases G2.alts? nt f with
    | none => rfl
    | some cands =>
      simp only
      apply flatMap_congr'
      intro args _
      rw [ih args]
  | nil =>
    rename_i args
    cases args <;> simp [derivsList]
  | cons k ks ihk ihks =>
    rename_i args
    cases args with
    | nil => simp [derivsList]
    | cons a as =>
      rw [derivsList, derivsList, ihk a]
      apply flatMap_congr'
      intro d _
      rw [ihks as]

theorem contains_iff (G : UCFG U) (t : Prog) :
    contains G t = true ↔ ∃ s ∈ G.starts, derivs G t s ≠ [] := by
  rw [contains_eq_genU]
  unfold genU allDerivs
  simp only [Bool.not_eq_true', List.isEmpty_eq_false_iff, ne_eq, List.flatMap_eq_nil_iff,
    List.map_eq_nil_iff, not_forall]
  constructor
  · rintro ⟨s, hs, h⟩; exact ⟨s, hs, h⟩
  · rintro ⟨s, hs, h⟩; exact ⟨s, hs, h⟩

/-- what `clean()` returns, in terms of the final state of its loop -/
theorem clean_eq (G : UCFG U) (fuel : Nat) (Gc : UCFG U) (h : clean G fuel = some Gc) :
    ∃ st, cleanLoop G fuel (cleanInit G) = some st ∧ CInv G st ∧ st.toTest = [] ∧
      Gc.rules = (restrict G st.reached).rules ∧
      Gc.starts = G.starts.filter (startKept (restrict G st.reached) st.done) := by
  unfold clean at h
  cases hloop : cleanLoop G fuel (cleanInit G) with
  | none => rw [hloop] at h; cases h
  | some st =>
    rw [hloop] at h
    simp only [Option.some.injEq] at h
    obtain ⟨hinv, hT⟩ := cleanLoop_inv G fuel _ st (cinv_init G) hloop
    exact ⟨st, rfl, hinv, hT, by rw [← h]; rfl, by rw [← h]; rfl⟩

/-- a start symbol that derives some program is kept by `clean()`, with that derivation -/
theorem clean_keeps (G : UCFG U) (hK : ∀ k ∈ AList.keys G.rules, k.1 ≠ Ty.unknown) (fuel : Nat)
    (Gc : UCFG U) (h : clean G fuel = some Gc) (t : Prog) (s : UNT U) (hs : s ∈ G.starts)
    (hne : derivs G t s ≠ []) : s ∈ Gc.starts ∧ derivs Gc t s ≠ [] := by
  obtain ⟨st, _, hinv, hT, hrules, hstarts⟩ := clean_eq G fuel Gc h
  have hder := derivs_congr Gc (restrict G st.reached) hrules
  have hc : (([] : List (UNT U)), s) ∈ st.done := hinv.starts_done s hs
  obtain ⟨k1, _⟩ := keep G st hinv hT hK t s [] hc hne
  refine ⟨?_, by rw [hder]; exact k1⟩
  rw [hstarts]
  refine List.mem_filter.mpr ⟨hs, ?_⟩
  -- the first step of the derivation is a witness for `has_one`
  obtain ⟨f, kids⟩ := t
  obtain ⟨cands, hca, args, ha, _⟩ := (derivs_ne_nil_iff G f kids s).mp hne
  have hpop := expanded_alt G st hinv hT hK [] s hc f cands hca args ha
  have hr : s ∈ st.reached := hinv.starts_reached s hs
  have hca' : (restrict G st.reached).alts? s f = some cands := by
    rw [alts_restrict, if_pos hr]; exact hca
  unfold startKept
  have hca2 := hca'
  unfold UCFG.alts? at hca2
  cases hl : AList.lookup s (restrict G st.reached).rules with
  | none => rw [hl] at hca2; cases hca2
  | some row =>
    rw [hl] at hca2
    simp only at hca2 ⊢
    rw [List.any_eq_true]
    refine ⟨deriveOne (restrict G st.reached) [] args, ?_, ?_⟩
    · refine List.mem_flatMap.mpr ⟨(f, cands), AList.lookup_some_mem hca2, ?_⟩
      unfold derive
      rw [hca']
      exact List.mem_map.mpr ⟨args, ha, rfl⟩
    · have e : deriveOne (restrict G st.reached) [] args = deriveOne G [] args := by
        cases args <;> rfl
      rw [e, deriveOne_pop]
      simp only [Bool.or_eq_true, decide_eq_true_eq]
      exact Or.inl hpop

/-- **`clean()` keeps the language**: for every unambiguous grammar none of whose non-terminals
    has the type `UnknownType`, every number of iterations after which `clean()` returns, every
    program -/
theorem clean_contains (G : UCFG U) (hK : ∀ k ∈ AList.keys G.rules, k.1 ≠ Ty.unknown) (fuel : Nat)
    (Gc : UCFG U) (h : clean G fuel = some Gc) (t : Prog) : contains Gc t = contains G t := by
  obtain ⟨st, _, hinv, hT, hrules, hstarts⟩ := clean_eq G fuel Gc h
  have hder := derivs_congr Gc (restrict G st.reached) hrules
  rw [Bool.eq_iff_iff, contains_iff, contains_iff]
  constructor
  · rintro ⟨s, hs, hne⟩
    rw [hstarts] at hs
    rw [hder] at hne
    exact ⟨s, (List.mem_filter.mp hs).1, (mono G st.reached).1 t s hne⟩
  · rintro ⟨s, hs, hne⟩
    obtain ⟨h1, h2⟩ := clean_keeps G hK fuel Gc h t s hs hne
    exact ⟨s, h1, h2⟩

/-- number of derivations is kept as well: the derivation lists from a kept start symbol are
    those of the original grammar restricted to reached non-terminals — in particular `clean()`
    never creates a derivation -/
theorem clean_derivs_sub (G : UCFG U) (fuel : Nat) (Gc : UCFG U) (h : clean G fuel = some Gc)
    (t : Prog) (s : UNT U) (hne : derivs Gc t s ≠ []) : derivs G t s ≠ [] := by
  obtain ⟨st, _, _, _, hrules, _⟩ := clean_eq G fuel Gc h
  rw [derivs_congr Gc (restrict G st.reached) hrules] at hne
  exact (mono G st.reached).1 t s hne

/-- what `clean()` guarantees about its `done` set: it contains the configuration `([], S)` of
    every start symbol and is closed under `derive` (every configuration in it is an end marker
    or has all its successors in it); its non-terminals are the `reached` ones, whose rows are kept -/
theorem clean_done_closed (G : UCFG U) (fuel : Nat) (st : CleanSt U)
    (h : cleanState G fuel = some st) :
    (∀ s ∈ G.starts, ([], s) ∈ st.done) ∧
    (∀ c ∈ st.done, c.2.1 = Ty.unknown ∨ Expanded G st.done c) ∧
    (∀ c ∈ st.done, c.2 ∈ st.reached) := by
  obtain ⟨hinv, hT⟩ := cleanLoop_inv G fuel _ st (cinv_init G) h
  refine ⟨hinv.starts_done, ?_, hinv.reached_done⟩
  intro c hc
  rcases hinv.status c hc with h1 | h1 | h1
  · exact Or.inl h1
  · rw [hT] at h1; cases h1
  · exact Or.inr h1


/-! ### `clean()` does not add derivations: numbers of derivations can only go down -/

theorem length_flatMap_const {α β γ : Type} (l : List α) (m : List β) (c : α → β → γ) :
    (l.flatMap (fun a => m.map (c a))).length = l.length * m.length := by
  induction l with
  | nil => simp
  | cons x xs ih => simp [ih, Nat.add_mul, Nat.add_comm]

theorem sum_le_sum {α : Type} (l : List α) (g g' : α → Nat) (h : ∀ x ∈ l, g x ≤ g' x) :
    (l.map g).sum ≤ (l.map g').sum := by
  induction l with
  | nil => simp
  | cons x xs ih =>
    simp only [List.map_cons, List.sum_cons]
    have := h x (by simp)
    have := ih (fun y hy => h y (by simp [hy]))
    omega

theorem length_flatMap_map' {α β γ : Type} (l : List α) (g : α → List β) (c : α → β → γ) :
    (l.flatMap (fun a => (g a).map (c a))).length = (l.map (fun a => (g a).length)).sum := by
  induction l with
  | nil => rfl
  | cons x xs ih => simp [ih]

theorem derivs_length_le (G : UCFG U) (reached : List (UNT U)) :
    ∀ (t : Prog) (nt : UNT U), (derivs (restrict G reached) t nt).length ≤ (derivs G t nt).length := by
  intro t
  induction t using Tree.rec (motive_2 := fun ks => ∀ args,
      (derivsList (restrict G reached) ks args).length ≤ (derivsList G ks args).length) with
  | node f kids ih =>
    intro nt
    rw [derivs, derivs, alts_restrict]
    by_cases hr : nt ∈ reached
    · rw [if_pos hr]
      cases G.alts? nt f with
      | none => simp
      | some cands =>
        simp only
        rw [length_flatMap_map', length_flatMap_map']
        exact sum_le_sum _ _ _ (fun args _ => ih args)
    · rw [if_neg hr]
      simp
  | nil =>
    rename_i args
    cases args <;> simp [derivsList]
  | cons k ks ihk ihks =>
    rename_i args
    cases args with
    | nil => simp [derivsList]
    | cons a as =>
      rw [derivsList, derivsList, length_flatMap_const, length_flatMap_const]
      exact Nat.mul_le_mul (ihk a) (ihks as)

/-- the number of (start symbol, derivation) pairs does not grow -/
theorem clean_allDerivs_le (G : UCFG U) (fuel : Nat) (Gc : UCFG U) (h : clean G fuel = some Gc)
    (t : Prog) : (allDerivs Gc t).length ≤ (allDerivs G t).length := by
  obtain ⟨st, _, _, _, hrules, hstarts⟩ := clean_eq G fuel Gc h
  have hder := derivs_congr Gc (restrict G st.reached) hrules
  unfold allDerivs
  rw [length_flatMap_map', length_flatMap_map', hstarts]
  have h1 : ((G.starts.filter (startKept (restrict G st.reached) st.done)).map
      (fun s => (derivs Gc t s).length)).sum ≤ (G.starts.map (fun s => (derivs Gc t s).length)).sum := by
    induction G.starts with
    | nil => simp
    | cons x xs ih =>
      by_cases hp : startKept (restrict G st.reached) st.done x = true
      · rw [List.filter_cons_of_pos hp]
        simp only [List.map_cons, List.sum_cons]
        omega
      · rw [List.filter_cons_of_neg hp]
        simp only [List.map_cons, List.sum_cons]
        omega
  refine Nat.le_trans h1 (sum_le_sum _ _ _ ?_)
  intro s _
  rw [hder]
  exact derivs_length_le G st.reached t s

end PS.U.CL
