/-
  C05, parser, part 3: brackets.  `__next_level__` finds the bracket closing a group, or runs to the
  end of a group whose closing brackets were stripped; `__parse_next_word__` cuts the next word.
-/
import PS.Proofs.ConstraintsParseWords
set_option linter.unusedSectionVars false
namespace PS.C05
open PS PS.G

/-- balanced strings -/
inductive Bal : Str → Prop
  | nil : Bal []
  | chr (c : Char) (b : Str) : c ≠ '(' → c ≠ ')' → Bal b → Bal (c :: b)
  | grp (b1 b2 : Str) : Bal b1 → Bal b2 → Bal ('(' :: (b1 ++ ')' :: b2))

/-- balanced strings with brackets left open at the end -/
inductive OBal : Str → Prop
  | bal (b : Str) : Bal b → OBal b
  | opn (b u : Str) : Bal b → OBal u → OBal (b ++ '(' :: u)

theorem Bal.append {a b : Str} (ha : Bal a) (hb : Bal b) : Bal (a ++ b) := by
  induction ha with
  | nil => exact hb
  | chr c x h1 h2 _ ih => exact .chr c _ h1 h2 ih
  | grp b1 b2 h1 _ _ ih2 =>
    have : '(' :: (b1 ++ ')' :: b2) ++ b = '(' :: (b1 ++ ')' :: (b2 ++ b)) := by simp
    rw [this]; exact .grp _ _ h1 ih2

theorem Bal.plain {s : Str} (h : ∀ c ∈ s, c ≠ '(' ∧ c ≠ ')') : Bal s := by
  induction s with
  | nil => exact .nil
  | cons c cs ih =>
    exact .chr c cs (h c List.mem_cons_self).1 (h c List.mem_cons_self).2
      (ih (fun x hx => h x (List.mem_cons_of_mem _ hx)))

theorem Bal.paren {b : Str} (h : Bal b) : Bal ('(' :: (b ++ [')'])) := .grp b [] h .nil

theorem OBal.append_bal {a u : Str} (ha : Bal a) (hu : OBal u) : OBal (a ++ u) := by
  cases hu with
  | bal b hb => exact .bal _ (ha.append hb)
  | opn b u' hb hu' =>
    rw [← List.append_assoc]; exact .opn _ _ (ha.append hb) hu'

/-- passing over a balanced string at level ≥ 1 never returns -/
theorem nextLevelGo_bal {b : Str} (hb : Bal b) (tail : Str) (i lvl : Nat) (hl : lvl ≥ 1) :
    nextLevelGo (b ++ tail) i lvl = nextLevelGo tail (i + b.length) lvl := by
  induction hb generalizing i lvl tail with
  | nil => simp
  | chr c x h1 h2 _ ih =>
    simp only [List.cons_append, nextLevelGo, h1, h2, if_false]
    rw [ih tail (i + 1) lvl hl]
    simp only [List.length_cons]; congr 1; omega
  | grp b1 b2 _ _ ih1 ih2 =>
    have e : '(' :: (b1 ++ ')' :: b2) ++ tail = '(' :: (b1 ++ (')' :: (b2 ++ tail))) := by simp
    rw [e]
    simp only [nextLevelGo, if_true, show ('(' : Char) ≠ ')' by decide, if_false]
    rw [ih1 (')' :: (b2 ++ tail)) (i + 1) (lvl + 1) (by omega)]
    simp only [nextLevelGo, show (')' : Char) ≠ '(' by decide, if_false, if_true]
    have : ¬ (lvl + 1 = 1) := by omega
    simp only [this, if_false, Nat.add_sub_cancel]
    rw [ih2 tail _ lvl hl]
    simp only [List.length_cons, List.length_append]; congr 1; omega

/-- … and over a string with open brackets it runs to the last index -/
theorem nextLevelGo_obal {u : Str} (hu : OBal u) (i lvl : Nat) (hl : lvl ≥ 1) :
    nextLevelGo u i lvl = i + u.length - 1 := by
  induction hu generalizing i lvl with
  | bal b hb =>
    have := nextLevelGo_bal hb [] i lvl hl
    simp only [List.append_nil] at this
    rw [this]; simp [nextLevelGo]
  | opn b u' hb _ ih =>
    rw [nextLevelGo_bal hb _ i lvl hl]
    simp only [nextLevelGo, if_true, show ('(' : Char) ≠ ')' by decide, if_false]
    rw [ih _ (lvl + 1) (by omega)]
    simp only [List.length_append, List.length_cons]; omega

/-- a closed group followed by anything -/
theorem nextLevel_group {b : Str} (hb : Bal b) (rest : Str) :
    nextLevel ('(' :: (b ++ ')' :: rest)) = b.length + 1 := by
  unfold nextLevel
  simp only [nextLevelGo, if_true, show ('(' : Char) ≠ ')' by decide, if_false]
  rw [nextLevelGo_bal hb _ _ 1 (by omega)]
  simp only [nextLevelGo, show (')' : Char) ≠ '(' by decide, if_false, if_true]
  omega

/-- a group whose closing brackets are missing (it is the end of the string) -/
theorem nextLevel_open {u : Str} (hu : OBal u) : nextLevel ('(' :: u) = u.length := by
  unfold nextLevel
  simp only [nextLevelGo, if_true, show ('(' : Char) ≠ ')' by decide, if_false]
  rw [nextLevelGo_obal hu _ 1 (by omega)]
  omega

/-! ### `__parse_next_word__` -/

theorem pnw_group {b : Str} (hb : Bal b) (rest : Str) :
    parseNextWord ('(' :: (b ++ ')' :: rest)) = ('(' :: (b ++ [')']), b.length + 3) := by
  unfold parseNextWord
  simp only [List.head?_cons, if_true, nextLevel_group hb rest]
  have h1 : (((b.length + 1 : Nat) : Int) + 1).toNat = b.length + 2 := by omega
  have h2 : (((b.length + 1 : Nat) : Int) + 2).toNat = b.length + 3 := by omega
  rw [h1, h2]
  simp only [Prod.mk.injEq, and_true]
  rw [show b.length + 2 = (b.length + 1) + 1 from rfl, List.take_succ_cons]
  congr 1
  rw [show (b ++ ')' :: rest) = (b ++ [')']) ++ rest by simp]
  rw [List.take_left' (by simp)]

theorem pnw_open {u : Str} (hu : OBal u) :
    parseNextWord ('(' :: u) = ('(' :: u, u.length + 2) := by
  unfold parseNextWord
  simp only [List.head?_cons, if_true, nextLevel_open hu]
  have h1 : (((u.length : Nat) : Int) + 1).toNat = u.length + 1 := by omega
  have h2 : (((u.length : Nat) : Int) + 2).toNat = u.length + 2 := by omega
  rw [h1, h2]
  simp only [Prod.mk.injEq, and_true]
  exact List.take_of_length_le (by simp)

/-- a word without blank that does not begin with `(` -/
theorem pnw_word (w rest : Str) (c : Char) (r : Str) (hw : w = c :: r) (hc : c ≠ '(') (hsp : ' ' ∉ w) :
    parseNextWord (w ++ ' ' :: rest) = (w, w.length + 1) ∧ parseNextWord w = (w, w.length + 1) := by
  have f1 : findSub [' '] (w ++ ' ' :: rest) = some w.length := by
    clear hw
    induction w with
    | nil => simp [findSub, List.isPrefixOf]
    | cons x xs ih =>
      have hx : ' ' ≠ x := fun e => hsp (by rw [e]; exact List.mem_cons_self)
      have := ih (fun hm => hsp (List.mem_cons_of_mem _ hm))
      simp [findSub, List.isPrefixOf, hx, this]
  have f2 : findSub [' '] w = none := findSub_none ' ' [] w hsp
  subst hw
  constructor
  · unfold parseNextWord
    have hh : ((c :: r) ++ ' ' :: rest).head? = some c := rfl
    simp only [hh, Option.some.injEq, hc, if_false, f1]
    have h1 : ((((c :: r).length : Nat) : Int) - 1 + 1).toNat = (c :: r).length := by omega
    have h2 : ((((c :: r).length : Nat) : Int) - 1 + 2).toNat = (c :: r).length + 1 := by omega
    rw [h1, h2, List.take_left']
    rfl
  · unfold parseNextWord
    simp only [List.head?_cons, Option.some.injEq, hc, if_false, f2]
    have h1 : ((((c :: r).length : Nat) : Int) - 1 + 1).toNat = (c :: r).length := by omega
    have h2 : ((((c :: r).length : Nat) : Int) - 1 + 2).toNat = (c :: r).length + 1 := by omega
    rw [h1, h2, List.take_length]

end PS.C05
