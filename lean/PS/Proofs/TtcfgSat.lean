/-
  C13, part 9: the worklist loop of `__saturation_build__`.  Whatever the order in which the
  pending stacks are explored and dropped, the table it returns has distinct keys, contains the
  start symbol, and every row is exactly the row the rule-creation step gives that key.
  (What the loop does NOT guarantee - finding C13-F2 - is that every non-terminal a derivation
  can reach is a key.)
-/
import PS.Proofs.TtcfgRows
namespace PS.T
open PS PS.G

variable {S T : Type} [DecidableEq S] [DecidableEq T]

theorem insert_of_not_contains {κ ν : Type} [DecidableEq κ] (k : κ) (v : ν) :
    ∀ d : AList κ ν, AList.contains k d = false → AList.insert k v d = d ++ [(k, v)]
  | [], _ => rfl
  | (k', v') :: d, h => by
    have hk : k' ≠ k := by
      intro e
      simp [AList.contains, AList.lookup, e] at h
    have h' : AList.contains k d = false := by
      simpa [AList.contains, AList.lookup, hk] using h
    simp [AList.insert, hk, insert_of_not_contains k v d h']

theorem contains_append {κ ν : Type} [DecidableEq κ] (k : κ) (d d' : AList κ ν) (h : AList.contains k d = true) :
    AList.contains k (d ++ d') = true := by
  induction d with
  | nil => simp [AList.contains, AList.lookup] at h
  | cons e d ih =>
    by_cases hk : e.1 = k
    · simp [AList.contains, AList.lookup, hk]
    · have : AList.contains k d = true := by simpa [AList.contains, AList.lookup, hk] using h
      have := ih this
      simpa [AList.contains, AList.lookup, hk] using this

/-- the invariant of the loop -/
def SatInv (B : Builder S T) (prims : List Sym) (request : Ty) (tbl : Table S T) : Prop :=
  (AList.keys tbl).Nodup ∧ ∀ e ∈ tbl, e.2 = rowDict B prims request e.1

theorem satInv_step (B : Builder S T) (prims : List Sym) (request : Ty) (tbl : Table S T) (rule : NT S T)
    (hinv : SatInv B prims request tbl) :
    SatInv B prims request (if AList.contains rule tbl then tbl else AList.insert rule (rowDict B prims request rule) tbl) ∧
    (∀ k, AList.contains k tbl = true →
      AList.contains k (if AList.contains rule tbl then tbl else AList.insert rule (rowDict B prims request rule) tbl) = true) ∧
    AList.contains rule (if AList.contains rule tbl then tbl else AList.insert rule (rowDict B prims request rule) tbl) = true := by
  by_cases hc : AList.contains rule tbl = true
  · simp only [hc, if_true]
    exact ⟨hinv, fun k hk => hk, trivial⟩
  · have hc' : AList.contains rule tbl = false := by simpa using hc
    simp only [hc', Bool.false_eq_true, if_false]
    have hins := insert_of_not_contains rule (rowDict B prims request rule) tbl hc'
    refine ⟨?_, ?_, ?_⟩
    · rw [hins]
      constructor
      · unfold AList.keys
        rw [List.map_append, List.nodup_append]
        refine ⟨hinv.1, by simp, ?_⟩
        intro a ha b hb
        simp only [List.map_cons, List.map_nil, List.mem_singleton] at hb
        subst hb
        intro e; subst e
        have : AList.contains a tbl = true := AList.lookup_isSome_iff_mem_keys.mpr ha
        rw [hc'] at this; cases this
      · intro e he
        rcases List.mem_append.mp he with h1 | h1
        · exact hinv.2 e h1
        · simp only [List.mem_singleton] at h1; subst h1; rfl
    · intro k hk
      rw [hins]
      exact contains_append k tbl _ hk
    · unfold AList.contains; rw [AList.lookup_insert_self]; rfl

/-- every entry ever treated (`seen`) and every key stay in the table -/
theorem satLoop_inv (B : Builder S T) (prims : List Sym) (request : Ty) (stackKey : Bool) :
    ∀ (fuel : Nat) (todo : List ((Ty × S) × T × List (Ty × S))) (seen : List (NT S T × List (Ty × S)))
      (tbl r : Table S T),
      SatInv B prims request tbl → (∀ x ∈ seen, AList.contains x.1 tbl = true) →
      satLoop B prims request stackKey fuel todo seen tbl = some r →
      SatInv B prims request r ∧ (∀ k, AList.contains k tbl = true → AList.contains k r = true) ∧
      (∀ x ∈ todo, AList.contains (x.1.1, (x.1.2, x.2.1)) r = true)
  | fuel, [], seen, tbl, r, hinv, _, h => by
    cases fuel <;> (simp only [satLoop, Option.some.injEq] at h; subst h;
                    exact ⟨hinv, fun k hk => hk, by intro x hx; cases hx⟩)
  | 0, _ :: _, _, _, _, _, _, h => by simp [satLoop] at h
  | fuel + 1, (slot, cur, stack) :: todo, seen, tbl, r, hinv, hseen, h => by
    rw [satLoop] at h
    simp only at h
    by_cases hskip : (if stackKey then seen.contains ((slot.1, (slot.2, cur)), stack) else AList.contains (slot.1, (slot.2, cur)) tbl) = true
    · simp only [hskip, if_true] at h
      obtain ⟨i1, i2, i3⟩ := satLoop_inv B prims request stackKey fuel todo seen tbl r hinv hseen h
      refine ⟨i1, i2, ?_⟩
      intro x hx
      rcases List.mem_cons.mp hx with e | hm
      · subst e
        apply i2
        cases stackKey with
        | true =>
          simp only [if_true] at hskip
          have := hseen _ (by simpa using hskip)
          exact this
        | false => simpa using hskip
      · exact i3 x hm
    · simp only [hskip, Bool.false_eq_true, if_false] at h
      obtain ⟨j1, j2, j3⟩ := satInv_step B prims request tbl (slot.1, (slot.2, cur)) hinv
      have hseen' : ∀ x ∈ ((slot.1, (slot.2, cur)), stack) :: seen,
          AList.contains x.1 (if AList.contains (slot.1, (slot.2, cur)) tbl then tbl
            else AList.insert (slot.1, (slot.2, cur)) (rowDict B prims request (slot.1, (slot.2, cur))) tbl) = true := by
        intro x hx
        rcases List.mem_cons.mp hx with e | hm
        · subst e; exact j3
        · exact j2 _ (hseen x hm)
      obtain ⟨i1, i2, i3⟩ := satLoop_inv B prims request stackKey fuel _ _ _ r j1 hseen' h
      refine ⟨i1, fun k hk => i2 k (j2 k hk), ?_⟩
      intro x hx
      rcases List.mem_cons.mp hx with e | hm
      · subst e; exact i2 _ j3
      · exact i3 x (List.mem_append.mpr (Or.inr hm))

/-- **`__saturation_build__`**: distinct keys, the start symbol is a key, every row is the row
    of the rule-creation step - for every DSL, request, builder and fuel, with the de-duplication
    as it is or as repaired -/
theorem saturationTable_spec (B : Builder S T) (prims : List Sym) (request : Ty) (stackKey : Bool) (fuel : Nat)
    (G : TT S T) (h : saturationTable B prims request stackKey fuel = some G) :
    G.start = startOf B request ∧ (AList.keys G.rules).Nodup ∧ AList.contains G.start G.rules = true ∧
    ∀ e ∈ G.rules, e.2 = rowDict B prims request e.1 := by
  unfold saturationTable at h
  cases hl : satLoop B prims request stackKey fuel [((request.returns, B.init.1), B.init.2, [])] [] [] with
  | none => simp [hl] at h
  | some tbl =>
    simp only [hl, Option.some.injEq] at h
    subst h
    obtain ⟨i1, _, i3⟩ := satLoop_inv B prims request stackKey fuel _ [] [] tbl
      ⟨by simp [AList.keys], by intro e he; cases he⟩ (by intro x hx; cases hx) hl
    exact ⟨rfl, i1.1, i3 _ (List.mem_singleton.mpr rfl), i1.2⟩

/-- the rules of the saturation table are rules of the ideal grammar -/
theorem saturation_rule (B : Builder S T) (dsl : Dsl) (request : Ty) (stackKey : Bool) (fuel : Nat) (G : TT S T)
    (h : saturationTable B dsl.prims request stackKey fuel = some G) (nt : NT S T) (P : Sym) (val : List (Ty × S) × T)
    (hr : G.rule? nt P = some val) : idealFn B dsl request nt P = some val := by
  obtain ⟨_, _, _, hrows⟩ := saturationTable_spec B dsl.prims request stackKey fuel G h
  unfold TT.rule? at hr
  cases hl : AList.lookup nt G.rules with
  | none => simp [hl] at hr
  | some row =>
    simp only [hl] at hr
    have := hrows _ (AList.lookup_some_mem hl)
    simp only at this
    unfold idealFn rowsFn
    rw [← this]; exact hr

end PS.T
