/-
  Lemmas for C10, restart part: the rows of the table `_restart_` builds mirror the rows of the
  grammar (same keys), hence with a positive prior every row has a positive sum: the result is
  normalised and has full support.
-/
import PS.Proofs.SolverRestartGrammar
set_option linter.unusedSimpArgs false
set_option linter.unusedSectionVars false
namespace PS.C10.RG
open PS PS.G

variable {S : Type} [DecidableEq S]

/-- every row of the table is the row of a non-terminal of the grammar, with the same keys in the
    same order -/
def RowsOf (G : TT S Unit) (t : Tags S Unit) : Prop :=
  ∀ nt row, AList.lookup nt t = some row →
    ∃ rs, AList.lookup nt G.rules = some rs ∧ AList.keys row = AList.keys rs

theorem keys_map_val {κ ν μ : Type} (F : κ → ν → μ) (d : AList κ ν) :
    AList.keys (d.map (fun e => (e.1, F e.1 e.2))) = AList.keys d := by
  simp [AList.keys, List.map_map, Function.comp_def]

theorem rowsOf_uniform (G : TT S Unit) : RowsOf G (uniform G) := by
  intro nt row h
  unfold uniform at h
  rw [lookup_mapk (fun _ (rs : AList Sym (List (Ty × S) × Unit)) => rs.map (fun r => (r.1, 1 / (rs.length : Rat))))] at h
  cases hl : AList.lookup nt G.rules with
  | none => rw [hl] at h; cases h
  | some rs =>
    rw [hl] at h
    simp only [Option.map_some, Option.some.injEq] at h
    exact ⟨rs, rfl, by rw [← h]; exact keys_map_val (fun _ (_ : List (Ty × S) × Unit) => 1 / (rs.length : Rat)) rs⟩

theorem rowsOf_scale (G : TT S Unit) (c : Rat) (t : Tags S Unit) (h : RowsOf G t) : RowsOf G (scaleTags c t) := by
  intro nt row hl
  unfold scaleTags at hl
  rw [lookup_mapk (fun _ (row : AList Sym Rat) => row.map (fun r => (r.1, c * r.2)))] at hl
  cases hr : AList.lookup nt t with
  | none => rw [hr] at hl; cases hl
  | some row0 =>
    rw [hr] at hl
    simp only [Option.map_some, Option.some.injEq] at hl
    obtain ⟨rs, h1, h2⟩ := h nt row0 hr
    exact ⟨rs, h1, by rw [← hl, ← h2]; exact keys_map_val (fun _ w => c * w) row0⟩

theorem rowsOf_addTags (G : TT S Unit) (a b : Tags S Unit) (h : RowsOf G a) : RowsOf G (addTags a b) := by
  intro nt row hl
  unfold addTags at hl
  rw [lookup_mapk (fun k (row : AList Sym Rat) => row.map (fun r => (r.1, r.2 + weight b k r.1)))] at hl
  cases hr : AList.lookup nt a with
  | none => rw [hr] at hl; cases hl
  | some row0 =>
    rw [hr] at hl
    simp only [Option.map_some, Option.some.injEq] at hl
    obtain ⟨rs, h1, h2⟩ := h nt row0 hr
    exact ⟨rs, h1, by rw [← hl, ← h2]; exact keys_map_val (fun k w => w + weight b nt k) row0⟩

theorem rowsOf_addScore (G : TT S Unit) (sc : Rat) (t t' : Tags S Unit) (nt : NT S Unit) (P : Sym)
    (x : List (Ty × S) × Unit) (h : RowsOf G t) (he : addScore sc (some t) nt P x = some t') : RowsOf G t' := by
  unfold addScore at he
  simp only at he
  cases hr : AList.lookup nt t with
  | none => rw [hr] at he; cases he
  | some row0 =>
    rw [hr] at he
    simp only at he
    cases hw : AList.lookup P row0 with
    | none => rw [hw] at he; cases he
    | some w =>
      rw [hw] at he
      simp only [Option.some.injEq] at he
      subst he
      intro nt' row hl
      rw [AList.lookup_insert] at hl
      by_cases hn : nt' = nt
      · subst hn
        simp only [if_true, Option.some.injEq] at hl
        obtain ⟨rs, h1, h2⟩ := h nt' row0 hr
        exact ⟨rs, h1, by rw [← hl, keys_insert_of_lookup _ hw]; exact h2⟩
      · simp only [hn, if_false] at hl
        exact h nt' row hl

theorem foldl_addScore_none (G : TT S Unit) (sc : Rat) (d : List (NT S Unit × Sym)) :
    d.foldl (stepDer G (addScore sc)) none = none := by
  induction d with
  | nil => rfl
  | cons x rest ih =>
    simp only [List.foldl_cons, stepDer]
    cases G.rule? x.1 x.2 with
    | none => exact ih
    | some r => simpa [addScore] using ih

theorem rowsOf_fold (G : TT S Unit) (sc : Rat) (d : List (NT S Unit × Sym)) :
    ∀ (t t' : Tags S Unit), RowsOf G t → d.foldl (stepDer G (addScore sc)) (some t) = some t' → RowsOf G t' := by
  induction d with
  | nil => intro t t' h he; simp at he; subst he; exact h
  | cons x rest ih =>
    intro t t' h he
    simp only [List.foldl_cons, stepDer] at he
    cases hr : G.rule? x.1 x.2 with
    | none => rw [hr] at he; exact ih t t' h he
    | some r =>
      rw [hr] at he
      simp only at he
      cases ha : addScore sc (some t) x.1 x.2 r with
      | none => rw [ha, foldl_addScore_none] at he; cases he
      | some t1 => rw [ha] at he; exact ih t1 t' (rowsOf_addScore G sc t t1 x.1 x.2 r h ha) he

theorem rowsOf_accumulate (G : TT S Unit) (data : List (Prog × Rat)) :
    ∀ (t acc : Tags S Unit), RowsOf G t → (∀ d ∈ data, gen G d.1 G.start = true) →
      accumulate G t data = some acc → RowsOf G acc := by
  induction data with
  | nil => intro t acc h _ he; simp [accumulate] at he; subst he; exact h
  | cons d rest ih =>
    intro t acc h hd he
    obtain ⟨p, sc⟩ := d
    simp only [accumulate] at he
    rw [reduceDerivations_derivation G (addScore sc) p (some t) (hd (p, sc) (by simp))] at he
    cases hf : (derivation G p G.start).foldl (stepDer G (addScore sc)) (some t) with
    | none => rw [hf] at he; cases he
    | some t1 =>
      rw [hf] at he
      exact ih t1 acc (rowsOf_fold G sc _ t t1 h hf) (fun e hm => hd e (by simp [hm])) he

/-- the sum of a row whose keys are distinct is the sum of the weights of its keys -/
theorem rowSum_eq_weights (t : Tags S Unit) (nt : NT S Unit) (row : AList Sym Rat)
    (h : AList.lookup nt t = some row) (hn : (AList.keys row).Nodup) :
    rowSum row = ((AList.keys row).map (fun P => weight t nt P)).sum := by
  unfold rowSum
  rw [← map_lookup_self (0 : Rat) row hn]
  simp only [AList.keys, List.map_map, Function.comp_def]
  congr 1
  apply List.map_congr_left
  intro c _
  simp [weight, tagOf, h]

theorem sum_pos_of_pos (l : List Rat) (hne : l ≠ []) (h : ∀ x ∈ l, 0 < x) : 0 < l.sum := by
  induction l with
  | nil => exact absurd rfl hne
  | cons a rest ih =>
    simp only [List.sum_cons]
    have ha := h a (by simp)
    cases rest with
    | nil => simpa [Rat.add_zero] using ha
    | cons b r =>
      have := ih (by simp) (fun x hx => h x (by simp [hx]))
      grind

end PS.C10.RG

namespace PS.C10.RG
open PS PS.G
variable {S : Type} [DecidableEq S]

theorem accScore_nonneg (G : TT S Unit) (data : List (Prog × Rat)) (hnn : ∀ d ∈ data, 0 ≤ d.2)
    (nt : NT S Unit) (P : Sym) : 0 ≤ accScore G data nt P := by
  unfold accScore
  induction data with
  | nil => simp
  | cons d rest ih =>
    simp only [List.map_cons, List.sum_cons]
    have h1 : 0 ≤ d.2 * (uses (derivation G d.1 G.start) nt P : Rat) :=
      Rat.mul_nonneg (hnn d (by simp)) (by exact_mod_cast Nat.zero_le _)
    have h2 := ih (fun e he => hnn e (by simp [he]))
    exact Rat.add_nonneg h1 h2

/-- the uniform weight of a rule -/
theorem weight_uniform_row (G : TT S Unit) (nt : NT S Unit) (rs : AList Sym (List (Ty × S) × Unit)) (P : Sym)
    (h : AList.lookup nt G.rules = some rs) (hp : (AList.lookup P rs).isSome = true) :
    weight (uniform G) nt P = 1 / (rs.length : Rat) := by
  unfold weight tagOf uniform
  rw [lookup_mapk (fun _ (rs : AList Sym (List (Ty × S) × Unit)) => rs.map (fun r => (r.1, 1 / (rs.length : Rat)))), h]
  simp only [Option.map_some]
  rw [lookup_mapk (fun _ (_ : List (Ty × S) × Unit) => 1 / (rs.length : Rat))]
  obtain ⟨r, hr⟩ := Option.isSome_iff_exists.mp hp
  rw [hr]; rfl

/-- `restartTags_spec` with the shape of the rows -/
theorem restartTags_rows (G : TT S Unit) (tags0 : Tags S Unit) (data : List (Prog × Rat)) (prior : Rat)
    (hcov : Covers G tags0) (hrows : RowsOf G tags0) (hdata : ∀ d ∈ data, gen G d.1 G.start = true) :
    ∃ u, restartTags G tags0 data prior = some (normalise u) ∧ RowsOf G u ∧
      (∀ nt P, (tagOf u nt P).isSome = (tagOf tags0 nt P).isSome) ∧
      (∀ nt P, (tagOf tags0 nt P).isSome = true →
        weight u nt P = accScore G data nt P + (if 0 < prior then prior * weight (uniform G) nt P else 0)) := by
  have hs0 : ∀ nt P, (tagOf (scaleTags 0 tags0) nt P).isSome = (tagOf tags0 nt P).isSome := by
    intro nt P; rw [tagOf_scale]; cases tagOf tags0 nt P <;> rfl
  have hc0 : Covers G (scaleTags 0 tags0) := fun nt P h => by rw [hs0]; exact hcov nt P h
  obtain ⟨acc, h1, h2, h3⟩ := accumulate_spec G data (scaleTags 0 tags0) hc0 hdata
  have hracc : RowsOf G acc := rowsOf_accumulate G data _ acc (rowsOf_scale G 0 tags0 hrows) hdata h1
  have hw : ∀ nt P, (tagOf tags0 nt P).isSome = true → weight acc nt P = accScore G data nt P := by
    intro nt P hs
    rw [h3 nt P (by rw [hs0]; exact hs), weight_scale, Rat.zero_mul, Rat.zero_add]
  unfold restartTags
  rw [h1]
  by_cases hp : 0 < prior
  · refine ⟨addTags acc (scaleTags prior (uniform G)), by simp [hp], rowsOf_addTags G acc _ hracc, ?_, ?_⟩
    · intro nt P
      rw [tagOf_addTags, ← hs0, ← h2]
      cases tagOf acc nt P <;> rfl
    · intro nt P hs
      have hsa : (tagOf acc nt P).isSome = true := by rw [h2, hs0]; exact hs
      obtain ⟨w, hwv⟩ := Option.isSome_iff_exists.mp hsa
      have : weight (addTags acc (scaleTags prior (uniform G))) nt P =
          weight acc nt P + weight (scaleTags prior (uniform G)) nt P := by
        unfold weight
        rw [tagOf_addTags, hwv]
        rfl
      rw [this, hw nt P hs, weight_scale]
      simp [hp]
  · refine ⟨acc, by simp [hp], hracc, fun nt P => by rw [h2, hs0], ?_⟩
    intro nt P hs
    rw [hw nt P hs]
    simp [hp, Rat.add_zero]

theorem rowsOf_normalise (G : TT S Unit) (u : Tags S Unit) (h : RowsOf G u) : RowsOf G (normalise u) := by
  intro nt row hl
  unfold normalise at hl
  rw [lookup_mapk (fun _ (r : AList Sym Rat) => normaliseRow r)] at hl
  cases hr : AList.lookup nt u with
  | none => rw [hr] at hl; cases hl
  | some row0 =>
    rw [hr] at hl
    simp only [Option.map_some, Option.some.injEq] at hl
    obtain ⟨rs, h1, h2⟩ := h nt row0 hr
    exact ⟨rs, h1, by rw [← hl, keys_normaliseRow]; exact h2⟩

/-- **the restarted grammar is a probability distribution with full support** when the prior is
    positive, the scores non-negative, every non-terminal of the grammar has a rule and dict keys
    are distinct -/
theorem restartTags_distribution (G : TT S Unit) (tags0 : Tags S Unit) (data : List (Prog × Rat)) (prior : Rat)
    (hG : ∀ nt rs, AList.lookup nt G.rules = some rs → rs ≠ [] ∧ (AList.keys rs).Nodup)
    (hcov : Covers G tags0) (hrows : RowsOf G tags0) (hdata : ∀ d ∈ data, gen G d.1 G.start = true)
    (hnn : ∀ d ∈ data, 0 ≤ d.2) (hp : 0 < prior) :
    ∃ t, restartTags G tags0 data prior = some t ∧ Covers G t ∧ RowsOf G t ∧
      ∀ nt row, AList.lookup nt t = some row →
        rowSum row = 1 ∧ ∀ P ∈ AList.keys row, 0 < weight t nt P := by
  obtain ⟨u, h1, hru, h2, h3⟩ := restartTags_rows G tags0 data prior hcov hrows hdata
  refine ⟨normalise u, h1, ?_, rowsOf_normalise G u hru, ?_⟩
  · intro nt P h
    rw [isSome_tagOf_normalise, h2]
    exact hcov nt P h
  · intro nt row' hl
    have hl' := hl
    unfold normalise at hl'
    rw [lookup_mapk (fun _ (r : AList Sym Rat) => normaliseRow r)] at hl'
    cases hr : AList.lookup nt u with
    | none => rw [hr] at hl'; cases hl'
    | some row =>
      rw [hr] at hl'
      simp only [Option.map_some, Option.some.injEq] at hl'
      obtain ⟨rs, g1, g2⟩ := hru nt row hr
      obtain ⟨hne, hnd⟩ := hG nt rs g1
      -- every weight of the row is positive
      have hpos : ∀ P ∈ AList.keys row, 0 < weight u nt P := by
        intro P hP
        rw [g2] at hP
        have hsome : (AList.lookup P rs).isSome = true := AList.lookup_isSome_iff_mem_keys.mpr hP
        have hrule : (G.rule? nt P).isSome = true := by simp [TT.rule?, g1, hsome]
        rw [h3 nt P (hcov nt P hrule)]
        simp only [hp, if_true]
        rw [weight_uniform_row G nt rs P g1 hsome]
        have hlen : (0 : Rat) < (rs.length : Rat) := by
          have : 0 < rs.length := List.length_pos_iff.mpr hne
          exact_mod_cast this
        have hu : (0 : Rat) < 1 / (rs.length : Rat) := by
          rw [Rat.div_def]; exact Rat.mul_pos (by decide) (Rat.inv_pos.mpr hlen)
        have := accScore_nonneg G data hnn nt P
        have := Rat.mul_pos hp hu
        grind
      have hsum : 0 < rowSum row := by
        rw [rowSum_eq_weights u nt row hr (by rw [g2]; exact hnd)]
        apply sum_pos_of_pos
        · intro h
          have : AList.keys row = [] := by simpa using h
          rw [g2] at this
          exact hne (by simpa [AList.keys] using this)
        · intro x hx
          obtain ⟨P, hP, rfl⟩ := List.mem_map.mp hx
          exact hpos P hP
      obtain ⟨n1, _, n3⟩ := normalise_weights u nt row hr
      refine ⟨by rw [← hl']; exact n3 (fun h => by rw [h] at hsum; exact absurd hsum (by decide)), ?_⟩
      intro P hP
      rw [← hl', keys_normaliseRow] at hP
      rw [n1 P, Rat.div_def]
      exact Rat.mul_pos (hpos P hP) (Rat.inv_pos.mpr hsum)

end PS.C10.RG

namespace PS.C10.RG
open PS PS.G
variable {S : Type} [DecidableEq S]

/-- **model = specification**: the weight `_restart_` gives a rule is `specWeight`: (accumulated score +
    prior/|row|) divided by the sum of these numbers over the rules of the non-terminal -/
theorem restartTags_specWeight (G : TT S Unit) (tags0 : Tags S Unit) (data : List (Prog × Rat)) (prior : Rat)
    (hcov : Covers G tags0) (hrows : RowsOf G tags0) (hdata : ∀ d ∈ data, gen G d.1 G.start = true) :
    ∃ t, restartTags G tags0 data prior = some t ∧
      ∀ nt rs, AList.lookup nt G.rules = some rs → (AList.keys rs).Nodup →
        ∀ P ∈ AList.keys rs, weight t nt P = specWeight G data prior nt (AList.keys rs) P := by
  obtain ⟨u, h1, hru, h2, h3⟩ := restartTags_rows G tags0 data prior hcov hrows hdata
  refine ⟨normalise u, h1, ?_⟩
  intro nt rs hrs hnd P hP
  have hrule : ∀ Q ∈ AList.keys rs, (G.rule? nt Q).isSome = true := by
    intro Q hQ
    have : (AList.lookup Q rs).isSome = true := AList.lookup_isSome_iff_mem_keys.mpr hQ
    simp [TT.rule?, hrs, this]
  -- the row of `u`
  have hsu : (tagOf u nt P).isSome = true := by rw [h2]; exact hcov nt P (hrule P hP)
  obtain ⟨row, hrow⟩ : ∃ row, AList.lookup nt u = some row := by
    unfold tagOf at hsu
    cases hl : AList.lookup nt u with
    | none => rw [hl] at hsu; cases hsu
    | some row => exact ⟨row, rfl⟩
  obtain ⟨rs', g1, g2⟩ := hru nt row hrow
  rw [hrs] at g1
  cases g1
  obtain ⟨n1, _, _⟩ := normalise_weights u nt row hrow
  have hwu : ∀ Q ∈ AList.keys rs, weight u nt Q =
      accScore G data nt Q + (if 0 < prior then prior else 0) * (1 / ((AList.keys rs).length : Rat)) := by
    intro Q hQ
    rw [h3 nt Q (hcov nt Q (hrule Q hQ)),
      weight_uniform_row G nt rs Q hrs (AList.lookup_isSome_iff_mem_keys.mpr hQ)]
    have : (AList.keys rs).length = rs.length := by simp [AList.keys]
    rw [this]
    by_cases hp : 0 < prior <;> simp [hp, Rat.zero_mul]
  rw [n1 P, rowSum_eq_weights u nt row hrow (by rw [g2]; exact hnd), g2]
  unfold specWeight
  simp only
  rw [hwu P hP]
  congr 1
  congr 1
  exact List.map_congr_left (fun Q hQ => hwu Q hQ)

end PS.C10.RG
