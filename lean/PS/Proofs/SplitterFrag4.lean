/- C08, fragment grammar, part 4: the effect of the phases of `addNode` on the tables
   (`addSteps` = the rules of the path, the fold of `copyRules` over the pending copies). -/
import PS.Proofs.SplitterFrag3
namespace PS.Sp
open PS PS.G

variable {U : Type} [DecidableEq U]

/-! ### association lists -/

theorem insert_of_lookup_none {κ ν : Type} [DecidableEq κ] {k : κ} {v : ν} : ∀ {d : AList κ ν},
    AList.lookup k d = none → AList.insert k v d = d ++ [(k, v)]
  | [], _ => rfl
  | (k', v') :: r, h => by
    by_cases hk : k' = k
    · simp [AList.lookup, hk] at h
    · simp only [AList.lookup, hk, if_false] at h
      simp only [AList.insert, hk, if_false, List.cons_append, insert_of_lookup_none h]

theorem keys_insert_of_lookup_some {κ ν : Type} [DecidableEq κ] {k : κ} {v v0 : ν} : ∀ {d : AList κ ν},
    AList.lookup k d = some v0 → AList.keys (AList.insert k v d) = AList.keys d
  | [], h => by simp at h
  | (k', v') :: r, h => by
    by_cases hk : k' = k
    · simp [AList.insert, hk, AList.keys]
    · simp only [AList.lookup, hk, if_false] at h
      have := keys_insert_of_lookup_some (v := v) h
      simp only [AList.keys] at this
      simp only [AList.insert, hk, if_false, AList.keys, List.map_cons, this]

theorem sum_insert_of_lookup_some {κ : Type} [DecidableEq κ] {k : κ} {v v0 : Rat} : ∀ {d : AList κ Rat},
    AList.lookup k d = some v0 → ((AList.insert k v d).map (·.2)).sum = (d.map (·.2)).sum - v0 + v
  | [], h => by simp at h
  | (k', v') :: r, h => by
    by_cases hk : k' = k
    · simp only [AList.lookup, hk, if_true, Option.some.injEq] at h
      subst h
      simp only [AList.insert, hk, if_true, List.map_cons, List.sum_cons]
      grind
    · simp only [AList.lookup, hk, if_false] at h
      simp only [AList.insert, hk, if_false, List.map_cons, List.sum_cons, sum_insert_of_lookup_some (v := v) h]
      grind

theorem mem_of_lookup_none {κ ν : Type} [DecidableEq κ] {k : κ} {d : AList κ ν} (h : AList.lookup k d = none) :
    k ∉ AList.keys d := by
  intro hm
  have := AList.lookup_isSome_iff_mem_keys.mpr hm
  rw [h] at this
  cases this

/-! ### the rules of the path -/

omit [DecidableEq U] in
theorem stepR_nil (P : Sym) (m : List (UNT (U × Nat))) : stepR [] P m = [(P, [m])] := rfl

theorem stepP_nil (P : Sym) (m : List (UNT (U × Nat))) (w : Rat) : stepP [] P m w = [(P, [(m, w)])] := rfl

theorem addRule_lookup (st : FragSt U) (X : UNT (U × Nat)) (P : Sym) (m : List (UNT (U × Nat))) (w : Rat)
    (Y : UNT (U × Nat)) :
    AList.lookup Y (addRule st X P m w).rules =
      (if Y = X then some (stepR ((AList.lookup X st.rules).getD []) P m) else AList.lookup Y st.rules) ∧
    AList.lookup Y (addRule st X P m w).probs =
      (if Y = X then some (stepP ((AList.lookup X st.probs).getD []) P m w) else AList.lookup Y st.probs) := by
  rw [addRule_eq]
  exact ⟨AList.lookup_insert _ _ _ _, AList.lookup_insert _ _ _ _⟩

/-- `addSteps` only touches the rows of its left-hand sides -/
theorem addSteps_frame (nprob : Rat) : ∀ (l : List (Step (U × Nat))) (i : Nat) (st : FragSt U),
    (∀ Y, Y ∉ targets l → AList.lookup Y (addSteps nprob i st l).rules = AList.lookup Y st.rules ∧
      AList.lookup Y (addSteps nprob i st l).probs = AList.lookup Y st.probs) ∧
    (addSteps nprob i st l).counter = st.counter ∧ (addSteps nprob i st l).startProbs = st.startProbs ∧
    (addSteps nprob i st l).newStarts = st.newStarts ∧ (addSteps nprob i st l).toFill = st.toFill
  | [], _, _ => ⟨fun _ _ => ⟨rfl, rfl⟩, rfl, rfl, rfl, rfl⟩
  | s :: t, i, st => by
    obtain ⟨ih1, ih2, ih3, ih4, ih5⟩ := addSteps_frame nprob t (i + 1)
      (addRule st s.1 s.2.1 s.2.2 (if i = 0 then nprob else 1))
    refine ⟨?_, ih2, ih3, ih4, ih5⟩
    intro Y hY
    simp only [targets, List.map_cons, List.mem_cons, not_or] at hY
    have := ih1 Y hY.2
    have h2 := addRule_lookup st s.1 s.2.1 s.2.2 (if i = 0 then nprob else 1) Y
    simp only [hY.1, if_false] at h2
    simp only [addSteps]
    rw [this.1, this.2, h2.1, h2.2]
    exact ⟨rfl, rfl⟩

/-- the steps after the first one: a fresh left-hand side gets exactly one rule of weight 1 -/
theorem addSteps_chain (nprob : Rat) : ∀ (l : List (Step (U × Nat))) (i : Nat) (st : FragSt U), 0 < i →
    (targets l).Nodup → (∀ s ∈ l, AList.lookup s.1 st.rules = none ∧ AList.lookup s.1 st.probs = none) →
    ∀ s ∈ l, AList.lookup s.1 (addSteps nprob i st l).rules = some [(s.2.1, [s.2.2])] ∧
      AList.lookup s.1 (addSteps nprob i st l).probs = some [(s.2.1, [(s.2.2, 1)])]
  | [], _, _, _, _, _, s, hs => by cases hs
  | s0 :: t, i, st, hi, hnd, hnone, s, hs => by
    simp only [targets, List.map_cons, List.nodup_cons] at hnd
    have hi0 : i ≠ 0 := by omega
    simp only [addSteps, hi0, if_false]
    rcases List.mem_cons.mp hs with hs | hs
    · subst hs
      have hfr := (addSteps_frame nprob t (i + 1) (addRule st s.1 s.2.1 s.2.2 1)).1 s.1 hnd.1
      have h2 := addRule_lookup st s.1 s.2.1 s.2.2 1 s.1
      simp only [if_true, (hnone s (by simp)).1, (hnone s (by simp)).2, Option.getD_none, stepR_nil, stepP_nil] at h2
      rw [hfr.1, hfr.2, h2.1, h2.2]
      exact ⟨rfl, rfl⟩
    · refine addSteps_chain nprob t (i + 1) _ (by omega) hnd.2 ?_ s hs
      intro s' hs'
      have hne : s'.1 ≠ s0.1 := by
        intro he
        exact hnd.1 (he ▸ List.mem_map.mpr ⟨s', hs', rfl⟩)
      have h2 := addRule_lookup st s0.1 s0.2.1 s0.2.2 1 s'.1
      simp only [hne, if_false] at h2
      rw [h2.1, h2.2]
      exact hnone s' (List.mem_cons_of_mem _ hs')

/-! ### the copies of the pending non-terminals -/

/-- the fold of `copyRules` over the pending pairs -/
def copyAll (pg : PUG U) (st : FragSt U) (p : List (UNT U × UNT (U × Nat))) : FragSt U :=
  p.foldl (fun s e => copyRules pg s e.1 e.2) st

theorem copyRules_lookup (pg : PUG U) (st : FragSt U) (S : UNT U) (X Y : UNT (U × Nat)) :
    AList.lookup Y (copyRules pg st S X).rules = (if Y = X then some (copyR pg S) else AList.lookup Y st.rules) ∧
    AList.lookup Y (copyRules pg st S X).probs = (if Y = X then some (copyP pg S) else AList.lookup Y st.probs) := by
  rw [copyRules_eq]
  exact ⟨AList.lookup_insert _ _ _ _, AList.lookup_insert _ _ _ _⟩

theorem copyAll_spec (pg : PUG U) : ∀ (p : List (UNT U × UNT (U × Nat))) (st : FragSt U), (names p).Nodup →
    (∀ Y, Y ∉ names p → AList.lookup Y (copyAll pg st p).rules = AList.lookup Y st.rules ∧
      AList.lookup Y (copyAll pg st p).probs = AList.lookup Y st.probs) ∧
    (∀ e ∈ p, AList.lookup e.2 (copyAll pg st p).rules = some (copyR pg e.1) ∧
      AList.lookup e.2 (copyAll pg st p).probs = some (copyP pg e.1) ∧
      ∀ S' ∈ rhsSyms pg e.1, S' ∈ (copyAll pg st p).toFill) ∧
    (∀ S' ∈ st.toFill, S' ∈ (copyAll pg st p).toFill) ∧
    (copyAll pg st p).counter = st.counter ∧ (copyAll pg st p).startProbs = st.startProbs ∧
    (copyAll pg st p).newStarts = st.newStarts
  | [], st, _ => ⟨fun _ _ => ⟨rfl, rfl⟩, fun e he => (nomatch he), fun _ h => h, rfl, rfl, rfl⟩
  | e0 :: p, st, hnd => by
    simp only [names, List.map_cons, List.nodup_cons] at hnd
    obtain ⟨i1, i2, i3, i4, i5, i6⟩ := copyAll_spec pg p (copyRules pg st e0.1 e0.2) hnd.2
    have hto : ∀ S', S' ∈ st.toFill ∨ S' ∈ rhsSyms pg e0.1 → S' ∈ (copyRules pg st e0.1 e0.2).toFill := by
      intro S' h
      rw [copyRules_eq]
      exact List.mem_append.mpr h
    refine ⟨?_, ?_, ?_, i4, i5, i6⟩
    · intro Y hY
      simp only [names, List.map_cons, List.mem_cons, not_or] at hY
      have := i1 Y hY.2
      have h2 := copyRules_lookup pg st e0.1 e0.2 Y
      simp only [hY.1, if_false] at h2
      simp only [copyAll, List.foldl_cons] at this ⊢
      rw [this.1, this.2, h2.1, h2.2]
      exact ⟨rfl, rfl⟩
    · intro e he
      rcases List.mem_cons.mp he with he | he
      · subst he
        have := i1 e.2 hnd.1
        have h2 := copyRules_lookup pg st e.1 e.2 e.2
        simp only [if_true] at h2
        simp only [copyAll, List.foldl_cons] at this ⊢
        rw [this.1, this.2, h2.1, h2.2]
        exact ⟨rfl, rfl, fun S' hS' => i3 S' (hto S' (Or.inr hS'))⟩
      · exact i2 e he
    · intro S' hS'
      exact i3 S' (hto S' (Or.inl hS'))

/-! ### `addNode` in phases -/

/-- the copy of the start symbol of the node -/
def spOf (st : FragSt U) (n : Node U) : UNT (U × Nat) :=
  match AList.lookup n.start st.newStarts with
  | some sp => sp
  | none => (n.start.1, (n.start.2, st.counter + 1))

/-- the state after the allocation of the start copy and the update of its weight -/
def st2Of (st : FragSt U) (n : Node U) : FragSt U :=
  let st1 : FragSt U :=
    match AList.lookup n.start st.newStarts with
    | some _ => st
    | none => { st with counter := st.counter + 1,
                        newStarts := AList.insert n.start (spOf st n) st.newStarts,
                        startProbs := AList.insert (spOf st n) 0 st.startProbs }
  { st1 with startProbs :=
      AList.insert (spOf st n) ((AList.lookup (spOf st n) st1.startProbs).getD 0 + n.prob) st1.startProbs }

theorem addNode_eq (pg : PUG U) (st : FragSt U) (n : Node U) :
    addNode pg st n = (renPath (st2Of st n).counter [(n.start, spOf st n)] n.steps).map
      (fun r => copyAll pg { addSteps n.prob 0 (st2Of st n) r.2.1 with counter := r.1 } r.2.2) := by
  unfold addNode
  cases hl : AList.lookup n.start st.newStarts with
  | some sp =>
    simp only [spOf, st2Of, hl, pathLoop_eq]
    cases renPath st.counter [(n.start, sp)] n.steps <;> rfl
  | none =>
    simp only [spOf, st2Of, hl, pathLoop_eq]
    cases renPath (st.counter + 1) [(n.start, (n.start.1, (n.start.2, st.counter + 1)))] n.steps <;> rfl

end PS.Sp
