/-
  C04, counting for deterministic grammars over a TTCFG (`ProbDetGrammar.programs()` =
  `TTCFG.programs()`): link between the C04 transcription of the grammar (`PS.G.TT`, membership
  `PS.G.contains`, probability `PS.G.probabilityDet`, enumeration `PS.G.lang` for tables with a
  trivial state) and the C13 transcription of `TTCFG.programs()` (`PS.T.programsR`, on the same
  `PS.G.TT` objects, enumeration `PS.T.langOf`, specification `PS.T.inLang`).
-/
import PS.Proofs.TtcfgCountR
import PS.Proofs.TtcfgRun
import PS.Proofs.ProbDet
import PS.Proofs.Mass
import PS.Proofs.Grammar
namespace PS.G.CntT
open PS PS.G

variable {S T : Type} [DecidableEq S] [DecidableEq T]

/-- two duplicate-free lists with the same members have the same length -/
theorem length_eq_of_nodup_of_mem_iff {α : Type} (l₁ l₂ : List α) (h₁ : l₁.Nodup) (h₂ : l₂.Nodup)
    (h : ∀ a, a ∈ l₁ ↔ a ∈ l₂) : l₁.length = l₂.length :=
  ((List.perm_ext_iff_of_nodup h₁ h₂).mpr h).length_eq

/-- `TTCFG.programs()` (as in /repo after fix 875cb5a) counts the programs the grammar contains:
    whenever it returns `n`, the duplicate-free list `PS.T.langOf G fuel` has `n` entries and
    contains exactly the programs for which `program in grammar` holds -/
theorem programsR_contains (G : TT S T) (hr : PS.T.rowsNodup G = true) (hU : PS.T.noUnknownKey G = true)
    (hA : PS.T.noUnknownArg G = true) (fuel n : Nat) (hp : PS.T.programsR G fuel = some n) :
    (PS.T.langOf G fuel).Nodup ∧ n = (PS.T.langOf G fuel).length ∧
    ∀ t, t ∈ PS.T.langOf G fuel ↔ contains G t = true := by
  obtain ⟨h1, h2, h3⟩ := PS.T.programsR_count G hr hU hA fuel n hp
  exact ⟨h1, h2, fun t => by rw [h3 t, PS.T.contains_eq_inLang]⟩

/-- for a table with a trivial state (a CFG stored as a TTCFG) the number returned is the length
    of C04's enumeration `lang`, i.e. what `CFG.programs()` returns (`C04_programs`) -/
theorem programsR_eq_lang (G : TT S Unit) (hr : PS.T.rowsNodup G = true) (hU : PS.T.noUnknownKey G = true)
    (hA : PS.T.noUnknownArg G = true) (fuel n : Nat) (hp : PS.T.programsR G fuel = some n)
    (hrn : RowsNodup G) (k : Nat) (hb : bounded G k G.start = true) :
    n = (lang G k G.start).length := by
  obtain ⟨h1, h2, h3⟩ := programsR_contains G hr hU hA fuel n hp
  rw [h2]
  apply length_eq_of_nodup_of_mem_iff _ _ h1 (lang_nodup G hrn k G.start)
  intro t
  rw [h3 t, contains_eq_gen, mem_lang_of_bounded G hrn k t G.start hb]

end PS.G.CntT
