/-
  `read_union` (PS/Model/Dfta.lean): the run of the union automaton is the fusion of the two
  runs whenever at least one of them is defined; hence the language is the union.
-/
import PS.Proofs.Dfta
set_option linter.unusedSectionVars false
namespace PS

/-- `mapM` for `Option` over a list: all defined, or nothing -/
def optAll {α β : Type} (f : α → Option β) : List α → Option (List β)
  | [] => some []
  | x :: xs => match f x, optAll f xs with
    | some y, some ys => some (y :: ys)
    | _, _ => none

theorem optAll_eq_some_iff {α β : Type} (f : α → Option β) (xs : List α) (ys : List β) :
    optAll f xs = some ys ↔ List.Forall₂ (fun x y => f x = some y) xs ys := by
  induction xs generalizing ys with
  | nil =>
    simp only [optAll, Option.some.injEq]
    constructor
    · intro h; subst h; exact .nil
    · intro h; cases h; rfl
  | cons x xs ih =>
    simp only [optAll]
    constructor
    · intro h
      cases hx : f x with
      | none => simp [hx] at h
      | some y =>
        cases hxs : optAll f xs with
        | none => simp [hx, hxs] at h
        | some ys' =>
          simp [hx, hxs] at h; subst h
          exact .cons hx ((ih ys').mp hxs)
    · intro h
      cases h with
      | cons h1 h2 => rw [h1, (ih _).mpr h2]

theorem optAll_congr {α β : Type} (f g : α → Option β) (xs : List α) (h : ∀ x ∈ xs, f x = g x) :
    optAll f xs = optAll g xs := by
  induction xs with
  | nil => rfl
  | cons x xs ih =>
    simp only [optAll]
    rw [h x List.mem_cons_self, ih (fun y hy => h y (List.mem_cons_of_mem _ hy))]

theorem optAll_map {α β γ : Type} (f : β → Option γ) (g : α → β) (xs : List α) :
    optAll f (xs.map g) = optAll (fun x => f (g x)) xs := by
  induction xs with
  | nil => rfl
  | cons x xs ih => simp only [List.map_cons, optAll, ih]

theorem optAll_none_of_mem {α β : Type} (f : α → Option β) (xs : List α) (x : α) (hx : x ∈ xs)
    (h : f x = none) : optAll f xs = none := by
  induction xs with
  | nil => cases hx
  | cons y ys ih =>
    simp only [optAll]
    rcases List.mem_cons.mp hx with e | e
    · subst e; rw [h]
    · rw [ih e]; cases f y <;> rfl

theorem mem_cartesian_map_iff {α β γ : Type} (g : α → γ) (c : β → List γ) :
    ∀ (ps : List α) (args : List β),
      ps.map g ∈ cartesian (args.map c) ↔ List.Forall₂ (fun p a => g p ∈ c a) ps args := by
  intro ps
  induction ps with
  | nil =>
    intro args
    cases args with
    | nil => simp [cartesian]
    | cons a as =>
      simp only [List.map_nil, List.map_cons, cartesian, List.mem_flatMap, List.mem_map]
      constructor
      · rintro ⟨_, _, _, _, h⟩; cases h
      · intro h; cases h
  | cons p ps ih =>
    intro args
    cases args with
    | nil =>
      simp only [List.map_cons, List.map_nil, cartesian, List.mem_singleton]
      constructor
      · intro h; cases h
      · intro h; cases h
    | cons a as =>
      simp only [List.map_cons, cartesian, List.mem_flatMap, List.mem_map, List.cons.injEq]
      constructor
      · rintro ⟨x, hx, r, hr, e1, e2⟩
        subst e1 e2
        exact .cons hx ((ih as).mp hr)
      · intro h
        cases h with
        | cons h1 h2 => exact ⟨g p, h1, ps.map g, (ih as).mpr h2, rfl, rfl⟩

namespace DFTA
variable {σ Q₁ Q₂ X : Type} [DecidableEq σ] [DecidableEq Q₁] [DecidableEq Q₂] [DecidableEq X]

theorem runList_eq_optAll {Q : Type} [DecidableEq Q] (A : DFTA σ Q) (ks : List (Tree σ)) :
    runList A ks = optAll (run A) ks := by
  induction ks with
  | nil => simp [optAll]
  | cons k ks ih =>
    rw [runList_cons, ih]
    simp only [optAll]
    cases run A k <;> cases optAll (run A) ks <;> rfl

section union
variable (fusion : Option Q₁ → Option Q₂ → X)

/-- fusion of two runs: defined as soon as one of them is -/
def optFuse : Option Q₁ → Option Q₂ → Option X
  | none, none => none
  | a, b => some (fusion a b)

variable (hinj : ∀ a b a' b', fusion a b = fusion a' b' → a = a' ∧ b = b')
include hinj

theorem mem_mappingS (sa : List Q₁) (sb : List Q₂) (a : Q₁) (p : Option Q₁ × Option Q₂) :
    fusion p.1 p.2 ∈ mappingS fusion sa sb a ↔
      a ∈ sa ∧ p.1 = some a ∧ (p.2 = none ∨ ∃ b ∈ sb, p.2 = some b) := by
  unfold mappingS
  split
  · rename_i ha
    simp only [List.mem_append, List.mem_map, List.mem_singleton, ha, true_and]
    constructor
    · rintro (⟨b, hb, e⟩ | e)
      · obtain ⟨e1, e2⟩ := hinj _ _ _ _ e
        exact ⟨e1.symm, Or.inr ⟨b, hb, e2.symm⟩⟩
      · obtain ⟨e1, e2⟩ := hinj _ _ _ _ e
        exact ⟨e1, Or.inl e2⟩
    · rintro ⟨e1, e2 | ⟨b, hb, e2⟩⟩
      · right; rw [e1, e2]
      · left; exact ⟨b, hb, by rw [e1, e2]⟩
  · rename_i ha
    simp [ha]

theorem mem_mappingO (sa : List Q₁) (sb : List Q₂) (b : Q₂) (p : Option Q₁ × Option Q₂) :
    fusion p.1 p.2 ∈ mappingO fusion sa sb b ↔
      b ∈ sb ∧ p.2 = some b ∧ (p.1 = none ∨ ∃ a ∈ sa, p.1 = some a) := by
  unfold mappingO
  split
  · rename_i hb
    simp only [List.mem_append, List.mem_map, List.mem_singleton, hb, true_and]
    constructor
    · rintro (⟨a, ha, e⟩ | e)
      · obtain ⟨e1, e2⟩ := hinj _ _ _ _ e
        exact ⟨e2.symm, Or.inr ⟨a, ha, e1.symm⟩⟩
      · obtain ⟨e1, e2⟩ := hinj _ _ _ _ e
        exact ⟨e2, Or.inl e1⟩
    · rintro ⟨e1, e2 | ⟨a, ha, e2⟩⟩
      · right; rw [e1, e2]
      · left; exact ⟨a, ha, by rw [e1, e2]⟩
  · rename_i hb
    simp [hb]

/-- the pairs of partial runs of the children that the union automaton may see -/
def GoodPairs (sa : List Q₁) (sb : List Q₂) (ps : List (Option Q₁ × Option Q₂)) : Prop :=
  ∀ p ∈ ps, (∀ a, p.1 = some a → a ∈ sa) ∧ (∀ b, p.2 = some b → b ∈ sb)

omit hinj in
theorem forall₂_fst_iff (sa : List Q₁) (sb : List Q₂) (ps : List (Option Q₁ × Option Q₂))
    (hg : GoodPairs sa sb ps) (args : List Q₁) :
    List.Forall₂ (fun p a => a ∈ sa ∧ p.1 = some a ∧ (p.2 = none ∨ ∃ b ∈ sb, p.2 = some b)) ps args ↔
      optAll Prod.fst ps = some args := by
  rw [optAll_eq_some_iff]
  constructor
  · intro h
    induction h with
    | nil => exact .nil
    | cons h1 _ ih => exact .cons h1.2.1 (ih (fun p hp => hg p (List.mem_cons_of_mem _ hp)))
  · intro h
    induction h with
    | nil => exact .nil
    | @cons p a ps as h1 _ ih =>
      refine .cons ⟨(hg p List.mem_cons_self).1 a h1, h1, ?_⟩ (ih (fun p hp => hg p (List.mem_cons_of_mem _ hp)))
      cases h2 : p.2 with
      | none => exact Or.inl rfl
      | some b => exact Or.inr ⟨b, (hg p List.mem_cons_self).2 b h2, rfl⟩

omit hinj in
theorem forall₂_snd_iff (sa : List Q₁) (sb : List Q₂) (ps : List (Option Q₁ × Option Q₂))
    (hg : GoodPairs sa sb ps) (args : List Q₂) :
    List.Forall₂ (fun p b => b ∈ sb ∧ p.2 = some b ∧ (p.1 = none ∨ ∃ a ∈ sa, p.1 = some a)) ps args ↔
      optAll Prod.snd ps = some args := by
  rw [optAll_eq_some_iff]
  constructor
  · intro h
    induction h with
    | nil => exact .nil
    | cons h1 _ ih => exact .cons h1.2.1 (ih (fun p hp => hg p (List.mem_cons_of_mem _ hp)))
  · intro h
    induction h with
    | nil => exact .nil
    | @cons p b ps bs h1 _ ih =>
      refine .cons ⟨(hg p List.mem_cons_self).2 b h1, h1, ?_⟩ (ih (fun p hp => hg p (List.mem_cons_of_mem _ hp)))
      cases h2 : p.1 with
      | none => exact Or.inl rfl
      | some a => exact Or.inr ⟨a, (hg p List.mem_cons_self).1 a h2, rfl⟩

/-- keys of the first loop: the `A`-components are all defined and `A` has the rule -/
theorem mem_unionRules1 (A : DFTA σ Q₁) (hd : A.Det) (sa : List Q₁) (sb : List Q₂) (l : σ)
    (ps : List (Option Q₁ × Option Q₂)) (hg : GoodPairs sa sb ps) (v : X) :
    ((l, ps.map (fun p => fusion p.1 p.2)), v) ∈ unionRules1 fusion A sa sb ↔
      ∃ d, (optAll Prod.fst ps).bind (A.read l) = some d ∧ v = fusion (some d) none := by
  unfold unionRules1
  simp only [List.mem_flatMap, List.mem_map, Prod.mk.injEq]
  constructor
  · rintro ⟨⟨⟨l', args⟩, d⟩, hr, na, hna, ⟨e1, e2⟩, e3⟩
    simp only at e1 e2 e3 hna
    subst e1 e2
    rw [mem_cartesian_map_iff] at hna
    have h2 : List.Forall₂ (fun p a => a ∈ sa ∧ p.1 = some a ∧ (p.2 = none ∨ ∃ b ∈ sb, p.2 = some b)) ps args :=
      List.Forall₂.imp (fun p a h => (mem_mappingS fusion hinj sa sb a p).mp h) hna
    rw [forall₂_fst_iff sa sb ps hg] at h2
    refine ⟨d, ?_, e3.symm⟩
    rw [h2]; exact (read_eq_some_iff A hd _ _ _).mpr hr
  · rintro ⟨d, hd', e⟩
    cases has : optAll Prod.fst ps with
    | none => simp [has] at hd'
    | some args =>
      simp only [has, Option.bind_some] at hd'
      refine ⟨((l, args), d), (read_eq_some_iff A hd _ _ _).mp hd', ps.map (fun p => fusion p.1 p.2), ?_, ⟨rfl, rfl⟩, e.symm⟩
      simp only
      rw [mem_cartesian_map_iff]
      exact List.Forall₂.imp (fun p a h => (mem_mappingS fusion hinj sa sb a p).mpr h)
        ((forall₂_fst_iff sa sb ps hg args).mpr has)

theorem mem_unionRules2 (B : DFTA σ Q₂) (hd : B.Det) (sa : List Q₁) (sb : List Q₂) (l : σ)
    (ps : List (Option Q₁ × Option Q₂)) (hg : GoodPairs sa sb ps) (v : X) :
    ((l, ps.map (fun p => fusion p.1 p.2)), v) ∈ unionRules2 fusion B sa sb ↔
      ∃ d, (optAll Prod.snd ps).bind (B.read l) = some d ∧ v = fusion none (some d) := by
  unfold unionRules2
  simp only [List.mem_flatMap, List.mem_map, Prod.mk.injEq]
  constructor
  · rintro ⟨⟨⟨l', args⟩, d⟩, hr, na, hna, ⟨e1, e2⟩, e3⟩
    simp only at e1 e2 e3 hna
    subst e1 e2
    rw [mem_cartesian_map_iff] at hna
    have h2 : List.Forall₂ (fun p b => b ∈ sb ∧ p.2 = some b ∧ (p.1 = none ∨ ∃ a ∈ sa, p.1 = some a)) ps args :=
      List.Forall₂.imp (fun p a h => (mem_mappingO fusion hinj sa sb a p).mp h) hna
    rw [forall₂_snd_iff sa sb ps hg] at h2
    refine ⟨d, ?_, e3.symm⟩
    rw [h2]; exact (read_eq_some_iff B hd _ _ _).mpr hr
  · rintro ⟨d, hd', e⟩
    cases has : optAll Prod.snd ps with
    | none => simp [has] at hd'
    | some args =>
      simp only [has, Option.bind_some] at hd'
      refine ⟨((l, args), d), (read_eq_some_iff B hd _ _ _).mp hd', ps.map (fun p => fusion p.1 p.2), ?_, ⟨rfl, rfl⟩, e.symm⟩
      simp only
      rw [mem_cartesian_map_iff]
      exact List.Forall₂.imp (fun p a h => (mem_mappingO fusion hinj sa sb a p).mpr h)
        ((forall₂_snd_iff sa sb ps hg args).mpr has)

theorem zipWith_eq_map_iff (ps : List (Option Q₁ × Option Q₂)) (as : List Q₁) (bs : List Q₂)
    (hl : as.length = bs.length) :
    ps.map (fun p => fusion p.1 p.2) = List.zipWith (fun a b => fusion (some a) (some b)) as bs ↔
      (optAll Prod.fst ps = some as ∧ optAll Prod.snd ps = some bs) := by
  induction ps generalizing as bs with
  | nil =>
    cases as <;> cases bs <;> simp_all [optAll]
  | cons p ps ih =>
    cases as with
    | nil =>
      cases bs with
      | nil => simp [optAll]; intro h; cases h1 : p.1 <;> cases h2 : optAll Prod.fst ps <;> simp_all
      | cons _ _ => simp at hl
    | cons a as =>
      cases bs with
      | nil => simp at hl
      | cons b bs =>
        simp only [List.length_cons, Nat.add_right_cancel_iff] at hl
        simp only [List.map_cons, List.zipWith_cons_cons, List.cons.injEq, optAll]
        rw [ih as bs hl]
        constructor
        · rintro ⟨e, h1, h2⟩
          obtain ⟨e1, e2⟩ := hinj _ _ _ _ e
          rw [e1, e2, h1, h2]; exact ⟨rfl, rfl⟩
        · rintro ⟨h1, h2⟩
          cases hp1 : p.1 with
          | none => simp [hp1] at h1
          | some a' =>
            cases hp2 : p.2 with
            | none => simp [hp2] at h2
            | some b' =>
              cases hs1 : optAll Prod.fst ps with
              | none => simp [hp1, hs1] at h1
              | some as' =>
                cases hs2 : optAll Prod.snd ps with
                | none => simp [hp2, hs2] at h2
                | some bs' =>
                  simp [hp1, hs1] at h1
                  simp [hp2, hs2] at h2
                  obtain ⟨e1, e2⟩ := h1
                  obtain ⟨e3, e4⟩ := h2
                  subst e1 e2 e3 e4
                  exact ⟨rfl, rfl, rfl⟩

theorem mem_unionRules3 (A : DFTA σ Q₁) (B : DFTA σ Q₂) (ha : A.Det) (hb : B.Det) (l : σ)
    (ps : List (Option Q₁ × Option Q₂)) (v : X) :
    ((l, ps.map (fun p => fusion p.1 p.2)), v) ∈ unionRules3 fusion A B ↔
      ∃ d1 d2, (optAll Prod.fst ps).bind (A.read l) = some d1 ∧
        (optAll Prod.snd ps).bind (B.read l) = some d2 ∧ v = fusion (some d1) (some d2) := by
  unfold unionRules3
  simp only [List.mem_flatMap, List.mem_filterMap]
  constructor
  · rintro ⟨⟨⟨l1, a1⟩, d1⟩, h1, ⟨⟨l2, a2⟩, d2⟩, h2, h3⟩
    simp only at h3
    split at h3
    · cases h3
    · rename_i hc
      simp only [not_or, not_not, ne_eq] at hc
      simp only [Option.some.injEq, Prod.mk.injEq] at h3
      obtain ⟨⟨e1, e2⟩, e3⟩ := h3
      subst e1
      obtain ⟨hs1, hs2⟩ := (zipWith_eq_map_iff fusion hinj ps a1 a2 hc.1).mp e2.symm
      refine ⟨d1, d2, ?_, ?_, e3.symm⟩
      · rw [hs1]; exact (read_eq_some_iff A ha _ _ _).mpr h1
      · rw [hs2]; rw [hc.2]; exact (read_eq_some_iff B hb _ _ _).mpr h2
  · rintro ⟨d1, d2, h1, h2, e⟩
    cases hs1 : optAll Prod.fst ps with
    | none => simp [hs1] at h1
    | some as =>
      cases hs2 : optAll Prod.snd ps with
      | none => simp [hs2] at h2
      | some bs =>
        simp only [hs1, hs2, Option.bind_some] at h1 h2
        have hl : as.length = bs.length := by
          rw [← ((optAll_eq_some_iff _ _ _).mp hs1).length_eq, ((optAll_eq_some_iff _ _ _).mp hs2).length_eq]
        refine ⟨((l, as), d1), (read_eq_some_iff A ha _ _ _).mp h1, ((l, bs), d2), (read_eq_some_iff B hb _ _ _).mp h2, ?_⟩
        simp only [hl, ne_eq, not_true_eq_false, or_self, if_false, Option.some.injEq, Prod.mk.injEq, true_and]
        exact ⟨((zipWith_eq_map_iff fusion hinj ps as bs hl).mpr ⟨hs1, hs2⟩).symm, e.symm⟩

/-- what the table built by the three loops of `read_union` answers on a key made of fused
    partial runs -/
theorem read_unionRaw (A : DFTA σ Q₁) (B : DFTA σ Q₂) (ha : A.Det) (hb : B.Det) (l : σ)
    (ps : List (Option Q₁ × Option Q₂)) (hg : GoodPairs A.states B.states ps) :
    (unionRaw fusion A B).read l (ps.map (fun p => fusion p.1 p.2)) =
      optFuse fusion ((optAll Prod.fst ps).bind (A.read l)) ((optAll Prod.snd ps).bind (B.read l)) := by
  have m1 := mem_unionRules1 fusion hinj A ha A.states B.states l ps hg
  have m2 := mem_unionRules2 fusion hinj B hb A.states B.states l ps hg
  have m3 := mem_unionRules3 fusion hinj A B ha hb l ps
  generalize (optAll Prod.fst ps).bind (A.read l) = RA at m1 m3 ⊢
  generalize (optAll Prod.snd ps).bind (B.read l) = RB at m2 m3 ⊢
  show AList.lookup _ (unionRaw fusion A B).rules = _
  unfold unionRaw
  simp only [AList.ofList]
  rw [AList.insertMany_append, AList.insertMany_append]
  generalize (l, ps.map (fun p => fusion p.1 p.2)) = k at m1 m2 m3 ⊢
  have nomem : ∀ (L : List ((σ × List X) × X)), (∀ v, (k, v) ∉ L) → ∀ x ∈ L, x.1 ≠ k := by
    intro L h x hx e
    exact h x.2 (by rw [← e]; exact hx)
  cases RA with
  | none =>
    have n1 : ∀ v, (k, v) ∉ unionRules1 fusion A A.states B.states := by
      intro v hv; obtain ⟨d, h, _⟩ := (m1 v).mp hv; cases h
    have n3 : ∀ v, (k, v) ∉ unionRules3 fusion A B := by
      intro v hv; obtain ⟨d1, d2, h, _⟩ := (m3 v).mp hv; cases h
    rw [AList.lookup_insertMany_of_not_mem _ _ _ (nomem _ n3)]
    cases RB with
    | none =>
      have n2 : ∀ v, (k, v) ∉ unionRules2 fusion B A.states B.states := by
        intro v hv; obtain ⟨d, h, _⟩ := (m2 v).mp hv; cases h
      rw [AList.lookup_insertMany_of_not_mem _ _ _ (nomem _ n2),
        AList.lookup_insertMany_of_not_mem _ _ _ (nomem _ n1)]
      rfl
    | some d2 =>
      simp only [optFuse]
      apply AList.lookup_insertMany_of_mem
      · exact ⟨(k, fusion none (some d2)), (m2 _).mpr ⟨d2, rfl, rfl⟩, rfl⟩
      · rintro ⟨k', v⟩ hx e
        simp only at e; subst e
        obtain ⟨d, h, e⟩ := (m2 v).mp hx
        cases h; exact e
  | some d1 =>
    cases RB with
    | none =>
      have n2 : ∀ v, (k, v) ∉ unionRules2 fusion B A.states B.states := by
        intro v hv; obtain ⟨d, h, _⟩ := (m2 v).mp hv; cases h
      have n3 : ∀ v, (k, v) ∉ unionRules3 fusion A B := by
        intro v hv; obtain ⟨d1, d2, _, h, _⟩ := (m3 v).mp hv; cases h
      rw [AList.lookup_insertMany_of_not_mem _ _ _ (nomem _ n3),
        AList.lookup_insertMany_of_not_mem _ _ _ (nomem _ n2)]
      simp only [optFuse]
      apply AList.lookup_insertMany_of_mem
      · exact ⟨(k, fusion (some d1) none), (m1 _).mpr ⟨d1, rfl, rfl⟩, rfl⟩
      · rintro ⟨k', v⟩ hx e
        simp only at e; subst e
        obtain ⟨d, h, e⟩ := (m1 v).mp hx
        cases h; exact e
    | some d2 =>
      simp only [optFuse]
      apply AList.lookup_insertMany_of_mem
      · exact ⟨(k, fusion (some d1) (some d2)), (m3 _).mpr ⟨d1, d2, rfl, rfl, rfl⟩, rfl⟩
      · rintro ⟨k', v⟩ hx e
        simp only at e; subst e
        obtain ⟨d1', d2', h1, h2, e⟩ := (m3 v).mp hx
        cases h1; cases h2; exact e

theorem run_unionRaw (A : DFTA σ Q₁) (B : DFTA σ Q₂) (ha : A.Det) (hb : B.Det) :
    ∀ t, run (unionRaw fusion A B) t = optFuse fusion (run A t) (run B t) := by
  apply run_induction
  intro l ks ih
  rw [run_node, run_node, run_node, runList_eq_optAll, runList_eq_optAll, runList_eq_optAll,
    optAll_congr _ _ ks ih]
  let ps := ks.map (fun k => (run A k, run B k))
  have hg : GoodPairs A.states B.states ps := by
    intro p hp
    obtain ⟨k, _, e⟩ := List.mem_map.mp hp
    subst e
    exact ⟨fun a h => mem_states_of_run A ha k a h, fun b h => mem_states_of_run B hb k b h⟩
  have hfa : optAll (run A) ks = optAll Prod.fst ps := by rw [optAll_map]
  have hfb : optAll (run B) ks = optAll Prod.snd ps := by rw [optAll_map]
  by_cases hbad : ∃ k ∈ ks, run A k = none ∧ run B k = none
  · obtain ⟨k, hk, h1, h2⟩ := hbad
    rw [optAll_none_of_mem _ ks k hk (by simp [h1, h2, optFuse]),
      optAll_none_of_mem _ ks k hk h1, optAll_none_of_mem _ ks k hk h2]
    rfl
  · have hall : optAll (fun k => optFuse fusion (run A k) (run B k)) ks = some (ps.map (fun p => fusion p.1 p.2)) := by
      rw [optAll_eq_some_iff]
      have : ∀ ks' : List (Tree σ), (∀ k ∈ ks', ¬ (run A k = none ∧ run B k = none)) →
          List.Forall₂ (fun x y => optFuse fusion (run A x) (run B x) = some y) ks'
            ((ks'.map (fun k => (run A k, run B k))).map (fun p => fusion p.1 p.2)) := by
        intro ks'
        induction ks' with
        | nil => intro _; exact .nil
        | cons k ks' ihk =>
          intro h
          refine .cons ?_ (ihk (fun k' hk' => h k' (List.mem_cons_of_mem _ hk')))
          have := h k List.mem_cons_self
          cases h1 : run A k <;> cases h2 : run B k <;> simp_all [optFuse]
      exact this ks (fun k hk hc => hbad ⟨k, hk, hc⟩)
    rw [hall, hfa, hfb]
    simp only [Option.bind_some]
    exact read_unionRaw fusion hinj A B ha hb l ps hg

theorem accepts_unionRaw (A : DFTA σ Q₁) (B : DFTA σ Q₂) (ha : A.Det) (hb : B.Det) (t : Tree σ) :
    (unionRaw fusion A B).accepts t = (A.accepts t || B.accepts t) := by
  rw [Bool.eq_iff_iff, Bool.or_eq_true, accepts_iff, accepts_iff, accepts_iff,
    run_unionRaw fusion hinj A B ha hb t]
  have hfin : ∀ p : Option Q₁ × Option Q₂, (∀ a, p.1 = some a → a ∈ A.states) → (∀ b, p.2 = some b → b ∈ B.states) →
      (fusion p.1 p.2 ∈ (unionRaw fusion A B).finals ↔
        (∃ a, p.1 = some a ∧ a ∈ A.finals) ∨ (∃ b, p.2 = some b ∧ b ∈ B.finals)) := by
    intro p h1 h2
    unfold unionRaw
    simp only [List.mem_append, List.mem_flatMap, List.mem_filter, decide_eq_true_eq]
    constructor
    · rintro (⟨a, ⟨_, haf⟩, hm⟩ | ⟨b, ⟨_, hbf⟩, hm⟩)
      · exact Or.inl ⟨a, ((mem_mappingS fusion hinj _ _ a p).mp hm).2.1, haf⟩
      · exact Or.inr ⟨b, ((mem_mappingO fusion hinj _ _ b p).mp hm).2.1, hbf⟩
    · rintro (⟨a, e, haf⟩ | ⟨b, e, hbf⟩)
      · left
        refine ⟨a, ⟨h1 a e, haf⟩, (mem_mappingS fusion hinj _ _ a p).mpr ⟨h1 a e, e, ?_⟩⟩
        cases h : p.2 with
        | none => exact Or.inl rfl
        | some b => exact Or.inr ⟨b, h2 b h, rfl⟩
      · right
        refine ⟨b, ⟨h2 b e, hbf⟩, (mem_mappingO fusion hinj _ _ b p).mpr ⟨h2 b e, e, ?_⟩⟩
        cases h : p.1 with
        | none => exact Or.inl rfl
        | some a => exact Or.inr ⟨a, h1 a h, rfl⟩
  have hp := hfin (run A t, run B t) (fun a h => mem_states_of_run A ha t a h) (fun b h => mem_states_of_run B hb t b h)
  simp only at hp
  cases h1 : run A t with
  | none =>
    cases h2 : run B t with
    | none => simp [optFuse]
    | some b =>
      rw [h1, h2] at hp
      simp only [optFuse, Option.some.injEq, exists_eq_left', hp]
  | some a =>
    rw [h1] at hp
    cases h2 : run B t with
    | none =>
      rw [h2] at hp
      simp only [optFuse, Option.some.injEq, exists_eq_left', hp]
    | some b =>
      rw [h2] at hp
      simp only [optFuse, Option.some.injEq, exists_eq_left', hp]

theorem accepts_readUnionWith (A : DFTA σ Q₁) (B : DFTA σ Q₂) (ha : A.Det) (hb : B.Det) (t : Tree σ) :
    (readUnionWith fusion A B).accepts t = (A.accepts t || B.accepts t) := by
  unfold readUnionWith
  have hd : (unionRaw fusion A B).Det := AList.keys_nodup_ofList _
  rw [accepts_reduce _ hd, accepts_unionRaw fusion hinj A B ha hb t]

end union

end DFTA
end PS
