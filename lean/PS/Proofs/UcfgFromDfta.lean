/-
  C06, part 1: the worklist loop of `UCFG.from_DFTA` / `from_DFTA_with_ngrams`
  (PS/Model/UcfgFromDfta.lean `buildLoop`).
  * invariant: the table has distinct keys, every row is `rowFor` of its key, every start
    symbol and every argument non-terminal of a row is a key or still on the stack;
  * termination of `from_DFTA`: `buildFuel` iterations are always enough.
-/
import PS.Model.UcfgFromDfta
import PS.Proofs.Dfta
namespace PS.U.FD
open PS PS.G PS.U

variable {Q U V : Type} [DecidableEq Q] [DecidableEq U] [DecidableEq V]
set_option linter.unusedSectionVars false

/-! ### dictionaries -/

theorem insert_of_lookup_none {κ ν : Type} [DecidableEq κ] (k : κ) (v : ν) (d : AList κ ν)
    (h : AList.lookup k d = none) : AList.insert k v d = d ++ [(k, v)] := by
  induction d with
  | nil => rfl
  | cons p r ih =>
    obtain ⟨k', v'⟩ := p
    by_cases hk : k' = k
    · simp [AList.lookup, hk] at h
    · simp only [AList.lookup, hk, if_false] at h
      simp [AList.insert, hk, ih h]

theorem lookup_none_of_contains_false {κ ν : Type} [DecidableEq κ] (k : κ) (d : AList κ ν)
    (h : AList.contains k d = false) : AList.lookup k d = none := by
  unfold AList.contains at h
  cases hl : AList.lookup k d with
  | none => rfl
  | some v => rw [hl] at h; simp at h

theorem not_mem_keys_of_lookup_none {κ ν : Type} [DecidableEq κ] (k : κ) (d : AList κ ν)
    (h : AList.lookup k d = none) : k ∉ AList.keys d := by
  intro hm
  have := AList.lookup_isSome_iff_mem_keys.mpr hm
  rw [h] at this
  cases this

theorem mem_keys_of_contains {κ ν : Type} [DecidableEq κ] (k : κ) (d : AList κ ν)
    (h : AList.contains k d = true) : k ∈ AList.keys d :=
  AList.lookup_isSome_iff_mem_keys.mp h

theorem keys_append {κ ν : Type} (d e : AList κ ν) :
    AList.keys (d ++ e) = AList.keys d ++ AList.keys e := by
  simp [AList.keys]

/-! ### the invariant -/

/-- closure of the key `k`: the argument non-terminals of its row are in `S` -/
def RowClosed (F : Flat Q U V) (A : DFTA Sym Q) (k : UNT V) (S : UNT V → Prop) : Prop :=
  ∀ r ∈ A.rules, matchesTgt F k r = true → ∀ x ∈ newArgs F k r.1.1 r.1.2, S x

structure Inv (F : Flat Q U V) (A : DFTA Sym Q) (starts stack : List (UNT V))
    (nr : AList (UNT V) (Row V)) : Prop where
  nodup : (AList.keys nr).Nodup
  rows : ∀ e ∈ nr, e.2 = rowFor F A e.1
  closed : ∀ k ∈ AList.keys nr, RowClosed F A k (fun x => x ∈ AList.keys nr ∨ x ∈ stack)
  starts : ∀ s ∈ starts, s ∈ AList.keys nr ∨ s ∈ stack

theorem inv_init (F : Flat Q U V) (A : DFTA Sym Q) (starts : List (UNT V)) :
    Inv F A starts starts.reverse [] :=
  { nodup := by simp [AList.keys]
    rows := by intro e he; cases he
    closed := by intro k hk; simp [AList.keys] at hk
    starts := by intro s hs; exact Or.inr (List.mem_reverse.mpr hs) }

theorem mem_pushesFor (F : Flat Q U V) (A : DFTA Sym Q) (tgt : UNT V) (keys : List (UNT V))
    (r : (Sym × List Q) × Q) (hr : r ∈ A.rules) (hm : matchesTgt F tgt r = true) (x : UNT V)
    (hx : x ∈ newArgs F tgt r.1.1 r.1.2) (hk : x ∉ keys) : x ∈ pushesFor F A tgt keys := by
  unfold pushesFor
  refine List.mem_flatMap.mpr ⟨r, hr, ?_⟩
  rw [if_pos hm]
  exact List.mem_filter.mpr ⟨hx, by simpa using hk⟩

theorem inv_step_done (F : Flat Q U V) (A : DFTA Sym Q) (starts stack : List (UNT V))
    (nr : AList (UNT V) (Row V)) (tgt : UNT V) (h : Inv F A starts (tgt :: stack) nr)
    (hc : AList.contains tgt nr = true) : Inv F A starts stack nr := by
  have hk := mem_keys_of_contains tgt nr hc
  refine { nodup := h.nodup, rows := h.rows, closed := ?_, starts := ?_ }
  · intro k hkk r hr hm x hx
    rcases h.closed k hkk r hr hm x hx with h1 | h1
    · exact Or.inl h1
    · rcases List.mem_cons.mp h1 with h2 | h2
      · exact Or.inl (h2 ▸ hk)
      · exact Or.inr h2
  · intro s hs
    rcases h.starts s hs with h1 | h1
    · exact Or.inl h1
    · rcases List.mem_cons.mp h1 with h2 | h2
      · exact Or.inl (h2 ▸ hk)
      · exact Or.inr h2

theorem inv_step_new (F : Flat Q U V) (A : DFTA Sym Q) (starts stack : List (UNT V))
    (nr : AList (UNT V) (Row V)) (tgt : UNT V) (h : Inv F A starts (tgt :: stack) nr)
    (hc : AList.contains tgt nr = false) :
    Inv F A starts ((pushesFor F A tgt (AList.keys (AList.insert tgt (rowFor F A tgt) nr))).reverse ++ stack)
      (AList.insert tgt (rowFor F A tgt) nr) := by
  have hl := lookup_none_of_contains_false tgt nr hc
  have hnk := not_mem_keys_of_lookup_none tgt nr hl
  rw [insert_of_lookup_none tgt _ nr hl]
  have hkeys : AList.keys (nr ++ [(tgt, rowFor F A tgt)]) = AList.keys nr ++ [tgt] := by
    rw [keys_append]; rfl
  rw [hkeys]
  refine { nodup := ?_, rows := ?_, closed := ?_, starts := ?_ }
  · rw [hkeys]
    exact List.nodup_append.mpr ⟨h.nodup, by simp, by
      intro a ha b hb
      simp only [List.mem_singleton] at hb
      intro e; exact hnk (hb ▸ e ▸ ha)⟩
  · intro e he
    rcases List.mem_append.mp he with h1 | h1
    · exact h.rows e h1
    · simp only [List.mem_singleton] at h1
      rw [h1]
  · intro k hkk r hr hm x hx
    rw [hkeys] at hkk ⊢
    by_cases hxk : x ∈ AList.keys nr ++ [tgt]
    · exact Or.inl hxk
    · right
      rcases List.mem_append.mp hkk with h1 | h1
      · rcases h.closed k h1 r hr hm x hx with h2 | h2
        · exact absurd (List.mem_append_left _ h2) hxk
        · rcases List.mem_cons.mp h2 with h3 | h3
          · exact absurd (List.mem_append_right _ (by simp [h3])) hxk
          · exact List.mem_append_right _ h3
      · simp only [List.mem_singleton] at h1
        subst h1
        exact List.mem_append_left _ (List.mem_reverse.mpr (mem_pushesFor F A k _ r hr hm x hx hxk))
  · intro s hs
    rw [hkeys]
    rcases h.starts s hs with h1 | h1
    · exact Or.inl (List.mem_append_left _ h1)
    · rcases List.mem_cons.mp h1 with h2 | h2
      · exact Or.inl (List.mem_append_right _ (by simp [h2]))
      · exact Or.inr (List.mem_append_right _ h2)

/-- partial correctness of the loop: whatever it returns satisfies the invariant with an empty
    stack -/
theorem buildLoop_inv (F : Flat Q U V) (A : DFTA Sym Q) (starts : List (UNT V)) :
    ∀ (fuel : Nat) (stack : List (UNT V)) (nr res : AList (UNT V) (Row V)),
      Inv F A starts stack nr → buildLoop F A fuel stack nr = some res → Inv F A starts [] res := by
  intro fuel
  induction fuel with
  | zero => intro stack nr res _ h; simp [buildLoop] at h
  | succ fuel ih =>
    intro stack nr res hinv h
    cases stack with
    | nil =>
      simp only [buildLoop, Option.some.injEq] at h
      exact h ▸ hinv
    | cons tgt stack =>
      rw [buildLoop] at h
      by_cases hc : AList.contains tgt nr = true
      · rw [if_pos hc] at h
        exact ih stack nr res (inv_step_done F A starts stack nr tgt hinv hc) h
      · rw [if_neg hc] at h
        have hc' : AList.contains tgt nr = false := by simpa using hc
        exact ih _ _ res (inv_step_new F A starts stack nr tgt hinv hc') h

/-- what the theorems use of a finished table -/
structure Built (F : Flat Q U V) (A : DFTA Sym Q) (G : UCFG V) : Prop where
  starts_eq : G.starts = startsOf F A
  nodup : (AList.keys G.rules).Nodup
  rows : ∀ e ∈ G.rules, e.2 = rowFor F A e.1
  closed : ∀ k ∈ AList.keys G.rules, RowClosed F A k (fun x => x ∈ AList.keys G.rules)
  starts : ∀ s ∈ G.starts, s ∈ AList.keys G.rules

theorem built_of_build (F : Flat Q U V) (A : DFTA Sym Q) (fuel : Nat) (G : UCFG V)
    (h : build F A fuel = some G) : Built F A G := by
  unfold build at h
  cases hs : startsOf F A with
  | nil => rw [hs] at h; simp at h
  | cons s ss =>
    rw [hs] at h
    simp only at h
    cases hb : buildLoop F A fuel (s :: ss).reverse [] with
    | none => rw [hb] at h; simp at h
    | some nr =>
      rw [hb] at h
      simp only [Option.some.injEq] at h
      subst h
      have hinv := buildLoop_inv F A (s :: ss) fuel _ [] nr (inv_init F A (s :: ss)) hb
      exact { starts_eq := hs.symm, nodup := hinv.nodup, rows := hinv.rows
              closed := by
                intro k hk r hr hm x hx
                rcases hinv.closed k hk r hr hm x hx with h1 | h1
                · exact h1
                · cases h1
              starts := by
                intro s' hs'
                rcases hinv.starts s' hs' with h1 | h1
                · exact h1
                · cases h1 }

/-! ### every key comes from the start symbols through `child` -/

theorem buildLoop_keys (F : Flat Q U V) (A : DFTA Sym Q) (P : UNT V → Prop)
    (hstep : ∀ k, P k → ∀ r ∈ A.rules, matchesTgt F k r = true → ∀ x ∈ newArgs F k r.1.1 r.1.2, P x) :
    ∀ (fuel : Nat) (stack : List (UNT V)) (nr res : AList (UNT V) (Row V)),
      (∀ k ∈ stack, P k) → (∀ k ∈ AList.keys nr, P k) → buildLoop F A fuel stack nr = some res →
      ∀ k ∈ AList.keys res, P k := by
  intro fuel
  induction fuel with
  | zero => intro stack nr res _ _ h; simp [buildLoop] at h
  | succ fuel ih =>
    intro stack nr res hs hk h
    cases stack with
    | nil =>
      simp only [buildLoop, Option.some.injEq] at h
      exact h ▸ hk
    | cons tgt stack =>
      rw [buildLoop] at h
      by_cases hc : AList.contains tgt nr = true
      · rw [if_pos hc] at h
        exact ih stack nr res (fun k hkk => hs k (List.mem_cons_of_mem _ hkk)) hk h
      · rw [if_neg hc] at h
        have hc' : AList.contains tgt nr = false := by simpa using hc
        have hl := lookup_none_of_contains_false tgt nr hc'
        have hPt : P tgt := hs tgt (by simp)
        refine ih _ _ res ?_ ?_ h
        · intro k hkk
          rcases List.mem_append.mp hkk with h1 | h1
          · have h2 := List.mem_reverse.mp h1
            unfold pushesFor at h2
            obtain ⟨r, hr, hx⟩ := List.mem_flatMap.mp h2
            by_cases hm : matchesTgt F tgt r = true
            · rw [if_pos hm] at hx
              exact hstep tgt hPt r hr hm k (List.mem_filter.mp hx).1
            · rw [if_neg hm] at hx; cases hx
          · exact hs k (List.mem_cons_of_mem _ h1)
        · intro k hkk
          rw [insert_of_lookup_none tgt _ nr hl, keys_append] at hkk
          rcases List.mem_append.mp hkk with h1 | h1
          · exact hk k h1
          · have : AList.keys [(tgt, rowFor F A tgt)] = [tgt] := rfl
            rw [this] at h1
            simp only [List.mem_singleton] at h1
            rw [h1]; exact hPt

/-- every key of the built table stands for a state the automaton mentions -/
theorem build_keys_image (F : Flat Q U V) (A : DFTA Sym Q)
    (hpc : ∀ tgt P i x, F.proj (F.child tgt P i x) = x) (hpr : ∀ x, F.proj (F.root x) = x)
    (fuel : Nat) (G : UCFG V) (h : build F A fuel = some G) :
    ∀ k ∈ AList.keys G.rules, ∃ q ∈ A.allStates, F.proj k = F.d q := by
  unfold build at h
  cases hs : startsOf F A with
  | nil => rw [hs] at h; simp at h
  | cons s ss =>
    rw [hs] at h
    simp only at h
    cases hb : buildLoop F A fuel (s :: ss).reverse [] with
    | none => rw [hb] at h; simp at h
    | some nr =>
      rw [hb] at h
      simp only [Option.some.injEq] at h
      subst h
      refine buildLoop_keys F A (fun k => ∃ q ∈ A.allStates, F.proj k = F.d q) ?_ fuel _ [] nr ?_ ?_ hb
      · intro k _ r hr _ x hx
        unfold newArgs at hx
        obtain ⟨ai, hai, rfl⟩ := List.mem_map.mp hx
        have h2 := List.mem_zipIdx hai
        refine ⟨ai.1, ?_, hpc _ _ _ _⟩
        have hst := DFTA.mem_allStates_of_rule A (l := r.1.1) (args := r.1.2) (d := r.2) hr
        apply hst.2
        rw [h2.2.2]
        exact List.getElem_mem _
      · intro k hk
        have hk' : k ∈ startsOf F A := by rw [hs]; exact List.mem_reverse.mp hk
        unfold startsOf at hk'
        rw [mem_foldl_addNew] at hk'
        rcases hk' with h1 | h1
        · cases h1
        · obtain ⟨q, hq, rfl⟩ := List.mem_map.mp h1
          exact ⟨q, List.mem_append_right _ hq, hpr _⟩
      · intro k hk; simp [AList.keys] at hk

/-! ### termination of `from_DFTA` (`proj = id`) -/

section Termination
variable (d : Q → UNT U) (A : DFTA Sym Q)

/-- argument positions of the rules whose target is not yet a key -/
def pending (keys : List (UNT U)) : Nat :=
  (A.rules.map (fun r => if d r.2 ∈ keys then 0 else r.1.2.length)).sum

/-- argument positions of the rules read at `tgt` -/
def costOf (tgt : UNT U) : Nat :=
  (A.rules.map (fun r => if d r.2 = tgt then r.1.2.length else 0)).sum

theorem pending_nil : pending d A [] = A.argCount := by
  simp [pending, DFTA.argCount]

theorem pending_add (keys : List (UNT U)) (tgt : UNT U) (h : tgt ∉ keys) :
    pending d A (keys ++ [tgt]) + costOf d A tgt = pending d A keys := by
  unfold pending costOf
  induction A.rules with
  | nil => rfl
  | cons r rs ih =>
    simp only [List.map_cons, List.sum_cons]
    by_cases h1 : d r.2 = tgt
    · have h2 : d r.2 ∉ keys := fun e => h (h1 ▸ e)
      have h3 : d r.2 ∈ keys ++ [tgt] := by simp [h1]
      rw [if_pos h3, if_pos h1, if_neg h2]
      omega
    · have h3 : d r.2 ∈ keys ++ [tgt] ↔ d r.2 ∈ keys := by simp [h1]
      rw [if_neg h1]
      by_cases h4 : d r.2 ∈ keys
      · rw [if_pos (h3.mpr h4), if_pos h4]; omega
      · rw [if_neg (fun e => h4 (h3.mp e)), if_neg h4]; omega

theorem newArgs_length (F : Flat Q U V) (tgt : UNT V) (P : Sym) (args : List Q) :
    (newArgs F tgt P args).length = args.length := by
  simp [newArgs]

theorem pushes_length_le (tgt : UNT U) (keys : List (UNT U)) :
    (pushesFor (plainFlat d) A tgt keys).length ≤ costOf d A tgt := by
  unfold pushesFor costOf
  induction A.rules with
  | nil => simp
  | cons r rs ih =>
    simp only [List.flatMap_cons, List.length_append, List.map_cons, List.sum_cons]
    have h1 : matchesTgt (plainFlat d) tgt r = decide (d r.2 = tgt) := rfl
    by_cases h2 : d r.2 = tgt
    · rw [h1, if_pos (by simpa using h2), if_pos h2]
      have := List.length_filter_le (fun k => decide (k ∉ keys)) (newArgs (plainFlat d) tgt r.1.1 r.1.2)
      rw [newArgs_length] at this
      omega
    · rw [h1, if_neg (by simpa using h2), if_neg h2]
      simp only [List.length_nil]
      omega

theorem buildLoop_terminates_aux :
    ∀ (fuel : Nat) (stack : List (UNT U)) (nr : AList (UNT U) (Row U)),
      stack.length + pending d A (AList.keys nr) < fuel →
      ∃ res, buildLoop (plainFlat d) A fuel stack nr = some res := by
  intro fuel
  induction fuel with
  | zero => intro stack nr h; omega
  | succ fuel ih =>
    intro stack nr h
    cases stack with
    | nil => exact ⟨nr, rfl⟩
    | cons tgt stack =>
      rw [buildLoop]
      by_cases hc : AList.contains tgt nr = true
      · rw [if_pos hc]
        apply ih
        simp only [List.length_cons] at h
        omega
      · rw [if_neg hc]
        have hc' : AList.contains tgt nr = false := by simpa using hc
        have hl := lookup_none_of_contains_false tgt nr hc'
        have hnk := not_mem_keys_of_lookup_none tgt nr hl
        apply ih
        rw [insert_of_lookup_none tgt _ nr hl, keys_append]
        have hk : AList.keys [(tgt, rowFor (plainFlat d) A tgt)] = [tgt] := rfl
        rw [hk]
        have h1 := pending_add d A (AList.keys nr) tgt hnk
        have h2 := pushes_length_le d A tgt (AList.keys nr ++ [tgt])
        simp only [List.length_append, List.length_reverse, List.length_cons] at h ⊢
        omega

/-- **termination**: the `while stack` loop of `from_DFTA` ends within `buildFuel` iterations,
    for every automaton and every flattening of its states -/
theorem fromDFTA_terminates (hf : A.finals ≠ []) : ∃ G, fromDFTA d A = some G := by
  unfold fromDFTA build
  cases hs : startsOf (plainFlat d) A with
  | nil =>
    exfalso
    obtain ⟨q, qs, hq⟩ := List.exists_cons_of_ne_nil hf
    have hm : (plainFlat d).root ((plainFlat d).d q) ∈ startsOf (plainFlat d) A := by
      unfold startsOf
      rw [mem_foldl_addNew]
      right
      rw [hq]; simp
    rw [hs] at hm
    cases hm
  | cons s ss =>
    simp only
    obtain ⟨res, hres⟩ := buildLoop_terminates_aux d A (buildFuel (plainFlat d) A) (s :: ss).reverse []
      (by
        have : AList.keys ([] : AList (UNT U) (Row U)) = [] := rfl
        rw [this, pending_nil]
        unfold buildFuel
        rw [hs]
        simp only [List.length_reverse]
        omega)
    rw [hres]
    exact ⟨_, rfl⟩

end Termination

end PS.U.FD
