/- The enumeration `lang` / counter `count` of PS/Model/Grammar.lean against the
   membership specification `gen`. -/
import PS.Model.Grammar
namespace PS.G
open PS

variable {S : Type} [DecidableEq S]

/-- a Python dict has no repeated key: every row of the rule table has distinct symbols -/
def RowsNodup (G : TT S Unit) : Prop :=
  ∀ nt rs, AList.lookup nt G.rules = some rs → (AList.keys rs).Nodup

/-! ### `product` -/

theorem mem_product_cons {α : Type} (l : List α) (ls : List (List α)) (ys : List α) :
    ys ∈ product (l :: ls) ↔ ∃ x r, ys = x :: r ∧ x ∈ l ∧ r ∈ product ls := by
  simp only [product, List.mem_flatMap, List.mem_map]
  constructor
  · rintro ⟨x, hx, r, hr, rfl⟩; exact ⟨x, r, rfl, hx, hr⟩
  · rintro ⟨x, r, rfl, hx, hr⟩; exact ⟨x, hx, r, hr, rfl⟩

/-- membership in `product`: pick one element per list -/
theorem mem_product {α : Type} (ls : List (List α)) (xs : List α) :
    xs ∈ product ls ↔ xs.length = ls.length ∧ ∀ p ∈ xs.zip ls, p.1 ∈ p.2 := by
  induction ls generalizing xs with
  | nil =>
    cases xs <;> simp [product]
  | cons l ls ih =>
    rw [mem_product_cons]
    cases xs with
    | nil => simp
    | cons x xs =>
      constructor
      · rintro ⟨x', r, he, hx, hr⟩
        cases he
        obtain ⟨h1, h2⟩ := (ih xs).mp hr
        refine ⟨by simp [h1], ?_⟩
        intro p hp
        simp only [List.zip_cons_cons, List.mem_cons] at hp
        rcases hp with hp | hp
        · rw [hp]; exact hx
        · exact h2 p hp
      · rintro ⟨h1, h2⟩
        refine ⟨x, xs, rfl, ?_, (ih xs).mpr ⟨by simpa using h1, ?_⟩⟩
        · exact h2 (x, l) (by simp)
        · intro p hp; exact h2 p (by simp [hp])

theorem foldl_mul_init (a : Nat) (l : List Nat) :
    l.foldl (· * ·) a = a * l.foldl (· * ·) 1 := by
  induction l generalizing a with
  | nil => simp
  | cons x xs ih =>
    simp only [List.foldl_cons, Nat.one_mul]
    rw [ih (a * x), ih x, Nat.mul_assoc]

theorem product_length {α : Type} (ls : List (List α)) :
    (product ls).length = (ls.map List.length).foldl (· * ·) 1 := by
  induction ls with
  | nil => simp [product]
  | cons l ls ih =>
    simp only [product, List.length_flatMap, List.length_map, List.map_cons, List.foldl_cons,
      Nat.one_mul]
    rw [foldl_mul_init l.length, ← ih]
    generalize (product ls).length = n
    induction l with
    | nil => simp
    | cons x xs ih2 => simp [ih2, Nat.add_mul, Nat.add_comm]

/-- the counter is the length of the enumeration (no hypothesis) -/
theorem count_eq_length (G : TT S Unit) (k : Nat) (nt : NT S Unit) :
    count G k nt = (lang G k nt).length := by
  induction k generalizing nt with
  | zero => simp [count, lang]
  | succ k ih =>
    simp only [count, lang]
    cases AList.lookup nt G.rules with
    | none => simp
    | some rs =>
      simp only [List.length_flatMap, List.length_map, product_length, List.map_map]
      congr 1
      apply List.map_congr_left
      intro r _
      congr 1
      apply List.map_congr_left
      intro a _
      simp [ih]

/-! ### `lang` against `gen` -/

/-- children: membership in the product of the argument languages, given the
    characterisation of `lang G k` -/
theorem mem_product_lang (G : TT S Unit) (k : Nat)
    (ih : ∀ (t : Prog) (nt : NT S Unit),
      t ∈ lang G k nt ↔ (gen G t nt = true ∧ Tree.depth t ≤ k)) :
    ∀ (kids : List Prog) (args : List (Ty × S)),
      kids ∈ product (args.map (fun a => lang G k (a.1, (a.2, ())))) ↔
        (genList G kids args = true ∧ Tree.depthList kids ≤ k)
  | [], [] => by simp [product, genList, Tree.depthList]
  | [], _ :: _ => by simp [mem_product_cons, genList]
  | _ :: _, [] => by simp [product, genList]
  | t :: ts, (ty, s) :: as => by
    have h2 := mem_product_lang G k ih ts as
    simp only [List.map_cons, mem_product_cons, genList, Tree.depthList, Bool.and_eq_true]
    constructor
    · rintro ⟨x, r, he, hx, hr⟩
      cases he
      have h1 := (ih _ (ty, (s, ()))).mp hx
      have h3 := h2.mp hr
      exact ⟨⟨h1.1, h3.1⟩, Nat.max_le.mpr ⟨h1.2, h3.2⟩⟩
    · rintro ⟨⟨g1, g2⟩, hd⟩
      have hd' := Nat.max_le.mp hd
      exact ⟨t, ts, rfl, (ih t (ty, (s, ()))).mpr ⟨g1, hd'.1⟩, h2.mpr ⟨g2, hd'.2⟩⟩

/-- `lang` enumerates exactly the derivable terms of at most `k` levels -/
theorem mem_lang_iff (G : TT S Unit) (h : RowsNodup G) (k : Nat) (t : Prog) (nt : NT S Unit) :
    t ∈ lang G k nt ↔ (gen G t nt = true ∧ Tree.depth t ≤ k) := by
  induction k generalizing t nt with
  | zero =>
    cases t with
    | node f kids => simp [lang, Tree.depth]
  | succ k ih =>
    have aux := mem_product_lang G k ih
    cases t with
    | node f kids =>
      rw [gen]
      simp only [lang, TT.rule?, Tree.depth]
      cases hl : AList.lookup nt G.rules with
      | none => simp
      | some rs =>
        simp only [List.mem_flatMap, List.mem_map]
        constructor
        · rintro ⟨r, hr, kids', hk, he⟩
          obtain ⟨sym, args, u⟩ := r
          cases he
          have hlk : AList.lookup _ rs = some (args, u) :=
            AList.lookup_of_mem_nodup (h nt rs hl) hr
          rw [hlk]
          have := (aux kids args).mp hk
          exact ⟨this.1, by have := this.2; omega⟩
        · rintro ⟨hg, hd⟩
          cases hlk : AList.lookup f rs with
          | none => rw [hlk] at hg; simp at hg
          | some r =>
            obtain ⟨args, u⟩ := r
            rw [hlk] at hg
            refine ⟨(f, (args, u)), AList.lookup_some_mem hlk, kids, ?_, rfl⟩
            exact (aux kids args).mpr ⟨hg, by omega⟩

/-- members of the enumeration are derivable -/
theorem gen_of_mem_lang (G : TT S Unit) (h : RowsNodup G) (k : Nat) (t : Prog) (nt : NT S Unit)
    (hm : t ∈ lang G k nt) : gen G t nt = true :=
  ((mem_lang_iff G h k t nt).mp hm).1

/-! ### no repetition -/

theorem nodup_map_of_inj {α β : Type} (f : α → β) (hf : ∀ a b, f a = f b → a = b)
    {l : List α} (h : l.Nodup) : (l.map f).Nodup := by
  rw [List.nodup_iff_pairwise_ne] at h ⊢
  rw [List.pairwise_map]
  exact h.imp (fun hne he => hne (hf _ _ he))

theorem product_nodup {α : Type} (ls : List (List α)) (h : ∀ l ∈ ls, l.Nodup) :
    (product ls).Nodup := by
  induction ls with
  | nil => simp [product]
  | cons l ls ih =>
    have hl : l.Nodup := h l (by simp)
    have hr : (product ls).Nodup := ih (fun l' hl' => h l' (by simp [hl']))
    simp only [product]
    rw [List.nodup_iff_pairwise_ne, List.pairwise_flatMap]
    constructor
    · intro x _
      rw [← List.nodup_iff_pairwise_ne]
      exact nodup_map_of_inj _ (fun a b he => (List.cons.inj he).2) hr
    · rw [List.nodup_iff_pairwise_ne] at hl
      refine hl.imp ?_
      intro a b hne x hx y hy he
      simp only [List.mem_map] at hx hy
      obtain ⟨r1, _, rfl⟩ := hx
      obtain ⟨r2, _, rfl⟩ := hy
      exact hne (List.cons.inj he).1

/-- … without repetition -/
theorem lang_nodup (G : TT S Unit) (h : RowsNodup G) (k : Nat) (nt : NT S Unit) :
    (lang G k nt).Nodup := by
  induction k generalizing nt with
  | zero => simp [lang]
  | succ k ih =>
    simp only [lang]
    cases hl : AList.lookup nt G.rules with
    | none => simp
    | some rs =>
      simp only
      rw [List.nodup_iff_pairwise_ne, List.pairwise_flatMap]
      constructor
      · intro r _
        rw [← List.nodup_iff_pairwise_ne]
        apply nodup_map_of_inj
        · intro a b he; exact (Tree.node.inj he).2
        · apply product_nodup
          intro l hl'
          simp only [List.mem_map] at hl'
          obtain ⟨a, _, rfl⟩ := hl'
          exact ih _
      · have hk := h nt rs hl
        unfold AList.keys at hk
        rw [List.nodup_iff_pairwise_ne, List.pairwise_map] at hk
        refine hk.imp ?_
        intro a b hne x hx y hy he
        simp only [List.mem_map] at hx hy
        obtain ⟨r1, _, rfl⟩ := hx
        obtain ⟨r2, _, rfl⟩ := hy
        exact hne (Tree.node.inj he).1

end PS.G
