/-
  C13, part 1: the membership test of a tree-traversing grammar (`DetGrammar.__contains_rec__`
  with `TTCFG.derive`: a pending stack of argument slots and a state threaded through the
  derivation) is the stack-free semantics `run`, for every state type.
-/
import PS.Model.Ttcfg
namespace PS.T
open PS PS.G

variable {S T : Type} [DecidableEq S] [DecidableEq T]

/-- what a completed sub-derivation ending in state `w` leaves behind: the pending stack loses
    its top, which - with `w` - becomes the next non-terminal -/
def AdvT (info : List (Ty × S)) (w : T) (r : Bool × List (Ty × S) × NT S T) : Prop :=
  r.1 = true ∧ r.2.1 = info.tail ∧ ∀ b rest, info = b :: rest → r.2.2 = (b.1, (b.2, w))

/-- the relation between the two membership algorithms -/
def Agree (info : List (Ty × S)) (o : Option T) (r : Bool × List (Ty × S) × NT S T) : Prop :=
  match o with
  | none => r.1 = false
  | some w => AdvT info w r

omit [DecidableEq S] [DecidableEq T] in
theorem runList_len_ne (ρ : RuleFn S T) :
    ∀ (ks : List Prog) (args : List (Ty × S)) (v : T), ks.length ≠ args.length → runList ρ ks args v = none
  | [], [], _, h => by simp at h
  | [], _ :: _, _, _ => by simp [runList]
  | _ :: _, [], _, _ => by simp [runList]
  | k :: ks, a :: as, v, h => by
    have h' : ks.length ≠ as.length := by simpa using h
    rw [runList]
    cases run ρ k a v with
    | none => rfl
    | some w => exact runList_len_ne ρ ks as w h'

mutual
  theorem containsRec_run (G : TT S T) :
      ∀ (t : Prog) (nt : NT S T) (info : List (Ty × S)),
        Agree info (run G.rule? t (nt.1, nt.2.1) nt.2.2) (containsRec G t nt info)
    | .node f kids, nt, info => by
      obtain ⟨ty, s, v⟩ := nt
      rw [containsRec, run]
      simp only
      cases hr : G.rule? (ty, (s, v)) f with
      | none => simp [Agree]
      | some r =>
        obtain ⟨args, st⟩ := r
        simp only
        by_cases hlen : kids.length = args.length
        · have hne : ¬ (kids.length != args.length) = true := by simp [hlen]
          simp only [hne]
          cases args with
          | nil =>
            have hk : kids = [] := List.length_eq_zero_iff.mp hlen
            subst hk
            cases info with
            | nil => simp [containsList, runList, deriveWith, Agree, AdvT]
            | cons b rest => simp [containsList, runList, deriveWith, Agree, AdvT]
          | cons a as =>
            have := containsList_run G kids a as info st hlen
            simpa [deriveWith] using this
        · have hne : (kids.length != args.length) = true := by simp [hlen]
          simp only [hne, if_true]
          rw [runList_len_ne G.rule? kids args st hlen]
          simp [Agree]
  theorem containsList_run (G : TT S T) :
      ∀ (ks : List Prog) (a : Ty × S) (as : List (Ty × S)) (info : List (Ty × S)) (v : T),
        ks.length = (a :: as).length →
        Agree info (runList G.rule? ks (a :: as) v) (containsList G ks (as ++ info) (a.1, (a.2, v)))
    | [], a, as, info, v, h => by simp at h
    | k :: ks, a, as, info, v, h => by
      have h1 := containsRec_run G k (a.1, (a.2, v)) (as ++ info)
      rw [containsList, runList]
      obtain ⟨a1, a2⟩ := a
      simp only at h1 ⊢
      cases hrun : run G.rule? k (a1, a2) v with
      | none =>
        rw [hrun] at h1
        simp only [Agree] at h1
        cases hc : containsRec G k (a1, (a2, v)) (as ++ info) with
        | mk b rest =>
          obtain ⟨i, n⟩ := rest
          rw [hc] at h1
          simp only at h1
          subst h1
          simp [Agree]
      | some w =>
        rw [hrun] at h1
        simp only [Agree, AdvT] at h1
        cases hc : containsRec G k (a1, (a2, v)) (as ++ info) with
        | mk b rest =>
          obtain ⟨i, n⟩ := rest
          rw [hc] at h1
          simp only at h1
          obtain ⟨hb, hi, hn⟩ := h1
          subst hb
          simp only
          cases as with
          | nil =>
            have hks : ks = [] := by simpa using h
            subst hks
            simp only [List.nil_append] at hi hn
            simp only [containsList, runList, Agree, AdvT, true_and]
            exact ⟨hi, hn⟩
          | cons a' as' =>
            simp only [List.cons_append, List.tail_cons] at hi
            have hn' := hn a' (as' ++ info) rfl
            subst hi
            rw [hn']
            have hlen : ks.length = (a' :: as').length := by simp at h ⊢; omega
            exact containsList_run G ks a' as' info w hlen
end

/-- **membership = stack-free run**, from the start symbol -/
theorem contains_eq_inLang (G : TT S T) (t : Prog) : PS.G.contains G t = inLang G t := by
  have h := containsRec_run G t G.start []
  unfold PS.G.contains inLang
  cases hr : run G.rule? t (G.start.1, G.start.2.1) G.start.2.2 with
  | none => rw [hr] at h; simpa [Agree] using h
  | some w => rw [hr] at h; simpa [Agree, AdvT] using h.1

end PS.T
