/-
  Lemmas for C10 (model: PS/Model/Solver.lean).
  Part 1: what `_test_` computes when the evaluator is faithful to a semantics.
  Part 2: the generator machine, for an abstract test `T` that refines a verdict function.
-/
import PS.Model.Solver
set_option linter.unusedSimpArgs false
set_option linter.unusedSectionVars false
namespace PS.C10
open PS
open PS.C11 (Outcome)

variable {St P I V E : Type}

/-- the evaluator, from every state satisfying `Inv`, answers what `spec` says and stays in `Inv`
    (property C11 proves this for `DSLEvaluator.eval`, `Inv` = the cache holds compositional values) -/
structure Faithful (ev : Ev St P I V E) (spec : P → I → Outcome V E) (Inv : St → Prop) : Prop where
  eval_spec : ∀ st p i, Inv st → Inv (ev.eval st p i).1 ∧ (ev.eval st p i).2 = spec p i

theorem pureEv_eval (spec : P → I → Outcome V E) (u : Unit) (p : P) (i : I) :
    (pureEv spec).eval u p i = ((), spec p i) := rfl

theorem pureEv_faithful (spec : P → I → Outcome V E) : Faithful (pureEv spec) spec (fun _ => True) :=
  ⟨fun _ _ _ _ => ⟨trivial, rfl⟩⟩

/-! ## Part 1: tests -/
section tests
variable [DecidableEq V]

theorem matchesOut_raised (e : E) (o : V) : matchesOut (Outcome.raised e : Outcome V E) o = false := rfl

@[simp] theorem raisedOf_value (v : V) : raisedOf (Outcome.value v : Outcome V E) = none := rfl
@[simp] theorem raisedOf_skipped : raisedOf (Outcome.skipped : Outcome V E) = none := rfl
@[simp] theorem raisedOf_raised (e : E) : raisedOf (Outcome.raised e : Outcome V E) = some e := rfl

theorem raisedOf_of_matches {out : Outcome V E} {o : V} (h : matchesOut out o = true) :
    raisedOf out = none := by
  cases out <;> simp_all [matchesOut, raisedOf]

/-- the stateful naive loop computes what the stateless one computes, and keeps the invariant -/
theorem naiveLoop_faithful {ev : Ev St P I V E} {spec : P → I → Outcome V E} {Inv : St → Prop}
    (hF : Faithful ev spec Inv) (p : P) (exs : List (I × V)) :
    ∀ (st : St) (failed : Bool) (success : Nat), Inv st →
      Inv (naiveLoop ev p st exs failed success).1 ∧
      (naiveLoop ev p st exs failed success).2 = (naiveLoop (pureEv spec) p () exs failed success).2 := by
  induction exs with
  | nil => intro st failed success h; exact ⟨h, rfl⟩
  | cons ex rest ih =>
    intro st failed success h
    obtain ⟨h1, h2⟩ := hF.eval_spec st p ex.1 h
    unfold naiveLoop
    generalize hr : ev.eval st p ex.1 = r at h1 h2
    obtain ⟨st', out⟩ := r
    simp only at h1 h2
    subst h2
    simp only [pureEv_eval]
    cases hs : spec p ex.1 with
    | raised e => exact ⟨h1, rfl⟩
    | value v =>
      simp only
      split
      · exact ih st' failed (success + 1) h1
      · exact ih st' true success h1
    | skipped =>
      simp only
      split
      · exact ih st' failed (success + 1) h1
      · exact ih st' true success h1

/-- closed form of the stateless naive loop -/
theorem naiveLoop_pure (spec : P → I → Outcome V E) (p : P) (exs : List (I × V)) :
    ∀ (failed : Bool) (success : Nat),
      (naiveLoop (pureEv spec) p () exs failed success).2 =
        match exs.findSome? (fun ex => raisedOf (spec p ex.1)) with
        | some e => .error e
        | none => .ok (failed || !(exs.all (fun ex => matchesOut (spec p ex.1) ex.2)),
                       success + exs.countP (fun ex => matchesOut (spec p ex.1) ex.2)) := by
  induction exs with
  | nil => intro failed success; simp [naiveLoop]
  | cons ex rest ih =>
    intro failed success
    unfold naiveLoop
    simp only [pureEv_eval]
    cases hs : spec p ex.1 with
    | raised e => simp [List.findSome?, hs]
    | value v =>
      simp only [List.findSome?, hs, raisedOf_value, raisedOf_skipped]
      cases hm : matchesOut (Outcome.value v : Outcome V E) ex.2 with
      | true =>
        simp only [if_true]
        rw [ih]
        cases List.findSome? (fun ex => raisedOf (spec p ex.1)) rest with
        | some e => rfl
        | none => simp [List.countP_cons, hs, hm]; omega
      | false =>
        simp only [Bool.false_eq_true, if_false]
        rw [ih]
        cases List.findSome? (fun ex => raisedOf (spec p ex.1)) rest with
        | some e => rfl
        | none => simp [List.countP_cons, hs, hm]
    | skipped =>
      simp only [List.findSome?, hs, raisedOf_value, raisedOf_skipped]
      have hm : matchesOut (Outcome.skipped : Outcome V E) ex.2 = false := rfl
      simp only [hm, Bool.false_eq_true, if_false]
      rw [ih]
      cases List.findSome? (fun ex => raisedOf (spec p ex.1)) rest with
      | some e => rfl
      | none => simp [List.countP_cons, hs, hm]

theorem testNaive_faithful {ev : Ev St P I V E} {spec : P → I → Outcome V E} {Inv : St → Prop}
    (hF : Faithful ev spec Inv) (exs : List (I × V)) (st : St) (p : P) (h : Inv st) :
    Inv (testNaive ev exs st p).1 ∧
    (testNaive ev exs st p).2 = (testNaive (pureEv spec) exs () p).2 := by
  obtain ⟨h1, h2⟩ := naiveLoop_faithful hF p exs st false 0 h
  unfold testNaive
  generalize naiveLoop ev p st exs false 0 = r at h1 h2
  generalize naiveLoop (pureEv spec) p () exs false 0 = r' at h2
  obtain ⟨st', a⟩ := r
  obtain ⟨u, a'⟩ := r'
  simp only at h1 h2
  subst h2
  cases a with
  | error e => exact ⟨h1, rfl⟩
  | ok v => exact ⟨h1, rfl⟩

theorem testNaive_verdict (spec : P → I → Outcome V E) (exs : List (I × V)) (p : P) :
    (testNaive (pureEv spec) exs () p).2.map Prod.fst = verdict .naive spec exs p := by
  have h := naiveLoop_pure spec p exs false 0
  unfold testNaive verdict
  generalize naiveLoop (pureEv spec) p () exs false 0 = r at h
  obtain ⟨u, a⟩ := r
  simp only at h
  subst h
  cases hf : exs.findSome? (fun ex => raisedOf (spec p ex.1)) with
  | some e => simp [Except.map]
  | none => simp [Except.map, sat]

theorem cutoffLoop_faithful {ev : Ev St P I V E} {spec : P → I → Outcome V E} {Inv : St → Prop}
    (hF : Faithful ev spec Inv) (p : P) (total : Nat) (exs : List (I × V)) :
    ∀ (st : St) (n : Nat), Inv st →
      Inv (cutoffLoop ev p total st exs n).1 ∧
      (cutoffLoop ev p total st exs n).2 = (cutoffLoop (pureEv spec) p total () exs n).2 := by
  induction exs with
  | nil => intro st n h; exact ⟨h, rfl⟩
  | cons ex rest ih =>
    intro st n h
    obtain ⟨h1, h2⟩ := hF.eval_spec st p ex.1 h
    unfold cutoffLoop
    generalize hr : ev.eval st p ex.1 = r at h1 h2
    obtain ⟨st', out⟩ := r
    simp only at h1 h2
    subst h2
    simp only [pureEv_eval]
    cases hs : spec p ex.1 with
    | raised e => exact ⟨h1, rfl⟩
    | value v =>
      simp only
      split
      · exact ih st' (n + 1) h1
      · exact ⟨h1, rfl⟩
    | skipped =>
      simp only
      split
      · exact ih st' (n + 1) h1
      · exact ⟨h1, rfl⟩

theorem cutoffLoop_verdict (spec : P → I → Outcome V E) (p : P) (total : Nat) (exs : List (I × V)) :
    ∀ n : Nat, (cutoffLoop (pureEv spec) p total () exs n).2.map Prod.fst =
      match exs.find? (fun ex => !matchesOut (spec p ex.1) ex.2) with
      | none => .ok true
      | some ex =>
        match spec p ex.1 with
        | .raised e => .error e
        | _ => .ok false := by
  induction exs with
  | nil => intro n; simp [cutoffLoop, Except.map]
  | cons ex rest ih =>
    intro n
    unfold cutoffLoop
    simp only [pureEv_eval]
    cases hs : spec p ex.1 with
    | raised e => simp [List.find?, matchesOut, hs, Except.map]
    | value v =>
      by_cases hm : matchesOut (Outcome.value v : Outcome V E) ex.2 = true
      · simp only [hm, if_true, List.find?, hs, Bool.not_true]
        exact ih (n + 1)
      · simp [List.find?, hs, hm, Except.map]
    | skipped =>
      have hm : matchesOut (Outcome.skipped : Outcome V E) ex.2 = false := rfl
      simp [List.find?, hs, hm, Except.map]

theorem testCutoff_faithful {ev : Ev St P I V E} {spec : P → I → Outcome V E} {Inv : St → Prop}
    (hF : Faithful ev spec Inv) (exs : List (I × V)) (st : St) (p : P) (h : Inv st) :
    Inv (testCutoff ev exs st p).1 ∧
    (testCutoff ev exs st p).2 = (testCutoff (pureEv spec) exs () p).2 :=
  cutoffLoop_faithful hF p exs.length exs st 0 h

theorem testCutoff_verdict (spec : P → I → Outcome V E) (exs : List (I × V)) (p : P) :
    (testCutoff (pureEv spec) exs () p).2.map Prod.fst = verdict .cutoff spec exs p := by
  unfold testCutoff verdict
  exact cutoffLoop_verdict spec p exs.length exs 0

/-- **the test refines the verdict**: from a state satisfying the invariant, `_test_` returns
    (or raises) what `verdict` says, whatever the evaluator state, and keeps the invariant -/
theorem test_refines {ev : Ev St P I V E} {spec : P → I → Outcome V E} {Inv : St → Prop}
    (hF : Faithful ev spec Inv) (k : Kind) (exs : List (I × V)) (st : St) (p : P) (h : Inv st) :
    Inv (test k ev exs st p).1 ∧ (test k ev exs st p).2.map Prod.fst = verdict k spec exs p := by
  cases k with
  | naive =>
    obtain ⟨h1, h2⟩ := testNaive_faithful hF exs st p h
    exact ⟨h1, by simp only [test]; rw [h2]; exact testNaive_verdict spec exs p⟩
  | cutoff =>
    obtain ⟨h1, h2⟩ := testCutoff_faithful hF exs st p h
    exact ⟨h1, by simp only [test]; rw [h2]; exact testCutoff_verdict spec exs p⟩

/-- a verdict, when there is one, is "satisfies every example" -/
theorem verdict_ok (k : Kind) (spec : P → I → Outcome V E) (exs : List (I × V)) (p : P) (b : Bool)
    (h : verdict k spec exs p = .ok b) : b = sat spec exs p := by
  cases k with
  | naive =>
    unfold verdict at h
    simp only at h
    split at h
    · cases h
    · cases h; rfl
  | cutoff =>
    unfold verdict at h
    simp only at h
    split at h
    · next hf =>
      cases h
      rw [List.find?_eq_none] at hf
      symm
      simp only [sat, List.all_eq_true]
      intro ex hex
      simpa using hf ex hex
    · next ex hf =>
      have hmem := List.mem_of_find?_eq_some hf
      have hnm := List.find?_some hf
      have : sat spec exs p = false := by
        simp only [sat, List.all_eq_false]
        exact ⟨ex, hmem, by simpa using hnm⟩
      rw [this]
      split at h <;> cases h <;> rfl

/-- a program whose test raises does not satisfy the examples -/
theorem verdict_error (k : Kind) (spec : P → I → Outcome V E) (exs : List (I × V)) (p : P) (e : E)
    (h : verdict k spec exs p = .error e) : sat spec exs p = false := by
  cases k with
  | naive =>
    unfold verdict at h
    simp only at h
    split at h
    · next e' hf =>
      obtain ⟨ex, hmem, hr⟩ := List.exists_of_findSome?_eq_some hf
      simp only [sat, List.all_eq_false]
      refine ⟨ex, hmem, ?_⟩
      cases hs : spec p ex.1 <;> simp_all [raisedOf, matchesOut]
    · cases h
  | cutoff =>
    unfold verdict at h
    simp only at h
    split at h
    · cases h
    · next ex hf =>
      have hmem := List.mem_of_find?_eq_some hf
      have hnm := List.find?_some hf
      simp only [sat, List.all_eq_false]
      exact ⟨ex, hmem, by simpa using hnm⟩

/-- naive and cut-off: whenever the naive test reaches a verdict, the cut-off test reaches the same -/
theorem verdict_naive_cutoff (spec : P → I → Outcome V E) (exs : List (I × V)) (p : P) (b : Bool)
    (h : verdict .naive spec exs p = .ok b) : verdict .cutoff spec exs p = .ok b := by
  have hb := verdict_ok .naive spec exs p b h
  unfold verdict at h
  simp only at h
  split at h
  · cases h
  · next hnone =>
    rw [List.findSome?_eq_none_iff] at hnone
    cases hc : verdict .cutoff spec exs p with
    | ok b' => rw [verdict_ok .cutoff spec exs p b' hc, hb]
    | error e =>
      exfalso
      unfold verdict at hc
      simp only at hc
      split at hc
      · cases hc
      · next ex hf =>
        have hmem := List.mem_of_find?_eq_some hf
        have := hnone ex hmem
        cases hs : spec p ex.1 <;> simp_all [raisedOf]

/-- … and when the cut-off test accepts, the naive test accepts -/
theorem verdict_cutoff_naive_true (spec : P → I → Outcome V E) (exs : List (I × V)) (p : P)
    (h : verdict .cutoff spec exs p = .ok true) : verdict .naive spec exs p = .ok true := by
  have hs : sat spec exs p = true := (verdict_ok .cutoff spec exs p true h).symm
  cases hn : verdict .naive spec exs p with
  | ok b => rw [verdict_ok .naive spec exs p b hn, hs]
  | error e => rw [verdict_error .naive spec exs p e hn] at hs; cases hs

/-- once `failed` is set it stays set -/
theorem naiveLoop_failed_stays (ev : Ev St P I V E) (p : P) (exs : List (I × V)) :
    ∀ (st : St) (success n' : Nat), (naiveLoop ev p st exs true success).2 = .ok (false, n') → False := by
  induction exs with
  | nil => intro st success n' h; simp [naiveLoop] at h
  | cons ex rest ih =>
    intro st success n' h
    unfold naiveLoop at h
    generalize ev.eval st p ex.1 = r at h
    obtain ⟨st', out⟩ := r
    cases out with
    | raised e => cases h
    | value v =>
      simp only at h
      split at h
      · exact ih st' (success + 1) n' h
      · exact ih st' success n' h
    | skipped =>
      simp only at h
      split at h
      · exact ih st' (success + 1) n' h
      · exact ih st' success n' h

/-! ### scores -/

theorem naiveLoop_counts (ev : Ev St P I V E) (p : P) (exs : List (I × V)) :
    ∀ (st : St) (failed : Bool) (success : Nat) (f' : Bool) (n' : Nat),
      (naiveLoop ev p st exs failed success).2 = .ok (f', n') →
      success ≤ n' ∧ n' ≤ success + exs.length ∧ (f' = false → n' = success + exs.length) := by
  induction exs with
  | nil =>
    intro st failed success f' n' h
    simp only [naiveLoop] at h
    cases h
    simp
  | cons ex rest ih =>
    intro st failed success f' n' h
    unfold naiveLoop at h
    generalize ev.eval st p ex.1 = r at h
    obtain ⟨st', out⟩ := r
    cases out with
    | raised e => cases h
    | value v =>
      simp only at h
      split at h
      · obtain ⟨h1, h2, h3⟩ := ih st' failed (success + 1) f' n' h
        simp only [List.length_cons]
        exact ⟨by omega, by omega, fun hf => by have := h3 hf; omega⟩
      · obtain ⟨h1, h2, h3⟩ := ih st' true success f' n' h
        refine ⟨h1, by simp only [List.length_cons]; omega, ?_⟩
        intro hf
        -- `failed` was set: the flag cannot come back to False
        exfalso
        subst hf
        exact naiveLoop_failed_stays ev p rest st' success n' h
    | skipped =>
      simp only at h
      split at h
      · obtain ⟨h1, h2, h3⟩ := ih st' failed (success + 1) f' n' h
        simp only [List.length_cons]
        exact ⟨by omega, by omega, fun hf => by have := h3 hf; omega⟩
      · obtain ⟨h1, h2, h3⟩ := ih st' true success f' n' h
        refine ⟨h1, by simp only [List.length_cons]; omega, ?_⟩
        intro hf
        exfalso
        subst hf
        exact naiveLoop_failed_stays ev p rest st' success n' h

/-- the score of the naive test is a fraction in [0, 1], equal to 1 when the test accepts -/
theorem testNaive_score (ev : Ev St P I V E) (exs : List (I × V)) (st : St) (p : P) (b : Bool) (sc : Score)
    (h : (testNaive ev exs st p).2 = .ok (b, sc)) :
    0 < sc.den ∧ sc.num ≤ sc.den ∧ (b = true → sc.num = sc.den) := by
  unfold testNaive at h
  generalize hr : naiveLoop ev p st exs false 0 = r at h
  obtain ⟨st', a⟩ := r
  cases a with
  | error e => cases h
  | ok v =>
    obtain ⟨f', n'⟩ := v
    have hc := naiveLoop_counts ev p exs st false 0 f' n' (by rw [hr])
    simp only [Except.ok.injEq, Prod.mk.injEq] at h
    obtain ⟨hb, hsc⟩ := h
    subst hsc
    by_cases hl : exs.length = 0
    · simp [hl]
    · simp only [hl, if_false]
      refine ⟨by omega, by omega, ?_⟩
      intro hbt
      have : f' = false := by cases f' <;> simp_all
      have := hc.2.2 this
      omega

theorem cutoffLoop_score (ev : Ev St P I V E) (p : P) (total : Nat) (exs : List (I × V)) :
    ∀ (st : St) (n : Nat) (b : Bool) (sc : Score),
      (cutoffLoop ev p total st exs n).2 = .ok (b, sc) →
      (b = true ∧ sc = ⟨1, 1⟩) ∨ (b = false ∧ sc.den = total ∧ n ≤ sc.num ∧ sc.num < n + exs.length) := by
  induction exs with
  | nil =>
    intro st n b sc h
    simp only [cutoffLoop, Except.ok.injEq, Prod.mk.injEq] at h
    exact Or.inl ⟨h.1.symm, h.2.symm⟩
  | cons ex rest ih =>
    intro st n b sc h
    unfold cutoffLoop at h
    generalize ev.eval st p ex.1 = r at h
    obtain ⟨st', out⟩ := r
    cases out with
    | raised e => cases h
    | value v =>
      simp only at h
      split at h
      · rcases ih st' (n + 1) b sc h with h' | ⟨h1, h2, h3, h4⟩
        · exact Or.inl h'
        · exact Or.inr ⟨h1, h2, by omega, by simp only [List.length_cons]; omega⟩
      · simp only [Except.ok.injEq, Prod.mk.injEq] at h
        obtain ⟨hb, hsc⟩ := h
        subst hsc
        exact Or.inr ⟨hb.symm, rfl, Nat.le_refl _, by simp⟩
    | skipped =>
      simp only at h
      split at h
      · rcases ih st' (n + 1) b sc h with h' | ⟨h1, h2, h3, h4⟩
        · exact Or.inl h'
        · exact Or.inr ⟨h1, h2, by omega, by simp only [List.length_cons]; omega⟩
      · simp only [Except.ok.injEq, Prod.mk.injEq] at h
        obtain ⟨hb, hsc⟩ := h
        subst hsc
        exact Or.inr ⟨hb.symm, rfl, Nat.le_refl _, by simp⟩

theorem testCutoff_score (ev : Ev St P I V E) (exs : List (I × V)) (st : St) (p : P) (b : Bool) (sc : Score)
    (h : (testCutoff ev exs st p).2 = .ok (b, sc)) :
    0 < sc.den ∧ sc.num ≤ sc.den ∧ (b = true → sc.num = sc.den) := by
  rcases cutoffLoop_score ev p exs.length exs st 0 b sc h with ⟨hb, hsc⟩ | ⟨hb, h2, h3, h4⟩
  · subst hsc; simp
  · refine ⟨by omega, by omega, ?_⟩
    intro hbt; rw [hb] at hbt; cases hbt

end tests

/-! ## Part 2: the generator machine -/
section machine

/-- `T` (the solver's `_test_`) refines the verdict function `vd` under the evaluator invariant -/
def Refines (T : St → P → St × Except E (Bool × Score)) (vd : P → Except E Bool) (Inv : St → Prop) : Prop :=
  ∀ st p, Inv st → Inv (T st p).1 ∧ (T st p).2.map Prod.fst = vd p

/-- verdicts are about `sats` -/
def VerdictSound (vd : P → Except E Bool) (sats : P → Bool) : Prop :=
  (∀ p b, vd p = .ok b → b = sats p) ∧ (∀ p e, vd p = .error e → sats p = false)

variable {T : St → P → St × Except E (Bool × Score)} {vd : P → Except E Bool} {sats : P → Bool}
  {Inv : St → Prop}

/-- one iteration of the loop, by cases -/
theorem advance_cons (s : Solver P) (st : St) (p : P) (rest : List P) (dl : List Bool) :
    advance T s st (p :: rest) dl =
      if deadlinePassed dl then .finished .timeout (closeTask s p) st
      else match T st p with
        | (st', .error e) => .finished (.raised e) { s with programs := s.programs + 1 } st'
        | (st', .ok (ok, sc)) =>
          if ok then .yielded ⟨p, rest, dl.tail⟩ { s with programs := s.programs + 1, score := some sc } st'
          else advance T { s with programs := s.programs + 1, score := some sc } st' rest dl.tail := by
  rw [advance]; rfl

theorem drive_finished (r : Stop E) (s : Solver P) (st : St) (as : List Bool) :
    drive T (.finished r s st) as = ⟨[], .finished r, s, st⟩ := by
  cases as <;> rfl

/-- what one step of the loop looks like, given the refinement -/
theorem step_cases (hT : Refines T vd Inv) (st : St) (p : P) (hst : Inv st) :
    (∃ st' e, T st p = (st', .error e) ∧ vd p = .error e ∧ Inv st') ∨
    (∃ st' b sc, T st p = (st', .ok (b, sc)) ∧ vd p = .ok b ∧ Inv st') := by
  obtain ⟨h1, h2⟩ := hT st p hst
  generalize T st p = r at h1 h2
  obtain ⟨st', a⟩ := r
  cases a with
  | error e => exact Or.inl ⟨st', e, rfl, by simpa [Except.map] using h2.symm, h1⟩
  | ok v =>
    obtain ⟨b, sc⟩ := v
    exact Or.inr ⟨st', b, sc, rfl, by simpa [Except.map] using h2.symm, h1⟩

/-- **yields** -/
theorem yields_spec (hT : Refines T vd Inv) (hv : VerdictSound vd sats) (es : List P) :
    ∀ (s : Solver P) (st : St) (dl as : List Bool), Inv st →
      (drive T (advance T s st es dl) as).yielded = specYields vd sats es dl as := by
  induction es with
  | nil => intro s st dl as _; simp [advance, drive_finished, specYields, horizon, upToAccepted]
  | cons p rest ih =>
    intro s st dl as hst
    rw [advance_cons]
    by_cases hd : deadlinePassed dl = true
    · simp [hd, drive_finished, specYields, horizon, upToAccepted]
    · simp only [hd, if_false, Bool.false_eq_true]
      rcases step_cases hT st p hst with ⟨st', e, hT', hvd, hinv⟩ | ⟨st', b, sc, hT', hvd, hinv⟩
      · simp [hT', drive_finished, specYields, horizon, hd, hvd, upToAccepted]
      · have hb := hv.1 p b hvd
        simp only [hT']
        cases b with
        | false =>
          simp only [Bool.false_eq_true, if_false]
          rw [ih _ st' dl.tail as hinv]
          simp [specYields, horizon, hd, hvd, List.take_succ_cons, List.filter_cons, ← hb, Nat.add_comm 1]
        | true =>
          simp only [if_true]
          have hspec : ∀ as', specYields vd sats (p :: rest) dl as' =
              upToAccepted (p :: (rest.take (horizon vd rest dl.tail)).filter sats) as' := by
            intro as'
            simp [specYields, horizon, hd, hvd, List.take_succ_cons, List.filter_cons, ← hb, Nat.add_comm 1]
          rw [hspec]
          cases as with
          | nil => simp [drive, upToAccepted]
          | cons a as' =>
            cases a with
            | true => simp [drive, send, drive_finished, upToAccepted]
            | false =>
              simp only [drive, send, Bool.false_eq_true, if_false, upToAccepted]
              rw [ih _ st' dl.tail as' hinv]
              rfl

/-- the evaluator invariant survives a whole run -/
theorem run_inv (hT : Refines T vd Inv) (es : List P) :
    ∀ (s : Solver P) (st : St) (dl as : List Bool), Inv st →
      Inv (drive T (advance T s st es dl) as).st := by
  induction es with
  | nil => intro s st dl as h; simpa [advance, drive_finished] using h
  | cons p rest ih =>
    intro s st dl as hst
    rw [advance_cons]
    by_cases hd : deadlinePassed dl = true
    · simpa [hd, drive_finished] using hst
    · simp only [hd, if_false, Bool.false_eq_true]
      rcases step_cases hT st p hst with ⟨st', e, hT', hvd, hinv⟩ | ⟨st', b, sc, hT', hvd, hinv⟩
      · simpa [hT', drive_finished] using hinv
      · simp only [hT']
        cases b with
        | false => simpa using ih _ st' dl.tail as hinv
        | true =>
          simp only [if_true]
          cases as with
          | nil => simpa [drive] using hinv
          | cons a as' =>
            cases a with
            | true => simpa [drive, send, drive_finished] using hinv
            | false => simpa [drive, send] using ih _ st' dl.tail as' hinv

/-- **accepted run**: the accepted program is `es[pre.length]`, everything satisfying before it was
    yielded, and the statistics grew by its rank -/
theorem accepted_spec (hT : Refines T vd Inv) (hv : VerdictSound vd sats) (es : List P) :
    ∀ (s : Solver P) (st : St) (dl as : List Bool), Inv st →
      (drive T (advance T s st es dl) as).status = .finished .accepted →
      ∃ pre p post, es = pre ++ p :: post ∧ sats p = true ∧
        (drive T (advance T s st es dl) as).yielded = pre.filter sats ++ [p] ∧
        (drive T (advance T s st es dl) as).solver.statsPrograms = s.statsPrograms + s.programs + pre.length + 1 ∧
        (drive T (advance T s st es dl) as).solver.statsLast = some p ∧
        (drive T (advance T s st es dl) as).solver.statsCloses = s.statsCloses + 1 ∧
        (drive T (advance T s st es dl) as).solver.programs = s.programs + pre.length + 1 := by
  induction es with
  | nil => intro s st dl as _ h; simp [advance, drive_finished] at h
  | cons p rest ih =>
    intro s st dl as hst
    rw [advance_cons]
    by_cases hd : deadlinePassed dl = true
    · simp [hd, drive_finished]
    · simp only [hd, if_false, Bool.false_eq_true]
      rcases step_cases hT st p hst with ⟨st', e, hT', hvd, hinv⟩ | ⟨st', b, sc, hT', hvd, hinv⟩
      · simp [hT', drive_finished]
      · have hb := hv.1 p b hvd
        simp only [hT']
        cases b with
        | false =>
          simp only [Bool.false_eq_true, if_false]
          intro h
          obtain ⟨pre, q, post, he, hq, hy, h1, h2, h3, h4⟩ := ih _ st' dl.tail as hinv h
          refine ⟨p :: pre, q, post, by simp [he], hq, ?_, ?_, h2, ?_, ?_⟩
          · rw [hy]; simp [List.filter_cons, ← hb]
          · rw [h1]; simp; omega
          · rw [h3]
          · rw [h4]; simp; omega
        | true =>
          simp only [if_true]
          cases as with
          | nil => simp [drive]
          | cons a as' =>
            cases a with
            | true =>
              intro _
              refine ⟨[], p, rest, rfl, hb.symm, ?_, ?_, ?_, ?_, ?_⟩ <;>
                simp [drive, send, drive_finished, closeTask]
              omega
            | false =>
              simp only [drive, send, Bool.false_eq_true, if_false]
              intro h
              obtain ⟨pre, q, post, he, hq, hy, h1, h2, h3, h4⟩ := ih _ st' dl.tail as' hinv h
              refine ⟨p :: pre, q, post, by simp [he], hq, ?_, ?_, h2, ?_, ?_⟩
              · rw [hy]; simp [List.filter_cons, ← hb]
              · rw [h1]; simp; omega
              · rw [h3]
              · rw [h4]; simp; omega

/-- **exhausted run**: every satisfying program was yielded; no bookkeeping -/
theorem exhausted_spec (hT : Refines T vd Inv) (hv : VerdictSound vd sats) (es : List P) :
    ∀ (s : Solver P) (st : St) (dl as : List Bool), Inv st →
      (drive T (advance T s st es dl) as).status = .finished .exhausted →
        (drive T (advance T s st es dl) as).yielded = es.filter sats ∧
        (drive T (advance T s st es dl) as).solver.statsPrograms = s.statsPrograms ∧
        (drive T (advance T s st es dl) as).solver.statsLast = s.statsLast ∧
        (drive T (advance T s st es dl) as).solver.statsCloses = s.statsCloses ∧
        (drive T (advance T s st es dl) as).solver.programs = s.programs + es.length := by
  induction es with
  | nil => intro s st dl as _ _; simp [advance, drive_finished]
  | cons p rest ih =>
    intro s st dl as hst
    rw [advance_cons]
    by_cases hd : deadlinePassed dl = true
    · simp [hd, drive_finished]
    · simp only [hd, if_false, Bool.false_eq_true]
      rcases step_cases hT st p hst with ⟨st', e, hT', hvd, hinv⟩ | ⟨st', b, sc, hT', hvd, hinv⟩
      · simp [hT', drive_finished]
      · have hb := hv.1 p b hvd
        simp only [hT']
        cases b with
        | false =>
          simp only [Bool.false_eq_true, if_false]
          intro h
          obtain ⟨hy, h1, h2, h3, h4⟩ := ih _ st' dl.tail as hinv h
          refine ⟨?_, h1, h2, h3, ?_⟩
          · rw [hy]; simp [List.filter_cons, ← hb]
          · rw [h4]; simp; omega
        | true =>
          simp only [if_true]
          cases as with
          | nil => simp [drive]
          | cons a as' =>
            cases a with
            | true => simp [drive, send, drive_finished]
            | false =>
              simp only [drive, send, Bool.false_eq_true, if_false]
              intro h
              obtain ⟨hy, h1, h2, h3, h4⟩ := ih _ st' dl.tail as' hinv h
              refine ⟨?_, h1, h2, h3, ?_⟩
              · rw [hy]; simp [List.filter_cons, ← hb]
              · rw [h4]; simp; omega

/-- **timed-out run**: the deadline struck before `es[pre.length]`; what satisfied before was
    yielded (and answered False); the statistics grew by the number of programs tested -/
theorem timeout_spec (hT : Refines T vd Inv) (hv : VerdictSound vd sats) (es : List P) :
    ∀ (s : Solver P) (st : St) (dl as : List Bool), Inv st →
      (drive T (advance T s st es dl) as).status = .finished .timeout →
      ∃ pre p post, es = pre ++ p :: post ∧
        (drive T (advance T s st es dl) as).yielded = pre.filter sats ∧
        (drive T (advance T s st es dl) as).solver.statsPrograms = s.statsPrograms + s.programs + pre.length ∧
        (drive T (advance T s st es dl) as).solver.statsLast = some p ∧
        (drive T (advance T s st es dl) as).solver.programs = s.programs + pre.length := by
  induction es with
  | nil => intro s st dl as _ h; simp [advance, drive_finished] at h
  | cons p rest ih =>
    intro s st dl as hst
    rw [advance_cons]
    by_cases hd : deadlinePassed dl = true
    · intro _
      exact ⟨[], p, rest, rfl, by simp [hd, drive_finished, closeTask]⟩
    · simp only [hd, if_false, Bool.false_eq_true]
      rcases step_cases hT st p hst with ⟨st', e, hT', hvd, hinv⟩ | ⟨st', b, sc, hT', hvd, hinv⟩
      · simp [hT', drive_finished]
      · have hb := hv.1 p b hvd
        simp only [hT']
        cases b with
        | false =>
          simp only [Bool.false_eq_true, if_false]
          intro h
          obtain ⟨pre, q, post, he, hy, h1, h2, h4⟩ := ih _ st' dl.tail as hinv h
          refine ⟨p :: pre, q, post, by simp [he], ?_, ?_, h2, ?_⟩
          · rw [hy]; simp [List.filter_cons, ← hb]
          · rw [h1]; simp; omega
          · rw [h4]; simp; omega
        | true =>
          simp only [if_true]
          cases as with
          | nil => simp [drive]
          | cons a as' =>
            cases a with
            | true => simp [drive, send, drive_finished]
            | false =>
              simp only [drive, send, Bool.false_eq_true, if_false]
              intro h
              obtain ⟨pre, q, post, he, hy, h1, h2, h4⟩ := ih _ st' dl.tail as' hinv h
              refine ⟨p :: pre, q, post, by simp [he], ?_, ?_, h2, ?_⟩
              · rw [hy]; simp [List.filter_cons, ← hb]
              · rw [h1]; simp; omega
              · rw [h4]; simp; omega

/-- **never skips**: a satisfying program at a position the counter `_programs` has passed was yielded -/
theorem never_skips_spec (hT : Refines T vd Inv) (hv : VerdictSound vd sats) (es : List P) :
    ∀ (s : Solver P) (st : St) (dl as : List Bool), Inv st →
      ∀ pre q post, es = pre ++ q :: post → sats q = true →
        s.programs + pre.length < (drive T (advance T s st es dl) as).solver.programs →
        q ∈ (drive T (advance T s st es dl) as).yielded := by
  induction es with
  | nil => intro s st dl as _ pre q post he; simp at he
  | cons p rest ih =>
    intro s st dl as hst pre q post he hq
    rw [advance_cons]
    by_cases hd : deadlinePassed dl = true
    · simp [hd, drive_finished, closeTask]
    · simp only [hd, if_false, Bool.false_eq_true]
      rcases step_cases hT st p hst with ⟨st', e, hT', hvd, hinv⟩ | ⟨st', b, sc, hT', hvd, hinv⟩
      · simp only [hT', drive_finished]
        intro hlt
        have hpre : pre = [] := by
          cases pre with
          | nil => rfl
          | cons x xs => simp at hlt
        subst hpre
        simp at he
        rw [← he.1, hv.2 p e hvd] at hq
        cases hq
      · have hb := hv.1 p b hvd
        simp only [hT']
        cases pre with
        | nil =>
          simp at he
          rw [← he.1] at hq ⊢
          rw [hq] at hb
          subst hb
          simp only [if_true]
          cases as with
          | nil => simp [drive]
          | cons a as' => simp [drive]
        | cons x pre' =>
          simp at he
          obtain ⟨hx, hrest⟩ := he
          cases b with
          | false =>
            simp only [Bool.false_eq_true, if_false]
            intro hlt
            exact ih _ st' dl.tail as hinv pre' q post hrest hq (by simp at hlt ⊢; omega)
          | true =>
            simp only [if_true]
            cases as with
            | nil => simp [drive]
            | cons a as' =>
              cases a with
              | true => simp [drive, send, drive_finished, closeTask]
              | false =>
                simp only [drive, send, Bool.false_eq_true, if_false]
                intro hlt
                exact List.mem_cons_of_mem _
                  (ih _ st' dl.tail as' hinv pre' q post hrest hq (by simp at hlt ⊢; omega))

/-- **first yield**: if the programs of `pre` are rejected, `p` is accepted by the test and the clock
    does not strike, the generator is suspended at `p` with exactly `post` left to enumerate -/
theorem advance_to_yield (hT : Refines T vd Inv) (p : P) (post : List P) (hp : vd p = .ok true) (pre : List P) :
    ∀ (s : Solver P) (st : St) (dl : List Bool), Inv st →
      (∀ q ∈ pre, vd q = .ok false) → (∀ b ∈ dl.take (pre.length + 1), b = false) →
      ∃ s' st', advance T s st (pre ++ p :: post) dl = .yielded ⟨p, post, dl.drop (pre.length + 1)⟩ s' st' ∧
        s'.programs = s.programs + pre.length + 1 ∧ s'.statsPrograms = s.statsPrograms ∧
        s'.statsLast = s.statsLast ∧ s'.statsCloses = s.statsCloses ∧ Inv st' := by
  induction pre with
  | nil =>
    intro s st dl hst _ hdl
    have hd : deadlinePassed dl = false := by
      cases dl with
      | nil => rfl
      | cons b r => exact hdl b (by simp)
    simp only [List.nil_append, advance_cons, hd, Bool.false_eq_true, if_false]
    rcases step_cases hT st p hst with ⟨st', e, hT', hvd, hinv⟩ | ⟨st', b, sc, hT', hvd, hinv⟩
    · rw [hp] at hvd; cases hvd
    · rw [hp] at hvd; cases hvd
      simp only [hT', if_true]
      refine ⟨{ s with programs := s.programs + 1, score := some sc }, st', ?_, by simp, rfl, rfl, rfl, hinv⟩
      cases dl <;> rfl
  | cons x pre' ih =>
    intro s st dl hst hpre hdl
    have hd : deadlinePassed dl = false := by
      cases dl with
      | nil => rfl
      | cons b r => exact hdl b (by simp)
    simp only [List.cons_append, advance_cons, hd, Bool.false_eq_true, if_false]
    rcases step_cases hT st x hst with ⟨st', e, hT', hvd, hinv⟩ | ⟨st', b, sc, hT', hvd, hinv⟩
    · rw [hpre x (by simp)] at hvd; cases hvd
    · rw [hpre x (by simp)] at hvd; cases hvd
      simp only [hT', Bool.false_eq_true, if_false]
      have hdl' : ∀ b ∈ dl.tail.take (pre'.length + 1), b = false := by
        intro b hb
        cases dl with
        | nil => simp at hb
        | cons c r => exact hdl b (by simp at hb ⊢; exact Or.inr hb)
      obtain ⟨s', st'', h1, h2, h3, h4, h5, h6⟩ :=
        ih { s with programs := s.programs + 1, score := some sc } st' dl.tail hinv
          (fun q hq => hpre q (by simp [hq])) hdl'
      refine ⟨s', st'', ?_, ?_, h3, h4, h5, h6⟩
      · rw [h1]; cases dl <;> simp
      · rw [h2]; simp; omega

/-- two solvers whose tests reach the same verdicts on the programs of `es` behave alike
    (yields, end state, counters) — whatever their evaluator states and scores -/
theorem runs_agree {St₂ : Type} {T₂ : St₂ → P → St₂ × Except E (Bool × Score)} {vd₂ : P → Except E Bool}
    {Inv₂ : St₂ → Prop} (hT : Refines T vd Inv) (hT₂ : Refines T₂ vd₂ Inv₂) (es : List P) :
    (∀ p ∈ es, vd p = vd₂ p) →
    ∀ (s s₂ : Solver P) (st : St) (st₂ : St₂) (dl as : List Bool), Inv st → Inv₂ st₂ →
      s.statsPrograms = s₂.statsPrograms → s.statsLast = s₂.statsLast → s.statsCloses = s₂.statsCloses →
      s.programs = s₂.programs →
      (drive T (advance T s st es dl) as).yielded = (drive T₂ (advance T₂ s₂ st₂ es dl) as).yielded ∧
      (drive T (advance T s st es dl) as).status = (drive T₂ (advance T₂ s₂ st₂ es dl) as).status ∧
      (drive T (advance T s st es dl) as).solver.statsPrograms = (drive T₂ (advance T₂ s₂ st₂ es dl) as).solver.statsPrograms ∧
      (drive T (advance T s st es dl) as).solver.statsLast = (drive T₂ (advance T₂ s₂ st₂ es dl) as).solver.statsLast ∧
      (drive T (advance T s st es dl) as).solver.statsCloses = (drive T₂ (advance T₂ s₂ st₂ es dl) as).solver.statsCloses ∧
      (drive T (advance T s st es dl) as).solver.programs = (drive T₂ (advance T₂ s₂ st₂ es dl) as).solver.programs := by
  induction es with
  | nil => intro _ s s₂ st st₂ dl as _ _ h1 h2 h3 h4; simp [advance, drive_finished, h1, h2, h3, h4]
  | cons p rest ih =>
    intro hag s s₂ st st₂ dl as hst hst₂ h1 h2 h3 h4
    have hag' : ∀ q ∈ rest, vd q = vd₂ q := fun q hq => hag q (by simp [hq])
    rw [advance_cons, advance_cons]
    by_cases hd : deadlinePassed dl = true
    · simp [hd, drive_finished, closeTask, h1, h2, h3, h4]
    · simp only [hd, if_false, Bool.false_eq_true]
      have hvp := hag p (by simp)
      rcases step_cases hT st p hst with ⟨st', e, hT', hvd, hinv⟩ | ⟨st', b, sc, hT', hvd, hinv⟩
      · rcases step_cases hT₂ st₂ p hst₂ with ⟨st₂', e₂, hT₂', hvd₂, hinv₂⟩ | ⟨st₂', b₂, sc₂, hT₂', hvd₂, hinv₂⟩
        · rw [hvd, hvd₂] at hvp; cases hvp
          simp [hT', hT₂', drive_finished, h1, h2, h3, h4]
        · rw [hvd, hvd₂] at hvp; cases hvp
      · rcases step_cases hT₂ st₂ p hst₂ with ⟨st₂', e₂, hT₂', hvd₂, hinv₂⟩ | ⟨st₂', b₂, sc₂, hT₂', hvd₂, hinv₂⟩
        · rw [hvd, hvd₂] at hvp; cases hvp
        · rw [hvd, hvd₂] at hvp; cases hvp
          simp only [hT', hT₂']
          cases b with
          | false =>
            simp only [Bool.false_eq_true, if_false]
            exact ih hag' _ _ st' st₂' dl.tail as hinv hinv₂ h1 h2 h3 (by simp [h4])
          | true =>
            simp only [if_true]
            cases as with
            | nil => simp [drive, h1, h2, h3, h4]
            | cons a as' =>
              cases a with
              | true => simp [drive, send, drive_finished, closeTask, h1, h2, h3, h4]
              | false =>
                simp only [drive, send, Bool.false_eq_true, if_false]
                obtain ⟨g1, g2, g3, g4, g5, g6⟩ :=
                  ih hag' { s with programs := s.programs + 1, score := some sc }
                    { s₂ with programs := s₂.programs + 1, score := some sc₂ } st' st₂' dl.tail as' hinv hinv₂
                    h1 h2 h3 (by simp [h4])
                exact ⟨by rw [g1], g2, g3, g4, g5, g6⟩

end machine

/-! ## Part 3: glue -/
section glue
variable [DecidableEq V]

theorem refines_of_faithful {ev : Ev St P I V E} {spec : P → I → Outcome V E} {Inv : St → Prop}
    (hF : Faithful ev spec Inv) (k : Kind) (exs : List (I × V)) :
    Refines (test k ev exs) (verdict k spec exs) Inv ∧ VerdictSound (verdict k spec exs) (sat spec exs) :=
  ⟨fun st p h => test_refines hF k exs st p h,
   ⟨fun p b h => verdict_ok k spec exs p b h, fun p e h => verdict_error k spec exs p e h⟩⟩

omit [DecidableEq V] in
theorem upToAccepted_sublist (l : List P) (as : List Bool) : ∀ p ∈ upToAccepted l as, p ∈ l := by
  induction l generalizing as with
  | nil => intro p h; simp [upToAccepted] at h
  | cons x xs ih =>
    intro p h
    cases as with
    | nil => simp [upToAccepted] at h; simp [h]
    | cons a as' =>
      cases a with
      | true => simp [upToAccepted] at h; simp [h]
      | false =>
        simp only [upToAccepted, List.mem_cons] at h
        rcases h with h | h
        · simp [h]
        · exact List.mem_cons_of_mem _ (ih as' p h)

end glue

end PS.C10
