/-
  C04, counting for unambiguous grammars (`ProbUGrammar.programs()` = `UCFG.programs()`), any
  number of start symbols.
  * `count_langU`   on a finite grammar (`boundedU`) the enumeration `langU G k nt` lists every
                    term as many times as it has derivations from `nt`
  * `langAll`       the enumeration from all start symbols: the number of occurrences of `t` is
                    the number of (start symbol, derivation) pairs of `t`; for an unambiguous
                    grammar it is a duplicate-free list of exactly the language
  * `probU_sum_one_starts`  the statement's probabilities (start weight × rule weights) sum to 1
                    over the language, several start symbols
-/
import PS.Proofs.UMass
import PS.Proofs.UOps
import PS.Proofs.Ucfg
namespace PS.U.Cnt
open PS PS.G PS.U PS.U.Mass

variable {U : Type} [DecidableEq U]
set_option linter.unusedSectionVars false

/-! ### counting occurrences -/

theorem count_map_node (f g : Sym) (ks : List Prog) (l : List (List Prog)) :
    (l.map (fun k => (Tree.node g k : Prog))).count (Tree.node f ks) = if g = f then l.count ks else 0 := by
  induction l with
  | nil => simp
  | cons x xs ih =>
    rw [List.map_cons, List.count_cons, List.count_cons, ih]
    by_cases hg : g = f
    · subst hg
      by_cases hx : x = ks
      · subst hx; simp
      · have : ¬ (Tree.node g x : Prog) = Tree.node g ks := fun e => hx (Tree.node.inj e).2
        simp [hx, this]
    · have : ¬ (Tree.node g x : Prog) = Tree.node f ks := fun e => hg (Tree.node.inj e).1
      simp [hg, this]

/-- occurrences of a list of children in a product of enumerations -/
def pc : List Prog → List (List Prog) → Nat
  | [], [] => 1
  | [], _ :: _ => 0
  | _ :: _, [] => 0
  | k :: ks, l :: ls => l.count k * pc ks ls

theorem count_map_cons (x k : Prog) (ks : List Prog) (l : List (List Prog)) :
    (l.map (fun r => x :: r)).count (k :: ks) = if x = k then l.count ks else 0 := by
  induction l with
  | nil => simp
  | cons y ys ih =>
    rw [List.map_cons, List.count_cons, List.count_cons, ih]
    by_cases hx : x = k
    · subst hx
      by_cases hy : y = ks
      · subst hy; simp
      · have : ¬ (x :: y) = x :: ks := fun e => hy (List.cons.inj e).2
        simp [hy, this]
    · have : ¬ (x :: y) = k :: ks := fun e => hx (List.cons.inj e).1
      simp [hx, this]

theorem sum_map_if_eq (l : List Prog) (k : Prog) (c : Nat) :
    (l.map (fun x => if x = k then c else 0)).sum = l.count k * c := by
  induction l with
  | nil => simp
  | cons x xs ih =>
    rw [List.map_cons, List.sum_cons, ih, List.count_cons]
    by_cases h : x = k
    · simp [h, Nat.add_mul, Nat.add_comm]
    · simp [h]

theorem count_product : ∀ (ks : List Prog) (ls : List (List Prog)), (product ls).count ks = pc ks ls
  | [], [] => by simp [product, pc]
  | k :: ks, [] => by simp [product, pc]
  | [], l :: ls => by
    rw [product, pc, List.count_flatMap]
    apply FD_sum_zero
    intro x _
    simp only [Function.comp]
    rw [List.count_eq_zero]
    intro h
    obtain ⟨r, _, e⟩ := List.mem_map.mp h
    cases e
  | k :: ks, l :: ls => by
    rw [product, pc, List.count_flatMap]
    have : (l.map (List.count (k :: ks) ∘ fun x => (product ls).map (fun r => x :: r))) =
        l.map (fun x => if x = k then pc ks ls else 0) := by
      apply List.map_congr_left
      intro x _
      simp only [Function.comp]
      rw [count_map_cons, count_product ks ls]
    rw [this, sum_map_if_eq]
where
  FD_sum_zero {α : Type} (l : List α) (g : α → Nat) (h : ∀ x ∈ l, g x = 0) : (l.map g).sum = 0 := by
    induction l with
    | nil => rfl
    | cons x xs ih =>
      simp only [List.map_cons, List.sum_cons, h x (by simp), ih (fun y hy => h y (by simp [hy]))]

/-! ### derivation counts -/

theorem length_flatMap_const {α β γ : Type} (l : List α) (m : List β) (c : α → β → γ) :
    (l.flatMap (fun a => m.map (c a))).length = l.length * m.length := by
  induction l with
  | nil => simp
  | cons x xs ih => simp [ih, Nat.add_mul, Nat.add_comm]

theorem length_flatMap_map {α β γ : Type} (l : List α) (g : α → List β) (c : α → β → γ) :
    (l.flatMap (fun a => (g a).map (c a))).length = (l.map (fun a => (g a).length)).sum := by
  induction l with
  | nil => rfl
  | cons x xs ih => simp [ih]

/-- number of joint derivations of a list of children from a list of non-terminals -/
theorem derivsList_length (G : UCFG U) (L : UNT U → List Prog) :
    ∀ (ks : List Prog) (as : List (UNT U)),
      (∀ a ∈ as, ∀ t, (L a).count t = (derivs G t a).length) →
      (derivsList G ks as).length = pc ks (as.map L)
  | [], [], _ => by simp [derivsList, pc]
  | [], a :: as, _ => by simp [derivsList, pc]
  | k :: ks, [], _ => by simp [derivsList, pc]
  | k :: ks, a :: as, h => by
    rw [derivsList, length_flatMap_const, List.map_cons, pc, h a (by simp) k,
      derivsList_length G L ks as (fun x hx => h x (by simp [hx]))]

theorem sum_lookup {ν : Type} (rs : AList Sym ν) (hn : (AList.keys rs).Nodup) (f : Sym) (g : ν → Nat) :
    (rs.map (fun r => if r.1 = f then g r.2 else 0)).sum =
      match AList.lookup f rs with
      | some v => g v
      | none => 0 := by
  induction rs with
  | nil => rfl
  | cons r rs ih =>
    obtain ⟨f', v⟩ := r
    simp only [AList.keys, List.map_cons, List.nodup_cons] at hn
    simp only [List.map_cons, List.sum_cons, AList.lookup]
    by_cases h : f' = f
    · subst h
      simp only [if_true]
      have hz : (rs.map (fun r => if r.1 = f' then g r.2 else 0)).sum = 0 := by
        apply count_product.FD_sum_zero
        intro x hx
        have : ¬ x.1 = f' := fun e => hn.1 (List.mem_map.mpr ⟨x, hx, e⟩)
        simp [this]
      omega
    · simp only [h, if_false, Nat.zero_add]
      exact ih hn.2

/-- **the enumeration counts derivations**: on a non-terminal all of whose derivations finish
    within `k` levels, every term occurs in `langU G k nt` as many times as it has derivations -/
theorem count_langU (G : UCFG U)
    (hr : ∀ nt rs, AList.lookup nt G.rules = some rs → (AList.keys rs).Nodup) :
    ∀ (k : Nat) (nt : UNT U) (t : Prog), boundedU G k nt = true →
      (langU G k nt).count t = (derivs G t nt).length := by
  intro k
  induction k with
  | zero => intro nt t h; simp [boundedU] at h
  | succ k ih =>
    intro nt t hb
    obtain ⟨f, kids⟩ := t
    rw [boundedU] at hb
    rw [langU, derivs]
    unfold UCFG.alts?
    cases hl : AList.lookup nt G.rules with
    | none => rw [hl] at hb; cases hb
    | some rs =>
      rw [hl] at hb
      simp only [List.all_eq_true] at hb
      simp only
      rw [List.count_flatMap]
      have h1 : rs.map (List.count (Tree.node f kids) ∘ fun r => r.2.flatMap (fun args =>
            (product (args.map (fun a => langU G k a))).map (fun kids => Tree.node r.1 kids))) =
          rs.map (fun r => if r.1 = f then
            (r.2.map (fun args => (derivsList G kids args).length)).sum else 0) := by
        apply List.map_congr_left
        intro r hrm
        simp only [Function.comp]
        rw [List.count_flatMap]
        by_cases hf : r.1 = f
        · rw [if_pos hf]
          congr 1
          apply List.map_congr_left
          intro args hargs
          simp only [Function.comp]
          rw [count_map_node, if_pos hf, count_product]
          symm
          exact derivsList_length G (fun a => langU G k a) kids args
            (fun a ha t => ih a t (hb r hrm args hargs a ha))
        · rw [if_neg hf]
          apply count_product.FD_sum_zero
          intro args _
          simp only [Function.comp]
          rw [count_map_node, if_neg hf]
      rw [h1, sum_lookup rs (hr nt rs hl) f
        (fun alts => (alts.map (fun args => (derivsList G kids args).length)).sum)]
      cases AList.lookup f rs with
      | none => rfl
      | some cands => simp only; rw [length_flatMap_map]

/-! ### all start symbols -/

/-- the enumeration from every start symbol -/
def langAll (G : UCFG U) (k : Nat) : List Prog := G.starts.flatMap (fun s => langU G k s)

theorem count_langAll (G : UCFG U)
    (hr : ∀ nt rs, AList.lookup nt G.rules = some rs → (AList.keys rs).Nodup) (k : Nat)
    (hb : ∀ s ∈ G.starts, boundedU G k s = true) (t : Prog) :
    (langAll G k).count t = (allDerivs G t).length := by
  unfold langAll allDerivs
  rw [List.count_flatMap, length_flatMap_map]
  congr 1
  apply List.map_congr_left
  intro s hs
  simp only [Function.comp]
  exact count_langU G hr k s t (hb s hs)

theorem mem_langAll (G : UCFG U)
    (hr : ∀ nt rs, AList.lookup nt G.rules = some rs → (AList.keys rs).Nodup) (k : Nat)
    (hb : ∀ s ∈ G.starts, boundedU G k s = true) (t : Prog) :
    t ∈ langAll G k ↔ genU G t = true := by
  rw [← List.count_pos_iff, count_langAll G hr k hb t]
  unfold genU
  cases allDerivs G t <;> simp

theorem langAll_nodup (G : UCFG U)
    (hr : ∀ nt rs, AList.lookup nt G.rules = some rs → (AList.keys rs).Nodup) (k : Nat)
    (hb : ∀ s ∈ G.starts, boundedU G k s = true) (hu : ∀ t, unambiguousOn G t = true) :
    (langAll G k).Nodup := by
  rw [List.nodup_iff_count]
  intro t
  rw [count_langAll G hr k hb t]
  exact of_decide_eq_true (hu t)

/-! ### the distribution, several start symbols -/

theorem sum_flatMap_map {α β : Type} (l : List α) (g : α → List β) (h : β → Rat) :
    ((l.flatMap g).map h).sum = (l.map (fun x => ((g x).map h).sum)).sum :=
  sum_map_flatMap g h l

/-- the statement's probability of the term of an enumerated derivation from the start symbol
    `s`, in an unambiguous grammar -/
theorem probU_of_mem_dersU_starts (G : UCFG U) (tg : UTags U) (hn : NormalisedU G tg) (s : UNT U)
    (hs : s ∈ G.starts) (k : Nat) (hu : ∀ t, unambiguousOn G t = true) (x : Prog × Der U)
    (hx : x ∈ dersU G k s) : probU G tg x.1 = startWeight tg s * derWeightU tg x.2 := by
  have hnd : ∀ nt rs, AList.lookup nt G.rules = some rs → (AList.keys rs).Nodup :=
    fun nt rs h => (hn (nt, rs) (AList.lookup_some_mem h)).2
  have hmem : x.2 ∈ derivs G x.1 s := dersU_sound G hnd k s x hx
  have hall : (s, x.2) ∈ allDerivs G x.1 := by
    unfold allDerivs
    exact List.mem_flatMap.mpr ⟨s, hs, List.mem_map.mpr ⟨x.2, hmem, rfl⟩⟩
  have hone := eq_singleton_of_mem_of_length_le_one hall (of_decide_eq_true (hu x.1))
  rw [probU, hone]

/-- **the statement's probabilities sum to 1 over the language** of a finite unambiguous
    grammar with ANY number of start symbols (start weights included) -/
theorem probU_sum_one_starts (G : UCFG U) (tg : UTags U) (hn : NormalisedU G tg) (k : Nat)
    (hb : ∀ s ∈ G.starts, boundedU G k s = true)
    (hs : (G.starts.map (startWeight tg)).sum = 1) (hu : ∀ t, unambiguousOn G t = true) :
    ((langAll G k).map (fun t => probU G tg t)).sum = 1 := by
  unfold langAll
  rw [sum_flatMap_map, ← spec_total_one G tg hn k hb hs]
  congr 1
  apply List.map_congr_left
  intro s hs'
  rw [← dersU_fst, List.map_map, massU, ← sum_map_mul_left]
  congr 1
  apply List.map_congr_left
  intro x hx
  exact probU_of_mem_dersU_starts G tg hn s hs' k hu x hx

end PS.U.Cnt
