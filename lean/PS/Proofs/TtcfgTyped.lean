/-
  C13, part 23: the grammars returned by the constructors are TYPED (`typedOK`: every rule gives its
  symbol the argument types that the symbol's type has at the type of the non-terminal) - so the
  hypothesis `ArgsAgree` of the product theorems needs no per-case certificate any more.
-/
import PS.Proofs.TtcfgAtMostDiverge
import PS.Proofs.TtcfgCountS
import PS.Proofs.TtcfgMul
namespace PS.T
open PS PS.G

variable {S T : Type} [DecidableEq S] [DecidableEq T]

theorem saturation_typedOK (B : Builder S T) (prims : List Sym) (request : Ty) (stackKey : Bool) (fuel : Nat) (G : TT S T)
    (h : saturationTable B prims request stackKey fuel = some G) : typedOK G = true := by
  obtain ⟨_, _, _, hrows⟩ := saturationTable_spec B prims request stackKey fuel G h
  unfold typedOK
  rw [List.all_eq_true]
  intro e he
  rw [List.all_eq_true]
  intro r hr
  rw [hrows e he] at hr
  have hml := rowDict_mem B prims request e.1 r hr
  obtain ⟨P, val⟩ := r
  obtain ⟨c, hc, h1, _, hv⟩ := (mem_rowList B prims request e.1 P val).mp hml
  subst h1
  have ha := candidate_args prims request e.1.1 c hc
  simp only [beq_iff_eq]
  rw [ha, hv]
  simp only [decorate_map_fst]

theorem restrict_typedOK (G : TT S T) (nr : Marks S T) (h : typedOK G = true) : typedOK (restrict G nr) = true := by
  unfold typedOK at h ⊢
  rw [List.all_eq_true] at h ⊢
  intro e he
  obtain ⟨l, _, hrow⟩ := restrict_mem G nr e he
  rw [List.all_eq_true]
  intro r hr
  rw [hrow, List.mem_filterMap] at hr
  obtain ⟨P, _, hP⟩ := hr
  cases hrl : G.rule? e.1 P with
  | none => simp [hrl] at hP
  | some v =>
    simp only [hrl, Option.some.injEq] at hP
    subst hP
    obtain ⟨row, h1, h2⟩ := rule_mem_row G e.1 P v hrl
    have := h _ (AList.lookup_some_mem h1)
    rw [List.all_eq_true] at this
    exact this _ h2

/-- **`clean()` keeps a table typed** -/
theorem clean_typedOK (G G' : TT S T) (hU : noUnknownKey G = true) (fuel : Nat) (h : clean G fuel = .ok G')
    (ht : typedOK G = true) : typedOK G' = true := by
  obtain ⟨nr, rfl, _⟩ := clean_result G G' hU fuel h
  exact restrict_typedOK G nr ht

end PS.T
