/- Helper lemmas for C17 (instantiating constants). -/
import PS.Model.InstConst
import PS.Proofs.Grammar
import Mathlib.Data.List.Nodup
namespace PS.IC
open PS PS.G

variable {ν : Type}

/-! ### the loop as a `flatMap` -/

/-- what one entry of a row becomes -/
def expand (tbl : Tbl) (f : ν → Nat → ν) (e : Sym × ν) : List (Sym × ν) :=
  match slot? tbl e.1 with
  | some vals => vals.map (fun val => (Sym.const e.1.ty val, f e.2 vals.length))
  | none => [e]

/-- the per-key part of `rowOK` -/
def okKey (tbl : Tbl) (P : Sym) : Prop :=
  ∀ vals, slot? tbl P = some vals → P = Sym.const P.ty "" ∧ valsOK vals = true

/-- `k` is one of the keys produced from the key `P` -/
def produces (tbl : Tbl) (P k : Sym) : Prop :=
  match slot? tbl P with
  | some vals => ∃ v ∈ vals, k = Sym.const P.ty v
  | none => k = P

theorem rowOK_iff {tbl : Tbl} {row : AList Sym ν} :
    rowOK tbl row = true ↔ (AList.keys row).Nodup ∧ ∀ P ∈ AList.keys row, okKey tbl P := by
  unfold rowOK okKey
  simp only [Bool.and_eq_true, decide_eq_true_eq, List.all_eq_true]
  constructor
  · rintro ⟨h1, h2⟩
    refine ⟨h1, ?_⟩
    intro P hP vals hv
    have := h2 P hP
    rw [hv] at this
    simpa using this
  · rintro ⟨h1, h2⟩
    refine ⟨h1, ?_⟩
    intro P hP
    cases hv : slot? tbl P with
    | none => rfl
    | some vals =>
      have := h2 P hP vals hv
      simp [this.1.symm, this.2]

theorem slot?_some {tbl : Tbl} {P : Sym} {vals : List String} (h : slot? tbl P = some vals) :
    P.kind = .const ∧ AList.lookup P.ty tbl = some vals := by
  unfold slot? at h
  by_cases hk : P.kind = .const
  · rw [if_pos hk] at h; exact ⟨hk, h⟩
  · rw [if_neg hk] at h; cases h

theorem slot?_const {tbl : Tbl} {P : Sym} {vals : List String} (h : slot? tbl P = some vals)
    (v : String) : slot? tbl (Sym.const P.ty v) = some vals := by
  have := slot?_some h
  simp [slot?, Sym.const, this.2]

theorem const_inj {t1 t2 : Ty} {v1 v2 : String} (h : Sym.const t1 v1 = Sym.const t2 v2) :
    t1 = t2 ∧ v1 = v2 := by
  simp only [Sym.const, Sym.mk.injEq] at h
  exact ⟨h.2.2.2, h.2.1⟩

theorem mem_vals_ne_empty {vals : List String} (h : valsOK vals = true) {v : String} (hv : v ∈ vals) :
    v ≠ "" := by
  unfold valsOK at h
  simp only [Bool.and_eq_true, decide_eq_true_eq, Bool.not_eq_true', List.contains_eq_mem,
    decide_eq_false_iff_not] at h
  intro e; subst e; exact h.2 hv

theorem produces_inj {tbl : Tbl} {P1 P2 k : Sym} (h1 : okKey tbl P1) (h2 : okKey tbl P2)
    (p1 : produces tbl P1 k) (p2 : produces tbl P2 k) : P1 = P2 := by
  unfold produces at p1 p2
  cases e1 : slot? tbl P1 with
  | some vals1 =>
    rw [e1] at p1
    obtain ⟨v1, hv1, rfl⟩ := p1
    cases e2 : slot? tbl P2 with
    | some vals2 =>
      rw [e2] at p2
      obtain ⟨v2, _, hk⟩ := p2
      have := (const_inj hk).1
      rw [(h1 _ e1).1, (h2 _ e2).1]
      simp [Sym.const, this]
    | none =>
      rw [e2] at p2
      rw [← p2, slot?_const e1] at e2
      cases e2
  | none =>
    rw [e1] at p1
    cases e2 : slot? tbl P2 with
    | some vals2 =>
      rw [e2] at p2
      obtain ⟨v2, _, hk⟩ := p2
      rw [p1] at hk
      rw [hk, slot?_const e2] at e1
      cases e1
    | none =>
      rw [e2] at p2
      rw [← p1, ← p2]

theorem mem_expand {tbl : Tbl} {f : ν → Nat → ν} {P : Sym} {v : ν} {k : Sym} {w : ν} :
    (k, w) ∈ expand tbl f (P, v) ↔
      produces tbl P k ∧ w = (match slot? tbl P with | some vals => f v vals.length | none => v) := by
  unfold expand produces
  cases slot? tbl P with
  | some vals =>
    simp only [List.mem_map, Prod.mk.injEq]
    constructor
    · rintro ⟨val, hval, rfl, rfl⟩; exact ⟨⟨val, hval, rfl⟩, rfl⟩
    · rintro ⟨⟨val, hval, rfl⟩, rfl⟩; exact ⟨val, hval, rfl, rfl⟩
  | none => simp

theorem mem_keys_expand {tbl : Tbl} {f : ν → Nat → ν} {e : Sym × ν} {k : Sym} :
    k ∈ AList.keys (expand tbl f e) ↔ produces tbl e.1 k := by
  unfold AList.keys
  simp only [List.mem_map]
  constructor
  · rintro ⟨⟨k', w⟩, hm, rfl⟩
    exact (mem_expand.mp hm).1
  · intro h
    exact ⟨(k, _), mem_expand.mpr ⟨h, rfl⟩, rfl⟩

theorem keys_expand_nodup {tbl : Tbl} {f : ν → Nat → ν} {e : Sym × ν} (h : okKey tbl e.1) :
    (AList.keys (expand tbl f e)).Nodup := by
  unfold expand AList.keys
  cases hs : slot? tbl e.1 with
  | none => simp
  | some vals =>
    simp only [List.map_map]
    have hv := (h vals hs).2
    unfold valsOK at hv
    simp only [Bool.and_eq_true, decide_eq_true_eq] at hv
    refine List.Nodup.map ?_ hv.1
    intro a b hab
    exact (const_inj hab).2

theorem keys_flatMap {α : Type} (g : α → List (Sym × ν)) (l : List α) :
    AList.keys (l.flatMap g) = l.flatMap (fun e => AList.keys (g e)) := by
  unfold AList.keys
  induction l with
  | nil => rfl
  | cons a r ih => simp [List.flatMap_cons, ih]

theorem mem_keys_flatMap_expand {tbl : Tbl} {f : ν → Nat → ν} {row : AList Sym ν} {k : Sym} :
    k ∈ AList.keys (row.flatMap (expand tbl f)) ↔ ∃ P ∈ AList.keys row, produces tbl P k := by
  rw [keys_flatMap]
  simp only [List.mem_flatMap, mem_keys_expand]
  constructor
  · rintro ⟨e, he, hp⟩
    exact ⟨e.1, List.mem_map.mpr ⟨e, he, rfl⟩, hp⟩
  · rintro ⟨P, hP, hp⟩
    obtain ⟨e, he, rfl⟩ := List.mem_map.mp hP
    exact ⟨e, he, hp⟩

theorem keys_flatMap_nodup {tbl : Tbl} {f : ν → Nat → ν} {row : AList Sym ν}
    (h : rowOK tbl row = true) : (AList.keys (row.flatMap (expand tbl f))).Nodup := by
  obtain ⟨hnd, hok⟩ := rowOK_iff.mp h
  clear h
  induction row with
  | nil => simp [AList.keys]
  | cons e rest ih =>
    simp only [AList.keys, List.map_cons, List.nodup_cons, List.mem_cons, forall_eq_or_imp] at hnd hok
    rw [List.flatMap_cons]
    have hk : AList.keys (expand tbl f e ++ rest.flatMap (expand tbl f)) =
        AList.keys (expand tbl f e) ++ AList.keys (rest.flatMap (expand tbl f)) := by
      simp [AList.keys]
    rw [hk, List.nodup_append]
    refine ⟨keys_expand_nodup hok.1, ih hnd.2 hok.2, ?_⟩
    intro a ha b hb hab
    subst hab
    obtain ⟨P, hP, hp⟩ := mem_keys_flatMap_expand.mp hb
    have := produces_inj hok.1 (hok.2 P hP) (mem_keys_expand.mp ha) hp
    rw [this] at hnd
    exact hnd.1 hP

theorem insert_fresh {κ : Type} [DecidableEq κ] {k : κ} {v : ν} {d : AList κ ν}
    (h : k ∉ AList.keys d) : AList.insert k v d = d ++ [(k, v)] := by
  induction d with
  | nil => rfl
  | cons p r ih =>
    obtain ⟨k', v'⟩ := p
    simp only [AList.keys, List.map_cons, List.mem_cons, not_or] at h
    have hne : k' ≠ k := fun e => h.1 e.symm
    simp only [AList.insert, hne, if_false, List.cons_append]
    rw [ih h.2]

theorem foldl_insert_fresh {κ : Type} [DecidableEq κ] (l d : AList κ ν)
    (h : (AList.keys (d ++ l)).Nodup) :
    l.foldl (fun a e => AList.insert e.1 e.2 a) d = d ++ l := by
  induction l generalizing d with
  | nil => simp
  | cons e r ih =>
    simp only [List.foldl_cons]
    have hfresh : e.1 ∉ AList.keys d := by
      intro hm
      simp only [AList.keys, List.map_append, List.map_cons] at h
      have := (List.nodup_append.mp h).2.2 e.1 hm e.1 (by simp)
      exact this rfl
    rw [insert_fresh hfresh, ih]
    · simp
    · simpa using h

theorem step_eq {tbl : Tbl} {f : ν → Nat → ν} (acc : AList Sym ν) (e : Sym × ν) :
    step tbl f acc e = (expand tbl f e).foldl (fun a x => AList.insert x.1 x.2 a) acc := by
  unfold step expand
  cases slot? tbl e.1 with
  | some vals => simp [List.foldl_map]
  | none => simp

/-- under `rowOK` no insertion overwrites: the new row is the concatenation of the expansions -/
theorem instRow_eq_flatMap {tbl : Tbl} {f : ν → Nat → ν} {row : AList Sym ν}
    (h : rowOK tbl row = true) : instRow tbl f row = row.flatMap (expand tbl f) := by
  unfold instRow
  have : (fun acc e => step tbl f acc e) =
      (fun acc e => (expand tbl f e).foldl (fun a x => AList.insert x.1 x.2 a) acc) := by
    funext acc e; exact step_eq acc e
  show List.foldl (fun acc e => step tbl f acc e) [] row = _
  rw [this, ← List.foldl_flatMap (f := expand tbl f) (g := fun a x => AList.insert x.1 x.2 a)]
  have := foldl_insert_fresh (row.flatMap (expand tbl f)) ([] : AList Sym ν) (by simpa using keys_flatMap_nodup h)
  simpa using this

/-! ### lookup in the new row -/

theorem lookup_iff_mem {κ : Type} [DecidableEq κ] {d : AList κ ν} (h : (AList.keys d).Nodup) {k : κ} {v : ν} :
    AList.lookup k d = some v ↔ (k, v) ∈ d :=
  ⟨AList.lookup_some_mem, AList.lookup_of_mem_nodup h⟩

theorem lookup_instRow_iff {tbl : Tbl} {f : ν → Nat → ν} {row : AList Sym ν}
    (h : rowOK tbl row = true) (k : Sym) (w : ν) :
    AList.lookup k (instRow tbl f row) = some w ↔
      ∃ P v, AList.lookup P row = some v ∧ produces tbl P k ∧
        w = (match slot? tbl P with | some vals => f v vals.length | none => v) := by
  rw [instRow_eq_flatMap h, lookup_iff_mem (keys_flatMap_nodup h), List.mem_flatMap]
  have hnd := (rowOK_iff.mp h).1
  constructor
  · rintro ⟨⟨P, v⟩, he, hm⟩
    exact ⟨P, v, (lookup_iff_mem hnd).mpr he, mem_expand.mp hm⟩
  · rintro ⟨P, v, hl, hp⟩
    exact ⟨(P, v), (lookup_iff_mem hnd).mp hl, mem_expand.mpr hp⟩

theorem mem_keys_of_lookup {κ : Type} [DecidableEq κ] {d : AList κ ν} {k : κ} {v : ν}
    (h : AList.lookup k d = some v) : k ∈ AList.keys d :=
  List.mem_map.mpr ⟨(k, v), AList.lookup_some_mem h, rfl⟩

/-- functional form: the entry of an instantiation of `P` is the (transformed) entry of `P` -/
theorem lookup_instRow_of_produces {tbl : Tbl} {f : ν → Nat → ν} {row : AList Sym ν}
    (h : rowOK tbl row = true) {P k : Sym} (hP : okKey tbl P) (hp : produces tbl P k) :
    AList.lookup k (instRow tbl f row) =
      (AList.lookup P row).map (fun v => match slot? tbl P with | some vals => f v vals.length | none => v) := by
  cases hl : AList.lookup P row with
  | some v =>
    exact (lookup_instRow_iff h k _).mpr ⟨P, v, hl, hp, rfl⟩
  | none =>
    cases hk : AList.lookup k (instRow tbl f row) with
    | none => rfl
    | some w =>
      obtain ⟨P', v', hl', hp', _⟩ := (lookup_instRow_iff h k w).mp hk
      have hok' := (rowOK_iff.mp h).2 P' (mem_keys_of_lookup hl')
      have := produces_inj hok' hP hp' hp
      rw [this, hl] at hl'
      cases hl'

/-! ### `produces` is the specification `symInst`; the template of an instantiation -/

theorem produces_iff_symInst {tbl : Tbl} {P k : Sym} (hP : okKey tbl P) :
    produces tbl P k ↔ symInst tbl P k = true := by
  unfold produces symInst isSlot
  cases hs : slot? tbl P with
  | some vals =>
    obtain ⟨hk, hl⟩ := slot?_some hs
    have hPe := (hP vals hs).1
    have hname : P.name = "" := by rw [hPe]; rfl
    simp [hk, hname, AList.contains, hl]
  | none =>
    unfold slot? at hs
    by_cases hk : P.kind = .const
    · rw [if_pos hk] at hs
      simp [AList.contains, hs]
    · simp [hk]

theorem templSym_of_produces {tbl : Tbl} {P k : Sym} (hP : okKey tbl P) (hp : produces tbl P k) :
    templSym tbl k = P := by
  unfold produces at hp
  unfold templSym
  cases hs : slot? tbl P with
  | some vals =>
    rw [hs] at hp
    obtain ⟨v, _, rfl⟩ := hp
    obtain ⟨_, hl⟩ := slot?_some hs
    have hPe := (hP vals hs).1
    simp [Sym.const, AList.contains, hl]
    rw [hPe]; rfl
  | none =>
    rw [hs] at hp
    subst hp
    unfold slot? at hs
    by_cases hk : k.kind = .const
    · rw [if_pos hk] at hs
      simp [AList.contains, hs]
    · simp [hk]

/-! ### rule tables -/

theorem lookup_instRules {κ : Type} [DecidableEq κ] (tbl : Tbl) (f : ν → Nat → ν)
    (d : AList κ (AList Sym ν)) (nt : κ) :
    AList.lookup nt (instRules tbl f d) = (AList.lookup nt d).map (instRow tbl f) := by
  unfold instRules
  induction d with
  | nil => rfl
  | cons e r ih =>
    by_cases h : e.1 = nt
    · simp [AList.lookup, h]
    · simp only [List.map_cons, AList.lookup, h, if_false]
      exact ih

theorem rulesOK_row {κ : Type} [DecidableEq κ] {tbl : Tbl} {d : AList κ (AList Sym ν)}
    (h : rulesOK tbl d = true) {nt : κ} {row : AList Sym ν} (hl : AList.lookup nt d = some row) :
    rowOK tbl row = true := by
  unfold rulesOK at h
  rw [List.all_eq_true] at h
  exact h (nt, row) (AList.lookup_some_mem hl)

theorem rulesNonEmpty_row {κ : Type} [DecidableEq κ] {tbl : Tbl} {d : AList κ (AList Sym ν)}
    (h : rulesNonEmpty tbl d = true) {nt : κ} {row : AList Sym ν} (hl : AList.lookup nt d = some row) :
    rowNonEmpty tbl row = true := by
  unfold rulesNonEmpty at h
  rw [List.all_eq_true] at h
  exact h (nt, row) (AList.lookup_some_mem hl)

section grammar
variable {S : Type} [DecidableEq S]

/-- a symbol with a rule at `nt` satisfies the key condition -/
theorem okKey_of_rule {tbl : Tbl} {G : TT S Unit} (h : rulesOK tbl G.rules = true)
    {nt : NT S Unit} {P : Sym} {r : List (Ty × S) × Unit} (hr : G.rule? nt P = some r) :
    okKey tbl P := by
  unfold TT.rule? at hr
  cases hl : AList.lookup nt G.rules with
  | none => rw [hl] at hr; cases hr
  | some row =>
    rw [hl] at hr
    exact (rowOK_iff.mp (rulesOK_row h hl)).2 P (mem_keys_of_lookup hr)

/-- the rule of an instantiation of `P` in the instantiated grammar is the rule of `P` -/
theorem rule?_inst_of_produces {tbl : Tbl} {G : TT S Unit} (h : rulesOK tbl G.rules = true)
    (nt : NT S Unit) {P k : Sym} (hP : okKey tbl P) (hp : produces tbl P k) :
    (inst G tbl).rule? nt k = G.rule? nt P := by
  unfold TT.rule? inst
  simp only [lookup_instRules]
  cases hl : AList.lookup nt G.rules with
  | none => rfl
  | some row =>
    simp only [Option.map_some]
    rw [lookup_instRow_of_produces (rulesOK_row h hl) hP hp]
    cases AList.lookup P row with
    | none => rfl
    | some v => cases slot? tbl P <;> rfl

/-- every rule of the instantiated grammar comes from a rule of the template grammar -/
theorem rule?_inst_some {tbl : Tbl} {G : TT S Unit} (h : rulesOK tbl G.rules = true)
    {nt : NT S Unit} {k : Sym} {r : List (Ty × S) × Unit} (hr : (inst G tbl).rule? nt k = some r) :
    ∃ P, G.rule? nt P = some r ∧ produces tbl P k := by
  unfold TT.rule? inst at hr
  simp only [lookup_instRules] at hr
  cases hl : AList.lookup nt G.rules with
  | none => rw [hl] at hr; cases hr
  | some row =>
    rw [hl] at hr
    simp only [Option.map_some] at hr
    obtain ⟨P, v, hlP, hp, hw⟩ := (lookup_instRow_iff (rulesOK_row h hl) k r).mp hr
    refine ⟨P, ?_, hp⟩
    unfold TT.rule?
    rw [hl]
    simp only
    rw [hlP, hw]
    cases slot? tbl P <;> rfl

mutual
  theorem gen_inst_templ (tbl : Tbl) (G : TT S Unit) (h : rulesOK tbl G.rules = true) :
      ∀ (t' : Prog) (nt : NT S Unit), gen (inst G tbl) t' nt = true →
        gen G (templ tbl t') nt = true ∧ isInst tbl (templ tbl t') t' = true
    | .node k kids', nt => by
      intro hg
      unfold gen at hg
      cases hr : (inst G tbl).rule? nt k with
      | none => rw [hr] at hg; cases hg
      | some r =>
        obtain ⟨args, u⟩ := r
        rw [hr] at hg
        simp only at hg
        obtain ⟨P, hrP, hp⟩ := rule?_inst_some h hr
        have hok := okKey_of_rule h hrP
        have ht := templSym_of_produces hok hp
        have ih := genList_inst_templ tbl G h kids' args hg
        unfold templ gen isInst
        rw [ht, hrP]
        simp only
        exact ⟨ih.1, by rw [Bool.and_eq_true]; exact ⟨(produces_iff_symInst hok).mp hp, ih.2⟩⟩
  theorem genList_inst_templ (tbl : Tbl) (G : TT S Unit) (h : rulesOK tbl G.rules = true) :
      ∀ (ks' : List Prog) (args : List (Ty × S)), genList (inst G tbl) ks' args = true →
        genList G (templList tbl ks') args = true ∧ isInstList tbl (templList tbl ks') ks' = true
    | [], [] => by intro _; simp [templList, genList, isInstList]
    | [], _ :: _ => by intro hg; simp [genList] at hg
    | _ :: _, [] => by intro hg; simp [genList] at hg
    | k' :: ks', (t, s) :: as => by
      intro hg
      unfold genList at hg
      rw [Bool.and_eq_true] at hg
      have ih1 := gen_inst_templ tbl G h k' (t, (s, ())) hg.1
      have ih2 := genList_inst_templ tbl G h ks' as hg.2
      unfold templList genList isInstList
      simp [ih1.1, ih1.2, ih2.1, ih2.2]
end

mutual
  theorem gen_inst_of_isInst (tbl : Tbl) (G : TT S Unit) (h : rulesOK tbl G.rules = true) :
      ∀ (t t' : Prog) (nt : NT S Unit), gen G t nt = true → isInst tbl t t' = true →
        gen (inst G tbl) t' nt = true
    | .node P kids, .node k kids', nt => by
      intro hg hi
      unfold gen at hg
      unfold isInst at hi
      rw [Bool.and_eq_true] at hi
      cases hr : G.rule? nt P with
      | none => rw [hr] at hg; cases hg
      | some r =>
        obtain ⟨args, u⟩ := r
        rw [hr] at hg
        simp only at hg
        have hok := okKey_of_rule h hr
        have hp := (produces_iff_symInst hok).mpr hi.1
        unfold gen
        rw [rule?_inst_of_produces h nt hok hp, hr]
        simp only
        exact genList_inst_of_isInst tbl G h kids kids' args hg hi.2
  theorem genList_inst_of_isInst (tbl : Tbl) (G : TT S Unit) (h : rulesOK tbl G.rules = true) :
      ∀ (ks ks' : List Prog) (args : List (Ty × S)), genList G ks args = true →
        isInstList tbl ks ks' = true → genList (inst G tbl) ks' args = true
    | [], [], [] => by intro _ _; simp [genList]
    | [], [], _ :: _ => by intro hg; simp [genList] at hg
    | [], _ :: _, _ => by intro _ hi; simp [isInstList] at hi
    | _ :: _, [], _ => by intro _ hi; simp [isInstList] at hi
    | _ :: _, _ :: _, [] => by intro hg; simp [genList] at hg
    | k :: ks, k' :: ks', (t, s) :: as => by
      intro hg hi
      unfold genList at hg
      unfold isInstList at hi
      rw [Bool.and_eq_true] at hg hi
      unfold genList
      rw [Bool.and_eq_true]
      exact ⟨gen_inst_of_isInst tbl G h k k' (t, (s, ())) hg.1 hi.1,
             genList_inst_of_isInst tbl G h ks ks' as hg.2 hi.2⟩
end

mutual
  theorem templ_of_isInst (tbl : Tbl) (G : TT S Unit) (h : rulesOK tbl G.rules = true) :
      ∀ (t t' : Prog) (nt : NT S Unit), gen G t nt = true → isInst tbl t t' = true →
        templ tbl t' = t
    | .node P kids, .node k kids', nt => by
      intro hg hi
      unfold gen at hg
      unfold isInst at hi
      rw [Bool.and_eq_true] at hi
      cases hr : G.rule? nt P with
      | none => rw [hr] at hg; cases hg
      | some r =>
        obtain ⟨args, u⟩ := r
        rw [hr] at hg
        simp only at hg
        have hok := okKey_of_rule h hr
        have hp := (produces_iff_symInst hok).mpr hi.1
        unfold templ
        rw [templSym_of_produces hok hp, templList_of_isInstList tbl G h kids kids' args hg hi.2]
  theorem templList_of_isInstList (tbl : Tbl) (G : TT S Unit) (h : rulesOK tbl G.rules = true) :
      ∀ (ks ks' : List Prog) (args : List (Ty × S)), genList G ks args = true →
        isInstList tbl ks ks' = true → templList tbl ks' = ks
    | [], [], _ => by intro _ _; rfl
    | [], _ :: _, _ => by intro _ hi; simp [isInstList] at hi
    | _ :: _, [], _ => by intro _ hi; simp [isInstList] at hi
    | _ :: _, _ :: _, [] => by intro hg; simp [genList] at hg
    | k :: ks, k' :: ks', (t, s) :: as => by
      intro hg hi
      unfold genList at hg
      unfold isInstList at hi
      rw [Bool.and_eq_true] at hg hi
      unfold templList
      rw [templ_of_isInst tbl G h k k' (t, (s, ())) hg.1 hi.1,
          templList_of_isInstList tbl G h ks ks' as hg.2 hi.2]
end

end grammar

end PS.IC
