/- Helper lemmas for C17 (instantiating constants). -/
import PS.Model.InstConst
import PS.Proofs.Grammar
import Mathlib.Data.List.Nodup
namespace PS.IC
open PS PS.G

variable {ν : Type}

/-! ### the loop as a `flatMap` -/

/-- what one entry of a row becomes -/
def expand (fx : Fix) (tbl : Tbl) (f : ν → Nat → ν) (e : Sym × ν) : List (Sym × ν) :=
  match slot? fx tbl e.1 with
  | some vals => vals.map (fun val => (Sym.const e.1.ty val, f e.2 vals.length))
  | none => [e]

/-- the per-key part of `rowOK`: a key the code instantiates is the bare slot with a good value
    list; a constant the code leaves alone has no value listed for its type -/
def okKey (fx : Fix) (tbl : Tbl) (P : Sym) : Prop :=
  (∀ vals, slot? fx tbl P = some vals → P = Sym.const P.ty "" ∧ valsOK vals = true) ∧
  (slot? fx tbl P = none → P.kind = .const →
    ∀ vals, AList.lookup P.ty tbl = some vals → P.name ∉ vals)

/-- `k` is one of the keys produced from the key `P` -/
def produces (fx : Fix) (tbl : Tbl) (P k : Sym) : Prop :=
  match slot? fx tbl P with
  | some vals => ∃ v ∈ vals, k = Sym.const P.ty v
  | none => k = P

/-! ### distinct values -/

theorem mem_distinctAux {seen l : List String} {v : String} :
    v ∈ distinctAux seen l ↔ v ∈ l ∧ v ∉ seen := by
  induction l generalizing seen with
  | nil => simp [distinctAux]
  | cons a r ih =>
    unfold distinctAux
    by_cases ha : seen.contains a = true
    · rw [if_pos ha, ih]
      have ha' : a ∈ seen := by simpa using ha
      constructor
      · rintro ⟨h1, h2⟩; exact ⟨List.mem_cons_of_mem _ h1, h2⟩
      · rintro ⟨h1, h2⟩
        rcases List.mem_cons.mp h1 with rfl | h1
        · exact absurd ha' h2
        · exact ⟨h1, h2⟩
    · rw [if_neg ha]
      have ha' : a ∉ seen := by simpa using ha
      rw [List.mem_cons, ih]
      constructor
      · rintro (rfl | ⟨h1, h2⟩)
        · exact ⟨List.mem_cons_self .., ha'⟩
        · exact ⟨List.mem_cons_of_mem _ h1, fun h => h2 (List.mem_cons_of_mem _ h)⟩
      · rintro ⟨h1, h2⟩
        rcases List.mem_cons.mp h1 with rfl | h1
        · exact Or.inl rfl
        · by_cases hva : v = a
          · exact Or.inl hva
          · refine Or.inr ⟨h1, ?_⟩
            intro h
            rcases List.mem_cons.mp h with h | h
            · exact hva h
            · exact h2 h

theorem nodup_distinctAux (seen l : List String) : (distinctAux seen l).Nodup := by
  induction l generalizing seen with
  | nil => simp [distinctAux]
  | cons a r ih =>
    unfold distinctAux
    by_cases ha : seen.contains a = true
    · rw [if_pos ha]; exact ih seen
    · rw [if_neg ha, List.nodup_cons]
      refine ⟨?_, ih _⟩
      intro h
      exact (mem_distinctAux.mp h).2 (List.mem_cons_self ..)

theorem mem_distinct {l : List String} {v : String} : v ∈ distinct l ↔ v ∈ l := by
  unfold distinct; rw [mem_distinctAux]; simp

theorem nodup_distinct (l : List String) : (distinct l).Nodup := nodup_distinctAux [] l

theorem mem_fxvals {fx : Fix} {l : List String} {v : String} : v ∈ fx.vals l ↔ v ∈ l := by
  unfold Fix.vals
  cases fx.f3
  · simp
  · simp [mem_distinct]

theorem fxvals_eq_nil {fx : Fix} {l : List String} : fx.vals l = [] ↔ l = [] := by
  constructor
  · intro h
    cases l with
    | nil => rfl
    | cons a r =>
      have : a ∈ fx.vals (a :: r) := mem_fxvals.mpr (List.mem_cons_self ..)
      rw [h] at this; cases this
  · rintro rfl
    unfold Fix.vals distinct distinctAux
    cases fx.f3 <;> rfl

theorem nodup_fxvals_of_f3 {fx : Fix} (h : fx.f3 = true) (l : List String) : (fx.vals l).Nodup := by
  unfold Fix.vals; rw [h]; exact nodup_distinct l

/-! ### the test of the loop -/

theorem slot?_some {fx : Fix} {tbl : Tbl} {P : Sym} {vals : List String} (h : slot? fx tbl P = some vals) :
    P.kind = .const ∧ (fx.f2 = true → P.name = "") ∧
      ∃ vals0, AList.lookup P.ty tbl = some vals0 ∧ vals = fx.vals vals0 := by
  unfold slot? at h
  by_cases hc : fx.isConst P = true
  · rw [if_pos hc] at h
    unfold Fix.isConst at hc
    simp only [Bool.and_eq_true, decide_eq_true_eq, Bool.or_eq_true, Bool.not_eq_true'] at hc
    cases hl : AList.lookup P.ty tbl with
    | none => rw [hl] at h; cases h
    | some vals0 =>
      rw [hl] at h
      simp only [Option.map_some, Option.some.injEq] at h
      refine ⟨hc.1, ?_, vals0, rfl, h.symm⟩
      intro hf
      rcases hc.2 with h2 | h2
      · rw [hf] at h2; cases h2
      · exact h2
  · rw [if_neg hc] at h; cases h

/-- `slot? = none`: not a constant, or a constant whose type is not a key, or (repair of C17-F2) a
    constant that has a value -/
theorem slot?_none {fx : Fix} {tbl : Tbl} {P : Sym} (h : slot? fx tbl P = none) :
    P.kind ≠ .const ∨ AList.lookup P.ty tbl = none ∨ (fx.f2 = true ∧ P.name ≠ "") := by
  unfold slot? at h
  by_cases hk : P.kind = .const
  · by_cases hn : P.name = ""
    · have hc : fx.isConst P = true := by simp [Fix.isConst, hk, hn]
      rw [if_pos hc] at h
      cases hl : AList.lookup P.ty tbl with
      | none => exact Or.inr (Or.inl rfl)
      | some v => rw [hl] at h; cases h
    · cases hf : fx.f2 with
      | true => exact Or.inr (Or.inr ⟨rfl, hn⟩)
      | false =>
        have hc : fx.isConst P = true := by simp [Fix.isConst, hk, hf]
        rw [if_pos hc] at h
        cases hl : AList.lookup P.ty tbl with
        | none => exact Or.inr (Or.inl rfl)
        | some v => rw [hl] at h; cases h
  · exact Or.inl hk

theorem isSlot_of_slot? {fx : Fix} {tbl : Tbl} {P : Sym} {vals : List String}
    (h : slot? fx tbl P = some vals) (hn : P.name = "") : isSlot tbl P = true := by
  obtain ⟨hk, _, vals0, hl, _⟩ := slot?_some h
  simp [isSlot, hk, hn, AList.contains, hl]

theorem keyOK_iff {fx : Fix} {tbl : Tbl} {P : Sym} : keyOK fx tbl P = true ↔ okKey fx tbl P := by
  unfold keyOK okKey
  cases hs : slot? fx tbl P with
  | some vals =>
    simp only [Bool.and_eq_true, decide_eq_true_eq, Option.some.injEq, reduceCtorEq, false_imp_iff,
      and_true]
    constructor
    · rintro ⟨h1, h2⟩ vals' rfl; exact ⟨h1, h2⟩
    · intro h; exact h vals rfl
  | none =>
    simp only [reduceCtorEq, false_imp_iff, implies_true, true_and, forall_const]
    by_cases hk : P.kind = .const
    · cases hl : AList.lookup P.ty tbl with
      | none => simp [hk]
      | some vals0 => simp [hk]
    · simp [hk]

theorem rowOK_iff {fx : Fix} {tbl : Tbl} {row : AList Sym ν} :
    rowOK fx tbl row = true ↔ (AList.keys row).Nodup ∧ ∀ P ∈ AList.keys row, okKey fx tbl P := by
  unfold rowOK
  simp only [Bool.and_eq_true, decide_eq_true_eq, List.all_eq_true, keyOK_iff]

theorem const_inj {t1 t2 : Ty} {v1 v2 : String} (h : Sym.const t1 v1 = Sym.const t2 v2) :
    t1 = t2 ∧ v1 = v2 := by
  simp only [Sym.const, Sym.mk.injEq] at h
  exact ⟨h.2.2.2, h.2.1⟩

theorem produces_inj {fx : Fix} {tbl : Tbl} {P1 P2 k : Sym} (h1 : okKey fx tbl P1) (h2 : okKey fx tbl P2)
    (p1 : produces fx tbl P1 k) (p2 : produces fx tbl P2 k) : P1 = P2 := by
  -- a produced constant is never a key the code leaves alone
  have clash : ∀ {P Q : Sym} {vals : List String}, slot? fx tbl P = some vals → okKey fx tbl Q →
      slot? fx tbl Q = none → (∃ v ∈ vals, Q = Sym.const P.ty v) → False := by
    intro P Q vals e hQ eQ hp
    obtain ⟨v, hv, rfl⟩ := hp
    obtain ⟨_, _, vals0, hl, rfl⟩ := slot?_some e
    exact hQ.2 eQ rfl vals0 hl (mem_fxvals.mp hv)
  unfold produces at p1 p2
  cases e1 : slot? fx tbl P1 with
  | some vals1 =>
    rw [e1] at p1
    cases e2 : slot? fx tbl P2 with
    | some vals2 =>
      rw [e2] at p2
      obtain ⟨v1, hv1, rfl⟩ := p1
      obtain ⟨v2, _, hk⟩ := p2
      have := (const_inj hk).1
      rw [(h1.1 _ e1).1, (h2.1 _ e2).1]
      simp [Sym.const, this]
    | none =>
      rw [e2] at p2
      subst p2
      exact (clash e1 h2 e2 p1).elim
  | none =>
    rw [e1] at p1
    cases e2 : slot? fx tbl P2 with
    | some vals2 =>
      rw [e2] at p2
      subst p1
      exact (clash e2 h1 e1 p2).elim
    | none =>
      rw [e2] at p2
      rw [← p1, ← p2]

theorem mem_expand {fx : Fix} {tbl : Tbl} {f : ν → Nat → ν} {P : Sym} {v : ν} {k : Sym} {w : ν} :
    (k, w) ∈ expand fx tbl f (P, v) ↔
      produces fx tbl P k ∧ w = (match slot? fx tbl P with | some vals => f v vals.length | none => v) := by
  unfold expand produces
  cases slot? fx tbl P with
  | some vals =>
    simp only [List.mem_map, Prod.mk.injEq]
    constructor
    · rintro ⟨val, hval, rfl, rfl⟩; exact ⟨⟨val, hval, rfl⟩, rfl⟩
    · rintro ⟨⟨val, hval, rfl⟩, rfl⟩; exact ⟨val, hval, rfl, rfl⟩
  | none => simp

theorem mem_keys_expand {fx : Fix} {tbl : Tbl} {f : ν → Nat → ν} {e : Sym × ν} {k : Sym} :
    k ∈ AList.keys (expand fx tbl f e) ↔ produces fx tbl e.1 k := by
  unfold AList.keys
  simp only [List.mem_map]
  constructor
  · rintro ⟨⟨k', w⟩, hm, rfl⟩
    exact (mem_expand.mp hm).1
  · intro h
    exact ⟨(k, _), mem_expand.mpr ⟨h, rfl⟩, rfl⟩

theorem keys_expand_nodup {fx : Fix} {tbl : Tbl} {f : ν → Nat → ν} {e : Sym × ν} (h : okKey fx tbl e.1) :
    (AList.keys (expand fx tbl f e)).Nodup := by
  unfold expand AList.keys
  cases hs : slot? fx tbl e.1 with
  | none => simp
  | some vals =>
    simp only [List.map_map]
    have hv := (h.1 vals hs).2
    unfold valsOK at hv
    simp only [Bool.and_eq_true, decide_eq_true_eq] at hv
    refine List.Nodup.map ?_ hv.1
    intro a b hab
    exact (const_inj hab).2

theorem keys_flatMap {α : Type} (g : α → List (Sym × ν)) (l : List α) :
    AList.keys (l.flatMap g) = l.flatMap (fun e => AList.keys (g e)) := by
  unfold AList.keys
  induction l with
  | nil => rfl
  | cons a r ih => simp [List.flatMap_cons, ih]

theorem mem_keys_flatMap_expand {fx : Fix} {tbl : Tbl} {f : ν → Nat → ν} {row : AList Sym ν} {k : Sym} :
    k ∈ AList.keys (row.flatMap (expand fx tbl f)) ↔ ∃ P ∈ AList.keys row, produces fx tbl P k := by
  rw [keys_flatMap]
  simp only [List.mem_flatMap, mem_keys_expand]
  constructor
  · rintro ⟨e, he, hp⟩
    exact ⟨e.1, List.mem_map.mpr ⟨e, he, rfl⟩, hp⟩
  · rintro ⟨P, hP, hp⟩
    obtain ⟨e, he, rfl⟩ := List.mem_map.mp hP
    exact ⟨e, he, hp⟩

theorem keys_flatMap_nodup {fx : Fix} {tbl : Tbl} {f : ν → Nat → ν} {row : AList Sym ν}
    (h : rowOK fx tbl row = true) : (AList.keys (row.flatMap (expand fx tbl f))).Nodup := by
  obtain ⟨hnd, hok⟩ := rowOK_iff.mp h
  clear h
  induction row with
  | nil => simp [AList.keys]
  | cons e rest ih =>
    simp only [AList.keys, List.map_cons, List.nodup_cons, List.mem_cons, forall_eq_or_imp] at hnd hok
    rw [List.flatMap_cons]
    have hk : AList.keys (expand fx tbl f e ++ rest.flatMap (expand fx tbl f)) =
        AList.keys (expand fx tbl f e) ++ AList.keys (rest.flatMap (expand fx tbl f)) := by
      simp [AList.keys]
    rw [hk, List.nodup_append]
    refine ⟨keys_expand_nodup hok.1, ih hnd.2 hok.2, ?_⟩
    intro a ha b hb hab
    subst hab
    obtain ⟨P, hP, hp⟩ := mem_keys_flatMap_expand.mp hb
    have := produces_inj hok.1 (hok.2 P hP) (mem_keys_expand.mp ha) hp
    rw [this] at hnd
    exact hnd.1 hP

theorem insert_fresh {κ : Type} [DecidableEq κ] {k : κ} {v : ν} {d : AList κ ν}
    (h : k ∉ AList.keys d) : AList.insert k v d = d ++ [(k, v)] := by
  induction d with
  | nil => rfl
  | cons p r ih =>
    obtain ⟨k', v'⟩ := p
    simp only [AList.keys, List.map_cons, List.mem_cons, not_or] at h
    have hne : k' ≠ k := fun e => h.1 e.symm
    simp only [AList.insert, hne, if_false, List.cons_append]
    rw [ih h.2]

theorem foldl_insert_fresh {κ : Type} [DecidableEq κ] (l d : AList κ ν)
    (h : (AList.keys (d ++ l)).Nodup) :
    l.foldl (fun a e => AList.insert e.1 e.2 a) d = d ++ l := by
  induction l generalizing d with
  | nil => simp
  | cons e r ih =>
    simp only [List.foldl_cons]
    have hfresh : e.1 ∉ AList.keys d := by
      intro hm
      simp only [AList.keys, List.map_append, List.map_cons] at h
      have := (List.nodup_append.mp h).2.2 e.1 hm e.1 (by simp)
      exact this rfl
    rw [insert_fresh hfresh, ih]
    · simp
    · simpa using h

theorem step_eq {fx : Fix} {tbl : Tbl} {f : ν → Nat → ν} (acc : AList Sym ν) (e : Sym × ν) :
    step fx tbl f acc e = (expand fx tbl f e).foldl (fun a x => AList.insert x.1 x.2 a) acc := by
  unfold step expand
  cases slot? fx tbl e.1 with
  | some vals => simp [List.foldl_map]
  | none => simp

/-- under `rowOK` no insertion overwrites: the new row is the concatenation of the expansions -/
theorem instRow_eq_flatMap {fx : Fix} {tbl : Tbl} {f : ν → Nat → ν} {row : AList Sym ν}
    (h : rowOK fx tbl row = true) : instRow fx tbl f row = row.flatMap (expand fx tbl f) := by
  unfold instRow
  have : (fun acc e => step fx tbl f acc e) =
      (fun acc e => (expand fx tbl f e).foldl (fun a x => AList.insert x.1 x.2 a) acc) := by
    funext acc e; exact step_eq acc e
  show List.foldl (fun acc e => step fx tbl f acc e) [] row = _
  rw [this, ← List.foldl_flatMap (f := expand fx tbl f) (g := fun a x => AList.insert x.1 x.2 a)]
  have := foldl_insert_fresh (row.flatMap (expand fx tbl f)) ([] : AList Sym ν) (by simpa using keys_flatMap_nodup h)
  simpa using this

/-! ### lookup in the new row -/

theorem lookup_iff_mem {κ : Type} [DecidableEq κ] {d : AList κ ν} (h : (AList.keys d).Nodup) {k : κ} {v : ν} :
    AList.lookup k d = some v ↔ (k, v) ∈ d :=
  ⟨AList.lookup_some_mem, AList.lookup_of_mem_nodup h⟩

theorem lookup_instRow_iff {fx : Fix} {tbl : Tbl} {f : ν → Nat → ν} {row : AList Sym ν}
    (h : rowOK fx tbl row = true) (k : Sym) (w : ν) :
    AList.lookup k (instRow fx tbl f row) = some w ↔
      ∃ P v, AList.lookup P row = some v ∧ produces fx tbl P k ∧
        w = (match slot? fx tbl P with | some vals => f v vals.length | none => v) := by
  rw [instRow_eq_flatMap h, lookup_iff_mem (keys_flatMap_nodup h), List.mem_flatMap]
  have hnd := (rowOK_iff.mp h).1
  constructor
  · rintro ⟨⟨P, v⟩, he, hm⟩
    exact ⟨P, v, (lookup_iff_mem hnd).mpr he, mem_expand.mp hm⟩
  · rintro ⟨P, v, hl, hp⟩
    exact ⟨(P, v), (lookup_iff_mem hnd).mp hl, mem_expand.mpr hp⟩

theorem mem_keys_of_lookup {κ : Type} [DecidableEq κ] {d : AList κ ν} {k : κ} {v : ν}
    (h : AList.lookup k d = some v) : k ∈ AList.keys d :=
  List.mem_map.mpr ⟨(k, v), AList.lookup_some_mem h, rfl⟩

/-- functional form: the entry of an instantiation of `P` is the (transformed) entry of `P` -/
theorem lookup_instRow_of_produces {fx : Fix} {tbl : Tbl} {f : ν → Nat → ν} {row : AList Sym ν}
    (h : rowOK fx tbl row = true) {P k : Sym} (hP : okKey fx tbl P) (hp : produces fx tbl P k) :
    AList.lookup k (instRow fx tbl f row) =
      (AList.lookup P row).map (fun v => match slot? fx tbl P with | some vals => f v vals.length | none => v) := by
  cases hl : AList.lookup P row with
  | some v =>
    exact (lookup_instRow_iff h k _).mpr ⟨P, v, hl, hp, rfl⟩
  | none =>
    cases hk : AList.lookup k (instRow fx tbl f row) with
    | none => rfl
    | some w =>
      obtain ⟨P', v', hl', hp', _⟩ := (lookup_instRow_iff h k w).mp hk
      have hok' := (rowOK_iff.mp h).2 P' (mem_keys_of_lookup hl')
      have := produces_inj hok' hP hp' hp
      rw [this, hl] at hl'
      cases hl'

/-! ### `produces` is the specification `symInst`; the template of an instantiation -/

theorem symInst_of_not_isSlot {tbl : Tbl} {P k : Sym} (h : isSlot tbl P = false) :
    symInst tbl P k = true ↔ k = P := by
  unfold symInst; rw [h]; simp

/-- a key the code leaves alone is not a slot of the specification, provided it is `okKey` … -/
theorem not_isSlot_of_slot?_none {fx : Fix} {tbl : Tbl} {P : Sym} (hs : slot? fx tbl P = none) :
    isSlot tbl P = false := by
  unfold isSlot
  rcases slot?_none hs with hk | hl | ⟨_, hn⟩
  · simp [hk]
  · simp [AList.contains, hl]
  · simp [hn]

theorem produces_iff_symInst {fx : Fix} {tbl : Tbl} {P k : Sym} (hP : okKey fx tbl P) :
    produces fx tbl P k ↔ symInst tbl P k = true := by
  unfold produces
  cases hs : slot? fx tbl P with
  | some vals =>
    obtain ⟨hk, _, vals0, hl, rfl⟩ := slot?_some hs
    have hPe := (hP.1 _ hs).1
    have hname : P.name = "" := by rw [hPe]; rfl
    unfold symInst
    rw [isSlot_of_slot? hs hname]
    simp only [if_true, hl, List.any_eq_true, decide_eq_true_eq]
    constructor
    · rintro ⟨v, hv, rfl⟩; exact ⟨v, mem_fxvals.mp hv, rfl⟩
    · rintro ⟨v, hv, rfl⟩; exact ⟨v, mem_fxvals.mpr hv, rfl⟩
  | none =>
    simp only
    rw [symInst_of_not_isSlot (not_isSlot_of_slot?_none hs)]

theorem templSym_const_listed {tbl : Tbl} {ty : Ty} {v : String} {vals0 : List String}
    (hl : AList.lookup ty tbl = some vals0) (hv : v ∈ vals0) :
    templSym tbl (Sym.const ty v) = Sym.const ty "" := by
  simp [templSym, Sym.const, hl, hv]

/-- a key that is `okKey` is its own template -/
theorem templSym_self_of_okKey {fx : Fix} {tbl : Tbl} {P : Sym} (hP : okKey fx tbl P) :
    templSym tbl P = P := by
  unfold templSym
  by_cases hk : P.kind = .const
  · rw [if_pos hk]
    cases hl : AList.lookup P.ty tbl with
    | none => rfl
    | some vals0 =>
      simp only
      by_cases hc : vals0.contains P.name = true
      · rw [if_pos hc]
        have hm : P.name ∈ vals0 := by simpa using hc
        cases hs : slot? fx tbl P with
        | some vals => exact (hP.1 vals hs).1.symm
        | none => exact absurd hm (hP.2 hs hk vals0 hl)
      · rw [if_neg hc]
  · rw [if_neg hk]

theorem templSym_of_produces {fx : Fix} {tbl : Tbl} {P k : Sym} (hP : okKey fx tbl P)
    (hp : produces fx tbl P k) : templSym tbl k = P := by
  unfold produces at hp
  cases hs : slot? fx tbl P with
  | some vals =>
    rw [hs] at hp
    obtain ⟨v, hv, rfl⟩ := hp
    obtain ⟨_, _, vals0, hl, rfl⟩ := slot?_some hs
    rw [templSym_const_listed hl (mem_fxvals.mp hv)]
    exact (hP.1 _ hs).1.symm
  | none =>
    rw [hs] at hp
    subst hp
    exact templSym_self_of_okKey hP

/-! ### rule tables -/

theorem lookup_instRules {κ : Type} [DecidableEq κ] (fx : Fix) (tbl : Tbl) (f : ν → Nat → ν)
    (d : AList κ (AList Sym ν)) (nt : κ) :
    AList.lookup nt (instRules fx tbl f d) = (AList.lookup nt d).map (instRow fx tbl f) := by
  unfold instRules
  induction d with
  | nil => rfl
  | cons e r ih =>
    by_cases h : e.1 = nt
    · simp [AList.lookup, h]
    · simp only [List.map_cons, AList.lookup, h, if_false]
      exact ih

theorem rulesOK_row {κ : Type} [DecidableEq κ] {fx : Fix} {tbl : Tbl} {d : AList κ (AList Sym ν)}
    (h : rulesOK fx tbl d = true) {nt : κ} {row : AList Sym ν} (hl : AList.lookup nt d = some row) :
    rowOK fx tbl row = true := by
  unfold rulesOK at h
  rw [List.all_eq_true] at h
  exact h (nt, row) (AList.lookup_some_mem hl)

theorem rulesNonEmpty_row {κ : Type} [DecidableEq κ] {fx : Fix} {tbl : Tbl} {d : AList κ (AList Sym ν)}
    (h : rulesNonEmpty fx tbl d = true) {nt : κ} {row : AList Sym ν} (hl : AList.lookup nt d = some row) :
    rowNonEmpty fx tbl row = true := by
  unfold rulesNonEmpty at h
  rw [List.all_eq_true] at h
  exact h (nt, row) (AList.lookup_some_mem hl)

section grammar
variable {S : Type} [DecidableEq S]

/-- a symbol with a rule at `nt` satisfies the key condition -/
theorem okKey_of_rule {fx : Fix} {tbl : Tbl} {G : TT S Unit} (h : rulesOK fx tbl G.rules = true)
    {nt : NT S Unit} {P : Sym} {r : List (Ty × S) × Unit} (hr : G.rule? nt P = some r) :
    okKey fx tbl P := by
  unfold TT.rule? at hr
  cases hl : AList.lookup nt G.rules with
  | none => rw [hl] at hr; cases hr
  | some row =>
    rw [hl] at hr
    exact (rowOK_iff.mp (rulesOK_row h hl)).2 P (mem_keys_of_lookup hr)

/-- the rule of an instantiation of `P` in the instantiated grammar is the rule of `P` -/
theorem rule?_inst_of_produces {fx : Fix} {tbl : Tbl} {G : TT S Unit} (h : rulesOK fx tbl G.rules = true)
    (nt : NT S Unit) {P k : Sym} (hP : okKey fx tbl P) (hp : produces fx tbl P k) :
    (inst fx G tbl).rule? nt k = G.rule? nt P := by
  unfold TT.rule? inst
  simp only [lookup_instRules]
  cases hl : AList.lookup nt G.rules with
  | none => rfl
  | some row =>
    simp only [Option.map_some]
    rw [lookup_instRow_of_produces (rulesOK_row h hl) hP hp]
    cases AList.lookup P row with
    | none => rfl
    | some v => cases slot? fx tbl P <;> rfl

/-- every rule of the instantiated grammar comes from a rule of the template grammar -/
theorem rule?_inst_some {fx : Fix} {tbl : Tbl} {G : TT S Unit} (h : rulesOK fx tbl G.rules = true)
    {nt : NT S Unit} {k : Sym} {r : List (Ty × S) × Unit} (hr : (inst fx G tbl).rule? nt k = some r) :
    ∃ P, G.rule? nt P = some r ∧ produces fx tbl P k := by
  unfold TT.rule? inst at hr
  simp only [lookup_instRules] at hr
  cases hl : AList.lookup nt G.rules with
  | none => rw [hl] at hr; cases hr
  | some row =>
    rw [hl] at hr
    simp only [Option.map_some] at hr
    obtain ⟨P, v, hlP, hp, hw⟩ := (lookup_instRow_iff (rulesOK_row h hl) k r).mp hr
    refine ⟨P, ?_, hp⟩
    unfold TT.rule?
    rw [hl]
    simp only
    rw [hlP, hw]
    cases slot? fx tbl P <;> rfl

mutual
  theorem gen_inst_templ (fx : Fix) (tbl : Tbl) (G : TT S Unit) (h : rulesOK fx tbl G.rules = true) :
      ∀ (t' : Prog) (nt : NT S Unit), gen (inst fx G tbl) t' nt = true →
        gen G (templ tbl t') nt = true ∧ isInst tbl (templ tbl t') t' = true
    | .node k kids', nt => by
      intro hg
      unfold gen at hg
      cases hr : (inst fx G tbl).rule? nt k with
      | none => rw [hr] at hg; cases hg
      | some r =>
        obtain ⟨args, u⟩ := r
        rw [hr] at hg
        simp only at hg
        obtain ⟨P, hrP, hp⟩ := rule?_inst_some h hr
        have hok := okKey_of_rule h hrP
        have ht := templSym_of_produces hok hp
        have ih := genList_inst_templ fx tbl G h kids' args hg
        unfold templ gen isInst
        rw [ht, hrP]
        simp only
        exact ⟨ih.1, by rw [Bool.and_eq_true]; exact ⟨(produces_iff_symInst hok).mp hp, ih.2⟩⟩
  theorem genList_inst_templ (fx : Fix) (tbl : Tbl) (G : TT S Unit) (h : rulesOK fx tbl G.rules = true) :
      ∀ (ks' : List Prog) (args : List (Ty × S)), genList (inst fx G tbl) ks' args = true →
        genList G (templList tbl ks') args = true ∧ isInstList tbl (templList tbl ks') ks' = true
    | [], [] => by intro _; simp [templList, genList, isInstList]
    | [], _ :: _ => by intro hg; simp [genList] at hg
    | _ :: _, [] => by intro hg; simp [genList] at hg
    | k' :: ks', (t, s) :: as => by
      intro hg
      unfold genList at hg
      rw [Bool.and_eq_true] at hg
      have ih1 := gen_inst_templ fx tbl G h k' (t, (s, ())) hg.1
      have ih2 := genList_inst_templ fx tbl G h ks' as hg.2
      unfold templList genList isInstList
      simp [ih1.1, ih1.2, ih2.1, ih2.2]
end

mutual
  theorem gen_inst_of_isInst (fx : Fix) (tbl : Tbl) (G : TT S Unit) (h : rulesOK fx tbl G.rules = true) :
      ∀ (t t' : Prog) (nt : NT S Unit), gen G t nt = true → isInst tbl t t' = true →
        gen (inst fx G tbl) t' nt = true
    | .node P kids, .node k kids', nt => by
      intro hg hi
      unfold gen at hg
      unfold isInst at hi
      rw [Bool.and_eq_true] at hi
      cases hr : G.rule? nt P with
      | none => rw [hr] at hg; cases hg
      | some r =>
        obtain ⟨args, u⟩ := r
        rw [hr] at hg
        simp only at hg
        have hok := okKey_of_rule h hr
        have hp := (produces_iff_symInst hok).mpr hi.1
        unfold gen
        rw [rule?_inst_of_produces h nt hok hp, hr]
        simp only
        exact genList_inst_of_isInst fx tbl G h kids kids' args hg hi.2
  theorem genList_inst_of_isInst (fx : Fix) (tbl : Tbl) (G : TT S Unit) (h : rulesOK fx tbl G.rules = true) :
      ∀ (ks ks' : List Prog) (args : List (Ty × S)), genList G ks args = true →
        isInstList tbl ks ks' = true → genList (inst fx G tbl) ks' args = true
    | [], [], [] => by intro _ _; simp [genList]
    | [], [], _ :: _ => by intro hg; simp [genList] at hg
    | [], _ :: _, _ => by intro _ hi; simp [isInstList] at hi
    | _ :: _, [], _ => by intro _ hi; simp [isInstList] at hi
    | _ :: _, _ :: _, [] => by intro hg; simp [genList] at hg
    | k :: ks, k' :: ks', (t, s) :: as => by
      intro hg hi
      unfold genList at hg
      unfold isInstList at hi
      rw [Bool.and_eq_true] at hg hi
      unfold genList
      rw [Bool.and_eq_true]
      exact ⟨gen_inst_of_isInst fx tbl G h k k' (t, (s, ())) hg.1 hi.1,
             genList_inst_of_isInst fx tbl G h ks ks' as hg.2 hi.2⟩
end

mutual
  theorem templ_of_isInst (fx : Fix) (tbl : Tbl) (G : TT S Unit) (h : rulesOK fx tbl G.rules = true) :
      ∀ (t t' : Prog) (nt : NT S Unit), gen G t nt = true → isInst tbl t t' = true →
        templ tbl t' = t
    | .node P kids, .node k kids', nt => by
      intro hg hi
      unfold gen at hg
      unfold isInst at hi
      rw [Bool.and_eq_true] at hi
      cases hr : G.rule? nt P with
      | none => rw [hr] at hg; cases hg
      | some r =>
        obtain ⟨args, u⟩ := r
        rw [hr] at hg
        simp only at hg
        have hok := okKey_of_rule h hr
        have hp := (produces_iff_symInst hok).mpr hi.1
        unfold templ
        rw [templSym_of_produces hok hp, templList_of_isInstList fx tbl G h kids kids' args hg hi.2]
  theorem templList_of_isInstList (fx : Fix) (tbl : Tbl) (G : TT S Unit) (h : rulesOK fx tbl G.rules = true) :
      ∀ (ks ks' : List Prog) (args : List (Ty × S)), genList G ks args = true →
        isInstList tbl ks ks' = true → templList tbl ks' = ks
    | [], [], _ => by intro _ _; rfl
    | [], _ :: _, _ => by intro _ hi; simp [isInstList] at hi
    | _ :: _, [], _ => by intro _ hi; simp [isInstList] at hi
    | _ :: _, _ :: _, [] => by intro hg; simp [genList] at hg
    | k :: ks, k' :: ks', (t, s) :: as => by
      intro hg hi
      unfold genList at hg
      unfold isInstList at hi
      rw [Bool.and_eq_true] at hg hi
      unfold templList
      rw [templ_of_isInst fx tbl G h k k' (t, (s, ())) hg.1 hi.1,
          templList_of_isInstList fx tbl G h ks ks' as hg.2 hi.2]
end

end grammar

end PS.IC
