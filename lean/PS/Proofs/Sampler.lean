/- C09 — proofs about the alias-table construction (`PS.Model.Sampler`, section PythonSampler). -/
import PS.Model.Sampler
import Mathlib.Tactic.Ring
import Mathlib.Tactic.Linarith
import Mathlib.Tactic.FieldSimp
import Mathlib.Algebra.BigOperators.Group.Finset.Basic
import Mathlib.Algebra.BigOperators.Group.Finset.Piecewise
import Mathlib.Algebra.BigOperators.Ring.Finset
import Mathlib.Algebra.Order.Field.Rat
namespace PS.Sampler

/-! ## list helpers -/

theorem getD_set (l : List Rat) (i j : Nat) (v : Rat) :
    (l.set i v).getD j 0 = if i = j ∧ i < l.length then v else l.getD j 0 := by
  simp only [List.getD_eq_getElem?_getD, List.getElem?_set]
  by_cases h : i = j
  · subst h
    by_cases h2 : i < l.length
    · simp [h2]
    · simp [h2]
  · simp [h]

theorem getD_set_nat (l : List Nat) (i j : Nat) (v : Nat) :
    (l.set i v).getD j 0 = if i = j ∧ i < l.length then v else l.getD j 0 := by
  simp only [List.getD_eq_getElem?_getD, List.getElem?_set]
  by_cases h : i = j
  · subst h
    by_cases h2 : i < l.length
    · simp [h2]
    · simp [h2]
  · simp [h]

theorem drain_length (l : List Nat) (p : List Rat) : (drain l p).length = p.length := by
  unfold drain
  induction l generalizing p with
  | nil => rfl
  | cons a l ih => simp [List.foldl_cons, ih]

theorem drain_getD (l : List Nat) (p : List Rat) (j : Nat) :
    (drain l p).getD j 0 = if j ∈ l ∧ j < p.length then 1 else p.getD j 0 := by
  unfold drain
  induction l generalizing p with
  | nil => simp
  | cons a l ih =>
    rw [List.foldl_cons, ih, getD_set, List.length_set]
    by_cases h2 : j < p.length
    · by_cases h3 : a = j
      · subst h3; simp [h2]
      · simp [h2, h3, Ne.symm h3]
    · have h0 : p.getD j 0 = 0 := by
        simp [List.getD_eq_getElem?_getD, List.getElem?_eq_none (Nat.le_of_not_lt h2)]
      have h5 : ¬ (a = j ∧ a < p.length) := by
        rintro ⟨rfl, h⟩; exact h2 h
      simp [h2, h5]

/-! ## the pairing step -/

/-- the arrays after one pairing step -/
def stepSt (avg : Rat) (less more : Nat) (st : St) : St :=
  ⟨st.weights.set more (st.weights.getD more 0 + st.weights.getD less 0 - avg),
   st.alias.set less more,
   st.proba.set less (st.weights.getD less 0 / avg)⟩

theorem pairStep_cases (avg : Rat) (less more : Nat) (small large : List Nat) (st : St) :
    (pairStep avg less more small large st = (small, large ++ [more], stepSt avg less more st) ∧
      avg ≤ st.weights.getD more 0 + st.weights.getD less 0 - avg) ∨
    (pairStep avg less more small large st = (small ++ [more], large, stepSt avg less more st) ∧
      st.weights.getD more 0 + st.weights.getD less 0 - avg < avg) := by
  simp only [pairStep, stepSt]
  by_cases h : st.weights.getD more 0 + st.weights.getD less 0 - avg ≥ avg
  · left; rw [if_pos h]; exact ⟨rfl, h⟩
  · right; rw [if_neg h]; exact ⟨rfl, not_le.mp h⟩

theorem pairLoop_cons (avg : Rat) (fuel less more : Nat) (small large : List Nat) (st : St) :
    pairLoop avg (fuel + 1) (less :: small) (more :: large) st =
      pairLoop avg fuel (pairStep avg less more small large st).1
        (pairStep avg less more small large st).2.1 (pairStep avg less more small large st).2.2 := rfl

theorem pairLoop_zero (avg : Rat) (small large : List Nat) (st : St) :
    pairLoop avg 0 small large st = (small, large, st) := by
  simp [pairLoop]

theorem pairLoop_nil_left (avg : Rat) (fuel : Nat) (large : List Nat) (st : St) :
    pairLoop avg fuel [] large st = ([], large, st) := by
  cases fuel <;> simp [pairLoop]

theorem pairLoop_nil_right (avg : Rat) (fuel : Nat) (small : List Nat) (st : St) :
    pairLoop avg fuel small [] st = (small, [], st) := by
  cases fuel <;> cases small <;> simp [pairLoop]

/-- with fuel ≥ |small|+|large| the pairing loop exits with one work list empty
    (as the Python while loop does) -/
theorem pairLoop_exit (avg : Rat) (fuel : Nat) (small large : List Nat) (st : St)
    (h : small.length + large.length ≤ fuel) :
    (pairLoop avg fuel small large st).1 = [] ∨ (pairLoop avg fuel small large st).2.1 = [] := by
  induction fuel generalizing small large st with
  | zero =>
    rw [pairLoop_zero]
    left
    have : small.length = 0 := by omega
    simpa using this
  | succ fuel ih =>
    cases small with
    | nil => rw [pairLoop_nil_left]; left; rfl
    | cons less small =>
      cases large with
      | nil => rw [pairLoop_nil_right]; right; rfl
      | cons more large =>
        rw [pairLoop_cons]
        apply ih
        simp only [List.length_cons] at h
        rcases pairStep_cases avg less more small large st with ⟨e, _⟩ | ⟨e, _⟩ <;>
          rw [e] <;> simp <;> omega

/-! ## lengths and alias range -/

theorem stepSt_lengths (avg : Rat) (less more : Nat) (st : St) :
    (stepSt avg less more st).weights.length = st.weights.length ∧
    (stepSt avg less more st).alias.length = st.alias.length ∧
    (stepSt avg less more st).proba.length = st.proba.length := by
  simp [stepSt]

theorem pairLoop_lengths (avg : Rat) (fuel : Nat) (small large : List Nat) (st : St) :
    (pairLoop avg fuel small large st).2.2.weights.length = st.weights.length ∧
    (pairLoop avg fuel small large st).2.2.alias.length = st.alias.length ∧
    (pairLoop avg fuel small large st).2.2.proba.length = st.proba.length := by
  induction fuel generalizing small large st with
  | zero => rw [pairLoop_zero]; exact ⟨rfl, rfl, rfl⟩
  | succ fuel ih =>
    cases small with
    | nil => rw [pairLoop_nil_left]; exact ⟨rfl, rfl, rfl⟩
    | cons less small =>
      cases large with
      | nil => rw [pairLoop_nil_right]; exact ⟨rfl, rfl, rfl⟩
      | cons more large =>
        rw [pairLoop_cons]
        have hs := stepSt_lengths avg less more st
        rcases pairStep_cases avg less more small large st with ⟨e, _⟩ | ⟨e, _⟩ <;>
          · rw [e]
            obtain ⟨h1, h2, h3⟩ := ih _ _ (stepSt avg less more st)
            exact ⟨h1.trans hs.1, h2.trans hs.2.1, h3.trans hs.2.2⟩

theorem build_lengths (ws : List Rat) :
    (build ws).alias.length = ws.length ∧ (build ws).proba.length = ws.length := by
  unfold build buildLoop
  obtain ⟨_, h2, h3⟩ := pairLoop_lengths (avgOf ws) ws.length (initSmall (avgOf ws) ws)
    (initLarge (avgOf ws) ws) (initSt ws)
  simp only [drain_length]
  constructor
  · rw [h2]; simp [initSt]
  · rw [h3]; simp [initSt]

theorem pairLoop_alias_lt (n : Nat) (avg : Rat) (fuel : Nat) (small large : List Nat) (st : St)
    (hs : ∀ j ∈ small, j < n) (hl : ∀ j ∈ large, j < n) (ha : ∀ a ∈ st.alias, a < n) :
    ∀ a ∈ (pairLoop avg fuel small large st).2.2.alias, a < n := by
  induction fuel generalizing small large st with
  | zero => rw [pairLoop_zero]; exact ha
  | succ fuel ih =>
    cases small with
    | nil => rw [pairLoop_nil_left]; exact ha
    | cons less small =>
      cases large with
      | nil => rw [pairLoop_nil_right]; exact ha
      | cons more large =>
        rw [pairLoop_cons]
        have hm : more < n := hl more (by simp)
        have hs' : ∀ j ∈ small, j < n := fun j hj => hs j (by simp [hj])
        have hl' : ∀ j ∈ large, j < n := fun j hj => hl j (by simp [hj])
        have ha' : ∀ a ∈ (stepSt avg less more st).alias, a < n := by
          intro a h
          rcases List.mem_or_eq_of_mem_set h with h | h
          · exact ha a h
          · exact h ▸ hm
        rcases pairStep_cases avg less more small large st with ⟨e, _⟩ | ⟨e, _⟩ <;> rw [e]
        · apply ih _ _ _ hs' _ ha'
          intro j hj
          rcases List.mem_append.mp hj with h | h
          · exact hl' j h
          · simp at h; exact h ▸ hm
        · apply ih _ _ _ _ hl' ha'
          intro j hj
          rcases List.mem_append.mp hj with h | h
          · exact hs' j h
          · simp at h; exact h ▸ hm

theorem mem_initSmall {avg : Rat} {ws : List Rat} {j : Nat} :
    j ∈ initSmall avg ws ↔ j < ws.length ∧ ws.getD j 0 < avg := by
  simp [initSmall, List.mem_filter]

theorem mem_initLarge {avg : Rat} {ws : List Rat} {j : Nat} :
    j ∈ initLarge avg ws ↔ j < ws.length ∧ avg ≤ ws.getD j 0 := by
  simp [initLarge, List.mem_filter]

/-- every alias entry is a valid index -/
theorem build_alias_lt (ws : List Rat) : ∀ a ∈ (build ws).alias, a < ws.length := by
  unfold build buildLoop
  apply pairLoop_alias_lt
  · intro j hj; exact (mem_initSmall.mp hj).1
  · intro j hj; exact (mem_initLarge.mp hj).1
  · intro a ha
    simp only [initSt, List.mem_replicate] at ha
    obtain ⟨h1, h2⟩ := ha
    subst h2
    exact Nat.pos_of_ne_zero h1

/-! ## the potential function -/

theorem sum_change_two (n a b : Nat) (f g : Nat → Rat) (ha : a < n) (hb : b < n) (hab : a ≠ b)
    (h : ∀ j, j ≠ a → j ≠ b → f j = g j) (hh : f a + f b = g a + g b) :
    ∑ j ∈ Finset.range n, f j = ∑ j ∈ Finset.range n, g j := by
  have ha' : a ∈ Finset.range n := Finset.mem_range.2 ha
  have hb' : b ∈ (Finset.range n).erase a :=
    Finset.mem_erase.2 ⟨hab.symm, Finset.mem_range.2 hb⟩
  rw [← Finset.add_sum_erase _ f ha', ← Finset.add_sum_erase _ f hb',
    ← Finset.add_sum_erase _ g ha', ← Finset.add_sum_erase _ g hb']
  have : ∑ x ∈ ((Finset.range n).erase a).erase b, f x =
      ∑ x ∈ ((Finset.range n).erase a).erase b, g x := by
    apply Finset.sum_congr rfl
    intro j hj
    simp only [Finset.mem_erase] at hj
    exact h j hj.2.1 hj.1
  rw [this]; linarith

/-- mass of outcome `k` accounted for by index `j`: the remaining weight if `j` is still
    unprocessed, `avg` times the column mass otherwise -/
def contrib (avg : Rat) (st : St) (U : List Nat) (k j : Nat) : Rat :=
  if j ∈ U then (if j = k then st.weights.getD j 0 else 0)
  else avg * ((if j = k then st.proba.getD j 0 else 0) +
              (if st.alias.getD j 0 = k then 1 - st.proba.getD j 0 else 0))

def Phi (avg : Rat) (n : Nat) (st : St) (U : List Nat) (k : Nat) : Rat :=
  ∑ j ∈ Finset.range n, contrib avg st U k j

theorem Phi_step (avg : Rat) (havg : avg ≠ 0) (n : Nat) (st : St) (less more : Nat)
    (U U' : List Nat) (hl : less < n) (hm : more < n) (hne : less ≠ more)
    (lw : st.weights.length = n) (la : st.alias.length = n) (lp : st.proba.length = n)
    (hU1 : less ∈ U) (hU2 : more ∈ U) (hU' : ∀ j, j ∈ U' ↔ (j ∈ U ∧ j ≠ less)) (k : Nat) :
    Phi avg n (stepSt avg less more st) U' k = Phi avg n st U k := by
  unfold Phi
  apply sum_change_two n less more _ _ hl hm hne
  · intro j h1 h2
    have e1 : (j ∈ U') = (j ∈ U) := by simp [hU', h1]
    simp only [contrib, stepSt, getD_set, getD_set_nat, e1]
    simp [Ne.symm h1, Ne.symm h2]
  · have a1 : less ∉ U' := by simp [hU']
    have a2 : more ∈ U' := by simp [hU', hU2, Ne.symm hne]
    simp only [contrib, stepSt, getD_set, getD_set_nat, a1, a2, hU1, hU2, if_true, if_false]
    simp [lw, la, lp, hl, hm]
    by_cases c1 : less = k <;> by_cases c2 : more = k <;> simp [c1, c2] <;> (field_simp; try ring)

/-! ## the loop invariant -/

def sumW (w : List Rat) (l : List Nat) : Rat := (l.map (fun j => w.getD j 0)).sum

theorem sumW_cons (w : List Rat) (a : Nat) (l : List Nat) :
    sumW w (a :: l) = w.getD a 0 + sumW w l := by simp [sumW]

theorem sumW_set (w : List Rat) (m : Nat) (v : Rat) (l : List Nat) (h : m ∉ l) :
    sumW (w.set m v) l = sumW w l := by
  unfold sumW
  congr 1
  apply List.map_congr_left
  intro j hj
  rw [getD_set]
  have : ¬ (m = j ∧ m < w.length) := by rintro ⟨rfl, _⟩; exact h hj
  simp [this]

theorem sumW_perm (w : List Rat) {l l' : List Nat} (h : List.Perm l l') : sumW w l = sumW w l' :=
  (h.map _).sum_eq

structure Inv (ws : List Rat) (avg : Rat) (small large : List Nat) (st : St) : Prop where
  lw : st.weights.length = ws.length
  la : st.alias.length = ws.length
  lp : st.proba.length = ws.length
  nodup : (small ++ large).Nodup
  lt : ∀ j ∈ small ++ large, j < ws.length
  hsmall : ∀ j ∈ small, st.weights.getD j 0 < avg
  hlarge : ∀ j ∈ large, avg ≤ st.weights.getD j 0
  hsum : sumW st.weights (small ++ large) = ((small ++ large).length : Rat) * avg
  hphi : ∀ k, Phi avg ws.length st (small ++ large) k = ws.getD k 0

theorem perm_work (less more : Nat) (small large : List Nat) :
    List.Perm ((less :: small) ++ (more :: large)) (less :: more :: (small ++ large)) := by
  have h1 : List.Perm ((less :: small) ++ (more :: large)) (more :: ((less :: small) ++ large)) :=
    List.perm_middle
  exact h1.trans (List.Perm.swap less more _)

theorem Inv.facts {ws : List Rat} {avg : Rat} {less more : Nat} {small large : List Nat} {st : St}
    (h : Inv ws avg (less :: small) (more :: large) st) :
    less ≠ more ∧ less ∉ small ++ large ∧ more ∉ small ++ large ∧ (small ++ large).Nodup ∧
      less < ws.length ∧ more < ws.length := by
  have hnd := (perm_work less more small large).nodup_iff.mp h.nodup
  rw [List.nodup_cons, List.nodup_cons] at hnd
  obtain ⟨h1, h2, h3⟩ := hnd
  refine ⟨fun e => h1 (by simp [e]), fun e => h1 (List.mem_cons_of_mem _ e), h2, h3,
    h.lt less (by simp), h.lt more (by simp)⟩

theorem stepSt_w_more (avg : Rat) (less more : Nat) (st : St) (h : more < st.weights.length) :
    (stepSt avg less more st).weights.getD more 0 =
      st.weights.getD more 0 + st.weights.getD less 0 - avg := by
  simp [stepSt, h]

theorem stepSt_w_other (avg : Rat) (less more j : Nat) (st : St) (h : j ≠ more) :
    (stepSt avg less more st).weights.getD j 0 = st.weights.getD j 0 := by
  simp [stepSt, Ne.symm h]

theorem Inv_step_core {ws : List Rat} {avg : Rat} (havg : avg ≠ 0) {less more : Nat}
    {small large : List Nat} {st : St}
    (h : Inv ws avg (less :: small) (more :: large) st) (small' large' : List Nat)
    (hperm : List.Perm (small' ++ large') (more :: (small ++ large)))
    (hs : ∀ j ∈ small', (stepSt avg less more st).weights.getD j 0 < avg)
    (hl : ∀ j ∈ large', avg ≤ (stepSt avg less more st).weights.getD j 0) :
    Inv ws avg small' large' (stepSt avg less more st) := by
  obtain ⟨hne, hln, hmn, hnd, hl_lt, hm_lt⟩ := h.facts
  have hp0 := perm_work less more small large
  refine ⟨by simp [stepSt, h.lw], by simp [stepSt, h.la], by simp [stepSt, h.lp],
    hperm.nodup_iff.mpr (List.nodup_cons.mpr ⟨hmn, hnd⟩), ?_, hs, hl, ?_, ?_⟩
  · intro j hj
    rcases List.mem_cons.mp (hperm.mem_iff.mp hj) with e | e
    · exact e ▸ hm_lt
    · exact h.lt j (hp0.mem_iff.mpr (by simp [List.mem_append.mp e]))
  · have hsum0 := h.hsum
    rw [sumW_perm _ hp0, hp0.length_eq, sumW_cons, sumW_cons] at hsum0
    rw [sumW_perm _ hperm, hperm.length_eq, sumW_cons, stepSt_w_more _ _ _ _ (h.lw ▸ hm_lt)]
    have e3 : sumW (stepSt avg less more st).weights (small ++ large) =
        sumW st.weights (small ++ large) := sumW_set _ _ _ _ hmn
    rw [e3]
    simp only [List.length_cons] at hsum0 ⊢
    push_cast at hsum0 ⊢
    linarith
  · intro k
    rw [← h.hphi k]
    apply Phi_step avg havg ws.length st less more _ _ hl_lt hm_lt hne h.lw h.la h.lp
    · simp
    · simp
    · intro j
      rw [hperm.mem_iff, hp0.mem_iff]
      simp only [List.mem_cons]
      constructor
      · rintro (e | e)
        · exact ⟨Or.inr (Or.inl e), fun e2 => hne (e2.symm.trans e)⟩
        · exact ⟨Or.inr (Or.inr e), fun e2 => hln (e2 ▸ e)⟩
      · rintro ⟨e | e | e, e2⟩
        · exact absurd e e2
        · exact Or.inl e
        · exact Or.inr e

theorem Inv_step {ws : List Rat} {avg : Rat} (havg : avg ≠ 0) {less more : Nat}
    {small large : List Nat} {st : St}
    (h : Inv ws avg (less :: small) (more :: large) st) :
    Inv ws avg (pairStep avg less more small large st).1 (pairStep avg less more small large st).2.1
      (pairStep avg less more small large st).2.2 := by
  obtain ⟨hne, hln, hmn, hnd, hl_lt, hm_lt⟩ := h.facts
  have hmw : more < st.weights.length := h.lw ▸ hm_lt
  have hsm : ∀ j ∈ small, (stepSt avg less more st).weights.getD j 0 < avg := by
    intro j hj
    rw [stepSt_w_other _ _ _ _ _ (fun e => hmn (by simp [← e, hj]))]
    exact h.hsmall j (List.mem_cons_of_mem _ hj)
  have hlg : ∀ j ∈ large, avg ≤ (stepSt avg less more st).weights.getD j 0 := by
    intro j hj
    rw [stepSt_w_other _ _ _ _ _ (fun e => hmn (by simp [← e, hj]))]
    exact h.hlarge j (List.mem_cons_of_mem _ hj)
  rcases pairStep_cases avg less more small large st with ⟨e, hc⟩ | ⟨e, hc⟩ <;> rw [e]
  · apply Inv_step_core havg h small (large ++ [more])
    · rw [← List.append_assoc]; exact List.perm_append_singleton _ _
    · exact hsm
    · intro j hj
      rcases List.mem_append.mp hj with h1 | h1
      · exact hlg j h1
      · simp at h1; subst h1; rw [stepSt_w_more _ _ _ _ hmw]; exact hc
  · apply Inv_step_core havg h (small ++ [more]) large
    · rw [List.append_assoc]; exact List.perm_middle
    · intro j hj
      rcases List.mem_append.mp hj with h1 | h1
      · exact hsm j h1
      · simp at h1; subst h1; rw [stepSt_w_more _ _ _ _ hmw]; exact hc
    · exact hlg

theorem pairLoop_inv {ws : List Rat} {avg : Rat} (havg : avg ≠ 0) (fuel : Nat)
    (small large : List Nat) (st : St) (h : Inv ws avg small large st) :
    Inv ws avg (pairLoop avg fuel small large st).1 (pairLoop avg fuel small large st).2.1
      (pairLoop avg fuel small large st).2.2 := by
  induction fuel generalizing small large st with
  | zero => rw [pairLoop_zero]; exact h
  | succ fuel ih =>
    cases small with
    | nil => rw [pairLoop_nil_left]; exact h
    | cons less small =>
      cases large with
      | nil => rw [pairLoop_nil_right]; exact h
      | cons more large =>
        rw [pairLoop_cons]
        exact ih _ _ _ (Inv_step havg h)

/-! ## the initial state -/

theorem filter_split_sum (p : Nat → Bool) (f : Nat → Rat) (l : List Nat) :
    ((l.filter (fun i => !p i)).map f).sum + ((l.filter p).map f).sum = (l.map f).sum := by
  induction l with
  | nil => simp
  | cons a l ih =>
    cases hp : p a <;> simp [hp] <;> linarith

theorem filter_split_length (p : Nat → Bool) (l : List Nat) :
    (l.filter (fun i => !p i)).length + (l.filter p).length = l.length := by
  induction l with
  | nil => simp
  | cons a l ih =>
    cases hp : p a <;> simp [hp] <;> omega

theorem map_getD_range (ws : List Rat) :
    (List.range ws.length).map (fun j => ws.getD j 0) = ws := by
  apply List.ext_getElem
  · simp
  · intro i h1 h2
    simp [List.getD_eq_getElem?_getD, h2]

theorem getD_of_le (ws : List Rat) (k : Nat) (h : ws.length ≤ k) : ws.getD k 0 = 0 := by
  simp [List.getD_eq_getElem?_getD, List.getElem?_eq_none h]

theorem length_pos_of_sum_ne (ws : List Rat) (hs : ws.sum ≠ 0) : 0 < ws.length := by
  cases ws with
  | nil => simp at hs
  | cons a l => simp

theorem avgOf_mul (ws : List Rat) (hs : ws.sum ≠ 0) : (ws.length : Rat) * avgOf ws = ws.sum := by
  have hn : (ws.length : Rat) ≠ 0 := by
    have := length_pos_of_sum_ne ws hs
    exact_mod_cast (Nat.pos_iff_ne_zero.mp this)
  unfold avgOf
  field_simp

theorem avgOf_ne (ws : List Rat) (hs : ws.sum ≠ 0) : avgOf ws ≠ 0 := by
  intro h
  have := avgOf_mul ws hs
  rw [h, mul_zero] at this
  exact hs this.symm

theorem Inv_init (ws : List Rat) (hs : ws.sum ≠ 0) :
    Inv ws (avgOf ws) (initSmall (avgOf ws) ws) (initLarge (avgOf ws) ws) (initSt ws) := by
  have hmem : ∀ j, j < ws.length → j ∈ initSmall (avgOf ws) ws ++ initLarge (avgOf ws) ws := by
    intro j hj
    rw [List.mem_append, mem_initSmall, mem_initLarge]
    rcases lt_or_ge (ws.getD j 0) (avgOf ws) with h | h
    · exact Or.inl ⟨hj, h⟩
    · exact Or.inr ⟨hj, h⟩
  refine ⟨rfl, by simp [initSt], by simp [initSt], ?_, ?_, ?_, ?_, ?_, ?_⟩
  · rw [List.nodup_append]
    refine ⟨List.nodup_range.filter _, List.nodup_range.filter _, ?_⟩
    intro a ha b hb e
    subst e
    exact absurd (mem_initSmall.mp ha).2 (not_lt.mpr (mem_initLarge.mp hb).2)
  · intro j hj
    rcases List.mem_append.mp hj with h | h
    · exact (mem_initSmall.mp h).1
    · exact (mem_initLarge.mp h).1
  · intro j hj; exact (mem_initSmall.mp hj).2
  · intro j hj; exact (mem_initLarge.mp hj).2
  · show sumW ws _ = _
    unfold sumW
    rw [List.map_append, List.sum_append, List.length_append]
    unfold initSmall initLarge
    rw [filter_split_sum, map_getD_range]
    have := filter_split_length (fun i => decide (ws.getD i 0 ≥ avgOf ws)) (List.range ws.length)
    rw [List.length_range] at this
    rw [this, avgOf_mul ws hs]
  · intro k
    unfold Phi
    have : ∀ j ∈ Finset.range ws.length,
        contrib (avgOf ws) (initSt ws) (initSmall (avgOf ws) ws ++ initLarge (avgOf ws) ws) k j =
          if j = k then ws.getD j 0 else 0 := by
      intro j hj
      unfold contrib
      rw [if_pos (hmem j (Finset.mem_range.mp hj))]
      rfl
    rw [Finset.sum_congr rfl this, Finset.sum_ite_eq']
    by_cases hk : k < ws.length
    · simp [hk]
    · simp [hk]

/-! ## the exit state -/

theorem sum_ge_of_all_ge (c : Rat) (f : Nat → Rat) (l : List Nat) (h : ∀ x ∈ l, c ≤ f x) :
    (l.length : Rat) * c ≤ (l.map f).sum := by
  induction l with
  | nil => simp
  | cons a l ih =>
    have h1 := h a (by simp)
    have h2 := ih (fun x hx => h x (List.mem_cons_of_mem _ hx))
    simp only [List.length_cons, List.map_cons, List.sum_cons]
    push_cast
    linarith

theorem all_eq_of_ge (c : Rat) (f : Nat → Rat) (l : List Nat) (h : ∀ x ∈ l, c ≤ f x)
    (hsum : (l.map f).sum = (l.length : Rat) * c) : ∀ x ∈ l, f x = c := by
  induction l with
  | nil => simp
  | cons a l ih =>
    have h1 := h a (by simp)
    have h' : ∀ x ∈ l, c ≤ f x := fun x hx => h x (List.mem_cons_of_mem _ hx)
    have h2 := sum_ge_of_all_ge c f l h'
    simp only [List.length_cons, List.map_cons, List.sum_cons] at hsum
    push_cast at hsum
    intro x hx
    rcases List.mem_cons.mp hx with e | e
    · subst e; linarith
    · exact ih h' (by linarith) x e

theorem sum_map_neg (f : Nat → Rat) (l : List Nat) :
    (l.map (fun x => - f x)).sum = - (l.map f).sum := by
  induction l with
  | nil => simp
  | cons a l ih => simp only [List.map_cons, List.sum_cons, ih]; ring

theorem all_eq_of_le (c : Rat) (f : Nat → Rat) (l : List Nat) (h : ∀ x ∈ l, f x ≤ c)
    (hsum : (l.map f).sum = (l.length : Rat) * c) : ∀ x ∈ l, f x = c := by
  have := all_eq_of_ge (-c) (fun x => - f x) l (fun x hx => neg_le_neg (h x hx)) (by
    rw [sum_map_neg, hsum]; ring)
  intro x hx
  have := this x hx
  linarith

theorem Inv.exit_weights {ws : List Rat} {avg : Rat} {small large : List Nat} {st : St}
    (h : Inv ws avg small large st) (he : small = [] ∨ large = []) :
    ∀ j ∈ small ++ large, st.weights.getD j 0 = avg := by
  have hsum := h.hsum
  unfold sumW at hsum
  rcases he with e | e
  · subst e
    simp only [List.nil_append] at hsum ⊢
    exact all_eq_of_ge avg _ large h.hlarge hsum
  · subst e
    simp only [List.append_nil] at hsum ⊢
    exact all_eq_of_le avg _ small (fun j hj => le_of_lt (h.hsmall j hj)) hsum

/-! ## the main theorem -/

theorem list_sum_range (f : Nat → Rat) (n : Nat) :
    ((List.range n).map f).sum = ∑ j ∈ Finset.range n, f j := by
  induction n with
  | zero => simp
  | succ n ih => rw [List.range_succ, List.map_append, List.sum_append, ih, Finset.sum_range_succ]; simp

theorem build_proba_getD (ws : List Rat) (j : Nat) (hj : j < ws.length) :
    (build ws).proba.getD j 0 =
      if j ∈ (buildLoop ws).1 ++ (buildLoop ws).2.1 then 1 else (buildLoop ws).2.2.proba.getD j 0 := by
  have hl : (buildLoop ws).2.2.proba.length = ws.length := by
    unfold buildLoop
    rw [(pairLoop_lengths _ _ _ _ _).2.2]; simp [initSt]
  show (drain (buildLoop ws).2.1 (drain (buildLoop ws).1 (buildLoop ws).2.2.proba)).getD j 0 = _
  rw [drain_getD, drain_getD, drain_length, hl]
  by_cases h1 : j ∈ (buildLoop ws).1 <;> by_cases h2 : j ∈ (buildLoop ws).2.1 <;>
    simp [h1, h2, hj]

/-- MAIN THEOREM: the distribution induced by the tables is the normalised weight vector.
    No sign hypothesis is needed, only a non-zero total. -/
theorem aliasDist_build (ws : List Rat) (hs : ws.sum ≠ 0) (k : Nat) :
    aliasDist (build ws) k = normalised ws k := by
  have havg := avgOf_ne ws hs
  have hinv : Inv ws (avgOf ws) (buildLoop ws).1 (buildLoop ws).2.1 (buildLoop ws).2.2 :=
    pairLoop_inv havg _ _ _ _ (Inv_init ws hs)
  have hexit : (buildLoop ws).1 = [] ∨ (buildLoop ws).2.1 = [] := by
    apply pairLoop_exit
    have := filter_split_length (fun i => decide (ws.getD i 0 ≥ avgOf ws)) (List.range ws.length)
    rw [List.length_range] at this
    exact le_of_eq this
  have hw := hinv.exit_weights hexit
  have hcol : ∀ j ∈ Finset.range ws.length,
      avgOf ws * colMass (build ws) k j =
        contrib (avgOf ws) (buildLoop ws).2.2 ((buildLoop ws).1 ++ (buildLoop ws).2.1) k j := by
    intro j hj
    have hj' := Finset.mem_range.mp hj
    unfold colMass contrib ind
    rw [build_proba_getD ws j hj']
    have ha : (build ws).alias = (buildLoop ws).2.2.alias := rfl
    rw [ha]
    by_cases hU : j ∈ (buildLoop ws).1 ++ (buildLoop ws).2.1
    · rw [if_pos hU, if_pos hU, hw j hU]
      by_cases c : j = k <;> simp [c]
    · rw [if_neg hU, if_neg hU]
      simp only [beq_iff_eq]
  unfold aliasDist normalised
  rw [(build_lengths ws).2, list_sum_range]
  have hphi := hinv.hphi k
  unfold Phi at hphi
  rw [← Finset.sum_congr rfl hcol, ← Finset.mul_sum] at hphi
  have hmul := avgOf_mul ws hs
  have hn : (ws.length : Rat) ≠ 0 := by
    intro h; rw [h, zero_mul] at hmul; exact hs hmul.symm
  rw [← hphi, ← hmul]
  field_simp

/-! ## range of the coin biases -/

/-- extra invariant for non-negative weights -/
def Inv2 (small large : List Nat) (st : St) : Prop :=
  (∀ j ∈ small ++ large, 0 ≤ st.weights.getD j 0) ∧ (∀ p ∈ st.proba, 0 ≤ p ∧ p ≤ 1)

theorem Inv2_step {ws : List Rat} {avg : Rat} (havg : 0 < avg) {less more : Nat}
    {small large : List Nat} {st : St}
    (h : Inv ws avg (less :: small) (more :: large) st)
    (h2 : Inv2 (less :: small) (more :: large) st) :
    Inv2 (pairStep avg less more small large st).1 (pairStep avg less more small large st).2.1
      (pairStep avg less more small large st).2.2 := by
  obtain ⟨hne, hln, hmn, hnd, hl_lt, hm_lt⟩ := h.facts
  have hmw : more < st.weights.length := h.lw ▸ hm_lt
  have hwl0 : 0 ≤ st.weights.getD less 0 := h2.1 less (by simp)
  have hwl1 : st.weights.getD less 0 < avg := h.hsmall less (by simp)
  have hwm : avg ≤ st.weights.getD more 0 := h.hlarge more (by simp)
  have hold : ∀ j ∈ small ++ large, 0 ≤ (stepSt avg less more st).weights.getD j 0 := by
    intro j hj
    rw [stepSt_w_other _ _ _ _ _ (fun e : j = more => hmn (e ▸ hj))]
    apply h2.1
    rcases List.mem_append.mp hj with e | e
    · simp [e]
    · simp [e]
  have hnew : 0 ≤ (stepSt avg less more st).weights.getD more 0 := by
    rw [stepSt_w_more _ _ _ _ hmw]; linarith
  have hp : ∀ p ∈ (stepSt avg less more st).proba, 0 ≤ p ∧ p ≤ 1 := by
    intro p hp
    rcases List.mem_or_eq_of_mem_set hp with e | e
    · exact h2.2 p e
    · subst e
      refine ⟨div_nonneg hwl0 (le_of_lt havg), ?_⟩
      rw [div_le_iff₀ havg]; linarith
  rcases pairStep_cases avg less more small large st with ⟨e, _⟩ | ⟨e, _⟩ <;> rw [e]
  · refine ⟨?_, hp⟩
    intro j hj
    rw [← List.append_assoc] at hj
    rcases List.mem_append.mp hj with h1 | h1
    · exact hold j h1
    · simp at h1; subst h1; exact hnew
  · refine ⟨?_, hp⟩
    intro j hj
    rcases List.mem_append.mp hj with h1 | h1
    · rcases List.mem_append.mp h1 with h3 | h3
      · exact hold j (List.mem_append_left _ h3)
      · simp at h3; subst h3; exact hnew
    · exact hold j (List.mem_append_right _ h1)

theorem pairLoop_inv2 {ws : List Rat} {avg : Rat} (havg : 0 < avg) (fuel : Nat)
    (small large : List Nat) (st : St) (h : Inv ws avg small large st) (h2 : Inv2 small large st) :
    Inv2 (pairLoop avg fuel small large st).1 (pairLoop avg fuel small large st).2.1
      (pairLoop avg fuel small large st).2.2 := by
  induction fuel generalizing small large st with
  | zero => rw [pairLoop_zero]; exact h2
  | succ fuel ih =>
    cases small with
    | nil => rw [pairLoop_nil_left]; exact h2
    | cons less small =>
      cases large with
      | nil => rw [pairLoop_nil_right]; exact h2
      | cons more large =>
        rw [pairLoop_cons]
        exact ih _ _ _ (Inv_step (ne_of_gt havg) h) (Inv2_step havg h h2)

theorem drain_mem (l : List Nat) (q : List Rat) : ∀ p ∈ drain l q, p ∈ q ∨ p = 1 := by
  unfold drain
  induction l generalizing q with
  | nil => intro p hp; exact Or.inl hp
  | cons a l ih =>
    intro p hp
    rw [List.foldl_cons] at hp
    rcases ih _ p hp with e | e
    · exact List.mem_or_eq_of_mem_set e
    · exact Or.inr e

/-- for non-negative weights with positive total every coin bias is a probability -/
theorem build_proba_range (ws : List Rat) (hpos : ∀ w ∈ ws, 0 ≤ w) (hs : 0 < ws.sum) :
    ∀ p ∈ (build ws).proba, 0 ≤ p ∧ p ≤ 1 := by
  have hs' : ws.sum ≠ 0 := ne_of_gt hs
  have hn : (0 : Rat) < (ws.length : Rat) := by
    exact_mod_cast length_pos_of_sum_ne ws hs'
  have havg : 0 < avgOf ws := div_pos hs hn
  have hinit : Inv2 (initSmall (avgOf ws) ws) (initLarge (avgOf ws) ws) (initSt ws) := by
    constructor
    · intro j _
      show 0 ≤ ws.getD j 0
      by_cases hj : j < ws.length
      · rw [List.getD_eq_getElem?_getD, List.getElem?_eq_getElem hj]
        exact hpos _ (List.getElem_mem hj)
      · rw [getD_of_le ws j (Nat.le_of_not_lt hj)]
    · intro p hp
      simp only [initSt, List.mem_replicate] at hp
      rw [hp.2]; exact ⟨le_refl _, zero_le_one⟩
  have h2 : Inv2 (buildLoop ws).1 (buildLoop ws).2.1 (buildLoop ws).2.2 :=
    pairLoop_inv2 havg _ _ _ _ (Inv_init ws hs') hinit
  intro p hp
  have hp' : p ∈ drain (buildLoop ws).2.1 (drain (buildLoop ws).1 (buildLoop ws).2.2.proba) := hp
  rcases drain_mem _ _ p hp' with e | e
  · rcases drain_mem _ _ p e with e' | e'
    · exact h2.2 p e'
    · rw [e']; exact ⟨zero_le_one, le_refl _⟩
  · rw [e]; exact ⟨zero_le_one, le_refl _⟩

/-! ## counting form of the coin -/

theorem count_lt_range (h m : Nat) :
    ((List.range m).filter (fun i => decide (i < h))).length = min h m := by
  induction m with
  | zero => simp
  | succ m ih =>
    rw [List.range_succ, List.filter_append, List.length_append, ih]
    by_cases c : m < h
    · simp [c]; omega
    · simp [c]; omega

theorem coin_lt_iff (T : Tables) (m col h i : Nat) (hm : 0 < m)
    (hp : T.proba.getD col 0 = (h : Rat) / (m : Rat)) :
    ((i : Rat) / (m : Rat) < T.proba.getD col 0) ↔ i < h := by
  have hm' : (0 : Rat) < (m : Rat) := by exact_mod_cast hm
  rw [hp, div_lt_div_iff_of_pos_right hm']
  exact Nat.cast_lt

/-- counting form of the biased coin: if m·proba[col] is the natural number h ≤ m, exactly h of
    the m equally spaced values u = i/m (i < m) give heads -/
theorem coinCount_heads (T : Tables) (m col h : Nat) (hm : 0 < m) (hh : h ≤ m)
    (hp : T.proba.getD col 0 = (h : Rat) / (m : Rat)) (hne : T.alias.getD col 0 ≠ col) :
    coinCount T m col col = h ∧ coinCount T m col (T.alias.getD col 0) = m - h := by
  have hne1 : ¬ T.alias[col]?.getD 0 = col := by simpa using hne
  have hne2 : ¬ col = T.alias[col]?.getD 0 := fun e => hne1 e.symm
  have e1 : (List.range m).filter (fun (i : Nat) => sample1 T col ((i : Rat) / (m : Rat)) == col) =
      (List.range m).filter (fun i => decide (i < h)) := by
    apply List.filter_congr
    intro i _
    unfold sample1
    by_cases c : i < h
    · rw [if_pos ((coin_lt_iff T m col h i hm hp).mpr c)]; simp [c]
    · rw [if_neg (fun hc => c ((coin_lt_iff T m col h i hm hp).mp hc))]; simp [c, hne1]
  have e2 : (List.range m).filter
        (fun (i : Nat) => sample1 T col ((i : Rat) / (m : Rat)) == T.alias.getD col 0) =
      (List.range m).filter (fun i => !decide (i < h)) := by
    apply List.filter_congr
    intro i _
    unfold sample1
    by_cases c : i < h
    · rw [if_pos ((coin_lt_iff T m col h i hm hp).mpr c)]; simp [c, hne2]
    · rw [if_neg (fun hc => c ((coin_lt_iff T m col h i hm hp).mp hc))]; simp [c]
  have hsplit := filter_split_length (fun i => decide (i < h)) (List.range m)
  have hc := count_lt_range h m
  rw [List.length_range] at hsplit
  unfold coinCount
  rw [e1, e2]
  constructor
  · omega
  · omega

end PS.Sampler
