import PS.Model.Sampler
import Mathlib.Tactic.Ring
import Mathlib.Tactic.Linarith
import Mathlib.Tactic.FieldSimp
import Mathlib.Algebra.BigOperators.Group.Finset.Basic
import Mathlib.Algebra.Order.Field.Rat
namespace PS.Sampler
open Finset in
example (n : Nat) (f : Nat → Rat) : ∑ j ∈ Finset.range (n+1), f j = ∑ j ∈ Finset.range n, f j + f n := Finset.sum_range_succ f n
example (a b : Rat) (h : a ≠ 0) : a * (b / a) = b := by field_simp
example (a b : Rat) (h : a < b) : a ≤ b := by linarith
#check @List.nodup_append
#check @List.getElem?_set
#check @List.getD_eq_getElem?_getD
#check @Finset.add_sum_erase
#check @Finset.sum_ite_eq
#check @List.mem_or_eq_of_mem_set
end PS.Sampler
