import PS.Model.SamplerU
import PS.Proofs.SamplerGrammar

namespace PS.Sampler

/-- rule tables are Python dicts: distinct keys -/
def UKeysNodup (G : UG) : Prop :=
  ∀ S rules, AList.lookup S G = some rules → (rules.map (·.1)).Nodup

/-- the number of arguments of a symbol does not depend on the non-terminal or the alternative
    (in the implementation it is determined by the type of the primitive) -/
def URanked (G : UG) (ar : Sym → Nat) : Prop :=
  ∀ S rules P alts a, AList.lookup S G = some rules → (P, alts) ∈ rules → a ∈ alts → a.1.length = ar P

/- well-ranked trees: every node has as many children as the arity of its symbol -/
mutual
  def wrU (ar : Sym → Nat) : Tree Sym → Prop
    | .node P kids => kids.length = ar P ∧ wrListU ar kids
  def wrListU (ar : Sym → Nat) : List (Tree Sym) → Prop
    | [] => True
    | t :: ts => wrU ar t ∧ wrListU ar ts
end

theorem deriveU_eq (G : UG) (info : List NT) (S : NT) (P : Sym) (alts : List (List NT × Rat))
    (h : (AList.lookup S G).bind (AList.lookup P) = some alts) :
    deriveU G info S P = alts.map (fun a => popNext (a.1 ++ info)) := by
  unfold deriveU
  rw [h]
  simp only
  apply List.map_congr_left
  intro a _
  cases ha : a.1 with
  | nil =>
    simp only [List.nil_append, popNext]
    cases info <;> rfl
  | cons x r => simp only [List.cons_append, popNext]

theorem lookup2_mem (G : UG) (S : NT) (P : Sym) (alts : List (List NT × Rat))
    (h : (AList.lookup S G).bind (AList.lookup P) = some alts) :
    ∃ rules, AList.lookup S G = some rules ∧ (P, alts) ∈ rules := by
  cases hS : AList.lookup S G with
  | none => rw [hS] at h; simp at h
  | some rules =>
    rw [hS] at h
    simp only [Option.bind_some] at h
    exact ⟨rules, rfl, AList.lookup_some_mem h⟩

theorem deriveU_mem (G : UG) (ar : Sym → Nat) (hR : URanked G ar) (info : List NT) (S : NT) (P : Sym)
    (q : List NT × Option NT) (hq : q ∈ deriveU G info S P) :
    ∃ as : List NT, as.length = ar P ∧ q = popNext (as ++ info) := by
  cases hl : (AList.lookup S G).bind (AList.lookup P) with
  | none =>
    unfold deriveU at hq
    rw [hl] at hq
    simp at hq
  | some alts =>
    rw [deriveU_eq G info S P alts hl, List.mem_map] at hq
    obtain ⟨a, ha, rfl⟩ := hq
    obtain ⟨rules, hS, hP⟩ := lookup2_mem G S P alts hl
    exact ⟨a.1, hR S rules P alts a hS hP ha, rfl⟩

mutual
  theorem deriveAllU_stack (G : UG) (ar : Sym → Nat) (hR : URanked G ar) :
      ∀ (t : Tree Sym), wrU ar t → ∀ (info : List NT) (S : NT) (q : List NT × Option NT),
        q ∈ deriveAllU G info (some S) t → q = popNext info
    | .node P kids, hw, info, S, q, hq => by
      rw [deriveAllU] at hq
      rw [wrU] at hw
      refine deriveAllListU_stack G ar hR kids hw.2 info (deriveU G info S P) ?_ q hq
      intro q' hq'
      obtain ⟨as, hlen, he⟩ := deriveU_mem G ar hR info S P q' hq'
      exact ⟨as, by rw [hlen, hw.1], he⟩
  theorem deriveAllListU_stack (G : UG) (ar : Sym → Nat) (hR : URanked G ar) :
      ∀ (ts : List (Tree Sym)), wrListU ar ts → ∀ (info : List NT) (poss : List (List NT × Option NT)),
        (∀ q ∈ poss, ∃ as : List NT, as.length = ts.length ∧ q = popNext (as ++ info)) →
        ∀ q ∈ deriveAllListU G poss ts, q = popNext info
    | [], _, info, poss, hp, q, hq => by
      rw [deriveAllListU] at hq
      obtain ⟨as, hlen, he⟩ := hp q hq
      have : as = [] := List.length_eq_zero_iff.mp hlen
      subst this
      simpa using he
    | t :: ts, hw, info, poss, hp, q, hq => by
      rw [deriveAllListU] at hq
      rw [wrListU] at hw
      refine deriveAllListU_stack G ar hR ts hw.2 info _ ?_ q hq
      intro q' hq'
      rw [List.mem_flatMap] at hq'
      obtain ⟨p, hp1, hp2⟩ := hq'
      obtain ⟨as, hlen, rfl⟩ := hp p hp1
      cases as with
      | nil => simp at hlen
      | cons a as' =>
        simp only [List.cons_append, popNext] at hp2
        refine ⟨as', by simpa using hlen, ?_⟩
        exact deriveAllU_stack G ar hR t hw.1 (as' ++ info) a q' hp2
end

theorem sampleArgsWithU_spec (G : UG) (ar : Sym → Nat) (hR : URanked G ar)
    (rec : UDraws → NT → List NT → Option (Tree Sym × UDraws))
    (hrec : ∀ d c i t d', rec d c i = some (t, d') → derivesU G c t = true ∧ wrU ar t) :
    ∀ (as : List NT) (info : List NT) (d : UDraws) (kids : List (Tree Sym)) (d' : UDraws),
      sampleArgsWithU G rec as.length d (popNext (as ++ info)).2 (popNext (as ++ info)).1
        = some (kids, d') →
      derivesListU G as kids = true ∧ wrListU ar kids ∧ kids.length = as.length
  | [], info, d, kids, d', h => by
    simp only [List.length_nil, sampleArgsWithU, Option.some.injEq, Prod.mk.injEq] at h
    rw [← h.1]
    simp [derivesListU, wrListU]
  | a :: as, info, d, kids, d', h => by
    simp only [List.length_cons, List.cons_append, popNext, sampleArgsWithU] at h
    cases hr : rec d a (as ++ info) with
    | none => rw [hr] at h; simp at h
    | some p =>
      obtain ⟨arg, d1⟩ := p
      rw [hr] at h
      simp only at h
      obtain ⟨hd, hwr⟩ := hrec _ _ _ _ _ hr
      cases hh : (deriveAllU G (as ++ info) (some a) arg).head? with
      | none => rw [hh] at h; simp at h
      | some q =>
        have hq : q = popNext (as ++ info) :=
          deriveAllU_stack G ar hR arg hwr (as ++ info) a q (List.mem_of_head? hh)
        subst hq
        rw [hh] at h
        simp only at h
        cases hs : sampleArgsWithU G rec as.length d1 (popNext (as ++ info)).2 (popNext (as ++ info)).1 with
        | none => rw [hs] at h; simp at h
        | some r =>
          obtain ⟨args, d2⟩ := r
          rw [hs] at h
          simp only [Option.some.injEq, Prod.mk.injEq] at h
          obtain ⟨h1, h2, h3⟩ := sampleArgsWithU_spec G ar hR rec hrec as info d1 args d2 hs
          rw [← h.1, derivesListU, hd, Bool.true_and, wrListU]
          exact ⟨h1, ⟨hwr, h2⟩, by simp [h3]⟩

theorem sampleU_derives_wr (G : UG) (ar : Sym → Nat) (hK : UKeysNodup G) (hR : URanked G ar)
    (fuel : Nat) (d : UDraws) (S : NT) (info : List NT) (t : Tree Sym) (d' : UDraws)
    (h : sampleU G fuel d S info = some (t, d')) :
    derivesU G S t = true ∧ wrU ar t := by
  induction fuel generalizing d S info t d' with
  | zero => simp [sampleU] at h
  | succ fuel ih =>
    rw [sampleU] at h
    cases hp : popDraw d.rules S with
    | none => rw [hp] at h; simp at h
    | some p =>
      obtain ⟨i, r1⟩ := p
      rw [hp] at h
      simp only at h
      cases hl : (AList.lookup S G).bind (fun r => r[i]?) with
      | none => rw [hl] at h; simp at h
      | some q =>
        obtain ⟨P, alts⟩ := q
        rw [hl] at h
        simp only at h
        have hlk : (AList.lookup S G).bind (AList.lookup P) = some alts := by
          cases hS : AList.lookup S G with
          | none => rw [hS] at hl; simp at hl
          | some rules =>
            rw [hS] at hl
            simp only [Option.bind_some] at hl ⊢
            exact lookup_of_getElem?_nodup rules i P alts (hK S rules hS) hl
        obtain ⟨rules, hS, hP⟩ := lookup2_mem G S P alts hlk
        cases h0 : alts.head? with
        | none => rw [h0] at h; simp at h
        | some a0 =>
          rw [h0] at h
          simp only at h
          have ha0 : a0 ∈ alts := List.mem_of_head? h0
          have har0 : a0.1.length = ar P := hR S rules P alts a0 hS hP ha0
          by_cases hz : a0.1.length = 0
          · rw [if_pos hz] at h
            simp only [Option.some.injEq, Prod.mk.injEq] at h
            rw [← h.1, Tree.leaf, derivesU, hlk, wrU, wrListU]
            have : a0.1 = [] := List.length_eq_zero_iff.mp hz
            refine ⟨?_, ?_, trivial⟩
            · simp only [List.any_eq_true]
              exact ⟨a0, ha0, by rw [this, derivesListU]⟩
            · rw [← har0, hz]; rfl
          · rw [if_neg hz] at h
            cases hpa : popADraw d.alts (S, P) with
            | none => rw [hpa] at h; simp at h
            | some pj =>
              obtain ⟨j, a1⟩ := pj
              rw [hpa] at h
              simp only at h
              rw [deriveU_eq G info S P alts hlk, List.getElem?_map] at h
              cases hj : alts[j]? with
              | none => rw [hj] at h; simp at h
              | some a =>
                rw [hj] at h
                simp only [Option.map_some] at h
                have ha : a ∈ alts := List.mem_of_getElem? hj
                have har : a.1.length = ar P := hR S rules P alts a hS hP ha
                have hlen : a0.1.length = a.1.length := by rw [har0, har]
                rw [hlen] at h
                cases hs : sampleArgsWithU G (sampleU G fuel) a.1.length
                    { starts := d.starts, rules := r1, alts := a1 }
                    (popNext (a.1 ++ info)).2 (popNext (a.1 ++ info)).1 with
                | none => rw [hs] at h; simp at h
                | some r =>
                  obtain ⟨kids, d3⟩ := r
                  rw [hs] at h
                  simp only [Option.some.injEq, Prod.mk.injEq] at h
                  obtain ⟨h1, h2, h3⟩ := sampleArgsWithU_spec G ar hR (sampleU G fuel)
                    (fun d c i t d' hh => ih d c i t d' hh) a.1 info _ kids d3 hs
                  rw [← h.1, derivesU, hlk, wrU]
                  refine ⟨?_, ?_, h2⟩
                  · simp only [List.any_eq_true]
                    exact ⟨a, ha, h1⟩
                  · rw [h3, har]

theorem sampleU_derives (G : UG) (ar : Sym → Nat) (hK : UKeysNodup G) (hR : URanked G ar)
    (fuel : Nat) (d : UDraws) (S : NT) (info : List NT) (t : Tree Sym) (d' : UDraws)
    (h : sampleU G fuel d S info = some (t, d')) :
    derivesU G S t = true :=
  (sampleU_derives_wr G ar hK hR fuel d S info t d' h).1

theorem sampleProgramU_derives (G : UG) (ar : Sym → Nat) (hK : UKeysNodup G) (hR : URanked G ar)
    (starts : List NT) (fuel : Nat) (d : UDraws) (t : Tree Sym) (d' : UDraws)
    (h : sampleProgramU G starts fuel d = some (t, d')) :
    ∃ S ∈ starts, derivesU G S t = true := by
  unfold sampleProgramU at h
  cases hd : d.starts with
  | nil => rw [hd] at h; simp at h
  | cons k r =>
    rw [hd] at h
    simp only at h
    cases hk : starts[k]? with
    | none => rw [hk] at h; simp at h
    | some S =>
      rw [hk] at h
      simp only at h
      exact ⟨S, List.mem_of_getElem? hk, sampleU_derives G ar hK hR fuel _ S [] t d' h⟩

end PS.Sampler
