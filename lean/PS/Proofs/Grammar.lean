/- Lemmas about the shared grammar foundation (PS/Model/Grammar.lean). -/
import PS.Model.Grammar
namespace PS.G
open PS

variable {S : Type} [DecidableEq S]

/-- what a completed sub-derivation leaves: the pending stack loses its top, which becomes
    the next non-terminal -/
def Adv (info : List (Ty × S)) (r : Bool × List (Ty × S) × NT S Unit) : Prop :=
  r.1 = true → r.2.1 = info.tail ∧ ∀ b rest, info = b :: rest → r.2.2 = (b.1, (b.2, ()))

mutual
  theorem containsRec_gen (G : TT S Unit) :
      ∀ (t : Prog) (nt : NT S Unit) (info : List (Ty × S)),
        (containsRec G t nt info).1 = gen G t nt ∧ Adv info (containsRec G t nt info)
    | .node f kids, nt, info => by
      rw [containsRec, gen]
      cases hr : G.rule? nt f with
      | none => simp [Adv]
      | some r =>
        obtain ⟨args, st⟩ := r
        simp only
        by_cases hlen : kids.length = args.length
        · have hne : ¬ (kids.length != args.length) = true := by simp [hlen]
          simp only [hne]
          cases args with
          | nil =>
            have hk : kids = [] := List.length_eq_zero_iff.mp hlen
            subst hk
            cases info with
            | nil => simp [containsList, genList, deriveWith, Adv]
            | cons b rest => simp [containsList, genList, deriveWith, Adv]
          | cons a as =>
            have := containsList_gen G kids a as info hlen
            simpa [deriveWith] using this
        · have hne : (kids.length != args.length) = true := by simp [hlen]
          simp only [hne, if_true]
          refine ⟨?_, by simp [Adv]⟩
          -- lengths differ: genList is false
          symm
          exact genList_len_ne G kids args hlen
  theorem containsList_gen (G : TT S Unit) :
      ∀ (ks : List Prog) (a : Ty × S) (as : List (Ty × S)) (info : List (Ty × S)),
        ks.length = (a :: as).length →
        (containsList G ks (as ++ info) (a.1, (a.2, ()))).1 = genList G ks (a :: as) ∧
        Adv info (containsList G ks (as ++ info) (a.1, (a.2, ())))
    | [], a, as, info, h => by simp at h
    | k :: ks, a, as, info, h => by
      obtain ⟨h1, h2⟩ := containsRec_gen G k (a.1, (a.2, ())) (as ++ info)
      rw [containsList]
      cases hc : containsRec G k (a.1, (a.2, ())) (as ++ info) with
      | mk b rest =>
        obtain ⟨i, n⟩ := rest
        rw [hc] at h1 h2
        cases b with
        | false =>
          simp only
          have : gen G k (a.1, (a.2, ())) = false := by simpa using h1.symm
          obtain ⟨a1, a2⟩ := a
          simp [genList, this, Adv]
        | true =>
          simp only
          have hg : gen G k (a.1, (a.2, ())) = true := by simpa using h1.symm
          obtain ⟨hi, hn⟩ := h2 rfl
          simp only at hi hn
          cases as with
          | nil =>
            have hks : ks = [] := by
              simpa using h
            subst hks
            obtain ⟨a1, a2⟩ := a
            simp only [List.nil_append] at hi hn
            simp only [containsList, genList, hg, Bool.and_true, Adv, true_and]
            intro _
            exact ⟨hi, hn⟩
          | cons a' as' =>
            simp only [List.cons_append, List.tail_cons] at hi
            have hn' := hn a' (as' ++ info) rfl
            subst hi
            rw [hn']
            have hlen : ks.length = (a' :: as').length := by simp at h ⊢; omega
            have := containsList_gen G ks a' as' info hlen
            obtain ⟨a1, a2⟩ := a
            simp only [genList, hg, Bool.true_and]
            exact this
  theorem genList_len_ne (G : TT S Unit) :
      ∀ (ks : List Prog) (args : List (Ty × S)), ks.length ≠ args.length → genList G ks args = false
    | [], [], h => by simp at h
    | [], _ :: _, _ => by simp [genList]
    | _ :: _, [], _ => by simp [genList]
    | k :: ks, (t, s) :: as, h => by
      have : ks.length ≠ as.length := by simpa using h
      simp [genList, genList_len_ne G ks as this]
end

/-- `program in grammar` (stack-based deterministic derivation with the arity check) is
    plain top-down matching of the rule table. -/
theorem contains_eq_gen (G : TT S Unit) (t : Prog) : contains G t = gen G t G.start :=
  (containsRec_gen G t G.start []).1

end PS.G
