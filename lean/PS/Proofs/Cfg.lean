/- Lemmas for C01: the verified table checker (PS/Model/Cfg.lean). -/
import PS.Proofs.Grammar
import PS.Model.Cfg
namespace PS.G
open PS

theorem genRAny_iff (P : Params) (kids : List Prog) (f : Sym) (rs : List Rule) :
    genRAny P kids f rs = true ↔ ∃ r ∈ rs, r.1 = f ∧ genRList P kids r.2 = true := by
  simp [genRAny, List.any_eq_true]

theorem genR_unfold (P : Params) (f : Sym) (kids : List Prog) (nt : CNT) :
    genR P (.node f kids) nt = genRAny P kids f (ruleSet P nt) := by
  rw [genR]; rfl

theorem genR_iff (P : Params) (f : Sym) (kids : List Prog) (nt : CNT) :
    genR P (.node f kids) nt = true ↔ ∃ r ∈ ruleSet P nt, r.1 = f ∧ genRList P kids r.2 = true := by
  rw [genR_unfold]; exact genRAny_iff P kids f _

/-- a successful list match gives, for every argument non-terminal, a child derived from it -/
theorem genRList_mem (P : Params) :
    ∀ (ks : List Prog) (as : List (Ty × CFGState)), genRList P ks as = true →
      ∀ a ∈ as, ∃ k ∈ ks, genR P k (toNT a) = true
  | [], [], _, a, ha => by cases ha
  | [], _ :: _, h, _, _ => by simp [genRList] at h
  | _ :: _, [], h, _, _ => by simp [genRList] at h
  | k :: ks, a' :: as, h, a, ha => by
    rw [genRList] at h
    simp only [Bool.and_eq_true] at h
    rcases List.mem_cons.mp ha with ha | ha
    · subst ha; exact ⟨k, by simp, h.1⟩
    · obtain ⟨k', hk', hg⟩ := genRList_mem P ks as h.2 a ha
      exact ⟨k', List.mem_cons_of_mem _ hk', hg⟩

/-- **dead set**: nothing is derivable from a non-terminal of a valid dead set -/
theorem dead_no_term (P : Params) (dead : List CNT) (hd : deadOK P dead = true) :
    ∀ (n : Nat) (t : Prog), t.size ≤ n → ∀ d ∈ dead, genR P t d = false := by
  intro n
  induction n with
  | zero =>
    intro t ht
    cases t with | node f kids => simp [Tree.size] at ht
  | succ n ih =>
    intro t ht d hdm
    cases t with
    | node f kids =>
      cases hg : genR P (.node f kids) d with
      | false => rfl
      | true =>
        exfalso
        obtain ⟨r, hr, _, hl⟩ := (genR_iff P f kids d).mp hg
        unfold deadOK at hd
        rw [List.all_eq_true] at hd
        have h1 := hd d hdm
        rw [List.all_eq_true] at h1
        have h2 := h1 r hr
        rw [List.any_eq_true] at h2
        obtain ⟨a, ha, hdead⟩ := h2
        obtain ⟨k, hk, hgk⟩ := genRList_mem P kids r.2 hl a ha
        have hsz : k.size ≤ n := by
          have := Tree.size_lt_of_mem_kids (l := f) hk
          omega
        have := ih k hsz (toNT a) (by simpa using hdead)
        rw [this] at hgk
        cases hgk

/-- list matching against the table equals list matching against `ruleSet`, given it holds
    for each child and all argument non-terminals are keys -/
theorem genList_eq_genRList (P : Params) (G : CFG)
    (ks : List Prog) (hk : ∀ k ∈ ks, ∀ nt, AList.contains nt G.rules = true → gen G k nt = genR P k nt) :
    ∀ (as : List (Ty × CFGState)), (∀ a ∈ as, isKey G a = true) → genList G ks as = genRList P ks as := by
  induction ks with
  | nil => intro as _; cases as <;> simp [genList, genRList]
  | cons k ks ih =>
    intro as has
    cases as with
    | nil => simp [genList, genRList]
    | cons a as =>
      obtain ⟨t, s⟩ := a
      rw [genList, genRList]
      have h1 := hk k (by simp) (toNT (t, s)) (has (t, s) (by simp))
      have h2 := ih (fun k' hk' => hk k' (List.mem_cons_of_mem _ hk')) as
        (fun a ha => has a (List.mem_cons_of_mem _ ha))
      simp only [toNT] at h1
      rw [h1, h2]
      rfl

theorem rule?_eq (G : CFG) (nt : CNT) (rs) (h : AList.lookup nt G.rules = some rs) (f : Sym) :
    G.rule? nt f = AList.lookup f rs := by
  simp [TT.rule?, h]

/-- **the table and the rule-creation step generate the same terms from every key** -/
theorem table_gen_eq_genR (P : Params) (G : CFG) (dead : List CNT)
    (hrules : okRules P G dead = true) (hdead : deadOK P dead = true) :
    ∀ (n : Nat) (t : Prog), t.size ≤ n →
      ∀ nt, AList.contains nt G.rules = true → gen G t nt = genR P t nt := by
  intro n
  induction n with
  | zero =>
    intro t ht
    cases t with | node f kids => simp [Tree.size] at ht
  | succ n ih =>
    intro t ht nt hkey
    cases t with
    | node f kids =>
      have hkids : ∀ k ∈ kids, ∀ nt, AList.contains nt G.rules = true → gen G k nt = genR P k nt := by
        intro k hk nt' hkey'
        have := Tree.size_lt_of_mem_kids (l := f) hk
        exact ih k (by omega) nt' hkey'
      obtain ⟨rs, hrs⟩ := AList.contains_iff_lookup.mp hkey
      have hmem := AList.lookup_some_mem hrs
      unfold okRules at hrules
      rw [List.all_eq_true] at hrules
      have hok := hrules (nt, rs) hmem
      simp only [Bool.and_eq_true] at hok
      obtain ⟨hsame, hdrop⟩ := hok
      unfold sameRules at hsame
      simp only [Bool.and_eq_true, decide_eq_true_eq] at hsame
      obtain ⟨⟨hsub, hsup⟩, hnd⟩ := hsame
      rw [List.all_eq_true] at hsub hsup hdrop
      rw [gen, rule?_eq G nt rs hrs f]
      cases hg : genR P (.node f kids) nt with
      | true =>
        obtain ⟨r, hr, hrf, hl⟩ := (genR_iff P f kids nt).mp hg
        -- all arguments of r are keys, otherwise a dead argument would derive a child
        have hallkeys : r.2.all (isKey G) = true := by
          have := hdrop r hr
          rcases Bool.or_eq_true_iff.mp this with h | h
          · exact h
          · exfalso
            rw [List.any_eq_true] at h
            obtain ⟨a, ha, hda⟩ := h
            obtain ⟨k, hk, hgk⟩ := genRList_mem P kids r.2 hl a ha
            have := dead_no_term P dead hdead k.size k (Nat.le_refl _) (toNT a) (by simpa using hda)
            rw [this] at hgk; cases hgk
        have hfil : r ∈ (ruleSet P nt).filter (fun r => r.2.all (isKey G)) :=
          List.mem_filter.mpr ⟨hr, hallkeys⟩
        have := hsup r hfil
        rw [List.any_eq_true] at this
        obtain ⟨x, hx, hxe⟩ := this
        simp only [Bool.and_eq_true, beq_iff_eq] at hxe
        have hlk : AList.lookup f rs = some (r.2, ()) := by
          apply AList.lookup_of_mem_nodup hnd
          obtain ⟨x1, x2, x3⟩ := x
          simp only at hxe
          obtain ⟨h1, h2⟩ := hxe
          subst h1 h2 hrf
          exact hx
        rw [hlk]
        simp only
        rw [genList_eq_genRList P G kids hkids r.2 (by rw [List.all_eq_true] at hallkeys; exact hallkeys)]
        exact hl
      | false =>
        cases hlk : AList.lookup f rs with
        | none => rfl
        | some v =>
          obtain ⟨args, u⟩ := v
          simp only
          have hm := AList.lookup_some_mem hlk
          have h1 := hsub (f, (args, u)) hm
          have h1' : (f, args) ∈ (ruleSet P nt).filter (fun r => r.2.all (isKey G)) := by
            simpa using h1
          obtain ⟨hin, hkeys⟩ := List.mem_filter.mp h1'
          simp only at hkeys
          rw [genList_eq_genRList P G kids hkids args (by rw [List.all_eq_true] at hkeys; exact hkeys)]
          cases hl : genRList P kids args with
          | false => rfl
          | true =>
            have : genR P (.node f kids) nt = true :=
              (genR_iff P f kids nt).mpr ⟨(f, args), hin, rfl, hl⟩
            rw [hg] at this; cases this

/-! ### rule creation = well-typed terms -/

/-- with `n_gram ∈ {0, 1}` the n-gram context is always empty -/
def CtxOK (P : Params) (ctx : List (Sym × Nat)) : Prop :=
  (P.nGram = 0 ∨ P.nGram = 1) → ctx = []

theorem CtxOK_successor (P : Params) (ctx : List (Sym × Nat)) (new : Sym × Nat)
    (h : CtxOK P ctx) : CtxOK P (successor P.nGram ctx new) := by
  intro hn
  have hc := h hn
  subst hc
  unfold successor
  rcases hn with hn | hn <;> simp [hn]

theorem successor_head (P : Params) (ctx : List (Sym × Nat)) (new : Sym × Nat)
    (h : CtxOK P ctx) : (successor P.nGram ctx new).head? = effParent P new := by
  unfold successor effParent
  by_cases hn : P.nGram ≥ 2 ∨ P.nGram < 0
  · simp only [hn, if_true]
    split
    · rename_i hc
      -- dropLast of a list of length ≥ 2 keeps its head
      cases ctx with
      | nil => exfalso; simp at hc; omega
      | cons c cs => simp [List.dropLast]
    · simp
  · simp only [hn, if_false]
    have h01 : P.nGram = 0 ∨ P.nGram = 1 := by omega
    have hc := h h01
    subst hc
    rcases h01 with h0 | h1
    · simp [h0]
    · simp [h1]

theorem genRAny_append (P : Params) (kids : List Prog) (f : Sym) (a b : List Rule) :
    genRAny P kids f (a ++ b) = (genRAny P kids f a || genRAny P kids f b) := by
  simp [genRAny, List.any_append]

theorem genRList_nil (P : Params) (kids : List Prog) : genRList P kids [] = kids.isEmpty := by
  cases kids <;> simp [genRList]

theorem genRAny_leaves (P : Params) (kids : List Prog) (f : Sym) (ls : List Sym) :
    genRAny P kids f (ls.map (fun s => (s, []))) = (kids.isEmpty && ls.contains f) := by
  induction ls with
  | nil => simp [genRAny]
  | cons s ss ih =>
    have ih' : (ss.map (fun s => ((s, []) : Rule))).any (fun r => r.1 == f && genRList P kids r.2) =
        (kids.isEmpty && ss.contains f) := ih
    simp only [genRAny, List.map_cons, List.any_cons, ih', genRList_nil, List.contains_cons]
    by_cases h : s = f
    · subst h; cases kids.isEmpty <;> simp
    · have h' : (f == s) = false := by simp [Ne.symm h]
      have h'' : (s == f) = false := by simp [h]
      simp [h', h'']

/-- the argument non-terminals built by `childNTs` match the children exactly when the
    children are well typed at the argument types below `(f, i)` -/
theorem genRList_childNTs (P : Params) (ctx : List (Sym × Nat)) (d : Nat) (f : Sym)
    (hctx : CtxOK P ctx)
    (kids : List Prog)
    (ih : ∀ k ∈ kids, ∀ ty ctx' d', CtxOK P ctx' →
      genR P k (ty, ((ctx', d'), ())) = wt P (effParent P) k d' ctx'.head? ty) :
    ∀ (tys : List Ty) (i : Nat),
      genRList P kids ((tys.zipIdx i).map (fun ai => (ai.1, (successor P.nGram ctx (f, ai.2), d + 1)))) =
      wtList P (effParent P) kids (d + 1) f i tys := by
  induction kids with
  | nil =>
    intro tys i
    cases tys <;> simp [genRList, wtList, List.zipIdx_cons]
  | cons k ks ihk =>
    intro tys i
    cases tys with
    | nil => simp [genRList, wtList]
    | cons a as =>
      simp only [List.zipIdx_cons, List.map_cons]
      rw [genRList, wtList]
      have h1 := ih k (by simp) a (successor P.nGram ctx (f, i)) (d + 1) (CtxOK_successor P ctx (f, i) hctx)
      rw [successor_head P ctx (f, i) hctx] at h1
      simp only [toNT]
      rw [h1, ihk (fun k' hk' => ih k' (List.mem_cons_of_mem _ hk')) as (i + 1)]

theorem genRAny_heads (P : Params) (ctx : List (Sym × Nat)) (d : Nat) (f : Sym)
    (hctx : CtxOK P ctx) (kids : List Prog)
    (ih : ∀ k ∈ kids, ∀ ty ctx' d', CtxOK P ctx' →
      genR P k (ty, ((ctx', d'), ())) = wt P (effParent P) k d' ctx'.head? ty)
    (hs : List (Sym × List Ty)) :
    genRAny P kids f (hs.map (fun h => (h.1, childNTs P ctx d h.1 h.2))) =
      wtHeads P (effParent P) kids (d + 1) f hs := by
  induction hs with
  | nil => simp [genRAny, wtHeads]
  | cons h hs ihh =>
    have ihh' : (hs.map (fun h => ((h.1, childNTs P ctx d h.1 h.2) : Rule))).any
          (fun r => r.1 == f && genRList P kids r.2) =
        hs.any (fun h => h.1 == f && wtList P (effParent P) kids (d + 1) f 0 h.2) := ihh
    simp only [genRAny, wtHeads, List.map_cons, List.any_cons, ihh']
    by_cases hf : h.1 = f
    · subst hf
      simp only [beq_self_eq_true, Bool.true_and]
      unfold childNTs
      rw [genRList_childNTs P ctx d h.1 hctx kids ih h.2 0]
    · have hf' : (h.1 == f) = false := by simp [hf]
      simp [hf']

/-- **rule creation = well-typed terms** (for every parameter set, including `n_gram ≤ 1`,
    where a child sees no parent) -/
theorem genR_eq_wt (P : Params) :
    ∀ (n : Nat) (t : Prog), t.size ≤ n → ∀ ty ctx d, CtxOK P ctx →
      genR P t (ty, ((ctx, d), ())) = wt P (effParent P) t d ctx.head? ty := by
  intro n
  induction n with
  | zero =>
    intro t ht
    cases t with | node f kids => simp [Tree.size] at ht
  | succ n ih =>
    intro t ht ty ctx d hctx
    cases t with
    | node f kids =>
      have hk : ∀ k ∈ kids, ∀ ty ctx' d', CtxOK P ctx' →
          genR P k (ty, ((ctx', d'), ())) = wt P (effParent P) k d' ctx'.head? ty := by
        intro k hk ty' ctx' d' hc'
        have := Tree.size_lt_of_mem_kids (l := f) hk
        exact ih k (by omega) ty' ctx' d' hc'
      rw [genR_unfold, wt]
      change _ = (decide (d < P.maxDepth) &&
        ((kids.isEmpty && (leafSyms P (forbAt P ctx.head?) d ty).contains f) ||
         (decide (d + 1 < P.maxDepth) &&
          wtHeads P (effParent P) kids (d + 1) f (appHeads P (forbAt P ctx.head?) d ty))))
      unfold ruleSet
      simp only
      by_cases h1 : d < P.maxDepth
      · simp only [h1, if_true, decide_true, Bool.true_and]
        rw [genRAny_append, genRAny_leaves]
        by_cases h2 : d + 1 < P.maxDepth
        · simp only [h2, if_true, decide_true, Bool.true_and]
          rw [genRAny_heads P ctx d f hctx kids hk]
        · simp [h2, genRAny]
      · simp [h1, genRAny]


/-! ### reachability and productivity certificates -/

/-- reachable from the start symbol through rules of the table -/
inductive Reach (G : CFG) : CNT → Prop
  | start : Reach G G.start
  | step {nt : CNT} {rs : AList Sym (List (Ty × CFGState) × Unit)} {r : Sym × (List (Ty × CFGState) × Unit)}
      {a : Ty × CFGState} :
      Reach G nt → AList.lookup nt G.rules = some rs → r ∈ rs → a ∈ r.2.1 → Reach G (toNT a)

def rk (r : AList CNT Nat) (n : CNT) : Nat := (AList.lookup n r).getD 0

theorem rankLt_lt {r : AList CNT Nat} {a b : CNT} (h : rankLt r a b = true) : rk r a < rk r b := by
  unfold rankLt at h
  unfold rk
  cases ha : AList.lookup a r <;> cases hb : AList.lookup b r <;> simp [ha, hb] at h ⊢
  exact h

theorem reach_of_cert (G : CFG) (rankR : AList CNT Nat) (hnd : (AList.keys G.rules).Nodup)
    (h : okReach G rankR = true) :
    ∀ (n : Nat) (e : CNT × AList Sym (List (Ty × CFGState) × Unit)), e ∈ G.rules → rk rankR e.1 ≤ n →
      Reach G e.1 := by
  unfold okReach at h
  rw [List.all_eq_true] at h
  intro n
  induction n with
  | zero =>
    intro e he hr
    have := h e he
    rcases Bool.or_eq_true_iff.mp this with hs | hs
    · have : e.1 = G.start := by simpa using hs
      rw [this]; exact Reach.start
    · rw [List.any_eq_true] at hs
      obtain ⟨e', _, hx⟩ := hs
      simp only [Bool.and_eq_true] at hx
      have := rankLt_lt hx.2
      omega
  | succ n ih =>
    intro e he hr
    have := h e he
    rcases Bool.or_eq_true_iff.mp this with hs | hs
    · have : e.1 = G.start := by simpa using hs
      rw [this]; exact Reach.start
    · rw [List.any_eq_true] at hs
      obtain ⟨e', he', hx⟩ := hs
      simp only [Bool.and_eq_true] at hx
      obtain ⟨hany, hlt⟩ := hx
      have hlt' := rankLt_lt hlt
      have hre := ih e' he' (by omega)
      rw [List.any_eq_true] at hany
      obtain ⟨r, hr', hany2⟩ := hany
      rw [List.any_eq_true] at hany2
      obtain ⟨a, ha, hae⟩ := hany2
      have hae' : toNT a = e.1 := by simpa using hae
      have hlk : AList.lookup e'.1 G.rules = some e'.2 :=
        AList.lookup_of_mem_nodup hnd (by cases e'; exact he')
      rw [← hae']
      exact Reach.step hre hlk hr' ha

theorem prod_of_cert (G : CFG) (rankP : AList CNT Nat) (hnd : (AList.keys G.rules).Nodup)
    (h : okProd G rankP = true) :
    ∀ (n : Nat) (e : CNT × AList Sym (List (Ty × CFGState) × Unit)), e ∈ G.rules → rk rankP e.1 ≤ n →
      ∃ t, gen G t e.1 = true := by
  unfold okProd at h
  rw [List.all_eq_true] at h
  intro n
  induction n with
  | zero =>
    intro e he hr
    have := h e he
    rw [List.any_eq_true] at this
    obtain ⟨r, _, hx⟩ := this
    simp only [Bool.and_eq_true, beq_iff_eq] at hx
    obtain ⟨hlk, hall⟩ := hx
    rw [List.all_eq_true] at hall
    -- with rank 0 the rule has no argument
    have hnil : r.2.1 = [] := by
      cases hargs : r.2.1 with
      | nil => rfl
      | cons a as =>
        have := hall a (by simp [hargs])
        simp only [Bool.and_eq_true] at this
        have := rankLt_lt this.2
        omega
    refine ⟨.node r.1 [], ?_⟩
    have hlk' : AList.lookup e.1 G.rules = some e.2 :=
      AList.lookup_of_mem_nodup hnd (by cases e; exact he)
    rw [gen]
    simp [TT.rule?, hlk', hlk, hnil, genList]
  | succ n ih =>
    intro e he hr
    have := h e he
    rw [List.any_eq_true] at this
    obtain ⟨r, _, hx⟩ := this
    simp only [Bool.and_eq_true, beq_iff_eq] at hx
    obtain ⟨hlk, hall⟩ := hx
    rw [List.all_eq_true] at hall
    have hlk' : AList.lookup e.1 G.rules = some e.2 :=
      AList.lookup_of_mem_nodup hnd (by cases e; exact he)
    -- a term for every argument
    have hkids : ∀ (as : List (Ty × CFGState)), (∀ a ∈ as, a ∈ r.2.1) → ∃ ks, genList G ks as = true := by
      intro as
      induction as with
      | nil => intro _; exact ⟨[], by simp [genList]⟩
      | cons a as iha =>
        intro hsub
        have ha := hall a (hsub a (by simp))
        simp only [Bool.and_eq_true] at ha
        obtain ⟨hkey, hlt⟩ := ha
        have hlt' := rankLt_lt hlt
        obtain ⟨rs', hrs'⟩ := AList.contains_iff_lookup.mp hkey
        have hmem := AList.lookup_some_mem hrs'
        obtain ⟨t, ht⟩ := ih (toNT a, rs') hmem (by simp only; omega)
        obtain ⟨ks, hks⟩ := iha (fun a' ha' => hsub a' (List.mem_cons_of_mem _ ha'))
        obtain ⟨a1, a2⟩ := a
        exact ⟨t :: ks, by simp only [genList, toNT] at ht ⊢; simp [ht, hks]⟩
    obtain ⟨ks, hks⟩ := hkids r.2.1 (fun a ha => ha)
    refine ⟨.node r.1 ks, ?_⟩
    rw [gen]
    simp [TT.rule?, hlk', hlk, hks]

end PS.G
