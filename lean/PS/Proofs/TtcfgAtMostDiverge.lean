/-
  C13, part 22: WHEN `TTCFG.at_most_k` DOES NOT TERMINATE.  Criterion (`not_terminates_of_unbounded`):
  if configurations (non-terminal, pending stack) with arbitrarily long pending stacks are reachable
  by the pushes of the worklist, then the worklist (keyed by rule and stack) never ends: the model
  runs out of every fuel.  Witness (finding C13-F9): `g : a → a → a`, `l : a`, request `a`, at most
  one `l` - the language is the single program `l`, yet the construction loops for ever, because
  `g` can be derived again and again without spending an occurrence.
-/
import PS.Proofs.TtcfgBuildExact
import PS.Proofs.TtcfgAtMostTerm
namespace PS.T
open PS PS.G

section Crit
variable {S T : Type} [DecidableEq S] [DecidableEq T]

/-- **non-termination criterion** -/
theorem not_terminates_of_unbounded (B : Builder S T) (prims : List Sym) (request : Ty)
    (h : ∀ n : Nat, ∃ c, SReach B prims request c ∧ n ≤ c.2.length) :
    ∀ fuel, saturationTable B prims request true fuel = none := by
  intro fuel
  cases h0 : saturationTable B prims request true fuel with
  | none => rfl
  | some G =>
    exfalso
    unfold saturationTable at h0
    cases hl : satLoop B prims request true fuel [((request.returns, B.init.1), B.init.2, [])] [] [] with
    | none => simp [hl] at h0
    | some tbl =>
      obtain ⟨seen', _, i2, i3, _⟩ := satLoop_closed B prims request fuel _ [] [] tbl
        (by intro x hx; cases hx) (by intro x hx; cases hx) hl
      have hall := sreach_in_closed B prims request seen' (i2 _ (List.mem_singleton.mpr rfl)) i3
      obtain ⟨c, hc, hn⟩ := h ((seen'.map (fun x => x.2.length)).sum + 1)
      have := le_sum_of_mem (fun x : NT S T × List (Ty × S) => x.2.length) seen' c (hall c hc)
      omega

omit [DecidableEq S] [DecidableEq T] in
theorem decorate_map_fst (B : Builder S T) (rule : NT S T) (P : Sym) (tys : List Ty) :
    (decorate B rule P tys).map (·.1) = tys := by
  unfold decorate enumFrom'
  simp only [List.map_map]
  exact map_zipIdx_fst (fun a => a) tys 0 |>.trans (by simp)

end Crit

namespace Ex
namespace Dv
def a : Ty := .base "a"
def g : Sym := Sym.prim "g" (Ty.mkFun [a, a] a)
def l : Sym := Sym.prim "l" a
/-- g : a → a → a, l : a -/
def dsl : Dsl := ⟨[g, l], []⟩
end Dv
end Ex

open Ex.Dv in
theorem dv_push (rule : NT Ctx Nat) (stack : List (Ty × Ctx)) (h1 : rule.1 = a) (h2 : rule.2.2 = 1) :
    ∃ p ∈ pushesOf (atMostBuilder dsl 2 "l" 1) dsl.prims a rule stack,
      (entryKey p).1.1 = a ∧ (entryKey p).1.2.2 = 1 ∧ (entryKey p).2.length = stack.length + 1 := by
  have hcand : (g, [a, a]) ∈ candidates dsl.prims a rule.1 := by
    rw [h1]; decide
  have htr : (atMostBuilder dsl 2 "l" 1).transition rule g = (true, 1) := by
    have hfb : forbHit dsl rule.2.1.head? g = false := by
      simp [forbHit, forbAtT, dsl]
    show atMostTransition dsl "l" rule g = (true, 1)
    unfold atMostTransition
    rw [hfb]
    have : symStr g ≠ "l" := by decide
    simp [this, h2]
  have hrow : (g, (decorate (atMostBuilder dsl 2 "l" 1) rule g [a, a], 1)) ∈ rowList (atMostBuilder dsl 2 "l" 1) dsl.prims a rule :=
    (mem_rowList _ _ _ _ _ _).mpr ⟨(g, [a, a]), hcand, rfl, by rw [htr], by rw [htr]⟩
  have hlen := decorate_length (atMostBuilder dsl 2 "l" 1) rule g [a, a]
  have hty := decorate_map_fst (atMostBuilder dsl 2 "l" 1) rule g [a, a]
  cases hD : decorate (atMostBuilder dsl 2 "l" 1) rule g [a, a] with
  | nil => rw [hD] at hlen; simp at hlen
  | cons d0 ds =>
    rw [hD] at hlen hty hrow
    refine ⟨(d0, 1, ds ++ stack), ?_, ?_, rfl, ?_⟩
    · unfold pushesOf
      rw [List.mem_filterMap]
      exact ⟨_, hrow, by simp⟩
    · simp only [List.map_cons, List.cons.injEq] at hty
      simp [entryKey, hty.1]
    · simp only [List.length_cons, List.length_nil] at hlen
      show (ds ++ stack).length = stack.length + 1
      rw [List.length_append]
      omega

open Ex.Dv in
/-- pending stacks of every length are reachable -/
theorem dv_unbounded : ∀ n : Nat, ∃ c, SReach (atMostBuilder dsl 2 "l" 1) dsl.prims a c ∧
    c.1.1 = a ∧ c.1.2.2 = 1 ∧ c.2.length = n
  | 0 => ⟨_, SReach.start, rfl, rfl, rfl⟩
  | n + 1 => by
    obtain ⟨c, hc, c1, c2, c3⟩ := dv_unbounded n
    obtain ⟨p, hp, p1, p2, p3⟩ := dv_push c.1 c.2 c1 c2
    exact ⟨entryKey p, SReach.push c.1 c.2 p hc hp, p1, p2, by rw [p3, c3]⟩

open Ex.Dv in
/-- **`at_most_k(dsl, a, "l", 1)` over g : a → a → a, l : a never returns** (every fuel) -/
theorem dv_diverges (fuel : Nat) : saturationTable (atMostBuilder dsl 2 "l" 1) dsl.prims a true fuel = none :=
  not_terminates_of_unbounded _ _ _ (fun n => by
    obtain ⟨c, hc, _, _, c3⟩ := dv_unbounded n
    exact ⟨c, hc, by omega⟩) fuel

/-! ### the language of the witness is the single program `l` -/

open Ex.Dv in
theorem dv_candidates : candidates dsl.prims a a = [(g, [a, a]), (l, [])] := by decide +kernel

open Ex.Dv in
/-- every well-typed term contains `l`; an application of `g` contains it twice -/
theorem dv_occ : ∀ (n : Nat) (t : Prog), Tree.size t ≤ n → ∀ parent, wtT dsl a some t parent a = true →
    1 ≤ occ "l" t ∧ (∀ kids, t = .node g kids → 2 ≤ occ "l" t)
  | 0, t, h, _, _ => by cases t with | node f kids => simp [Tree.size] at h
  | n + 1, .node f kids, hsz, parent, hw => by
    rw [wtT, dv_candidates] at hw
    simp only [List.any_cons, List.any_nil, Bool.or_false, Bool.and_eq_true, Bool.or_eq_true, beq_iff_eq] at hw
    have hs : Tree.sizeList kids ≤ n := by simp [Tree.size] at hsz; omega
    rcases hw.2 with ⟨hf, hk⟩ | ⟨hf, hk⟩
    · -- g k1 k2
      subst hf
      cases kids with
      | nil => simp [wtTList] at hk
      | cons k1 ks =>
        cases ks with
        | nil => simp [wtTList] at hk
        | cons k2 ks2 =>
          cases ks2 with
          | cons k3 ks3 => simp [wtTList] at hk
          | nil =>
            simp only [wtTList, Bool.and_eq_true, Bool.and_true] at hk
            have hp1 : 1 ≤ Tree.size k1 := by cases k1 with | node f kids => simp [Tree.size]
            have hp2 : 1 ≤ Tree.size k2 := by cases k2 with | node f kids => simp [Tree.size]
            have hs1 : Tree.size k1 ≤ n := by simp [Tree.sizeList] at hs; omega
            have hs2 : Tree.size k2 ≤ n := by simp [Tree.sizeList] at hs; omega
            have i1 := (dv_occ n k1 hs1 _ hk.1).1
            have i2 := (dv_occ n k2 hs2 _ hk.2).1
            have : occ "l" (.node g [k1, k2]) = (if symStr g = "l" then 1 else 0) + (occ "l" k1 + (occ "l" k2 + 0)) := by
              simp [occ, occList]
            refine ⟨by omega, fun _ _ => by omega⟩
    · -- l
      subst hf
      cases kids with
      | cons k1 ks => simp [wtTList] at hk
      | nil =>
        have : occ "l" (.node l []) = 1 := by decide +kernel
        refine ⟨by omega, ?_⟩
        intro kids e
        have : l = g := (Tree.node.inj e).1
        exact absurd this (by decide)

open Ex.Dv in
/-- **the occurrence-bounded language of the witness is `{l}`** -/
theorem dv_language (t : Prog) : AtMostOcc dsl a "l" 1 t = true ↔ t = .node l [] := by
  constructor
  · intro h
    unfold AtMostOcc at h
    simp only [Bool.and_eq_true, decide_eq_true_eq] at h
    have hret : a.returns = a := rfl
    rw [hret] at h
    cases t with
    | node f kids =>
      have hw := h.1
      have ho := dv_occ (Tree.size (.node f kids)) _ (Nat.le_refl _) none hw
      rw [wtT, dv_candidates] at hw
      simp only [List.any_cons, List.any_nil, Bool.or_false, Bool.and_eq_true, Bool.or_eq_true, beq_iff_eq] at hw
      rcases hw.2 with ⟨hf, _⟩ | ⟨hf, hk⟩
      · subst hf
        have := ho.2 kids rfl
        omega
      · subst hf
        cases kids with
        | cons k1 ks => simp [wtTList] at hk
        | nil => rfl
  · intro h; subst h; decide +kernel

end PS.T
