/-
  C13, part 11: `TTCFG.clean()` PRESERVES THE LANGUAGE (ttcfg.py:206-259), for every table none of
  whose non-terminals has the end-marker type `UnknownType` (what `derive` returns when a
  derivation is over), every fuel and every program.

  The argument.  `Dead nt` = no program is derivable from `nt` in the original table.
  * pass 1 (`reachLoop`) marks every non-terminal of every configuration (non-terminal, pending
    stack) reachable by the machine of partial derivations, with all its symbols
    (`reachLoop_spec`);
  * every pass of 2 (`passLoop`) keeps the invariant `PInv`: a marked non-terminal that was
    deleted is dead, a symbol that was removed from a row has a dead FIRST argument
    (`passStep_inv`, `passLoop_inv`, `passes_inv`) - the pass removes a symbol only when the
    non-terminal of its first argument was deleted, and deletes a non-terminal only when its row is
    empty;
  * hence a complete derivation of the original table never uses anything removed
    (`clean_complete_run`), and `clean_lang`: L(clean G) = L(G).
-/
import PS.Proofs.TtcfgClean
namespace PS.T
open PS PS.G

/-! ### association lists -/
section AL
variable {κ ν : Type} [DecidableEq κ]

theorem lookup_erase_ne {k k' : κ} (d : AList κ ν) (h : k' ≠ k) :
    AList.lookup k' (AList.erase k d) = AList.lookup k' d := by
  induction d with
  | nil => rfl
  | cons p r ih =>
    obtain ⟨k2, v2⟩ := p
    by_cases h2 : k2 = k
    · subst h2; simp [AList.erase, AList.lookup, Ne.symm h]
    · by_cases h3 : k2 = k'
      · subst h3; simp [AList.erase, AList.lookup, h2]
      · simp [AList.erase, AList.lookup, h2, h3, ih]

theorem keys_erase_sublist (k : κ) (d : AList κ ν) : (AList.keys (AList.erase k d)).Sublist (AList.keys d) := by
  induction d with
  | nil => simp [AList.erase, AList.keys]
  | cons p r ih =>
    obtain ⟨k2, v2⟩ := p
    by_cases h2 : k2 = k
    · simp only [AList.erase, h2, if_true, AList.keys, List.map_cons]
      exact List.sublist_cons_self _ _
    · simp only [AList.erase, h2, if_false, AList.keys, List.map_cons]
      exact List.Sublist.cons_cons _ ih

theorem lookup_erase_self (k : κ) (d : AList κ ν) (hnd : (AList.keys d).Nodup) :
    AList.lookup k (AList.erase k d) = none := by
  induction d with
  | nil => rfl
  | cons p r ih =>
    obtain ⟨k2, v2⟩ := p
    simp only [AList.keys, List.map_cons, List.nodup_cons] at hnd
    by_cases h2 : k2 = k
    · subst h2
      simp only [AList.erase, if_true]
      cases hl : AList.lookup k2 r with
      | none => rfl
      | some v =>
        exact absurd (List.mem_map.mpr ⟨(k2, v), AList.lookup_some_mem hl, rfl⟩) hnd.1
    · simp only [AList.erase, h2, if_false, AList.lookup]
      exact ih hnd.2

theorem keys_insert' (k : κ) (v : ν) (d : AList κ ν) :
    AList.keys (AList.insert k v d) = if AList.contains k d then AList.keys d else AList.keys d ++ [k] := by
  induction d with
  | nil => simp [AList.insert, AList.keys, AList.contains, AList.lookup]
  | cons p r ih =>
    obtain ⟨k2, v2⟩ := p
    by_cases h2 : k2 = k
    · subst h2; simp [AList.insert, AList.keys, AList.contains, AList.lookup]
    · have hc : AList.contains k ((k2, v2) :: r) = AList.contains k r := by
        simp [AList.contains, AList.lookup, h2]
      rw [hc]
      simp only [AList.insert, h2, if_false, AList.keys, List.map_cons]
      have := ih
      simp only [AList.keys] at this
      rw [this]
      by_cases hc2 : AList.contains k r = true <;> simp [hc2]

theorem nodup_insert' (k : κ) (v : ν) (d : AList κ ν) (h : (AList.keys d).Nodup) :
    (AList.keys (AList.insert k v d)).Nodup := by
  rw [keys_insert']
  by_cases hc : AList.contains k d = true
  · simp only [hc, if_true]; exact h
  · simp only [hc, Bool.false_eq_true, if_false]
    rw [List.nodup_append]
    refine ⟨h, by simp, ?_⟩
    intro a ha b hb
    simp only [List.mem_singleton] at hb
    subst hb
    intro e; subst e
    exact hc (AList.lookup_isSome_iff_mem_keys.mpr ha)

theorem contains_insert (k k' : κ) (v : ν) (d : AList κ ν) :
    AList.contains k' (AList.insert k v d) = (decide (k' = k) || AList.contains k' d) := by
  unfold AList.contains
  rw [AList.lookup_insert]
  by_cases h : k' = k <;> simp [h]

theorem lookup_map_val {μ : Type} (F : κ × ν → μ) (k : κ) :
    ∀ d : AList κ ν, AList.lookup k (d.map (fun e => (e.1, F e))) = (AList.lookup k d).map (fun v => F (k, v))
  | [] => rfl
  | e :: d => by
    obtain ⟨k2, v2⟩ := e
    simp only [List.map_cons, AList.lookup]
    by_cases hk : k2 = k
    · subst hk; simp
    · simp only [hk, if_false]
      exact lookup_map_val F k d

end AL

variable {S T : Type} [DecidableEq S] [DecidableEq T]

/-- no non-terminal of the table has the end-marker type (decidable; evaluated by the driver) -/
def noUnknownKey (G : TT S T) : Bool := G.rules.all (fun e => decide (e.1.1 ≠ Ty.unknown))

theorem noUnknown_inRules (G : TT S T) (h : noUnknownKey G = true) (nt : NT S T) (hin : inRules G nt = true) :
    nt.1 ≠ Ty.unknown := by
  unfold inRules at hin
  obtain ⟨row, hrow⟩ := lookup_of_contains hin
  unfold noUnknownKey at h
  rw [List.all_eq_true] at h
  simpa using h _ (AList.lookup_some_mem hrow)

/-! ### the machine `clean()` walks -/

/-- a configuration of `clean()`: non-terminal and pending stack -/
abbrev CConfig (S T : Type) := NT S T × List (Ty × S)

/-- `new_info, new_S = self.derive(info, rule, P)` followed when `new_S in self.rules` -/
inductive CStep (G : TT S T) : CConfig S T → CConfig S T → Prop where
  | mk (rule : NT S T) (info : List (Ty × S)) (P : Sym) (args : List (Ty × S)) (st : T) :
      G.rule? rule P = some (args, st) → inRules G (deriveWith info rule args st).2 = true →
      CStep G (rule, info) ((deriveWith info rule args st).2, (deriveWith info rule args st).1)

inductive CSteps (G : TT S T) : CConfig S T → CConfig S T → Prop where
  | refl (c : CConfig S T) : CSteps G c c
  | cons (c d e : CConfig S T) : CStep G c d → CSteps G d e → CSteps G c e

theorem CSteps.trans {G : TT S T} {c d e : CConfig S T} (h1 : CSteps G c d) (h2 : CSteps G d e) : CSteps G c e := by
  induction h1 with
  | refl _ => exact h2
  | cons c d' _ hs _ ih => exact CSteps.cons c d' e hs (ih h2)

theorem CSteps.snoc {G : TT S T} {c d e : CConfig S T} (h1 : CSteps G c d) (h2 : CStep G d e) : CSteps G c e :=
  CSteps.trans h1 (CSteps.cons d e e h2 (CSteps.refl e))

/-- reachable from the start configuration -/
def Reach0 (G : TT S T) (c : CConfig S T) : Prop := CSteps G (G.start, []) c

/-! ### pass 1: reachability -/

/-- `for P in self.rules[rule]: new_rules[rule].add(P)` -/
def addAll (row : Row S T) (acc : List Sym) : List Sym :=
  row.foldl (fun acc r => if acc.contains r.1 then acc else acc ++ [r.1]) acc

omit [DecidableEq S] [DecidableEq T] in
theorem addAll_spec : ∀ (row : Row S T) (acc : List Sym), acc.Nodup →
    (addAll row acc).Nodup ∧ (∀ x ∈ acc, x ∈ addAll row acc) ∧ ∀ r ∈ row, r.1 ∈ addAll row acc
  | [], acc, h => ⟨h, fun x hx => hx, by intro r hr; cases hr⟩
  | r :: row, acc, h => by
    unfold addAll
    rw [List.foldl_cons]
    by_cases hc : acc.contains r.1 = true
    · simp only [hc, if_true]
      obtain ⟨i1, i2, i3⟩ := addAll_spec row acc h
      refine ⟨i1, i2, ?_⟩
      intro r' hr'
      rcases List.mem_cons.mp hr' with e | hm
      · subst e; exact i2 _ (by simpa using hc)
      · exact i3 r' hm
    · simp only [hc, Bool.false_eq_true, if_false]
      have hnd : (acc ++ [r.1]).Nodup := by
        rw [List.nodup_append]
        refine ⟨h, by simp, ?_⟩
        intro a ha b hb
        simp only [List.mem_singleton] at hb
        subst hb
        intro e; subst e
        exact hc (by simpa using ha)
      obtain ⟨i1, i2, i3⟩ := addAll_spec row (acc ++ [r.1]) hnd
      refine ⟨i1, fun x hx => i2 x (List.mem_append.mpr (Or.inl hx)), ?_⟩
      intro r' hr'
      rcases List.mem_cons.mp hr' with e | hm
      · subst e; exact i2 _ (List.mem_append.mpr (Or.inr (List.mem_singleton.mpr rfl)))
      · exact i3 r' hm

/-- the marks are sets, and a marked non-terminal carries all its symbols -/
structure MarksOK (G : TT S T) (nr : Marks S T) : Prop where
  keys : (AList.keys nr).Nodup
  vals : ∀ rule l, AList.lookup rule nr = some l → l.Nodup
  full : ∀ rule l, AList.lookup rule nr = some l → ∀ P val, G.rule? rule P = some val → P ∈ l
  sub : ∀ rule, AList.contains rule nr = true → inRules G rule = true

theorem rule_mem_row (G : TT S T) (rule : NT S T) (P : Sym) (val : List (Ty × S) × T)
    (h : G.rule? rule P = some val) : ∃ row, AList.lookup rule G.rules = some row ∧ (P, val) ∈ row := by
  unfold TT.rule? at h
  cases hl : AList.lookup rule G.rules with
  | none => simp [hl] at h
  | some row =>
    simp only [hl] at h
    exact ⟨row, rfl, AList.lookup_some_mem h⟩

/-- **pass 1 marks every non-terminal of every reachable configuration**, with all its symbols -/
theorem reachLoop_spec (G : TT S T) :
    ∀ (fuel : Nat) (todo : List (CConfig S T)) (nr nr' : Marks S T),
      reachLoop G fuel todo nr = .ok nr' → MarksOK G nr →
      MarksOK G nr' ∧ (∀ k, AList.contains k nr = true → AList.contains k nr' = true) ∧
      ∀ c ∈ todo, ∀ c', CSteps G c c' → AList.contains c'.1 nr' = true
  | fuel, [], nr, nr', h, hm => by
    cases fuel <;> (simp only [reachLoop, Res.ok.injEq] at h; subst h;
                    exact ⟨hm, fun k hk => hk, by intro c hc; cases hc⟩)
  | 0, _ :: _, _, _, h, _ => by simp [reachLoop] at h
  | fuel + 1, (rule, info) :: todo, nr, nr', h, hm => by
    rw [reachLoop] at h
    cases hrow : AList.lookup rule G.rules with
    | none => simp [hrow] at h
    | some row =>
      simp only [hrow] at h
      have hold : ((AList.lookup rule nr).getD []).Nodup := by
        cases hl : AList.lookup rule nr with
        | none => simp
        | some l => simpa using hm.vals rule l hl
      obtain ⟨a1, a2, a3⟩ := addAll_spec row _ hold
      have hm1 : MarksOK G (AList.insert rule (addAll row ((AList.lookup rule nr).getD [])) nr) := by
        refine ⟨nodup_insert' _ _ _ hm.keys, ?_, ?_, ?_⟩
        rotate_right
        · intro rule' hc
          rw [contains_insert] at hc
          by_cases he : rule' = rule
          · rw [he]; exact contains_of_lookup hrow
          · simp only [he, decide_false, Bool.false_or] at hc; exact hm.sub rule' hc
        · intro rule' l hl
          rw [AList.lookup_insert] at hl
          by_cases he : rule' = rule
          · simp only [he, if_true, Option.some.injEq] at hl; subst hl; exact a1
          · simp only [he, if_false] at hl; exact hm.vals rule' l hl
        · intro rule' l hl P val hr
          rw [AList.lookup_insert] at hl
          by_cases he : rule' = rule
          · simp only [he, if_true, Option.some.injEq] at hl; subst hl
            obtain ⟨row', h1, h2⟩ := rule_mem_row G rule' P val hr
            rw [he, hrow] at h1
            cases h1
            exact a3 _ h2
          · simp only [he, if_false] at hl; exact hm.full rule' l hl P val hr
      obtain ⟨i1, i2, i3⟩ := reachLoop_spec G fuel _ _ nr' h hm1
      refine ⟨i1, ?_, ?_⟩
      · intro k hk
        apply i2
        rw [contains_insert]; simp [hk]
      · intro c hc c' hs
        rcases List.mem_cons.mp hc with e | hmem
        · subst e
          cases hs with
          | refl _ =>
            apply i2
            rw [contains_insert]; simp
          | cons _ d _ hstep hrest =>
            cases hstep with
            | mk _ _ P args st hr hin =>
              obtain ⟨row', h1, h2⟩ := rule_mem_row G rule P (args, st) hr
              rw [hrow] at h1
              cases h1
              apply i3 _ _ c' hrest
              apply List.mem_append.mpr
              left
              rw [List.mem_reverse, List.mem_filterMap]
              exact ⟨(P, (args, st)), h2, by simp [hin]⟩
        · exact i3 c (List.mem_append.mpr (Or.inr hmem)) c' hs

/-! ### pass 2: only dead things are removed -/

/-- no program is derivable from the non-terminal (in the ORIGINAL table) -/
def Dead (G : TT S T) (nt : NT S T) : Prop := ∀ t w, run G.rule? t (nt.1, nt.2.1) nt.2.2 ≠ some w

/-- a non-terminal all of whose rules have a dead first argument is dead -/
theorem dead_of_first_dead (G : TT S T) (rule : NT S T)
    (h : ∀ P args st, G.rule? rule P = some (args, st) → ∃ a as, args = a :: as ∧ Dead G (a.1, (a.2, st))) :
    Dead G rule := by
  intro t w hr
  cases t with
  | node f kids =>
    rw [run] at hr
    have e : ((rule.1, rule.2.1).1, ((rule.1, rule.2.1).2, rule.2.2)) = rule := rfl
    rw [e] at hr
    cases h1 : G.rule? rule f with
    | none => simp [h1] at hr
    | some val =>
      obtain ⟨args, st⟩ := val
      simp only [h1] at hr
      obtain ⟨a, as, ha, hd⟩ := h f args st h1
      subst ha
      cases kids with
      | nil => simp [runList] at hr
      | cons k ks =>
        rw [runList] at hr
        cases h2 : run G.rule? k a st with
        | none => simp [h2] at hr
        | some v1 => exact hd k v1 h2

/-- the invariant of the passes -/
structure PInv (G : TT S T) (nr : Marks S T) : Prop where
  keys : (AList.keys nr).Nodup
  vals : ∀ rule l, AList.lookup rule nr = some l → l.Nodup
  reach : ∀ c, Reach0 G c → AList.contains c.1 nr = true ∨ Dead G c.1
  kept : ∀ rule l, AList.lookup rule nr = some l → ∀ P args st, G.rule? rule P = some (args, st) →
      P ∈ l ∨ ∃ a as, args = a :: as ∧ Dead G (a.1, (a.2, st))
  sub : ∀ rule, AList.contains rule nr = true → inRules G rule = true

theorem pinv_erase (G : TT S T) (nr : Marks S T) (rule : NT S T) (h : PInv G nr) (hd : Dead G rule) :
    PInv G (AList.erase rule nr) := by
  have hne : ∀ rule' l, AList.lookup rule' (AList.erase rule nr) = some l → rule' ≠ rule ∧ AList.lookup rule' nr = some l := by
    intro rule' l hl
    by_cases he : rule' = rule
    · subst he; rw [lookup_erase_self _ _ h.keys] at hl; cases hl
    · exact ⟨he, by rw [lookup_erase_ne _ he] at hl; exact hl⟩
  refine ⟨(keys_erase_sublist rule nr).nodup h.keys, ?_, ?_, ?_, ?_⟩
  rotate_right
  · intro rule' hc
    obtain ⟨l, hl⟩ := lookup_of_contains hc
    exact h.sub rule' (contains_of_lookup (hne rule' l hl).2)
  · intro rule' l hl; exact h.vals rule' l (hne rule' l hl).2
  · intro c hc
    by_cases he : c.1 = rule
    · right; rw [he]; exact hd
    · rcases h.reach c hc with h1 | h1
      · left; unfold AList.contains at h1 ⊢; rw [lookup_erase_ne _ he]; exact h1
      · exact Or.inr h1
  · intro rule' l hl; exact h.kept rule' l (hne rule' l hl).2

omit [DecidableEq S] [DecidableEq T] in
/-- what `derive` gives when the rule has an argument -/
theorem deriveWith_cons (info : List (Ty × S)) (start : NT S T) (a : Ty × S) (as : List (Ty × S)) (st : T) :
    deriveWith info start (a :: as) st = (as ++ info, (a.1, (a.2, st))) := by
  obtain ⟨t, s⟩ := a
  simp [deriveWith]

/-- `new_S in self.rules and len(new_info) >= len(info)`: the rule has an argument (the
    non-terminals of the table never have the end-marker type) -/
theorem derive_first (G : TT S T) (hU : noUnknownKey G = true) (info : List (Ty × S)) (rule : NT S T)
    (args : List (Ty × S)) (st : T) (hin : inRules G (deriveWith info rule args st).2 = true)
    (hlen : (deriveWith info rule args st).1.length ≥ info.length) : ∃ a as, args = a :: as := by
  cases args with
  | cons a as => exact ⟨a, as, rfl⟩
  | nil =>
    exfalso
    cases info with
    | nil =>
      have := noUnknown_inRules G hU _ hin
      simp [deriveWith] at this
    | cons b rest =>
      obtain ⟨t, s⟩ := b
      simp [deriveWith] at hlen
      omega

theorem passStep_inv (G : TT S T) (hU : noUnknownKey G = true) (rule : NT S T) (info : List (Ty × S))
    (hr : Reach0 G (rule, info)) (st : Marks S T × Bool × List (CConfig S T)) (P : Sym)
    (hinv : PInv G st.1) (hpu : ∀ c ∈ st.2.2, Reach0 G c) :
    PInv G (passStep G rule info st P).1 ∧ ∀ c ∈ (passStep G rule info st P).2.2, Reach0 G c := by
  unfold passStep
  cases hrule : G.rule? rule P with
  | none => exact ⟨hinv, hpu⟩
  | some val =>
    obtain ⟨args, s⟩ := val
    simp only
    have hnext : inRules G (deriveWith info rule args s).2 = true →
        Reach0 G ((deriveWith info rule args s).2, (deriveWith info rule args s).1) :=
      fun hin => CSteps.snoc hr (CStep.mk rule info P args s hrule hin)
    by_cases hcond : (!(AList.contains (deriveWith info rule args s).2 st.1) && inRules G (deriveWith info rule args s).2 &&
        decide ((deriveWith info rule args s).1.length ≥ info.length)) = true
    · simp only [hcond, if_true]
      simp only [Bool.and_eq_true, Bool.not_eq_true', decide_eq_true_eq] at hcond
      obtain ⟨⟨hnc, hin⟩, hlen⟩ := hcond
      obtain ⟨a, as, ha⟩ := derive_first G hU info rule args s hin hlen
      subst ha
      rw [deriveWith_cons] at hnc hin
      have hdead : Dead G (a.1, (a.2, s)) := by
        have := hnext (by rw [deriveWith_cons]; exact hin)
        rw [deriveWith_cons] at this
        rcases hinv.reach _ this with h1 | h1
        · simp only at h1; rw [hnc] at h1; cases h1
        · exact h1
      cases hl : AList.lookup rule st.1 with
      | none =>
        simp only [Option.getD_none, List.erase_nil, List.isEmpty_nil, if_true]
        have hdr : Dead G rule := by
          rcases hinv.reach _ hr with h1 | h1
          · unfold AList.contains at h1; simp only at h1; rw [hl] at h1; cases h1
          · exact h1
        exact ⟨pinv_erase G st.1 rule hinv hdr, hpu⟩
      | some l =>
        simp only [Option.getD_some]
        have hkept' : ∀ P' args' s', G.rule? rule P' = some (args', s') →
            P' ∈ l.erase P ∨ ∃ a' as', args' = a' :: as' ∧ Dead G (a'.1, (a'.2, s')) := by
          intro P' args' s' hr'
          rcases hinv.kept rule l hl P' args' s' hr' with h1 | h1
          · by_cases he : P' = P
            · subst he
              rw [hrule] at hr'
              cases hr'
              exact Or.inr ⟨a, as, rfl, hdead⟩
            · exact Or.inl ((List.mem_erase_of_ne he).mpr h1)
          · exact Or.inr h1
        by_cases hemp : (l.erase P).isEmpty = true
        · simp only [hemp, if_true]
          have hnil : l.erase P = [] := by simpa using hemp
          have hdr : Dead G rule := by
            apply dead_of_first_dead
            intro P' args' s' hr'
            rcases hkept' P' args' s' hr' with h1 | h1
            · rw [hnil] at h1; cases h1
            · exact h1
          exact ⟨pinv_erase G st.1 rule hinv hdr, hpu⟩
        · simp only [hemp, Bool.false_eq_true, if_false]
          refine ⟨⟨nodup_insert' _ _ _ hinv.keys, ?_, ?_, ?_, ?_⟩, hpu⟩
          rotate_right
          · intro rule' hc
            rw [contains_insert] at hc
            by_cases he : rule' = rule
            · rw [he]; exact hinv.sub rule (contains_of_lookup hl)
            · simp only [he, decide_false, Bool.false_or] at hc; exact hinv.sub rule' hc
          · intro rule' l' hl'
            rw [AList.lookup_insert] at hl'
            by_cases he : rule' = rule
            · simp only [he, if_true, Option.some.injEq] at hl'; subst hl'
              exact (hinv.vals rule l hl).erase P
            · simp only [he, if_false] at hl'; exact hinv.vals rule' l' hl'
          · intro c hc
            rcases hinv.reach c hc with h1 | h1
            · left; rw [contains_insert]; simp [h1]
            · exact Or.inr h1
          · intro rule' l' hl' P' args' s' hr'
            rw [AList.lookup_insert] at hl'
            by_cases he : rule' = rule
            · simp only [he, if_true, Option.some.injEq] at hl'; subst hl'
              rw [he] at hr'
              exact hkept' P' args' s' hr'
            · simp only [he, if_false] at hl'; exact hinv.kept rule' l' hl' P' args' s' hr'
    · simp only [hcond, Bool.false_eq_true, if_false]
      by_cases hin : inRules G (deriveWith info rule args s).2 = true
      · simp only [hin, if_true]
        refine ⟨hinv, ?_⟩
        intro c hc
        rcases List.mem_append.mp hc with h1 | h1
        · exact hpu c h1
        · simp only [List.mem_singleton] at h1; subst h1; exact hnext hin
      · simp only [hin, Bool.false_eq_true, if_false]
        exact ⟨hinv, hpu⟩

theorem passFold_inv (G : TT S T) (hU : noUnknownKey G = true) (rule : NT S T) (info : List (Ty × S))
    (hr : Reach0 G (rule, info)) : ∀ (L : List Sym) (st : Marks S T × Bool × List (CConfig S T)),
    PInv G st.1 → (∀ c ∈ st.2.2, Reach0 G c) →
    PInv G (L.foldl (passStep G rule info) st).1 ∧ ∀ c ∈ (L.foldl (passStep G rule info) st).2.2, Reach0 G c
  | [], st, h1, h2 => ⟨h1, h2⟩
  | P :: L, st, h1, h2 => by
    rw [List.foldl_cons]
    obtain ⟨j1, j2⟩ := passStep_inv G hU rule info hr st P h1 h2
    exact passFold_inv G hU rule info hr L _ j1 j2

theorem passLoop_inv (G : TT S T) (hU : noUnknownKey G = true) :
    ∀ (fuel : Nat) (todo : List (CConfig S T)) (nr : Marks S T) (ch : Bool) (res : Marks S T × Bool),
      passLoop G fuel todo nr ch = .ok res → PInv G nr → (∀ c ∈ todo, Reach0 G c) → PInv G res.1
  | fuel, [], nr, ch, res, h, hinv, _ => by
    cases fuel <;> (simp only [passLoop, Res.ok.injEq] at h; subst h; exact hinv)
  | 0, _ :: _, _, _, _, h, _, _ => by simp [passLoop] at h
  | fuel + 1, (rule, info) :: todo, nr, ch, res, h, hinv, htodo => by
    rw [passLoop] at h
    have hr : Reach0 G (rule, info) := htodo _ (List.mem_cons_self ..)
    have htodo' : ∀ c ∈ todo, Reach0 G c := fun c hc => htodo c (List.mem_cons_of_mem _ hc)
    cases hl : AList.lookup rule nr with
    | none =>
      simp only [hl] at h
      exact passLoop_inv G hU fuel todo nr ch res h hinv htodo'
    | some l =>
      cases l with
      | nil =>
        simp only [hl] at h
        have hdr : Dead G rule := by
          apply dead_of_first_dead
          intro P' args' s' hr'
          rcases hinv.kept rule [] hl P' args' s' hr' with h1 | h1
          · cases h1
          · exact h1
        exact passLoop_inv G hU fuel todo _ true res h (pinv_erase G nr rule hinv hdr) htodo'
      | cons p ps =>
        simp only [hl] at h
        obtain ⟨j1, j2⟩ := passFold_inv G hU rule info hr (p :: ps) (nr, ch, []) hinv (by intro c hc; cases hc)
        apply passLoop_inv G hU fuel _ _ _ res h j1
        intro c hc
        rcases List.mem_append.mp hc with h1 | h1
        · exact j2 c (List.mem_reverse.mp h1)
        · exact htodo' c h1

theorem passes_inv (G : TT S T) (hU : noUnknownKey G = true) (fuel : Nat) :
    ∀ (n : Nat) (nr nr' : Marks S T), passes G fuel n nr = .ok nr' → PInv G nr → PInv G nr'
  | 0, _, _, h, _ => by simp [passes] at h
  | n + 1, nr, nr', h, hinv => by
    rw [passes] at h
    cases hp : passLoop G fuel [(G.start, [])] nr false with
    | ok res =>
      obtain ⟨nr1, b⟩ := res
      have j := passLoop_inv G hU fuel _ nr false _ hp hinv
        (by intro c hc; rw [List.mem_singleton.mp hc]; exact CSteps.refl _)
      cases b with
      | true => simp only [hp] at h; exact passes_inv G hU fuel n nr1 nr' h j
      | false => simp only [hp, Res.ok.injEq] at h; subst h; exact j
    | fuel => simp [hp] at h
    | keyError => simp [hp] at h

/-! ### the restricted table -/

theorem lookup_filterMap_rule (G : TT S T) (rule : NT S T) (f : Sym) (val : List (Ty × S) × T)
    (hr : G.rule? rule f = some val) : ∀ l : List Sym, f ∈ l →
    AList.lookup f (l.filterMap (fun P => match G.rule? rule P with
      | some v => some (P, v)
      | none => none)) = some val
  | [], h => by cases h
  | P :: l, h => by
    by_cases he : P = f
    · subst he
      simp [hr, AList.lookup]
    · have hm : f ∈ l := by
        rcases List.mem_cons.mp h with e | hm
        · exact absurd e.symm he
        · exact hm
      rw [List.filterMap_cons]
      cases hP : G.rule? rule P with
      | none => simp only; exact lookup_filterMap_rule G rule f val hr l hm
      | some v =>
        simp only [AList.lookup, he, if_false]
        exact lookup_filterMap_rule G rule f val hr l hm

/-- a kept symbol of a kept non-terminal has its rule in the restricted table -/
theorem restrict_rule (G : TT S T) (nr : Marks S T) (rule : NT S T) (l : List Sym) (f : Sym)
    (val : List (Ty × S) × T) (hl : AList.lookup rule nr = some l) (hf : f ∈ l)
    (hr : G.rule? rule f = some val) : (restrict G nr).rule? rule f = some val := by
  have h2 : AList.lookup rule (restrict G nr).rules = some (l.filterMap (fun P =>
      match G.rule? rule P with
      | some v => some (P, v)
      | none => none)) := by
    have := lookup_map_val (fun e : NT S T × List Sym => e.2.filterMap (fun P =>
      match G.rule? e.1 P with
      | some v => some (P, v)
      | none => none)) rule nr
    rw [hl] at this
    exact this
  unfold TT.rule?
  rw [h2]
  exact lookup_filterMap_rule G rule f val hr l hf

theorem inRules_of_rule (G : TT S T) (nt : NT S T) (P : Sym) (val : List (Ty × S) × T)
    (h : G.rule? nt P = some val) : inRules G nt = true := by
  obtain ⟨row, h1, _⟩ := rule_mem_row G nt P val h
  exact contains_of_lookup h1

/-- **nothing derivable is lost**: a complete derivation of the original table, started in a
    reachable configuration, is a derivation of the restricted table -/
theorem clean_complete_run (G : TT S T) (nr : Marks S T) (hinv : PInv G nr) : ∀ n : Nat,
    (∀ t : Prog, Tree.size t ≤ n → ∀ (a : Ty × S) (v w : T) (stk : List (Ty × S)),
      Reach0 G ((a.1, (a.2, v)), stk) → run G.rule? t a v = some w →
      run (restrict G nr).rule? t a v = some w ∧
      ∀ x rest, stk = x :: rest → inRules G (x.1, (x.2, w)) = true → Reach0 G ((x.1, (x.2, w)), rest)) ∧
    (∀ ks : List Prog, Tree.sizeList ks ≤ n → ∀ (args : List (Ty × S)) (v w : T) (stk : List (Ty × S)),
      (∀ x rest, args ++ stk = x :: rest → inRules G (x.1, (x.2, v)) = true → Reach0 G ((x.1, (x.2, v)), rest)) →
      runList G.rule? ks args v = some w →
      runList (restrict G nr).rule? ks args v = some w ∧
      ∀ x rest, stk = x :: rest → inRules G (x.1, (x.2, w)) = true → Reach0 G ((x.1, (x.2, w)), rest)) := by
  intro n
  induction n with
  | zero =>
    constructor
    · intro t ht; cases t with | node f kids => simp [Tree.size] at ht
    · intro ks hks args v w stk hin hr
      cases ks with
      | nil => cases args with
        | nil =>
          simp only [runList, Option.some.injEq] at hr; subst hr
          exact ⟨by simp [runList], fun x rest e => hin x rest (by simpa using e)⟩
        | cons a as => simp [runList] at hr
      | cons k ks => cases k with | node f kids => simp [Tree.sizeList, Tree.size] at hks
  | succ n ih =>
    have node_case : ∀ (f : Sym) (kids : List Prog), Tree.sizeList kids ≤ n → ∀ (a : Ty × S) (v w : T) (stk : List (Ty × S)),
        Reach0 G ((a.1, (a.2, v)), stk) → run G.rule? (.node f kids) a v = some w →
        run (restrict G nr).rule? (.node f kids) a v = some w ∧
        ∀ x rest, stk = x :: rest → inRules G (x.1, (x.2, w)) = true → Reach0 G ((x.1, (x.2, w)), rest) := by
      intro f kids hs a v w stk hreach hr
      have hnd : ¬ Dead G (a.1, (a.2, v)) := fun hd => hd (.node f kids) w hr
      have hc : AList.contains (a.1, (a.2, v)) nr = true := by
        rcases hinv.reach _ hreach with h1 | h1
        · exact h1
        · exact absurd h1 hnd
      obtain ⟨l, hl⟩ := lookup_of_contains hc
      rw [run] at hr ⊢
      cases h1 : G.rule? (a.1, (a.2, v)) f with
      | none => simp [h1] at hr
      | some val =>
        obtain ⟨args, st⟩ := val
        simp only [h1] at hr
        have hf : f ∈ l := by
          rcases hinv.kept _ l hl f args st h1 with h2 | ⟨a', as', ha, hd⟩
          · exact h2
          · exfalso
            subst ha
            cases kids with
            | nil => simp [runList] at hr
            | cons k ks =>
              rw [runList] at hr
              cases h2 : run G.rule? k a' st with
              | none => simp [h2] at hr
              | some v1 => exact hd k v1 h2
        rw [restrict_rule G nr _ l f (args, st) hl hf h1]
        simp only
        apply ih.2 kids hs args st w stk _ hr
        intro x rest e hin
        have hstep := CStep.mk (a.1, (a.2, v)) stk f args st h1
        have hd : deriveWith stk (a.1, (a.2, v)) args st = (rest, (x.1, (x.2, st))) := by
          obtain ⟨t, s⟩ := x
          simp [deriveWith, e]
        rw [hd] at hstep
        exact CSteps.snoc hreach (hstep hin)
    constructor
    · intro t ht a v w stk hreach hr
      cases t with
      | node f kids => exact node_case f kids (by simp [Tree.size] at ht; omega) a v w stk hreach hr
    · intro ks hks args v w stk hin hr
      cases ks with
      | nil => cases args with
        | nil =>
          simp only [runList, Option.some.injEq] at hr; subst hr
          exact ⟨by simp [runList], fun x rest e => hin x rest (by simpa using e)⟩
        | cons a as => simp [runList] at hr
      | cons k ks =>
        cases args with
        | nil => simp [runList] at hr
        | cons a as =>
          rw [runList] at hr ⊢
          cases h1 : run G.rule? k a v with
          | none => simp [h1] at hr
          | some v1 =>
            simp only [h1] at hr
            have hpos : 1 ≤ Tree.size k := by cases k with | node f kids => simp [Tree.size]
            have hks' : Tree.sizeList ks ≤ n := by simp [Tree.sizeList] at hks; omega
            have hk : run (restrict G nr).rule? k a v = some v1 ∧
                ∀ x rest, as ++ stk = x :: rest → inRules G (x.1, (x.2, v1)) = true → Reach0 G ((x.1, (x.2, v1)), rest) := by
              cases k with
              | node f kids =>
                have hina : inRules G (a.1, (a.2, v)) = true := by
                  rw [run] at h1
                  cases h2 : G.rule? (a.1, (a.2, v)) f with
                  | none => simp [h2] at h1
                  | some val => exact inRules_of_rule G _ f val h2
                exact node_case f kids (by simp [Tree.sizeList, Tree.size] at hks; omega) a v v1 (as ++ stk)
                  (hin a (as ++ stk) rfl hina) h1
            rw [hk.1]
            exact ih.2 ks hks' as v1 w stk hk.2 hr

/-- the marks of pass 1 satisfy the invariant of the passes -/
theorem pinv_of_reach (G : TT S T) (fuel : Nat) (nr : Marks S T)
    (h : reachLoop G fuel [(G.start, [])] [] = .ok nr) : PInv G nr := by
  obtain ⟨i1, _, i3⟩ := reachLoop_spec G fuel _ [] nr h
    ⟨by simp [AList.keys], by intro r l hl; simp [AList.lookup] at hl, by intro r l hl; simp [AList.lookup] at hl,
     by intro r hc; simp [AList.contains, AList.lookup] at hc⟩
  exact ⟨i1.keys, i1.vals, fun c hc => Or.inl (i3 _ (List.mem_singleton.mpr rfl) c hc),
    fun rule l hl P args st hr => Or.inl (i1.full rule l hl P (args, st) hr), i1.sub⟩

/-- **`clean()` loses no program** (with the end state), for every table without end-marker keys -/
theorem clean_complete (G G' : TT S T) (hU : noUnknownKey G = true) (fuel : Nat) (h : clean G fuel = .ok G')
    (t : Prog) (w : T) (hr : run G.rule? t (G.start.1, G.start.2.1) G.start.2.2 = some w) :
    run G'.rule? t (G.start.1, G.start.2.1) G.start.2.2 = some w := by
  unfold clean at h
  cases h1 : reachLoop G fuel [(G.start, [])] [] with
  | ok nr =>
    simp only [h1] at h
    cases h2 : passes G fuel fuel nr with
    | ok nr' =>
      simp only [h2, Res.ok.injEq] at h
      subst h
      have hinv := passes_inv G hU fuel fuel nr nr' h2 (pinv_of_reach G fuel nr h1)
      exact ((clean_complete_run G nr' hinv (Tree.size t)).1 t (Nat.le_refl _) (G.start.1, G.start.2.1) G.start.2.2 w []
        (CSteps.refl _) hr).1
    | fuel => simp [h2] at h
    | keyError => simp [h2] at h
  | fuel => simp [h1] at h
  | keyError => simp [h1] at h

/-- the result of `clean()` is the original table restricted to marks satisfying the invariant -/
theorem clean_result (G G' : TT S T) (hU : noUnknownKey G = true) (fuel : Nat) (h : clean G fuel = .ok G') :
    ∃ nr, G' = restrict G nr ∧ PInv G nr := by
  unfold clean at h
  cases h1 : reachLoop G fuel [(G.start, [])] [] with
  | ok nr =>
    simp only [h1] at h
    cases h2 : passes G fuel fuel nr with
    | ok nr' =>
      simp only [h2, Res.ok.injEq] at h
      exact ⟨nr', h.symm, passes_inv G hU fuel fuel nr nr' h2 (pinv_of_reach G fuel nr h1)⟩
    | fuel => simp [h2] at h
    | keyError => simp [h2] at h
  | fuel => simp [h1] at h
  | keyError => simp [h1] at h

/-- **`clean()` preserves the language** -/
theorem clean_lang (G G' : TT S T) (hU : noUnknownKey G = true) (fuel : Nat) (h : clean G fuel = .ok G')
    (t : Prog) : inLang G' t = inLang G t := by
  unfold inLang
  rw [clean_start G G' fuel h]
  cases hg : run G.rule? t (G.start.1, G.start.2.1) G.start.2.2 with
  | some w => rw [clean_complete G G' hU fuel h t w hg]
  | none =>
    cases hg' : run G'.rule? t (G.start.1, G.start.2.1) G.start.2.2 with
    | none => rfl
    | some w =>
      have := clean_sound G G' fuel h t _ _ w hg'
      rw [hg] at this; cases this

/-- the same for `clean()` as it is now (8ba7791): a table whose start symbol has no rule becomes
    the empty table, which has the same (empty) language -/
theorem cleanFixed_lang (G G' : TT S T) (hU : noUnknownKey G = true) (fuel : Nat) (h : cleanFixed G fuel = .ok G')
    (t : Prog) : inLang G' t = inLang G t := by
  unfold cleanFixed at h
  by_cases hc : AList.contains G.start G.rules = true
  · simp only [hc, if_true] at h
    exact clean_lang G G' hU fuel h t
  · simp only [hc, Bool.false_eq_true, if_false, Res.ok.injEq] at h
    subst h
    have hn : AList.lookup G.start G.rules = none := by
      unfold AList.contains at hc
      cases hl : AList.lookup G.start G.rules with
      | none => rfl
      | some r => simp [hl] at hc
    cases t with
    | node f kids =>
      have e : ((G.start.1, G.start.2.1).1, ((G.start.1, G.start.2.1).2, G.start.2.2)) = G.start := rfl
      simp [inLang, run, e, TT.rule?, AList.lookup, hn]

omit [DecidableEq S] [DecidableEq T] in
/-- the non-terminals of a product have the types of the left factor's -/
theorem mulRaw_noUnknown {U V : Type} [DecidableEq U] [DecidableEq V] (G1 : TT S T) (G2 : TT U V)
    (h : noUnknownKey G1 = true) : noUnknownKey (mulRaw G1 G2) = true := by
  unfold noUnknownKey at h ⊢
  rw [List.all_eq_true] at h ⊢
  intro e he
  simp only [mulRaw, List.mem_flatMap, List.mem_filterMap] at he
  obtain ⟨e1, he1, e2, _, hh⟩ := he
  by_cases hty : e1.1.1 = e2.1.1
  · simp only [hty, if_true, Option.some.injEq] at hh
    subst hh
    have := h e1 he1
    simpa [hty] using this
  · simp [hty] at hh

end PS.T
