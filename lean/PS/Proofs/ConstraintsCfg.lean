/-
  C05, part 5: facts about `__cfg2dfta__` (determinism of the table it writes) and about the
  embedding `liftBase` of a base automaton into extensible states.
-/
import PS.Proofs.ConstraintsSharpen
set_option linter.unusedSectionVars false
namespace PS.C05
open PS DFTA PS.G

variable {σ Q : Type} [DecidableEq σ] [DecidableEq Q]

theorem liftBase_det (B : DFTA σ Q) : (liftBase B).Det := AList.keys_nodup_ofList _

theorem liftBase_uniform (B : DFTA σ Q) : Uniform (liftBase B) 0 := by
  intro q hq
  obtain ⟨d, _, e⟩ := List.mem_map.mp hq
  rw [← e]; rfl

theorem liftBase_accepts (B : DFTA σ Q) (hd : B.Det) (t : Tree σ) : (liftBase B).accepts t = B.accepts t :=
  accepts_mapStates _ B hd (fun _ _ _ _ e => (Prod.mk.inj e).1) t

theorem foldl_keys_nodup {α κ ν : Type} [DecidableEq κ] (f : AList κ ν → α → AList κ ν)
    (hf : ∀ d x, (AList.keys d).Nodup → (AList.keys (f d x)).Nodup) (xs : List α) (d : AList κ ν)
    (hd : (AList.keys d).Nodup) : (AList.keys (xs.foldl f d)).Nodup := by
  induction xs generalizing d with
  | nil => exact hd
  | cons x xs ih => exact ih _ (hf d x hd)

theorem cfg2dftaStep_nodup (md : Nat) (ty : Ty) (acc : AList (Sym × List BaseSt) BaseSt)
    (r : Sym × (List (Ty × CFGState) × Unit)) (h : (AList.keys acc).Nodup) :
    (AList.keys (cfg2dftaStep md ty acc r)).Nodup := by
  unfold cfg2dftaStep
  simp only
  split
  · exact AList.keys_nodup_insert _ _ _ h
  · apply foldl_keys_nodup _ _ _ _ h
    intro d x hd
    split
    · exact hd
    · exact AList.keys_nodup_insert _ _ _ hd

theorem cfg2dftaRaw_det (G : CFG) : (cfg2dftaRaw G).Det := by
  unfold cfg2dftaRaw DFTA.Det
  simp only
  apply foldl_keys_nodup _ _ _ _ (by simp [AList.keys])
  intro d e hd
  exact foldl_keys_nodup _ (fun d x h => cfg2dftaStep_nodup _ _ d x h) _ _ hd

theorem cfg2dfta_det (G : CFG) : (cfg2dfta G).Det := reduce_det _ (cfg2dftaRaw_det G)

theorem cfg2dfta_accepts (G : CFG) (t : Tree Sym) : (cfg2dfta G).accepts t = (cfg2dftaRaw G).accepts t :=
  accepts_reduce _ (cfg2dftaRaw_det G) t

end PS.C05
