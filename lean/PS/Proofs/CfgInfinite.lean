/-
  Lemmas for C01, last sentence: `CFG.infinite` (PS/Model/CfgInfinite.lean).

  * `closureWith_inv`, `closureWith_gen`   the worklist invariant and "uncleaned table = rule
                                           creation", for ANY rule-creation function whose
                                           argument lists are a function of the symbol;
  * `ruleSetInf_functional`                 that holds for the rules of `CFG.infinite`;
  * `genW_eq_wtI`                           rule creation of `CFG.infinite` = well-typed terms of
                                           every depth;
  * `buildTableInf_some`, `_none`           composition with `clean` (PS/Proofs/CfgClean.lean).
-/
import PS.Proofs.CfgBuild
import PS.Proofs.Programs
import PS.Model.CfgInfinite
namespace PS.G
open PS

/-! ### the virtual grammar of a rule-creation function -/

theorem genWAny_iff (R : CNT → List Rule) (kids : List Prog) (f : Sym) (rs : List Rule) :
    genWAny R kids f rs = true ↔ ∃ r ∈ rs, r.1 = f ∧ genWList R kids r.2 = true := by
  simp [genWAny, List.any_eq_true]

theorem genW_unfold (R : CNT → List Rule) (f : Sym) (kids : List Prog) (nt : CNT) :
    genW R (.node f kids) nt = genWAny R kids f (R nt) := by
  rw [genW]; rfl

theorem genW_iff (R : CNT → List Rule) (f : Sym) (kids : List Prog) (nt : CNT) :
    genW R (.node f kids) nt = true ↔ ∃ r ∈ R nt, r.1 = f ∧ genWList R kids r.2 = true := by
  rw [genW_unfold]; exact genWAny_iff R kids f _

theorem genList_eq_genWList (R : CNT → List Rule) (G : CFG)
    (ks : List Prog) (hk : ∀ k ∈ ks, ∀ nt, AList.contains nt G.rules = true → gen G k nt = genW R k nt) :
    ∀ (as : List (Ty × CFGState)), (∀ a ∈ as, isKey G a = true) → genList G ks as = genWList R ks as := by
  induction ks with
  | nil => intro as _; cases as <;> simp [genList, genWList]
  | cons k ks ih =>
    intro as has
    cases as with
    | nil => simp [genList, genWList]
    | cons a as =>
      obtain ⟨t, s⟩ := a
      rw [genList, genWList]
      have h1 := hk k (by simp) (toNT (t, s)) (has (t, s) (by simp))
      have h2 := ih (fun k' hk' => hk k' (List.mem_cons_of_mem _ hk')) as
        (fun a ha => has a (List.mem_cons_of_mem _ ha))
      simp only [toNT] at h1
      rw [h1, h2]
      rfl

/-! ### the worklist loop, for any rule-creation function -/

/-- the non-terminals pushed when `nt` is treated -/
def kidsW (R : CNT → List Rule) (nt : CNT) : List CNT := (R nt).flatMap (fun r => r.2.map toNT)

theorem mem_kidsW (R : CNT → List Rule) (nt k : CNT) :
    k ∈ kidsW R nt ↔ ∃ r ∈ R nt, ∃ a ∈ r.2, toNT a = k := by
  simp [kidsW, List.mem_flatMap]

/-- worklist invariant -/
structure CInvW (R : CNT → List Rule) (s : CNT) (tbl : Table) (todo : List CNT) : Prop where
  nodup : (AList.keys tbl).Nodup
  rows : ∀ e ∈ tbl, e.2 = rulesDict (R e.1)
  closed : ∀ e ∈ tbl, ∀ k ∈ kidsW R e.1, k ∈ AList.keys tbl ∨ k ∈ todo
  start : s ∈ AList.keys tbl ∨ s ∈ todo
  /-- the first non-terminal inserted is the start symbol (dict order) -/
  first : tbl.head?.map (·.1) = some s ∨ (tbl = [] ∧ todo.head? = some s)

theorem cinvW_init (R : CNT → List Rule) (s : CNT) : CInvW R s [] [s] :=
  ⟨List.nodup_nil, fun _ h => (by cases h), fun _ h => (by cases h), Or.inr (by simp),
    Or.inr ⟨rfl, rfl⟩⟩

/-- **worklist invariant**: when the loop ends, every non-terminal of the table carries exactly
    the created rules, the non-terminals are closed under "argument of a rule of a member", and
    the start symbol is the first key -/
theorem closureWith_inv (R : CNT → List Rule) (s : CNT) :
    ∀ (fuel : Nat) (todo : List CNT) (tbl T : Table), CInvW R s tbl todo →
      closureWith R fuel todo tbl = some T → CInvW R s T [] := by
  intro fuel
  induction fuel with
  | zero =>
    intro todo tbl T h hc
    cases todo with
    | nil => simp only [closureWith, Option.some.injEq] at hc; subst hc; exact h
    | cons nt todo => simp [closureWith] at hc
  | succ fuel ih =>
    intro todo tbl T h hc
    cases todo with
    | nil => simp only [closureWith, Option.some.injEq] at hc; subst hc; exact h
    | cons nt todo =>
      rw [closureWith] at hc
      by_cases hk : AList.contains nt tbl = true
      · simp only [hk, if_true] at hc
        refine ih todo tbl T ⟨h.nodup, h.rows, ?_, ?_, ?_⟩ hc
        · intro e he k hkk
          rcases h.closed e he k hkk with h1 | h1
          · exact Or.inl h1
          · rcases List.mem_cons.mp h1 with rfl | h1
            · exact Or.inl (mem_keys_iff_contains.mpr hk)
            · exact Or.inr h1
        · rcases h.start with h1 | h1
          · exact Or.inl h1
          · rcases List.mem_cons.mp h1 with h1 | h1
            · rw [h1]; exact Or.inl (mem_keys_iff_contains.mpr hk)
            · exact Or.inr h1
        · rcases h.first with h1 | ⟨h1, _⟩
          · exact Or.inl h1
          · subst h1; simp [AList.contains] at hk
      · simp only [hk, Bool.false_eq_true, if_false] at hc
        refine ih _ _ T ?_ hc
        have hins := insert_of_not_contains nt (rulesDict (R nt)) tbl hk
        have hkeys : AList.keys (AList.insert nt (rulesDict (R nt)) tbl) = AList.keys tbl ++ [nt] := by
          rw [keys_insert]; simp only [hk, Bool.false_eq_true, if_false]
        refine ⟨nodup_insert _ _ _ h.nodup, ?_, ?_, ?_, ?_⟩
        · intro e he
          rw [hins] at he
          rcases List.mem_append.mp he with he | he
          · exact h.rows e he
          · rw [List.mem_singleton] at he; subst he; rfl
        · intro e he k hkk
          rw [hkeys]
          rw [hins] at he
          rcases List.mem_append.mp he with he | he
          · rcases h.closed e he k hkk with h1 | h1
            · exact Or.inl (List.mem_append_left _ h1)
            · rcases List.mem_cons.mp h1 with rfl | h1
              · exact Or.inl (List.mem_append_right _ (by simp))
              · exact Or.inr (List.mem_append_left _ h1)
          · rw [List.mem_singleton] at he; subst he
            exact Or.inr (List.mem_append_right _ hkk)
        · rw [hkeys]
          rcases h.start with h1 | h1
          · exact Or.inl (List.mem_append_left _ h1)
          · rcases List.mem_cons.mp h1 with h1 | h1
            · rw [h1]; exact Or.inl (List.mem_append_right _ (by simp))
            · exact Or.inr (List.mem_append_left _ h1)
        · left
          rw [hins]
          rcases h.first with h1 | ⟨h1, h2⟩
          · cases tbl with
            | nil => simp at h1
            | cons e tbl => simpa using h1
          · subst h1
            simp only [List.head?_cons, Option.some.injEq] at h2
            simp [h2]

theorem cinvW_wf (R : CNT → List Rule) (s : CNT) (T : Table) (todo : List CNT)
    (h : CInvW R s T todo) : TableWF T :=
  ⟨h.nodup, fun e he => by rw [h.rows e he]; exact rulesDict_nodup _⟩

theorem cinvW_lookup (R : CNT → List Rule) (s : CNT) (T : Table) (todo : List CNT)
    (h : CInvW R s T todo) (nt : CNT) (hk : nt ∈ AList.keys T) :
    AList.lookup nt T = some (rulesDict (R nt)) := by
  obtain ⟨e, he, rfl⟩ := List.mem_map.mp hk
  rw [lookup_of_mem h.nodup he, h.rows e he]

theorem cinvW_start_key (R : CNT → List Rule) (s : CNT) (T : Table) (h : CInvW R s T []) :
    AList.contains s T = true := by
  rcases h.start with h1 | h1
  · exact mem_keys_iff_contains.mp h1
  · cases h1

/-- **the uncleaned table generates from each of its non-terminals exactly what rule creation
    generates**, when the argument list of a created rule is a function of its symbol -/
theorem closureWith_gen (R : CNT → List Rule)
    (hfun : ∀ nt, ∀ r ∈ R nt, ∀ r' ∈ R nt, r.1 = r'.1 → r.2 = r'.2)
    (s : CNT) (T : Table) (h : CInvW R s T []) :
    ∀ (n : Nat) (t : Prog), t.size ≤ n → ∀ nt, AList.contains nt T = true →
      gen (⟨s, T⟩ : CFG) t nt = genW R t nt := by
  intro n
  induction n with
  | zero =>
    intro t ht
    cases t with | node f kids => simp [Tree.size] at ht
  | succ n ih =>
    intro t ht nt hkey
    cases t with
    | node f kids =>
      have hkids : ∀ k ∈ kids, ∀ nt', AList.contains nt' (⟨s, T⟩ : CFG).rules = true →
          gen (⟨s, T⟩ : CFG) k nt' = genW R k nt' := by
        intro k hk nt' hkey'
        have := Tree.size_lt_of_mem_kids (l := f) hk
        exact ih k (by omega) nt' hkey'
      have hnt : nt ∈ AList.keys T := mem_keys_iff_contains.mpr hkey
      have hlk := cinvW_lookup R s T [] h nt hnt
      obtain ⟨e, he, rfl⟩ := List.mem_map.mp hnt
      have hargs : ∀ r ∈ R e.1, ∀ a ∈ r.2, isKey (⟨s, T⟩ : CFG) a = true := by
        intro r hr a ha
        rcases h.closed e he (toNT a) ((mem_kidsW R e.1 _).mpr ⟨r, hr, a, ha, rfl⟩) with h1 | h1
        · exact mem_keys_iff_contains.mp h1
        · cases h1
      rw [Bool.eq_iff_iff, gen_iff, genW_iff]
      constructor
      · rintro ⟨rs, args, h1, h2, h3⟩
        change AList.lookup e.1 T = some rs at h1
        rw [hlk] at h1
        cases h1
        have hm := rulesDict_lookup_mem _ f _ h2
        refine ⟨(f, args), hm, rfl, ?_⟩
        rw [← genList_eq_genWList R ⟨s, T⟩ kids hkids args (hargs _ hm)]
        exact h3
      · rintro ⟨r, hr, rfl, h3⟩
        refine ⟨_, r.2, hlk, rulesDict_lookup_of_mem _ (hfun e.1) r hr, ?_⟩
        rw [genList_eq_genWList R ⟨s, T⟩ kids hkids r.2 (hargs _ hr)]
        exact h3

/-! ### the rules of `CFG.infinite`: the argument list is determined by the symbol -/

theorem leafSymsInf_ty (P : Params) (forb : List String) (ty : Ty) (s : Sym)
    (h : s ∈ leafSymsInf P forb ty) : s.ty = ty := by
  unfold leafSymsInf at h
  rcases List.mem_append.mp h with h | h
  · rcases List.mem_append.mp h with h | h
    · obtain ⟨iv, _, hiv⟩ := List.mem_filterMap.mp h
      split at hiv
      · cases hiv; rfl
      · cases hiv
    · split at h
      · rw [List.mem_singleton] at h; subst h; rfl
      · cases h
  · have := (List.mem_filter.mp h).2
    simp only [Bool.and_eq_true, beq_iff_eq] at this
    exact this.2

theorem appHeadsInf_ty (P : Params) (forb : List String) (ty : Ty) (h : Sym × List Ty)
    (hm : h ∈ appHeadsInf P forb ty) : h.1.ty.endsWith ty = some h.2 := by
  unfold appHeadsInf at hm
  rcases List.mem_append.mp hm with hm | hm
  · rcases List.mem_append.mp hm with hm | hm
    · obtain ⟨p, _, hp⟩ := List.mem_filterMap.mp hm
      split at hp
      · cases hp
      · split at hp
        · rename_i tys heq
          cases hp; exact heq
        · cases hp
    · obtain ⟨iv, _, hiv⟩ := List.mem_filterMap.mp hm
      split at hiv
      · rename_i tys heq
        split at hiv
        · cases hiv; exact heq
        · cases hiv
      · cases hiv
  · split at hm
    · split at hm
      · rename_i tys heq
        rw [List.mem_singleton] at hm; subst hm; exact heq
      · cases hm
    · cases hm

/-- the arguments that a rule for symbol `f` of non-terminal `nt` can only have -/
def argsOfInf (P : Params) (nt : CNT) (f : Sym) : List (Ty × CFGState) :=
  childNTsInf P nt.2.1.1 f ((f.ty.endsWith nt.1).getD [])

theorem ruleSetInf_args (P : Params) (nt : CNT) (r : Rule) (h : r ∈ ruleSetInf P nt) :
    r.2 = argsOfInf P nt r.1 := by
  unfold ruleSetInf at h
  simp only at h
  rcases List.mem_append.mp h with h | h
  · obtain ⟨s, hs, rfl⟩ := List.mem_map.mp h
    have := leafSymsInf_ty P _ _ s hs
    simp only [argsOfInf, this, endsWith_self]
    rfl
  · obtain ⟨hd, hhd, rfl⟩ := List.mem_map.mp h
    have := appHeadsInf_ty P _ _ hd hhd
    simp only [argsOfInf, this]
    rfl

theorem ruleSetInf_functional (P : Params) (nt : CNT) :
    ∀ r ∈ ruleSetInf P nt, ∀ r' ∈ ruleSetInf P nt, r.1 = r'.1 → r.2 = r'.2 := by
  intro r hr r' hr' h
  rw [ruleSetInf_args P nt r hr, ruleSetInf_args P nt r' hr', h]

/-- every argument non-terminal created by `CFG.infinite` has depth component 0 -/
theorem ruleSetInf_depth (P : Params) (nt : CNT) (r : Rule) (h : r ∈ ruleSetInf P nt)
    (a : Ty × CFGState) (ha : a ∈ r.2) : a.2.2 = 0 := by
  rw [ruleSetInf_args P nt r h] at ha
  unfold argsOfInf childNTsInf at ha
  obtain ⟨x, _, rfl⟩ := List.mem_map.mp ha
  rfl

/-! ### rule creation of `CFG.infinite` = well-typed terms of every depth -/

theorem genWAny_append (R : CNT → List Rule) (kids : List Prog) (f : Sym) (a b : List Rule) :
    genWAny R kids f (a ++ b) = (genWAny R kids f a || genWAny R kids f b) := by
  simp [genWAny, List.any_append]

theorem genWList_nil (R : CNT → List Rule) (kids : List Prog) : genWList R kids [] = kids.isEmpty := by
  cases kids <;> simp [genWList]

theorem genWAny_leaves (R : CNT → List Rule) (kids : List Prog) (f : Sym) (ls : List Sym) :
    genWAny R kids f (ls.map (fun s => (s, []))) = (kids.isEmpty && ls.contains f) := by
  induction ls with
  | nil => simp [genWAny]
  | cons s ss ih =>
    have ih' : (ss.map (fun s => ((s, []) : Rule))).any (fun r => r.1 == f && genWList R kids r.2) =
        (kids.isEmpty && ss.contains f) := ih
    simp only [genWAny, List.map_cons, List.any_cons, ih', genWList_nil, List.contains_cons]
    by_cases h : s = f
    · subst h; cases kids.isEmpty <;> simp
    · have h' : (f == s) = false := by simp [Ne.symm h]
      have h'' : (s == f) = false := by simp [h]
      simp [h', h'']

theorem genWList_childNTsInf (P : Params) (ctx : List (Sym × Nat)) (f : Sym)
    (hctx : CtxOK P ctx) (kids : List Prog)
    (ih : ∀ k ∈ kids, ∀ ty ctx' d', CtxOK P ctx' →
      genW (ruleSetInf P) k (ty, ((ctx', d'), ())) = wtI P (effParent P) k ctx'.head? ty) :
    ∀ (tys : List Ty) (i : Nat),
      genWList (ruleSetInf P) kids ((tys.zipIdx i).map (fun ai => (ai.1, (successor P.nGram ctx (f, ai.2), 0)))) =
      wtIList P (effParent P) kids f i tys := by
  induction kids with
  | nil =>
    intro tys i
    cases tys <;> simp [genWList, wtIList, List.zipIdx_cons]
  | cons k ks ihk =>
    intro tys i
    cases tys with
    | nil => simp [genWList, wtIList]
    | cons a as =>
      simp only [List.zipIdx_cons, List.map_cons]
      rw [genWList, wtIList]
      have h1 := ih k (by simp) a (successor P.nGram ctx (f, i)) 0 (CtxOK_successor P ctx (f, i) hctx)
      rw [successor_head P ctx (f, i) hctx] at h1
      simp only [toNT]
      rw [h1, ihk (fun k' hk' => ih k' (List.mem_cons_of_mem _ hk')) as (i + 1)]

theorem genWAny_headsInf (P : Params) (ctx : List (Sym × Nat)) (f : Sym)
    (hctx : CtxOK P ctx) (kids : List Prog)
    (ih : ∀ k ∈ kids, ∀ ty ctx' d', CtxOK P ctx' →
      genW (ruleSetInf P) k (ty, ((ctx', d'), ())) = wtI P (effParent P) k ctx'.head? ty)
    (hs : List (Sym × List Ty)) :
    genWAny (ruleSetInf P) kids f (hs.map (fun h => (h.1, childNTsInf P ctx h.1 h.2))) =
      wtIHeads P (effParent P) kids f hs := by
  induction hs with
  | nil => simp [genWAny, wtIHeads]
  | cons h hs ihh =>
    have ihh' : (hs.map (fun h => ((h.1, childNTsInf P ctx h.1 h.2) : Rule))).any
          (fun r => r.1 == f && genWList (ruleSetInf P) kids r.2) =
        hs.any (fun h => h.1 == f && wtIList P (effParent P) kids f 0 h.2) := ihh
    simp only [genWAny, wtIHeads, List.map_cons, List.any_cons, ihh']
    by_cases hf : h.1 = f
    · subst hf
      simp only [beq_self_eq_true, Bool.true_and]
      unfold childNTsInf
      rw [genWList_childNTsInf P ctx h.1 hctx kids ih h.2 0]
    · have hf' : (h.1 == f) = false := by simp [hf]
      simp [hf']

/-- **rule creation of `CFG.infinite` = well-typed terms of every depth** (for every parameter
    set, including `n_gram ≤ 1`, where a child sees no parent) -/
theorem genW_eq_wtI (P : Params) :
    ∀ (n : Nat) (t : Prog), t.size ≤ n → ∀ ty ctx d, CtxOK P ctx →
      genW (ruleSetInf P) t (ty, ((ctx, d), ())) = wtI P (effParent P) t ctx.head? ty := by
  intro n
  induction n with
  | zero =>
    intro t ht
    cases t with | node f kids => simp [Tree.size] at ht
  | succ n ih =>
    intro t ht ty ctx d hctx
    cases t with
    | node f kids =>
      have hk : ∀ k ∈ kids, ∀ ty ctx' d', CtxOK P ctx' →
          genW (ruleSetInf P) k (ty, ((ctx', d'), ())) = wtI P (effParent P) k ctx'.head? ty := by
        intro k hk ty' ctx' d' hc'
        have := Tree.size_lt_of_mem_kids (l := f) hk
        exact ih k (by omega) ty' ctx' d' hc'
      rw [genW_unfold, wtI]
      change _ = ((kids.isEmpty && (leafSymsInf P (forbAt P ctx.head?) ty).contains f) ||
          wtIHeads P (effParent P) kids f (appHeadsInf P (forbAt P ctx.head?) ty))
      have hrs : ruleSetInf P (ty, ((ctx, d), ())) =
          (leafSymsInf P (forbAt P ctx.head?) ty).map (fun s => (s, [])) ++
          (appHeadsInf P (forbAt P ctx.head?) ty).map (fun h => (h.1, childNTsInf P ctx h.1 h.2)) := rfl
      rw [hrs, genWAny_append, genWAny_leaves, genWAny_headsInf P ctx f hctx kids hk]

/-! ### `buildTableInf` = worklist loop then `clean` -/

theorem buildTableInf_some (P : Params) (fuel : Nat) (G : CFG) (h : buildTableInf P fuel = some G) :
    ∃ tbl, closureWith (ruleSetInf P) fuel [startNT P] [] = some tbl ∧
      CInvW (ruleSetInf P) (startNT P) tbl [] ∧ G.start = startNT P ∧
      removeNonReachable (startNT P) (removeNonProductive tbl) = some G.rules ∧
      CleanSpec (startNT P) tbl G.rules := by
  unfold buildTableInf at h
  cases hc : closureWith (ruleSetInf P) fuel [startNT P] [] with
  | none => simp [hc] at h
  | some tbl =>
    have hinv := closureWith_inv _ _ fuel _ _ tbl (cinvW_init _ (startNT P)) hc
    simp only [hc] at h
    cases hr : removeNonReachable (startNT P) (removeNonProductive tbl) with
    | none => simp [hr] at h
    | some T' =>
      simp only [hr, Option.some.injEq] at h
      subst h
      exact ⟨tbl, rfl, hinv, rfl, hr, clean_some (startNT P) tbl T' (cinvW_wf _ _ tbl [] hinv) hr⟩

theorem buildTableInf_none (P : Params) (fuel : Nat) (h : buildTableInf P fuel = none) :
    closureWith (ruleSetInf P) fuel [startNT P] [] = none ∨
    ∃ tbl, closureWith (ruleSetInf P) fuel [startNT P] [] = some tbl ∧
      CInvW (ruleSetInf P) (startNT P) tbl [] ∧
      removeNonReachable (startNT P) (removeNonProductive tbl) = none := by
  unfold buildTableInf at h
  cases hc : closureWith (ruleSetInf P) fuel [startNT P] [] with
  | none => exact Or.inl rfl
  | some tbl =>
    right
    have hinv := closureWith_inv _ _ fuel _ _ tbl (cinvW_init _ (startNT P)) hc
    simp only [hc] at h
    cases hr : removeNonReachable (startNT P) (removeNonProductive tbl) with
    | none => exact ⟨tbl, rfl, hinv, hr⟩
    | some T' => simp [hr] at h

/-! ### `programs()` on a table of `CFG.infinite` (all depth components 0: dict order) -/

/-- whenever the fill succeeds the number is the number of terms -/
theorem programsInf_count (G : CFG) (hk : (AList.keys G.rules).Nodup) (n : Nat)
    (h : programsInf G = some n) :
    ∃ k, bounded G k G.start = true ∧ n = count G k G.start := by
  unfold programsInf at h
  split at h
  · cases h
  · rename_i cnt hfill
    have hinv : Programs.Inv G cnt :=
      Programs.inv_fill G hk G.rules [] cnt (fun e he => he) (Programs.inv_nil G) hfill
    have := hinv _ n h
    have hs : toNT (G.start.1, G.start.2.1) = G.start := rfl
    rw [hs] at this
    exact this

theorem head?_filter_of_head {α : Type} (p : α → Bool) (x : α) (l : List α)
    (h : l.head? = some x) (hp : p x = true) : (l.filter p).head? = some x := by
  cases l with
  | nil => cases h
  | cons y ys =>
    simp only [List.head?_cons, Option.some.injEq] at h
    subst h
    simp [hp]

/-- the start symbol stays the first key through `clean` -/
theorem clean_head (start : CNT) (tbl T' : Table) (hwf : TableWF tbl)
    (hfirst : tbl.head?.map (·.1) = some start)
    (h : removeNonReachable start (removeNonProductive tbl) = some T') :
    T'.head?.map (·.1) = some start := by
  rw [removeNonReachable_eq] at h
  by_cases hsk : AList.contains start (removeNonProductive tbl) = true
  · simp only [hsk, if_true, Option.some.injEq] at h
    have hsk' : start ∈ AList.keys (removeNonProductive tbl) := mem_keys_iff_contains.mpr hsk
    have hK := (mem_keys_removeNonProductive start tbl hwf start).mp hsk'
    have hR := (reachSet_spec start (removeNonProductive tbl)
      (removeNonProductive_closed start tbl hwf) hsk').start
    cases htbl : tbl with
    | nil => rw [htbl] at hfirst; simp at hfirst
    | cons e rest =>
      rw [htbl] at hfirst
      simp only [List.head?_cons, Option.map_some, Option.some.injEq] at hfirst
      have h1 : (removeNonProductive tbl).head? = some (e.1, rowFilter (prodSet tbl) e.2) := by
        rw [removeNonProductive_eq]
        have : (tbl.filter (fun e => (prodSet tbl).contains e.1)).head? = some e :=
          head?_filter_of_head _ e tbl (by rw [htbl]; rfl) (by rw [hfirst]; simpa using hK)
        rw [List.head?_map, this]; rfl
      rw [← h]
      have h2 := head?_filter_of_head (fun e => (reachSet start (removeNonProductive tbl)).contains e.1)
        _ _ h1 (by simp only [hfirst]; simpa using hR)
      rw [h2]
      simp [hfirst]
  · simp [hsk] at h

theorem genList_length (G : CFG) :
    ∀ (ks : List Prog) (as : List (Ty × CFGState)), genList G ks as = true → ks.length = as.length
  | [], [], _ => rfl
  | [], _ :: _, h => by simp [genList] at h
  | _ :: _, [], h => by simp [genList] at h
  | k :: ks, (t, s) :: as, h => by
    rw [genList] at h
    simp only [Bool.and_eq_true] at h
    simp [genList_length G ks as h.2]

/-- **what `programs()` answers on a cleaned table whose first key is the start symbol and whose
    depth components are all 0**: -1 exactly when some rule of the start symbol has an argument,
    i.e. when the language contains an application — whether or not the language is infinite. -/
theorem programsInf_none_iff (G : CFG) (hwf : TableWF G.rules)
    (hfirst : G.rules.head?.map (·.1) = some G.start)
    (hreach : ∀ nt ∈ AList.keys G.rules, Reach G nt)
    (hprod : ∀ nt ∈ AList.keys G.rules, ∃ t, gen G t nt = true)
    (hclosed : ArgsClosed G.rules) :
    programsInf G = none ↔ ∃ f k ks, gen G (.node f (k :: ks)) G.start = true := by
  cases hrules : G.rules with
  | nil => rw [hrules] at hfirst; simp at hfirst
  | cons e rest =>
    rw [hrules] at hfirst
    simp only [List.head?_cons, Option.map_some, Option.some.injEq] at hfirst
    have hmem : e ∈ G.rules := by rw [hrules]; simp
    have hlk : AList.lookup G.start G.rules = some e.2 := by
      have := lookup_of_mem hwf.keys hmem
      rw [hfirst] at this; exact this
    by_cases hargs : ∀ r ∈ e.2, r.2.1 = []
    · -- only leaf rules: the start symbol is the only non-terminal, the fill succeeds
      have honly : ∀ nt, Reach G nt → nt = G.start := by
        intro nt hr
        induction hr with
        | start => rfl
        | step _ h1 h2 h3 ih =>
          rw [ih, hlk] at h1
          cases h1
          rw [hargs _ h2] at h3
          cases h3
      have hrest : rest = [] := by
        cases hrest : rest with
        | nil => rfl
        | cons e' rest' =>
          exfalso
          have he' : e' ∈ G.rules := by rw [hrules, hrest]; simp
          have := honly e'.1 (hreach _ (mem_keys_of_mem he'))
          have hnd := hwf.keys
          rw [hrules, hrest] at hnd
          simp only [AList.keys, List.map_cons, List.nodup_cons, List.mem_cons] at hnd
          exact hnd.1 (Or.inl (by rw [hfirst, this]))
      constructor
      · intro hnone
        exfalso
        unfold programsInf at hnone
        rw [hrules, hrest] at hnone
        obtain ⟨nt, rs⟩ := e
        have hall : ((rs.map (fun r => (r.2.1.map (fun a => AList.lookup a ([] : AList (Ty × CFGState) Nat))))).all
            (fun l => l.all Option.isSome)) = true := by
          simp only [List.all_eq_true, List.mem_map, forall_exists_index, and_imp,
            forall_apply_eq_imp_iff₂]
          intro r hr a ha
          rw [hargs r hr] at ha; cases ha
        simp only [programsFill, hall, if_true] at hnone
        simp only at hfirst
        rw [← hfirst, AList.lookup_insert_self] at hnone
        cases hnone
      · rintro ⟨f, k, ks, hg⟩
        exfalso
        obtain ⟨rs, args, h1, h2, h3⟩ := (gen_iff G f (k :: ks) G.start).mp hg
        rw [hlk] at h1; cases h1
        have := hargs _ (AList.lookup_some_mem h2)
        simp only at this
        rw [this] at h3
        simp [genList] at h3
    · -- a rule with an argument: the very first fill step fails
      have hex : ∃ r ∈ e.2, r.2.1 ≠ [] := by
        by_contra hcon
        apply hargs
        intro r hr
        by_contra hne
        exact hcon ⟨r, hr, hne⟩
      obtain ⟨r, hr, hne⟩ := hex
      constructor
      · intro _
        obtain ⟨ks, hks⟩ := genList_exists G r.2.1 (fun a ha =>
          hprod _ (hclosed e hmem r hr a ha))
        have hlen := genList_length G ks r.2.1 hks
        cases ks with
        | nil =>
          exfalso
          simp only [List.length_nil] at hlen
          exact hne (List.length_eq_zero_iff.mp hlen.symm)
        | cons k ks =>
          refine ⟨r.1, k, ks, ?_⟩
          rw [gen_iff]
          exact ⟨e.2, r.2.1, hlk, lookup_row_of_mem (hwf.rows e hmem) hr, hks⟩
      · intro _
        unfold programsInf
        rw [hrules]
        obtain ⟨nt, rs⟩ := e
        have hall : ((rs.map (fun r => (r.2.1.map (fun a => AList.lookup a ([] : AList (Ty × CFGState) Nat))))).all
            (fun l => l.all Option.isSome)) = false := by
          rw [Bool.eq_false_iff]
          intro hall
          simp only [List.all_eq_true, List.mem_map, forall_exists_index, and_imp,
            forall_apply_eq_imp_iff₂] at hall
          cases hra : r.2.1 with
          | nil => exact hne hra
          | cons a as =>
            have := hall r hr a (by rw [hra]; simp)
            simp at this
        simp only [programsFill, hall, Bool.false_eq_true, if_false]

end PS.G
