/- Helper lemmas about the value samplers (ListSampler's `[f() for _ in range(k)]`). -/
import PS.Model.Sampler
namespace PS.Sampler

theorem repeatM_length {σ β : Type} (f : σ → Option (β × σ)) :
    ∀ (k : Nat) (s : σ) (bs : List β) (s' : σ), PS.Sampler.repeatM f k s = some (bs, s') → bs.length = k
  | 0, s, bs, s', h => by
    simp only [PS.Sampler.repeatM, Option.some.injEq, Prod.mk.injEq] at h
    rw [← h.1]; rfl
  | k + 1, s, bs, s', h => by
    unfold PS.Sampler.repeatM at h
    cases hf : f s with
    | none => simp [hf] at h
    | some p =>
      obtain ⟨b, s1⟩ := p
      simp only [hf] at h
      cases hr : PS.Sampler.repeatM f k s1 with
      | none => simp [hr] at h
      | some q =>
        obtain ⟨bs', s2⟩ := q
        simp only [hr, Option.some.injEq, Prod.mk.injEq] at h
        rw [← h.1]
        simp [repeatM_length f k s1 bs' s2 hr]

theorem list_shape_aux (f : LDraws → Option (Val × LDraws)) (len : Nat) (d1 d' : LDraws) (v : Val)
    (h : (match PS.Sampler.repeatM f len d1 with
          | none => none
          | some (vs, d2) => some (Tree.node none vs, d2)) = some (v, d')) :
    ∃ vs, v = Tree.node none vs ∧ vs.length = len := by
  cases hr : PS.Sampler.repeatM f len d1 with
  | none => simp [hr] at h
  | some q =>
    obtain ⟨vs, d2⟩ := q
    simp only [hr, Option.some.injEq, Prod.mk.injEq] at h
    exact ⟨vs, h.1.symm, repeatM_length f len d1 vs d2 hr⟩

end PS.Sampler
