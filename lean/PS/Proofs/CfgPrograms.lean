/-
  Lemma for C01: `CFG.programs()` (model `programs`) never answers -1 on a table in which every
  argument of a rule is a non-terminal of the table sitting strictly deeper than the rule's
  non-terminal — in particular on every grammar built by `depth_constraint`: processing the
  non-terminals by decreasing depth finds every needed count already filled in.
-/
import PS.Proofs.CfgBuild
import PS.Proofs.Programs
namespace PS.G
open PS

def depthOf (e : CNT × Row) : Nat := e.1.2.1.2

/-- sorted by decreasing depth -/
def DepthSorted (l : Table) : Prop := l.Pairwise (fun a b => depthOf b ≤ depthOf a)

theorem insertByDepth_sorted (x : CNT × Row) (l : Table) (h : DepthSorted l) :
    DepthSorted (insertByDepth x l) := by
  unfold DepthSorted at h ⊢
  induction l with
  | nil => simp [insertByDepth]
  | cons y ys ih =>
    rw [List.pairwise_cons] at h
    unfold insertByDepth
    split
    · rename_i hlt
      have hlt' : depthOf y < depthOf x := hlt
      rw [List.pairwise_cons]
      refine ⟨?_, List.pairwise_cons.mpr h⟩
      intro b hb
      rcases List.mem_cons.mp hb with rfl | hb
      · omega
      · have := h.1 b hb; omega
    · rename_i hnlt
      have hnlt' : ¬ depthOf y < depthOf x := hnlt
      rw [List.pairwise_cons]
      refine ⟨?_, ih h.2⟩
      intro b hb
      rcases (Programs.mem_insertByDepth x b ys).mp hb with rfl | hb
      · omega
      · exact h.1 b hb

theorem sortByDepthDesc_sorted (tbl : Table) : DepthSorted (sortByDepthDesc tbl) := by
  induction tbl with
  | nil => simp [sortByDepthDesc, DepthSorted]
  | cons x xs ih =>
    have : sortByDepthDesc (x :: xs) = insertByDepth x (sortByDepthDesc xs) := rfl
    rw [this]
    exact insertByDepth_sorted x _ ih

theorem toNT_eq_iff (a : Ty × CFGState) (nt : CNT) : toNT a = nt ↔ a = (nt.1, nt.2.1) := by
  obtain ⟨a1, a2⟩ := a
  obtain ⟨n1, n2, ⟨⟩⟩ := nt
  simp [toNT]

/-- the fill succeeds on a depth-sorted list all of whose arguments are strictly deeper keys of
    the list or already counted -/
theorem programsFill_isSome :
    ∀ (tbl : Table) (cnt : AList (Ty × CFGState) Nat), DepthSorted tbl →
      (∀ e ∈ tbl, ∀ r ∈ e.2, ∀ a ∈ r.2.1, depthOf e < a.2.2 ∧
        (toNT a ∈ AList.keys tbl ∨ (AList.lookup a cnt).isSome = true)) →
      ∃ cnt', programsFill tbl cnt = some cnt' ∧
        (∀ a, (AList.lookup a cnt).isSome = true → (AList.lookup a cnt').isSome = true) ∧
        ∀ e ∈ tbl, (AList.lookup (e.1.1, e.1.2.1) cnt').isSome = true := by
  intro tbl
  induction tbl with
  | nil => intro cnt _ _; exact ⟨cnt, rfl, fun _ h => h, fun _ h => (by cases h)⟩
  | cons e rest ih =>
    intro cnt hs hyp
    obtain ⟨nt, rs⟩ := e
    unfold DepthSorted at hs
    rw [List.pairwise_cons] at hs
    -- every argument of the head is already counted
    have hhead : ∀ r ∈ rs, ∀ a ∈ r.2.1, (AList.lookup a cnt).isSome = true := by
      intro r hr a ha
      obtain ⟨hd, hk⟩ := hyp (nt, rs) (by simp) r hr a ha
      rcases hk with hk | hk
      · exfalso
        obtain ⟨e', he', hke⟩ := List.mem_map.mp hk
        have hda : depthOf e' = a.2.2 := by unfold depthOf; rw [hke]; rfl
        rcases List.mem_cons.mp he' with rfl | he'
        · omega
        · have := hs.1 e' he'; omega
      · exact hk
    have hall : ((rs.map (fun r => (r.2.1.map (fun a => AList.lookup a cnt)))).all
        (fun l => l.all Option.isSome)) = true := by
      simp only [List.all_eq_true, List.mem_map, forall_exists_index, and_imp,
        forall_apply_eq_imp_iff₂]
      exact hhead
    rw [programsFill]
    simp only [hall, if_true]
    generalize ((rs.map (fun r => (r.2.1.map (fun a => AList.lookup a cnt)))).map
      (fun l => (l.map (fun o => o.getD 0)).foldl (· * ·) 1)).sum = total
    have hmono : ∀ a, (AList.lookup a cnt).isSome = true →
        (AList.lookup a (AList.insert (nt.1, nt.2.1) total cnt)).isSome = true := by
      intro a ha
      rw [AList.lookup_insert]
      split
      · rfl
      · exact ha
    obtain ⟨cnt', h1, h2, h3⟩ := ih (AList.insert (nt.1, nt.2.1) total cnt) hs.2 (by
      intro e he r hr a ha
      obtain ⟨hd, hk⟩ := hyp e (List.mem_cons_of_mem _ he) r hr a ha
      refine ⟨hd, ?_⟩
      rcases hk with hk | hk
      · simp only [AList.keys, List.map_cons, List.mem_cons] at hk
        rcases hk with hk | hk
        · right
          rw [(toNT_eq_iff a nt).mp hk, AList.lookup_insert_self]; rfl
        · exact Or.inl hk
      · exact Or.inr (hmono a hk))
    refine ⟨cnt', h1, fun a ha => h2 a (hmono a ha), ?_⟩
    intro e he
    rcases List.mem_cons.mp he with rfl | he
    · apply h2
      rw [AList.lookup_insert_self]; rfl
    · exact h3 e he

/-- **`programs()` returns a number** (never -1) on a table whose arguments are strictly deeper
    non-terminals of the table -/
theorem programs_isSome (G : CFG)
    (hdepth : ∀ e ∈ G.rules, ∀ r ∈ e.2, ∀ a ∈ r.2.1, depthOf e < a.2.2)
    (hclosed : ArgsClosed G.rules) (hstart : G.start ∈ AList.keys G.rules) :
    ∃ n, programs G = some n := by
  have hmem := Programs.mem_sortByDepthDesc G.rules
  obtain ⟨cnt', h1, _, h3⟩ := programsFill_isSome (sortByDepthDesc G.rules) []
    (sortByDepthDesc_sorted G.rules) (by
      intro e he r hr a ha
      have he' := (hmem e).mp he
      refine ⟨hdepth e he' r hr a ha, Or.inl ?_⟩
      obtain ⟨e2, he2, hk⟩ := List.mem_map.mp (hclosed e he' r hr a ha)
      exact List.mem_map.mpr ⟨e2, (hmem e2).mpr he2, hk⟩)
  unfold programs
  rw [h1]
  simp only
  obtain ⟨e, he, hk⟩ := List.mem_map.mp hstart
  have := h3 e ((hmem e).mpr he)
  rw [hk] at this
  cases hl : AList.lookup (G.start.1, G.start.2.1) cnt' with
  | none => rw [hl] at this; cases this
  | some n => exact ⟨n, rfl⟩

end PS.G
