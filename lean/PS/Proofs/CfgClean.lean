/-
  Lemmas for C01: `clean` = `_remove_non_productive_` then `_remove_non_reachable_`
  (PS/Model/Cfg.lean: `removeNonProductive`, `removeNonReachable`) on ANY rule table that is a
  dict of dicts (distinct keys, distinct symbols per row):

  * `prodFix_spec`            the fuelled `while changed` loop reaches the least fixed point of
                              productivity within `|table| + 1` passes;
  * `reachFix_spec`           the fuelled breadth-first loop computes the reachability closure;
  * `clean_some`, `clean_none` clean keeps the language of the start symbol, every remaining
                              non-terminal is reachable and productive, every argument of a
                              remaining rule is a remaining non-terminal; clean fails (KeyError)
                              exactly when the language is empty.
-/
import PS.Proofs.Cfg
import Mathlib.Data.List.Perm.Subperm
import Mathlib.Data.List.Nodup
namespace PS.G
open PS

abbrev Row := AList Sym (List (Ty × CFGState) × Unit)

/-- the table is a dict of dicts: distinct non-terminals, distinct symbols in every row -/
structure TableWF (tbl : Table) : Prop where
  keys : (AList.keys tbl).Nodup
  rows : ∀ e ∈ tbl, (AList.keys e.2).Nodup

/-! ### generic facts on `gen` -/

theorem gen_iff (G : CFG) (f : Sym) (kids : List Prog) (nt : CNT) :
    gen G (.node f kids) nt = true ↔
      ∃ rs args, AList.lookup nt G.rules = some rs ∧ AList.lookup f rs = some (args, ()) ∧
        genList G kids args = true := by
  rw [gen]; unfold TT.rule?
  cases h1 : AList.lookup nt G.rules with
  | none => simp
  | some rs =>
    simp only
    cases h2 : AList.lookup f rs with
    | none => simp [h2]
    | some v => obtain ⟨args, u⟩ := v; simp [h2]

theorem genList_mem (G : CFG) :
    ∀ (ks : List Prog) (as : List (Ty × CFGState)), genList G ks as = true →
      ∀ a ∈ as, ∃ k ∈ ks, gen G k (toNT a) = true
  | [], [], _, a, ha => by cases ha
  | [], _ :: _, h, _, _ => by simp [genList] at h
  | _ :: _, [], h, _, _ => by simp [genList] at h
  | k :: ks, (t, s) :: as, h, a, ha => by
    rw [genList] at h
    simp only [Bool.and_eq_true] at h
    rcases List.mem_cons.mp ha with ha | ha
    · subst ha; exact ⟨k, by simp, h.1⟩
    · obtain ⟨k', hk', hg⟩ := genList_mem G ks as h.2 a ha
      exact ⟨k', List.mem_cons_of_mem _ hk', hg⟩

theorem genList_congr (G G' : CFG) :
    ∀ (ks : List Prog) (as : List (Ty × CFGState)),
      (∀ k ∈ ks, ∀ a ∈ as, gen G k (toNT a) = gen G' k (toNT a)) → genList G ks as = genList G' ks as
  | [], [], _ => by simp [genList]
  | [], _ :: _, _ => by simp [genList]
  | _ :: _, [], _ => by simp [genList]
  | k :: ks, (t, s) :: as, h => by
    rw [genList, genList]
    have h1 := h k (by simp) (t, s) (by simp)
    have h2 := genList_congr G G' ks as
      (fun k' hk' a ha => h k' (List.mem_cons_of_mem _ hk') a (List.mem_cons_of_mem _ ha))
    simp only [toNT] at h1
    rw [h1, h2]

theorem genList_exists (G : CFG) :
    ∀ (as : List (Ty × CFGState)), (∀ a ∈ as, ∃ t, gen G t (toNT a) = true) →
      ∃ ks, genList G ks as = true
  | [], _ => ⟨[], by simp [genList]⟩
  | (t, s) :: as, h => by
    obtain ⟨k, hk⟩ := h (t, s) (by simp)
    obtain ⟨ks, hks⟩ := genList_exists G as (fun a ha => h a (List.mem_cons_of_mem _ ha))
    refine ⟨k :: ks, ?_⟩
    rw [genList]
    simp only [toNT] at hk
    simp [hk, hks]

theorem mem_keys_of_mem {κ ν : Type} {e : κ × ν} {d : AList κ ν} (h : e ∈ d) : e.1 ∈ AList.keys d :=
  List.mem_map.mpr ⟨e, h, rfl⟩

theorem lookup_of_mem {tbl : Table} (hk : (AList.keys tbl).Nodup) {e : CNT × Row} (he : e ∈ tbl) :
    AList.lookup e.1 tbl = some e.2 :=
  AList.lookup_of_mem_nodup hk (by cases e; exact he)

theorem lookup_row_of_mem {rs : Row} (hk : (AList.keys rs).Nodup)
    {r : Sym × (List (Ty × CFGState) × Unit)} (hr : r ∈ rs) :
    AList.lookup r.1 rs = some (r.2.1, ()) :=
  AList.lookup_of_mem_nodup hk (by obtain ⟨a, b, u⟩ := r; exact hr)

theorem mem_keys_iff_contains {κ ν : Type} [DecidableEq κ] {k : κ} {d : AList κ ν} :
    k ∈ AList.keys d ↔ AList.contains k d = true := by
  unfold AList.contains
  exact AList.lookup_isSome_iff_mem_keys.symm

theorem length_le_of_nodup_subset {α : Type} {l m : List α} (hnd : l.Nodup) (hs : ∀ x ∈ l, x ∈ m) :
    l.length ≤ m.length :=
  (List.subperm_of_subset hnd hs).length_le

/-- two duplicate-free lists of the same length, one included in the other, have the same
    elements -/
theorem subset_of_nodup_length {α : Type} {l m : List α} (hnd : l.Nodup) (hs : ∀ x ∈ l, x ∈ m)
    (hlen : m.length ≤ l.length) : ∀ x ∈ m, x ∈ l := by
  intro x hx
  exact ((List.subperm_of_subset hnd hs).perm_of_length_le hlen).mem_iff.mpr hx

/-! ### `_remove_non_productive_` -/

/-- the test of one candidate in a pass of the `while changed` loop -/
def prodOK (known : List CNT) (e : CNT × Row) : Bool :=
  known.contains e.1 || e.2.any (fun r => r.2.1.all (fun a => known.contains (toNT a)))

theorem prodStep_eq (tbl : Table) (known : List CNT) :
    prodStep tbl known = (tbl.filter (prodOK known)).map (·.1) := by
  unfold prodStep
  induction tbl with
  | nil => rfl
  | cons e tbl ih =>
    rw [List.filterMap_cons, List.filter_cons, ih]
    unfold prodOK
    cases h1 : known.contains e.1 <;>
      cases h2 : (e.2.any (fun r => r.2.1.all (fun a => known.contains (toNT a)))) <;> simp

theorem mem_prodStep (tbl : Table) (known : List CNT) (nt : CNT) :
    nt ∈ prodStep tbl known ↔ ∃ e ∈ tbl, e.1 = nt ∧
      (nt ∈ known ∨ ∃ r ∈ e.2, ∀ a ∈ r.2.1, toNT a ∈ known) := by
  rw [prodStep_eq]
  simp only [List.mem_map, List.mem_filter, prodOK, Bool.or_eq_true, List.contains_iff_mem,
    List.any_eq_true, List.all_eq_true]
  constructor
  · rintro ⟨e, ⟨he, h⟩, rfl⟩
    exact ⟨e, he, rfl, h⟩
  · rintro ⟨e, he, rfl, h⟩
    exact ⟨e, ⟨he, h⟩, rfl⟩

theorem prodStep_sublist (tbl : Table) (known : List CNT) :
    List.Sublist (prodStep tbl known) (AList.keys tbl) := by
  rw [prodStep_eq]
  exact List.Sublist.map _ List.filter_sublist

/-- invariant of the `while changed` loop: the non-terminals found so far are distinct keys of
    the table and each derives some program -/
structure PInv (s : CNT) (tbl : Table) (known : List CNT) : Prop where
  nodup : known.Nodup
  keys : ∀ nt ∈ known, nt ∈ AList.keys tbl
  sound : ∀ nt ∈ known, ∃ t, gen (⟨s, tbl⟩ : CFG) t nt = true

theorem prodStep_inv (s : CNT) (tbl : Table) (hwf : TableWF tbl) (known : List CNT)
    (h : PInv s tbl known) : PInv s tbl (prodStep tbl known) := by
  refine ⟨(prodStep_sublist tbl known).nodup hwf.keys, ?_, ?_⟩
  · intro nt hnt
    exact (prodStep_sublist tbl known).subset hnt
  · intro nt hnt
    obtain ⟨e, he, rfl, hcase⟩ := (mem_prodStep tbl known nt).mp hnt
    rcases hcase with hk | ⟨r, hr, hall⟩
    · exact h.sound _ hk
    · obtain ⟨ks, hks⟩ := genList_exists ⟨s, tbl⟩ r.2.1 (fun a ha => h.sound _ (hall a ha))
      refine ⟨.node r.1 ks, ?_⟩
      rw [gen_iff]
      exact ⟨e.2, r.2.1, lookup_of_mem hwf.keys he, lookup_row_of_mem (hwf.rows e he) hr, hks⟩

theorem subset_prodStep (tbl : Table) (known : List CNT) (hk : ∀ nt ∈ known, nt ∈ AList.keys tbl) :
    ∀ nt ∈ known, nt ∈ prodStep tbl known := by
  intro nt hnt
  obtain ⟨e, he, rfl⟩ := List.mem_map.mp (hk nt hnt)
  exact (mem_prodStep tbl known _).mpr ⟨e, he, rfl, Or.inl hnt⟩

/-- closed under "has a rule whose arguments are all in the set" -/
def ProdClosed (tbl : Table) (K : List CNT) : Prop :=
  ∀ e ∈ tbl, (∃ r ∈ e.2, ∀ a ∈ r.2.1, toNT a ∈ K) → e.1 ∈ K

/-- **the `while changed` loop reaches a fixed point within `|table| + 1` passes** (the fuel
    of the model is never exhausted): the result is a set of productive keys closed under the
    productivity rule. -/
theorem prodFix_spec (s : CNT) (tbl : Table) (hwf : TableWF tbl) :
    ∀ (fuel : Nat) (known : List CNT), PInv s tbl known → tbl.length + 1 ≤ known.length + fuel →
      PInv s tbl (prodFix tbl fuel known) ∧ ProdClosed tbl (prodFix tbl fuel known) := by
  intro fuel
  induction fuel with
  | zero =>
    intro known h hlen
    exfalso
    have := length_le_of_nodup_subset h.nodup h.keys
    simp only [AList.keys, List.length_map] at this
    omega
  | succ fuel ih =>
    intro known h hlen
    rw [prodFix]
    have hinv' := prodStep_inv s tbl hwf known h
    have hsub := subset_prodStep tbl known h.keys
    by_cases heq : (prodStep tbl known).length = known.length
    · simp only [heq, if_true]
      refine ⟨h, ?_⟩
      intro e he hr
      have hin : e.1 ∈ prodStep tbl known := (mem_prodStep tbl known e.1).mpr ⟨e, he, rfl, Or.inr hr⟩
      exact subset_of_nodup_length h.nodup hsub (Nat.le_of_eq heq) _ hin
    · simp only [heq, if_false]
      apply ih _ hinv'
      have := length_le_of_nodup_subset h.nodup hsub
      omega

theorem pinv_nil (s : CNT) (tbl : Table) : PInv s tbl [] :=
  ⟨List.nodup_nil, fun _ h => (by cases h), fun _ h => (by cases h)⟩

/-- the productive set computed by `removeNonProductive` -/
def prodSet (tbl : Table) : List CNT := prodFix tbl (tbl.length + 1) []

theorem prodSet_spec (s : CNT) (tbl : Table) (hwf : TableWF tbl) :
    PInv s tbl (prodSet tbl) ∧ ProdClosed tbl (prodSet tbl) :=
  prodFix_spec s tbl hwf _ [] (pinv_nil s tbl) (by simp)

/-- completeness: whatever derives a program is in a closed set -/
theorem mem_of_gen (s : CNT) (tbl : Table) (K : List CNT) (hc : ProdClosed tbl K) :
    ∀ (n : Nat) (t : Prog), t.size ≤ n → ∀ nt, gen (⟨s, tbl⟩ : CFG) t nt = true → nt ∈ K := by
  intro n
  induction n with
  | zero =>
    intro t ht
    cases t with | node f kids => simp [Tree.size] at ht
  | succ n ih =>
    intro t ht nt hg
    cases t with
    | node f kids =>
      obtain ⟨rs, args, h1, h2, h3⟩ := (gen_iff _ f kids nt).mp hg
      have := hc (nt, rs) (AList.lookup_some_mem h1) ⟨(f, (args, ())), AList.lookup_some_mem h2, ?_⟩
      · exact this
      · intro a ha
        obtain ⟨k, hk, hgk⟩ := genList_mem _ kids args h3 a ha
        have := Tree.size_lt_of_mem_kids (l := f) hk
        exact ih k (by omega) _ hgk

/-- **the set computed by `_remove_non_productive_` is exactly the set of non-terminals that
    derive a program** -/
theorem mem_prodSet_iff (s : CNT) (tbl : Table) (hwf : TableWF tbl) (nt : CNT) :
    nt ∈ prodSet tbl ↔ ∃ t, gen (⟨s, tbl⟩ : CFG) t nt = true := by
  obtain ⟨hinv, hcl⟩ := prodSet_spec s tbl hwf
  constructor
  · exact hinv.sound nt
  · rintro ⟨t, ht⟩
    exact mem_of_gen s tbl _ hcl t.size t (Nat.le_refl _) nt ht

/-! ### lookups in filtered dicts -/

theorem filterMap_ite {α β : Type} (c : α → Bool) (g : α → β) (l : List α) :
    l.filterMap (fun e => if c e = true then some (g e) else none) = (l.filter c).map g := by
  induction l with
  | nil => rfl
  | cons a l ih =>
    rw [List.filterMap_cons, List.filter_cons, ih]
    cases h : c a <;> simp

theorem lookup_filter_map {κ ν ν' : Type} [DecidableEq κ] (c : κ → Bool) (g : ν → ν')
    (d : AList κ ν) (k : κ) :
    AList.lookup k ((d.filter (fun e => c e.1)).map (fun e => (e.1, g e.2))) =
      if c k = true then (AList.lookup k d).map g else none := by
  induction d with
  | nil => simp [AList.lookup]
  | cons p d ih =>
    obtain ⟨k', v⟩ := p
    rw [List.filter_cons]
    by_cases hk : k' = k
    · subst hk
      cases hc : c k' with
      | true => simp [AList.lookup]
      | false => simp only [hc, Bool.false_eq_true, if_false, ih]
    · cases hc : c k' with
      | true => simp only [if_true, List.map_cons, AList.lookup, hk, if_false, ih]
      | false => simp only [Bool.false_eq_true, if_false, ih, AList.lookup, hk]

theorem lookup_filter_key {κ ν : Type} [DecidableEq κ] (c : κ → Bool) (d : AList κ ν) (k : κ) :
    AList.lookup k (d.filter (fun e => c e.1)) = if c k = true then AList.lookup k d else none := by
  have := lookup_filter_map c (fun v : ν => v) d k
  simpa using this

theorem lookup_none_of_not_key {κ ν : Type} [DecidableEq κ] {d : AList κ ν} {k : κ}
    (h : k ∉ AList.keys d) : AList.lookup k d = none := by
  cases hl : AList.lookup k d with
  | none => rfl
  | some v => exact absurd (mem_keys_of_mem (AList.lookup_some_mem hl)) h

theorem lookup_filter_row {κ ν : Type} [DecidableEq κ] (q : κ × ν → Bool) (d : AList κ ν)
    (hnd : (AList.keys d).Nodup) (k : κ) :
    AList.lookup k (d.filter q) = (AList.lookup k d).filter (fun v => q (k, v)) := by
  induction d with
  | nil => simp [AList.lookup]
  | cons p d ih =>
    obtain ⟨k', v⟩ := p
    simp only [AList.keys, List.map_cons, List.nodup_cons] at hnd
    rw [List.filter_cons]
    by_cases hk : k' = k
    · subst hk
      cases hq : q (k', v) with
      | true => simp [AList.lookup, Option.filter, hq]
      | false =>
        have hnk : k' ∉ AList.keys (d.filter q) := by
          intro hm
          obtain ⟨e, he, hek⟩ := List.mem_map.mp hm
          exact hnd.1 (List.mem_map.mpr ⟨e, (List.mem_filter.mp he).1, hek⟩)
        simp [AList.lookup, Option.filter, hq, lookup_none_of_not_key hnk]
    · cases hq : q (k', v) with
      | true => simp only [if_true, AList.lookup, hk, if_false]; exact ih hnd.2
      | false => simp only [Bool.false_eq_true, if_false, AList.lookup, hk]; exact ih hnd.2

/-! ### the table after `_remove_non_productive_` -/

/-- the rules kept in a row: all arguments productive -/
def rowFilter (K : List CNT) (rs : Row) : Row :=
  rs.filter (fun r => r.2.1.all (fun a => K.contains (toNT a)))

theorem removeNonProductive_eq (tbl : Table) :
    removeNonProductive tbl =
      (tbl.filter (fun e => (prodSet tbl).contains e.1)).map (fun e => (e.1, rowFilter (prodSet tbl) e.2)) := by
  unfold removeNonProductive
  exact filterMap_ite (fun e => (prodSet tbl).contains e.1) (fun e => (e.1, rowFilter (prodSet tbl) e.2)) tbl

theorem lookup_removeNonProductive (tbl : Table) (nt : CNT) :
    AList.lookup nt (removeNonProductive tbl) =
      if nt ∈ prodSet tbl then (AList.lookup nt tbl).map (rowFilter (prodSet tbl)) else none := by
  rw [removeNonProductive_eq]
  have := lookup_filter_map (fun k => (prodSet tbl).contains k) (rowFilter (prodSet tbl)) tbl nt
  simpa using this

theorem keys_filter_sublist {κ ν : Type} (q : κ × ν → Bool) (d : AList κ ν) :
    List.Sublist (AList.keys (d.filter q)) (AList.keys d) :=
  List.Sublist.map _ List.filter_sublist

theorem removeNonProductive_wf (tbl : Table) (hwf : TableWF tbl) : TableWF (removeNonProductive tbl) := by
  rw [removeNonProductive_eq]
  constructor
  · have : AList.keys ((tbl.filter (fun e => (prodSet tbl).contains e.1)).map
        (fun e => (e.1, rowFilter (prodSet tbl) e.2))) =
        AList.keys (tbl.filter (fun e => (prodSet tbl).contains e.1)) := by
      simp [AList.keys, List.map_map, Function.comp_def]
    rw [this]
    exact (keys_filter_sublist _ tbl).nodup hwf.keys
  · intro e he
    obtain ⟨e0, he0, rfl⟩ := List.mem_map.mp he
    exact (keys_filter_sublist _ e0.2).nodup (hwf.rows e0 (List.mem_filter.mp he0).1)

/-- **`_remove_non_productive_` changes the language of no non-terminal** -/
theorem gen_removeNonProductive (s : CNT) (tbl : Table) (hwf : TableWF tbl) :
    ∀ (n : Nat) (t : Prog), t.size ≤ n → ∀ nt,
      gen (⟨s, removeNonProductive tbl⟩ : CFG) t nt = gen (⟨s, tbl⟩ : CFG) t nt := by
  obtain ⟨_, hcl⟩ := prodSet_spec s tbl hwf
  intro n
  induction n with
  | zero =>
    intro t ht
    cases t with | node f kids => simp [Tree.size] at ht
  | succ n ih =>
    intro t ht nt
    cases t with
    | node f kids =>
      have hkids : ∀ (args : List (Ty × CFGState)),
          genList (⟨s, removeNonProductive tbl⟩ : CFG) kids args = genList (⟨s, tbl⟩ : CFG) kids args := by
        intro args
        apply genList_congr
        intro k hk a _
        have := Tree.size_lt_of_mem_kids (l := f) hk
        exact ih k (by omega) _
      rw [Bool.eq_iff_iff, gen_iff, gen_iff]
      simp only [lookup_removeNonProductive]
      constructor
      · rintro ⟨rs1, args, h1, h2, h3⟩
        by_cases hK : nt ∈ prodSet tbl
        · simp only [hK, if_true, Option.map_eq_some_iff] at h1
          obtain ⟨rs, hrs, rfl⟩ := h1
          have hnd := hwf.rows (nt, rs) (AList.lookup_some_mem hrs)
          unfold rowFilter at h2
          rw [lookup_filter_row _ rs hnd f, Option.filter_eq_some_iff] at h2
          exact ⟨rs, args, hrs, h2.1, (hkids args) ▸ h3⟩
        · simp [hK] at h1
      · rintro ⟨rs, args, h1, h2, h3⟩
        have hg : gen (⟨s, tbl⟩ : CFG) (.node f kids) nt = true := (gen_iff _ f kids nt).mpr ⟨rs, args, h1, h2, h3⟩
        have hK : nt ∈ prodSet tbl := mem_of_gen s tbl _ hcl _ _ (Nat.le_refl _) nt hg
        have hnd := hwf.rows (nt, rs) (AList.lookup_some_mem h1)
        refine ⟨rowFilter (prodSet tbl) rs, args, by simp [hK, h1], ?_, (hkids args).symm ▸ h3⟩
        unfold rowFilter
        rw [lookup_filter_row _ rs hnd f, Option.filter_eq_some_iff]
        refine ⟨h2, ?_⟩
        simp only [List.all_eq_true, List.contains_iff_mem]
        intro a ha
        obtain ⟨k, _, hgk⟩ := genList_mem _ kids args h3 a ha
        exact mem_of_gen s tbl _ hcl _ _ (Nat.le_refl _) _ hgk

/-- every argument of every rule is a key -/
def ArgsClosed (tbl : Table) : Prop :=
  ∀ e ∈ tbl, ∀ r ∈ e.2, ∀ a ∈ r.2.1, toNT a ∈ AList.keys tbl

theorem mem_removeNonProductive (tbl : Table) (e : CNT × Row) :
    e ∈ removeNonProductive tbl ↔
      ∃ e0 ∈ tbl, e0.1 ∈ prodSet tbl ∧ e = (e0.1, rowFilter (prodSet tbl) e0.2) := by
  rw [removeNonProductive_eq]
  simp only [List.mem_map, List.mem_filter, List.contains_iff_mem]
  constructor
  · rintro ⟨e0, ⟨h1, h2⟩, rfl⟩; exact ⟨e0, h1, h2, rfl⟩
  · rintro ⟨e0, h1, h2, rfl⟩; exact ⟨e0, ⟨h1, h2⟩, rfl⟩

theorem mem_keys_removeNonProductive (s : CNT) (tbl : Table) (hwf : TableWF tbl) (nt : CNT) :
    nt ∈ AList.keys (removeNonProductive tbl) ↔ nt ∈ prodSet tbl := by
  obtain ⟨hinv, _⟩ := prodSet_spec s tbl hwf
  constructor
  · intro h
    obtain ⟨e, he, rfl⟩ := List.mem_map.mp h
    obtain ⟨e0, _, h2, rfl⟩ := (mem_removeNonProductive tbl e).mp he
    exact h2
  · intro h
    obtain ⟨e0, he0, rfl⟩ := List.mem_map.mp (hinv.keys nt h)
    exact mem_keys_of_mem (e := (e0.1, rowFilter (prodSet tbl) e0.2))
      ((mem_removeNonProductive tbl _).mpr ⟨e0, he0, h, rfl⟩)

theorem removeNonProductive_closed (s : CNT) (tbl : Table) (hwf : TableWF tbl) :
    ArgsClosed (removeNonProductive tbl) := by
  intro e he r hr a ha
  obtain ⟨e0, _, _, rfl⟩ := (mem_removeNonProductive tbl e).mp he
  rw [mem_keys_removeNonProductive s tbl hwf]
  have := (List.mem_filter.mp hr).2
  simp only [List.all_eq_true, List.contains_iff_mem] at this
  exact this a ha

/-! ### `eraseDups` (the `set` of newly reached non-terminals) -/

theorem eraseDups_spec {α : Type} [BEq α] [LawfulBEq α] :
    ∀ (n : Nat) (l : List α), l.length ≤ n → (∀ x, x ∈ l.eraseDups ↔ x ∈ l) ∧ l.eraseDups.Nodup := by
  intro n
  induction n with
  | zero =>
    intro l hl
    have : l = [] := List.length_eq_zero_iff.mp (by omega)
    subst this
    simp
  | succ n ih =>
    intro l hl
    cases l with
    | nil => simp
    | cons a as =>
      rw [List.eraseDups_cons]
      have hlen : (as.filter (fun b => !b == a)).length ≤ n := by
        have := List.length_filter_le (fun b => !b == a) as
        simp only [List.length_cons] at hl
        omega
      obtain ⟨hmem, hnd⟩ := ih _ hlen
      constructor
      · intro x
        simp only [List.mem_cons, hmem, List.mem_filter]
        by_cases hx : x = a
        · simp [hx]
        · simp [hx]
      · rw [List.nodup_cons]
        refine ⟨?_, hnd⟩
        rw [hmem]
        simp

theorem mem_eraseDups {α : Type} [BEq α] [LawfulBEq α] (l : List α) (x : α) : x ∈ l.eraseDups ↔ x ∈ l :=
  (eraseDups_spec l.length l (Nat.le_refl _)).1 x

theorem nodup_eraseDups {α : Type} [BEq α] [LawfulBEq α] (l : List α) : l.eraseDups.Nodup :=
  (eraseDups_spec l.length l (Nat.le_refl _)).2

/-! ### `_remove_non_reachable_` -/

/-- the argument non-terminals of the rules of `nt` -/
def kidsT (tbl : Table) (nt : CNT) : List CNT :=
  ((AList.lookup nt tbl).getD []).flatMap (fun r => r.2.1.map toNT)

theorem mem_kidsT (tbl : Table) (nt k : CNT) :
    k ∈ kidsT tbl nt ↔ ∃ rs r a, AList.lookup nt tbl = some rs ∧ r ∈ rs ∧ a ∈ r.2.1 ∧ toNT a = k := by
  unfold kidsT
  cases h : AList.lookup nt tbl with
  | none => simp
  | some rs =>
    simp only [Option.getD_some, List.mem_flatMap, List.mem_map, Option.some.injEq]
    constructor
    · rintro ⟨r, hr, a, ha, rfl⟩; exact ⟨rs, r, a, rfl, hr, ha, rfl⟩
    · rintro ⟨rs', r, a, rfl, hr, ha, rfl⟩; exact ⟨r, hr, a, ha, rfl⟩

/-- invariant of the breadth-first loop -/
structure RInv (start : CNT) (tbl : Table) (todo seen : List CNT) : Prop where
  nodup : seen.Nodup
  todo_sub : ∀ x ∈ todo, x ∈ seen
  keys : ∀ x ∈ seen, x ∈ AList.keys tbl
  reach : ∀ x ∈ seen, Reach (⟨start, tbl⟩ : CFG) x
  closed : ∀ x ∈ seen, x ∈ todo ∨ ∀ k ∈ kidsT tbl x, k ∈ seen
  start : start ∈ seen

theorem kidsT_keys (tbl : Table) (hc : ArgsClosed tbl) (nt k : CNT) (h : k ∈ kidsT tbl nt) :
    k ∈ AList.keys tbl := by
  obtain ⟨rs, r, a, h1, h2, h3, rfl⟩ := (mem_kidsT tbl nt k).mp h
  exact hc (nt, rs) (AList.lookup_some_mem h1) r h2 a h3

/-- **the breadth-first loop computes the reachability closure** (its fuel is never exhausted) -/
theorem reachFix_spec (start : CNT) (tbl : Table) (hc : ArgsClosed tbl) :
    ∀ (fuel : Nat) (todo seen : List CNT), RInv start tbl todo seen →
      todo.length + (tbl.length - seen.length) + 1 ≤ fuel →
      RInv start tbl [] (reachFix tbl fuel todo seen) := by
  intro fuel
  induction fuel with
  | zero => intro todo seen _ h; omega
  | succ fuel ih =>
    intro todo seen h hf
    cases todo with
    | nil => simp only [reachFix]; exact h
    | cons nt todo =>
      rw [reachFix]
      change RInv start tbl [] (reachFix tbl fuel
        (todo ++ ((kidsT tbl nt).filter (fun k => !(seen.contains k))).eraseDups)
        (seen ++ ((kidsT tbl nt).filter (fun k => !(seen.contains k))).eraseDups))
      have hmem : ∀ x, x ∈ ((kidsT tbl nt).filter (fun k => !(seen.contains k))).eraseDups ↔
          x ∈ kidsT tbl nt ∧ x ∉ seen := by
        intro x
        rw [mem_eraseDups, List.mem_filter]
        simp
      have hnd := nodup_eraseDups ((kidsT tbl nt).filter (fun k => !(seen.contains k)))
      generalize ((kidsT tbl nt).filter (fun k => !(seen.contains k))).eraseDups = new at hmem hnd ⊢
      have hnt : nt ∈ seen := h.todo_sub nt (by simp)
      have hinv : RInv start tbl (todo ++ new) (seen ++ new) := by
        refine ⟨?_, ?_, ?_, ?_, ?_, ?_⟩
        · rw [List.nodup_append]
          refine ⟨h.nodup, hnd, ?_⟩
          intro a ha b hb hab
          subst hab
          exact ((hmem a).mp hb).2 ha
        · intro x hx
          rcases List.mem_append.mp hx with hx | hx
          · exact List.mem_append_left _ (h.todo_sub x (List.mem_cons_of_mem _ hx))
          · exact List.mem_append_right _ hx
        · intro x hx
          rcases List.mem_append.mp hx with hx | hx
          · exact h.keys x hx
          · exact kidsT_keys tbl hc nt x ((hmem x).mp hx).1
        · intro x hx
          rcases List.mem_append.mp hx with hx | hx
          · exact h.reach x hx
          · obtain ⟨rs, r, a, h1, h2, h3, rfl⟩ := (mem_kidsT tbl nt x).mp ((hmem x).mp hx).1
            exact Reach.step (h.reach nt hnt) h1 h2 h3
        · intro x hx
          rcases List.mem_append.mp hx with hx | hx
          · rcases h.closed x hx with hcase | hcase
            · rcases List.mem_cons.mp hcase with rfl | hcase
              · right
                intro k hk
                by_cases hks : k ∈ seen
                · exact List.mem_append_left _ hks
                · exact List.mem_append_right _ ((hmem k).mpr ⟨hk, hks⟩)
              · left; exact List.mem_append_left _ hcase
            · right
              intro k hk
              exact List.mem_append_left _ (hcase k hk)
          · left; exact List.mem_append_right _ hx
        · exact List.mem_append_left _ h.start
      apply ih _ _ hinv
      have hle := length_le_of_nodup_subset hinv.nodup hinv.keys
      simp only [AList.keys, List.length_map, List.length_append] at hle
      simp only [List.length_append, List.length_cons] at hf ⊢
      omega

/-- the reachable set computed by `removeNonReachable` -/
def reachSet (start : CNT) (tbl : Table) : List CNT :=
  reachFix tbl (tbl.length * tbl.length + tbl.length + 1) [start] [start]

theorem reachSet_spec (start : CNT) (tbl : Table) (hc : ArgsClosed tbl)
    (hs : start ∈ AList.keys tbl) : RInv start tbl [] (reachSet start tbl) := by
  apply reachFix_spec start tbl hc
  · refine ⟨by simp, fun x hx => hx, ?_, ?_, ?_, by simp⟩
    · intro x hx
      rw [List.mem_singleton.mp hx]; exact hs
    · intro x hx
      rw [List.mem_singleton.mp hx]; exact Reach.start
    · intro x hx
      left; exact hx
  · have : 1 ≤ tbl.length := by
      have : 0 < (AList.keys tbl).length := List.length_pos_of_mem hs
      simp only [AList.keys, List.length_map] at this
      omega
    generalize tbl.length * tbl.length = q
    simp only [List.length_cons, List.length_nil]
    omega

/-- everything reachable is in a set that contains the start and is closed under arguments -/
theorem mem_of_reach (start : CNT) (tbl : Table) (R : List CNT) (hs : start ∈ R)
    (hcl : ∀ x ∈ R, ∀ k ∈ kidsT tbl x, k ∈ R) (nt : CNT) (h : Reach (⟨start, tbl⟩ : CFG) nt) : nt ∈ R := by
  induction h with
  | start => exact hs
  | step _ h1 h2 h3 ih =>
    exact hcl _ ih _ ((mem_kidsT tbl _ _).mpr ⟨_, _, _, h1, h2, h3, rfl⟩)

/-- **the set computed by `_remove_non_reachable_` is exactly the set of non-terminals
    reachable from the start symbol** -/
theorem mem_reachSet_iff (start : CNT) (tbl : Table) (hc : ArgsClosed tbl)
    (hs : start ∈ AList.keys tbl) (nt : CNT) :
    nt ∈ reachSet start tbl ↔ Reach (⟨start, tbl⟩ : CFG) nt := by
  have h := reachSet_spec start tbl hc hs
  constructor
  · exact h.reach nt
  · apply mem_of_reach start tbl _ h.start
    intro x hx
    rcases h.closed x hx with hcase | hcase
    · cases hcase
    · exact hcase

theorem removeNonReachable_eq (start : CNT) (tbl : Table) :
    removeNonReachable start tbl =
      if AList.contains start tbl = true then
        some (tbl.filter (fun e => (reachSet start tbl).contains e.1)) else none := by
  unfold removeNonReachable reachSet
  cases AList.contains start tbl <;> simp

/-- the table restricted to a set of non-terminals -/
def restrict (R : List CNT) (tbl : Table) : Table := tbl.filter (fun e => R.contains e.1)

theorem lookup_restrict (R : List CNT) (tbl : Table) (nt : CNT) :
    AList.lookup nt (restrict R tbl) = if nt ∈ R then AList.lookup nt tbl else none := by
  have := lookup_filter_key (fun k => R.contains k) tbl nt
  simpa [restrict] using this

theorem restrict_wf (R : List CNT) (tbl : Table) (hwf : TableWF tbl) : TableWF (restrict R tbl) :=
  ⟨(keys_filter_sublist _ tbl).nodup hwf.keys, fun e he => hwf.rows e (List.mem_filter.mp he).1⟩

/-- restricting to a set closed under arguments keeps the language of its members -/
theorem gen_restrict (s : CNT) (tbl : Table) (R : List CNT)
    (hcl : ∀ x ∈ R, ∀ k ∈ kidsT tbl x, k ∈ R) :
    ∀ (n : Nat) (t : Prog), t.size ≤ n → ∀ nt ∈ R,
      gen (⟨s, restrict R tbl⟩ : CFG) t nt = gen (⟨s, tbl⟩ : CFG) t nt := by
  intro n
  induction n with
  | zero =>
    intro t ht
    cases t with | node f kids => simp [Tree.size] at ht
  | succ n ih =>
    intro t ht nt hnt
    cases t with
    | node f kids =>
      rw [gen, gen]
      unfold TT.rule?
      simp only [lookup_restrict, hnt, if_true]
      cases h1 : AList.lookup nt tbl with
      | none => rfl
      | some rs =>
        simp only
        cases h2 : AList.lookup f rs with
        | none => rfl
        | some v =>
          obtain ⟨args, u⟩ := v
          simp only
          apply genList_congr
          intro k hk a ha
          have := Tree.size_lt_of_mem_kids (l := f) hk
          apply ih k (by omega)
          exact hcl nt hnt _ ((mem_kidsT tbl nt _).mpr ⟨rs, _, a, h1, AList.lookup_some_mem h2, ha, rfl⟩)

theorem reach_restrict (start : CNT) (tbl : Table) (R : List CNT) (hs : start ∈ R)
    (hcl : ∀ x ∈ R, ∀ k ∈ kidsT tbl x, k ∈ R) (nt : CNT) (h : Reach (⟨start, tbl⟩ : CFG) nt) :
    Reach (⟨start, restrict R tbl⟩ : CFG) nt := by
  induction h with
  | start => exact Reach.start
  | @step nt' rs r a hr h1 h2 h3 ih =>
    have hin : nt' ∈ R := mem_of_reach start tbl R hs hcl nt' hr
    refine Reach.step ih (rs := rs) ?_ h2 h3
    change AList.lookup nt' (restrict R tbl) = some rs
    rw [lookup_restrict]; simp only [hin, if_true]; exact h1

/-! ### `clean` -/

/-- what `clean` guarantees about its result `T'` -/
structure CleanSpec (start : CNT) (tbl T' : Table) : Prop where
  /-- the language of the start symbol is unchanged -/
  lang : ∀ t, gen (⟨start, T'⟩ : CFG) t start = gen (⟨start, tbl⟩ : CFG) t start
  /-- more generally the language of every remaining non-terminal is unchanged -/
  lang_key : ∀ nt ∈ AList.keys T', ∀ t, gen (⟨start, T'⟩ : CFG) t nt = gen (⟨start, tbl⟩ : CFG) t nt
  wf : TableWF T'
  start_key : start ∈ AList.keys T'
  reachable : ∀ nt ∈ AList.keys T', Reach (⟨start, T'⟩ : CFG) nt
  productive : ∀ nt ∈ AList.keys T', ∃ t, gen (⟨start, T'⟩ : CFG) t nt = true
  closed : ArgsClosed T'
  /-- nothing is invented: every remaining rule is a rule of the original table -/
  sub : ∀ e ∈ T', ∃ e0 ∈ tbl, e0.1 = e.1 ∧ ∀ r ∈ e.2, r ∈ e0.2
  /-- nothing useful is lost: a rule of a remaining non-terminal whose arguments are all
      productive is kept -/
  kept : ∀ e ∈ T', ∀ e0 ∈ tbl, e0.1 = e.1 → ∀ r ∈ e0.2,
    (∀ a ∈ r.2.1, ∃ t, gen (⟨start, tbl⟩ : CFG) t (toNT a) = true) → r ∈ e.2

theorem mem_restrict (R : List CNT) (tbl : Table) (e : CNT × Row) :
    e ∈ restrict R tbl ↔ e ∈ tbl ∧ e.1 ∈ R := by
  simp [restrict, List.mem_filter]

/-- **clean, success case**: for ANY dict-of-dicts table, if `clean` does not raise, the
    cleaned table has the same language, and all its non-terminals are reachable and
    productive. -/
theorem clean_some (start : CNT) (tbl T' : Table) (hwf : TableWF tbl)
    (h : removeNonReachable start (removeNonProductive tbl) = some T') : CleanSpec start tbl T' := by
  rw [removeNonReachable_eq] at h
  by_cases hsk : AList.contains start (removeNonProductive tbl) = true
  · simp only [hsk, if_true, Option.some.injEq] at h
    have hsk' : start ∈ AList.keys (removeNonProductive tbl) := mem_keys_iff_contains.mpr hsk
    have hwf1 := removeNonProductive_wf tbl hwf
    have hc1 := removeNonProductive_closed start tbl hwf
    have hR := reachSet_spec start (removeNonProductive tbl) hc1 hsk'
    have hcl : ∀ x ∈ reachSet start (removeNonProductive tbl),
        ∀ k ∈ kidsT (removeNonProductive tbl) x, k ∈ reachSet start (removeNonProductive tbl) := by
      intro x hx
      rcases hR.closed x hx with hcase | hcase
      · cases hcase
      · exact hcase
    have hT : T' = restrict (reachSet start (removeNonProductive tbl)) (removeNonProductive tbl) := h.symm
    generalize hRdef : reachSet start (removeNonProductive tbl) = R at hR hcl hT
    subst hT
    have hkeys : ∀ nt, nt ∈ AList.keys (restrict R (removeNonProductive tbl)) ↔
        nt ∈ R := by
      intro nt
      constructor
      · intro hm
        obtain ⟨e, he, rfl⟩ := List.mem_map.mp hm
        exact ((mem_restrict R _ e).mp he).2
      · intro hm
        obtain ⟨e, he, rfl⟩ := List.mem_map.mp (hR.keys nt hm)
        exact mem_keys_of_mem ((mem_restrict R _ e).mpr ⟨he, hm⟩)
    have hlang : ∀ nt ∈ R, ∀ t, gen (⟨start, restrict R (removeNonProductive tbl)⟩ : CFG) t nt =
        gen (⟨start, tbl⟩ : CFG) t nt := by
      intro nt hnt t
      rw [gen_restrict start _ R hcl t.size t (Nat.le_refl _) nt hnt,
        gen_removeNonProductive start tbl hwf t.size t (Nat.le_refl _) nt]
    refine ⟨hlang start hR.start, fun nt hnt => hlang nt ((hkeys nt).mp hnt), restrict_wf R _ hwf1,
      (hkeys start).mpr hR.start, ?_, ?_, ?_, ?_, ?_⟩
    · intro nt hnt
      exact reach_restrict start _ R hR.start hcl nt (hR.reach nt ((hkeys nt).mp hnt))
    · intro nt hnt
      have hntR := (hkeys nt).mp hnt
      have hK : nt ∈ prodSet tbl := (mem_keys_removeNonProductive start tbl hwf nt).mp (hR.keys nt hntR)
      obtain ⟨t, ht⟩ := (mem_prodSet_iff start tbl hwf nt).mp hK
      exact ⟨t, by rw [hlang nt hntR]; exact ht⟩
    · intro e he r hr a ha
      obtain ⟨he1, heR⟩ := (mem_restrict R _ e).mp he
      rw [hkeys]
      exact hcl e.1 heR _ ((mem_kidsT _ e.1 _).mpr ⟨e.2, r, a, lookup_of_mem hwf1.keys he1, hr, ha, rfl⟩)
    · intro e he
      obtain ⟨he1, _⟩ := (mem_restrict R _ e).mp he
      obtain ⟨e0, he0, _, rfl⟩ := (mem_removeNonProductive tbl e).mp he1
      exact ⟨e0, he0, rfl, fun r hr => (List.mem_filter.mp hr).1⟩
    · intro e he e0 he0 hk r hr hprod
      obtain ⟨he1, _⟩ := (mem_restrict R _ e).mp he
      obtain ⟨e1, he1', _, rfl⟩ := (mem_removeNonProductive tbl e).mp he1
      -- same key, distinct keys: same entry
      have h1 := lookup_of_mem hwf.keys he0
      have h2 := lookup_of_mem hwf.keys he1'
      simp only at hk
      rw [hk, h2] at h1
      have : e1.2 = e0.2 := Option.some.inj h1
      simp only [rowFilter, this]
      refine List.mem_filter.mpr ⟨hr, ?_⟩
      simp only [List.all_eq_true, List.contains_iff_mem]
      intro a ha
      exact (mem_prodSet_iff start tbl hwf _).mpr (hprod a ha)
  · simp [hsk] at h

/-- **clean, failure case**: `clean` raises (KeyError on the start symbol) exactly when the
    start symbol derives nothing. -/
theorem clean_none (start : CNT) (tbl : Table) (hwf : TableWF tbl)
    (h : removeNonReachable start (removeNonProductive tbl) = none) :
    ∀ t, gen (⟨start, tbl⟩ : CFG) t start = false := by
  rw [removeNonReachable_eq] at h
  by_cases hsk : AList.contains start (removeNonProductive tbl) = true
  · simp [hsk] at h
  · intro t
    cases hg : gen (⟨start, tbl⟩ : CFG) t start with
    | false => rfl
    | true =>
      exfalso
      apply hsk
      apply mem_keys_iff_contains.mp
      rw [mem_keys_removeNonProductive start tbl hwf]
      exact (mem_prodSet_iff start tbl hwf start).mpr ⟨t, hg⟩

end PS.G
