/-
  Lemmas for C01: `clean` = `_remove_non_productive_` then `_remove_non_reachable_`
  (PS/Model/Cfg.lean: `removeNonProductive`, `removeNonReachable`) on ANY rule table that is a
  dict of dicts (distinct keys, distinct symbols per row):

  * `prodFix_spec`            the fuelled `while changed` loop reaches the least fixed point of
                              productivity within `|table| + 1` passes;
  * `reachFix_spec`           the fuelled breadth-first loop computes the reachability closure;
  * `clean_some`, `clean_none` clean keeps the language of the start symbol, every remaining
                              non-terminal is reachable and productive, every argument of a
                              remaining rule is a remaining non-terminal; clean fails (KeyError)
                              exactly when the language is empty.
-/
import PS.Proofs.Cfg
import Mathlib.Data.List.Perm.Subperm
import Mathlib.Data.List.Nodup
namespace PS.G
open PS

abbrev Row := AList Sym (List (Ty × CFGState) × Unit)

/-- the table is a dict of dicts: distinct non-terminals, distinct symbols in every row -/
structure TableWF (tbl : Table) : Prop where
  keys : (AList.keys tbl).Nodup
  rows : ∀ e ∈ tbl, (AList.keys e.2).Nodup

/-! ### generic facts on `gen` -/

theorem gen_iff (G : CFG) (f : Sym) (kids : List Prog) (nt : CNT) :
    gen G (.node f kids) nt = true ↔
      ∃ rs args, AList.lookup nt G.rules = some rs ∧ AList.lookup f rs = some (args, ()) ∧
        genList G kids args = true := by
  rw [gen]; unfold TT.rule?
  cases h1 : AList.lookup nt G.rules with
  | none => simp
  | some rs =>
    simp only
    cases h2 : AList.lookup f rs with
    | none => simp [h2]
    | some v => obtain ⟨args, u⟩ := v; simp [h2]

theorem genList_mem (G : CFG) :
    ∀ (ks : List Prog) (as : List (Ty × CFGState)), genList G ks as = true →
      ∀ a ∈ as, ∃ k ∈ ks, gen G k (toNT a) = true
  | [], [], _, a, ha => by cases ha
  | [], _ :: _, h, _, _ => by simp [genList] at h
  | _ :: _, [], h, _, _ => by simp [genList] at h
  | k :: ks, (t, s) :: as, h, a, ha => by
    rw [genList] at h
    simp only [Bool.and_eq_true] at h
    rcases List.mem_cons.mp ha with ha | ha
    · subst ha; exact ⟨k, by simp, h.1⟩
    · obtain ⟨k', hk', hg⟩ := genList_mem G ks as h.2 a ha
      exact ⟨k', List.mem_cons_of_mem _ hk', hg⟩

theorem genList_congr (G G' : CFG) :
    ∀ (ks : List Prog) (as : List (Ty × CFGState)),
      (∀ k ∈ ks, ∀ a ∈ as, gen G k (toNT a) = gen G' k (toNT a)) → genList G ks as = genList G' ks as
  | [], [], _ => by simp [genList]
  | [], _ :: _, _ => by simp [genList]
  | _ :: _, [], _ => by simp [genList]
  | k :: ks, (t, s) :: as, h => by
    rw [genList, genList]
    have h1 := h k (by simp) (t, s) (by simp)
    have h2 := genList_congr G G' ks as
      (fun k' hk' a ha => h k' (List.mem_cons_of_mem _ hk') a (List.mem_cons_of_mem _ ha))
    simp only [toNT] at h1
    rw [h1, h2]

theorem genList_exists (G : CFG) :
    ∀ (as : List (Ty × CFGState)), (∀ a ∈ as, ∃ t, gen G t (toNT a) = true) →
      ∃ ks, genList G ks as = true
  | [], _ => ⟨[], by simp [genList]⟩
  | (t, s) :: as, h => by
    obtain ⟨k, hk⟩ := h (t, s) (by simp)
    obtain ⟨ks, hks⟩ := genList_exists G as (fun a ha => h a (List.mem_cons_of_mem _ ha))
    refine ⟨k :: ks, ?_⟩
    rw [genList]
    simp only [toNT] at hk
    simp [hk, hks]

theorem mem_keys_of_mem {κ ν : Type} {e : κ × ν} {d : AList κ ν} (h : e ∈ d) : e.1 ∈ AList.keys d :=
  List.mem_map.mpr ⟨e, h, rfl⟩

theorem lookup_of_mem {tbl : Table} (hk : (AList.keys tbl).Nodup) {e : CNT × Row} (he : e ∈ tbl) :
    AList.lookup e.1 tbl = some e.2 :=
  AList.lookup_of_mem_nodup hk (by cases e; exact he)

theorem lookup_row_of_mem {rs : Row} (hk : (AList.keys rs).Nodup)
    {r : Sym × (List (Ty × CFGState) × Unit)} (hr : r ∈ rs) :
    AList.lookup r.1 rs = some (r.2.1, ()) :=
  AList.lookup_of_mem_nodup hk (by obtain ⟨a, b, u⟩ := r; exact hr)

theorem mem_keys_iff_contains {κ ν : Type} [DecidableEq κ] {k : κ} {d : AList κ ν} :
    k ∈ AList.keys d ↔ AList.contains k d = true := by
  unfold AList.contains
  exact AList.lookup_isSome_iff_mem_keys.symm

theorem length_le_of_nodup_subset {α : Type} {l m : List α} (hnd : l.Nodup) (hs : ∀ x ∈ l, x ∈ m) :
    l.length ≤ m.length :=
  (List.subperm_of_subset hnd hs).length_le

/-- two duplicate-free lists of the same length, one included in the other, have the same
    elements -/
theorem subset_of_nodup_length {α : Type} {l m : List α} (hnd : l.Nodup) (hs : ∀ x ∈ l, x ∈ m)
    (hlen : m.length ≤ l.length) : ∀ x ∈ m, x ∈ l := by
  intro x hx
  exact ((List.subperm_of_subset hnd hs).perm_of_length_le hlen).mem_iff.mpr hx

/-! ### `_remove_non_productive_` -/

/-- the test of one candidate in a pass of the `while changed` loop -/
def prodOK (known : List CNT) (e : CNT × Row) : Bool :=
  known.contains e.1 || e.2.any (fun r => r.2.1.all (fun a => known.contains (toNT a)))

theorem prodStep_eq (tbl : Table) (known : List CNT) :
    prodStep tbl known = (tbl.filter (prodOK known)).map (·.1) := by
  unfold prodStep
  induction tbl with
  | nil => rfl
  | cons e tbl ih =>
    rw [List.filterMap_cons, List.filter_cons, ih]
    unfold prodOK
    cases h1 : known.contains e.1 <;>
      cases h2 : (e.2.any (fun r => r.2.1.all (fun a => known.contains (toNT a)))) <;> simp

theorem mem_prodStep (tbl : Table) (known : List CNT) (nt : CNT) :
    nt ∈ prodStep tbl known ↔ ∃ e ∈ tbl, e.1 = nt ∧
      (nt ∈ known ∨ ∃ r ∈ e.2, ∀ a ∈ r.2.1, toNT a ∈ known) := by
  rw [prodStep_eq]
  simp only [List.mem_map, List.mem_filter, prodOK, Bool.or_eq_true, List.contains_iff_mem,
    List.any_eq_true, List.all_eq_true]
  constructor
  · rintro ⟨e, ⟨he, h⟩, rfl⟩
    exact ⟨e, he, rfl, h⟩
  · rintro ⟨e, he, rfl, h⟩
    exact ⟨e, ⟨he, h⟩, rfl⟩

theorem prodStep_sublist (tbl : Table) (known : List CNT) :
    List.Sublist (prodStep tbl known) (AList.keys tbl) := by
  rw [prodStep_eq]
  exact List.Sublist.map _ List.filter_sublist

/-- invariant of the `while changed` loop: the non-terminals found so far are distinct keys of
    the table and each derives some program -/
structure PInv (s : CNT) (tbl : Table) (known : List CNT) : Prop where
  nodup : known.Nodup
  keys : ∀ nt ∈ known, nt ∈ AList.keys tbl
  sound : ∀ nt ∈ known, ∃ t, gen (⟨s, tbl⟩ : CFG) t nt = true

theorem prodStep_inv (s : CNT) (tbl : Table) (hwf : TableWF tbl) (known : List CNT)
    (h : PInv s tbl known) : PInv s tbl (prodStep tbl known) := by
  refine ⟨(prodStep_sublist tbl known).nodup hwf.keys, ?_, ?_⟩
  · intro nt hnt
    exact (prodStep_sublist tbl known).subset hnt
  · intro nt hnt
    obtain ⟨e, he, rfl, hcase⟩ := (mem_prodStep tbl known nt).mp hnt
    rcases hcase with hk | ⟨r, hr, hall⟩
    · exact h.sound _ hk
    · obtain ⟨ks, hks⟩ := genList_exists ⟨s, tbl⟩ r.2.1 (fun a ha => h.sound _ (hall a ha))
      refine ⟨.node r.1 ks, ?_⟩
      rw [gen_iff]
      exact ⟨e.2, r.2.1, lookup_of_mem hwf.keys he, lookup_row_of_mem (hwf.rows e he) hr, hks⟩

theorem subset_prodStep (tbl : Table) (known : List CNT) (hk : ∀ nt ∈ known, nt ∈ AList.keys tbl) :
    ∀ nt ∈ known, nt ∈ prodStep tbl known := by
  intro nt hnt
  obtain ⟨e, he, rfl⟩ := List.mem_map.mp (hk nt hnt)
  exact (mem_prodStep tbl known _).mpr ⟨e, he, rfl, Or.inl hnt⟩

/-- closed under "has a rule whose arguments are all in the set" -/
def ProdClosed (tbl : Table) (K : List CNT) : Prop :=
  ∀ e ∈ tbl, (∃ r ∈ e.2, ∀ a ∈ r.2.1, toNT a ∈ K) → e.1 ∈ K

/-- **the `while changed` loop reaches a fixed point within `|table| + 1` passes** (the fuel
    of the model is never exhausted): the result is a set of productive keys closed under the
    productivity rule. -/
theorem prodFix_spec (s : CNT) (tbl : Table) (hwf : TableWF tbl) :
    ∀ (fuel : Nat) (known : List CNT), PInv s tbl known → tbl.length + 1 ≤ known.length + fuel →
      PInv s tbl (prodFix tbl fuel known) ∧ ProdClosed tbl (prodFix tbl fuel known) := by
  intro fuel
  induction fuel with
  | zero =>
    intro known h hlen
    exfalso
    have := length_le_of_nodup_subset h.nodup h.keys
    simp only [AList.keys, List.length_map] at this
    omega
  | succ fuel ih =>
    intro known h hlen
    rw [prodFix]
    have hinv' := prodStep_inv s tbl hwf known h
    have hsub := subset_prodStep tbl known h.keys
    by_cases heq : (prodStep tbl known).length = known.length
    · simp only [heq, if_true]
      refine ⟨h, ?_⟩
      intro e he hr
      have hin : e.1 ∈ prodStep tbl known := (mem_prodStep tbl known e.1).mpr ⟨e, he, rfl, Or.inr hr⟩
      exact subset_of_nodup_length h.nodup hsub (Nat.le_of_eq heq) _ hin
    · simp only [heq, if_false]
      apply ih _ hinv'
      have := length_le_of_nodup_subset h.nodup hsub
      omega

theorem pinv_nil (s : CNT) (tbl : Table) : PInv s tbl [] :=
  ⟨List.nodup_nil, fun _ h => (by cases h), fun _ h => (by cases h)⟩

/-- the productive set computed by `removeNonProductive` -/
def prodSet (tbl : Table) : List CNT := prodFix tbl (tbl.length + 1) []

theorem prodSet_spec (s : CNT) (tbl : Table) (hwf : TableWF tbl) :
    PInv s tbl (prodSet tbl) ∧ ProdClosed tbl (prodSet tbl) :=
  prodFix_spec s tbl hwf _ [] (pinv_nil s tbl) (by simp)

/-- completeness: whatever derives a program is in a closed set -/
theorem mem_of_gen (s : CNT) (tbl : Table) (K : List CNT) (hc : ProdClosed tbl K) :
    ∀ (n : Nat) (t : Prog), t.size ≤ n → ∀ nt, gen (⟨s, tbl⟩ : CFG) t nt = true → nt ∈ K := by
  intro n
  induction n with
  | zero =>
    intro t ht
    cases t with | node f kids => simp [Tree.size] at ht
  | succ n ih =>
    intro t ht nt hg
    cases t with
    | node f kids =>
      obtain ⟨rs, args, h1, h2, h3⟩ := (gen_iff _ f kids nt).mp hg
      have := hc (nt, rs) (AList.lookup_some_mem h1) ⟨(f, (args, ())), AList.lookup_some_mem h2, ?_⟩
      · exact this
      · intro a ha
        obtain ⟨k, hk, hgk⟩ := genList_mem _ kids args h3 a ha
        have := Tree.size_lt_of_mem_kids (l := f) hk
        exact ih k (by omega) _ hgk

/-- **the set computed by `_remove_non_productive_` is exactly the set of non-terminals that
    derive a program** -/
theorem mem_prodSet_iff (s : CNT) (tbl : Table) (hwf : TableWF tbl) (nt : CNT) :
    nt ∈ prodSet tbl ↔ ∃ t, gen (⟨s, tbl⟩ : CFG) t nt = true := by
  obtain ⟨hinv, hcl⟩ := prodSet_spec s tbl hwf
  constructor
  · exact hinv.sound nt
  · rintro ⟨t, ht⟩
    exact mem_of_gen s tbl _ hcl t.size t (Nat.le_refl _) nt ht

/-! ### lookups in filtered dicts -/

theorem filterMap_ite {α β : Type} (c : α → Bool) (g : α → β) (l : List α) :
    l.filterMap (fun e => if c e = true then some (g e) else none) = (l.filter c).map g := by
  induction l with
  | nil => rfl
  | cons a l ih =>
    rw [List.filterMap_cons, List.filter_cons, ih]
    cases h : c a <;> simp

theorem lookup_filter_map {κ ν ν' : Type} [DecidableEq κ] (c : κ → Bool) (g : ν → ν')
    (d : AList κ ν) (k : κ) :
    AList.lookup k ((d.filter (fun e => c e.1)).map (fun e => (e.1, g e.2))) =
      if c k = true then (AList.lookup k d).map g else none := by
  induction d with
  | nil => simp [AList.lookup]
  | cons p d ih =>
    obtain ⟨k', v⟩ := p
    rw [List.filter_cons]
    by_cases hk : k' = k
    · subst hk
      cases hc : c k' with
      | true => simp [AList.lookup]
      | false => simp only [hc, Bool.false_eq_true, if_false, ih]
    · cases hc : c k' with
      | true => simp only [if_true, List.map_cons, AList.lookup, hk, if_false, ih]
      | false => simp only [Bool.false_eq_true, if_false, ih, AList.lookup, hk]

theorem lookup_filter_key {κ ν : Type} [DecidableEq κ] (c : κ → Bool) (d : AList κ ν) (k : κ) :
    AList.lookup k (d.filter (fun e => c e.1)) = if c k = true then AList.lookup k d else none := by
  have := lookup_filter_map c (fun v : ν => v) d k
  simpa using this

theorem lookup_none_of_not_key {κ ν : Type} [DecidableEq κ] {d : AList κ ν} {k : κ}
    (h : k ∉ AList.keys d) : AList.lookup k d = none := by
  cases hl : AList.lookup k d with
  | none => rfl
  | some v => exact absurd (mem_keys_of_mem (AList.lookup_some_mem hl)) h

theorem lookup_filter_row {κ ν : Type} [DecidableEq κ] (q : κ × ν → Bool) (d : AList κ ν)
    (hnd : (AList.keys d).Nodup) (k : κ) :
    AList.lookup k (d.filter q) = (AList.lookup k d).filter (fun v => q (k, v)) := by
  induction d with
  | nil => simp [AList.lookup]
  | cons p d ih =>
    obtain ⟨k', v⟩ := p
    simp only [AList.keys, List.map_cons, List.nodup_cons] at hnd
    rw [List.filter_cons]
    by_cases hk : k' = k
    · subst hk
      cases hq : q (k', v) with
      | true => simp [AList.lookup, Option.filter, hq]
      | false =>
        have hnk : k' ∉ AList.keys (d.filter q) := by
          intro hm
          obtain ⟨e, he, hek⟩ := List.mem_map.mp hm
          exact hnd.1 (List.mem_map.mpr ⟨e, (List.mem_filter.mp he).1, hek⟩)
        simp [AList.lookup, Option.filter, hq, lookup_none_of_not_key hnk]
    · cases hq : q (k', v) with
      | true => simp only [if_true, AList.lookup, hk, if_false]; exact ih hnd.2
      | false => simp only [Bool.false_eq_true, if_false, AList.lookup, hk]; exact ih hnd.2

/-! ### the table after `_remove_non_productive_` -/

/-- the rules kept in a row: all arguments productive -/
def rowFilter (K : List CNT) (rs : Row) : Row :=
  rs.filter (fun r => r.2.1.all (fun a => K.contains (toNT a)))

theorem removeNonProductive_eq (tbl : Table) :
    removeNonProductive tbl =
      (tbl.filter (fun e => (prodSet tbl).contains e.1)).map (fun e => (e.1, rowFilter (prodSet tbl) e.2)) := by
  unfold removeNonProductive
  exact filterMap_ite (fun e => (prodSet tbl).contains e.1) (fun e => (e.1, rowFilter (prodSet tbl) e.2)) tbl

theorem lookup_removeNonProductive (tbl : Table) (nt : CNT) :
    AList.lookup nt (removeNonProductive tbl) =
      if nt ∈ prodSet tbl then (AList.lookup nt tbl).map (rowFilter (prodSet tbl)) else none := by
  rw [removeNonProductive_eq]
  have := lookup_filter_map (fun k => (prodSet tbl).contains k) (rowFilter (prodSet tbl)) tbl nt
  simpa using this

theorem keys_filter_sublist {κ ν : Type} (q : κ × ν → Bool) (d : AList κ ν) :
    List.Sublist (AList.keys (d.filter q)) (AList.keys d) :=
  List.Sublist.map _ List.filter_sublist

theorem removeNonProductive_wf (tbl : Table) (hwf : TableWF tbl) : TableWF (removeNonProductive tbl) := by
  rw [removeNonProductive_eq]
  constructor
  · have : AList.keys ((tbl.filter (fun e => (prodSet tbl).contains e.1)).map
        (fun e => (e.1, rowFilter (prodSet tbl) e.2))) =
        AList.keys (tbl.filter (fun e => (prodSet tbl).contains e.1)) := by
      simp [AList.keys, List.map_map, Function.comp_def]
    rw [this]
    exact (keys_filter_sublist _ tbl).nodup hwf.keys
  · intro e he
    obtain ⟨e0, he0, rfl⟩ := List.mem_map.mp he
    exact (keys_filter_sublist _ e0.2).nodup (hwf.rows e0 (List.mem_filter.mp he0).1)

/-- **`_remove_non_productive_` changes the language of no non-terminal** -/
theorem gen_removeNonProductive (s : CNT) (tbl : Table) (hwf : TableWF tbl) :
    ∀ (n : Nat) (t : Prog), t.size ≤ n → ∀ nt,
      gen (⟨s, removeNonProductive tbl⟩ : CFG) t nt = gen (⟨s, tbl⟩ : CFG) t nt := by
  obtain ⟨_, hcl⟩ := prodSet_spec s tbl hwf
  intro n
  induction n with
  | zero =>
    intro t ht
    cases t with | node f kids => simp [Tree.size] at ht
  | succ n ih =>
    intro t ht nt
    cases t with
    | node f kids =>
      have hkids : ∀ (args : List (Ty × CFGState)),
          genList (⟨s, removeNonProductive tbl⟩ : CFG) kids args = genList (⟨s, tbl⟩ : CFG) kids args := by
        intro args
        apply genList_congr
        intro k hk a _
        have := Tree.size_lt_of_mem_kids (l := f) hk
        exact ih k (by omega) _
      rw [Bool.eq_iff_iff, gen_iff, gen_iff]
      simp only [lookup_removeNonProductive]
      constructor
      · rintro ⟨rs1, args, h1, h2, h3⟩
        by_cases hK : nt ∈ prodSet tbl
        · simp only [hK, if_true, Option.map_eq_some_iff] at h1
          obtain ⟨rs, hrs, rfl⟩ := h1
          have hnd := hwf.rows (nt, rs) (AList.lookup_some_mem hrs)
          unfold rowFilter at h2
          rw [lookup_filter_row _ rs hnd f, Option.filter_eq_some_iff] at h2
          exact ⟨rs, args, hrs, h2.1, (hkids args) ▸ h3⟩
        · simp [hK] at h1
      · rintro ⟨rs, args, h1, h2, h3⟩
        have hg : gen (⟨s, tbl⟩ : CFG) (.node f kids) nt = true := (gen_iff _ f kids nt).mpr ⟨rs, args, h1, h2, h3⟩
        have hK : nt ∈ prodSet tbl := mem_of_gen s tbl _ hcl _ _ (Nat.le_refl _) nt hg
        have hnd := hwf.rows (nt, rs) (AList.lookup_some_mem h1)
        refine ⟨rowFilter (prodSet tbl) rs, args, by simp [hK, h1], ?_, (hkids args).symm ▸ h3⟩
        unfold rowFilter
        rw [lookup_filter_row _ rs hnd f, Option.filter_eq_some_iff]
        refine ⟨h2, ?_⟩
        simp only [List.all_eq_true, List.contains_iff_mem]
        intro a ha
        obtain ⟨k, _, hgk⟩ := genList_mem _ kids args h3 a ha
        exact mem_of_gen s tbl _ hcl _ _ (Nat.le_refl _) _ hgk

/-- every argument of every rule is a key -/
def ArgsClosed (tbl : Table) : Prop :=
  ∀ e ∈ tbl, ∀ r ∈ e.2, ∀ a ∈ r.2.1, toNT a ∈ AList.keys tbl

theorem mem_removeNonProductive (tbl : Table) (e : CNT × Row) :
    e ∈ removeNonProductive tbl ↔
      ∃ e0 ∈ tbl, e0.1 ∈ prodSet tbl ∧ e = (e0.1, rowFilter (prodSet tbl) e0.2) := by
  rw [removeNonProductive_eq]
  simp only [List.mem_map, List.mem_filter, List.contains_iff_mem]
  constructor
  · rintro ⟨e0, ⟨h1, h2⟩, rfl⟩; exact ⟨e0, h1, h2, rfl⟩
  · rintro ⟨e0, h1, h2, rfl⟩; exact ⟨e0, ⟨h1, h2⟩, rfl⟩

theorem mem_keys_removeNonProductive (s : CNT) (tbl : Table) (hwf : TableWF tbl) (nt : CNT) :
    nt ∈ AList.keys (removeNonProductive tbl) ↔ nt ∈ prodSet tbl := by
  obtain ⟨hinv, _⟩ := prodSet_spec s tbl hwf
  constructor
  · intro h
    obtain ⟨e, he, rfl⟩ := List.mem_map.mp h
    obtain ⟨e0, _, h2, rfl⟩ := (mem_removeNonProductive tbl e).mp he
    exact h2
  · intro h
    obtain ⟨e0, he0, rfl⟩ := List.mem_map.mp (hinv.keys nt h)
    exact mem_keys_of_mem (e := (e0.1, rowFilter (prodSet tbl) e0.2))
      ((mem_removeNonProductive tbl _).mpr ⟨e0, he0, h, rfl⟩)

theorem removeNonProductive_closed (s : CNT) (tbl : Table) (hwf : TableWF tbl) :
    ArgsClosed (removeNonProductive tbl) := by
  intro e he r hr a ha
  obtain ⟨e0, _, _, rfl⟩ := (mem_removeNonProductive tbl e).mp he
  rw [mem_keys_removeNonProductive s tbl hwf]
  have := (List.mem_filter.mp hr).2
  simp only [List.all_eq_true, List.contains_iff_mem] at this
  exact this a ha

end PS.G
