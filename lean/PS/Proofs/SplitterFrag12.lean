/- C08, fragment grammar, part 12: the fragment is normalised (every row of its weight table and
   its start weights sum to 1). -/
import PS.Proofs.SplitterFrag9
import PS.Proofs.SplitterFrag10
namespace PS.Sp
open PS PS.G

variable {U : Type} [DecidableEq U]

/-- a row with positive weights and at least one weight -/
def GoodRow {κ : Type} (row : AList Sym (AList (List κ) Rat)) : Prop :=
  (∀ r ∈ row, ∀ vp ∈ r.2, 0 < vp.2) ∧ ∃ r ∈ row, r.2 ≠ []

/-- every row of the weight table of the original grammar has positive weights and is not empty -/
def posRows (pg : PUG U) : Bool :=
  pg.tags.all (fun e => e.2.all (fun r => r.2.all (fun vp => decide (0 < vp.2))) && e.2.any (fun r => !r.2.isEmpty))

/-- every start symbol and every non-terminal of a right-hand side has a row of weights -/
def closedG (pg : PUG U) : Bool := (pg.g.starts ++ allRhs pg).all (fun S => AList.contains S pg.tags)

/-! ### sums -/

theorem sum_pos_nonneg : ∀ (l : List Rat), (∀ x ∈ l, 0 ≤ x) → ∀ x0 ∈ l, 0 < x0 → 0 < l.sum
  | [], _, _, h, _ => by cases h
  | a :: l, h0, x0, hx0, hpos => by
    simp only [List.sum_cons]
    have hl : 0 ≤ l.sum := by
      clear hx0
      induction l with
      | nil => simp
      | cons b l ih =>
        simp only [List.sum_cons]
        have := h0 b (by simp)
        have := ih (fun x hx => h0 x (by
          rcases List.mem_cons.mp hx with h | h
          · simp [h]
          · simp [h]))
        grind
    have ha := h0 a (by simp)
    rcases List.mem_cons.mp hx0 with h | h
    · subst h; grind
    · have := sum_pos_nonneg l (fun x hx => h0 x (List.mem_cons_of_mem _ hx)) x0 h hpos
      grind

theorem sum_nonneg_of_pos {α : Type} (f : α → Rat) : ∀ (l : List α), (∀ x ∈ l, 0 < f x) → 0 ≤ (l.map f).sum
  | [], _ => by simp
  | a :: l, h => by
    simp only [List.map_cons, List.sum_cons]
    have := h a (by simp)
    have := sum_nonneg_of_pos f l (fun x hx => h x (List.mem_cons_of_mem _ hx))
    grind

theorem goodRow_pos {κ : Type} {row : AList Sym (AList (List κ) Rat)} (h : GoodRow row) : 0 < rowSum row := by
  obtain ⟨h1, r0, hr0, hne⟩ := h
  unfold rowSum
  apply sum_pos_nonneg _ _ ((r0.2.map (·.2)).sum) (List.mem_map.mpr ⟨r0, hr0, rfl⟩)
  · cases hr : r0.2 with
    | nil => exact absurd hr hne
    | cons vp t =>
      apply sum_pos_of_mem (fun vp : List κ × Rat => vp.2) _ _ vp (by simp)
      intro x hx
      exact h1 r0 hr0 x (by rw [hr]; exact hx)
  · intro x hx
    obtain ⟨r, hr, rfl⟩ := List.mem_map.mp hx
    exact sum_nonneg_of_pos (fun vp : List κ × Rat => vp.2) r.2 (h1 r hr)

theorem sum_map_div (s : Rat) : ∀ (l : List Rat), (l.map (· / s)).sum = l.sum / s
  | [] => by simp only [List.map_nil, List.sum_nil]; grind
  | a :: l => by
    simp only [List.map_cons, List.sum_cons, sum_map_div s l]
    grind

theorem rowSum_div {κ : Type} (row : AList Sym (AList (List κ) Rat)) (s : Rat) :
    rowSum (row.map (fun r => (r.1, r.2.map (fun vp => (vp.1, vp.2 / s))))) = rowSum row / s := by
  unfold rowSum
  rw [← sum_map_div, List.map_map, List.map_map]
  congr 1
  apply List.map_congr_left
  intro r _
  simp only [Function.comp]
  rw [← sum_map_div, List.map_map, List.map_map]
  rfl

theorem rowSum_normRow {κ : Type} (row : AList Sym (AList (List κ) Rat)) :
    rowSum (normRow row) = rowSum row / rowSum row := rowSum_div row (rowSum row)

/-! ### membership in association lists -/

theorem mem_insert {κ ν : Type} [DecidableEq κ] {k : κ} {v : ν} {e : κ × ν} : ∀ {d : AList κ ν},
    e ∈ AList.insert k v d → e = (k, v) ∨ e ∈ d
  | [], h => by simp only [AList.insert, List.mem_singleton] at h; exact Or.inl h
  | (k', v') :: r, h => by
    by_cases hk : k' = k
    · simp only [AList.insert, hk, if_true, List.mem_cons] at h
      rcases h with h | h
      · exact Or.inl h
      · exact Or.inr (List.mem_cons_of_mem _ h)
    · simp only [AList.insert, hk, if_false, List.mem_cons] at h
      rcases h with h | h
      · exact Or.inr (by simp [h])
      · rcases mem_insert h with h | h
        · exact Or.inl h
        · exact Or.inr (List.mem_cons_of_mem _ h)

theorem mem_insert_self {κ ν : Type} [DecidableEq κ] (k : κ) (v : ν) : ∀ (d : AList κ ν), (k, v) ∈ AList.insert k v d
  | [] => by simp [AList.insert]
  | (k', v') :: r => by
    by_cases hk : k' = k
    · simp [AList.insert, hk]
    · simp only [AList.insert, hk, if_false, List.mem_cons]
      exact Or.inr (mem_insert_self k v r)

/-! ### rows stay good -/

theorem goodRow_stepP {κ : Type} [DecidableEq κ] {old : AList Sym (AList (List κ) Rat)} (P : Sym) (m : List κ) {w : Rat}
    (h : ∀ r ∈ old, ∀ vp ∈ r.2, 0 < vp.2) (hw : 0 < w) : GoodRow (stepP old P m w) := by
  unfold stepP
  constructor
  · intro r hr vp hvp
    rcases mem_insert hr with hr | hr
    · subst hr
      rcases mem_insert hvp with hvp | hvp
      · subst hvp; exact hw
      · cases hl : AList.lookup P old with
        | none => rw [hl] at hvp; cases hvp
        | some dv =>
          rw [hl] at hvp
          exact h (P, dv) (AList.lookup_some_mem hl) vp hvp
    · exact h r hr vp hvp
  · refine ⟨_, mem_insert_self P _ old, ?_⟩
    intro hnil
    have := mem_insert_self m w ((AList.lookup P old).getD [])
    simp only at hnil
    rw [hnil] at this
    cases this

theorem goodRow_copyP {pg : PUG U} (hp : posRows pg = true) {S : UNT U} (hc : AList.contains S pg.tags = true) :
    GoodRow (copyP pg S) := by
  obtain ⟨row, hl⟩ := AList.contains_iff_lookup.mp hc
  have hm := AList.lookup_some_mem hl
  simp only [posRows, List.all_eq_true, Bool.and_eq_true, List.any_eq_true, decide_eq_true_eq,
    Bool.not_eq_true', List.isEmpty_eq_false_iff] at hp
  obtain ⟨h1, r0, hr0, hne⟩ := hp (S, row) hm
  simp only [copyP, hl, Option.getD_some]
  constructor
  · intro r hr vp hvp
    obtain ⟨r', hr', rfl⟩ := List.mem_map.mp hr
    obtain ⟨vp', hvp', rfl⟩ := List.mem_map.mp hvp
    exact h1 r' hr' vp' hvp'
  · refine ⟨_, List.mem_map.mpr ⟨r0, hr0, rfl⟩, ?_⟩
    simpa using hne

/-- every row of the weight table under construction is good -/
def RowsGood (st : FragSt U) : Prop := ∀ e ∈ st.probs, GoodRow e.2

theorem rowsGood_addRule {st : FragSt U} (h : RowsGood st) (X : UNT (U × Nat)) (P : Sym) (m : List (UNT (U × Nat)))
    {w : Rat} (hw : 0 < w) : RowsGood (addRule st X P m w) := by
  intro e he
  rw [addRule_eq] at he
  rcases mem_insert he with he | he
  · subst he
    apply goodRow_stepP _ _ _ hw
    cases hl : AList.lookup X st.probs with
    | none => intro r hr; cases hr
    | some row => exact (h (X, row) (AList.lookup_some_mem hl)).1
  · exact h e he

theorem rowsGood_addSteps {nprob : Rat} (hn : 0 < nprob) : ∀ (l : List (Step (U × Nat))) (i : Nat) (st : FragSt U),
    RowsGood st → RowsGood (addSteps nprob i st l)
  | [], _, _, h => h
  | s :: t, i, st, h => by
    simp only [addSteps]
    apply rowsGood_addSteps hn t
    apply rowsGood_addRule h
    split
    · exact hn
    · decide

theorem rowsGood_copyRules {pg : PUG U} (hp : posRows pg = true) {st : FragSt U} (h : RowsGood st) {S : UNT U}
    (hc : AList.contains S pg.tags = true) (X : UNT (U × Nat)) : RowsGood (copyRules pg st S X) := by
  intro e he
  rw [copyRules_eq] at he
  rcases mem_insert he with he | he
  · subst he; exact goodRow_copyP hp hc
  · exact h e he

/-- the state only refers to non-terminals that have a row of weights -/
def FillOK (pg : PUG U) (st : FragSt U) : Prop := RowsGood st ∧ ∀ S ∈ st.toFill, AList.contains S pg.tags = true

theorem closedG_rhs {pg : PUG U} (hc : closedG pg = true) (S : UNT U) :
    ∀ S' ∈ rhsSyms pg S, AList.contains S' pg.tags = true := by
  intro S' hS'
  simp only [closedG, List.all_eq_true] at hc
  exact hc S' (List.mem_append.mpr (Or.inr ((rhsSyms_sub pg S).1 S' hS')))

theorem fillOK_copyRules {pg : PUG U} (hp : posRows pg = true) (hcl : closedG pg = true) {st : FragSt U}
    (h : FillOK pg st) {S : UNT U} (hc : AList.contains S pg.tags = true) (X : UNT (U × Nat)) :
    FillOK pg (copyRules pg st S X) := by
  refine ⟨rowsGood_copyRules hp h.1 hc X, ?_⟩
  intro S' hS'
  rw [copyRules_eq] at hS'
  rcases List.mem_append.mp hS' with hS' | hS'
  · exact h.2 S' hS'
  · exact closedG_rhs hcl S S' hS'

theorem fillOK_copyAll {pg : PUG U} (hp : posRows pg = true) (hcl : closedG pg = true) :
    ∀ (p : List (UNT U × UNT (U × Nat))) (st : FragSt U), FillOK pg st →
      (∀ e ∈ p, AList.contains e.1 pg.tags = true) → FillOK pg (copyAll pg st p)
  | [], _, h, _ => h
  | e :: p, st, h, hc => by
    simp only [copyAll, List.foldl_cons]
    exact fillOK_copyAll hp hcl p _ (fillOK_copyRules hp hcl h (hc e (by simp)) e.2)
      (fun e' he' => hc e' (List.mem_cons_of_mem _ he'))

theorem run_members {pg : PUG U} : ∀ (w : List (Step U)) (c c' : List (UNT U)), run pg.g c w = some c' →
    ∀ S ∈ c', S ∈ c ∨ S ∈ allRhs pg
  | [], c, c', h, S, hS => by
    simp only [run, Option.some.injEq] at h
    subst h; exact Or.inl hS
  | st :: w, [], c', h, _, _ => by simp [run] at h
  | st :: w, S0 :: rest, c', h, S, hS => by
    simp only [run] at h
    split at h
    · rename_i hc
      rcases run_members w _ c' h S hS with h1 | h1
      · rcases List.mem_append.mp h1 with h1 | h1
        · right
          have : (st.2.1, st.2.2) ∈ alts pg.g S0 := hc.2
          exact (rhsSyms_sub pg S0).1 S (mem_rhsSyms this S h1)
        · exact Or.inl (List.mem_cons_of_mem _ h1)
      · exact Or.inr h1
    · cases h

theorem fillOK_addNode {pg : PUG U} (hp : posRows pg = true) (hcl : closedG pg = true) {st st' : FragSt U}
    {n : Node U} (h : FillOK pg st) (hv : Valid pg.g n) (hpos : 0 < n.prob) (ha : addNode pg st n = some st') :
    FillOK pg st' := by
  rw [addNode_eq] at ha
  cases hr : renPath (st2Of st n).counter [(n.start, spOf st n)] n.steps with
  | none => rw [hr] at ha; cases ha
  | some r =>
    rw [hr] at ha
    simp only [Option.map_some, Option.some.injEq] at ha
    subst ha
    have hsrc := renPath_srcs pg.g n.steps _ [(n.start, spOf st n)] r n.config hr (by simpa [srcs] using hv.2.2.2.1)
    apply fillOK_copyAll hp hcl
    · have h2 : FillOK pg (st2Of st n) := by
        unfold st2Of
        cases AList.lookup n.start st.newStarts <;> exact h
      obtain ⟨f1, f2, f3, f4, f5⟩ := addSteps_frame n.prob r.2.1 0 (st2Of st n)
      refine ⟨rowsGood_addSteps hpos r.2.1 0 _ h2.1, ?_⟩
      intro S hS
      simp only at hS
      rw [f5] at hS
      exact h2.2 S hS
    · intro e he
      have : e.1 ∈ n.config := by rw [← hsrc]; exact List.mem_map.mpr ⟨e, he, rfl⟩
      simp only [closedG, List.all_eq_true] at hcl
      rcases run_members n.steps [n.start] n.config hv.2.2.2.1 e.1 this with h1 | h1
      · simp only [List.mem_singleton] at h1
        rw [h1]
        exact hcl _ (List.mem_append.mpr (Or.inl hv.1))
      · exact hcl _ (List.mem_append.mpr (Or.inr h1))

theorem fillOK_go {pg : PUG U} (hp : posRows pg = true) (hcl : closedG pg = true) :
    ∀ (group : List (Node U)) (st st' : FragSt U), FillOK pg st → (∀ n ∈ group, Valid pg.g n ∧ 0 < n.prob) →
      pcfgFrom.go pg st group = some st' → FillOK pg st'
  | [], st, st', h, _, hg => by
    simp only [pcfgFrom.go, Option.some.injEq] at hg
    subst hg; exact h
  | n :: rest, st, st', h, hv, hg => by
    simp only [pcfgFrom.go] at hg
    cases ha : addNode pg st n with
    | none => rw [ha] at hg; cases hg
    | some st1 =>
      rw [ha] at hg
      exact fillOK_go hp hcl rest st1 st' (fillOK_addNode hp hcl h (hv n (by simp)).1 (hv n (by simp)).2 ha)
        (fun m hm => hv m (List.mem_cons_of_mem _ hm)) hg

theorem fillOK_fillLoop {pg : PUG U} (hp : posRows pg = true) (hcl : closedG pg = true) :
    ∀ (fuel : Nat) (st : FragSt U), FillOK pg st → FillOK pg (fillLoop pg fuel st)
  | 0, _, h => h
  | f + 1, st, h => by
    unfold fillLoop
    cases hrev : st.toFill.reverse with
    | nil => exact h
    | cons S restRev =>
      have htf : st.toFill = restRev.reverse ++ [S] := by
        have := congrArg List.reverse hrev
        simpa using this
      have h1 : FillOK pg { st with toFill := restRev.reverse } :=
        ⟨h.1, fun S' hS' => h.2 S' (by rw [htf]; exact List.mem_append.mpr (Or.inl hS'))⟩
      simp only
      split
      · exact fillOK_fillLoop hp hcl f _ h1
      · exact fillOK_fillLoop hp hcl f _ (fillOK_copyRules hp hcl h1 (h.2 S (by rw [htf]; simp)) (free S))

/-- **the fragment is normalised**: every row of its weight table sums to 1 -/
theorem frag_tagsNorm {pg : PUG U} (hp : posRows pg = true) (hcl : closedG pg = true) {group : List (Node U)}
    (hv : ∀ n ∈ group, Valid pg.g n ∧ 0 < n.prob) {fuel : Nat} {st : FragSt U}
    (h : fragState pg group fuel = some st) : tagsNorm (fragOf pg st) = true := by
  unfold fragState at h
  cases hg : pcfgFrom.go pg ⟨0, [], [], [], [], []⟩ group with
  | none => rw [hg] at h; cases h
  | some stG =>
    rw [hg] at h
    simp only [Option.map_some, Option.some.injEq] at h
    have h0 : FillOK pg (⟨0, [], [], [], [], []⟩ : FragSt U) :=
      ⟨fun e he => (nomatch he), fun S hS => (nomatch hS)⟩
    have hgood := (fillOK_fillLoop hp hcl fuel stG (fillOK_go hp hcl group _ stG h0 hv hg)).1
    rw [h] at hgood
    simp only [tagsNorm, List.all_eq_true, beq_iff_eq]
    intro e he
    have : (fragOf pg st).tags = st.probs.map (fun e => (e.1, normRow e.2)) := rfl
    rw [this] at he
    obtain ⟨e0, he0, rfl⟩ := List.mem_map.mp he
    simp only
    rw [rowSum_normRow]
    have := goodRow_pos (hgood e0 he0)
    grind

omit [DecidableEq U] in
/-- the start weights of the fragment sum to 1 -/
theorem frag_starts_sum (pg : PUG U) (st : FragSt U) (h : (st.startProbs.map (·.2)).sum ≠ 0) :
    ((fragOf pg st).startTags.map (·.2)).sum = 1 := by
  have : (fragOf pg st).startTags = st.startProbs.map (fun e => (e.1, e.2 / (st.startProbs.map (·.2)).sum)) := rfl
  rw [this, List.map_map]
  have e : ((fun e : UNT (U × Nat) × Rat => e.2) ∘ fun e => (e.1, e.2 / (st.startProbs.map (·.2)).sum)) =
      (fun x : Rat => x / (st.startProbs.map (·.2)).sum) ∘ (fun e : UNT (U × Nat) × Rat => e.2) := rfl
  rw [e, ← List.map_map, sum_map_div]
  grind

end PS.Sp
