/-
  C15 — helper lemmas, character level, types: the tokenizer of `auto_type`
  (`strip`, `__matching__`, `__next_token__`, the `while` loop) cuts the text
  `render sp e` of an expression of the notation — whatever the spacing `sp` — into exactly
  the token tree `e.toks`, and the character-level machine `autoType` run on a text that the
  tokenizer cuts into `ts` is the token-level machine `autoTypeToks sx ts`.
-/
import PS.Proofs.ParseType
namespace PS.C15
open PS TyExpr

variable {sx : Bool}

/-! ## `strip` -/

theorem isSpace_blank : isSpace ' ' = true := by decide

theorem lstrip_blanks_nil (n : Nat) : lstrip (blanks n) = [] := by
  induction n with
  | zero => rfl
  | succ n ih => simp [lstrip, blanks, List.replicate_succ, isSpace_blank]

theorem lstrip_blanks_cons (n : Nat) (c : Char) (r : Str) (hc : isSpace c = false) :
    lstrip (blanks n ++ c :: r) = c :: r := by
  induction n with
  | zero => simp [lstrip, blanks, hc]
  | succ n ih => simpa [lstrip, blanks, List.replicate_succ, isSpace_blank] using ih

/-- recursive characterisation of `rstrip` -/
theorem rstrip_cons (c : Char) (x : Str) :
    rstrip (c :: x) = if isSpace c = true ∧ rstrip x = [] then [] else c :: rstrip x := by
  unfold rstrip
  rw [List.reverse_cons, List.dropWhile_append]
  by_cases h : (List.dropWhile isSpace x.reverse).isEmpty = true
  · have h' : List.dropWhile isSpace x.reverse = [] := List.isEmpty_iff.mp h
    simp only [h', List.reverse_nil]
    by_cases hc : isSpace c = true
    · simp [hc]
    · simp [hc]
  · have h' : List.dropWhile isSpace x.reverse ≠ [] := fun e => h (List.isEmpty_iff.mpr e)
    simp [h, h']

theorem rstrip_nil : rstrip [] = [] := rfl

theorem rstrip_blanks (n : Nat) : rstrip (blanks n) = [] := by
  induction n with
  | zero => rfl
  | succ n ih =>
    show rstrip (' ' :: blanks n) = []
    rw [rstrip_cons, ih]; simp [isSpace_blank]

theorem rstrip_idem (x : Str) : rstrip (rstrip x) = rstrip x := by
  induction x with
  | nil => rfl
  | cons c x ih =>
    rw [rstrip_cons]
    by_cases h : isSpace c = true ∧ rstrip x = []
    · simp [h, rstrip_nil]
    · simp only [h, if_false]
      rw [rstrip_cons, ih]
      simp [h]

theorem lstrip_rstrip_comm (x : Str) : lstrip (rstrip x) = rstrip (lstrip x) := by
  induction x with
  | nil => rfl
  | cons c x ih =>
    by_cases hc : isSpace c = true
    · have e1 : lstrip (c :: x) = lstrip x := by simp [lstrip, hc]
      rw [e1, ← ih, rstrip_cons]
      by_cases hx : rstrip x = []
      · simp [hc, hx, lstrip]
      · simp [hc, hx, lstrip]
    · have e1 : lstrip (c :: x) = c :: x := by simp [lstrip, hc]
      rw [e1, rstrip_cons]
      simp [hc, lstrip]

theorem strip_rstrip (x : Str) : strip (rstrip x) = strip x := by
  unfold strip
  rw [lstrip_rstrip_comm, rstrip_idem]

theorem length_rstrip_le (x : Str) : (rstrip x).length ≤ x.length := by
  induction x with
  | nil => simp [rstrip_nil]
  | cons c x ih =>
    rw [rstrip_cons]
    split <;> simp <;> omega

theorem length_lstrip_le (x : Str) : (lstrip x).length ≤ x.length :=
  (List.dropWhile_sublist _).length_le

theorem length_strip_le (x : Str) : (strip x).length ≤ x.length :=
  Nat.le_trans (length_rstrip_le _) (length_lstrip_le _)

/-- the text starts / ends with a character that `strip` keeps -/
def StartsNS (x : Str) : Prop := ∃ c r, x = c :: r ∧ isSpace c = false
def EndsNS (x : Str) : Prop := ∃ r c, x = r ++ [c] ∧ isSpace c = false

theorem rstrip_append_endsNS (x y : Str) (hx : EndsNS x) : rstrip (x ++ y) = x ++ rstrip y := by
  obtain ⟨r, c, rfl, hc⟩ := hx
  induction r with
  | nil =>
    show rstrip (c :: y) = c :: rstrip y
    rw [rstrip_cons]; simp [hc]
  | cons d r ih =>
    show rstrip (d :: ((r ++ [c]) ++ y)) = d :: ((r ++ [c]) ++ rstrip y)
    rw [rstrip_cons, ih]
    simp

theorem rstrip_blanks_append (n : Nat) (x : Str) (hx : rstrip x ≠ []) :
    rstrip (blanks n ++ x) = blanks n ++ rstrip x := by
  induction n with
  | zero => rfl
  | succ n ih =>
    show rstrip (' ' :: (blanks n ++ x)) = ' ' :: (blanks n ++ rstrip x)
    rw [rstrip_cons, ih]
    have : blanks n ++ rstrip x ≠ [] := by simp [hx]
    simp [this]

/-- `strip` of the remaining text: leading blanks go, the first token stays, the rest keeps its
    own blanks except the trailing ones -/
theorem strip_blanks_tok (n : Nat) (s R : Str) (h1 : StartsNS s) (h2 : EndsNS s) :
    strip (blanks n ++ s ++ R) = s ++ rstrip R := by
  obtain ⟨c, r, rfl, hc⟩ := h1
  unfold strip
  have : blanks n ++ c :: r ++ R = blanks n ++ c :: (r ++ R) := by simp
  rw [this, lstrip_blanks_cons n c _ hc]
  exact rstrip_append_endsNS (c :: r) R h2

theorem strip_blanks (n : Nat) : strip (blanks n) = [] := by
  unfold strip; rw [lstrip_blanks_nil]; rfl

theorem rstrip_head {x : Str} {c : Char} {r : Str} (h : rstrip x = c :: r) : ∃ r', x = c :: r' := by
  cases x with
  | nil => simp [rstrip_nil] at h
  | cons d x =>
    rw [rstrip_cons] at h
    split at h
    · cases h
    · cases h; exact ⟨x, rfl⟩

/-! ## `__matching__` -/

/-- reading `s` at a positive nesting level leaves the level unchanged and never closes the
    bracket `start` that the scan started from -/
def Trans (start : Char) (s : Str) : Prop :=
  ∀ (L : Int) (j : Nat) (rest : Str), 0 < L →
    matchingLoop start (s ++ rest) L j = matchingLoop start rest L (j + s.length)

def Neutral (s : Str) : Prop := Trans '(' s ∧ Trans '[' s

def isBracketChar (c : Char) : Bool := c == '(' || c == ')' || c == '[' || c == ']'

theorem trans_nil (start : Char) : Trans start [] := by
  intro L j rest _; simp

theorem trans_append {start : Char} {a b : Str} (ha : Trans start a) (hb : Trans start b) :
    Trans start (a ++ b) := by
  intro L j rest hL
  rw [List.append_assoc, ha L j _ hL, hb L _ rest hL, List.length_append, Nat.add_assoc]

theorem trans_char {start : Char} (c : Char) (h1 : c ≠ start) (h2 : ¬(start = '(' ∧ c = ')'))
    (h3 : ¬(start = '[' ∧ c = ']')) : Trans start [c] := by
  intro L j rest hL
  have hL0 : L ≠ 0 := by omega
  simp [matchingLoop, h1, h2, h3, hL0]

theorem trans_plain {start : Char} (c : Char) (hs : start = '(' ∨ start = '[')
    (hc : isBracketChar c = false) : Trans start [c] := by
  simp only [isBracketChar, Bool.or_eq_false_iff, beq_eq_false_iff_ne, ne_eq] at hc
  obtain ⟨⟨⟨h1, h2⟩, h3⟩, h4⟩ := hc
  have hne : c ≠ start := by rcases hs with h | h <;> simp [h, h1, h3]
  exact trans_char c hne (by simp [h2]) (by simp [h4])

theorem trans_plain_list {start : Char} (s : Str) (hs : start = '(' ∨ start = '[')
    (h : ∀ c ∈ s, isBracketChar c = false) : Trans start s := by
  induction s with
  | nil => exact trans_nil _
  | cons c s ih =>
    exact trans_append (a := [c]) (trans_plain c hs (h c (by simp)))
      (ih (fun d hd => h d (by simp [hd])))

theorem neutral_nil : Neutral [] := ⟨trans_nil _, trans_nil _⟩
theorem neutral_append {a b : Str} (ha : Neutral a) (hb : Neutral b) : Neutral (a ++ b) :=
  ⟨trans_append ha.1 hb.1, trans_append ha.2 hb.2⟩
theorem neutral_plain (s : Str) (h : ∀ c ∈ s, isBracketChar c = false) : Neutral s :=
  ⟨trans_plain_list s (Or.inl rfl) h, trans_plain_list s (Or.inr rfl) h⟩

theorem trans_open_close {start close : Char} {s : Str}
    (hpair : (start = '(' ∧ close = ')') ∨ (start = '[' ∧ close = ']'))
    (hs : Trans start s) : Trans start (start :: s ++ [close]) := by
  intro L j rest hL
  have h1 : L + 1 ≠ 0 := by omega
  have h2 : 0 < L + 1 := by omega
  have hL0 : L ≠ 0 := by omega
  have hcs : close ≠ start := by rcases hpair with ⟨a, b⟩ | ⟨a, b⟩ <;> simp [a, b]
  have hclose : (start = '(' ∧ close = ')') ∨ (start = '[' ∧ close = ']') := hpair
  show matchingLoop start (start :: (s ++ [close] ++ rest)) L j = _
  rw [matchingLoop]
  simp only [if_true, h1, if_false]
  rw [List.append_assoc, hs (L + 1) (j + 1) _ h2]
  show matchingLoop start (close :: rest) (L + 1) (j + 1 + s.length) = _
  rw [matchingLoop]
  have e : (if close = start then L + 1 + 1
      else if start = '(' ∧ close = ')' then L + 1 - 1
      else if start = '[' ∧ close = ']' then L + 1 - 1 else L + 1) = L := by
    rcases hclose with ⟨a, b⟩ | ⟨a, b⟩ <;> simp [a, b]
  simp only [e, hL0, if_false]
  congr 1
  simp only [List.length_cons, List.length_append, List.length_nil]
  omega

theorem neutral_paren {s : Str} (h : Neutral s) : Neutral ('(' :: s ++ [')']) := by
  refine ⟨trans_open_close (Or.inl ⟨rfl, rfl⟩) h.1, ?_⟩
  have a : Trans '[' ['('] := trans_char _ (by decide) (by decide) (by decide)
  have b : Trans '[' [')'] := trans_char _ (by decide) (by decide) (by decide)
  exact trans_append (a := '(' :: s) (trans_append (a := ['(']) a h.2) b

theorem neutral_brack {s : Str} (h : Neutral s) : Neutral ('[' :: s ++ [']']) := by
  refine ⟨?_, trans_open_close (Or.inr ⟨rfl, rfl⟩) h.2⟩
  have a : Trans '(' ['['] := trans_char _ (by decide) (by decide) (by decide)
  have b : Trans '(' [']'] := trans_char _ (by decide) (by decide) (by decide)
  exact trans_append (a := '[' :: s) (trans_append (a := ['[']) a h.1) b

theorem matching_paren (s rest : Str) (h : Neutral s) :
    matching ('(' :: s ++ ')' :: rest) = some (s.length + 1) := by
  show matchingLoop '(' ('(' :: (s ++ ')' :: rest)) 0 0 = _
  rw [matchingLoop]
  simp only [if_true]
  rw [if_neg (by decide)]
  have := h.1 (0 + 1) (0 + 1) (')' :: rest) (by decide)
  rw [this, matchingLoop]
  simp [Nat.add_comm]

theorem matching_brack (s rest : Str) (h : Neutral s) :
    matching ('[' :: s ++ ']' :: rest) = some (s.length + 1) := by
  show matchingLoop '[' ('[' :: (s ++ ']' :: rest)) 0 0 = _
  rw [matchingLoop]
  simp only [if_true]
  rw [if_neg (by decide)]
  have := h.2 (0 + 1) (0 + 1) (']' :: rest) (by decide)
  rw [this, matchingLoop]
  simp [Nat.add_comm]

/-! ## character classes -/

theorem not_space_of_ne {c : Char} (h : ∀ d, isSpace d = true → c ≠ d) : isSpace c = false := by
  cases hc : isSpace c with
  | false => rfl
  | true => exact absurd rfl (h c hc)

theorem wordChar_not_space {c : Char} (h : isWordChar c = true) : isSpace c = false := by
  cases hc : isSpace c with
  | false => rfl
  | true =>
    simp only [isSpace, Bool.or_eq_true, beq_iff_eq] at hc
    rcases hc with ((((((((hc | hc) | hc) | hc) | hc) | hc) | hc) | hc) | hc) | hc <;>
      (subst hc; revert h; decide)

theorem wordChar_not_bracket {c : Char} (h : isWordChar c = true) : isBracketChar c = false := by
  cases hc : isBracketChar c with
  | false => rfl
  | true =>
    simp only [isBracketChar, Bool.or_eq_true, beq_iff_eq] at hc
    rcases hc with ((hc | hc) | hc) | hc <;> (subst hc; revert h; decide)

theorem alpha_wordChar {c : Char} (h : isAlpha c = true) : isWordChar c = true := by
  simp [isWordChar, h]

theorem alpha_ne {c : Char} (h : isAlpha c = true) :
    c ≠ '(' ∧ c ≠ '[' ∧ c ≠ '|' ∧ c ≠ '\'' := by
  refine ⟨?_, ?_, ?_, ?_⟩ <;> (intro e; subst e; revert h; decide)

structure OpCharFacts (c : Char) : Prop where
  alpha : isAlpha c = false
  special : isSpecial c = false
  space : isSpace c = false
  word : isWordChar c = false
  bracket : isBracketChar c = false
  ne : c ≠ '(' ∧ c ≠ '[' ∧ c ≠ '|' ∧ c ≠ '\''

theorem opChar_facts {c : Char} (h : isOpChar c = true) : OpCharFacts c := by
  simp only [isOpChar, Bool.and_eq_true, Bool.not_eq_true', Bool.or_eq_false_iff, bne_iff_ne,
    ne_eq] at h
  obtain ⟨⟨⟨⟨⟨⟨⟨⟨⟨ha, hd⟩, hs⟩, h_⟩, hq⟩, hlp⟩, hrp⟩, hlb⟩, hrb⟩, hbar⟩ := h
  have hblank : c ≠ ' ' := by intro e; subst e; revert hs; decide
  exact {
    alpha := ha
    special := by simp [isSpecial, hblank, hlp, hrp, hq]
    space := hs
    word := by simp [isWordChar, ha, hd, h_]
    bracket := by simp [isBracketChar, hlp, hrp, hlb, hrb]
    ne := ⟨hlp, hlb, hbar, hq⟩ }

theorem takeWhile_append_stop {α} (p : α → Bool) (a b : List α) (ha : ∀ x ∈ a, p x = true)
    (hb : ∀ c r, b = c :: r → p c = false) : (a ++ b).takeWhile p = a := by
  induction a with
  | nil =>
    cases b with
    | nil => rfl
    | cons c r => simp [hb c r rfl]
  | cons x a ih =>
    simp only [List.cons_append, List.takeWhile_cons, ha x (by simp), if_true]
    rw [ih (fun y hy => ha y (by simp [hy]))]

/-! ## `__next_token__` on the text of one token followed by `rest` -/

theorem nextToken_name (w rest : Str) (hw : goodName w = true)
    (hr : ∀ c r, rest = c :: r → isWordChar c = false) :
    nextToken sx (w ++ rest) = .ok (w, .none, w.length) := by
  cases w with
  | nil => simp [goodName] at hw
  | cons c w =>
    simp only [goodName, Bool.and_eq_true, List.all_eq_true] at hw
    obtain ⟨h1, h2, h3, h4⟩ := alpha_ne hw.1
    have ht := takeWhile_append_stop isWordChar w rest hw.2 hr
    simp [nextToken, h1, h2, h3, h4, hw.1, ht, Nat.add_comm]

theorem nextToken_pvar (w rest : Str) (hw : ∀ x ∈ w, isWordChar x = true)
    (hr : ∀ c r, rest = c :: r → isWordChar c = false) :
    nextToken sx ('\'' :: w ++ rest) = .ok (w, .poly, w.length + 1) := by
  have ht := takeWhile_append_stop isWordChar w rest hw hr
  have e : isAlpha '\'' = false := by decide
  simp [nextToken, ht, e, Nat.add_comm]

theorem nextToken_op (w rest : Str) (hw : goodOp w = true)
    (hr : ∀ c r, rest = c :: r → (isAlpha c || isSpecial c) = true) :
    nextToken sx (w ++ rest) = .ok (w, .infx, w.length) := by
  cases w with
  | nil => simp [goodOp] at hw
  | cons c w =>
    simp only [goodOp, List.isEmpty_cons, Bool.not_false, Bool.true_and, List.all_cons,
      Bool.and_eq_true, List.all_eq_true] at hw
    have f := opChar_facts hw.1
    obtain ⟨h1, h2, h3, h4⟩ := f.ne
    have ht := takeWhile_append_stop (fun d => !(isAlpha d || isSpecial d)) w rest
      (fun x hx => by
        have g := opChar_facts (hw.2 x hx)
        simp [g.alpha, g.special])
      (fun d r e => by simp [hr d r e])
    simp only [Bool.not_or] at ht
    have h5 : c ≠ ')' := by
      have := f.bracket; intro e; subst e; revert this; decide
    have h6 : c ≠ ']' := by
      have := f.bracket; intro e; subst e; revert this; decide
    simp [nextToken, h1, h2, h3, h4, h5, h6, f.alpha, ht, Nat.add_comm]

theorem nextToken_bar (rest : Str) : nextToken sx ('|' :: rest) = .ok ([], .or, 1) := by
  simp [nextToken]

theorem nextToken_paren (s rest : Str) (h : Neutral s) :
    nextToken sx ('(' :: s ++ ')' :: rest) = .ok (s, .paren, s.length + 2) := by
  have hm := matching_paren s rest h
  simp only [nextToken, hm]
  simp

theorem nextToken_brack (s rest : Str) (h : Neutral s) :
    nextToken sx ('[' :: s ++ ']' :: rest) = .ok (s, .brack, s.length + 2) := by
  have hm := matching_brack s rest h
  simp only [nextToken, hm]
  simp

/-! ## the character-level machine follows the tokenizer -/

theorem step_paren_w (w : Str) (sub : Res TyO) (st : St) : step sx .paren w sub st = step sx .paren [] sub st := rfl
theorem step_brack_w (w : Str) (sub : Res TyO) (st : St) : step sx .brack w sub st = step sx .brack [] sub st := rfl
theorem step_or_w (w : Str) (sub : Res TyO) (st : St) : step sx .or w sub st = step sx .or [] sub st := rfl

def subOf (rec : Str → Res TyO) (k : Kind) (w : Str) : Res TyO :=
  match k with
  | .paren => rec w
  | .brack => rec w
  | _ => .error .fuel

theorem loopC_step {rec : Str → Res TyO} {fuel : Nat} {text : Str} {st : St} {w : Str} {k : Kind}
    {idx : Nat} (ht : text ≠ []) (hn : nextToken sx text = .ok (w, k, idx)) :
    loopC sx rec (fuel + 1) text st =
      match step sx k w (subOf rec k w) st with
      | .error e => .error e
      | .ok st' => loopC sx rec fuel (strip (text.drop idx)) st' := by
  rw [loopC]; simp only [ht, if_false, hn]; rfl

theorem loopC_follows (t : Tok) (ts : List Tok) (rec : Str → Res TyO) (fuel : Nat) (text : Str)
    (st : St) (w : Str) (k : Kind) (idx : Nat) (ht : text ≠ [])
    (hn : nextToken sx text = .ok (w, k, idx))
    (hs : step sx k w (subOf rec k w) st = stepT sx t st)
    (hrest : ∀ st', loopC sx rec fuel (strip (text.drop idx)) st' = loopT sx ts st') :
    loopC sx rec (fuel + 1) text st = loopT sx (t :: ts) st := by
  rw [loopC_step ht hn, hs]
  cases h : stepT sx t st with
  | error e => rw [loopT_cons_err h]
  | ok st' => rw [loopT_cons_ok h]; exact hrest st'

theorem loopC_of_tokenizeLoop (d : Nat)
    (ih : ∀ w ks, tokenize sx d w = .ok ks → autoType sx d w = autoTypeToks sx ks) :
    ∀ (fuel : Nat) (text : Str) (ts : List Tok) (st : St),
      tokenizeLoop sx (tokenize sx d) fuel text = .ok ts → loopC sx (autoType sx d) fuel text st = loopT sx ts st := by
  intro fuel
  induction fuel with
  | zero => intro text ts st h; simp [tokenizeLoop] at h
  | succ fuel ihf =>
    intro text ts st h
    rw [tokenizeLoop] at h
    by_cases ht : text = []
    · simp only [ht, if_true] at h
      cases h
      simp [loopC, ht, loopT]
    · simp only [ht, if_false] at h
      cases hn : nextToken sx text with
      | error e => simp [hn] at h
      | ok r =>
        obtain ⟨w, k, idx⟩ := r
        simp only [hn] at h
        cases hl : tokenizeLoop sx (tokenize sx d) fuel (strip (text.drop idx)) with
        | error e => cases k <;> simp only [hl] at h <;> first | cases h | (split at h <;> cases h)
        | ok ts' =>
          have hrest := fun st' => ihf (strip (text.drop idx)) ts' st' hl
          simp only [hl] at h
          cases k with
          | paren =>
            cases hr : tokenize sx d w with
            | error e => simp [hr, Except.map] at h
            | ok ks =>
              simp only [hr, Except.map] at h
              cases h
              exact loopC_follows _ ts' _ fuel text st w .paren idx ht hn
                (by rw [stepT_paren, ← ih w ks hr]; rfl) hrest
          | brack =>
            cases hr : tokenize sx d w with
            | error e => simp [hr, Except.map] at h
            | ok ks =>
              simp only [hr, Except.map] at h
              cases h
              exact loopC_follows _ ts' _ fuel text st w .brack idx ht hn
                (by rw [stepT_brack, ← ih w ks hr]; rfl) hrest
          | none =>
            cases h
            exact loopC_follows _ ts' _ fuel text st w .none idx ht hn (by rw [stepT_name]; rfl) hrest
          | poly =>
            cases h
            exact loopC_follows _ ts' _ fuel text st w .poly idx ht hn (by rw [stepT_pvar]; rfl) hrest
          | infx =>
            cases h
            exact loopC_follows _ ts' _ fuel text st w .infx idx ht hn (by rw [stepT_op]; rfl) hrest
          | or =>
            cases h
            exact loopC_follows _ ts' _ fuel text st w .or idx ht hn (by rw [stepT_bar]; rfl) hrest

/-- **the character-level machine is the token-level machine on the tokenizer's output** -/
theorem autoType_of_tokenize : ∀ (d : Nat) (el : Str) (ts : List Tok),
    tokenize sx d el = .ok ts → autoType sx d el = autoTypeToks sx ts := by
  intro d
  induction d with
  | zero => intro el ts h; simp [tokenize] at h
  | succ d ih =>
    intro el ts h
    rw [tokenize] at h
    have := loopC_of_tokenizeLoop d ih (el.length + 1) (strip el) ts {} h
    rw [autoType, this, autoTypeToks]

/-! ## token trees that the tokenizer can read back -/

def Tok.isOp : Tok → Bool
  | .node (.op _) _ => true
  | _ => false
/-- tokens an operand may start with -/
def Tok.operandStart : Tok → Bool
  | .node (.name _) _ => true
  | .node (.pvar _) _ => true
  | .node .paren _ => true
  | _ => false
/-- an operator is followed by the start of an operand (otherwise the infix token of
    `__next_token__` would swallow the next `|`, `[` or operator written without a blank) -/
def pairOK (t u : Tok) : Bool := !t.isOp || u.operandStart
def chainOK : List Tok → Bool
  | t :: u :: r => pairOK t u && chainOK (u :: r)
  | _ => true

def labelOK : TokL → Bool
  | .name w => goodName w
  | .pvar w => goodName w
  | .op w => goodOp w
  | _ => true

mutual
  def tokOK : Tok → Bool
    | .node .paren ks => toksOK ks && chainOK ks
    | .node .brack ks => toksOK ks && chainOK ks
    | .node l ks => labelOK l && ks.isEmpty
  def toksOK : List Tok → Bool
    | [] => true
    | t :: ts => tokOK t && toksOK ts
end

/-! ## facts about rendered texts -/

theorem renderToks_nil (sp : Spacing) (prev : Option Bool) (k : Nat) :
    (renderToks sp [] prev k).1 = blanks (sp k) := by simp [renderToks]

theorem renderToks_cons (sp : Spacing) (t : Tok) (ts : List Tok) (prev : Option Bool) (k : Nat) :
    (renderToks sp (t :: ts) prev k).1 =
      blanks (sp k + (if prev = some true && Tok.startsWord t then 1 else 0)) ++
        (renderTok sp t (k + 1)).1 ++
        (renderToks sp ts (some (Tok.endsWord t)) (renderTok sp t (k + 1)).2).1 := by
  simp [renderToks]

theorem renderTok_paren (sp : Spacing) (ks : List Tok) (k : Nat) :
    (renderTok sp (.node .paren ks) k).1 = '(' :: (renderToks sp ks none k).1 ++ [')'] := by
  simp [renderTok]

theorem renderTok_brack (sp : Spacing) (ks : List Tok) (k : Nat) :
    (renderTok sp (.node .brack ks) k).1 = '[' :: (renderToks sp ks none k).1 ++ [']'] := by
  simp [renderTok]

/-- the first character of a token's text, by kind -/
def firstOK : Tok → Char → Prop
  | .node (.name _) _, c => isAlpha c = true
  | .node (.pvar _) _, c => c = '\''
  | .node (.op _) _, c => isOpChar c = true
  | .node .bar _, c => c = '|'
  | .node .paren _, c => c = '('
  | .node .brack _, c => c = '['

structure TokFacts (t : Tok) (s : Str) : Prop where
  neutral : Neutral s
  starts : StartsNS s
  ends : EndsNS s
  depth : Tree.depth t ≤ s.length
  first : ∃ c r, s = c :: r ∧ firstOK t c

structure ToksFacts (ts : List Tok) (R : Str) : Prop where
  neutral : Neutral R
  depth : Tree.depthList ts ≤ R.length
  count : ts.length ≤ R.length

theorem startsNS_of_all {w : Str} (h0 : w ≠ []) (h : ∀ x ∈ w, isSpace x = false) : StartsNS w := by
  cases w with
  | nil => exact absurd rfl h0
  | cons c r => exact ⟨c, r, rfl, h c (by simp)⟩

theorem endsNS_of_all {w : Str} (h0 : w ≠ []) (h : ∀ x ∈ w, isSpace x = false) : EndsNS w :=
  ⟨w.dropLast, w.getLast h0, (List.dropLast_concat_getLast h0).symm, h _ (List.getLast_mem h0)⟩

theorem blanks_neutral (n : Nat) : Neutral (blanks n) :=
  neutral_plain _ (fun c hc => by
    have : c = ' ' := by simpa [blanks] using (List.mem_replicate.mp hc).2
    subst this; decide)

theorem leaf_depth {l : TokL} : Tree.depth (Tree.node l ([] : List Tok)) = 1 := by
  simp [Tree.depth, Tree.depthList]

theorem goodName_chars {w : Str} (h : goodName w = true) :
    (∃ c r, w = c :: r ∧ isAlpha c = true) ∧ ∀ x ∈ w, isWordChar x = true := by
  cases w with
  | nil => simp [goodName] at h
  | cons c r =>
    simp only [goodName, Bool.and_eq_true, List.all_eq_true] at h
    refine ⟨⟨c, r, rfl, h.1⟩, ?_⟩
    intro x hx
    rcases List.mem_cons.mp hx with e | e
    · subst e; exact alpha_wordChar h.1
    · exact h.2 x e

theorem goodOp_chars {w : Str} (h : goodOp w = true) :
    (∃ c r, w = c :: r ∧ isOpChar c = true) ∧ ∀ x ∈ w, isOpChar x = true := by
  cases w with
  | nil => simp [goodOp] at h
  | cons c r =>
    simp only [goodOp, List.isEmpty_cons, Bool.not_false, Bool.true_and, List.all_eq_true] at h
    exact ⟨⟨c, r, rfl, h c (by simp)⟩, h⟩

theorem name_facts (w : Str) (h : goodName w = true) (s : Str) (hs : s = w) :
    TokFacts (.node (.name w) []) s := by
  subst hs
  obtain ⟨⟨c, r, rfl, hc⟩, hall⟩ := goodName_chars h
  have hns : ∀ x ∈ c :: r, isSpace x = false := fun x hx => wordChar_not_space (hall x hx)
  exact {
    neutral := neutral_plain _ (fun x hx => wordChar_not_bracket (hall x hx))
    starts := startsNS_of_all (by simp) hns
    ends := endsNS_of_all (by simp) hns
    depth := by rw [leaf_depth]; simp
    first := ⟨c, r, rfl, hc⟩ }

theorem pvar_facts (w : Str) (h : goodName w = true) (s : Str) (hs : s = '\'' :: w) :
    TokFacts (.node (.pvar w) []) s := by
  subst hs
  obtain ⟨_, hall⟩ := goodName_chars h
  have hns : ∀ x ∈ '\'' :: w, isSpace x = false := by
    intro x hx
    rcases List.mem_cons.mp hx with e | e
    · subst e; decide
    · exact wordChar_not_space (hall x e)
  exact {
    neutral := neutral_plain _ (fun x hx => by
      rcases List.mem_cons.mp hx with e | e
      · subst e; decide
      · exact wordChar_not_bracket (hall x e))
    starts := startsNS_of_all (by simp) hns
    ends := endsNS_of_all (by simp) hns
    depth := by rw [leaf_depth]; simp
    first := ⟨_, _, rfl, rfl⟩ }

theorem op_facts (w : Str) (h : goodOp w = true) (s : Str) (hs : s = w) :
    TokFacts (.node (.op w) []) s := by
  subst hs
  obtain ⟨⟨c, r, rfl, hc⟩, hall⟩ := goodOp_chars h
  have hns : ∀ x ∈ c :: r, isSpace x = false := fun x hx => (opChar_facts (hall x hx)).space
  exact {
    neutral := neutral_plain _ (fun x hx => (opChar_facts (hall x hx)).bracket)
    starts := startsNS_of_all (by simp) hns
    ends := endsNS_of_all (by simp) hns
    depth := by rw [leaf_depth]; simp
    first := ⟨c, r, rfl, hc⟩ }

theorem bar_facts : TokFacts (.node .bar []) ['|'] :=
  { neutral := neutral_plain _ (fun x hx => by
      have : x = '|' := by simpa using hx
      subst this; decide)
    starts := ⟨'|', [], rfl, by decide⟩
    ends := ⟨[], '|', rfl, by decide⟩
    depth := by rw [leaf_depth]; simp
    first := ⟨_, _, rfl, rfl⟩ }

theorem paren_facts (ks : List Tok) (inner : Str) (h : ToksFacts ks inner) :
    TokFacts (.node .paren ks) ('(' :: inner ++ [')']) :=
  { neutral := neutral_paren h.neutral
    starts := ⟨'(', _, rfl, by decide⟩
    ends := ⟨'(' :: inner, ')', rfl, by decide⟩
    depth := by
      have := h.depth
      simp only [Tree.depth, List.length_cons, List.length_append, List.length_nil]; omega
    first := ⟨_, _, rfl, rfl⟩ }

theorem brack_facts (ks : List Tok) (inner : Str) (h : ToksFacts ks inner) :
    TokFacts (.node .brack ks) ('[' :: inner ++ [']']) :=
  { neutral := neutral_brack h.neutral
    starts := ⟨'[', _, rfl, by decide⟩
    ends := ⟨'[' :: inner, ']', rfl, by decide⟩
    depth := by
      have := h.depth
      simp only [Tree.depth, List.length_cons, List.length_append, List.length_nil]; omega
    first := ⟨_, _, rfl, rfl⟩ }

mutual
  theorem tok_facts (sp : Spacing) :
      (t : Tok) → tokOK t = true → ∀ k, TokFacts t (renderTok sp t k).1
    | .node .paren ks, h => by
      intro k
      simp only [tokOK, Bool.and_eq_true] at h
      rw [renderTok_paren]
      exact paren_facts ks _ (toks_facts sp ks h.1 none k)
    | .node .brack ks, h => by
      intro k
      simp only [tokOK, Bool.and_eq_true] at h
      rw [renderTok_brack]
      exact brack_facts ks _ (toks_facts sp ks h.1 none k)
    | .node (.name w) ks, h => by
      intro k
      simp only [tokOK, labelOK, Bool.and_eq_true, List.isEmpty_iff] at h
      obtain ⟨h1, rfl⟩ := h
      exact name_facts w h1 _ (by simp [renderTok])
    | .node (.pvar w) ks, h => by
      intro k
      simp only [tokOK, labelOK, Bool.and_eq_true, List.isEmpty_iff] at h
      obtain ⟨h1, rfl⟩ := h
      exact pvar_facts w h1 _ (by simp [renderTok])
    | .node (.op w) ks, h => by
      intro k
      simp only [tokOK, labelOK, Bool.and_eq_true, List.isEmpty_iff] at h
      obtain ⟨h1, rfl⟩ := h
      exact op_facts w h1 _ (by simp [renderTok])
    | .node .bar ks, h => by
      intro k
      simp only [tokOK, labelOK, Bool.and_eq_true, List.isEmpty_iff] at h
      obtain ⟨_, rfl⟩ := h
      have : (renderTok sp (.node .bar []) k).1 = ['|'] := by simp [renderTok]
      rw [this]; exact bar_facts
  theorem toks_facts (sp : Spacing) :
      (ts : List Tok) → toksOK ts = true → ∀ prev k, ToksFacts ts (renderToks sp ts prev k).1
    | [], _ => by
      intro prev k
      rw [renderToks_nil]
      exact ⟨blanks_neutral _, by simp [Tree.depthList], by simp⟩
    | t :: ts, h => by
      intro prev k
      simp only [toksOK, Bool.and_eq_true] at h
      have f1 := tok_facts sp t h.1 (k + 1)
      have f2 := toks_facts sp ts h.2 (some (Tok.endsWord t)) (renderTok sp t (k + 1)).2
      rw [renderToks_cons]
      refine ⟨neutral_append (neutral_append (blanks_neutral _) f1.neutral) f2.neutral, ?_, ?_⟩
      · have a := f1.depth
        have b := f2.depth
        simp only [Tree.depthList, List.length_append]
        omega
      · have b := f2.count
        obtain ⟨c, r, e, _⟩ := f1.starts
        simp only [List.length_cons, List.length_append, e]
        omega
end

/-! ## what may follow a token -/

/-- the character after a token's text lets `__next_token__` stop exactly there -/
def followChar : Tok → Char → Prop
  | .node (.name _) _, c => isWordChar c = false
  | .node (.pvar _) _, c => isWordChar c = false
  | .node (.op _) _, c => (isAlpha c || isSpecial c) = true
  | _, _ => True

theorem followChar_blank (t : Tok) : followChar t ' ' := by
  obtain ⟨l, ks⟩ := t
  cases l <;> simp only [followChar] <;> decide

theorem followChar_first (t u : Tok) (c : Char) (hp : pairOK t u = true)
    (hn : (Tok.endsWord t && Tok.startsWord u) = false) (hf : firstOK u c) : followChar t c := by
  obtain ⟨lt, kt⟩ := t
  obtain ⟨lu, ku⟩ := u
  cases lt <;> cases lu <;>
    simp only [followChar, firstOK, pairOK, Tok.isOp, Tok.operandStart, Tok.endsWord, Tok.startsWord,
      Bool.and_self, Bool.not_true, Bool.or_self, Bool.not_false, Bool.or_false, Bool.or_true,
      Bool.and_false, Bool.and_true, Bool.false_eq_true, Bool.true_eq_false] at hp hn hf ⊢ <;>
    first
    | trivial
    | (subst hf; decide)
    | exact (opChar_facts hf).word
    | (simp [hf])

theorem chainOK_tail {t : Tok} {ts : List Tok} (h : chainOK (t :: ts) = true) : chainOK ts = true := by
  cases ts with
  | nil => rfl
  | cons u us => simp only [chainOK, Bool.and_eq_true] at h; exact h.2

theorem follow_ok (sp : Spacing) (t : Tok) (ts : List Tok) (k : Nat) (hts : toksOK ts = true)
    (hch : chainOK (t :: ts) = true) (c : Char) (r : Str)
    (h : rstrip (renderToks sp ts (some (Tok.endsWord t)) k).1 = c :: r) : followChar t c := by
  cases ts with
  | nil => rw [renderToks_nil, rstrip_blanks] at h; cases h
  | cons u us =>
    obtain ⟨r', e⟩ := rstrip_head h
    rw [renderToks_cons] at e
    simp only [toksOK, Bool.and_eq_true] at hts
    simp only [chainOK, Bool.and_eq_true] at hch
    obtain ⟨c', r'', e', hf⟩ := (tok_facts sp u hts.1 (k + 1)).first
    rw [e'] at e
    by_cases hw : (Tok.endsWord t && Tok.startsWord u) = true
    · have : (some (Tok.endsWord t) = some true && Tok.startsWord u) = true := by
        simp only [Bool.and_eq_true] at hw; simp [hw.1, hw.2]
      rw [if_pos this] at e
      have e2 : blanks (sp k + 1) = ' ' :: blanks (sp k) := by simp [blanks, List.replicate_succ]
      rw [e2] at e
      simp only [List.cons_append, List.cons.injEq] at e
      rw [← e.1]; exact followChar_blank t
    · have hw' : (Tok.endsWord t && Tok.startsWord u) = false := by simpa using hw
      have : ¬ (some (Tok.endsWord t) = some true && Tok.startsWord u) = true := by
        intro hh; apply hw
        simp only [Bool.and_eq_true, decide_eq_true_eq, Option.some.injEq] at hh
        simp [hh.1, hh.2]
      rw [if_neg this] at e
      cases hn : sp k with
      | zero =>
        rw [hn] at e
        simp only [Nat.add_zero, blanks, List.replicate_zero, List.nil_append, List.cons_append,
          List.cons.injEq] at e
        rw [← e.1]; exact followChar_first t u c' hch.1 hw' hf
      | succ m =>
        rw [hn] at e
        have e2 : blanks (m + 1 + 0) = ' ' :: blanks m := by simp [blanks, List.replicate_succ]
        rw [e2] at e
        simp only [List.cons_append, List.cons.injEq] at e
        rw [← e.1]; exact followChar_blank t

/-! ## the tokenizer reads a rendered token tree back -/

/-- the token built by one iteration of `tokenizeLoop` -/
def tokOf (rec : Str → Res (List Tok)) (k : Kind) (w : Str) : Res Tok :=
  match k with
  | .paren => (rec w).map (fun ks => .node .paren ks)
  | .brack => (rec w).map (fun ks => .node .brack ks)
  | .none => .ok (.node (.name w) [])
  | .poly => .ok (.node (.pvar w) [])
  | .infx => .ok (.node (.op w) [])
  | .or => .ok (.node .bar [])

theorem tokenizeLoop_step {rec : Str → Res (List Tok)} {fuel : Nat} {text w : Str} {k : Kind}
    {idx : Nat} {t : Tok} {ts : List Tok} (ht : text ≠ [])
    (hn : nextToken sx text = .ok (w, k, idx)) (hk : tokOf rec k w = .ok t)
    (hr : tokenizeLoop sx rec fuel (strip (text.drop idx)) = .ok ts) :
    tokenizeLoop sx rec (fuel + 1) text = .ok (t :: ts) := by
  rw [tokenizeLoop]
  simp only [ht, if_false, hn]
  show (match tokOf rec k w with
    | .error e => .error e
    | .ok t => match tokenizeLoop sx rec fuel (strip (text.drop idx)) with
      | .error e => .error e
      | .ok ts => .ok (t :: ts) : Res (List Tok)) = _
  rw [hk]; simp only [hr]

mutual
  theorem tok_main (sp : Spacing) :
      (t : Tok) → tokOK t = true → ∀ (k D : Nat) (rest : Str), Tree.depth t ≤ D →
        (∀ c r, rest = c :: r → followChar t c) →
        ∃ w kd, nextToken sx ((renderTok sp t k).1 ++ rest) = .ok (w, kd, (renderTok sp t k).1.length) ∧
          tokOf (tokenize sx D) kd w = .ok t
    | .node .paren ks, h => by
      intro k D rest hd _
      simp only [tokOK, Bool.and_eq_true] at h
      have f := toks_facts sp ks h.1 none k
      rw [renderTok_paren]
      refine ⟨(renderToks sp ks none k).1, .paren, ?_, ?_⟩
      · have := nextToken_paren (sx := sx) (renderToks sp ks none k).1 rest f.neutral
        simpa using this
      · cases D with
        | zero => simp [Tree.depth] at hd
        | succ D =>
          have hd' : Tree.depthList ks ≤ D := by simp only [Tree.depth] at hd; omega
          have := toks_main sp ks h.1 h.2 none k D ((renderToks sp ks none k).1.length + 1) hd'
            (Nat.lt_succ_of_le f.count)
          simp only [tokOf, tokenize, this, Except.map]
    | .node .brack ks, h => by
      intro k D rest hd _
      simp only [tokOK, Bool.and_eq_true] at h
      have f := toks_facts sp ks h.1 none k
      rw [renderTok_brack]
      refine ⟨(renderToks sp ks none k).1, .brack, ?_, ?_⟩
      · have := nextToken_brack (sx := sx) (renderToks sp ks none k).1 rest f.neutral
        simpa using this
      · cases D with
        | zero => simp [Tree.depth] at hd
        | succ D =>
          have hd' : Tree.depthList ks ≤ D := by simp only [Tree.depth] at hd; omega
          have := toks_main sp ks h.1 h.2 none k D ((renderToks sp ks none k).1.length + 1) hd'
            (Nat.lt_succ_of_le f.count)
          simp only [tokOf, tokenize, this, Except.map]
    | .node (.name w) ks, h => by
      intro k D rest _ hf
      simp only [tokOK, labelOK, Bool.and_eq_true, List.isEmpty_iff] at h
      obtain ⟨h1, rfl⟩ := h
      have e : (renderTok sp (.node (.name w) []) k).1 = w := by simp [renderTok]
      rw [e]
      exact ⟨w, .none, nextToken_name w rest h1 hf, rfl⟩
    | .node (.pvar w) ks, h => by
      intro k D rest _ hf
      simp only [tokOK, labelOK, Bool.and_eq_true, List.isEmpty_iff] at h
      obtain ⟨h1, rfl⟩ := h
      have e : (renderTok sp (.node (.pvar w) []) k).1 = '\'' :: w := by simp [renderTok]
      rw [e]
      exact ⟨w, .poly, by simpa using nextToken_pvar w rest (goodName_chars h1).2 hf, rfl⟩
    | .node (.op w) ks, h => by
      intro k D rest _ hf
      simp only [tokOK, labelOK, Bool.and_eq_true, List.isEmpty_iff] at h
      obtain ⟨h1, rfl⟩ := h
      have e : (renderTok sp (.node (.op w) []) k).1 = w := by simp [renderTok]
      rw [e]
      exact ⟨w, .infx, nextToken_op w rest h1 hf, rfl⟩
    | .node .bar ks, h => by
      intro k D rest _ _
      simp only [tokOK, labelOK, Bool.and_eq_true, List.isEmpty_iff] at h
      obtain ⟨_, rfl⟩ := h
      have e : (renderTok sp (.node .bar []) k).1 = ['|'] := by simp [renderTok]
      rw [e]
      exact ⟨[], .or, nextToken_bar rest, rfl⟩
  theorem toks_main (sp : Spacing) :
      (ts : List Tok) → toksOK ts = true → chainOK ts = true → ∀ (prev : Option Bool) (k D fuel : Nat),
        Tree.depthList ts ≤ D → ts.length < fuel →
        tokenizeLoop sx (tokenize sx D) fuel (strip (renderToks sp ts prev k).1) = .ok ts
    | [], _, _ => by
      intro prev k D fuel _ hfuel
      rw [renderToks_nil, strip_blanks]
      cases fuel with
      | zero => simp at hfuel
      | succ fuel => simp [tokenizeLoop]
    | t :: ts, h, hc => by
      intro prev k D fuel hd hfuel
      have h' := h
      simp only [toksOK, Bool.and_eq_true] at h'
      cases fuel with
      | zero => simp at hfuel
      | succ fuel =>
        have f1 := tok_facts sp t h'.1 (k + 1)
        have hdt : Tree.depth t ≤ D := by simp only [Tree.depthList] at hd; omega
        have hdts : Tree.depthList ts ≤ D := by simp only [Tree.depthList] at hd; omega
        rw [renderToks_cons, strip_blanks_tok _ _ _ f1.starts f1.ends]
        obtain ⟨w, kd, hn, hk⟩ := tok_main sp t h'.1 (k + 1) D
          (rstrip (renderToks sp ts (some (Tok.endsWord t)) (renderTok sp t (k + 1)).2).1) hdt
          (fun c r e => follow_ok sp t ts _ h'.2 hc c r e)
        have hne : (renderTok sp t (k + 1)).1 ++
            rstrip (renderToks sp ts (some (Tok.endsWord t)) (renderTok sp t (k + 1)).2).1 ≠ [] := by
          obtain ⟨c, r, e, _⟩ := f1.starts
          rw [e]; simp
        refine tokenizeLoop_step hne hn hk ?_
        rw [List.drop_left, strip_rstrip]
        exact toks_main sp ts h'.2 (chainOK_tail hc) _ _ D fuel hdts (by simp at hfuel; omega)
end

/-! ## the token stream of an expression of the notation is such a token tree -/

theorem toksOK_append (x y : List Tok) : toksOK (x ++ y) = (toksOK x && toksOK y) := by
  induction x with
  | nil => simp [toksOK]
  | cons t x ih => simp [toksOK, ih, Bool.and_assoc]

theorem chainOK_append : ∀ (x y : List Tok), chainOK x = true → chainOK y = true →
    (∀ t u, x.getLast? = some t → y.head? = some u → pairOK t u = true) → chainOK (x ++ y) = true
  | [], _, _, hy, _ => hy
  | [_], [], _, _, _ => rfl
  | [t], u :: r, _, hy, h => by
    have := h t u rfl rfl
    simp [chainOK, hy, this]
  | t :: t' :: x, y, hx, hy, h => by
    simp only [chainOK, Bool.and_eq_true] at hx
    have := chainOK_append (t' :: x) y hx.2 hy (fun a b ha hb =>
      h a b (by simpa [List.getLast?_cons_cons] using ha) hb)
    show chainOK (t :: t' :: (x ++ y)) = true
    simp only [chainOK, Bool.and_eq_true]
    exact ⟨hx.1, this⟩

/-- a readable token list that starts like an operand and does not end with an operator -/
structure Good (ts : List Tok) : Prop where
  ok : toksOK ts = true
  chain : chainOK ts = true
  head : ∃ t r, ts = t :: r ∧ Tok.operandStart t = true
  last : ∃ r t, ts = r ++ [t] ∧ Tok.isOp t = false

theorem good_single (t : Tok) (h1 : tokOK t = true) (h2 : Tok.operandStart t = true)
    (h3 : Tok.isOp t = false) : Good [t] :=
  ⟨by simp [toksOK, h1], rfl, ⟨t, [], rfl, h2⟩, ⟨[], t, rfl, h3⟩⟩

theorem good_wrap (b : Bool) {body : List Tok} (h : Good body) : Good (wrap b body) := by
  cases b with
  | true => simpa [wrap] using h
  | false =>
    simp only [wrap, Bool.false_eq_true, if_false]
    exact good_single _ (by simp [tokOK, h.ok, h.chain]) rfl rfl

theorem good_mid {x y : List Tok} (m : Tok) (hx : Good x) (hm : tokOK m = true) (hy : Good y) :
    Good (x ++ m :: y) := by
  obtain ⟨t, r, ey, ht⟩ := hy.head
  obtain ⟨r2, t2, ex, ht2⟩ := hx.last
  obtain ⟨t3, r3, ex3, ht3⟩ := hx.head
  obtain ⟨r4, t4, ey4, ht4⟩ := hy.last
  refine ⟨?_, ?_, ⟨t3, r3 ++ m :: y, by simp [ex3], ht3⟩, ⟨x ++ m :: r4, t4, by simp [ey4], ht4⟩⟩
  · simp [toksOK_append, toksOK, hx.ok, hm, hy.ok]
  · apply chainOK_append x (m :: y) hx.chain
    · rw [ey]; simp only [chainOK, Bool.and_eq_true]
      exact ⟨by simp [pairOK, ht], by rw [← ey]; exact hy.chain⟩
    · intro a b ha hb
      have : a = t2 := by
        rw [ex] at ha; simpa using ha.symm
      subst this
      simp [pairOK, ht2]

theorem good_snoc {x : List Tok} (m : Tok) (hx : Good x) (hm : tokOK m = true)
    (hop : Tok.isOp m = false) : Good (x ++ [m]) := by
  obtain ⟨r2, t2, ex, ht2⟩ := hx.last
  obtain ⟨t3, r3, ex3, ht3⟩ := hx.head
  refine ⟨?_, ?_, ⟨t3, r3 ++ [m], by simp [ex3], ht3⟩, ⟨x, m, rfl, hop⟩⟩
  · simp [toksOK_append, toksOK, hx.ok, hm]
  · apply chainOK_append x [m] hx.chain rfl
    intro a b ha hb
    have : a = t2 := by
      rw [ex] at ha; simpa using ha.symm
    subst this
    simp [pairOK, ht2]

theorem toksAt_good (e : TyExpr) (hwf : e.wf = true) : ∀ lvl, Good (toksAt lvl e) := by
  induction e with
  | prim n =>
    intro lvl
    exact good_single _ (by simpa [tokOK, labelOK, wf] using hwf) rfl rfl
  | var n =>
    intro lvl
    exact good_single _ (by simpa [tokOK, labelOK, wf] using hwf) rfl rfl
  | fvar n r ih =>
    intro lvl
    simp only [wf, Bool.and_eq_true] at hwf
    have g := ih hwf.2 0
    simp only [toksAt]
    apply good_wrap
    have : Good ([.node (.pvar n) []] ++ [.node .brack (toksAt 0 r)]) :=
      good_snoc _ (good_single _ (by simp [tokOK, labelOK, hwf.1]) rfl rfl)
        (by simp [tokOK, g.ok, g.chain]) rfl
    simpa using this
  | infx op a b iha ihb =>
    intro lvl
    simp only [wf, Bool.and_eq_true] at hwf
    simp only [toksAt]
    apply good_wrap
    have := good_mid (.node (.op op) []) (iha hwf.1.2 1) (by simp [tokOK, labelOK, hwf.1.1]) (ihb hwf.2 0)
    simpa using this
  | generic n a iha =>
    intro lvl
    simp only [wf, Bool.and_eq_true] at hwf
    simp only [toksAt]
    apply good_wrap
    exact good_snoc _ (iha hwf.2 1) (by simp [tokOK, labelOK, hwf.1.1]) rfl
  | optional a iha =>
    intro lvl
    simp only [wf] at hwf
    simp only [toksAt]
    apply good_wrap
    exact good_snoc _ (iha hwf 1) (by simp [tokOK, labelOK]; decide) rfl
  | union a b iha ihb =>
    intro lvl
    simp only [wf, Bool.and_eq_true] at hwf
    simp only [toksAt]
    apply good_wrap
    have := good_mid (.node .bar []) (iha hwf.1 1) (by simp [tokOK, labelOK]) (ihb hwf.2 3)
    simpa using this

/-! ## the two end-to-end statements on rendered texts -/

/-- for every token tree that the tokenizer can read back, and every spacing, the tokenizer
    cuts the rendered text into that tree -/
theorem tokenize_renderToks (sp : Spacing) (ts : List Tok) (h : toksOK ts = true)
    (hc : chainOK ts = true) :
    tokenize sx ((renderToks sp ts none 0).1.length + 1) (renderToks sp ts none 0).1 = .ok ts := by
  have f := toks_facts sp ts h none 0
  rw [tokenize]
  exact toks_main sp ts h hc none 0 _ _ f.depth (Nat.lt_succ_of_le f.count)

theorem tokenize_render (sp : Spacing) (e : TyExpr) (hwf : e.wf = true) :
    tokenize sx ((render sp e).length + 1) (render sp e) = .ok e.toks := by
  have g := toksAt_good e hwf 0
  exact tokenize_renderToks sp e.toks g.ok g.chain

/-! ## the malformed texts of finding C15-F4 are cut into the malformed token streams -/

/-- an expression followed by one more token (a dangling operator or `|`) is still readable -/
theorem readable_snoc (e : TyExpr) (hwf : e.wf = true) (m : Tok) (hm : tokOK m = true) :
    toksOK (e.toks ++ [m]) = true ∧ chainOK (e.toks ++ [m]) = true := by
  have g := toksAt_good e hwf 0
  obtain ⟨r2, t2, ex, ht2⟩ := g.last
  refine ⟨by simp [TyExpr.toks, toksOK_append, toksOK, g.ok, hm], ?_⟩
  apply chainOK_append e.toks [m] g.chain rfl
  intro a b ha hb
  have : a = t2 := by
    unfold TyExpr.toks at ha
    rw [ex] at ha; simpa using ha.symm
  subst this
  simp [pairOK, ht2]

/-- an operator followed by an expression is readable -/
theorem readable_cons (e : TyExpr) (hwf : e.wf = true) (w : Str) (hw : goodOp w = true) :
    toksOK (.node (.op w) [] :: e.toks) = true ∧ chainOK (.node (.op w) [] :: e.toks) = true := by
  have g := toksAt_good e hwf 0
  obtain ⟨t, r, ey, ht⟩ := g.head
  refine ⟨by simp [TyExpr.toks, toksOK, tokOK, labelOK, hw, g.ok], ?_⟩
  unfold TyExpr.toks
  rw [ey]
  simp only [chainOK, Bool.and_eq_true]
  exact ⟨by simp [pairOK, ht], by rw [← ey]; exact g.chain⟩

/-- the character-level parser on the text of a readable token stream (any spacing) is the
    token-level machine on that stream -/
theorem autoTypeText_renderToks (sp : Spacing) (ts : List Tok) (h : toksOK ts = true)
    (hc : chainOK ts = true) :
    autoTypeText sx (renderToks sp ts none 0).1 = autoTypeToks sx ts := by
  unfold autoTypeText
  exact autoType_of_tokenize _ _ _ (tokenize_renderToks sp ts h hc)

/-- with the repair a text cannot go on with a closing bracket where a token must start -/
theorem nextToken_close (c : Char) (rest : Str) (hc : c = ')' ∨ c = ']') :
    nextToken true (c :: rest) = .error .assertion := by
  rcases hc with rfl | rfl <;> simp [nextToken, isAlpha]

theorem loopC_close (rec : Str → Res TyO) (fuel : Nat) (c : Char) (rest : Str) (st : St)
    (hc : c = ')' ∨ c = ']') : loopC true rec (fuel + 1) (c :: rest) st = .error .assertion := by
  rw [loopC]
  simp [nextToken_close c rest hc]

end PS.C15
