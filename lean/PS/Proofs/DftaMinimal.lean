/-
  `minimise` returns an automaton with the least possible number of states
  (Part 2 of the proof; Part 1 = PS/Proofs/DftaMin.lean).

  For a deterministic `B` with the same language as the trim automaton `A`, relate two states
  of `A` when two trees read into them are read into the same state by `B`
  (`SameIn A B`).  This relation is a bisimulation of `A` (because every state of `A` is
  productive, "undefined" can be told from "defined"), the equivalence test of the refinement
  loop respects every bisimulation (`compat_of_bisim`), so by the loop invariant of Part 1
  related states always stay in one class.  Hence class ↦ state of `B` is injective.
-/
import PS.Proofs.DftaMin
set_option linter.unusedSectionVars false
namespace PS
namespace DFTA
variable {σ Q Q₂ : Type} [DecidableEq σ] [DecidableEq Q] [DecidableEq Q₂]

/-! ### lists and runs -/

theorem split_at_getElem? {α : Type} : ∀ (l : List α) (k : Nat) (a : α), l[k]? = some a →
    l = l.take k ++ a :: l.drop (k + 1) ∧ ∀ b, l.set k b = l.take k ++ b :: l.drop (k + 1) := by
  intro l
  induction l with
  | nil => intro k a h; simp at h
  | cons x l ih =>
    intro k a h
    cases k with
    | zero =>
      simp only [List.getElem?_cons_zero, Option.some.injEq] at h
      subst h
      simp
    | succ k =>
      simp only [List.getElem?_cons_succ] at h
      obtain ⟨h1, h2⟩ := ih k a h
      constructor
      · simp only [List.take_succ_cons, List.drop_succ_cons, List.cons_append]
        rw [← h1]
      · intro b
        simp only [List.set_cons_succ, List.take_succ_cons, List.drop_succ_cons, List.cons_append]
        rw [h2 b]

theorem runList_append (A : DFTA σ Q) (xs ys : List (Tree σ)) :
    runList A (xs ++ ys) =
      (runList A xs).bind (fun a => (runList A ys).map (fun b => a ++ b)) := by
  induction xs with
  | nil => simp
  | cons x xs ih =>
    rw [List.cons_append, runList_cons, runList_cons, ih]
    cases run A x <;> cases runList A xs <;> cases runList A ys <;> simp

/-- the run on a tree, seen from one of its children -/
theorem run_node_mid (A : DFTA σ Q) (l : σ) (xs ys : List (Tree σ)) (t : Tree σ) :
    run A (.node l (xs ++ t :: ys)) =
      (runList A xs).bind (fun a => (run A t).bind (fun q => (runList A ys).bind (fun b =>
        A.read l (a ++ q :: b)))) := by
  rw [run_node, runList_append, runList_cons]
  cases runList A xs <;> cases run A t <;> cases runList A ys <;> simp

theorem exists_trees (A : DFTA σ Q) (hd : A.Det) (qs : List Q) (h : ∀ q ∈ qs, q ∈ A.states) :
    ∃ ts, runList A ts = some qs := by
  obtain ⟨ts, hts⟩ := exists_forall₂ (fun t q => run A t = some q) qs
    (fun q hq => (mem_states_iff A hd q).mp (h q hq))
  exact ⟨ts, (runList_eq_some_iff A ts qs).mpr hts⟩

/-! ### the equivalence test respects bisimulations -/

/-- `R`-related states can replace each other in a rule, with `R`-related targets -/
def StepClosed (A : DFTA σ Q) (R : Q → Q → Prop) : Prop :=
  ∀ q q', R q q' → ∀ l pre post d, ((l, pre ++ q :: post), d) ∈ A.rules →
    ∃ d', ((l, pre ++ q' :: post), d') ∈ A.rules ∧ R d d'

theorem stepClosed_set (A : DFTA σ Q) (R : Q → Q → Prop) (h : StepClosed A R) (q q' : Q)
    (hr : R q q') (S : σ × List Q) (k : Nat) (d : Q) (hm : (S, d) ∈ A.rules)
    (hk : S.2[k]? = some q) : ∃ d', ((S.1, S.2.set k q'), d') ∈ A.rules ∧ R d d' := by
  obtain ⟨e1, e2⟩ := split_at_getElem? S.2 k q hk
  rw [e2 q']
  apply h q q' hr S.1 _ _ d
  rw [← e1]; exact hm

theorem areEquivalent_of_bisim (A : DFTA σ Q) (hd : A.Det) (R : Q → Q → Prop)
    (hsym : ∀ q q', R q q' → R q' q) (hstep : StepClosed A R) (s2c : AList Q Nat)
    (hresp : Resp R s2c) (r q q' : Q) (e : R q q') (h : areEquivalent A s2c r q = true) :
    areEquivalent A s2c r q' = true := by
  unfold areEquivalent at h ⊢
  rw [Bool.and_eq_true] at h ⊢
  constructor
  · rw [halfEquivalent_iff]
    intro S k hm
    obtain ⟨⟨d0, hr0⟩, hk⟩ := (mem_consumers_iff A r S k).mp hm
    obtain ⟨out, r1, e1⟩ := half_step A hd s2c r q h.1 S k d0 hr0 hk
    have hlt : k < S.2.length := by
      by_contra hlt
      rw [List.getElem?_eq_none (by simpa using hlt)] at hk
      cases hk
    obtain ⟨d', r2, e2⟩ := stepClosed_set A R hstep q q' e (S.1, S.2.set k q) k out r1
      (List.getElem?_set_self hlt)
    simp only [List.set_set] at r2
    refine ⟨d', (AList.lookup_eq_some_iff_mem hd).mpr r2, ?_⟩
    rw [← hresp out d' e2, e1]
    unfold clsOfKey
    rw [(AList.lookup_eq_some_iff_mem hd).mpr hr0]; rfl
  · rw [halfEquivalent_iff]
    intro S k hm
    obtain ⟨⟨d', hr'⟩, hk⟩ := (mem_consumers_iff A q' S k).mp hm
    have hlt : k < S.2.length := by
      by_contra hlt
      rw [List.getElem?_eq_none (by simpa using hlt)] at hk
      cases hk
    obtain ⟨d, r1, e1⟩ := stepClosed_set A R hstep q' q (hsym _ _ e) S k d' hr' hk
    obtain ⟨out, r2, e2⟩ := half_step A hd s2c q r h.2 (S.1, S.2.set k q) k d r1
      (List.getElem?_set_self hlt)
    simp only [List.set_set] at r2
    refine ⟨out, (AList.lookup_eq_some_iff_mem hd).mpr r2, ?_⟩
    rw [e2, ← hresp d' d e1]
    unfold clsOfKey
    rw [(AList.lookup_eq_some_iff_mem hd).mpr hr']; rfl

theorem compat_of_bisim (A : DFTA σ Q) (hd : A.Det) (R : Q → Q → Prop)
    (hsym : ∀ q q', R q q' → R q' q) (hstep : StepClosed A R) : Compat A R := by
  intro s2c hresp r q q' e
  rw [Bool.eq_iff_iff]
  exact ⟨areEquivalent_of_bisim A hd R hsym hstep s2c hresp r q q' e,
    areEquivalent_of_bisim A hd R hsym hstep s2c hresp r q' q (hsym _ _ e)⟩

/-! ### trim automata and an automaton `B` with the same language -/

/-- "reduced": every state mentioned is reachable and every reachable state is productive
    (`productive` = the backward fix-point `reduce` computes) -/
def Trim (A : DFTA σ Q) : Prop := AllReach A ∧ ∀ q ∈ A.states, q ∈ A.productive

/-- induction along `productive`: a predicate that holds for the final states and goes from
    the target of a rule to each of its arguments holds for all productive states -/
theorem productive_induction (A : DFTA σ Q) (C : Q → Prop) (hF : ∀ q ∈ A.finals, C q)
    (hC : ∀ l pre a post d, ((l, pre ++ a :: post), d) ∈ A.rules → C d → C a) :
    ∀ q ∈ A.productive, C q := by
  refine (productive_spec A C hF ?_).1.2.2.1
  intro l args d hr hd a ha
  obtain ⟨pre, post, e⟩ := List.append_of_mem ha
  subst e
  exact hC l pre a post d hr hd

/-- two states of `A` that `B` cannot tell apart: trees read into them by `A` are read into
    the same state by `B` -/
def SameIn (A : DFTA σ Q) (B : DFTA σ Q₂) (q q' : Q) : Prop :=
  ∃ t t', run A t = some q ∧ run A t' = some q' ∧ run B t = run B t'

theorem sameIn_symm (A : DFTA σ Q) (B : DFTA σ Q₂) (q q' : Q) (h : SameIn A B q q') :
    SameIn A B q' q := by
  obtain ⟨t, t', h1, h2, h3⟩ := h
  exact ⟨t', t, h2, h1, h3.symm⟩

theorem accepts_congr (B : DFTA σ Q₂) (t t' : Tree σ) (h : run B t = run B t') :
    B.accepts t = B.accepts t' := by
  unfold accepts; rw [h]

/-- the surrounding tree for a rule of `A` and one of its argument positions -/
theorem exists_context (A : DFTA σ Q) (hd : A.Det) (hall : AllReach A) (l : σ) (pre post : List Q)
    (a d : Q) (hr : ((l, pre ++ a :: post), d) ∈ A.rules) :
    ∃ xs ys, runList A xs = some pre ∧ runList A ys = some post := by
  have hargs := (mem_allStates_of_rule A hr).2
  obtain ⟨xs, hxs⟩ := exists_trees A hd pre
    (fun q hq => hall q (hargs q (List.mem_append_left _ hq)))
  obtain ⟨ys, hys⟩ := exists_trees A hd post
    (fun q hq => hall q (hargs q (List.mem_append_right _ (List.mem_cons_of_mem _ hq))))
  exact ⟨xs, ys, hxs, hys⟩

/-- a tree read into a productive state of `A` is read into some state by `B` -/
theorem run_defined_of_productive (A : DFTA σ Q) (B : DFTA σ Q₂) (hd : A.Det) (hall : AllReach A)
    (hl : ∀ t, B.accepts t = A.accepts t) :
    ∀ q ∈ A.productive, ∀ t, run A t = some q → ∃ b, run B t = some b := by
  apply productive_induction
  · intro q hq t ht
    have : B.accepts t = true := by rw [hl, accepts_iff]; exact ⟨q, ht, hq⟩
    obtain ⟨b, hb, _⟩ := (accepts_iff B t).mp this
    exact ⟨b, hb⟩
  · intro l pre a post d hr ih t ht
    obtain ⟨xs, ys, hxs, hys⟩ := exists_context A hd hall l pre post a d hr
    have hT : run A (.node l (xs ++ t :: ys)) = some d := by
      rw [run_node_mid, hxs, ht, hys]
      exact (read_eq_some_iff A hd _ _ _).mpr hr
    obtain ⟨b, hb⟩ := ih _ hT
    rw [run_node_mid] at hb
    cases hB : run B t with
    | some b' => exact ⟨b', rfl⟩
    | none =>
      rw [hB] at hb
      cases h1 : runList B xs <;> rw [h1] at hb <;> simp at hb

/-- if `B` reads `t` and `t'` into the same state and `A` reads `t` into a productive state,
    then `A` reads `t'` into some state -/
theorem run_defined_of_same (A : DFTA σ Q) (B : DFTA σ Q₂) (hd : A.Det) (hall : AllReach A)
    (hl : ∀ t, B.accepts t = A.accepts t) :
    ∀ q ∈ A.productive, ∀ t t', run A t = some q → run B t = run B t' → ∃ q', run A t' = some q' := by
  apply productive_induction
  · intro q hq t t' ht hB
    have h1 : A.accepts t = true := by rw [accepts_iff]; exact ⟨q, ht, hq⟩
    have h2 : A.accepts t' = true := by rw [← hl, ← accepts_congr B t t' hB, hl]; exact h1
    obtain ⟨q', hq', _⟩ := (accepts_iff A t').mp h2
    exact ⟨q', hq'⟩
  · intro l pre a post d hr ih t t' ht hB
    obtain ⟨xs, ys, hxs, hys⟩ := exists_context A hd hall l pre post a d hr
    have hT : run A (.node l (xs ++ t :: ys)) = some d := by
      rw [run_node_mid, hxs, ht, hys]
      exact (read_eq_some_iff A hd _ _ _).mpr hr
    have hBT : run B (.node l (xs ++ t :: ys)) = run B (.node l (xs ++ t' :: ys)) := by
      rw [run_node_mid, run_node_mid, hB]
    obtain ⟨d', hd'⟩ := ih _ _ hT hBT
    rw [run_node_mid, hxs] at hd'
    cases hA : run A t' with
    | some q' => exact ⟨q', rfl⟩
    | none => rw [hA] at hd'; simp at hd'

/-- `SameIn` is a bisimulation of a trim `A` -/
theorem sameIn_stepClosed (A : DFTA σ Q) (B : DFTA σ Q₂) (hd : A.Det) (htrim : Trim A)
    (hl : ∀ t, B.accepts t = A.accepts t) : StepClosed A (SameIn A B) := by
  rintro q q' ⟨t, t', ht, ht', hB⟩ l pre post d hr
  obtain ⟨xs, ys, hxs, hys⟩ := exists_context A hd htrim.1 l pre post q d hr
  have hT : run A (.node l (xs ++ t :: ys)) = some d := by
    rw [run_node_mid, hxs, ht, hys]
    exact (read_eq_some_iff A hd _ _ _).mpr hr
  have hBT : run B (.node l (xs ++ t :: ys)) = run B (.node l (xs ++ t' :: ys)) := by
    rw [run_node_mid, run_node_mid, hB]
  have hdp : d ∈ A.productive := htrim.2 d (htrim.1 d (mem_allStates_of_rule A hr).1)
  obtain ⟨d', hd'⟩ := run_defined_of_same A B hd htrim.1 hl d hdp _ _ hT hBT
  refine ⟨d', ?_, _, _, hT, hd', hBT⟩
  rw [run_node_mid, hxs, ht', hys] at hd'
  exact (read_eq_some_iff A hd _ _ _).mp hd'

theorem sameIn_initResp (A : DFTA σ Q) (B : DFTA σ Q₂) (hd : A.Det)
    (hl : ∀ t, B.accepts t = A.accepts t) : InitResp A (SameIn A B) := by
  rintro q q' ⟨t, t', ht, ht', hB⟩
  constructor
  · have h1 := mem_states_of_run A hd t q ht
    have h2 := mem_states_of_run A hd t' q' ht'
    exact ⟨fun _ => h2, fun _ => h1⟩
  · have h := accepts_congr B t t' hB
    rw [hl, hl] at h
    unfold accepts at h
    rw [ht, ht'] at h
    simpa using h

/-! ### minimality -/

/-- **minimality.** For a trim deterministic `A`, whatever deterministic `B` has the same
    language has at least as many (reachable) states as the automaton `minimise` returns. -/
theorem minimiseCore_minimal {X : Type} [DecidableEq X] (f : List Q → X)
    (hf : ∀ a b, f a = f b → a = b)
    (A : DFTA σ Q) (hd : A.Det) (htrim : Trim A) (cls0 cls1 : List Q) (h01 : InitOK A cls0 cls1)
    (fuel : Nat) (M : DFTA σ X) (h : minimiseCore f A cls0 cls1 fuel = some M)
    (B : DFTA σ Q₂) (hb : B.Det) (hl : ∀ t, B.accepts t = A.accepts t) :
    numStates M ≤ numStates B := by
  obtain ⟨st, hst, e⟩ := minimiseCore_eq f A cls0 cls1 fuel M h
  rw [minimiseState_eq] at hst
  have hE : Compat A (SameIn A B) :=
    compat_of_bisim A hd _ (sameIn_symm A B) (sameIn_stepClosed A B hd htrim hl)
  obtain ⟨hp, hfix⟩ := minLoop_spec A _ hE fuel _ st
    (pinv_init A _ (sameIn_initResp A B hd hl) cls0 cls1 h01) hst
  -- the run of the result is the class of the run of `A`
  have hcert := cert_of_fix A hd _ st f hf hp hfix htrim.1
  have hrun : ∀ t, run M t = (run A t).map (fun q => f (clsTuple st q)) := by
    intro t; rw [e]
    exact (run_quotient A hd _ _ (allStates_subset_stateSet A) hcert t).1
  have hdM : M.Det := by rw [e]; exact AList.keys_nodup_ofList _
  have hsplit : ∀ t m, run M t = some m → ∃ q, run A t = some q ∧ f (clsTuple st q) = m := by
    intro t m hm
    rw [hrun] at hm
    cases hq : run A t with
    | none => rw [hq] at hm; cases hm
    | some q =>
      rw [hq] at hm
      exact ⟨q, rfl, Option.some.inj hm⟩
  unfold numStates
  apply length_le_of_inj_rel (fun m b => ∃ t, run M t = some m ∧ run B t = some b)
    M.states B.states (states_nodup M hdM)
  · intro m hm
    obtain ⟨t, ht⟩ := (mem_states_iff M hdM m).mp hm
    obtain ⟨q, hq, _⟩ := hsplit t m ht
    obtain ⟨b, hb'⟩ := run_defined_of_productive A B hd htrim.1 hl q
      (htrim.2 q (mem_states_of_run A hd t q hq)) t hq
    exact ⟨b, mem_states_of_run B hb t b hb', t, ht, hb'⟩
  · rintro m m' b _ _ ⟨t, ht, htb⟩ ⟨t', ht', htb'⟩
    obtain ⟨q, hq, e1⟩ := hsplit t m ht
    obtain ⟨q', hq', e2⟩ := hsplit t' m' ht'
    have hs : SameIn A B q q' := ⟨t, t', hq, hq', by rw [htb, htb']⟩
    rw [← e1, ← e2, clsTuple_congr st q q' (hp.resp q q' hs)]

/-! ### `reduce` returns a trim automaton -/

theorem rule_of_run (A : DFTA σ Q) (t : Tree σ) (q : Q) (h : run A t = some q) :
    ∃ l args, ((l, args), q) ∈ A.rules := by
  cases t with
  | node l ks =>
    rw [run_node] at h
    cases hqs : runList A ks with
    | none => rw [hqs] at h; cases h
    | some qs =>
      rw [hqs] at h
      exact ⟨l, qs, AList.lookup_some_mem h⟩

theorem mem_allStates_iff (A : DFTA σ Q) (q : Q) :
    q ∈ allStates A ↔ (∃ l args d, ((l, args), d) ∈ A.rules ∧ (q = d ∨ q ∈ args)) ∨ q ∈ A.finals := by
  unfold allStates
  simp only [List.mem_append, List.mem_flatMap, List.mem_cons]
  constructor
  · rintro (⟨⟨⟨l, args⟩, d⟩, hr, h⟩ | h)
    · exact Or.inl ⟨l, args, d, hr, h⟩
    · exact Or.inr h
  · rintro (⟨l, args, d, hr, h⟩ | h)
    · exact Or.inl ⟨_, hr, h⟩
    · exact Or.inr h

theorem allReach_removeUnreachable (A : DFTA σ Q) (hd : A.Det) : AllReach (removeUnreachable A) := by
  have hst : ∀ q, q ∈ A.states → q ∈ (removeUnreachable A).states := by
    intro q hq
    obtain ⟨t, ht⟩ := (mem_states_iff A hd q).mp hq
    exact mem_states_of_run _ (removeUnreachable_det A hd) t q (by rw [run_removeUnreachable A hd]; exact ht)
  intro q hq
  apply hst
  rcases (mem_allStates_iff _ q).mp hq with ⟨l, args, d, hr, h⟩ | h
  · have := (List.mem_filter.mp hr).2
    simp only [Bool.and_eq_true, decide_eq_true_eq, List.all_eq_true] at this
    rcases h with e | e
    · rw [e]; exact this.1
    · exact this.2 q e
  · have := (List.mem_filter.mp h).2
    simpa using this

theorem productive_removeUnproductive (A : DFTA σ Q) (q : Q) :
    q ∈ (removeUnproductive A).productive ↔ q ∈ A.productive := by
  have h21 : ∀ q ∈ (removeUnproductive A).productive, q ∈ A.productive := by
    refine (productive_spec (removeUnproductive A) (fun q => q ∈ A.productive) ?_ ?_).1.2.2.1
    · intro q hq; exact finals_subset_productive A q hq
    · intro l args d hr hdp a ha
      exact productive_closed A (List.mem_filter.mp hr).1 hdp a ha
  have h12 : ∀ q ∈ A.productive, q ∈ (removeUnproductive A).productive := by
    refine (productive_spec A (fun q => q ∈ (removeUnproductive A).productive) ?_ ?_).1.2.2.1
    · intro q hq; exact finals_subset_productive (removeUnproductive A) q hq
    · intro l args d hr hdp a ha
      have hr' : ((l, args), d) ∈ (removeUnproductive A).rules :=
        List.mem_filter.mpr ⟨hr, by simpa using h21 d hdp⟩
      exact productive_closed _ hr' hdp a ha
  exact ⟨h21 q, h12 q⟩

theorem trim_removeUnproductive (A : DFTA σ Q) (hd : A.Det) (hall : AllReach A) :
    Trim (removeUnproductive A) := by
  have hd2 := removeUnproductive_det A hd
  -- a productive reachable state of `A` is still reachable
  have hkeep : ∀ q, q ∈ A.states → q ∈ A.productive → q ∈ (removeUnproductive A).states := by
    intro q hq hp
    obtain ⟨t, ht⟩ := (mem_states_iff A hd q).mp hq
    apply mem_states_of_run _ hd2 t q
    apply run_restrict A (removeUnproductive A) (fun q => q ∈ A.productive) _ t q ht hp
    intro l qs q' hr hp'
    refine ⟨productive_closed A (AList.lookup_some_mem hr) hp', ?_⟩
    apply (AList.lookup_filter _ _ hd _ _).mpr
    exact ⟨hr, by simpa using hp'⟩
  constructor
  · intro q hq
    rcases (mem_allStates_iff _ q).mp hq with ⟨l, args, d, hr, h⟩ | h
    · obtain ⟨hr1, hr2⟩ := List.mem_filter.mp hr
      have hdp : d ∈ A.productive := by simpa using hr2
      rcases h with e | e
      · rw [e]; exact hkeep d (hall d (mem_allStates_of_rule A hr1).1) hdp
      · exact hkeep q (hall q ((mem_allStates_of_rule A hr1).2 q e)) (productive_closed A hr1 hdp q e)
    · exact hkeep q (hall q (List.mem_append_right _ h)) (finals_subset_productive A q h)
  · intro q hq
    rw [productive_removeUnproductive]
    obtain ⟨t, ht⟩ := (mem_states_iff _ hd2 q).mp hq
    obtain ⟨l, args, hr⟩ := rule_of_run _ t q ht
    simpa using (List.mem_filter.mp hr).2

/-- `reduce` returns a trim automaton: all states reachable and productive -/
theorem trim_reduce (A : DFTA σ Q) (hd : A.Det) : Trim (reduce A) :=
  trim_removeUnproductive _ (removeUnreachable_det A hd) (allReach_removeUnreachable A hd)

end DFTA
end PS
