/-
  C13, part 18: TERMINATION of `TTCFG.clean()` (fuel adequacy of the model, ttcfg.py:206-259) on every
  table whose machine of partial derivations has a rank: a function of the configuration
  (non-terminal, pending stack) that decreases along every step `clean()` follows.

  * `reachLoop_terminates`  pass 1 (no de-duplication: it walks every partial derivation) ends within
        `satBound b (rk start)` iterations, `b` = longest row;
  * `passLoop_terminates`   so does every inner pass;
  * `passLoop_measure`      a pass that reports a change removed a non-terminal, so there are at most
        `|non-terminals| + 1` passes;
  * `clean_terminates`      with `fuel ≥ satBound b (rk start) + |rules| + 1` the model of `clean()`
        does not run out of fuel.
-/
import PS.Proofs.TtcfgCleanLang
import PS.Proofs.TtcfgBuildTerm
import PS.Proofs.TtcfgCountR
import Mathlib.Data.List.Perm.Subperm
namespace PS.T
open PS PS.G

theorem length_le_of_nodup_subset' {α : Type} {l m : List α} (hnd : l.Nodup) (hs : ∀ x ∈ l, x ∈ m) :
    l.length ≤ m.length :=
  (List.subperm_of_subset hnd hs).length_le

section AL
variable {κ ν : Type} [DecidableEq κ]

theorem erase_of_not_contains (k : κ) : ∀ d : AList κ ν, AList.lookup k d = none → AList.erase k d = d
  | [], _ => rfl
  | (k2, v2) :: r, h => by
    by_cases h2 : k2 = k
    · simp [AList.lookup, h2] at h
    · simp only [AList.lookup, h2, if_false] at h
      simp [AList.erase, h2, erase_of_not_contains k r h]

theorem keys_erase_length (k : κ) : ∀ (d : AList κ ν) (v : ν), AList.lookup k d = some v →
    (AList.keys (AList.erase k d)).length + 1 = (AList.keys d).length
  | [], _, h => by simp [AList.lookup] at h
  | (k2, v2) :: r, v, h => by
    by_cases h2 : k2 = k
    · simp [AList.erase, AList.keys, h2]
    · simp only [AList.lookup, h2, if_false] at h
      have := keys_erase_length k r v h
      simp only [AList.erase, h2, if_false, AList.keys, List.map_cons, List.length_cons] at this ⊢
      omega

end AL

variable {S T : Type} [DecidableEq S] [DecidableEq T]

/-! ### pass 1 -/

/-- **pass 1 ends** within the bound of the pending configurations -/
theorem reachLoop_terminates (G : TT S T) (b : Nat) (hb : ∀ e ∈ G.rules, e.2.length ≤ b) (hr : rowsNodup G = true)
    (rk : CConfig S T → Nat) (hdec : ∀ c d, CStep G c d → rk d < rk c) :
    ∀ (fuel : Nat) (todo : List (CConfig S T)) (nr : Marks S T), (∀ c ∈ todo, inRules G c.1 = true) →
      (todo.map (fun c => satBound b (rk c))).sum ≤ fuel → ∃ nr', reachLoop G fuel todo nr = .ok nr'
  | fuel, [], nr, _, _ => by cases fuel <;> exact ⟨nr, by simp [reachLoop]⟩
  | 0, c :: todo, _, _, h => by
    simp only [List.map_cons, List.sum_cons] at h
    have := satBound_pos b (rk c)
    omega
  | fuel + 1, (rule, info) :: todo, nr, hin, h => by
    simp only [List.map_cons, List.sum_cons] at h
    rw [reachLoop]
    obtain ⟨row, hrow⟩ := lookup_of_contains (hin _ (List.mem_cons_self ..))
    simp only at hrow
    simp only [hrow]
    have hmem := AList.lookup_some_mem hrow
    have hrn : (AList.keys row).Nodup := rowsNodupT_of G hr _ hmem
    generalize hpu : List.filterMap _ row = pushes
    have hpush : ∀ c ∈ pushes, inRules G c.1 = true ∧ rk c < rk (rule, info) := by
      intro c hc
      rw [← hpu, List.mem_filterMap] at hc
      obtain ⟨r, hrm, e⟩ := hc
      by_cases hi : inRules G (deriveWith info rule r.2.1 r.2.2).2 = true
      · simp only [hi, if_true, Option.some.injEq] at e
        subst e
        refine ⟨hi, hdec _ _ ?_⟩
        have hl : G.rule? rule r.1 = some (r.2.1, r.2.2) := by
          unfold TT.rule?; rw [hrow]; exact AList.lookup_of_mem_nodup hrn hrm
        exact CStep.mk rule info r.1 r.2.1 r.2.2 hl hi
      · simp [hi] at e
    have hlen : pushes.length ≤ b := by
      rw [← hpu]; exact Nat.le_trans (List.length_filterMap_le _ _) (hb _ hmem)
    apply reachLoop_terminates G b hb hr rk hdec fuel
    · intro c hc
      rcases List.mem_append.mp hc with h1 | h1
      · exact (hpush c (List.mem_reverse.mp h1)).1
      · exact hin c (List.mem_cons_of_mem _ h1)
    · rw [List.map_append, List.sum_append, List.map_reverse, List.sum_reverse]
      have hpos := satBound_pos b (rk (rule, info))
      cases hrk : rk (rule, info) with
      | zero =>
        have hnil : pushes = [] := by
          cases hp : pushes with
          | nil => rfl
          | cons p ps =>
            have := (hpush p (by rw [hp]; exact List.mem_cons_self ..)).2
            omega
        rw [hnil]
        simp only [List.map_nil, List.sum_nil]
        omega
      | succ n =>
        rw [hrk] at h
        simp only [satBound] at h
        have hsum := sum_map_le (fun c : CConfig S T => satBound b (rk c)) (satBound b n) pushes
          (fun p hp => satBound_mono _ _ _ (by have := (hpush p hp).2; omega))
        have := Nat.mul_le_mul_right (satBound b n) hlen
        omega

/-! ### the inner passes -/

/-- the marks are sets of at most `b` symbols under distinct keys -/
structure TInv (b : Nat) (nr : Marks S T) : Prop where
  keys : (AList.keys nr).Nodup
  len : ∀ rule l, AList.lookup rule nr = some l → l.length ≤ b

theorem tinv_erase (b : Nat) (nr : Marks S T) (rule : NT S T) (h : TInv b nr) : TInv b (AList.erase rule nr) := by
  refine ⟨(keys_erase_sublist rule nr).nodup h.keys, ?_⟩
  intro rule' l hl
  by_cases he : rule' = rule
  · subst he; rw [lookup_erase_self _ _ h.keys] at hl; cases hl
  · rw [lookup_erase_ne _ he] at hl; exact h.len rule' l hl

/-- one symbol of the snapshot: invariant, pushes, measure -/
theorem passStep_term (G : TT S T) (b : Nat) (rule : NT S T) (info : List (Ty × S))
    (st : Marks S T × Bool × List (CConfig S T)) (P : Sym) (hinv : TInv b st.1)
    (hJ : AList.lookup rule st.1 = none → st.2.1 = true) :
    TInv b (passStep G rule info st P).1 ∧
    (AList.lookup rule (passStep G rule info st P).1 = none → (passStep G rule info st P).2.1 = true) ∧
    (passStep G rule info st P).2.2.length ≤ st.2.2.length + 1 ∧
    (∀ c ∈ (passStep G rule info st P).2.2, c ∈ st.2.2 ∨ (CStep G (rule, info) c ∧ inRules G c.1 = true)) ∧
    (AList.keys (passStep G rule info st P).1).length + (if (passStep G rule info st P).2.1 then 1 else 0) ≤
      (AList.keys st.1).length + (if st.2.1 then 1 else 0) := by
  unfold passStep
  cases hrule : G.rule? rule P with
  | none => simp only; exact ⟨hinv, hJ, by omega, fun c hc => Or.inl hc, Nat.le_refl _⟩
  | some val =>
    obtain ⟨args, s⟩ := val
    simp only
    by_cases hcond : (!(AList.contains (deriveWith info rule args s).2 st.1) && inRules G (deriveWith info rule args s).2 &&
        decide ((deriveWith info rule args s).1.length ≥ info.length)) = true
    · simp only [hcond, if_true]
      cases hl : AList.lookup rule st.1 with
      | none =>
        simp only [Option.getD_none, List.erase_nil, List.isEmpty_nil, if_true]
        refine ⟨tinv_erase b _ rule hinv, by intro _; simp, by omega, fun c hc => Or.inl hc, ?_⟩
        rw [erase_of_not_contains rule st.1 hl, hJ hl]
        simp
      | some l =>
        simp only [Option.getD_some]
        by_cases hemp : (l.erase P).isEmpty = true
        · simp only [hemp, if_true]
          refine ⟨tinv_erase b _ rule hinv, by intro _; simp, by omega, fun c hc => Or.inl hc, ?_⟩
          have := keys_erase_length rule st.1 l hl
          by_cases hch : st.2.1 = true <;> simp [hch] <;> omega
        · simp only [hemp, Bool.false_eq_true, if_false]
          refine ⟨⟨nodup_insert' _ _ _ hinv.keys, ?_⟩, ?_, by omega, fun c hc => Or.inl hc, ?_⟩
          · intro rule' l' hl'
            rw [AList.lookup_insert] at hl'
            by_cases he : rule' = rule
            · simp only [he, if_true, Option.some.injEq] at hl'
              subst hl'
              exact Nat.le_trans (List.length_erase_le ..) (hinv.len rule l hl)
            · simp only [he, if_false] at hl'; exact hinv.len rule' l' hl'
          · intro hn; rw [AList.lookup_insert_self] at hn; cases hn
          · rw [keys_insert']
            simp [contains_of_lookup hl]
    · simp only [hcond, Bool.false_eq_true, if_false]
      by_cases hin : inRules G (deriveWith info rule args s).2 = true
      · simp only [hin, if_true]
        refine ⟨hinv, hJ, by simp, ?_, Nat.le_refl _⟩
        intro c hc
        rcases List.mem_append.mp hc with h1 | h1
        · exact Or.inl h1
        · simp only [List.mem_singleton] at h1
          subst h1
          exact Or.inr ⟨CStep.mk rule info P args s hrule hin, hin⟩
      · simp only [hin, Bool.false_eq_true, if_false]
        exact ⟨hinv, hJ, by omega, fun c hc => Or.inl hc, Nat.le_refl _⟩

theorem passFold_term (G : TT S T) (b : Nat) (rule : NT S T) (info : List (Ty × S)) :
    ∀ (L : List Sym) (st : Marks S T × Bool × List (CConfig S T)), TInv b st.1 →
      (AList.lookup rule st.1 = none → st.2.1 = true) →
      TInv b (L.foldl (passStep G rule info) st).1 ∧
      (L.foldl (passStep G rule info) st).2.2.length ≤ st.2.2.length + L.length ∧
      (∀ c ∈ (L.foldl (passStep G rule info) st).2.2, c ∈ st.2.2 ∨ (CStep G (rule, info) c ∧ inRules G c.1 = true)) ∧
      (AList.keys (L.foldl (passStep G rule info) st).1).length + (if (L.foldl (passStep G rule info) st).2.1 then 1 else 0) ≤
        (AList.keys st.1).length + (if st.2.1 then 1 else 0)
  | [], st, h, _ => ⟨h, by simp, fun c hc => Or.inl hc, Nat.le_refl _⟩
  | P :: L, st, h, hJ => by
    rw [List.foldl_cons]
    obtain ⟨j1, j2, j3, j4, j5⟩ := passStep_term G b rule info st P h hJ
    obtain ⟨i1, i2, i3, i4⟩ := passFold_term G b rule info L _ j1 j2
    refine ⟨i1, ?_, ?_, Nat.le_trans i4 j5⟩
    · simp only [List.length_cons]; omega
    · intro c hc
      rcases i3 c hc with h1 | h1
      · exact j4 c h1
      · exact Or.inr h1

/-- **an inner pass ends**, keeps the invariant, and - if it reports a change that was not there
    before - has removed a non-terminal -/
theorem passLoop_terminates (G : TT S T) (b : Nat) (rk : CConfig S T → Nat) (hdec : ∀ c d, CStep G c d → rk d < rk c) :
    ∀ (fuel : Nat) (todo : List (CConfig S T)) (nr : Marks S T) (ch : Bool), TInv b nr →
      (todo.map (fun c => satBound b (rk c))).sum ≤ fuel →
      ∃ res, passLoop G fuel todo nr ch = .ok res ∧ TInv b res.1 ∧
        (AList.keys res.1).length + (if res.2 then 1 else 0) ≤ (AList.keys nr).length + (if ch then 1 else 0)
  | fuel, [], nr, ch, hinv, _ => by
    cases fuel <;> exact ⟨(nr, ch), by simp [passLoop], hinv, Nat.le_refl _⟩
  | 0, c :: todo, _, _, _, h => by
    simp only [List.map_cons, List.sum_cons] at h
    have := satBound_pos b (rk c)
    omega
  | fuel + 1, (rule, info) :: todo, nr, ch, hinv, h => by
    simp only [List.map_cons, List.sum_cons] at h
    have hpos := satBound_pos b (rk (rule, info))
    rw [passLoop]
    cases hl : AList.lookup rule nr with
    | none =>
      simp only
      exact passLoop_terminates G b rk hdec fuel todo nr ch hinv (by omega)
    | some l =>
      cases l with
      | nil =>
        simp only
        obtain ⟨res, r1, r2, r3⟩ := passLoop_terminates G b rk hdec fuel todo (AList.erase rule nr) true
          (tinv_erase b nr rule hinv) (by omega)
        refine ⟨res, r1, r2, ?_⟩
        have := keys_erase_length rule nr [] hl
        have r3' : (AList.keys res.1).length + (if res.2 then 1 else 0) ≤ (AList.keys (AList.erase rule nr)).length + 1 := by
          simpa using r3
        by_cases hch : ch = true <;> simp [hch] <;> omega
      | cons p ps =>
        simp only
        obtain ⟨i1, i2, i3, i4⟩ := passFold_term G b rule info (p :: ps) (nr, ch, []) hinv
          (by intro hn; simp only at hn; rw [hl] at hn; cases hn)
        obtain ⟨res, r1, r2, r3⟩ := passLoop_terminates G b rk hdec fuel
          (((p :: ps).foldl (passStep G rule info) (nr, ch, [])).2.2.reverse ++ todo)
          ((p :: ps).foldl (passStep G rule info) (nr, ch, [])).1
          ((p :: ps).foldl (passStep G rule info) (nr, ch, [])).2.1 i1 (by
            rw [List.map_append, List.sum_append, List.map_reverse, List.sum_reverse]
            have hlen : ((p :: ps).foldl (passStep G rule info) (nr, ch, [])).2.2.length ≤ b := by
              have := hinv.len rule (p :: ps) hl
              simp only [List.length_nil, Nat.zero_add] at i2
              omega
            have hlt : ∀ c ∈ ((p :: ps).foldl (passStep G rule info) (nr, ch, [])).2.2, rk c < rk (rule, info) := by
              intro c hc
              rcases i3 c hc with h1 | h1
              · cases h1
              · exact hdec _ _ h1.1
            cases hrk : rk (rule, info) with
            | zero =>
              have hnil : ((p :: ps).foldl (passStep G rule info) (nr, ch, [])).2.2 = [] := by
                cases hp : ((p :: ps).foldl (passStep G rule info) (nr, ch, [])).2.2 with
                | nil => rfl
                | cons q qs =>
                  have := hlt q (by rw [hp]; exact List.mem_cons_self ..)
                  omega
              rw [hnil]
              simp only [List.map_nil, List.sum_nil]
              omega
            | succ n =>
              rw [hrk] at h
              simp only [satBound] at h
              have hsum := sum_map_le (fun c : CConfig S T => satBound b (rk c)) (satBound b n) _
                (fun q hq => satBound_mono _ _ _ (by have := hlt q hq; omega))
              have := Nat.mul_le_mul_right (satBound b n) hlen
              omega)
        exact ⟨res, r1, r2, Nat.le_trans r3 i4⟩

/-- **`while clean(): pass` ends** within `|non-terminals marked| + 1` passes -/
theorem passes_terminates (G : TT S T) (b : Nat) (rk : CConfig S T → Nat) (hdec : ∀ c d, CStep G c d → rk d < rk c)
    (fuel : Nat) (hf : satBound b (rk (G.start, [])) ≤ fuel) :
    ∀ (n : Nat) (nr : Marks S T), TInv b nr → (AList.keys nr).length < n → ∃ nr', passes G fuel n nr = .ok nr'
  | 0, _, _, h => by omega
  | n + 1, nr, hinv, hn => by
    rw [passes]
    obtain ⟨res, r1, r2, r3⟩ := passLoop_terminates G b rk hdec fuel [(G.start, [])] nr false hinv (by simpa using hf)
    obtain ⟨nr1, ch1⟩ := res
    rw [r1]
    cases ch1 with
    | false => exact ⟨nr1, rfl⟩
    | true =>
      simp only
      simp only [if_true, Bool.false_eq_true, if_false] at r3
      exact passes_terminates G b rk hdec fuel hf n nr1 r2 (by omega)

/-! ### the marks of pass 1 are sets of symbols of the rows -/

omit [DecidableEq S] [DecidableEq T] in
theorem addAll_sub : ∀ (row : Row S T) (acc : List Sym) (x : Sym), x ∈ addAll row acc → x ∈ acc ∨ ∃ r ∈ row, r.1 = x
  | [], acc, x, h => Or.inl h
  | r :: row, acc, x, h => by
    unfold addAll at h
    rw [List.foldl_cons] at h
    by_cases hc : acc.contains r.1 = true
    · simp only [hc, if_true] at h
      rcases addAll_sub row acc x h with h1 | ⟨r', hr', e⟩
      · exact Or.inl h1
      · exact Or.inr ⟨r', List.mem_cons_of_mem _ hr', e⟩
    · simp only [hc, Bool.false_eq_true, if_false] at h
      rcases addAll_sub row (acc ++ [r.1]) x h with h1 | ⟨r', hr', e⟩
      · rcases List.mem_append.mp h1 with h2 | h2
        · exact Or.inl h2
        · right; exact ⟨r, List.mem_cons_self .., (List.mem_singleton.mp h2).symm⟩
      · exact Or.inr ⟨r', List.mem_cons_of_mem _ hr', e⟩

/-- every mark is a symbol of the row -/
def MarksSub (G : TT S T) (nr : Marks S T) : Prop :=
  ∀ rule l, AList.lookup rule nr = some l → ∃ row, AList.lookup rule G.rules = some row ∧ ∀ P ∈ l, ∃ r ∈ row, r.1 = P

theorem reachLoop_sub (G : TT S T) :
    ∀ (fuel : Nat) (todo : List (CConfig S T)) (nr nr' : Marks S T),
      reachLoop G fuel todo nr = .ok nr' → MarksSub G nr → MarksSub G nr'
  | fuel, [], nr, nr', h, hm => by
    cases fuel <;> (simp only [reachLoop, Res.ok.injEq] at h; subst h; exact hm)
  | 0, _ :: _, _, _, h, _ => by simp [reachLoop] at h
  | fuel + 1, (rule, info) :: todo, nr, nr', h, hm => by
    rw [reachLoop] at h
    cases hrow : AList.lookup rule G.rules with
    | none => simp [hrow] at h
    | some row =>
      simp only [hrow] at h
      refine reachLoop_sub G fuel _ _ nr' h ?_
      intro rule' l hl
      rw [AList.lookup_insert] at hl
      by_cases he : rule' = rule
      · simp only [he, if_true, Option.some.injEq] at hl
        subst hl
        refine ⟨row, by rw [he]; exact hrow, ?_⟩
        intro P hP
        rcases addAll_sub row _ P hP with h1 | h1
        · cases hl0 : AList.lookup rule nr with
          | none => simp [hl0] at h1
          | some l0 =>
            simp only [hl0, Option.getD_some] at h1
            obtain ⟨row', hr', hs⟩ := hm rule l0 hl0
            rw [hrow] at hr'
            cases hr'
            exact hs P h1
        · exact h1
      · simp only [he, if_false] at hl; exact hm rule' l hl

/-- **`clean()` does not run out of fuel** on a table with a rank, as soon as
    `fuel ≥ satBound b (rk start) + |rules| + 1` (`b` = longest row): it returns a table, or
    KeyError when the start symbol has no rule -/
theorem clean_terminates (G : TT S T) (b : Nat) (hb : ∀ e ∈ G.rules, e.2.length ≤ b) (hr : rowsNodup G = true)
    (rk : CConfig S T → Nat) (hdec : ∀ c d, CStep G c d → rk d < rk c)
    (hs : inRules G G.start = true) (fuel : Nat)
    (hf : satBound b (rk (G.start, [])) + G.rules.length + 1 ≤ fuel) : ∃ G', clean G fuel = .ok G' := by
  unfold clean
  obtain ⟨nr, hnr⟩ := reachLoop_terminates G b hb hr rk hdec fuel [(G.start, [])] []
    (by intro c hc; rw [List.mem_singleton.mp hc]; exact hs) (by simp; omega)
  rw [hnr]
  simp only
  obtain ⟨m1, _, _⟩ := reachLoop_spec G fuel _ [] nr hnr
    ⟨by simp [AList.keys], by intro r l hl; simp [AList.lookup] at hl, by intro r l hl; simp [AList.lookup] at hl,
     by intro r hc; simp [AList.contains, AList.lookup] at hc⟩
  have msub := reachLoop_sub G fuel _ [] nr hnr (by intro r l hl; simp [AList.lookup] at hl)
  have hinv : TInv b nr := by
    refine ⟨m1.keys, ?_⟩
    intro rule l hl
    obtain ⟨row, hrow, hs'⟩ := msub rule l hl
    have h1 : l.length ≤ (row.map (·.1)).length :=
      length_le_of_nodup_subset' (m1.vals rule l hl) (fun P hP => by
        obtain ⟨r, hr', e⟩ := hs' P hP
        exact List.mem_map.mpr ⟨r, hr', e⟩)
    have := hb _ (AList.lookup_some_mem hrow)
    simp only [List.length_map] at h1 this
    omega
  have hkeys : (AList.keys nr).length ≤ G.rules.length := by
    have : (AList.keys nr).length ≤ (AList.keys G.rules).length :=
      length_le_of_nodup_subset' m1.keys (fun k hk => by
        have := m1.sub k (AList.lookup_isSome_iff_mem_keys.mpr hk)
        exact AList.lookup_isSome_iff_mem_keys.mp this)
    simpa [AList.keys] using this
  obtain ⟨nr', hp⟩ := passes_terminates G b rk hdec fuel (by omega) fuel nr hinv (by omega)
  rw [hp]
  exact ⟨_, rfl⟩

end PS.T
