/-
  C05, parser, part 2: the words of the documented syntax are interpreted as written:
  `interpretWord Sy (render atom) = sem Sy atom` (also for a sub-tree word that lost its closing bracket
  to the `strip(")(")` of the enclosing pattern).
-/
import PS.Proofs.ConstraintsParseChars
set_option linter.unusedSectionVars false
namespace PS.C05
open PS PS.G

variable (Sy : Syms)

theorem stripSpace_id (w : Str) (h : ∀ c ∈ w, c ≠ ' ' ∧ c ≠ '\t' ∧ c ≠ '\n' ∧ c ≠ '\r') :
    stripChars isSpace w = w := by
  apply stripChars_id
  intro c hc
  obtain ⟨a, b, d, e⟩ := h c hc
  simp [isSpace, a, b, d, e]

theorem joinNames_ne_any {ns : List Str} (h : namesOK ns = true) : joinNames ns ≠ ['_'] := by
  intro e
  have := splitOn_joinNames h
  rw [e] at this
  simp [splitOn] at this
  rw [← this] at h
  simp [namesOK, nameOK] at h

theorem joinNames_noparen {ns : List Str} (h : namesOK ns = true) : ∀ c ∈ joinNames ns, isStripParen c = false := by
  intro c hc
  rcases joinNames_char h hc with e | e
  · subst e; rfl
  · obtain ⟨_, _, _, _, a, b, d, f, _⟩ := not_special_facts e
    simp [isStripParen, a, b, d, f]

theorem joinNames_nospace {ns : List Str} (h : namesOK ns = true) :
    ∀ c ∈ joinNames ns, c ≠ ' ' ∧ c ≠ '\t' ∧ c ≠ '\n' ∧ c ≠ '\r' := by
  intro c hc
  rcases joinNames_char h hc with e | e
  · subst e; decide
  · obtain ⟨a, b, d, f, _⟩ := not_special_facts e
    exact ⟨a, b, d, f⟩

/-- a bare or bracketed name list denotes the symbols with these names -/
theorem str2dp_names {ns : List Str} (h : namesOK ns = true) (pre post : Str)
    (hpre : ∀ c ∈ pre, isStripParen c = true) (hpost : ∀ c ∈ post, isStripParen c = true) :
    str2dp Sy (pre ++ joinNames ns ++ post) = resolveNames Sy ns.eraseDups := by
  have hs : stripChars isStripParen (pre ++ joinNames ns ++ post) = joinNames ns :=
    stripChars_mid _ pre _ post hpre hpost (joinNames_ne_nil h)
      (fun c hc => joinNames_noparen h c (List.mem_of_mem_head? hc))
      (fun c hc => joinNames_noparen h c (List.mem_of_getLast? hc))
  unfold str2dp
  have hcond : (if Sy.fixF4 then stripChars isStripParen (pre ++ joinNames ns ++ post) else pre ++ joinNames ns ++ post) ≠ ['_'] := by
    split
    · rw [hs]; exact joinNames_ne_any h
    · intro e
      -- a one-character word: it is the name list itself
      have hl := congrArg List.length e
      simp only [List.length_append, List.length_cons, List.length_nil] at hl
      have : (joinNames ns).length ≥ 1 := by
        have := joinNames_ne_nil h
        cases hj : joinNames ns with
        | nil => exact absurd hj this
        | cons _ _ => simp
      have hp : pre = [] := List.length_eq_zero_iff.mp (by omega)
      have hq : post = [] := List.length_eq_zero_iff.mp (by omega)
      subst hp; subst hq
      simp only [List.nil_append, List.append_nil] at e
      exact joinNames_ne_any h e
  rw [if_neg hcond]
  simp only [hs, splitOn_joinNames h]

theorem interp_set_names {ns : List Str} (h : namesOK ns = true) :
    interpretWord Sy (joinNames ns) = (resolveNames Sy ns.eraseDups).map .allow := by
  unfold interpretWord
  rw [stripSpace_id _ (joinNames_nospace h)]
  cases hj : joinNames ns with
  | nil => exact absurd hj (joinNames_ne_nil h)
  | cons c r =>
    have hc := joinNames_head h (c := c) (by rw [hj]; rfl)
    obtain ⟨_, _, _, _, _, _, _, _, _, h1, h2, h3, _⟩ := not_special_facts hc
    have hne : c :: r ≠ ['_'] := by rw [← hj]; exact joinNames_ne_any h
    simp only [startsWith_single, beq_iff_eq, h1.symm, h2.symm, h3.symm, hne, if_false, Bool.false_eq_true]
    rw [← hj]
    have := str2dp_names Sy h [] [] (by simp) (by simp)
    simpa using congrArg (Option.map Tok.allow) this

theorem interp_set_neg {ns : List Str} (h : namesOK ns = true) :
    interpretWord Sy ('^' :: joinNames ns) = some (match resolveNeg Sy ns with
      | none => .any
      | some S => .allow S) := by
  unfold interpretWord
  have hsp : stripChars isSpace ('^' :: joinNames ns) = '^' :: joinNames ns := by
    apply stripSpace_id
    intro c hc
    rcases List.mem_cons.mp hc with e | e
    · subst e; decide
    · exact joinNames_nospace h c e
  rw [hsp]
  simp only [startsWith_single, beq_self_eq_true, if_true, List.drop_succ_cons, List.drop_zero]
  have hs : (if Sy.fixF4 then stripChars isStripParen (joinNames ns) else joinNames ns) = joinNames ns := by
    split
    · exact stripChars_id _ _ (joinNames_noparen h)
    · rfl
  rw [hs, splitOn_joinNames h]
  unfold resolveNeg
  simp only
  split <;> rfl

/-! ### counts -/

theorem joinNames_notin {ns : List Str} (h : namesOK ns = true) (x : Char) (hx : x ∈ special) (hx' : x ≠ ',') :
    x ∉ joinNames ns := by
  intro hm
  rcases joinNames_char h hm with e | e
  · exact hx' e
  · exact e hx

/-- the part of a count word after `#`: body, operator, number -/
theorem interp_count_core (body ds : Str) (most : Bool)
    (hbs : ∀ c ∈ body, isSpace c = false) (hb2 : '<' ∉ body) (hb3 : '>' ∉ body) (hd : digitsOK ds = true) :
    interpretWord Sy ('#' :: (body ++ (if most then '<' else '>') :: '=' :: ds)) =
      (match str2dp Sy body, parseNat ds with
        | some content, some n => some (if most then .atMost content n else .atLeast content n)
        | _, _ => none) := by
  have hdc := digits_char hd
  have hb1 : ' ' ∉ body := fun hm => by have := hbs ' ' hm; simp [isSpace] at this
  have hall : ∀ c ∈ '#' :: (body ++ (if most then '<' else '>') :: '=' :: ds), isSpace c = false := by
    intro c hc
    simp only [List.mem_cons, List.mem_append] at hc
    rcases hc with hc | hc | hc | hc | hc
    · subst hc; decide
    · exact hbs c hc
    · subst hc; cases most <;> decide
    · subst hc; decide
    · have := hdc c hc
      simp only [Char.isDigit, Bool.and_eq_true, decide_eq_true_eq] at this
      simp only [isSpace, Bool.or_eq_false_iff, decide_eq_false_iff_not]
      refine ⟨⟨⟨?_, ?_⟩, ?_⟩, ?_⟩ <;> (intro e; subst e; revert this; decide)
  have hw : ∀ c ∈ body ++ (if most then '<' else '>') :: '=' :: ds, c ≠ ' ' := by
    intro c hc e
    have := hall c (List.mem_cons_of_mem _ hc)
    subst e; simp [isSpace] at this
  unfold interpretWord
  have hsp := stripChars_id isSpace _ hall
  rw [hsp]
  simp only [startsWith_single, List.drop_succ_cons, List.drop_zero]
  rw [removeChar_id ' ' _ (fun hm => hw ' ' hm rfl)]
  have hne : ('#' :: (body ++ (if most then '<' else '>') :: '=' :: ds)) ≠ ['_'] := by simp
  have hgt : ∀ c ∈ ds, c ≠ '<' ∧ c ≠ '>' := fun c hc => ⟨(digit_not (hdc c hc)).2.1, (digit_not (hdc c hc)).2.2.1⟩
  cases most with
  | true =>
    have f1 : findSub ['<', '='] (body ++ '<' :: '=' :: ds) = some body.length := findSub_at '<' '=' body ds hb2
    have f2 : findSub ['>', '='] (body ++ '<' :: '=' :: ds) = none := by
      apply findSub_none
      simp only [List.mem_append, List.mem_cons, not_or]
      exact ⟨hb3, by decide, by decide, fun hm => (hgt _ hm).2 rfl⟩
    simp only [if_true, f1, f2, hne, if_false]
    simp only [show ('^' == '#') = false by decide, show ('>' == '#') = false by decide,
      show ('#' == '#') = true by decide, Bool.false_eq_true, if_false, if_true]
    have t1 : List.take body.length (body ++ '<' :: '=' :: ds) = body := by simp
    have t2 : List.drop (body.length + 2) (body ++ '<' :: '=' :: ds) = ds := by
      have : body.length + 2 = body.length + 2 := rfl
      rw [List.drop_append]
      simp
    have t3 : (body ++ '<' :: '=' :: ds)[body.length]? = some '<' := by
      rw [List.getElem?_append_right (Nat.le_refl _)]; simp
    rw [if_neg (by simp), t1, t2, t3]
    cases str2dp Sy body <;> cases parseNat ds <;> simp
  | false =>
    have f1 : findSub ['<', '='] (body ++ '>' :: '=' :: ds) = none := by
      apply findSub_none
      simp only [List.mem_append, List.mem_cons, not_or]
      exact ⟨hb2, by decide, by decide, fun hm => (hgt _ hm).1 rfl⟩
    have f2 : findSub ['>', '='] (body ++ '>' :: '=' :: ds) = some body.length := findSub_at '>' '=' body ds hb3
    simp only [Bool.false_eq_true, if_false, f1, f2, hne]
    simp only [show ('^' == '#') = false by decide, show ('>' == '#') = false by decide,
      show ('#' == '#') = true by decide, Bool.false_eq_true, if_false, if_true]
    have t1 : List.take body.length (body ++ '>' :: '=' :: ds) = body := by simp
    have t2 : List.drop (body.length + 2) (body ++ '>' :: '=' :: ds) = ds := by
      have : body.length + 2 = body.length + 2 := rfl
      rw [List.drop_append]
      simp
    have t3 : (body ++ '>' :: '=' :: ds)[body.length]? = some '>' := by
      rw [List.getElem?_append_right (Nat.le_refl _)]; simp
    rw [if_neg (by simp), t1, t2, t3]
    cases str2dp Sy body <;> cases parseNat ds <;> simp

theorem joinNames_isSpace {ns : List Str} (h : namesOK ns = true) : ∀ c ∈ joinNames ns, isSpace c = false := by
  intro c hc
  obtain ⟨a, b, d, e⟩ := joinNames_nospace h c hc
  simp [isSpace, a, b, d, e]

theorem interp_cnt {ns : List Str} (h : namesOK ns = true) (ds : Str) (hd : digitsOK ds = true) (most : Bool) :
    interpretWord Sy (render (.cnt most ns ds)) =
      (match resolveNames Sy ns.eraseDups, parseNat ds with
        | some S, some n => some (if most then .atMost S n else .atLeast S n)
        | _, _ => none) := by
  have hb : ('(' :: (joinNames ns ++ [')'])) = ['('] ++ joinNames ns ++ [')'] := by simp
  have := interp_count_core Sy ('(' :: (joinNames ns ++ [')'])) ds most
    (by
      intro c hc
      simp only [List.mem_cons, List.mem_append, List.mem_nil_iff, or_false] at hc
      rcases hc with e | e | e
      · subst e; decide
      · exact joinNames_isSpace h c e
      · subst e; decide)
    (by
      simp only [List.mem_cons, List.mem_append, List.mem_nil_iff, or_false, not_or]
      exact ⟨by decide, joinNames_notin h '<' (by decide) (by decide), by decide⟩)
    (by
      simp only [List.mem_cons, List.mem_append, List.mem_nil_iff, or_false, not_or]
      exact ⟨by decide, joinNames_notin h '>' (by decide) (by decide), by decide⟩) hd
  rw [hb, str2dp_names Sy h ['('] [')'] (by decide) (by decide)] at this
  rw [← this]
  simp [render]

theorem interp_cntAll (ds : Str) (hd : digitsOK ds = true) (most : Bool) :
    interpretWord Sy (render (.cntAll most ds)) =
      (parseNat ds).map (fun n => if most then .atMost (Sy.prims ++ Sy.vars) n else .atLeast (Sy.prims ++ Sy.vars) n) := by
  have := interp_count_core Sy ['_'] ds most (by decide) (by decide) (by decide) hd
  have hs : str2dp Sy ['_'] = some (Sy.prims ++ Sy.vars) := by
    unfold str2dp
    have : (if Sy.fixF4 then stripChars isStripParen ['_'] else ['_']) = ['_'] := by
      split
      · decide
      · rfl
    rw [if_pos this]
  rw [hs] at this
  simp only [render]
  rw [show ('#' :: '_' :: (if most then '<' else '>') :: '=' :: ds) = '#' :: (['_'] ++ (if most then '<' else '>') :: '=' :: ds) by simp, this]
  cases parseNat ds <;> rfl

/-- a sub-tree word, with or without its closing bracket (`post = [')']` / `[]`) -/
theorem interp_sub {ns : List Str} (h : namesOK ns = true) (force : Bool) (post : Str) (hpost : post = [')'] ∨ post = []) :
    interpretWord Sy ('>' :: ((if force then [] else ['^']) ++ '(' :: (joinNames ns ++ post))) =
      (resolveNames Sy ns.eraseDups).map (fun S => if force then .forceSub S else .forbidSub S) := by
  have hp : ∀ c ∈ post, isStripParen c = true ∧ isSpace c = false := by
    intro c hc
    rcases hpost with e | e <;> subst e
    · simp only [List.mem_singleton] at hc; subst hc; decide
    · cases hc
  have hall : ∀ c ∈ '>' :: ((if force then [] else ['^']) ++ '(' :: (joinNames ns ++ post)), isSpace c = false := by
    intro c hc
    simp only [List.mem_cons, List.mem_append] at hc
    rcases hc with e | e | e | e | e
    · subst e; decide
    · cases force
      · simp only [Bool.false_eq_true, if_false, List.mem_singleton] at e; subst e; decide
      · simp at e
    · subst e; decide
    · exact joinNames_isSpace h c e
    · exact (hp c e).2
  unfold interpretWord
  rw [stripChars_id isSpace _ hall]
  simp only [startsWith_single, show ('^' == '>') = false by decide, show ('>' == '>') = true by decide,
    Bool.false_eq_true, if_false, if_true, List.drop_succ_cons, List.drop_zero]
  have key := str2dp_names Sy h ['('] post (by decide) (fun c hc => (hp c hc).1)
  cases force with
  | true =>
    simp only [if_true, List.nil_append, startsWith_single, show ('^' == '(') = false by decide,
      Bool.false_eq_true, if_false]
    rw [show ('(' :: (joinNames ns ++ post)) = ['('] ++ joinNames ns ++ post by simp, key]
  | false =>
    simp only [Bool.false_eq_true, if_false, List.singleton_append, startsWith_single,
      show ('^' == '^') = true by decide, if_true, List.drop_succ_cons, List.drop_zero]
    rw [show ('(' :: (joinNames ns ++ post)) = ['('] ++ joinNames ns ++ post by simp, key]

theorem interp_any : interpretWord Sy ['_'] = some .any := by
  unfold interpretWord
  have : stripChars isSpace ['_'] = ['_'] := by decide
  rw [this]
  simp [startsWith_single]

end PS.C05
