/- C08, fragment grammar, part 6: `addNode` preserves the invariant `GoInv`. -/
import PS.Proofs.SplitterFrag5
namespace PS.Sp
open PS PS.G

variable {U : Type} [DecidableEq U]

theorem lay_tail_idx {lo hi : Nat} {start : UNT U} {sp : UNT (U × Nat)} {steps : List (Step U)}
    {steps' : List (Step (U × Nat))} {pend : List (UNT U × UNT (U × Nat))}
    (hp : renPath lo [(start, sp)] steps = some (hi, steps', pend)) (hsp : idx sp ≤ lo) :
    ∀ s ∈ steps'.tail, lo < idx s.1 ∧ idx s.1 ≤ hi := by
  obtain ⟨_, o2, o3, _, o5, o6⟩ := lay_own hp hsp
  intro s hs
  cases hst : steps' with
  | nil => rw [hst] at hs; cases hs
  | cons s0 t =>
    rw [hst] at hs o2 o3
    have hne : steps ≠ [] := by
      intro hnil
      have := (o6 hnil).1
      rw [hst] at this; cases this
    obtain ⟨s0', t', e1, e2⟩ := o5 hne
    rw [hst] at e1
    simp only [List.cons.injEq] at e1
    obtain ⟨rfl, rfl⟩ := e1
    simp only [List.tail_cons] at hs
    have hmem : s.1 ∈ targets t := List.mem_map.mpr ⟨s, hs, rfl⟩
    rcases o3 s.1 (by simp only [targets, List.map_cons, List.cons_append, List.mem_cons, List.mem_append]
                      exact Or.inr (Or.inl hmem)) with h | h
    · exfalso
      simp only [targets, List.map_cons, List.cons_append, List.nodup_cons, List.mem_append, not_or] at o2
      rw [e2, ← h] at o2
      exact o2.1.1 hmem
    · exact h

theorem lay_pend_idx {lo hi : Nat} {start : UNT U} {sp : UNT (U × Nat)} {steps : List (Step U)}
    {steps' : List (Step (U × Nat))} {pend : List (UNT U × UNT (U × Nat))}
    (hp : renPath lo [(start, sp)] steps = some (hi, steps', pend)) (hsp : idx sp ≤ lo) (hne : steps ≠ []) :
    ∀ e ∈ pend, lo < idx e.2 ∧ idx e.2 ≤ hi := by
  obtain ⟨_, o2, o3, _, o5, _⟩ := lay_own hp hsp
  obtain ⟨s0, t, e1, e2⟩ := o5 hne
  intro e he
  have hmem : e.2 ∈ names pend := List.mem_map.mpr ⟨e, he, rfl⟩
  rcases o3 e.2 (List.mem_append.mpr (Or.inr hmem)) with h | h
  · exfalso
    rw [e1] at o2
    simp only [targets, List.map_cons, List.cons_append, List.nodup_cons, List.mem_append, not_or] at o2
    rw [e2, ← h] at o2
    exact o2.1.2 hmem
  · exact h

theorem addNode_inv {pg : PUG U} {st st' : FragSt U} {L : List (Lay U)} {n : Node U} (hi : GoInv pg st L)
    (hfree : ∀ l ∈ L, l.n.start = n.start → l.n.steps ≠ [] ∧ n.steps ≠ [])
    (h : addNode pg st n = some st') : ∃ lay : Lay U, lay.n = n ∧ GoInv pg st' (L ++ [lay]) := by
  rw [addNode_eq] at h
  obtain ⟨a1, a2, a3, a4, a5, a6, a7, a8, a9, a10, a11, a12, a13, a14, a15, a16⟩ := alloc_spec hi n
  generalize spOf st n = sp at *
  generalize st2Of st n = st2 at *
  cases hr : renPath st2.counter [(n.start, sp)] n.steps with
  | none => rw [hr] at h; cases h
  | some r =>
  rw [hr] at h
  simp only [Option.map_some, Option.some.injEq] at h
  obtain ⟨hi', steps', pend⟩ := r
  simp only at h
  obtain ⟨o1, o2, o3, o4, o5, o6⟩ := lay_own hr a9
  have hnodT : (targets steps').Nodup := (List.nodup_append.mp o2).1
  have hnodP : (names pend).Nodup := (List.nodup_append.mp o2).2.1
  have hdisj : ∀ x, x ∈ targets steps' → x ∉ names pend := fun x hx hx' =>
    (List.nodup_append.mp o2).2.2 x hx x hx' rfl
  obtain ⟨f1, f2, f3, f4, f5⟩ := addSteps_frame n.prob steps' 0 st2
  obtain ⟨c1, c2, c3, c4, c5, c6⟩ := copyAll_spec pg pend { addSteps n.prob 0 st2 steps' with counter := hi' } hnodP
  rw [h] at c1 c2 c3 c4 c5 c6
  simp only at c1 c3 c4 c5 c6
  rw [f3] at c5
  rw [f4] at c6
  have hcnt : st'.counter = hi' := c4
  -- frame
  have frame : ∀ Y, Y ∉ targets steps' → Y ∉ names pend →
      AList.lookup Y st'.rules = AList.lookup Y st.rules ∧ AList.lookup Y st'.probs = AList.lookup Y st.probs := by
    intro Y h1 h2
    have := c1 Y h2
    have h3 := f1 Y h1
    rw [a1, a2] at h3
    exact ⟨this.1.trans h3.1, this.2.trans h3.2⟩
  have notnew : ∀ Y, Y ≠ sp → idx Y ≤ st2.counter → Y ∉ targets steps' ∧ Y ∉ names pend := by
    intro Y h1 h2
    constructor
    · intro hm
      rcases o3 Y (List.mem_append.mpr (Or.inl hm)) with h | h
      · exact h1 h
      · omega
    · intro hm
      rcases o3 Y (List.mem_append.mpr (Or.inr hm)) with h | h
      · exact h1 h
      · omega
  have hold : ∀ l ∈ L, ∀ Y, (Y = l.sp ∧ l.sp ≠ sp) ∨ (l.lo < idx Y ∧ idx Y ≤ l.hi) →
      AList.lookup Y st'.rules = AList.lookup Y st.rules ∧ AList.lookup Y st'.probs = AList.lookup Y st.probs := by
    intro l hl Y hY
    have hrng := hi.rng l hl
    have hlh := (lay_own (hi.path l hl) hrng.2.1).1
    have : Y ≠ sp ∧ idx Y ≤ st2.counter := by
      rcases hY with ⟨h1, h2⟩ | h1
      · subst h1; exact ⟨h2, by omega⟩
      · refine ⟨?_, by omega⟩
        intro he; subst he
        rcases a10 l hl with h | h <;> omega
    obtain ⟨n1, n2⟩ := notnew Y this.1 this.2
    exact frame Y n1 n2
  have hpendOK : PendOK pend := (renPath_er n.steps st2.counter [(n.start, sp)] _
    (by intro e he; simp only [List.mem_singleton] at he; subst he; exact a7) hr).2
  refine ⟨⟨n, sp, st2.counter, hi', steps', pend⟩, rfl, ?_⟩
  have hmem : ∀ l, l ∈ L ++ [(⟨n, sp, st2.counter, hi', steps', pend⟩ : Lay U)] ↔
      l ∈ L ∨ l = ⟨n, sp, st2.counter, hi', steps', pend⟩ := by
    intro l; simp
  -- the row of `sp` before the node
  have hrow : (∀ l2 ∈ L, l2.sp = sp → l2.n.steps ≠ []) →
      (AList.lookup sp st.rules).getD [] = buildR (heads L sp) ∧
      (AList.lookup sp st.probs).getD [] = buildP (heads L sp) := by
    intro H
    rcases a16 with ⟨l0, hl0, e0⟩ | ⟨hno, hlt⟩
    · have := hi.startT l0 hl0 (by intro l2 hl2 he; exact H l2 hl2 (he.trans e0))
      rw [e0] at this; exact this
    · have := hi.keys sp (Or.inr hlt)
      rw [this.1, this.2, heads_none L sp hno]
      exact ⟨rfl, rfl⟩
  constructor
  · -- path
    intro l hl
    rcases (hmem l).mp hl with hl | rfl
    · exact hi.path l hl
    · exact hr
  · -- rng
    intro l hl
    rcases (hmem l).mp hl with hl | rfl
    · have := hi.rng l hl
      exact ⟨this.1, this.2.1, by omega⟩
    · exact ⟨a8, a9, by show hi' ≤ st'.counter; omega⟩
  · -- spLook
    intro l hl
    rw [c6]
    rcases (hmem l).mp hl with hl | rfl
    · exact a6 _ _ (hi.spLook l hl)
    · exact a5
  · -- spEr
    intro l hl
    rcases (hmem l).mp hl with hl | rfl
    · exact hi.spEr l hl
    · exact a7
  · -- spIdx
    intro l hl l' hl'
    rcases (hmem l).mp hl with hl | rfl
    · rcases (hmem l').mp hl' with hl' | rfl
      · exact hi.spIdx l hl l' hl'
      · exact a10 l hl
    · rcases (hmem l').mp hl' with hl' | rfl
      · left
        have hrng := hi.rng l' hl'
        have hlh := (lay_own (hi.path l' hl') hrng.2.1).1
        simp only; omega
      · left; exact a9
  · -- nsL
    intro e he
    rw [c6] at he
    rcases a11 e he with he | he
    · obtain ⟨l, hl, h1, h2⟩ := hi.nsL e he
      exact ⟨l, (hmem l).mpr (Or.inl hl), h1, h2⟩
    · subst he
      exact ⟨_, (hmem _).mpr (Or.inr rfl), rfl, rfl⟩
  · -- keys
    intro X hX
    have hXsp : X ≠ sp := by
      intro he; subst he; omega
    have h1 : X ∉ targets steps' := by
      intro hm
      rcases o3 X (List.mem_append.mpr (Or.inl hm)) with h | h
      · exact hXsp h
      · omega
    have h2 : X ∉ names pend := by
      intro hm
      rcases o3 X (List.mem_append.mpr (Or.inr hm)) with h | h
      · exact hXsp h
      · omega
    have := frame X h1 h2
    rw [this.1, this.2]
    exact hi.keys X (by omega)
  · -- chain
    intro l hl s hs
    rcases (hmem l).mp hl with hl | rfl
    · have hrng := hi.rng l hl
      have := hold l hl s.1 (Or.inr (lay_tail_idx (hi.path l hl) hrng.2.1 s hs))
      rw [this.1, this.2]
      exact hi.chain l hl s hs
    · simp only at hs
      cases hst : steps' with
      | nil => rw [hst] at hs; cases hs
      | cons s0 t =>
        rw [hst] at hs hnodT hdisj f1
        simp only [List.tail_cons] at hs
        simp only [targets, List.map_cons, List.nodup_cons] at hnodT
        have hs1 : s.1 ∈ targets t := List.mem_map.mpr ⟨s, hs, rfl⟩
        have hc := c1 s.1 (hdisj s.1 (by simp only [targets, List.map_cons, List.mem_cons]; exact Or.inr hs1))
        rw [hc.1, hc.2]
        simp only [hst, addSteps, if_true]
        refine addSteps_chain n.prob t 1 _ (by omega) hnodT.2 ?_ s hs
        intro s' hs'
        have hs1' : s'.1 ∈ targets t := List.mem_map.mpr ⟨s', hs', rfl⟩
        have hne : s'.1 ≠ s0.1 := fun he => hnodT.1 (he ▸ hs1')
        have hlk := addRule_lookup st2 s0.1 s0.2.1 s0.2.2 n.prob s'.1
        simp only [hne, if_false] at hlk
        rw [hlk.1, hlk.2, a1, a2]
        apply hi.keys
        right
        have hne' : n.steps ≠ [] := by
          intro hnil
          have := (o6 hnil).1
          rw [hst] at this; cases this
        have := lay_tail_idx hr a9 s' (by rw [hst]; exact hs')
        omega
  · -- pendC
    intro l hl e he
    rcases (hmem l).mp hl with hl | rfl
    · have hrng := hi.rng l hl
      have hY : (e.2 = l.sp ∧ l.sp ≠ sp) ∨ (l.lo < idx e.2 ∧ idx e.2 ≤ l.hi) := by
        by_cases hnil : l.n.steps = []
        · left
          have := (lay_own (hi.path l hl) hrng.2.1).2.2.2.2.2 hnil
          rw [this.2] at he
          simp only [List.mem_singleton] at he
          subst he
          refine ⟨rfl, ?_⟩
          intro hsp
          have : l.n.start = n.start := by rw [← hi.spEr l hl, hsp, a7]
          exact (hfree l hl this).1 hnil
        · right; exact lay_pend_idx (hi.path l hl) hrng.2.1 hnil e he
      have := hold l hl e.2 hY
      obtain ⟨⟨q1, q2⟩, q3⟩ := hi.pendC l hl e he
      refine ⟨⟨by rw [this.1]; exact q1, by rw [this.2]; exact q2⟩, ?_⟩
      intro S' hS'
      apply c3
      rw [f5, a3]
      exact q3 S' hS'
    · simp only at he
      obtain ⟨q1, q2, q3⟩ := c2 e he
      have := hpendOK e he
      exact ⟨⟨by rw [this]; exact q1, by rw [this]; exact q2⟩, q3⟩
  · -- startT
    intro l hl H
    by_cases hlsp : l.sp = sp
    · have Hlay := H ⟨n, sp, st2.counter, hi', steps', pend⟩ ((hmem _).mpr (Or.inr rfl)) hlsp.symm
      simp only at Hlay
      obtain ⟨s0, t, e1, e2⟩ := o5 Hlay
      have hrw := hrow (fun l2 hl2 he => H l2 ((hmem l2).mpr (Or.inl hl2)) (he.trans hlsp.symm))
      rw [hlsp]
      have hh := heads_append_eq L ⟨n, sp, st2.counter, hi', steps', pend⟩ s0 t e1
      simp only at hh
      rw [hh, buildR_snoc, buildP_snoc]
      rw [e1] at hnodT hdisj f1
      simp only [targets, List.map_cons, List.nodup_cons] at hnodT
      have hc := c1 sp (hdisj sp (by simp only [targets, List.map_cons, List.mem_cons]; exact Or.inl e2.symm))
      rw [hc.1, hc.2]
      simp only [e1, addSteps, if_true, Nat.zero_add, e2]
      have hfr := (addSteps_frame n.prob t 1 (addRule st2 s0.1 s0.2.1 s0.2.2 n.prob)).1 sp (by rw [← e2]; exact hnodT.1)
      have hlk := addRule_lookup st2 s0.1 s0.2.1 s0.2.2 n.prob sp
      simp only [e2, if_true] at hlk hfr
      rw [hfr.1, hfr.2, hlk.1, hlk.2, a1, a2]
      simp only [Option.getD_some, hrw.1, hrw.2, and_self]
    · have hlL : l ∈ L := by
        rcases (hmem l).mp hl with hl | rfl
        · exact hl
        · exact absurd rfl hlsp
      have hh := heads_append_ne L ⟨n, sp, st2.counter, hi', steps', pend⟩ l.sp (fun he => hlsp he.symm)
      rw [hh]
      have := hold l hlL l.sp (Or.inl ⟨rfl, hlsp⟩)
      rw [this.1, this.2]
      exact hi.startT l hlL (fun l2 hl2 he => H l2 ((hmem l2).mpr (Or.inl hl2)) he)
  · -- spKeys
    intro X
    rw [c5, a12, hi.spKeys]
    constructor
    · rintro (h | ⟨l, hl, h⟩)
      · exact ⟨_, (hmem _).mpr (Or.inr rfl), h.symm⟩
      · exact ⟨l, (hmem l).mpr (Or.inl hl), h⟩
    · rintro ⟨l, hl, h⟩
      rcases (hmem l).mp hl with hl | rfl
      · exact Or.inr ⟨l, hl, h⟩
      · exact Or.inl h.symm
  · -- spVal
    intro l hl
    rw [c5, spMass_append]
    simp only
    by_cases hlsp : l.sp = sp
    · rw [hlsp, a13]; simp
    · have hlL : l ∈ L := by
        rcases (hmem l).mp hl with hl | rfl
        · exact hl
        · exact absurd rfl hlsp
      rw [a14 _ hlsp, hi.spVal l hlL]
      have hne : ¬ sp = l.sp := fun he => hlsp he.symm
      rw [if_neg hne, Rat.add_zero]
  · -- spTot
    rw [c5, a15, hi.spTot]
    simp [Rat.add_zero]
  · -- disj
    apply List.pairwise_append.mpr
    refine ⟨hi.disj, List.pairwise_singleton _ _, ?_⟩
    intro a ha b hb
    simp only [List.mem_singleton] at hb
    subst hb
    have := hi.rng a ha
    show a.hi ≤ st2.counter
    omega

end PS.Sp
