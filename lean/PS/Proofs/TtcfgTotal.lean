/-
  C13, part 20: TOTAL CORRECTNESS of the constructors: for every builder with
    * a rank `rk` of the configurations (non-terminal, pending stack) that decreases along every push
      of the worklist, and
    * a rank `(m, ρ)` of the non-terminals that decreases from a rule to its arguments,
  the worklist ends, `clean()` ends and `programs()` ends, within explicit fuel
  (`builder_total`).  Instance: `size_constraint` (every input).
-/
import PS.Proofs.TtcfgCleanTerm
import PS.Proofs.TtcfgCountTerm
import PS.Proofs.TtcfgCountS
namespace PS.T
open PS PS.G

variable {S T : Type} [DecidableEq S] [DecidableEq T]

/-! ### size of the saturation table -/

theorem insert_length_le {κ ν : Type} [DecidableEq κ] (k : κ) (v : ν) : ∀ d : AList κ ν,
    (AList.insert k v d).length ≤ d.length + 1
  | [] => by simp [AList.insert]
  | (k2, v2) :: r => by
    by_cases h : k2 = k
    · simp [AList.insert, h]
    · have := insert_length_le k v r
      simp only [AList.insert, h, if_false, List.length_cons]
      omega

theorem dictOf_length_le {κ ν : Type} [DecidableEq κ] : ∀ (l : List (κ × ν)) (d0 : AList κ ν),
    (dictOf l d0).length ≤ d0.length + l.length
  | [], d0 => by simp [dictOf]
  | r :: rs, d0 => by
    rw [dictOf_cons]
    have h1 := dictOf_length_le rs (AList.insert r.1 r.2 d0)
    have h2 := insert_length_le r.1 r.2 d0
    simp only [List.length_cons]
    omega

omit [DecidableEq S] [DecidableEq T] in
theorem rowList_length (B : Builder S T) (prims : List Sym) (request : Ty) (rule : NT S T) :
    (rowList B prims request rule).length ≤ request.arguments.length + prims.length := by
  unfold rowList candidates
  refine Nat.le_trans (List.length_filterMap_le _ _) ?_
  rw [List.length_append]
  exact Nat.add_le_add (Nat.le_trans (List.length_filterMap_le _ _) (by simp [enumFrom']))
    (List.length_filterMap_le _ _)

omit [DecidableEq S] [DecidableEq T] in
theorem rowDict_length (B : Builder S T) (prims : List Sym) (request : Ty) (rule : NT S T) :
    (rowDict B prims request rule).length ≤ request.arguments.length + prims.length := by
  have h1 : (rowDict B prims request rule).length ≤ ([] : Row S T).length + (rowList B prims request rule).length :=
    dictOf_length_le (rowList B prims request rule) []
  have h2 := rowList_length B prims request rule
  simp only [List.length_nil, Nat.zero_add] at h1
  exact Nat.le_trans h1 h2

/-- the table has at most as many rows as the loop has iterations -/
theorem satLoop_len (B : Builder S T) (prims : List Sym) (request : Ty) (stackKey : Bool)
    (rk : NT S T × List (Ty × S) → Nat)
    (hdec : ∀ (rule : NT S T) (stack : List (Ty × S)), ∀ p ∈ pushesOf B prims request rule stack,
      rk (entryKey p) < rk (rule, stack)) :
    ∀ (fuel : Nat) (todo : List (Entry S T)) (seen : List (NT S T × List (Ty × S))) (tbl r : Table S T),
      satLoop B prims request stackKey fuel todo seen tbl = some r →
      r.length ≤ tbl.length + (todo.map (fun x => satBound (request.arguments.length + prims.length) (rk (entryKey x)))).sum
  | fuel, [], seen, tbl, r, h => by
    cases fuel <;> (simp only [satLoop, Option.some.injEq] at h; subst h; simp)
  | 0, _ :: _, _, _, _, h => by simp [satLoop] at h
  | fuel + 1, (slot, cur, stack) :: todo, seen, tbl, r, h => by
    rw [satLoop] at h
    simp only at h
    simp only [List.map_cons, List.sum_cons]
    have hpos := satBound_pos (request.arguments.length + prims.length) (rk (entryKey ((slot, cur, stack) : Entry S T)))
    by_cases hskip : (if stackKey then seen.contains ((slot.1, (slot.2, cur)), stack) else AList.contains (slot.1, (slot.2, cur)) tbl) = true
    · simp only [hskip, if_true] at h
      have := satLoop_len B prims request stackKey rk hdec fuel todo seen tbl r h
      omega
    · simp only [hskip, Bool.false_eq_true, if_false] at h
      have ih := satLoop_len B prims request stackKey rk hdec fuel _ _ _ r h
      rw [List.map_append, List.sum_append, List.map_reverse, List.sum_reverse] at ih
      have hk : entryKey ((slot, cur, stack) : Entry S T) = ((slot.1, (slot.2, cur)), stack) := rfl
      rw [hk] at hpos ⊢
      have htl : (if AList.contains (slot.1, (slot.2, cur)) tbl then tbl
          else AList.insert (slot.1, (slot.2, cur)) (rowDict B prims request (slot.1, (slot.2, cur))) tbl).length ≤ tbl.length + 1 := by
        split
        · omega
        · exact insert_length_le _ _ _
      change r.length ≤ _ + (((pushesOf B prims request (slot.1, (slot.2, cur)) stack).map _).sum + _) at ih
      have hlen := pushesOf_length B prims request (slot.1, (slot.2, cur)) stack
      cases hr : rk ((slot.1, (slot.2, cur)), stack) with
      | zero =>
        have hnil : pushesOf B prims request (slot.1, (slot.2, cur)) stack = [] := by
          cases hp : pushesOf B prims request (slot.1, (slot.2, cur)) stack with
          | nil => rfl
          | cons p ps =>
            have := hdec _ _ p (by rw [hp]; exact List.mem_cons_self ..)
            omega
        rw [hnil] at ih
        simp only [List.map_nil, List.sum_nil, Nat.zero_add] at ih
        simp only [satBound]
        omega
      | succ n =>
        simp only [satBound]
        have hsum := sum_map_le (fun x : Entry S T => satBound (request.arguments.length + prims.length) (rk (entryKey x)))
          (satBound (request.arguments.length + prims.length) n) (pushesOf B prims request (slot.1, (slot.2, cur)) stack)
          (by
            intro p hp
            have := hdec _ _ p hp
            exact satBound_mono _ _ _ (by omega))
        have := Nat.mul_le_mul_right (satBound (request.arguments.length + prims.length) n) hlen
        omega

/-! ### the machine of `clean()` on a saturation table follows the pushes of the worklist -/

theorem cstep_push (B : Builder S T) (prims : List Sym) (request : Ty) (G : TT S T)
    (hrows : ∀ e ∈ G.rules, e.2 = rowDict B prims request e.1) (hU : noUnknownKey G = true)
    (c d : CConfig S T) (h : CStep G c d) : ∃ p ∈ pushesOf B prims request c.1 c.2, entryKey p = d := by
  cases h with
  | mk rule info P args st hr hin =>
    obtain ⟨row, hrow, hmem⟩ := rule_mem_row G rule P (args, st) hr
    have hrd := hrows _ (AList.lookup_some_mem hrow)
    simp only at hrd
    rw [hrd] at hmem
    have hml := rowDict_mem B prims request rule _ hmem
    cases hm : args ++ info with
    | nil =>
      exfalso
      have := noUnknown_inRules G hU _ hin
      simp [deriveWith, hm] at this
    | cons x rest =>
      refine ⟨(x, st, rest), ?_, ?_⟩
      · unfold pushesOf
        rw [List.mem_filterMap]
        exact ⟨(P, (args, st)), hml, by simp only; rw [hm]⟩
      · obtain ⟨t, s⟩ := x
        simp [entryKey, deriveWith, hm]

/-- the rows of a saturation table are ranked when the rule creation is -/
theorem ranked_of_rows (B : Builder S T) (prims : List Sym) (request : Ty) (G : TT S T)
    (hrows : ∀ e ∈ G.rules, e.2 = rowDict B prims request e.1) (m : T → Nat) (ρ : Ty × S → T → Nat)
    (hrank : ∀ rule, ∀ r ∈ rowList B prims request rule,
      m r.2.2 ≤ m rule.2.2 ∧ ∀ a ∈ r.2.1, ρ a r.2.2 < ρ (rule.1, rule.2.1) rule.2.2)
    (hmono : ∀ slot v v', m v ≤ m v' → ρ slot v ≤ ρ slot v') : Ranked G m ρ := by
  refine ⟨?_, hmono⟩
  intro nt row hl r hr
  have := hrows _ (AList.lookup_some_mem hl)
  simp only at this
  rw [this] at hr
  exact hrank nt r (rowDict_mem B prims request nt r hr)

theorem restrict_sub (G : TT S T) (nr : Marks S T) (hinv : PInv G nr) (nt : NT S T) (row' : Row S T)
    (hl : AList.lookup nt (restrict G nr).rules = some row') :
    ∃ row, AList.lookup nt G.rules = some row ∧ ∀ r ∈ row', r ∈ row := by
  obtain ⟨l, hmem, hrow⟩ := restrict_mem G nr (nt, row') (AList.lookup_some_mem hl)
  simp only at hrow hmem
  have hc : AList.contains nt nr = true := contains_of_lookup (AList.lookup_of_mem_nodup hinv.keys hmem)
  obtain ⟨row, hg⟩ := lookup_of_contains (hinv.sub nt hc)
  refine ⟨row, hg, ?_⟩
  intro r hr
  rw [hrow, List.mem_filterMap] at hr
  obtain ⟨P, _, hP⟩ := hr
  cases hrl : G.rule? nt P with
  | none => simp [hrl] at hP
  | some v =>
    simp only [hrl, Option.some.injEq] at hP
    subst hP
    unfold TT.rule? at hrl
    rw [hg] at hrl
    exact AList.lookup_some_mem hrl

/-- **total correctness of the construction, generic**: worklist, `clean()` and `programs()` all
    return within explicit fuel -/
theorem builder_total (B : Builder S T) (dsl : Dsl) (request : Ty) (hd : noUnknownDsl dsl request = true)
    (rk : NT S T × List (Ty × S) → Nat)
    (hdec : ∀ (rule : NT S T) (stack : List (Ty × S)), ∀ p ∈ pushesOf B dsl.prims request rule stack,
      rk (entryKey p) < rk (rule, stack))
    (m : T → Nat) (ρ : Ty × S → T → Nat)
    (hrank : ∀ rule, ∀ r ∈ rowList B dsl.prims request rule,
      m r.2.2 ≤ m rule.2.2 ∧ ∀ a ∈ r.2.1, ρ a r.2.2 < ρ (rule.1, rule.2.1) rule.2.2)
    (hmono : ∀ slot v v', m v ≤ m v' → ρ slot v ≤ ρ slot v')
    (stackKey : Bool) (fuel : Nat)
    (hf : 2 * satBound (request.arguments.length + dsl.prims.length) (rk ((request.returns, B.init), [])) + 1 ≤ fuel) :
    ∃ G0 G, saturationTable B dsl.prims request stackKey fuel = some G0 ∧ clean G0 fuel = .ok G ∧
      ∀ fuel', ρ (request.returns, B.init.1) B.init.2 + 2 ≤ fuel' → (programsR G fuel').isSome = true := by
  have hpos := satBound_pos (request.arguments.length + dsl.prims.length) (rk ((request.returns, B.init), []))
  have hsome := saturationTable_terminates B dsl.prims request stackKey rk hdec fuel (by omega)
  cases h0 : saturationTable B dsl.prims request stackKey fuel with
  | none => rw [h0] at hsome; cases hsome
  | some G0 =>
    obtain ⟨hstart, _, hsk, hrows⟩ := saturationTable_spec B dsl.prims request stackKey fuel G0 h0
    obtain ⟨c1, c2, c3⟩ := saturation_countHyps B dsl request stackKey fuel G0 hd h0
    -- size of the table
    have hlen : G0.rules.length ≤ satBound (request.arguments.length + dsl.prims.length) (rk ((request.returns, B.init), [])) := by
      unfold saturationTable at h0
      cases hl : satLoop B dsl.prims request stackKey fuel [((request.returns, B.init.1), B.init.2, [])] [] [] with
      | none => simp [hl] at h0
      | some tbl =>
        simp only [hl, Option.some.injEq] at h0
        subst h0
        have := satLoop_len B dsl.prims request stackKey rk hdec fuel _ [] [] tbl hl
        simpa [entryKey] using this
    have hb : ∀ e ∈ G0.rules, e.2.length ≤ request.arguments.length + dsl.prims.length := by
      intro e he; rw [hrows e he]; exact rowDict_length B dsl.prims request e.1
    have hdecC : ∀ c d, CStep G0 c d → rk d < rk c := by
      intro c d hcd
      obtain ⟨p, hp, e⟩ := cstep_push B dsl.prims request G0 hrows c2 c d hcd
      rw [← e]; exact hdec c.1 c.2 p hp
    have hs0 : G0.start = (request.returns, B.init) := hstart
    obtain ⟨G, hG⟩ := clean_terminates G0 (request.arguments.length + dsl.prims.length) hb c1 rk hdecC hsk fuel
      (by rw [hs0]; omega)
    refine ⟨G0, G, rfl, hG, ?_⟩
    intro fuel' hf'
    obtain ⟨nr, e, hinv⟩ := clean_result G0 G c2 fuel hG
    have hR0 : Ranked G0 m ρ := ranked_of_rows B dsl.prims request G0 hrows m ρ hrank hmono
    have hR : Ranked G m ρ := by
      rw [e]
      exact ranked_restrict G0 m ρ hR0 _ (restrict_sub G0 nr hinv)
    have hUG : noUnknownKey G = true := (clean_countHyps G0 G c2 c3 fuel hG).2.1
    apply programsR_terminates G hUG m ρ hR fuel'
    rw [clean_start G0 G fuel hG, hs0]
    exact hf'

/-! ### `size_constraint` -/

/-- what is left below `max_size + 1` -/
def sizeM (maxSize : Nat) (v : Nat × Nat) : Nat := maxSize + 1 - v.1

/-- explicit fuel for `size_constraint(dsl, request, k)`: worklist, `clean()`, `programs()` -/
def sizeFuel (dsl : Dsl) (request : Ty) (k : Nat) : Nat :=
  2 * satBound (request.arguments.length + dsl.prims.length) (k + 1) + k + 3

theorem size_total (dsl : Dsl) (request : Ty) (hd : noUnknownDsl dsl request = true) (nG : Int) (k : Nat)
    (actual stackKey : Bool) (fuel : Nat) (hf : sizeFuel dsl request k ≤ fuel) :
    ∃ G0 G, saturationTable (sizeBuilder dsl nG k actual) dsl.prims request stackKey fuel = some G0 ∧
      clean G0 fuel = .ok G ∧ (programsR G fuel).isSome = true := by
  unfold sizeFuel at hf
  obtain ⟨G0, G, h0, h1, h2⟩ := builder_total (sizeBuilder dsl nG k actual) dsl request hd (sizeRank k)
    (size_rank dsl request nG k actual) (sizeM k) (fun _ v => sizeM k v)
    (by
      intro rule r hr
      obtain ⟨P, val⟩ := r
      obtain ⟨c, _, h1, ht, hv⟩ := (mem_rowList _ dsl.prims request rule P val).mp hr
      subst h1
      obtain ⟨g1, g2⟩ := sizeTransition_size dsl k actual rule c.1 ht
      have hst : val.2 = (sizeTransition dsl k actual rule c.1).2 := by rw [hv]; rfl
      simp only [sizeM]
      rw [hst, g2]
      exact ⟨by omega, fun a _ => by omega⟩)
    (fun _ v v' h => h) stackKey fuel
    (by simp only [sizeRank, sizeBuilder, Nat.sub_zero]; omega)
  exact ⟨G0, G, h0, h1, h2 fuel (by simp only [sizeM, sizeBuilder]; omega)⟩

end PS.T
