/-
  C13, part 8b: `TTCFG.programs` on a clean table counts the language.
  Main invariant (`RecSpec`): whenever `__compute__` returns a dictionary for a non-terminal of
  the table, the dictionary - as a weighted multiset of end states - is the multiset of end
  states of the enumeration `langT`, and that enumeration is complete.
-/
import PS.Proofs.TtcfgCountA
namespace PS.T
open PS PS.G

variable {S T : Type} [DecidableEq S] [DecidableEq T]

/-! ### membership in `seqsT` -/

/-- `(kids, w) ∈ seqsT rec args v`, unfolded -/
def relList (rec : Ty × S → T → List (Prog × T)) : List Prog → List (Ty × S) → T → T → Prop
  | [], [], v, w => w = v
  | k :: ks, a :: as, v, w => ∃ v1, (k, v1) ∈ rec a v ∧ relList rec ks as v1 w
  | _, _, _, _ => False

omit [DecidableEq S] [DecidableEq T] in
theorem mem_seqsT (rec : Ty × S → T → List (Prog × T)) : ∀ (args : List (Ty × S)) (kids : List Prog) (v w : T),
    (kids, w) ∈ seqsT rec args v ↔ relList rec kids args v w
  | [], kids, v, w => by
    cases kids with
    | nil => simp [seqsT, relList]
    | cons k ks => simp [seqsT, relList]
  | a :: as, kids, v, w => by
    simp only [seqsT, List.mem_flatMap, List.mem_map, Prod.mk.injEq]
    cases kids with
    | nil =>
      simp only [relList, iff_false]
      rintro ⟨tw, _, kw, _, h, _⟩
      cases h
    | cons k ks =>
      simp only [relList]
      constructor
      · rintro ⟨tw, htw, kw, hkw, h1, h2⟩
        simp only [List.cons.injEq] at h1
        obtain ⟨h1a, h1b⟩ := h1
        subst h1a h1b h2
        exact ⟨tw.2, htw, (mem_seqsT rec as kw.1 tw.2 kw.2).mp hkw⟩
      · rintro ⟨v1, hk, hr⟩
        exact ⟨(k, v1), hk, (ks, w), (mem_seqsT rec as ks v1 w).mpr hr, rfl, rfl⟩

omit [DecidableEq S] [DecidableEq T] in
theorem relList_snoc (rec : Ty × S → T → List (Prog × T)) (base : Ty × S) (kl : Prog) (w : T) :
    ∀ (pre : List (Ty × S)) (kp : List Prog) (st v : T), relList rec kp pre st v → (kl, w) ∈ rec base v →
      relList rec (kp ++ [kl]) (pre ++ [base]) st w
  | [], [], st, v, h, hk => by
    simp only [relList] at h; subst h
    exact ⟨w, hk, rfl⟩
  | [], _ :: _, _, _, h, _ => by simp [relList] at h
  | _ :: _, [], _, _, h, _ => by simp [relList] at h
  | a :: pre, k :: kp, st, v, h, hk => by
    obtain ⟨v1, h1, h2⟩ := h
    exact ⟨v1, h1, relList_snoc rec base kl w pre kp v1 v h2 hk⟩

omit [DecidableEq S] [DecidableEq T] in
theorem runList_snoc (ρ : RuleFn S T) (base : Ty × S) : ∀ (pre : List (Ty × S)) (kids : List Prog) (st w : T),
    runList ρ kids (pre ++ [base]) st = some w →
      ∃ kp kl v, kids = kp ++ [kl] ∧ runList ρ kp pre st = some v ∧ run ρ kl base v = some w
  | [], kids, st, w, h => by
    cases kids with
    | nil => simp [runList] at h
    | cons k ks =>
      simp only [List.nil_append, runList] at h
      cases h1 : run ρ k base st with
      | none => simp [h1] at h
      | some v1 =>
        simp only [h1] at h
        cases ks with
        | nil => simp only [runList, Option.some.injEq] at h; subst h; exact ⟨[], k, st, rfl, by simp [runList], h1⟩
        | cons k2 ks => simp [runList] at h
  | a :: pre, kids, st, w, h => by
    cases kids with
    | nil => simp [runList] at h
    | cons k ks =>
      simp only [List.cons_append, runList] at h
      cases h1 : run ρ k a st with
      | none => simp [h1] at h
      | some v1 =>
        simp only [h1] at h
        obtain ⟨kp, kl, v, hk, hp, hl⟩ := runList_snoc ρ base pre ks v1 w h
        exact ⟨k :: kp, kl, v, by rw [hk]; rfl, by rw [runList, h1]; exact hp, hl⟩

omit [DecidableEq S] in
theorem SumL_seqsT_snoc (rec : Ty × S → T → List (Prog × T)) (base : Ty × S) (F : T → Nat) :
    ∀ (pre : List (Ty × S)) (st : T),
      SumL (seqsT rec (pre ++ [base]) st) F = SumL (seqsT rec pre st) (fun v => SumL (rec base v) F)
  | [], st => by
    simp only [List.nil_append, seqsT]
    rw [SumL_flatMap]
    simp [SumL]
  | a :: pre, st => by
    simp only [List.cons_append, seqsT]
    rw [SumL_flatMap, SumL_flatMap]
    congr 1
    apply List.map_congr_left
    intro tw _
    rw [SumL_map (g := fun kw : List Prog × T => (tw.1 :: kw.1, kw.2)) (hg := fun _ => rfl),
        SumL_map (g := fun kw : List Prog × T => (tw.1 :: kw.1, kw.2)) (hg := fun _ => rfl)]
    exact SumL_seqsT_snoc rec base F pre tw.2

omit [DecidableEq S] in
theorem SumL_pos_of_mem {α : Type} (L : List (α × T)) (x : α × T) (h : x ∈ L) :
    0 < SumL L (fun y => if y = x.2 then 1 else 0) := by
  induction L with
  | nil => cases h
  | cons y L ih =>
    simp only [SumL, List.map_cons, List.sum_cons]
    rcases List.mem_cons.mp h with e | hm
    · subst e; rw [if_pos rfl]; omega
    · have := ih hm
      simp only [SumL] at this
      omega

/-! ### the invariant of `__compute__` -/

section Inv
variable (G : TT S T) (outs : AList (NT S T) (List T)) (rk : AList (NT S T) Nat)

/-- what is known of the recursive calls at recursion depth `k` -/
structure RecSpec (rec : NT S T → Option (AList T Nat)) (k : Nat) : Prop where
  marker : ∀ nt d, rec nt = some d → AList.lookup nt G.rules = none → d = [(nt.2.2, 1)]
  key : ∀ nt d, rec nt = some d → AList.contains nt G.rules = true →
    (∀ e ∈ d, e.1 ∈ outsOf outs nt) ∧
    (∀ F : T → Nat, W d F = SumL (langT G k (nt.1, nt.2.1) nt.2.2) F) ∧
    (∀ t w, run G.rule? t (nt.1, nt.2.1) nt.2.2 = some w → (t, w) ∈ langT G k (nt.1, nt.2.1) nt.2.2)

variable {G outs rk}

theorem stepLocal_spec (rec : NT S T → Option (AList T Nat)) (k : Nat) (R : RecSpec G outs rec k)
    (ok : NT S T → Bool) (base : Ty × S) (V V1 : List T) (hV : chainStep G outs [] ok base V = some V1) :
    ∀ (loc acc r : AList T Nat), (∀ e ∈ loc, e.1 ∈ V) → stepLocal rec base loc acc = some r →
      (∀ e ∈ loc, ∃ sub, rec (base.1, (base.2, e.1)) = some sub) ∧
      (∀ e ∈ r, e.1 ∈ V1 ∨ ∃ e' ∈ acc, e'.1 = e.1) ∧
      (∀ F : T → Nat, W r F = W acc F + W loc (fun v => SumL (langT G k base v) F))
  | [], acc, r, _, h => by
    simp only [stepLocal, Option.some.injEq] at h
    subst h
    exact ⟨(by intro e he; cases he), fun e he => Or.inr ⟨e, he, rfl⟩, (by intro F; simp)⟩
  | (v, cnt) :: rest, acc, r, hloc, h => by
    rw [stepLocal] at h
    cases hsub : rec (base.1, (base.2, v)) with
    | none => simp [hsub] at h
    | some sub =>
      simp only [hsub] at h
      have hv : v ∈ V := hloc (v, cnt) (List.mem_cons_self ..)
      have hspec := chainStep_spec G outs [] ok base V V1 hV v hv
      have hkey : AList.contains (base.1, (base.2, v)) G.rules = true := by
        by_cases hc : AList.contains (base.1, (base.2, v)) G.rules = true
        · exact hc
        · have := hspec.2 (by simpa using hc); cases this
      obtain ⟨hk1, hk2', _⟩ := R.key _ sub hsub hkey
      have hk2 : ∀ F : T → Nat, W sub F = SumL (langT G k base v) F := hk2'
      obtain ⟨ih1, ih2, ih3⟩ := stepLocal_spec rec k R ok base V V1 hV rest (addScaled cnt sub acc) r
        (fun e he => hloc e (List.mem_cons_of_mem _ he)) h
      refine ⟨?_, ?_, ?_⟩
      · intro e he
        rcases List.mem_cons.mp he with e1 | hm
        · subst e1; exact ⟨sub, hsub⟩
        · exact ih1 e hm
      · intro e he
        rcases ih2 e he with h1 | ⟨e', he', h1⟩
        · exact Or.inl h1
        · rcases keys_addScaled cnt sub acc e' he' with ⟨e'', he'', h2⟩ | ⟨e'', he'', h2⟩
          · left
            rw [← h1, ← h2]
            exact (hspec.1 hkey).2 _ (hk1 e'' he'')
          · exact Or.inr ⟨e'', he'', by rw [h2, h1]⟩
      · intro F
        rw [ih3 F, W_addScaled, W_cons, hk2 F]
        simp only
        omega

/-- the rule whose arguments are being counted starts in state `st`; `pre` = the arguments
    already counted -/
theorem chainLocal_spec (rec : NT S T → Option (AList T Nat)) (k : Nat) (R : RecSpec G outs rec k)
    (ok : NT S T → Bool) (st : T) :
    ∀ (info pre : List (Ty × S)) (V V' : List T) (loc loc' : AList T Nat),
      (∀ e ∈ loc, e.1 ∈ V) →
      (∀ F : T → Nat, W loc F = SumL (seqsT (langT G k) pre st) F) →
      (∀ kids v, runList G.rule? kids pre st = some v → (kids, v) ∈ seqsT (langT G k) pre st) →
      chain G outs [] ok info V = some V' → chainLocal rec info loc = some loc' →
      (∀ e ∈ loc', e.1 ∈ V') ∧
      (∀ F : T → Nat, W loc' F = SumL (seqsT (langT G k) (pre ++ info) st) F) ∧
      (∀ kids w, runList G.rule? kids (pre ++ info) st = some w → (kids, w) ∈ seqsT (langT G k) (pre ++ info) st)
  | [], pre, V, V', loc, loc', hloc, hW, hC, hch, h => by
    simp only [chain, Option.some.injEq] at hch
    simp only [chainLocal, Option.some.injEq] at h
    subst hch; subst h
    simp only [List.append_nil]
    exact ⟨hloc, hW, hC⟩
  | base :: info, pre, V, V', loc, loc', hloc, hW, hC, hch, h => by
    rw [chain] at hch
    cases hV1 : chainStep G outs [] ok base V with
    | none => simp [hV1] at hch
    | some V1 =>
      simp only [hV1] at hch
      rw [chainLocal] at h
      cases hnl : stepLocal rec base loc [] with
      | none => simp [hnl] at h
      | some nl =>
        simp only [hnl] at h
        obtain ⟨s1, s2, s3⟩ := stepLocal_spec rec k R ok base V V1 hV1 loc [] nl hloc hnl
        have hnlV : ∀ e ∈ nl, e.1 ∈ V1 := by
          intro e he
          rcases s2 e he with h1 | ⟨e', he', _⟩
          · exact h1
          · cases he'
        have hWnl : ∀ F : T → Nat, W nl F = SumL (seqsT (langT G k) (pre ++ [base]) st) F := by
          intro F
          rw [s3 F, W_nil, Nat.zero_add, SumL_seqsT_snoc, ← hW]
        have hCnl : ∀ kids v, runList G.rule? kids (pre ++ [base]) st = some v →
            (kids, v) ∈ seqsT (langT G k) (pre ++ [base]) st := by
          intro kids w hr
          obtain ⟨kp, kl, v, hk, hp, hl⟩ := runList_snoc G.rule? base pre kids st w hr
          have hmem := hC kp v hp
          -- `v` is the key of an entry of `loc`
          have hpos := SumL_pos_of_mem _ (kp, v) hmem
          rw [← hW] at hpos
          obtain ⟨e, he, hev⟩ := exists_key_of_W_pos v loc hpos
          obtain ⟨sub, hsub⟩ := s1 e he
          rw [hev] at hsub
          have hvV : v ∈ V := by rw [← hev]; exact hloc e he
          have hspec := chainStep_spec G outs [] ok base V V1 hV1 v hvV
          have hkey : AList.contains (base.1, (base.2, v)) G.rules = true := by
            by_cases hc : AList.contains (base.1, (base.2, v)) G.rules = true
            · exact hc
            · have := hspec.2 (by simpa using hc); cases this
          have hlast := (R.key _ sub hsub hkey).2.2 kl w hl
          rw [hk, mem_seqsT]
          exact relList_snoc _ base kl w pre kp st v ((mem_seqsT _ _ _ _ _).mp hmem) hlast
        have := chainLocal_spec rec k R ok st info (pre ++ [base]) V1 V' nl loc' hnlV hWnl hCnl hch h
        simpa [List.append_assoc] using this

/-- all rules of a row: `output` grows by the end states of each rule -/
theorem rowCounts_spec (rec : NT S T → Option (AList T Nat)) (k : Nat) (R : RecSpec G outs rec k)
    (C : ClosedCert G outs rk) (state : NT S T) (hstate : (state, row0) ∈ G.rules) :
    ∀ (rs : Row S T) (out out' : AList T Nat), (∀ r ∈ rs, r ∈ row0) →
      rowCounts rec state rs out = some out' →
      (∀ e ∈ out', e.1 ∈ outsOf outs state ∨ ∃ e' ∈ out, e'.1 = e.1) ∧
      (∀ F : T → Nat, W out' F = W out F + (rs.map (fun r => SumL (seqsT (langT G k) r.2.1 r.2.2) F)).sum) ∧
      (∀ r ∈ rs, ∀ kids w, runList G.rule? kids r.2.1 r.2.2 = some w → (kids, w) ∈ seqsT (langT G k) r.2.1 r.2.2)
  | [], out, out', _, h => by
    simp only [rowCounts, Option.some.injEq] at h
    subst h
    exact ⟨fun e he => Or.inr ⟨e, he, rfl⟩, (by intro F; simp), (by intro r hr; cases hr)⟩
  | r :: rs, out, out', hsub, h => by
    rw [rowCounts] at h
    obtain ⟨P, args, st⟩ := r
    have hr0 : (P, (args, st)) ∈ row0 := hsub _ (List.mem_cons_self ..)
    obtain ⟨_, hunk, _, hch⟩ := C.rows _ hstate
    obtain ⟨V, hV, hVout⟩ := hch _ hr0
    simp only at hV hVout h
    -- the contribution of this rule
    have rule_ok : ∀ loc', (match rec (deriveWith [] state args st).2 with
          | none => none
          | some loc => chainLocal rec (deriveWith [] state args st).1 loc) = some loc' →
        (∀ e ∈ loc', e.1 ∈ outsOf outs state) ∧
        (∀ F : T → Nat, W loc' F = SumL (seqsT (langT G k) args st) F) ∧
        (∀ kids w, runList G.rule? kids args st = some w → (kids, w) ∈ seqsT (langT G k) args st) := by
      intro loc' hl
      cases args with
      | nil =>
        -- leaf: the next non-terminal is the end marker, which is not in the table
        simp only [deriveWith, List.nil_append] at hl
        have hmark : AList.lookup ((Ty.unknown, (state.2.1, st)) : NT S T) G.rules = none := by
          cases hlk : AList.lookup ((Ty.unknown, (state.2.1, st)) : NT S T) G.rules with
          | none => rfl
          | some row =>
            have := (C.rows _ (AList.lookup_some_mem hlk)).2.1
            exact absurd rfl this
        cases hrec : rec (Ty.unknown, (state.2.1, st)) with
        | none => simp [hrec] at hl
        | some loc =>
          simp only [hrec, chainLocal, Option.some.injEq] at hl
          subst hl
          have := R.marker _ loc hrec hmark
          simp only at this
          subst this
          simp only [chain, Option.some.injEq] at hV
          subst hV
          refine ⟨?_, ?_, ?_⟩
          · intro e he
            simp only [List.mem_singleton] at he
            subst he
            exact hVout st (List.mem_singleton.mpr rfl)
          · intro F; simp [W, seqsT, SumL]
          · intro kids w hrun
            cases kids with
            | nil => simp only [runList, Option.some.injEq] at hrun; subst hrun; simp [seqsT]
            | cons k ks => simp [runList] at hrun
      | cons a as =>
        simp only [deriveWith, List.cons_append, List.append_nil] at hl
        cases hrec : rec (a.1, (a.2, st)) with
        | none => simp [hrec] at hl
        | some loc =>
          simp only [hrec] at hl
          rw [chain] at hV
          cases hV1 : chainStep G outs [] (rankLt rk state) a [st] with
          | none => simp [hV1] at hV
          | some V1 =>
            simp only [hV1] at hV
            have hspec := chainStep_spec G outs [] (rankLt rk state) a [st] V1 hV1 st (List.mem_singleton.mpr rfl)
            have hkey : AList.contains (a.1, (a.2, st)) G.rules = true := by
              by_cases hc : AList.contains (a.1, (a.2, st)) G.rules = true
              · exact hc
              · have := hspec.2 (by simpa using hc); cases this
            obtain ⟨k1, k2, k3⟩ := R.key _ loc hrec hkey
            have hlocV : ∀ e ∈ loc, e.1 ∈ V1 := fun e he => (hspec.1 hkey).2 _ (k1 e he)
            have hW1 : ∀ F : T → Nat, W loc F = SumL (seqsT (langT G k) [a] st) F := by
              intro F
              rw [k2 F]
              simp only [seqsT]
              rw [SumL_flatMap]
              simp [SumL]
            have hC1 : ∀ kids v, runList G.rule? kids [a] st = some v → (kids, v) ∈ seqsT (langT G k) [a] st := by
              intro kids v hrun
              cases kids with
              | nil => simp [runList] at hrun
              | cons k0 ks =>
                rw [runList] at hrun
                cases h1 : run G.rule? k0 a st with
                | none => simp [h1] at hrun
                | some v1 =>
                  simp only [h1] at hrun
                  cases ks with
                  | nil =>
                    simp only [runList, Option.some.injEq] at hrun
                    subst hrun
                    rw [mem_seqsT]
                    exact ⟨v1, k3 k0 v1 h1, rfl⟩
                  | cons k2 ks => simp [runList] at hrun
            obtain ⟨c1, c2, c3⟩ := chainLocal_spec rec k R (rankLt rk state) st as [a] V1 V loc loc' hlocV hW1 hC1 hV hl
            exact ⟨fun e he => hVout _ (c1 e he), by simpa using c2, by simpa using c3⟩
    cases hl : (match rec (deriveWith [] state args st).2 with
          | none => none
          | some loc => chainLocal rec (deriveWith [] state args st).1 loc) with
    | none =>
      exfalso
      cases hrec : rec (deriveWith [] state args st).2 with
      | none => simp [hrec] at h
      | some loc =>
        simp only [hrec] at h hl
        simp [hl] at h
    | some loc' =>
      have h' : rowCounts rec state rs (addScaled 1 loc' out) = some out' := by
        cases hrec : rec (deriveWith [] state args st).2 with
        | none => simp [hrec] at hl
        | some loc =>
          simp only [hrec] at h hl
          simp only [hl] at h
          exact h
      obtain ⟨r1, r2, r3⟩ := rule_ok loc' hl
      obtain ⟨i1, i2, i3⟩ := rowCounts_spec rec k R C state hstate rs (addScaled 1 loc' out) out'
        (fun r hr => hsub r (List.mem_cons_of_mem _ hr)) h'
      refine ⟨?_, ?_, ?_⟩
      · intro e he
        rcases i1 e he with h1 | ⟨e', he', h1⟩
        · exact Or.inl h1
        · rcases keys_addScaled 1 loc' out e' he' with ⟨e'', he'', h2⟩ | ⟨e'', he'', h2⟩
          · left; rw [← h1, ← h2]; exact r1 e'' he''
          · exact Or.inr ⟨e'', he'', by rw [h2, h1]⟩
      · intro F
        rw [i2 F, W_addScaled, r2 F]
        simp only [List.map_cons, List.sum_cons]
        omega
      · intro r hr kids w hrun
        rcases List.mem_cons.mp hr with e | hm
        · subst e; exact r3 kids w hrun
        · exact i3 r hm kids w hrun

end Inv

/-- **the invariant holds at every recursion depth** -/
theorem compute_spec (G : TT S T) (outs : AList (NT S T) (List T)) (rk : AList (NT S T) Nat)
    (C : ClosedCert G outs rk) : ∀ k : Nat, RecSpec G outs (compute G k) k
  | 0 => ⟨by intro nt d h; simp [compute] at h, by intro nt d h; simp [compute] at h⟩
  | k + 1 => by
    have R := compute_spec G outs rk C k
    constructor
    · intro nt d h hl
      simp only [compute, hl, Option.some.injEq] at h
      exact h.symm
    · intro nt d h hc
      obtain ⟨row, hrow⟩ := lookup_of_contains hc
      simp only [compute, hrow] at h
      have hmem := AList.lookup_some_mem hrow
      obtain ⟨s1, s2, s3⟩ := rowCounts_spec (rk := rk) (row0 := row) (compute G k) k R C nt hmem row [] d (fun r hr => hr) h
      have hnt : ((nt.1, (nt.2.1, nt.2.2)) : NT S T) = nt := rfl
      refine ⟨?_, ?_, ?_⟩
      · intro e he
        rcases s1 e he with h1 | ⟨e', he', _⟩
        · exact h1
        · cases he'
      · intro F
        rw [s2 F, W_nil, Nat.zero_add]
        simp only [langT, hnt, hrow]
        rw [SumL_flatMap]
        congr 1
        apply List.map_congr_left
        intro r _
        rw [SumL_map (g := fun kw : List Prog × T => (Tree.node r.1 kw.1, kw.2)) (hg := fun _ => rfl)]
      · intro t w hrun
        cases t with
        | node f kids =>
          rw [run] at hrun
          simp only [hnt] at hrun
          cases hr : G.rule? nt f with
          | none => simp [hr] at hrun
          | some val =>
            simp only [hr] at hrun
            have hfr : AList.lookup f row = some val := by
              unfold TT.rule? at hr; rw [hrow] at hr; exact hr
            have hin := AList.lookup_some_mem hfr
            have := s3 (f, val) hin kids w hrun
            simp only [langT, hnt, hrow, List.mem_flatMap, List.mem_map]
            exact ⟨(f, val), hin, (kids, w), this, rfl⟩

end PS.T
