/-
  C13, part 8a: arithmetic of the end-state dictionaries of `TTCFG.programs`.
  `W d F = Σ_{(v, c) ∈ d} c · F v` - the dictionary seen as a weighted multiset of end states,
  tested against an arbitrary weight `F`.  Quantifying over `F` is what lets the counts of two
  consecutive arguments be composed without ever regrouping sums by state.
-/
import PS.Proofs.TtcfgClean
namespace PS.T
open PS PS.G

variable {T : Type} [DecidableEq T]

def W (d : AList T Nat) (F : T → Nat) : Nat := (d.map (fun e => e.2 * F e.1)).sum

omit [DecidableEq T] in
@[simp] theorem W_nil (F : T → Nat) : W ([] : AList T Nat) F = 0 := rfl

omit [DecidableEq T] in
theorem W_cons (e : T × Nat) (d : AList T Nat) (F : T → Nat) : W (e :: d) F = e.2 * F e.1 + W d F := by
  simp [W]

omit [DecidableEq T] in
theorem W_congr (d : AList T Nat) (F F' : T → Nat) (h : ∀ e ∈ d, F e.1 = F' e.1) : W d F = W d F' := by
  induction d with
  | nil => rfl
  | cons e d ih =>
    rw [W_cons, W_cons, h e (List.mem_cons_self ..), ih (fun e' he' => h e' (List.mem_cons_of_mem _ he'))]

theorem W_insert_none (k : T) (v : Nat) (F : T → Nat) : ∀ d : AList T Nat, AList.lookup k d = none →
    W (AList.insert k v d) F = W d F + v * F k
  | [], _ => by simp [AList.insert, W]
  | (k', v') :: d, h => by
    by_cases hk : k' = k
    · simp [AList.lookup, hk] at h
    · simp only [AList.lookup, hk, if_false] at h
      simp only [AList.insert, hk, if_false, W_cons]
      rw [W_insert_none k v F d h]; omega

theorem W_insert_some (k : T) (v m : Nat) (F : T → Nat) : ∀ d : AList T Nat, AList.lookup k d = some m →
    W (AList.insert k v d) F + m * F k = W d F + v * F k
  | [], h => by simp [AList.lookup] at h
  | (k', v') :: d, h => by
    by_cases hk : k' = k
    · simp only [AList.lookup, hk, if_true, Option.some.injEq] at h
      subst h; subst hk
      simp only [AList.insert, if_true, W_cons]; omega
    · simp only [AList.lookup, hk, if_false] at h
      simp only [AList.insert, hk, if_false, W_cons]
      have := W_insert_some k v m F d h
      omega

theorem W_addTo (k : T) (n : Nat) (d : AList T Nat) (F : T → Nat) : W (addTo k n d) F = W d F + n * F k := by
  unfold addTo
  cases h : AList.lookup k d with
  | none => exact W_insert_none k n F d h
  | some m =>
    have := W_insert_some k (m + n) m F d h
    rw [Nat.add_mul] at this
    simp only
    omega

theorem W_addScaled (cnt : Nat) (F : T → Nat) : ∀ (sub acc : AList T Nat),
    W (addScaled cnt sub acc) F = W acc F + cnt * W sub F
  | [], acc => by simp [addScaled]
  | e :: sub, acc => by
    have ih := W_addScaled cnt F sub (addTo e.1 (e.2 * cnt) acc)
    unfold addScaled at ih ⊢
    rw [List.foldl_cons, ih, W_addTo, W_cons, Nat.mul_add]
    have : e.2 * cnt * F e.1 = cnt * (e.2 * F e.1) := by
      rw [Nat.mul_comm e.2 cnt, Nat.mul_assoc]
    omega

/-! ### keys -/

theorem keys_insert_subset (k : T) (v : Nat) : ∀ d : AList T Nat, ∀ e ∈ AList.insert k v d, e.1 = k ∨ ∃ e' ∈ d, e'.1 = e.1
  | [], e, he => by simp [AList.insert] at he; left; rw [he]
  | (k', v') :: d, e, he => by
    by_cases hk : k' = k
    · simp only [AList.insert, hk, if_true, List.mem_cons] at he
      rcases he with he | he
      · left; rw [he]
      · right; exact ⟨e, List.mem_cons_of_mem _ he, rfl⟩
    · simp only [AList.insert, hk, if_false, List.mem_cons] at he
      rcases he with he | he
      · right; exact ⟨(k', v'), List.mem_cons_self .., by rw [he]⟩
      · rcases keys_insert_subset k v d e he with h | ⟨e', he', h⟩
        · left; exact h
        · right; exact ⟨e', List.mem_cons_of_mem _ he', h⟩

theorem keys_addTo (k : T) (n : Nat) (d : AList T Nat) : ∀ e ∈ addTo k n d, e.1 = k ∨ ∃ e' ∈ d, e'.1 = e.1 := by
  unfold addTo
  cases AList.lookup k d with
  | none => exact keys_insert_subset k n d
  | some m => exact keys_insert_subset k (m + n) d

theorem keys_addScaled (cnt : Nat) : ∀ (sub acc : AList T Nat), ∀ e ∈ addScaled cnt sub acc,
    (∃ e' ∈ sub, e'.1 = e.1) ∨ ∃ e' ∈ acc, e'.1 = e.1
  | [], acc, e, he => Or.inr ⟨e, he, rfl⟩
  | x :: sub, acc, e, he => by
    have ih := keys_addScaled cnt sub (addTo x.1 (x.2 * cnt) acc) e
    unfold addScaled at ih he
    rw [List.foldl_cons] at he
    rcases ih he with ⟨e', he', h⟩ | ⟨e', he', h⟩
    · exact Or.inl ⟨e', List.mem_cons_of_mem _ he', h⟩
    · rcases keys_addTo x.1 (x.2 * cnt) acc e' he' with h2 | ⟨e'', he'', h2⟩
      · exact Or.inl ⟨x, List.mem_cons_self .., by rw [← h2, h]⟩
      · exact Or.inr ⟨e'', he'', by rw [h2, h]⟩

/-- a positive weight on the indicator of `v` exhibits an entry for `v` -/
theorem exists_key_of_W_pos (v : T) : ∀ d : AList T Nat, 0 < W d (fun x => if x = v then 1 else 0) → ∃ e ∈ d, e.1 = v
  | [], h => by simp at h
  | e :: d, h => by
    rw [W_cons] at h
    by_cases he : e.1 = v
    · exact ⟨e, List.mem_cons_self .., he⟩
    · simp only [he, if_false, Nat.mul_zero, Nat.zero_add] at h
      obtain ⟨e', he', h'⟩ := exists_key_of_W_pos v d h
      exact ⟨e', List.mem_cons_of_mem _ he', h'⟩

/-! ### sums over enumerations -/

def SumL {α : Type} (L : List (α × T)) (F : T → Nat) : Nat := (L.map (fun x => F x.2)).sum

omit [DecidableEq T] in
theorem SumL_append {α : Type} (L L' : List (α × T)) (F : T → Nat) : SumL (L ++ L') F = SumL L F + SumL L' F := by
  simp [SumL]

omit [DecidableEq T] in
theorem SumL_map {α β : Type} (L : List (α × T)) (g : α × T → β × T) (hg : ∀ x, (g x).2 = x.2) (F : T → Nat) :
    SumL (L.map g) F = SumL L F := by
  simp [SumL, List.map_map, Function.comp_def, hg]

omit [DecidableEq T] in
theorem SumL_flatMap {γ β : Type} (L : List γ) (f : γ → List (β × T)) (F : T → Nat) :
    SumL (L.flatMap f) F = (L.map (fun x => SumL (f x) F)).sum := by
  induction L with
  | nil => rfl
  | cons x L ih => rw [List.flatMap_cons, SumL_append, ih]; simp

omit [DecidableEq T] in
theorem SumL_one_length {α : Type} (L : List (α × T)) : SumL L (fun _ => 1) = L.length := by
  induction L with
  | nil => rfl
  | cons x L ih => simp [SumL] at ih ⊢; omega

end PS.T
