/-
  Helper lemmas for property C19 (prediction layers): the model of PS/Model/Predictor.lean
  instantiated with the real numbers (`Real.exp`, `Real.log`).
-/
import Mathlib.Analysis.SpecialFunctions.Log.Basic
import PS.Model.Predictor
namespace PS.Predictor
open PS
set_option linter.unusedSectionVars false
set_option linter.unusedSimpArgs false

/-- the real numbers as number type of the model; `pos x` is the (classical) test `0 < x` -/
noncomputable instance instExpLogReal : ExpLog ℝ where
  ofNat := fun n => (n : ℝ)
  exp := Real.exp
  log := Real.log
  pos := fun x => @decide (0 < x) (Classical.propDecidable _)

@[simp] theorem ofNat_real (n : ℕ) : (ExpLog.ofNat n : ℝ) = (n : ℝ) := rfl
@[simp] theorem exp_real (x : ℝ) : (ExpLog.exp x : ℝ) = Real.exp x := rfl
@[simp] theorem log_real (x : ℝ) : (ExpLog.log x : ℝ) = Real.log x := rfl
@[simp] theorem pos_real (x : ℝ) : (ExpLog.pos x = true) ↔ 0 < x := by
  simp [ExpLog.pos]

theorem sumL_eq (l : List ℝ) : sumL l = l.sum := by
  unfold sumL
  rw [List.sum_eq_foldl]
  simp

/-! ### association lists -/
section AL
variable {κ ν : Type} [DecidableEq κ]

theorem insert_fresh {k : κ} {v : ν} {d : AList κ ν} (h : AList.lookup k d = none) :
    AList.insert k v d = d ++ [(k, v)] := by
  induction d with
  | nil => rfl
  | cons p r ih =>
    obtain ⟨k', v'⟩ := p
    by_cases hk : k' = k
    · simp [AList.lookup, hk] at h
    · simp only [AList.lookup, hk, if_false] at h
      simp [AList.insert, hk, ih h]

theorem lookup_append (k : κ) (a b : AList κ ν) :
    AList.lookup k (a ++ b) = (AList.lookup k a).orElse (fun _ => AList.lookup k b) := by
  induction a with
  | nil => simp [AList.lookup]
  | cons p r ih =>
    obtain ⟨k', v'⟩ := p
    by_cases hk : k' = k
    · simp [AList.lookup, hk]
    · simp [AList.lookup, hk, ih]

theorem lookup_map_val {μ : Type} (f : ν → μ) (k : κ) (d : AList κ ν) :
    AList.lookup k (d.map (fun e => (e.1, f e.2))) = (AList.lookup k d).map f := by
  induction d with
  | nil => simp [AList.lookup]
  | cons p r ih =>
    obtain ⟨k', v'⟩ := p
    by_cases hk : k' = k
    · simp [AList.lookup, hk]
    · simp [AList.lookup, hk, ih]

theorem lookup_none_of_not_mem_keys {k : κ} {d : AList κ ν} (h : k ∉ AList.keys d) :
    AList.lookup k d = none := by
  cases hl : AList.lookup k d with
  | none => rfl
  | some v =>
    exfalso; apply h
    exact AList.lookup_isSome_iff_mem_keys.mp (by simp [hl])

/-- weighted sum over the entries of a dict -/
def wsum (g : κ → ν → ℝ) (d : AList κ ν) : ℝ := (d.map (fun e => g e.1 e.2)).sum

@[simp] theorem wsum_nil (g : κ → ν → ℝ) : wsum g ([] : AList κ ν) = 0 := rfl
@[simp] theorem wsum_cons (g : κ → ν → ℝ) (p : κ × ν) (d : AList κ ν) :
    wsum g (p :: d) = g p.1 p.2 + wsum g d := by simp [wsum]
theorem wsum_append (g : κ → ν → ℝ) (a b : AList κ ν) : wsum g (a ++ b) = wsum g a + wsum g b := by
  simp [wsum]

/-- effect of `d[k] = v` on a weighted sum -/
theorem wsum_insert (g : κ → ν → ℝ) (k : κ) (v : ν) (d : AList κ ν) :
    wsum g (AList.insert k v d) = wsum g d + g k v - ((AList.lookup k d).map (g k)).getD 0 := by
  induction d with
  | nil => simp [AList.insert, AList.lookup]
  | cons p r ih =>
    obtain ⟨k', v'⟩ := p
    by_cases hk : k' = k
    · subst hk; simp [AList.insert, AList.lookup]; ring
    · simp [AList.insert, AList.lookup, hk, ih]; ring

end AL

/-! ### the deterministic layer, one non-terminal -/
section Det

/-- selective mass `Σ_{(P,t) ∈ d, sel P} exp t` -/
noncomputable def mass (sel : DP → Bool) (d : AList DP ℝ) : ℝ :=
  wsum (fun P t => if sel P then Real.exp t else 0) d

/-- the decrement really applied by the ordering trick -/
def eff (tvo : Bool) (ε : ℝ) : ℝ := if tvo then ε else 0

/-- `0 + 1 + … + (n-1)` -/
noncomputable def tri (n : ℕ) : ℝ := (n : ℝ) * ((n : ℝ) - 1) / 2

theorem tri_succ (n : ℕ) : tri (n + 1) = tri n + n := by
  unfold tri; push_cast; ring

theorem mass_insert_fresh (sel : DP → Bool) {P : DP} {t : ℝ} {d : AList DP ℝ}
    (h : AList.lookup P d = none) :
    mass sel (AList.insert P t d) = mass sel d + (if sel P then Real.exp t else 0) := by
  unfold mass; rw [wsum_insert]; simp [h]

theorem next_nvl (tvo : Bool) (ε nvl : ℝ) (h : eff tvo ε < Real.exp nvl) :
    Real.exp (if tvo then ExpLog.log (ExpLog.exp nvl - ε) else nvl) = Real.exp nvl - eff tvo ε := by
  cases tvo with
  | false => simp [eff]
  | true =>
    simp only [eff, if_true] at h ⊢
    simp only [log_real, exp_real]
    rw [Real.exp_log (by linarith)]

theorem assignVars_spec (tvo : Bool) (ε : ℝ) (hε : 0 ≤ ε) (sel : DP → Bool) (b : Bool) :
    ∀ (vars : List DP) (nvl : ℝ) (T : AList DP ℝ),
      vars.Nodup → (∀ P ∈ vars, AList.lookup P T = none) → (∀ P ∈ vars, sel P = b) →
      (vars.length : ℝ) * eff tvo ε < Real.exp nvl →
      mass sel (assignVars tvo ε vars nvl T).1
          = mass sel T + (if b then (vars.length : ℝ) * Real.exp nvl - eff tvo ε * tri vars.length else 0)
      ∧ Real.exp (assignVars tvo ε vars nvl T).2 = Real.exp nvl - vars.length * eff tvo ε
      ∧ (∀ Q, Q ∉ vars → AList.lookup Q (assignVars tvo ε vars nvl T).1 = AList.lookup Q T) := by
  have heff : 0 ≤ eff tvo ε := by unfold eff; split <;> simp [hε]
  intro vars
  induction vars with
  | nil => intro nvl T _ _ _ _; simp [assignVars, tri]
  | cons P r ih =>
    intro nvl T hnd hfresh hsel hb
    have hnd' := List.nodup_cons.mp hnd
    have hlen : ((P :: r).length : ℝ) = (r.length : ℝ) + 1 := by simp
    rw [hlen] at hb
    have hr0 : (0 : ℝ) ≤ r.length := Nat.cast_nonneg _
    have h1 : eff tvo ε < Real.exp nvl := by nlinarith
    have hnext := next_nvl tvo ε nvl h1
    have hfreshP : AList.lookup P T = none := hfresh P (by simp)
    have hfresh' : ∀ Q ∈ r, AList.lookup Q (AList.insert P nvl T) = none := by
      intro Q hQ
      have hne : Q ≠ P := by intro h; subst h; exact hnd'.1 hQ
      rw [AList.lookup_insert_ne _ _ hne]
      exact hfresh Q (by simp [hQ])
    have hb' : (r.length : ℝ) * eff tvo ε
        < Real.exp (if tvo then ExpLog.log (ExpLog.exp nvl - ε) else nvl) := by
      rw [hnext]; nlinarith
    obtain ⟨i1, i2, i3⟩ := ih (if tvo then ExpLog.log (ExpLog.exp nvl - ε) else nvl) (AList.insert P nvl T)
      hnd'.2 hfresh' (fun Q hQ => hsel Q (by simp [hQ])) hb'
    simp only [assignVars]
    refine ⟨?_, ?_, ?_⟩
    · rw [i1, mass_insert_fresh sel hfreshP, hsel P (by simp), hnext]
      cases b with
      | false => simp
      | true =>
        simp only [if_true, List.length_cons, tri_succ]
        push_cast; ring
    · rw [i2, hnext, hlen]; ring
    · intro Q hQ
      have hQ' : Q ≠ P ∧ Q ∉ r := by simpa [List.mem_cons, not_or] using hQ
      rw [i3 Q hQ'.2, AList.lookup_insert_ne _ _ hQ'.1]

theorem assignConsts_spec (sel : DP → Bool) (b : Bool) :
    ∀ (cs : List DP) (nvl : ℝ) (T : AList DP ℝ),
      cs.Nodup → (∀ P ∈ cs, AList.lookup P T = none) → (∀ P ∈ cs, sel P = b) →
      mass sel (assignConsts cs nvl T) = mass sel T + (if b then (cs.length : ℝ) * Real.exp nvl else 0) := by
  intro cs
  induction cs with
  | nil => intro nvl T _ _ _; simp [assignConsts]
  | cons P r ih =>
    intro nvl T hnd hfresh hsel
    have hnd' := List.nodup_cons.mp hnd
    have hfresh' : ∀ Q ∈ r, AList.lookup Q (AList.insert P nvl T) = none := by
      intro Q hQ
      have hne : Q ≠ P := by intro h; subst h; exact hnd'.1 hQ
      rw [AList.lookup_insert_ne _ _ hne]
      exact hfresh Q (by simp [hQ])
    simp only [assignConsts]
    rw [ih nvl _ hnd'.2 hfresh' (fun Q hQ => hsel Q (by simp [hQ])),
      mass_insert_fresh sel (hfresh P (by simp)), hsel P (by simp)]
    cases b with
    | false => simp
    | true => simp only [if_true, List.length_cons]; push_cast; ring

theorem total_eq (prim : AList DP ℝ) :
    sumL (prim.map (fun e => (ExpLog.exp e.2 : ℝ))) = mass (fun _ => true) prim := by
  rw [sumL_eq]; simp [mass, wsum]

theorem mass_true_pos {prim : AList DP ℝ} (h : prim ≠ []) : 0 < mass (fun _ => true) prim := by
  cases prim with
  | nil => exact absurd rfl h
  | cons p r =>
    have : 0 ≤ mass (fun _ => true) r := by
      unfold mass wsum
      apply List.sum_nonneg
      intro x hx
      simp only [List.mem_map] at hx
      obtain ⟨e, _, rfl⟩ := hx
      simp [Real.exp_nonneg]
    have h2 : 0 < Real.exp p.2 := Real.exp_pos _
    simp only [mass, wsum_cons, if_true] at this ⊢
    linarith

theorem mass_map_add (sel : DP → Bool) (bp : Bool) (a : ℝ) (prim : AList DP ℝ)
    (hsel : ∀ P ∈ AList.keys prim, sel P = bp) :
    mass sel (prim.map (fun e => (e.1, e.2 + a)))
      = if bp then Real.exp a * mass (fun _ => true) prim else 0 := by
  induction prim with
  | nil => simp [mass]
  | cons p r ih =>
    have h1 : sel p.1 = bp := hsel p.1 (by simp [AList.keys])
    have ih' := ih (fun P hP => hsel P (by simp only [AList.keys, List.map_cons, List.mem_cons]; exact Or.inr hP))
    simp only [mass, List.map_cons, wsum_cons] at ih' ⊢
    rw [ih', h1]
    cases bp with
    | false => simp
    | true => simp only [if_true, Real.exp_add]; ring

theorem mass_of_sel (sel : DP → Bool) (bp : Bool) (prim : AList DP ℝ)
    (hsel : ∀ P ∈ AList.keys prim, sel P = bp) :
    mass sel prim = if bp then mass (fun _ => true) prim else 0 := by
  have := mass_map_add sel bp 0 prim hsel
  simpa using this

theorem keys_map_val {μ : Type} (f : DP × ℝ → μ) (d : AList DP ℝ) :
    AList.keys (d.map (fun e => (e.1, f e))) = AList.keys d := by
  simp [AList.keys, List.map_map, Function.comp_def]

/-- value of the variable/constant mass `vp` -/
noncomputable def vpOf (v : ℝ) (prim : AList DP ℝ) : ℝ := if prim = [] then 1 else v

/-- the master lemma for one non-terminal of the deterministic layer (variables or constants
    exist): the `sel`-part of the mass of `tagNT` -/
theorem tagNT_mass_vars (v ε : ℝ) (tvo : Bool) (prim : AList DP ℝ) (vars consts : List DP)
    (hv0 : 0 < v) (hv1 : v < 1) (hε : 0 ≤ ε)
    (hnd : (AList.keys prim ++ vars ++ consts).Nodup)
    (hvc : vars ≠ [] ∨ consts ≠ [])
    (heps : (vars.length : ℝ) * eff tvo ε * (vars.length + consts.length) < vpOf v prim)
    (sel : DP → Bool) (bp b : Bool)
    (hselp : ∀ P ∈ AList.keys prim, sel P = bp) (hselv : ∀ P ∈ vars ++ consts, sel P = b) :
    mass sel (tagNT v ε tvo prim vars consts)
      = (if bp then 1 - vpOf v prim else 0)
        + (if b then vpOf v prim - eff tvo ε * (tri vars.length + consts.length * vars.length) else 0) := by
  have heff : 0 ≤ eff tvo ε := by unfold eff; split <;> simp [hε]
  -- counts
  set m := vars.length with hm
  set c := consts.length with hc
  have hmc : (0 : ℝ) < (m : ℝ) + c := by
    rcases hvc with h | h
    · have : 0 < m := List.length_pos_of_ne_nil h
      have : (0 : ℝ) < m := by exact_mod_cast this
      have : (0 : ℝ) ≤ c := Nat.cast_nonneg _
      linarith
    · have : 0 < c := List.length_pos_of_ne_nil h
      have : (0 : ℝ) < c := by exact_mod_cast this
      have : (0 : ℝ) ≤ m := Nat.cast_nonneg _
      linarith
  -- nodup pieces
  rw [List.append_assoc] at hnd
  have hnd1 := List.nodup_append.mp hnd
  have hnd2 := List.nodup_append.mp hnd1.2.1
  have hdisjP : ∀ P ∈ vars ++ consts, P ∉ AList.keys prim := by
    intro P hP hP'
    exact hnd1.2.2 P hP' P hP rfl
  have hdisjVC : ∀ P ∈ consts, P ∉ vars := by
    intro P hP hP'
    exact hnd2.2.2 P hP' P hP rfl
  have hcond : (!vars.isEmpty || !consts.isEmpty) = true := by
    rcases hvc with h | h
    · cases vars with
      | nil => exact absurd rfl h
      | cons _ _ => simp
    · cases consts with
      | nil => exact absurd rfl h
      | cons _ _ => simp
  unfold tagNT
  simp only [hcond, if_true]
  rw [total_eq]
  -- the state after "Normalise rest"
  set tot := mass (fun _ => true) prim with htot
  set tv : AList DP ℝ × ℝ :=
    (if ExpLog.pos tot = true then
      (prim.map (fun e => (e.1, e.2 + ExpLog.log ((ExpLog.ofNat 1 - v) / tot))), v)
    else (prim, ExpLog.ofNat 1)) with htv
  have htv2 : tv.2 = vpOf v prim := by
    by_cases hp : prim = []
    · subst hp; simp [htv, htot, mass, vpOf]
    · have hpos : ExpLog.pos tot = true := (pos_real _).mpr (mass_true_pos hp)
      simp only [htv, hpos, if_true, vpOf, hp, if_false]
  have hkeys : AList.keys tv.1 = AList.keys prim := by
    by_cases hpos : ExpLog.pos tot = true
    · simp only [htv, hpos, if_true]; exact keys_map_val _ _
    · simp [htv, hpos]
  have htv1 : mass sel tv.1 = if bp then 1 - vpOf v prim else 0 := by
    by_cases hp : prim = []
    · subst hp; simp [htv, htot, mass, vpOf]
    · have hpos := mass_true_pos hp
      have hpos' : ExpLog.pos tot = true := (pos_real _).mpr hpos
      simp only [htv, hpos', if_true]
      rw [mass_map_add sel bp _ prim hselp]
      simp only [vpOf, hp, if_false, log_real, ofNat_real, Nat.cast_one]
      cases bp with
      | false => simp
      | true =>
        simp only [if_true]
        rw [Real.exp_log (by apply div_pos <;> linarith)]
        have hne : tot ≠ 0 := ne_of_gt hpos
        rw [← htot]
        field_simp
  have hvp : 0 < vpOf v prim := by unfold vpOf; split <;> linarith
  -- nvl
  set nvl : ℝ := ExpLog.log (tv.2 / ExpLog.ofNat (m + c)) with hnvl
  have hq : Real.exp nvl = vpOf v prim / ((m : ℝ) + c) := by
    simp only [hnvl, log_real, ofNat_real, htv2]
    push_cast
    rw [Real.exp_log (div_pos hvp hmc)]
  have hbound : (m : ℝ) * eff tvo ε < Real.exp nvl := by
    rw [hq, lt_div_iff₀ hmc]; exact heps
  have hfreshV : ∀ P ∈ vars, AList.lookup P tv.1 = none := by
    intro P hP
    apply lookup_none_of_not_mem_keys
    rw [hkeys]; exact hdisjP P (by simp [hP])
  obtain ⟨a1, a2, a3⟩ := assignVars_spec tvo ε hε sel b vars nvl tv.1 hnd2.1 hfreshV
    (fun P hP => hselv P (by simp [hP])) hbound
  have hfreshC : ∀ P ∈ consts, AList.lookup P (assignVars tvo ε vars nvl tv.1).1 = none := by
    intro P hP
    rw [a3 P (hdisjVC P hP)]
    apply lookup_none_of_not_mem_keys
    rw [hkeys]; exact hdisjP P (by simp [hP])
  rw [assignConsts_spec sel b consts _ _ hnd2.2.1 hfreshC (fun P hP => hselv P (by simp [hP])), a1, htv1, a2, hq]
  cases b with
  | false => simp
  | true =>
    simp only [if_true]
    have hne : ((m : ℝ) + c) ≠ 0 := ne_of_gt hmc
    field_simp
    ring

theorem tagNT_mass_novars (v ε : ℝ) (tvo : Bool) (prim : AList DP ℝ) (hp : prim ≠ [])
    (sel : DP → Bool) (bp : Bool) (hselp : ∀ P ∈ AList.keys prim, sel P = bp) :
    mass sel (tagNT v ε tvo prim [] []) = if bp then 1 else 0 := by
  have hpos := mass_true_pos hp
  unfold tagNT
  simp only [List.isEmpty_nil, Bool.not_true, Bool.or_self, Bool.false_eq_true, if_false]
  rw [total_eq]
  simp only [(pos_real _).mpr hpos, if_true]
  rw [mass_map_add sel bp _ prim hselp]
  cases bp with
  | false => simp
  | true =>
    simp only [if_true, log_real, ofNat_real, Nat.cast_one]
    rw [Real.exp_log (by positivity)]
    field_simp

/-! ### from one non-terminal to the grammar -/

theorem allSomeL_forall₂ {β γ : Type} (f : β → Option γ) :
    ∀ (l : List β) (r : List γ), allSomeL f l = some r → List.Forall₂ (fun a b => f a = some b) l r := by
  intro l
  induction l with
  | nil => intro r h; simp [allSomeL] at h; subst h; exact List.Forall₂.nil
  | cons a as ih =>
    intro r h
    simp only [allSomeL] at h
    cases hfa : f a with
    | none => simp [hfa] at h
    | some y =>
      cases hrest : allSomeL f as with
      | none => simp [hfa, hrest] at h
      | some ys =>
        simp [hfa, hrest] at h
        subst h
        exact List.Forall₂.cons hfa (ih ys hrest)

theorem keys_insert_fresh {ν : Type} {k : DP} {v : ν} {d : AList DP ν} (h : k ∉ AList.keys d) :
    AList.keys (AList.insert k v d) = AList.keys d ++ [k] := by
  rw [insert_fresh (lookup_none_of_not_mem_keys h)]
  simp [AList.keys]

theorem primTags_keys (sym : AList DP Nat) (y : List ℝ) :
    ∀ (ks : List DP) (T T' : AList DP ℝ), ks.Nodup → (∀ P ∈ ks, P ∉ AList.keys T) →
      primTags sym y ks T = some T' → AList.keys T' = AList.keys T ++ ks.filter (kindIs .prim) := by
  intro ks
  induction ks with
  | nil => intro T T' _ _ h; simp [primTags] at h; subst h; simp
  | cons P r ih =>
    intro T T' hnd hfresh h
    have hnd' := List.nodup_cons.mp hnd
    simp only [primTags] at h
    by_cases hk : P.kind = .prim
    · simp only [hk, if_true] at h
      cases hs : sym.lookup P with
      | none => simp [hs] at h
      | some i =>
        cases hy : y[i]? with
        | none => simp [hs, hy] at h
        | some t =>
          simp only [hs, hy] at h
          have hPT : P ∉ AList.keys T := hfresh P (by simp)
          have hfresh' : ∀ Q ∈ r, Q ∉ AList.keys (AList.insert P t T) := by
            intro Q hQ
            rw [keys_insert_fresh hPT]
            intro hmem
            rcases List.mem_append.mp hmem with h1 | h1
            · exact hfresh Q (by simp [hQ]) h1
            · simp at h1; subst h1; exact hnd'.1 hQ
          rw [ih _ _ hnd'.2 hfresh' h, keys_insert_fresh hPT]
          simp [List.filter_cons, kindIs, hk]
    · simp only [hk, if_false] at h
      rw [ih _ _ hnd'.2 (fun Q hQ => hfresh Q (by simp [hQ])) h]
      simp [List.filter_cons, kindIs, hk]

theorem nodup_by_kind (ks : List DP) (h : ks.Nodup) :
    (ks.filter (kindIs .prim) ++ ks.filter (kindIs .var) ++ ks.filter (kindIs .const)).Nodup := by
  rw [List.nodup_append, List.nodup_append]
  refine ⟨⟨h.filter _, h.filter _, ?_⟩, h.filter _, ?_⟩
  · intro a ha b hb hab
    subst hab
    simp [kindIs] at ha hb
    rw [ha.2] at hb; exact absurd hb.2 (by decide)
  · intro a ha b hb hab
    subst hab
    simp [kindIs] at ha hb
    rcases ha with ha | ha
    · rw [ha.2] at hb; exact absurd hb.2 (by decide)
    · rw [ha.2] at hb; exact absurd hb.2 (by decide)

theorem tri_cast (m : ℕ) : ((m * (m - 1) / 2 : ℕ) : ℝ) = tri m := by
  unfold tri
  have h2 : 2 * (m * (m - 1) / 2) = m * (m - 1) :=
    Nat.two_mul_div_two_of_even (Nat.even_mul_pred_self m)
  have h3 : (2 : ℝ) * ((m * (m - 1) / 2 : ℕ) : ℝ) = (m : ℝ) * ((m : ℝ) - 1) := by
    have := congrArg (fun n : ℕ => (n : ℝ)) h2
    simp only [Nat.cast_mul, Nat.cast_ofNat] at this
    rw [this]
    cases m with
    | zero => simp
    | succ k => simp
  linarith

theorem epsTerm_real (ε : ℝ) (tvo : Bool) (m c : ℕ) :
    epsTerm ε tvo m c = eff tvo ε * (tri m + c * m) := by
  unfold epsTerm eff
  cases tvo with
  | false => simp
  | true => simp only [if_true, ofNat_real]; push_cast; rw [tri_cast]

theorem hypEps_real {v ε : ℝ} {tvo hasPrim : Bool} {m c : ℕ} (hv0 : 0 < v) (hmc : 0 < m + c)
    (h : hypEps v ε tvo hasPrim m c = true) :
    (m : ℝ) * eff tvo ε * ((m : ℝ) + c) < (if hasPrim then v else 1) := by
  have hmc' : (0 : ℝ) < (m : ℝ) + c := by exact_mod_cast hmc
  unfold hypEps at h
  cases tvo with
  | false =>
    simp only [eff, Bool.false_eq_true, if_false, mul_zero, zero_mul]
    cases hasPrim <;> simp [hv0]
  | true =>
    simp only [Bool.not_true, Bool.false_or, pos_real, ofNat_real] at h
    simp only [eff, if_true]
    push_cast at h
    have h' : (m : ℝ) * ε < (if hasPrim then v else 1) / ((m : ℝ) + c) := by
      cases hasPrim <;> simp at h ⊢ <;> linarith
    rw [lt_div_iff₀ hmc'] at h'
    exact h'

/-- selector of the primitive rules / of the variable and constant rules -/
def selPrim (P : DP) : Bool := kindIs .prim P
def selVar (P : DP) : Bool := !kindIs .prim P

theorem filter_kind_sel {k : Kind} {ks : List DP} {P : DP} (h : P ∈ ks.filter (kindIs k)) : P.kind = k := by
  simp [kindIs] at h; exact h.2

/-- One entry of `tensor2logProbDet`: the `sel`-mass of the tags of the non-terminal, for
    selectors that are constant on primitives (`bp`) and on variables/constants (`b`). -/
theorem tagEntryDet_mass (L : Layer) (v ε : ℝ) (tvo : Bool) (x : List ℝ)
    (e : NT × AList DP (List NT)) (t : NT × AList DP ℝ)
    (h : tagEntryDet L v ε tvo x e = some t)
    (hv0 : 0 < v) (hv1 : v < 1) (hε : 0 ≤ ε) (hnd : (AList.keys e.2).Nodup)
    (sel : DP → Bool) (bp b : Bool)
    (hselp : ∀ P : DP, P.kind = .prim → sel P = bp) (hselv : ∀ P : DP, P.kind ≠ .prim → sel P = b) :
    t.1 = e.1 ∧
    (0 < countKind .var e.2 + countKind .const e.2 →
      hypEps v ε tvo (decide (0 < countKind .prim e.2)) (countKind .var e.2) (countKind .const e.2) = true →
      mass sel t.2 = (if bp then 1 - (if 0 < countKind .prim e.2 then v else 1) else 0)
        + (if b then (if 0 < countKind .prim e.2 then v else 1)
                      - epsTerm ε tvo (countKind .var e.2) (countKind .const e.2) else 0)) ∧
    (countKind .var e.2 + countKind .const e.2 = 0 → 0 < countKind .prim e.2 →
      mass sel t.2 = if bp then 1 else 0) := by
  unfold tagEntryDet at h
  cases h1 : AList.lookup e.1 L.real2abs with
  | none => simp [h1] at h
  | some key =>
    cases h2 : AList.lookup key L.abs2index with
    | none => simp [h1, h2] at h
    | some idx =>
      obtain ⟨start, length, sym⟩ := idx
      simp only [h1, h2] at h
      cases h3 : primTags sym (slice x start length) (AList.keys e.2) [] with
      | none => simp [h3] at h
      | some prim =>
        simp only [h3, Option.some.injEq] at h
        subst h
        have hkeys : AList.keys prim = (AList.keys e.2).filter (kindIs .prim) := by
          have := primTags_keys sym (slice x start length) (AList.keys e.2) [] prim hnd
            (by intro P _; simp [AList.keys]) h3
          simpa [AList.keys] using this
        have hprimlen : countKind .prim e.2 = prim.length := by
          unfold countKind; rw [← hkeys]; simp [AList.keys]
        have hpe : (prim = []) ↔ ¬ (0 < countKind .prim e.2) := by
          rw [hprimlen]; cases prim <;> simp
        have hselp' : ∀ P ∈ AList.keys prim, sel P = bp := by
          intro P hP; rw [hkeys] at hP; exact hselp P (filter_kind_sel hP)
        refine ⟨rfl, ?_, ?_⟩
        · intro hmc hhyp
          have hvc : (AList.keys e.2).filter (kindIs .var) ≠ [] ∨ (AList.keys e.2).filter (kindIs .const) ≠ [] := by
            unfold countKind at hmc
            by_contra hcon
            simp only [not_or, ne_eq, not_not] at hcon
            rw [hcon.1, hcon.2] at hmc; simp at hmc
          have hselv' : ∀ P ∈ (AList.keys e.2).filter (kindIs .var) ++ (AList.keys e.2).filter (kindIs .const), sel P = b := by
            intro P hP
            apply hselv
            rcases List.mem_append.mp hP with h' | h'
            · rw [filter_kind_sel h']; decide
            · rw [filter_kind_sel h']; decide
          have hvp : vpOf v prim = (if 0 < countKind .prim e.2 then v else 1) := by
            unfold vpOf
            by_cases hp : prim = []
            · simp [hp, hpe.mp hp]
            · have : 0 < countKind .prim e.2 := by
                by_contra hc; exact hp (hpe.mpr hc)
              simp [hp, this]
          have heps := hypEps_real hv0 hmc hhyp
          have heps' : (((AList.keys e.2).filter (kindIs .var)).length : ℝ) * eff tvo ε
              * ((((AList.keys e.2).filter (kindIs .var)).length : ℝ) + (((AList.keys e.2).filter (kindIs .const)).length : ℝ))
              < vpOf v prim := by
            rw [hvp]
            simpa [countKind] using heps
          have hndall : (AList.keys prim ++ (AList.keys e.2).filter (kindIs .var)
              ++ (AList.keys e.2).filter (kindIs .const)).Nodup := by
            rw [hkeys]; exact nodup_by_kind _ hnd
          have := tagNT_mass_vars v ε tvo prim _ _ hv0 hv1 hε hndall hvc heps' sel bp b hselp' hselv'
          rw [this, hvp, epsTerm_real]
          simp [countKind]
        · intro hmc hnp
          have hv : (AList.keys e.2).filter (kindIs .var) = [] := by
            unfold countKind at hmc
            exact List.eq_nil_of_length_eq_zero (by omega)
          have hc : (AList.keys e.2).filter (kindIs .const) = [] := by
            unfold countKind at hmc
            exact List.eq_nil_of_length_eq_zero (by omega)
          rw [hv, hc]
          have hp : prim ≠ [] := by
            intro hp; exact (hpe.mp hp) hnp
          exact tagNT_mass_novars v ε tvo prim hp sel bp hselp'

theorem allSomeL_forall₂_of {β γ : Type} (f : β → Option γ) (p : β → Prop) :
    ∀ (l : List β) (r : List γ), allSomeL f l = some r → (∀ a ∈ l, p a) →
      List.Forall₂ (fun a b => p a ∧ f a = some b) l r := by
  intro l
  induction l with
  | nil => intro r h _; simp [allSomeL] at h; subst h; exact List.Forall₂.nil
  | cons a as ih =>
    intro r h hp
    simp only [allSomeL] at h
    cases hfa : f a with
    | none => simp [hfa] at h
    | some y =>
      cases hrest : allSomeL f as with
      | none => simp [hfa, hrest] at h
      | some ys =>
        simp [hfa, hrest] at h
        subst h
        exact List.Forall₂.cons ⟨hp a (by simp), hfa⟩ (ih ys hrest (fun b hb => hp b (by simp [hb])))

theorem wfRules_mem {ρ : Type} {rules : AList NT (AList DP ρ)} (h : wfRules rules = true) :
    ∀ e ∈ rules, (AList.keys e.2).Nodup := by
  intro e he
  unfold wfRules at h
  rw [List.all_eq_true] at h
  simpa using h e he

/-- `Σ_{(P,t) ∈ d} exp t` with the model's `sumL` -/
noncomputable def expSum (d : AList DP ℝ) : ℝ := sumL (d.map (fun e => (ExpLog.exp e.2 : ℝ)))

theorem expSum_eq_mass (d : AList DP ℝ) : expSum d = mass (fun _ => true) d := total_eq d

theorem expSum_filter_eq_mass (sel : DP → Bool) (d : AList DP ℝ) :
    expSum (d.filter (fun e => sel e.1)) = mass sel d := by
  unfold expSum; rw [sumL_eq]
  induction d with
  | nil => simp [mass]
  | cons p r ih =>
    simp only [mass, wsum_cons] at ih ⊢
    by_cases hs : sel p.1
    · simp only [exp_real] at ih; simp [List.filter_cons, hs, ih]
    · simp only [exp_real] at ih; simp [List.filter_cons, hs, ih]

end Det

/-! ### derivations: `reduce_derivations` is a fold over the derivation -/
section Deriv

theorem foldlO_append {β γ : Type} (f : β → γ → Option β) (b : β) (l1 l2 : List γ) :
    foldlO f b (l1 ++ l2) = (foldlO f b l1).bind (fun b' => foldlO f b' l2) := by
  induction l1 generalizing b with
  | nil => simp [foldlO]
  | cons x xs ih =>
    simp only [List.cons_append, foldlO]
    cases f b x with
    | none => simp
    | some b' => simp [ih]

/-- result of `reduceDet` expressed with the derivation -/
def viaDeriv {β : Type} (f : β → NT → DP → Option β) (v : β)
    (d : Option (List (NT × DP) × List NT × NT)) : Option (β × List NT × NT) :=
  match d with
  | none => none
  | some (l, info, next) =>
    match foldlO (fun b (sp : NT × DP) => f b sp.1 sp.2) v l with
    | none => none
    | some b => some (b, info, next)

mutual
  theorem reduceDet_eq {β : Type} (rules : AList NT (AList DP (List NT))) (f : β → NT → DP → Option β) :
      ∀ (t : Prog) (v : β) (start : NT) (info : List NT),
        reduceDet rules f t v start info = viaDeriv f v (derivDet rules t start info)
    | .node P args, v, start, info => by
      simp only [reduceDet, derivDet]
      cases hd : deriveDet rules info start P with
      | none => simp [viaDeriv]
      | some r =>
        obtain ⟨info1, next⟩ := r
        simp only []
        cases hf : f v start P with
        | none =>
          cases hda : derivDetArgs rules args info1 next with
          | none => simp [viaDeriv]
          | some r2 => obtain ⟨l, i2, n2⟩ := r2; simp [viaDeriv, foldlO, hf]
        | some v1 =>
          simp only []
          rw [reduceDetArgs_eq rules f args v1 info1 next]
          cases hda : derivDetArgs rules args info1 next with
          | none => simp [viaDeriv]
          | some r2 => obtain ⟨l, i2, n2⟩ := r2; simp [viaDeriv, foldlO, hf]
  theorem reduceDetArgs_eq {β : Type} (rules : AList NT (AList DP (List NT))) (f : β → NT → DP → Option β) :
      ∀ (args : List Prog) (v : β) (info : List NT) (next : NT),
        reduceDetArgs rules f args v info next = viaDeriv f v (derivDetArgs rules args info next)
    | [], v, info, next => by simp [reduceDetArgs, derivDetArgs, viaDeriv, foldlO]
    | a :: as, v, info, next => by
      simp only [reduceDetArgs, derivDetArgs]
      rw [reduceDet_eq rules f a v next info]
      cases hd : derivDet rules a next info with
      | none => simp [viaDeriv]
      | some r =>
        obtain ⟨l1, i1, n1⟩ := r
        simp only [viaDeriv]
        cases hf : foldlO (fun b (sp : NT × DP) => f b sp.1 sp.2) v l1 with
        | none =>
          cases hda : derivDetArgs rules as i1 n1 with
          | none => simp
          | some r2 => obtain ⟨l2, i2, n2⟩ := r2; simp [foldlO_append, hf]
        | some v1 =>
          simp only []
          rw [reduceDetArgs_eq rules f as v1 i1 n1]
          cases hda : derivDetArgs rules as i1 n1 with
          | none => simp [viaDeriv]
          | some r2 => obtain ⟨l2, i2, n2⟩ := r2; simp [viaDeriv, foldlO_append, hf]
end

end Deriv

/-! ### consistency of `log_probability` with the converted grammar (deterministic layer) -/
section Consistent

theorem tagDet_toProb (tags : AList NT (AList DP ℝ)) (S : NT) (P : DP) :
    tagDet (toProbDet tags) S P = (tagDet tags S P).map Real.exp := by
  unfold tagDet toProbDet
  have h := lookup_map_val (fun (d : AList DP ℝ) => d.map (fun z => (z.1, (ExpLog.exp z.2 : ℝ)))) S tags
  rw [h]
  cases AList.lookup S tags with
  | none => rfl
  | some d =>
    simp only [Option.map_some]
    exact lookup_map_val (fun t : ℝ => (ExpLog.exp t : ℝ)) P d

theorem fold_add_mul (tags : AList NT (AList DP ℝ)) :
    ∀ (l : List (NT × DP)) (a r : ℝ),
      foldlO (fun cur (sp : NT × DP) => addTagDet tags cur sp.1 sp.2) a l = some r →
      foldlO (fun cur (sp : NT × DP) => mulTagDet (toProbDet tags) cur sp.1 sp.2) (Real.exp a) l
        = some (Real.exp r) := by
  intro l
  induction l with
  | nil => intro a r h; simp [foldlO] at h ⊢; rw [h]
  | cons sp rest ih =>
    intro a r h
    simp only [foldlO, addTagDet, mulTagDet] at h ⊢
    rw [tagDet_toProb]
    cases ht : tagDet tags sp.1 sp.2 with
    | none => simp [ht] at h
    | some w =>
      simp only [ht, Option.map_some] at h ⊢
      have := ih (a + w) r h
      rwa [Real.exp_add] at this

theorem consistent_det (rules : AList NT (AList DP (List NT))) (start : NT) (tags : AList NT (AList DP ℝ))
    (t : Prog) (lp : ℝ) (h : logProbabilityDet rules start tags t = some lp) :
    derivWeightDet rules start (toProbDet tags) t = some (Real.exp lp) := by
  unfold logProbabilityDet at h
  rw [reduceDet_eq] at h
  unfold derivWeightDet
  cases hd : derivDet rules t start [] with
  | none => simp [hd, viaDeriv] at h
  | some d =>
    obtain ⟨l, i, n⟩ := d
    simp only [hd, viaDeriv] at h
    cases hf : foldlO (fun b (sp : NT × DP) => addTagDet tags b sp.1 sp.2) (ExpLog.ofNat 0) l with
    | none => rw [hf] at h; simp at h
    | some r =>
      rw [hf] at h
      simp only [Option.some.injEq] at h
      subst h
      have := fold_add_mul tags l _ _ hf
      simpa using this

end Consistent

/-! ### encode -/
section Encode

theorem indicator_length (n : ℕ) (ps : List ℕ) : (indicator n ps).length = n := by
  simp [indicator]

theorem indicator_nil (n : ℕ) : indicator n [] = List.replicate n 0 := by
  apply List.ext_getElem
  · simp [indicator]
  · intro i h1 h2; simp [indicator]

theorem setOne_indicator (n : ℕ) (ps : List ℕ) (i : ℕ) (out : List ℕ)
    (h : setOne (indicator n ps) i = some out) : out = indicator n (ps ++ [i]) ∧ i < n := by
  unfold setOne at h
  rw [indicator_length] at h
  by_cases hi : i < n
  · simp only [hi, if_true, Option.some.injEq] at h
    subst h
    refine ⟨?_, hi⟩
    apply List.ext_getElem
    · simp [indicator]
    · intro j h1 h2
      simp only [indicator, List.getElem_set, List.getElem_map, List.getElem_range, List.mem_append,
        List.mem_singleton]
      by_cases hij : i = j
      · simp [hij]
      · have hji : ¬ j = i := fun h => hij h.symm
        simp [hij, hji]
  · simp [hi] at h

theorem encode_fold (L : Layer) (n : ℕ) :
    ∀ (l : List (NT × DP)) (ps : List ℕ) (out : List ℕ),
      foldlO (fun o (sp : NT × DP) => encStep L o sp.1 sp.2) (indicator n ps) l = some out →
      out = indicator n (ps ++ positionsOf L l) ∧ ∀ i ∈ positionsOf L l, i < n := by
  intro l
  induction l with
  | nil => intro ps out h; simp [foldlO] at h; subst h; simp [positionsOf]
  | cons sp rest ih =>
    intro ps out h
    simp only [foldlO] at h
    by_cases hk : sp.2.kind = .prim
    · simp only [encStep, hk, if_true] at h
      cases hp : posOf L sp.1 sp.2 with
      | none => simp [hp] at h
      | some i =>
        simp only [hp] at h
        cases hs : setOne (indicator n ps) i with
        | none => simp [hs] at h
        | some o1 =>
          simp only [hs] at h
          obtain ⟨ho1, hi⟩ := setOne_indicator n ps i o1 hs
          subst ho1
          obtain ⟨r1, r2⟩ := ih _ _ h
          have hpos : positionsOf L (sp :: rest) = i :: positionsOf L rest := by
            simp [positionsOf, List.filterMap_cons, hk, hp]
          rw [hpos]
          refine ⟨by rw [r1]; simp, ?_⟩
          intro j hj
          rcases List.mem_cons.mp hj with h' | h'
          · subst h'; exact hi
          · exact r2 j h'
    · simp only [encStep, hk, if_false] at h
      obtain ⟨r1, r2⟩ := ih _ _ h
      have hpos : positionsOf L (sp :: rest) = positionsOf L rest := by
        simp [positionsOf, List.filterMap_cons, hk]
      rw [hpos]; exact ⟨r1, r2⟩

theorem encode_det (L : Layer) (rules : AList NT (AList DP (List NT))) (start : NT) (t : Prog)
    (out : List ℕ) (h : encodeDet L rules start t = some out) :
    ∃ d i n, derivDet rules t start [] = some (d, i, n)
      ∧ out = indicator L.outputSize (positionsOf L d)
      ∧ ∀ p ∈ positionsOf L d, p < L.outputSize := by
  unfold encodeDet at h
  rw [reduceDet_eq] at h
  cases hd : derivDet rules t start [] with
  | none => simp [hd, viaDeriv] at h
  | some d =>
    obtain ⟨l, i, n⟩ := d
    simp only [hd, viaDeriv, ← indicator_nil] at h
    cases hf : foldlO (fun b (sp : NT × DP) => encStep L b sp.1 sp.2) (indicator L.outputSize []) l with
    | none => rw [hf] at h; simp at h
    | some r =>
      rw [hf] at h
      simp only [Option.some.injEq] at h
      subst h
      obtain ⟨r1, r2⟩ := encode_fold L L.outputSize l [] _ hf
      exact ⟨l, i, n, rfl, by simpa using r1, r2⟩

end Encode

/-! ### the unambiguous layer, one non-terminal -/
section ULayer

abbrev TagsU := AList DP (AList Alt ℝ)

/-- `Σ exp t` over one inner dict -/
noncomputable def inner (d : AList Alt ℝ) : ℝ := wsum (fun _ t => Real.exp t) d

/-- selective mass `Σ_{(P,d) ∈ T, sel P} Σ_{(k,t) ∈ d} exp t` -/
noncomputable def massU' (sel : DP → Bool) (T : TagsU) : ℝ :=
  wsum (fun P d => if sel P then inner d else 0) T

/-- `tags[S][P].get(k)` -/
def innerLookup (T : TagsU) (P : DP) (k : Alt) : Option ℝ :=
  AList.lookup k ((AList.lookup P T).getD [])

theorem inner_nonneg (d : AList Alt ℝ) : 0 ≤ inner d := by
  unfold inner wsum
  apply List.sum_nonneg
  intro x hx
  simp only [List.mem_map] at hx
  obtain ⟨e, _, rfl⟩ := hx
  exact Real.exp_nonneg _

theorem massU_eq (T : TagsU) : massU T = massU' (fun _ => true) T := by
  unfold massU massU' inner wsum
  rw [sumL_eq]
  congr 1
  apply List.map_congr_left
  intro e _
  rw [sumL_eq]; simp

theorem massU'_setInner (sel : DP → Bool) (T : TagsU) (P : DP) (k : Alt) (t : ℝ)
    (h : innerLookup T P k = none) :
    massU' sel (setInner T P k t) = massU' sel T + (if sel P then Real.exp t else 0) := by
  unfold innerLookup at h
  unfold massU' setInner
  rw [wsum_insert]
  have hin : inner (AList.insert k t ((AList.lookup P T).getD [])) = inner ((AList.lookup P T).getD []) + Real.exp t := by
    unfold inner; rw [wsum_insert]; simp [h]
  cases hl : AList.lookup P T with
  | none =>
    rw [hl] at hin
    simp only [hl, Option.getD_none, Option.map_none] at hin ⊢
    rw [hin]; simp [inner]
  | some old =>
    rw [hl] at hin
    simp only [hl, Option.getD_some, Option.map_some] at hin ⊢
    rw [hin]
    by_cases hs : sel P
    · simp only [hs, if_true]; ring
    · simp [hs]

theorem innerLookup_setInner (T : TagsU) (P : DP) (k : Alt) (t : ℝ) (P' : DP) (k' : Alt) :
    innerLookup (setInner T P k t) P' k' = if P' = P ∧ k' = k then some t else innerLookup T P' k' := by
  unfold innerLookup setInner
  by_cases hP : P' = P
  · subst hP
    rw [AList.lookup_insert_self]
    simp only [Option.getD_some, true_and]
    rw [AList.lookup_insert]
  · rw [AList.lookup_insert_ne _ _ hP]; simp [hP]

/-- the two nested loops over variables as one loop over (P, alternative) pairs -/
noncomputable def assignPairs (tvo : Bool) (ε : ℝ) : List (DP × Alt) → ℝ → TagsU → TagsU × ℝ
  | [], nvl, T => (T, nvl)
  | (P, k) :: r, nvl, T =>
    assignPairs tvo ε r (if tvo then ExpLog.log (ExpLog.exp nvl - ε) else nvl) (setInner T P k nvl)

def pairsOf (l : List (DP × List Alt)) : List (DP × Alt) := l.flatMap (fun p => p.2.map (fun k => (p.1, k)))

theorem assignPairs_append (tvo : Bool) (ε : ℝ) (l1 l2 : List (DP × Alt)) (nvl : ℝ) (T : TagsU) :
    assignPairs tvo ε (l1 ++ l2) nvl T
      = assignPairs tvo ε l2 (assignPairs tvo ε l1 nvl T).2 (assignPairs tvo ε l1 nvl T).1 := by
  induction l1 generalizing nvl T with
  | nil => rfl
  | cons p r ih => obtain ⟨P, k⟩ := p; simp only [List.cons_append, assignPairs]; exact ih _ _

theorem assignAltsU_eq (tvo : Bool) (ε : ℝ) (P : DP) (alts : List Alt) (nvl : ℝ) (T : TagsU) :
    assignAltsU tvo ε P alts nvl T = assignPairs tvo ε (alts.map (fun k => (P, k))) nvl T := by
  induction alts generalizing nvl T with
  | nil => rfl
  | cons k r ih => simp only [assignAltsU, List.map_cons, assignPairs]; exact ih _ _

theorem assignVarsU_eq (tvo : Bool) (ε : ℝ) (vars : List (DP × List Alt)) (nvl : ℝ) (T : TagsU) :
    assignVarsU tvo ε vars nvl T = assignPairs tvo ε (pairsOf vars) nvl T := by
  induction vars generalizing nvl T with
  | nil => rfl
  | cons p r ih =>
    obtain ⟨P, alts⟩ := p
    simp only [assignVarsU, pairsOf, List.flatMap_cons]
    rw [assignPairs_append, ← assignAltsU_eq]
    exact ih _ _

noncomputable def constPairs : List (DP × Alt) → ℝ → TagsU → TagsU
  | [], _, T => T
  | (P, k) :: r, nvl, T => constPairs r nvl (setInner T P k nvl)

theorem constPairs_append (l1 l2 : List (DP × Alt)) (nvl : ℝ) (T : TagsU) :
    constPairs (l1 ++ l2) nvl T = constPairs l2 nvl (constPairs l1 nvl T) := by
  induction l1 generalizing T with
  | nil => rfl
  | cons p r ih => obtain ⟨P, k⟩ := p; simp only [List.cons_append, constPairs]; exact ih _

theorem foldl_setInner_eq (P : DP) (alts : List Alt) (nvl : ℝ) (T : TagsU) :
    alts.foldl (fun T k => setInner T P k nvl) T = constPairs (alts.map (fun k => (P, k))) nvl T := by
  induction alts generalizing T with
  | nil => rfl
  | cons k r ih => simp only [List.foldl_cons, List.map_cons, constPairs]; exact ih _

theorem assignConstsU_eq (consts : List (DP × List Alt)) (nvl : ℝ) (T : TagsU) :
    assignConstsU consts nvl T = constPairs (pairsOf consts) nvl T := by
  induction consts generalizing T with
  | nil => rfl
  | cons p r ih =>
    obtain ⟨P, alts⟩ := p
    simp only [assignConstsU, pairsOf, List.flatMap_cons]
    rw [constPairs_append, ← foldl_setInner_eq]
    exact ih _

theorem assignPairs_spec (tvo : Bool) (ε : ℝ) (hε : 0 ≤ ε) (sel : DP → Bool) (b : Bool) :
    ∀ (ps : List (DP × Alt)) (nvl : ℝ) (T : TagsU),
      ps.Nodup → (∀ p ∈ ps, innerLookup T p.1 p.2 = none) → (∀ p ∈ ps, sel p.1 = b) →
      (ps.length : ℝ) * eff tvo ε < Real.exp nvl →
      massU' sel (assignPairs tvo ε ps nvl T).1
          = massU' sel T + (if b then (ps.length : ℝ) * Real.exp nvl - eff tvo ε * tri ps.length else 0)
      ∧ Real.exp (assignPairs tvo ε ps nvl T).2 = Real.exp nvl - ps.length * eff tvo ε
      ∧ (∀ q, q ∉ ps → innerLookup (assignPairs tvo ε ps nvl T).1 q.1 q.2 = innerLookup T q.1 q.2) := by
  have heff : 0 ≤ eff tvo ε := by unfold eff; split <;> simp [hε]
  intro ps
  induction ps with
  | nil => intro nvl T _ _ _ _; simp [assignPairs, tri]
  | cons p r ih =>
    obtain ⟨P, k⟩ := p
    intro nvl T hnd hfresh hsel hb
    have hnd' := List.nodup_cons.mp hnd
    have hlen : (((P, k) :: r).length : ℝ) = (r.length : ℝ) + 1 := by simp
    rw [hlen] at hb
    have hr0 : (0 : ℝ) ≤ r.length := Nat.cast_nonneg _
    have h1 : eff tvo ε < Real.exp nvl := by nlinarith
    have hnext := next_nvl tvo ε nvl h1
    have hfreshP : innerLookup T P k = none := hfresh (P, k) (by simp)
    have hfresh' : ∀ q ∈ r, innerLookup (setInner T P k nvl) q.1 q.2 = none := by
      intro q hq
      rw [innerLookup_setInner]
      have hne : ¬ (q.1 = P ∧ q.2 = k) := by
        intro h; apply hnd'.1
        have : q = (P, k) := Prod.ext h.1 h.2
        rw [← this]; exact hq
      simp only [hne, if_false]
      exact hfresh q (by simp [hq])
    have hb' : (r.length : ℝ) * eff tvo ε
        < Real.exp (if tvo then ExpLog.log (ExpLog.exp nvl - ε) else nvl) := by
      rw [hnext]; nlinarith
    obtain ⟨i1, i2, i3⟩ := ih (if tvo then ExpLog.log (ExpLog.exp nvl - ε) else nvl) (setInner T P k nvl)
      hnd'.2 hfresh' (fun q hq => hsel q (by simp [hq])) hb'
    simp only [assignPairs]
    refine ⟨?_, ?_, ?_⟩
    · rw [i1, massU'_setInner sel T P k nvl hfreshP, hsel (P, k) (by simp), hnext]
      cases b with
      | false => simp
      | true =>
        simp only [if_true, List.length_cons, tri_succ]
        push_cast; ring
    · rw [i2, hnext, hlen]; ring
    · intro q hq
      have hq' : q ≠ (P, k) ∧ q ∉ r := by simpa [List.mem_cons, not_or] using hq
      rw [i3 q hq'.2, innerLookup_setInner]
      have hne : ¬ (q.1 = P ∧ q.2 = k) := by
        intro h; exact hq'.1 (Prod.ext h.1 h.2)
      simp [hne]

theorem constPairs_spec (sel : DP → Bool) (b : Bool) :
    ∀ (ps : List (DP × Alt)) (nvl : ℝ) (T : TagsU),
      ps.Nodup → (∀ p ∈ ps, innerLookup T p.1 p.2 = none) → (∀ p ∈ ps, sel p.1 = b) →
      massU' sel (constPairs ps nvl T) = massU' sel T + (if b then (ps.length : ℝ) * Real.exp nvl else 0) := by
  intro ps
  induction ps with
  | nil => intro nvl T _ _ _; simp [constPairs]
  | cons p r ih =>
    obtain ⟨P, k⟩ := p
    intro nvl T hnd hfresh hsel
    have hnd' := List.nodup_cons.mp hnd
    have hfresh' : ∀ q ∈ r, innerLookup (setInner T P k nvl) q.1 q.2 = none := by
      intro q hq
      rw [innerLookup_setInner]
      have hne : ¬ (q.1 = P ∧ q.2 = k) := by
        intro h; apply hnd'.1
        have : q = (P, k) := Prod.ext h.1 h.2
        rw [← this]; exact hq
      simp only [hne, if_false]
      exact hfresh q (by simp [hq])
    simp only [constPairs]
    rw [ih nvl _ hnd'.2 hfresh' (fun q hq => hsel q (by simp [hq])),
      massU'_setInner sel T P k nvl (hfresh (P, k) (by simp)), hsel (P, k) (by simp)]
    cases b with
    | false => simp
    | true => simp only [if_true, List.length_cons]; push_cast; ring

theorem nAlts_eq (l : List (DP × List Alt)) : nAlts l = (pairsOf l).length := by
  unfold nAlts pairsOf
  rw [← List.sum_eq_foldl, List.length_flatMap]
  simp

theorem innerLookup_addAll (T : TagsU) (a : ℝ) (P : DP) (k : Alt) :
    innerLookup (addAllU T a) P k = (innerLookup T P k).map (· + a) := by
  unfold innerLookup addAllU
  rw [lookup_map_val (fun (d : AList Alt ℝ) => d.map (fun z => (z.1, z.2 + a))) P T]
  cases AList.lookup P T with
  | none => simp [AList.lookup]
  | some d =>
    simp only [Option.map_some, Option.getD_some]
    exact lookup_map_val (fun t : ℝ => t + a) k d

theorem inner_map_add (a : ℝ) (d : AList Alt ℝ) :
    inner (d.map (fun z => (z.1, z.2 + a))) = Real.exp a * inner d := by
  induction d with
  | nil => simp [inner]
  | cons p r ih =>
    simp only [inner, List.map_cons, wsum_cons] at ih ⊢
    rw [ih, Real.exp_add]; ring

theorem massU'_addAll (sel : DP → Bool) (bp : Bool) (a : ℝ) (T : TagsU)
    (hsel : ∀ e ∈ T, e.2 ≠ [] → sel e.1 = bp) :
    massU' sel (addAllU T a) = if bp then Real.exp a * massU' (fun _ => true) T else 0 := by
  induction T with
  | nil => simp [massU', addAllU]
  | cons p r ih =>
    have ih' := ih (fun e he hne => hsel e (by simp [he]) hne)
    simp only [massU', addAllU, List.map_cons, wsum_cons] at ih' ⊢
    rw [ih', inner_map_add]
    by_cases hp : p.2 = []
    · simp only [hp, inner, wsum_nil, mul_zero, ite_self, zero_add, if_true]
    · have := hsel p (by simp) hp
      rw [this]
      cases bp with
      | false => simp
      | true => simp only [if_true]; ring

theorem addAllU_zero (T : TagsU) : addAllU T 0 = T := by
  unfold addAllU
  have hid : (fun z : Alt × ℝ => (z.1, z.2 + 0)) = id := by funext z; simp
  simp [hid]

theorem massU'_of_sel (sel : DP → Bool) (bp : Bool) (T : TagsU)
    (hsel : ∀ e ∈ T, e.2 ≠ [] → sel e.1 = bp) :
    massU' sel T = if bp then massU' (fun _ => true) T else 0 := by
  have := massU'_addAll sel bp 0 T hsel
  rw [addAllU_zero] at this
  simpa using this

/-- value of the variable/constant mass: `v` when the primitive rules have mass -/
noncomputable def vpOfU (v : ℝ) (tags0 : TagsU) : ℝ := if 0 < massU' (fun _ => true) tags0 then v else 1

theorem massU'_nonneg (T : TagsU) : 0 ≤ massU' (fun _ => true) T := by
  unfold massU' wsum
  apply List.sum_nonneg
  intro x hx
  simp only [List.mem_map] at hx
  obtain ⟨e, _, rfl⟩ := hx
  simp [inner_nonneg]

/-- the master lemma for one non-terminal of the unambiguous layer (variables or constants exist) -/
theorem tagNTU_mass_vars (v ε : ℝ) (tvo : Bool) (tags0 : TagsU) (vars consts : List (DP × List Alt))
    (hv0 : 0 < v) (hv1 : v < 1) (hε : 0 ≤ ε)
    (hnd : (pairsOf vars ++ pairsOf consts).Nodup)
    (hfresh : ∀ p ∈ pairsOf vars ++ pairsOf consts, innerLookup tags0 p.1 p.2 = none)
    (hvc : vars ≠ [] ∨ consts ≠ [])
    (hMC : 0 < nAlts vars + nAlts consts)
    (heps : (nAlts vars : ℝ) * eff tvo ε * (nAlts vars + nAlts consts) < vpOfU v tags0)
    (sel : DP → Bool) (bp b : Bool)
    (hselp : ∀ e ∈ tags0, e.2 ≠ [] → sel e.1 = bp)
    (hselv : ∀ p ∈ pairsOf vars ++ pairsOf consts, sel p.1 = b) :
    massU' sel (tagNTU v ε tvo tags0 vars consts)
      = (if bp then 1 - vpOfU v tags0 else 0)
        + (if b then vpOfU v tags0 - eff tvo ε * (tri (nAlts vars) + nAlts consts * nAlts vars) else 0) := by
  have heff : 0 ≤ eff tvo ε := by unfold eff; split <;> simp [hε]
  set m := nAlts vars with hm
  set c := nAlts consts with hc
  have hmc : (0 : ℝ) < (m : ℝ) + c := by exact_mod_cast hMC
  have hnd1 := List.nodup_append.mp hnd
  have hcond : (!vars.isEmpty || !consts.isEmpty) = true := by
    rcases hvc with h | h
    · cases vars with
      | nil => exact absurd rfl h
      | cons _ _ => simp
    · cases consts with
      | nil => exact absurd rfl h
      | cons _ _ => simp
  unfold tagNTU
  simp only [hcond, if_true]
  rw [massU_eq]
  set tot := massU' (fun _ => true) tags0 with htot
  set tv : TagsU × ℝ :=
    (if ExpLog.pos tot = true then (addAllU tags0 (ExpLog.log ((ExpLog.ofNat 1 - v) / tot)), v)
     else (tags0, ExpLog.ofNat 1)) with htv
  have htv2 : tv.2 = vpOfU v tags0 := by
    by_cases hp : 0 < tot
    · have hpos : ExpLog.pos tot = true := (pos_real _).mpr hp
      simp only [htv, hpos, if_true, vpOfU, ← htot, hp]
    · have hpos : ¬ ExpLog.pos tot = true := fun h => hp ((pos_real _).mp h)
      simp only [htv, hpos, Bool.false_eq_true, if_false, vpOfU, ← htot, hp, ofNat_real, Nat.cast_one]
  have hfreshT : ∀ p ∈ pairsOf vars ++ pairsOf consts, innerLookup tv.1 p.1 p.2 = none := by
    intro p hp
    by_cases hpos : ExpLog.pos tot = true
    · simp only [htv, hpos, if_true]; rw [innerLookup_addAll, hfresh p hp]; rfl
    · simp only [htv, hpos, Bool.false_eq_true, if_false]; exact hfresh p hp
  have htv1 : massU' sel tv.1 = if bp then 1 - vpOfU v tags0 else 0 := by
    by_cases hp : 0 < tot
    · have hpos : ExpLog.pos tot = true := (pos_real _).mpr hp
      simp only [htv, hpos, if_true]
      rw [massU'_addAll sel bp _ tags0 hselp]
      simp only [vpOfU, ← htot, hp, if_true, log_real, ofNat_real, Nat.cast_one]
      cases bp with
      | false => simp
      | true =>
        simp only [if_true]
        rw [Real.exp_log (by apply div_pos <;> linarith)]
        have hne : tot ≠ 0 := ne_of_gt hp
        field_simp
    · have hpos : ¬ ExpLog.pos tot = true := fun h => hp ((pos_real _).mp h)
      simp only [htv, hpos, Bool.false_eq_true, if_false]
      rw [massU'_of_sel sel bp tags0 hselp]
      have h0 : tot = 0 := le_antisymm (not_lt.mp hp) (massU'_nonneg tags0)
      simp only [vpOfU, ← htot, hp, if_false, h0]
      cases bp <;> simp
  have hvp : 0 < vpOfU v tags0 := by unfold vpOfU; split <;> linarith
  set nvl : ℝ := ExpLog.log (tv.2 / ExpLog.ofNat (m + c)) with hnvl
  have hq : Real.exp nvl = vpOfU v tags0 / ((m : ℝ) + c) := by
    simp only [hnvl, log_real, ofNat_real, htv2]
    push_cast
    rw [Real.exp_log (div_pos hvp hmc)]
  have hlenV : (pairsOf vars).length = m := (nAlts_eq vars).symm
  have hlenC : (pairsOf consts).length = c := (nAlts_eq consts).symm
  have hbound : ((pairsOf vars).length : ℝ) * eff tvo ε < Real.exp nvl := by
    rw [hlenV, hq, lt_div_iff₀ hmc]; exact heps
  rw [assignVarsU_eq, assignConstsU_eq]
  obtain ⟨a1, a2, a3⟩ := assignPairs_spec tvo ε hε sel b (pairsOf vars) nvl tv.1 hnd1.1
    (fun p hp => hfreshT p (by simp [hp])) (fun p hp => hselv p (by simp [hp])) hbound
  have hfreshC : ∀ p ∈ pairsOf consts, innerLookup (assignPairs tvo ε (pairsOf vars) nvl tv.1).1 p.1 p.2 = none := by
    intro p hp
    have hnot : p ∉ pairsOf vars := fun h => hnd1.2.2 p h p hp rfl
    rw [a3 p hnot]
    exact hfreshT p (by simp [hp])
  rw [constPairs_spec sel b (pairsOf consts) _ _ hnd1.2.1 hfreshC (fun p hp => hselv p (by simp [hp])),
    a1, htv1, a2, hq, hlenV, hlenC]
  cases b with
  | false => simp
  | true =>
    simp only [if_true]
    have hne : ((m : ℝ) + c) ≠ 0 := ne_of_gt hmc
    field_simp
    ring

theorem tagNTU_mass_novars (v ε : ℝ) (tvo : Bool) (tags0 : TagsU)
    (hpos : 0 < massU' (fun _ => true) tags0)
    (sel : DP → Bool) (bp : Bool) (hselp : ∀ e ∈ tags0, e.2 ≠ [] → sel e.1 = bp) :
    massU' sel (tagNTU v ε tvo tags0 [] []) = if bp then 1 else 0 := by
  unfold tagNTU
  simp only [List.isEmpty_nil, Bool.not_true, Bool.or_self, Bool.false_eq_true, if_false]
  rw [massU_eq, massU'_addAll sel bp _ tags0 hselp]
  cases bp with
  | false => simp
  | true =>
    simp only [if_true, log_real, ofNat_real, Nat.cast_one]
    rw [Real.exp_log (by positivity)]
    field_simp

/-! #### what `primTagsU` builds -/

theorem mem_insert {κ ν : Type} [DecidableEq κ] {k : κ} {v : ν} {d : AList κ ν} {e : κ × ν}
    (h : e ∈ AList.insert k v d) : e = (k, v) ∨ e ∈ d := by
  induction d with
  | nil => simp [AList.insert] at h; exact Or.inl h
  | cons p r ih =>
    obtain ⟨k', v'⟩ := p
    by_cases hk : k' = k
    · simp only [AList.insert, hk, if_true, List.mem_cons] at h
      rcases h with h | h
      · exact Or.inl h
      · exact Or.inr (by simp [h])
    · simp only [AList.insert, hk, if_false, List.mem_cons] at h
      rcases h with h | h
      · exact Or.inr (by simp [h])
      · rcases ih h with h' | h'
        · exact Or.inl h'
        · exact Or.inr (by simp [h'])

theorem lookup_setInner_ne (T : TagsU) (P Q : DP) (k : Alt) (t : ℝ) (h : Q ≠ P) :
    AList.lookup Q (setInner T P k t) = AList.lookup Q T := by
  unfold setInner; exact AList.lookup_insert_ne _ _ h

theorem lookup_foldl_setInner_ne (P Q : DP) (t : ℝ) (h : Q ≠ P) :
    ∀ (alts : List Alt) (T : TagsU),
      AList.lookup Q (alts.foldl (fun T k => setInner T P k t) T) = AList.lookup Q T := by
  intro alts
  induction alts with
  | nil => intro T; rfl
  | cons k r ih => intro T; simp only [List.foldl_cons]; rw [ih, lookup_setInner_ne _ _ _ _ _ h]

theorem lookup_foldl_setInner_self (P : DP) (t : ℝ) :
    ∀ (alts : List Alt) (T : TagsU), alts ≠ [] →
      ∃ d, AList.lookup P (alts.foldl (fun T k => setInner T P k t) T) = some d ∧ d ≠ [] := by
  intro alts
  induction alts with
  | nil => intro T h; exact absurd rfl h
  | cons k r ih =>
    intro T _
    simp only [List.foldl_cons]
    by_cases hr : r = []
    · subst hr
      simp only [List.foldl_nil, setInner]
      refine ⟨_, AList.lookup_insert_self _ _ _, ?_⟩
      intro h
      have := AList.lookup_insert_self k t ((AList.lookup P T).getD [])
      rw [h] at this; simp [AList.lookup] at this
    · exact ih _ hr

theorem mem_foldl_setInner (P : DP) (t : ℝ) :
    ∀ (alts : List Alt) (T : TagsU) (e : DP × AList Alt ℝ),
      e ∈ alts.foldl (fun T k => setInner T P k t) T → e.1 = P ∨ e ∈ T := by
  intro alts
  induction alts with
  | nil => intro T e h; exact Or.inr h
  | cons k r ih =>
    intro T e h
    simp only [List.foldl_cons] at h
    rcases ih _ e h with h' | h'
    · exact Or.inl h'
    · unfold setInner at h'
      rcases mem_insert h' with h'' | h''
      · left; rw [h'']
      · exact Or.inr h''

/-- invariants of the first loop of the U-layer -/
theorem primTagsU_inv (sym : AList DP Nat) (y : List ℝ) :
    ∀ (rows : List (DP × List Alt)) (T T' : TagsU), primTagsU sym y rows T = some T' →
      ((∀ Q : DP, Q.kind ≠ .prim → (AList.lookup Q T).getD [] = []) →
        (∀ Q : DP, Q.kind ≠ .prim → (AList.lookup Q T').getD [] = []))
      ∧ ((∀ e ∈ T, e.2 ≠ [] → e.1.kind = .prim) → (∀ e ∈ T', e.2 ≠ [] → e.1.kind = .prim))
      ∧ ((∀ e ∈ T, e.2 = []) → (∀ r ∈ rows, r.1.kind = .prim → r.2 = []) → (∀ e ∈ T', e.2 = []))
      ∧ (∀ Q : DP, Q ∉ rows.map (·.1) → AList.lookup Q T' = AList.lookup Q T) := by
  intro rows
  induction rows with
  | nil =>
    intro T T' h; simp [primTagsU] at h; subst h
    exact ⟨fun h => h, fun h => h, fun h _ => h, fun _ _ => rfl⟩
  | cons row rest ih =>
    obtain ⟨P, alts⟩ := row
    intro T T' h
    simp only [primTagsU] at h
    -- state after `tags[S][P] = {}`
    have hT1a : ∀ Q : DP, (∀ Q : DP, Q.kind ≠ .prim → (AList.lookup Q T).getD [] = []) → Q.kind ≠ .prim →
        (AList.lookup Q (AList.insert P ([] : AList Alt ℝ) T)).getD [] = [] := by
      intro Q hT hQ
      rw [AList.lookup_insert]
      by_cases hQP : Q = P
      · simp [hQP]
      · simp only [hQP, if_false]; exact hT Q hQ
    have hT1b : (∀ e ∈ T, e.2 ≠ [] → e.1.kind = .prim) →
        ∀ e ∈ AList.insert P ([] : AList Alt ℝ) T, e.2 ≠ [] → e.1.kind = .prim := by
      intro hT e he hne
      rcases mem_insert he with h' | h'
      · rw [h'] at hne; exact absurd rfl hne
      · exact hT e h' hne
    have hT1c : (∀ e ∈ T, e.2 = []) → ∀ e ∈ AList.insert P ([] : AList Alt ℝ) T, e.2 = [] := by
      intro hT e he
      rcases mem_insert he with h' | h'
      · rw [h']
      · exact hT e h'
    have hT1d : ∀ Q : DP, Q ≠ P → AList.lookup Q (AList.insert P ([] : AList Alt ℝ) T) = AList.lookup Q T :=
      fun Q hQ => AList.lookup_insert_ne _ _ hQ
    by_cases hk : P.kind = .prim
    · simp only [hk, if_true] at h
      cases hs : sym.lookup P with
      | none => simp [hs] at h
      | some i =>
        simp only [hs] at h
        cases alts with
        | nil =>
          simp only [] at h
          obtain ⟨i1, i2, i3, i4⟩ := ih _ _ h
          refine ⟨fun hT => i1 (fun Q hQ => hT1a Q hT hQ), fun hT => i2 (hT1b hT),
            fun hT hr => i3 (hT1c hT) (fun r hr' => hr r (by simp [hr'])), ?_⟩
          intro Q hQ
          simp only [List.map_cons, List.mem_cons, not_or] at hQ
          rw [i4 Q hQ.2, hT1d Q hQ.1]
        | cons k0 ks =>
          simp only [] at h
          cases hy : y[i]? with
          | none => simp [hy] at h
          | some t =>
            simp only [hy] at h
            obtain ⟨i1, i2, i3, i4⟩ := ih _ _ h
            refine ⟨fun hT => i1 ?_, fun hT => i2 ?_, fun hT hr => ?_, ?_⟩
            · intro Q hQ
              have hQP : Q ≠ P := by intro h'; rw [h'] at hQ; exact hQ hk
              rw [lookup_foldl_setInner_ne P Q t hQP]
              exact hT1a Q hT hQ
            · intro e he hne
              rcases mem_foldl_setInner P t _ _ e he with h' | h'
              · rw [h']; exact hk
              · exact hT1b hT e h' hne
            · have := hr (P, k0 :: ks) (by simp) hk
              simp at this
            · intro Q hQ
              simp only [List.map_cons, List.mem_cons, not_or] at hQ
              rw [i4 Q hQ.2, lookup_foldl_setInner_ne P Q t hQ.1, hT1d Q hQ.1]
    · simp only [hk, if_false] at h
      obtain ⟨i1, i2, i3, i4⟩ := ih _ _ h
      refine ⟨fun hT => i1 (fun Q hQ => hT1a Q hT hQ), fun hT => i2 (hT1b hT),
        fun hT hr => i3 (hT1c hT) (fun r hr' => hr r (by simp [hr'])), ?_⟩
      intro Q hQ
      simp only [List.map_cons, List.mem_cons, not_or] at hQ
      rw [i4 Q hQ.2, hT1d Q hQ.1]

/-- a primitive rule with alternatives has a non-empty entry -/
theorem primTagsU_nonempty (sym : AList DP Nat) (y : List ℝ) :
    ∀ (rows : List (DP × List Alt)) (T T' : TagsU), (rows.map (·.1)).Nodup →
      primTagsU sym y rows T = some T' →
      ∀ r ∈ rows, r.1.kind = .prim → r.2 ≠ [] → ∃ d, AList.lookup r.1 T' = some d ∧ d ≠ [] := by
  intro rows
  induction rows with
  | nil => intro T T' _ _ r hr; simp at hr
  | cons row rest ih =>
    obtain ⟨P, alts⟩ := row
    intro T T' hnd h r hr hk hne
    rw [List.map_cons] at hnd
    have hnd' := List.nodup_cons.mp hnd
    rcases List.mem_cons.mp hr with h' | h'
    · subst h'
      have hk' : P.kind = .prim := hk
      have hne' : alts ≠ [] := hne
      simp only [primTagsU, hk', if_true] at h
      cases hs : sym.lookup P with
      | none => simp [hs] at h
      | some i =>
        simp only [hs] at h
        cases alts with
        | nil => exact absurd rfl hne'
        | cons k0 ks =>
          simp only [] at h
          cases hy : y[i]? with
          | none => simp [hy] at h
          | some t =>
            simp only [hy] at h
            obtain ⟨_, _, _, i4⟩ := primTagsU_inv sym y rest _ _ h
            show ∃ d, AList.lookup P T' = some d ∧ d ≠ []
            rw [i4 P hnd'.1]
            exact lookup_foldl_setInner_self P t (k0 :: ks) _ (by simp)
    · -- the rule is in the rest
      simp only [primTagsU] at h
      by_cases hkP : P.kind = .prim
      · simp only [hkP, if_true] at h
        cases hs : sym.lookup P with
        | none => simp [hs] at h
        | some i =>
          simp only [hs] at h
          cases alts with
          | nil => simp only [] at h; exact ih _ _ hnd'.2 h r h' hk hne
          | cons k0 ks =>
            simp only [] at h
            cases hy : y[i]? with
            | none => simp [hy] at h
            | some t => simp only [hy] at h; exact ih _ _ hnd'.2 h r h' hk hne
      · simp only [hkP, if_false] at h
        exact ih _ _ hnd'.2 h r h' hk hne

theorem inner_pos {d : AList Alt ℝ} (h : d ≠ []) : 0 < inner d := by
  cases d with
  | nil => exact absurd rfl h
  | cons p r =>
    have h1 := inner_nonneg r
    have h2 : 0 < Real.exp p.2 := Real.exp_pos _
    simp only [inner, wsum_cons] at h1 ⊢
    linarith

theorem massU'_pos_of_mem {T : TagsU} {e : DP × AList Alt ℝ} (he : e ∈ T) (hne : e.2 ≠ []) :
    0 < massU' (fun _ => true) T := by
  induction T with
  | nil => simp at he
  | cons p r ih =>
    simp only [massU', wsum_cons, if_true]
    have hr := massU'_nonneg r
    simp only [massU'] at hr
    rcases List.mem_cons.mp he with h | h
    · subst h; have := inner_pos hne; simp only [if_true] at hr; linarith
    · have := ih h; simp only [massU', if_true] at this hr; have := inner_nonneg p.2; linarith

theorem massU'_zero_of_empty {T : TagsU} (h : ∀ e ∈ T, e.2 = []) : massU' (fun _ => true) T = 0 := by
  induction T with
  | nil => simp [massU']
  | cons p r ih =>
    have := ih (fun e he => h e (by simp [he]))
    simp only [massU', wsum_cons, if_true] at this ⊢
    rw [this, h p (by simp)]; simp [inner]

theorem mem_pairsOf {l : List (DP × List Alt)} {p : DP × Alt} :
    p ∈ pairsOf l ↔ ∃ r ∈ l, p.1 = r.1 ∧ p.2 ∈ r.2 := by
  unfold pairsOf
  simp only [List.mem_flatMap, List.mem_map]
  constructor
  · rintro ⟨r, hr, k, hk, rfl⟩; exact ⟨r, hr, rfl, hk⟩
  · rintro ⟨r, hr, h1, h2⟩; exact ⟨r, hr, p.2, h2, by rw [← h1]⟩

theorem pairsOf_nodup : ∀ (l : List (DP × List Alt)), (l.map (·.1)).Nodup → (∀ r ∈ l, r.2.Nodup) →
    (pairsOf l).Nodup := by
  intro l
  induction l with
  | nil => intro _ _; simp [pairsOf]
  | cons p r ih =>
    intro hk ha
    rw [List.map_cons] at hk
    have hk' := List.nodup_cons.mp hk
    have : pairsOf (p :: r) = p.2.map (fun k => (p.1, k)) ++ pairsOf r := by simp [pairsOf]
    rw [this, List.nodup_append]
    refine ⟨?_, ih hk'.2 (fun q hq => ha q (by simp [hq])), ?_⟩
    · exact (ha p (by simp)).map (fun a b hab => by simpa using hab)
    · intro a haa b hb hab
      subst hab
      simp only [List.mem_map] at haa
      obtain ⟨k, _, rfl⟩ := haa
      obtain ⟨q, hq, h1, _⟩ := mem_pairsOf.mp hb
      apply hk'.1
      simp only [List.mem_map]
      exact ⟨q, hq, h1.symm⟩

theorem countAlts_pos_iff (k : Kind) (rows : AList DP (List Alt)) :
    0 < countAlts k rows ↔ ∃ r ∈ rows, r.1.kind = k ∧ r.2 ≠ [] := by
  unfold countAlts
  rw [nAlts_eq, List.length_pos_iff_exists_mem]
  constructor
  · rintro ⟨p, hp⟩
    obtain ⟨r, hr, _, h2⟩ := mem_pairsOf.mp hp
    simp only [List.mem_filter, kindIs, decide_eq_true_eq] at hr
    exact ⟨r, hr.1, hr.2, List.ne_nil_of_mem h2⟩
  · rintro ⟨r, hr, hk, hne⟩
    obtain ⟨a, ha⟩ := List.exists_mem_of_ne_nil _ hne
    exact ⟨(r.1, a), mem_pairsOf.mpr ⟨r, by simp [List.mem_filter, kindIs, hr, hk], rfl, ha⟩⟩

/-- One entry of `tensor2logProbU`: the `sel`-mass of the tags of the non-terminal. -/
theorem tagEntryU_mass (L : Layer) (v ε : ℝ) (tvo : Bool) (x : List ℝ)
    (e : NT × AList DP (List Alt)) (t : NT × TagsU)
    (h : tagEntryU L v ε tvo x e = some t)
    (hv0 : 0 < v) (hv1 : v < 1) (hε : 0 ≤ ε) (hnd : (AList.keys e.2).Nodup)
    (halts : ∀ r ∈ e.2, r.2.Nodup)
    (sel : DP → Bool) (bp b : Bool)
    (hselp : ∀ P : DP, P.kind = .prim → sel P = bp) (hselv : ∀ P : DP, P.kind ≠ .prim → sel P = b) :
    t.1 = e.1 ∧
    (0 < countAlts .var e.2 + countAlts .const e.2 →
      hypEps v ε tvo (decide (0 < countAlts .prim e.2)) (countAlts .var e.2) (countAlts .const e.2) = true →
      massU' sel t.2 = (if bp then 1 - (if 0 < countAlts .prim e.2 then v else 1) else 0)
        + (if b then (if 0 < countAlts .prim e.2 then v else 1)
                      - epsTerm ε tvo (countAlts .var e.2) (countAlts .const e.2) else 0)) ∧
    (countKind .var e.2 + countKind .const e.2 = 0 → 0 < countAlts .prim e.2 →
      massU' sel t.2 = if bp then 1 else 0) := by
  unfold tagEntryU at h
  cases h1 : AList.lookup e.1 L.real2abs with
  | none => simp [h1] at h
  | some key =>
    cases h2 : AList.lookup key L.abs2index with
    | none => simp [h1, h2] at h
    | some idx =>
      obtain ⟨start, length, sym⟩ := idx
      simp only [h1, h2] at h
      cases h3 : primTagsU sym (slice x start length) e.2 [] with
      | none => simp [h3] at h
      | some tags0 =>
        simp only [h3, Option.some.injEq] at h
        subst h
        obtain ⟨i1, i2, i3, _⟩ := primTagsU_inv sym (slice x start length) e.2 [] tags0 h3
        have inv1 := i1 (by intro Q _; simp [AList.lookup])
        have inv2 := i2 (by intro e' he'; simp at he')
        have hkeys : AList.keys e.2 = e.2.map (·.1) := rfl
        have hposiff : 0 < massU' (fun _ => true) tags0 ↔ 0 < countAlts .prim e.2 := by
          rw [countAlts_pos_iff]
          constructor
          · intro hpos
            by_contra hcon
            have hall : ∀ r ∈ e.2, r.1.kind = .prim → r.2 = [] := by
              intro r hr hk
              by_contra hne
              exact hcon ⟨r, hr, hk, hne⟩
            have := massU'_zero_of_empty (i3 (by intro e' he'; simp at he') hall)
            linarith
          · rintro ⟨r, hr, hk, hne⟩
            obtain ⟨d, hd, hdne⟩ := primTagsU_nonempty sym (slice x start length) e.2 [] tags0
              (by rw [← hkeys]; exact hnd) h3 r hr hk hne
            exact massU'_pos_of_mem (AList.lookup_some_mem hd) hdne
        have hvp : vpOfU v tags0 = (if 0 < countAlts .prim e.2 then v else 1) := by
          unfold vpOfU
          by_cases hp : 0 < countAlts .prim e.2
          · simp [hp, hposiff.mpr hp]
          · have : ¬ 0 < massU' (fun _ => true) tags0 := fun h' => hp (hposiff.mp h')
            simp [hp, this]
        have hselp' : ∀ e' ∈ tags0, e'.2 ≠ [] → sel e'.1 = bp := fun e' he' hne => hselp _ (inv2 e' he' hne)
        set vars := e.2.filter (fun p => kindIs .var p.1) with hvars
        set consts := e.2.filter (fun p => kindIs .const p.1) with hconsts
        have hkindV : ∀ p ∈ pairsOf vars, p.1.kind = .var := by
          intro p hp
          obtain ⟨r, hr, h1', _⟩ := mem_pairsOf.mp hp
          simp only [hvars, List.mem_filter, kindIs, decide_eq_true_eq] at hr
          rw [h1']; exact hr.2
        have hkindC : ∀ p ∈ pairsOf consts, p.1.kind = .const := by
          intro p hp
          obtain ⟨r, hr, h1', _⟩ := mem_pairsOf.mp hp
          simp only [hconsts, List.mem_filter, kindIs, decide_eq_true_eq] at hr
          rw [h1']; exact hr.2
        have hkindVC : ∀ p ∈ pairsOf vars ++ pairsOf consts, p.1.kind ≠ .prim := by
          intro p hp
          rcases List.mem_append.mp hp with h' | h'
          · rw [hkindV p h']; decide
          · rw [hkindC p h']; decide
        refine ⟨rfl, ?_, ?_⟩
        · intro hMC hhyp
          have hsubV : ((vars.map (·.1))).Nodup :=
            hnd.sublist ((List.filter_sublist (l := e.2)).map _)
          have hsubC : ((consts.map (·.1))).Nodup :=
            hnd.sublist ((List.filter_sublist (l := e.2)).map _)
          have hndV := pairsOf_nodup vars hsubV (fun r hr => halts r (List.mem_of_mem_filter hr))
          have hndC := pairsOf_nodup consts hsubC (fun r hr => halts r (List.mem_of_mem_filter hr))
          have hndall : (pairsOf vars ++ pairsOf consts).Nodup := by
            rw [List.nodup_append]
            refine ⟨hndV, hndC, ?_⟩
            intro a ha b' hb hab
            subst hab
            have := hkindV a ha
            rw [hkindC a hb] at this
            exact absurd this (by decide)
          have hfresh : ∀ p ∈ pairsOf vars ++ pairsOf consts, innerLookup tags0 p.1 p.2 = none := by
            intro p hp
            unfold innerLookup
            rw [inv1 p.1 (hkindVC p hp)]; rfl
          have hvc : vars ≠ [] ∨ consts ≠ [] := by
            by_contra hcon
            simp only [not_or, ne_eq, not_not] at hcon
            unfold countAlts at hMC
            rw [← hvars, ← hconsts, hcon.1, hcon.2] at hMC
            simp [nAlts] at hMC
          have heps := hypEps_real hv0 hMC hhyp
          have hMV : countAlts .var e.2 = nAlts vars := rfl
          have hMCc : countAlts .const e.2 = nAlts consts := rfl
          have heps' : (nAlts vars : ℝ) * eff tvo ε * ((nAlts vars : ℝ) + nAlts consts) < vpOfU v tags0 := by
            rw [hvp, ← hMV, ← hMCc]
            simpa using heps
          have := tagNTU_mass_vars v ε tvo tags0 vars consts hv0 hv1 hε hndall hfresh hvc
            (by rw [← hMV, ← hMCc]; exact hMC) heps' sel bp b hselp'
            (fun p hp => hselv _ (hkindVC p hp))
          rw [this, hvp, epsTerm_real, ← hMV, ← hMCc]
        · intro hmc hnp
          have hv : vars = [] := by
            unfold countKind at hmc
            have h0 : ((AList.keys e.2).filter (kindIs .var)).length = 0 := by omega
            have := List.eq_nil_of_length_eq_zero h0
            rw [hvars]
            apply List.eq_nil_iff_forall_not_mem.mpr
            intro p hp
            simp only [List.mem_filter] at hp
            have hmem : p.1 ∈ (AList.keys e.2).filter (kindIs .var) := by
              simp only [List.mem_filter, AList.keys, List.mem_map]
              exact ⟨⟨p, hp.1, rfl⟩, hp.2⟩
            rw [this] at hmem; simp at hmem
          have hc : consts = [] := by
            unfold countKind at hmc
            have h0 : ((AList.keys e.2).filter (kindIs .const)).length = 0 := by omega
            have := List.eq_nil_of_length_eq_zero h0
            rw [hconsts]
            apply List.eq_nil_iff_forall_not_mem.mpr
            intro p hp
            simp only [List.mem_filter] at hp
            have hmem : p.1 ∈ (AList.keys e.2).filter (kindIs .const) := by
              simp only [List.mem_filter, AList.keys, List.mem_map]
              exact ⟨⟨p, hp.1, rfl⟩, hp.2⟩
            rw [this] at hmem; simp at hmem
          rw [hv, hc]
          exact tagNTU_mass_novars v ε tvo tags0 (hposiff.mpr hnp) sel bp hselp'

end ULayer

/-! ### grammar level: U-layer sums, start tags, consistency, encode -/
section UGrammar

theorem wfAlts_mem {rules : AList NT (AList DP (List Alt))} (h : wfAlts rules = true) :
    ∀ e ∈ rules, ∀ r ∈ e.2, r.2.Nodup := by
  intro e he r hr
  unfold wfAlts at h
  rw [List.all_eq_true] at h
  have := h e he
  rw [List.all_eq_true] at this
  simpa using this r hr

theorem massU_filter_eq (sel : DP → Bool) (T : TagsU) :
    massU (T.filter (fun e => sel e.1)) = massU' sel T := by
  rw [massU_eq]
  induction T with
  | nil => simp [massU']
  | cons p r ih =>
    simp only [massU', wsum_cons, if_true] at ih ⊢
    by_cases hs : sel p.1
    · simp only [List.filter_cons, hs, if_true, wsum_cons]; rw [← ih]
    · simp only [List.filter_cons, hs, Bool.false_eq_true, if_false]; rw [← ih]; simp

theorem wsum_exp_map_add {κ : Type} [DecidableEq κ] (a : ℝ) (d : AList κ ℝ) :
    wsum (fun _ t => Real.exp t) (d.map (fun z => (z.1, z.2 + a))) = Real.exp a * wsum (fun _ t => Real.exp t) d := by
  induction d with
  | nil => simp
  | cons p r ih =>
    simp only [List.map_cons, wsum_cons] at ih ⊢
    rw [ih, Real.exp_add]; ring

theorem wsum_exp_pos {κ : Type} [DecidableEq κ] {d : AList κ ℝ} (h : d ≠ []) : 0 < wsum (fun _ t => Real.exp t) d := by
  cases d with
  | nil => exact absurd rfl h
  | cons p r =>
    have h1 : 0 ≤ wsum (fun (_ : κ) t => Real.exp t) r := by
      unfold wsum
      apply List.sum_nonneg
      intro x hx
      simp only [List.mem_map] at hx
      obtain ⟨e, _, rfl⟩ := hx
      exact Real.exp_nonneg _
    have h2 : 0 < Real.exp p.2 := Real.exp_pos _
    simp only [wsum_cons]
    linarith

/-- start tags: `z + log(1 / Σ exp z)` sums to one -/
theorem startTags_norm (L : Layer) (starts : List NT) (x : List ℝ) (st : AList NT ℝ)
    (h : startTagsU L starts x = some st) (hne : st ≠ []) :
    sumL (st.map (fun e => (ExpLog.exp e.2 : ℝ))) = 1 := by
  unfold startTagsU at h
  simp only [] at h
  split at h
  · simp at h
  · rename_i d _
    simp only [Option.some.injEq] at h
    subst h
    have hd : d ≠ [] := by intro hd; subst hd; simp at hne
    rw [sumL_eq, sumL_eq]
    have e1 : (List.map (fun e : NT × ℝ => (ExpLog.exp e.2 : ℝ)) d).sum = wsum (fun _ t => Real.exp t) d := by
      simp [wsum]
    rw [e1]
    have hpos := wsum_exp_pos hd
    have e2 : (List.map (fun e : NT × ℝ => (ExpLog.exp e.2 : ℝ))
        (List.map (fun e : NT × ℝ => (e.1, e.2 + ExpLog.log (ExpLog.ofNat 1 / wsum (fun _ t => Real.exp t) d))) d)).sum
        = wsum (fun _ t => Real.exp t)
            (d.map (fun z => (z.1, z.2 + Real.log (1 / wsum (fun _ t => Real.exp t) d)))) := by
      simp [wsum]
    rw [e2, wsum_exp_map_add, Real.exp_log (by positivity)]
    field_simp

theorem forall₂_mem_right {β γ : Type} {R : β → γ → Prop} :
    ∀ {l : List β} {r : List γ}, List.Forall₂ R l r → ∀ y ∈ r, ∃ x ∈ l, R x y := by
  intro l r h
  induction h with
  | nil => intro y hy; simp at hy
  | cons hab _ ih =>
    intro y hy
    rcases List.mem_cons.mp hy with h' | h'
    · subst h'; exact ⟨_, by simp, hab⟩
    · obtain ⟨x, hx, hr⟩ := ih y h'; exact ⟨x, by simp [hx], hr⟩

theorem tagU_exp (tags : AList NT TagsU) (st : StepU) :
    tagU (expTagsU tags) st = (tagU tags st).map Real.exp := by
  unfold tagU expTagsU
  rw [lookup_map_val (fun (d : TagsU) => d.map (fun dd => (dd.1, dd.2.map (fun z => (z.1, (ExpLog.exp z.2 : ℝ)))))) st.S tags]
  cases AList.lookup st.S tags with
  | none => rfl
  | some d =>
    simp only [Option.map_some]
    rw [lookup_map_val (fun (a : AList Alt ℝ) => a.map (fun z => (z.1, (ExpLog.exp z.2 : ℝ)))) st.P d]
    cases AList.lookup st.P d with
    | none => rfl
    | some a =>
      simp only [Option.map_some]
      exact lookup_map_val (fun t : ℝ => (ExpLog.exp t : ℝ)) st.v a

theorem fold_add_mul_U (tags : AList NT TagsU) :
    ∀ (l : List StepU) (a r : ℝ),
      foldlO (addTagU tags) a l = some r →
      foldlO (mulTagU (expTagsU tags)) (Real.exp a) l = some (Real.exp r) := by
  intro l
  induction l with
  | nil => intro a r h; simp [foldlO] at h ⊢; rw [h]
  | cons sp rest ih =>
    intro a r h
    simp only [foldlO, addTagU, mulTagU] at h ⊢
    rw [tagU_exp]
    cases ht : tagU tags sp with
    | none => simp [ht] at h
    | some w =>
      simp only [ht, Option.map_some] at h ⊢
      have := ih (a + w) r h
      rwa [Real.exp_add] at this

theorem allSomeL_rel {β γ δ : Type} (f : β → Option γ) (g : β → Option δ) (h : γ → δ)
    (hfg : ∀ x y, f x = some y → g x = some (h y)) :
    ∀ (l : List β) (r : List γ), allSomeL f l = some r → allSomeL g l = some (r.map h) := by
  intro l
  induction l with
  | nil => intro r hr; simp [allSomeL] at hr ⊢; subst hr; rfl
  | cons a as ih =>
    intro r hr
    simp only [allSomeL] at hr ⊢
    cases hfa : f a with
    | none => simp [hfa] at hr
    | some y =>
      cases hrest : allSomeL f as with
      | none => simp [hfa, hrest] at hr
      | some ys =>
        simp [hfa, hrest] at hr
        subst hr
        simp [hfg a y hfa, ih ys hrest]

/-- `exp(log_probability t)` is what `ProbUGrammar.probability` (as implemented: rule weights
    only) returns on the exponentiated tags -/
theorem consistent_u (rules : AList NT (AList DP (List Alt))) (starts : List NT)
    (tags : AList NT TagsU) (t : Prog) (lp : ℝ)
    (h : logProbabilityU rules starts tags t = some lp) :
    probabilityU rules starts (expTagsU tags) t = Real.exp lp := by
  unfold logProbabilityU at h
  unfold probabilityU
  split at h
  · simp at h
  · rename_i rs hrs
    have hstep : ∀ (S0 : NT) (r : List ℝ), reduceU rules (addTagU tags) (ExpLog.ofNat 0) t S0 = some r →
        reduceU rules (mulTagU (expTagsU tags)) (ExpLog.ofNat 1) t S0 = some (r.map Real.exp) := by
      intro S0 r hr
      unfold reduceU at hr ⊢
      refine allSomeL_rel _ _ Real.exp ?_ _ _ hr
      intro d y hd
      have := fold_add_mul_U tags d _ _ hd
      simpa using this
    rw [allSomeL_rel _ _ (List.map Real.exp) hstep starts rs hrs]
    simp only []
    rw [← List.map_flatten, List.head?_map, h]
    rfl

theorem foldlO_mul_scale (w : AList NT TagsU) (c : ℝ) :
    ∀ (d : List StepU) (a r : ℝ), foldlO (mulTagU w) a d = some r →
      foldlO (mulTagU w) (c * a) d = some (c * r) := by
  intro d
  induction d with
  | nil => intro a r h; simp only [foldlO, Option.some.injEq] at h ⊢; rw [h]
  | cons st rest ih =>
    intro a r h
    simp only [foldlO, mulTagU] at h ⊢
    cases ht : tagU w st with
    | none => simp [ht] at h
    | some p =>
      simp only [ht] at h ⊢
      have := ih (a * p) r h
      rwa [← mul_assoc] at this

/-- relation to the full distribution: the derivation found begins at some start symbol `S0`,
    and its probability including the start weight is `exp(start tag S0) · exp(log_probability t)` -/
theorem consistent_u_start (rules : AList NT (AList DP (List Alt))) (starts : List NT)
    (tags : AList NT TagsU) (st : AList NT ℝ) (t : Prog) (lp : ℝ)
    (h : logProbabilityU rules starts tags t = some lp) :
    ∃ S0 ∈ starts, ∃ d ∈ altsU rules t S0 [], ∀ s, AList.lookup S0 st = some s →
      derivWeightU (expTagsU tags) (expStartU st) S0 d = some (Real.exp s * Real.exp lp) := by
  unfold logProbabilityU at h
  split at h
  · simp at h
  · rename_i rs hrs
    have hmem : lp ∈ rs.flatten := List.mem_of_mem_head? (by rw [h]; simp)
    obtain ⟨r, hr, hlp⟩ := List.mem_flatten.mp hmem
    obtain ⟨S0, hS0, hf⟩ := forall₂_mem_right (allSomeL_forall₂ _ _ _ hrs) r hr
    refine ⟨S0, hS0, ?_⟩
    unfold reduceU at hf
    obtain ⟨d, hd, hfd⟩ := forall₂_mem_right (allSomeL_forall₂ _ _ _ hf) lp hlp
    refine ⟨d, hd, ?_⟩
    intro s hs
    unfold derivWeightU expStartU
    rw [lookup_map_val (fun t : ℝ => (ExpLog.exp t : ℝ)) S0 st, hs]
    simp only [Option.map_some]
    have h1 := fold_add_mul_U tags d _ _ hfd
    have h2 := foldlO_mul_scale (expTagsU tags) (Real.exp s) d _ _ h1
    simpa using h2

theorem foldlO_map {β γ δ : Type} (f : β → δ → Option β) (g : γ → δ) (b : β) (l : List γ) :
    foldlO (fun b x => f b (g x)) b l = foldlO f b (l.map g) := by
  induction l generalizing b with
  | nil => rfl
  | cons x xs ih =>
    simp only [foldlO, List.map_cons]
    cases f b (g x) with
    | none => rfl
    | some b' => exact ih b'

/-- every step of every derivation of `t` from every start symbol -/
def allStepsU (rules : AList NT (AList DP (List Alt))) (starts : List NT) (t : Prog) : List (NT × DP) :=
  ((starts.map (fun S0 => (altsU rules t S0 []).flatten)).flatten).map (fun st => (st.S, st.P))

theorem encode_u (L : Layer) (rules : AList NT (AList DP (List Alt))) (starts : List NT) (t : Prog)
    (out : List ℕ) (h : encodeU L rules starts t = some out) :
    out = indicator L.outputSize (positionsOf L (allStepsU rules starts t))
      ∧ ∀ p ∈ positionsOf L (allStepsU rules starts t), p < L.outputSize := by
  unfold encodeU at h
  rw [← indicator_nil] at h
  have h' : foldlO (fun o (sp : NT × DP) => encStep L o sp.1 sp.2) (indicator L.outputSize [])
      (allStepsU rules starts t) = some out := by
    unfold allStepsU
    rw [← foldlO_map (fun o (sp : NT × DP) => encStep L o sp.1 sp.2) (fun st : StepU => (st.S, st.P))]
    exact h
  obtain ⟨r1, r2⟩ := encode_fold L L.outputSize _ [] _ h'
  exact ⟨by simpa using r1, r2⟩

end UGrammar

/-! ### which tensor entry feeds which rule (deterministic layer) -/
section PrimTag

theorem primTags_lookup (sym : AList DP Nat) (y : List ℝ) :
    ∀ (ks : List DP) (T T' : AList DP ℝ), ks.Nodup → primTags sym y ks T = some T' →
      (∀ P ∈ ks, P.kind = .prim → ∃ i t, sym.lookup P = some i ∧ y[i]? = some t ∧ AList.lookup P T' = some t)
      ∧ (∀ Q, Q ∉ ks → AList.lookup Q T' = AList.lookup Q T) := by
  intro ks
  induction ks with
  | nil => intro T T' _ h; simp [primTags] at h; subst h; simp
  | cons P r ih =>
    intro T T' hnd h
    have hnd' := List.nodup_cons.mp hnd
    simp only [primTags] at h
    by_cases hk : P.kind = .prim
    · simp only [hk, if_true] at h
      cases hs : sym.lookup P with
      | none => simp [hs] at h
      | some i =>
        cases hy : y[i]? with
        | none => simp [hs, hy] at h
        | some t =>
          simp only [hs, hy] at h
          obtain ⟨i1, i2⟩ := ih _ _ hnd'.2 h
          constructor
          · intro Q hQ hkQ
            rcases List.mem_cons.mp hQ with h' | h'
            · subst h'
              exact ⟨i, t, hs, hy, by rw [i2 Q hnd'.1, AList.lookup_insert_self]⟩
            · exact i1 Q h' hkQ
          · intro Q hQ
            have hQ' : Q ≠ P ∧ Q ∉ r := by simpa [List.mem_cons, not_or] using hQ
            rw [i2 Q hQ'.2, AList.lookup_insert_ne _ _ hQ'.1]
    · simp only [hk, if_false] at h
      obtain ⟨i1, i2⟩ := ih _ _ hnd'.2 h
      constructor
      · intro Q hQ hkQ
        rcases List.mem_cons.mp hQ with h' | h'
        · subst h'; exact absurd hkQ hk
        · exact i1 Q h' hkQ
      · intro Q hQ
        have hQ' : Q ≠ P ∧ Q ∉ r := by simpa [List.mem_cons, not_or] using hQ
        exact i2 Q hQ'.2

theorem assignVars_lookup (tvo : Bool) (ε : ℝ) :
    ∀ (vars : List DP) (nvl : ℝ) (T : AList DP ℝ) (Q : DP), Q ∉ vars →
      AList.lookup Q (assignVars tvo ε vars nvl T).1 = AList.lookup Q T := by
  intro vars
  induction vars with
  | nil => intro nvl T Q _; rfl
  | cons P r ih =>
    intro nvl T Q hQ
    have hQ' : Q ≠ P ∧ Q ∉ r := by simpa [List.mem_cons, not_or] using hQ
    simp only [assignVars]
    rw [ih _ _ Q hQ'.2, AList.lookup_insert_ne _ _ hQ'.1]

theorem assignConsts_lookup :
    ∀ (cs : List DP) (nvl : ℝ) (T : AList DP ℝ) (Q : DP), Q ∉ cs →
      AList.lookup Q (assignConsts cs nvl T) = AList.lookup Q T := by
  intro cs
  induction cs with
  | nil => intro nvl T Q _; rfl
  | cons P r ih =>
    intro nvl T Q hQ
    have hQ' : Q ≠ P ∧ Q ∉ r := by simpa [List.mem_cons, not_or] using hQ
    simp only [assignConsts]
    rw [ih _ _ Q hQ'.2, AList.lookup_insert_ne _ _ hQ'.1]

/-- the tag of a primitive rule after `tagNT`: its raw tag shifted by
    `log(c / Σ_Q exp(raw tag of Q))`, `c = 1 - v` if variables or constants exist, else 1 -/
theorem tagNT_lookup_prim (v ε : ℝ) (tvo : Bool) (prim : AList DP ℝ) (vars consts : List DP)
    (hp : prim ≠ []) (P : DP) (hPv : P ∉ vars) (hPc : P ∉ consts) :
    AList.lookup P (tagNT v ε tvo prim vars consts)
      = (AList.lookup P prim).map
          (· + Real.log ((if vars.isEmpty && consts.isEmpty then 1 else 1 - v) / mass (fun _ => true) prim)) := by
  have hpos := mass_true_pos hp
  have hpos' : ExpLog.pos (mass (fun _ => true) prim) = true := (pos_real _).mpr hpos
  unfold tagNT
  rw [total_eq]
  by_cases hvc : (!vars.isEmpty || !consts.isEmpty) = true
  · have hc : (vars.isEmpty && consts.isEmpty) = false := by
      cases h1 : vars.isEmpty <;> cases h2 : consts.isEmpty <;> simp [h1, h2] at hvc ⊢
    simp only [hvc, if_true, hpos', hc, Bool.false_eq_true, if_false]
    rw [assignConsts_lookup _ _ _ P hPc, assignVars_lookup tvo ε _ _ _ P hPv]
    simp only [log_real, ofNat_real, Nat.cast_one]
    exact lookup_map_val (fun t : ℝ => t + Real.log ((1 - v) / mass (fun _ => true) prim)) P prim
  · have hc : (vars.isEmpty && consts.isEmpty) = true := by
      cases h1 : vars.isEmpty <;> cases h2 : consts.isEmpty <;> simp [h1, h2] at hvc ⊢
    simp only [hvc, Bool.false_eq_true, if_false, hpos', if_true, hc]
    simp only [log_real, ofNat_real, Nat.cast_one]
    exact lookup_map_val (fun t : ℝ => t + Real.log (1 / mass (fun _ => true) prim)) P prim

/-- One entry of `tensor2logProbDet`: the primitive rule `P` of `S` reads the entry
    `start(abs S) + index(P)` of the (slice-wise normalised) tensor — the position `posOf L S P`
    that `encode` marks — and its weight is the re-normalised softmax over the primitive rules
    derivable from `S`: `exp(tag) = c · exp(y_P) / Σ_Q exp(y_Q)`. -/
theorem tagEntryDet_prim (L : Layer) (v ε : ℝ) (tvo : Bool) (x : List ℝ)
    (e : NT × AList DP (List NT)) (t : NT × AList DP ℝ)
    (h : tagEntryDet L v ε tvo x e = some t) (hnd : (AList.keys e.2).Nodup) :
    ∃ prim : AList DP ℝ, AList.keys prim = (AList.keys e.2).filter (kindIs .prim) ∧
      ∀ P ∈ AList.keys e.2, P.kind = .prim →
        ∃ pos y, posOf L e.1 P = some pos ∧ AList.lookup P prim = some y
          ∧ (∃ key start length sym i, AList.lookup e.1 L.real2abs = some key
              ∧ AList.lookup key L.abs2index = some (start, length, sym) ∧ AList.lookup P sym = some i
              ∧ pos = start + i ∧ (slice x start length)[i]? = some y)
          ∧ AList.lookup P t.2 = some (y + Real.log
              ((if countKind .var e.2 + countKind .const e.2 = 0 then 1 else 1 - v) / mass (fun _ => true) prim)) := by
  unfold tagEntryDet at h
  cases h1 : AList.lookup e.1 L.real2abs with
  | none => simp [h1] at h
  | some key =>
    cases h2 : AList.lookup key L.abs2index with
    | none => simp [h1, h2] at h
    | some idx =>
      obtain ⟨start, length, sym⟩ := idx
      simp only [h1, h2] at h
      cases h3 : primTags sym (slice x start length) (AList.keys e.2) [] with
      | none => simp [h3] at h
      | some prim =>
        simp only [h3, Option.some.injEq] at h
        subst h
        have hkeys : AList.keys prim = (AList.keys e.2).filter (kindIs .prim) := by
          have := primTags_keys sym (slice x start length) (AList.keys e.2) [] prim hnd
            (by intro P _; simp [AList.keys]) h3
          simpa [AList.keys] using this
        obtain ⟨l1, _⟩ := primTags_lookup sym (slice x start length) (AList.keys e.2) [] prim hnd h3
        refine ⟨prim, hkeys, ?_⟩
        intro P hP hk
        obtain ⟨i, y, hs, hy, hl⟩ := l1 P hP hk
        have hpne : prim ≠ [] := by
          intro hp; rw [hp] at hl; simp [AList.lookup] at hl
        have hPv : P ∉ (AList.keys e.2).filter (kindIs .var) := by
          intro hmem; have := filter_kind_sel hmem; rw [hk] at this; exact absurd this (by decide)
        have hPc : P ∉ (AList.keys e.2).filter (kindIs .const) := by
          intro hmem; have := filter_kind_sel hmem; rw [hk] at this; exact absurd this (by decide)
        refine ⟨start + i, y, ?_, hl, ⟨key, start, length, sym, i, rfl, h2, hs, rfl, hy⟩, ?_⟩
        · simp [posOf, h1, h2, hs]
        · rw [tagNT_lookup_prim v ε tvo prim _ _ hpne P hPv hPc, hl]
          simp only [Option.map_some, Option.some.injEq]
          have hgen : ∀ A B : List DP, (A.isEmpty && B.isEmpty) = decide (A.length + B.length = 0) := by
            intro A B; cases A <;> cases B <;> simp
          rw [hgen]
          have e1 : decide (((AList.keys e.2).filter (kindIs .var)).length + ((AList.keys e.2).filter (kindIs .const)).length = 0)
              = decide (countKind .var e.2 + countKind .const e.2 = 0) := rfl
          rw [e1]
          by_cases hz : countKind .var e.2 + countKind .const e.2 = 0
          · simp only [hz, decide_true, if_true]
          · simp only [hz, decide_false, Bool.false_eq_true, if_false]

end PrimTag

end PS.Predictor
