/-
  C13, part 17: EXACTNESS of the worklist of `__saturation_build__`: every non-terminal of the table
  returned is the non-terminal of a configuration (non-terminal, pending stack) REACHABLE from the
  start configuration by the pushes of the loop - the table contains no junk.  With
  `saturation_closed` (every reachable configuration has its non-terminal in the table):
  keys of the table = non-terminals of the reachable configurations.  Either de-duplication.
-/
import PS.Proofs.TtcfgBuild
namespace PS.T
open PS PS.G

variable {S T : Type} [DecidableEq S] [DecidableEq T]

/-- reachable from the start configuration by the pushes of the loop -/
inductive SReach (B : Builder S T) (prims : List Sym) (request : Ty) : NT S T × List (Ty × S) → Prop where
  | start : SReach B prims request ((request.returns, B.init), [])
  | push (rule : NT S T) (stack : List (Ty × S)) (p : Entry S T) :
      SReach B prims request (rule, stack) → p ∈ pushesOf B prims request rule stack → SReach B prims request (entryKey p)

theorem satLoop_keys_reach (B : Builder S T) (prims : List Sym) (request : Ty) (stackKey : Bool) :
    ∀ (fuel : Nat) (todo : List (Entry S T)) (seen : List (NT S T × List (Ty × S))) (tbl r : Table S T),
      (∀ x ∈ todo, SReach B prims request (entryKey x)) →
      (∀ k, AList.contains k tbl = true → ∃ stack, SReach B prims request (k, stack)) →
      satLoop B prims request stackKey fuel todo seen tbl = some r →
      ∀ k, AList.contains k r = true → ∃ stack, SReach B prims request (k, stack)
  | fuel, [], seen, tbl, r, _, ht, h => by
    cases fuel <;> (simp only [satLoop, Option.some.injEq] at h; subst h; exact ht)
  | 0, _ :: _, _, _, _, _, _, h => by simp [satLoop] at h
  | fuel + 1, (slot, cur, stack) :: todo, seen, tbl, r, hd, ht, h => by
    rw [satLoop] at h
    simp only at h
    have hd' : ∀ x ∈ todo, SReach B prims request (entryKey x) := fun x hx => hd x (List.mem_cons_of_mem _ hx)
    have hcur : SReach B prims request ((slot.1, (slot.2, cur)), stack) := hd _ (List.mem_cons_self ..)
    by_cases hskip : (if stackKey then seen.contains ((slot.1, (slot.2, cur)), stack) else AList.contains (slot.1, (slot.2, cur)) tbl) = true
    · simp only [hskip, if_true] at h
      exact satLoop_keys_reach B prims request stackKey fuel todo seen tbl r hd' ht h
    · simp only [hskip, Bool.false_eq_true, if_false] at h
      refine satLoop_keys_reach B prims request stackKey fuel _ _ _ r ?_ ?_ h
      · intro x hx
        rcases List.mem_append.mp hx with h1 | h1
        · exact SReach.push _ _ x hcur (List.mem_reverse.mp h1)
        · exact hd' x h1
      · intro k hk
        by_cases hc : AList.contains (slot.1, (slot.2, cur)) tbl = true
        · simp only [hc, if_true] at hk; exact ht k hk
        · simp only [hc, Bool.false_eq_true, if_false] at hk
          rw [contains_insert] at hk
          by_cases he : k = (slot.1, (slot.2, cur))
          · exact ⟨stack, by rw [he]; exact hcur⟩
          · simp only [he, decide_false, Bool.false_or] at hk; exact ht k hk

/-- **the table contains only non-terminals of reachable configurations** -/
theorem saturation_exact (B : Builder S T) (prims : List Sym) (request : Ty) (stackKey : Bool) (fuel : Nat) (G : TT S T)
    (h : saturationTable B prims request stackKey fuel = some G) :
    ∀ k, AList.contains k G.rules = true → ∃ stack, SReach B prims request (k, stack) := by
  unfold saturationTable at h
  cases hl : satLoop B prims request stackKey fuel [((request.returns, B.init.1), B.init.2, [])] [] [] with
  | none => simp [hl] at h
  | some tbl =>
    simp only [hl, Option.some.injEq] at h
    subst h
    exact satLoop_keys_reach B prims request stackKey fuel _ [] [] tbl
      (by intro x hx; rw [List.mem_singleton.mp hx]; exact SReach.start)
      (by intro k hk; simp [AList.contains, AList.lookup] at hk) hl

omit [DecidableEq S] [DecidableEq T] in
/-- … and (work list keyed by rule and stack) all of them: a set closed under the pushes that
    contains the start configuration contains every reachable configuration -/
theorem sreach_in_closed (B : Builder S T) (prims : List Sym) (request : Ty) (seen : List (NT S T × List (Ty × S)))
    (hs : ((request.returns, B.init), []) ∈ seen) (hw : WInv B prims request seen []) :
    ∀ c, SReach B prims request c → c ∈ seen := by
  intro c hc
  induction hc with
  | start => exact hs
  | push rule stack p _ hp ih =>
    rcases hw (rule, stack) ih p hp with h1 | h1
    · exact h1
    · cases h1

end PS.T
