/-
  C06, part 2: the grammar built from an automaton has exactly one derivation for every
  accepted tree and none for the others.
  Key fact (`derivs_length`): for a key `k` of the table standing for the state `q`
  (`proj k = d q`), the derivations of `t` from `k` are as many as `[run A t = some q]`.
-/
import PS.Proofs.UcfgFromDfta
import PS.Proofs.Ucfg
namespace PS.U.FD
open PS PS.G PS.U DFTA

variable {Q U V : Type} [DecidableEq Q] [DecidableEq U] [DecidableEq V]
set_option linter.unusedSectionVars false

/-- what the theorems need of the flattening: `proj` undoes `child`/`root`, and `d` is injective
    on the states the automaton mentions -/
structure FlatOK (F : Flat Q U V) (A : DFTA Sym Q) : Prop where
  proj_child : ∀ tgt P i x, F.proj (F.child tgt P i x) = x
  proj_root : ∀ x, F.proj (F.root x) = x
  inj : ∀ q ∈ A.allStates, ∀ q' ∈ A.allStates, F.d q = F.d q' → q = q'

theorem plainFlat_ok (d : Q → UNT U) (A : DFTA Sym Q)
    (inj : ∀ q ∈ A.allStates, ∀ q' ∈ A.allStates, d q = d q' → q = q') : FlatOK (plainFlat d) A :=
  { proj_child := fun _ _ _ _ => rfl, proj_root := fun _ => rfl, inj := inj }

theorem ngramFlat_ok (n : Int) (d : Q → UNT U) (A : DFTA Sym Q)
    (inj : ∀ q ∈ A.allStates, ∀ q' ∈ A.allStates, d q = d q' → q = q') : FlatOK (ngramFlat n d) A :=
  { proj_child := fun _ _ _ _ => rfl, proj_root := fun _ => rfl, inj := inj }

/-! ### the row of a key -/

/-- the alternatives of the symbol `f` at the key `k`: one per rule `f(args) → dst` of the
    automaton whose target flattens to `proj k`, in table order -/
def isAlt (F : Flat Q U V) (k : UNT V) (f : Sym) (r : (Sym × List Q) × Q) : Bool :=
  matchesTgt F k r && decide (r.1.1 = f)

def altsOf (F : Flat Q U V) (A : DFTA Sym Q) (k : UNT V) (f : Sym) : List (List (UNT V)) :=
  (A.rules.filter (isAlt F k f)).map (fun r => newArgs F k f r.1.2)

theorem lookup_foldl_appendAlt (F : Flat Q U V) (k : UNT V) (f : Sym) :
    ∀ (rules : List ((Sym × List Q) × Q)) (row : Row V),
      AList.lookup f (rules.foldl (fun row r =>
          if matchesTgt F k r then appendAlt r.1.1 (newArgs F k r.1.1 r.1.2) row else row) row) =
        if (rules.filter (isAlt F k f)).map
              (fun r => newArgs F k f r.1.2) = [] then AList.lookup f row
        else some ((AList.lookup f row).getD [] ++
          (rules.filter (isAlt F k f)).map
              (fun r => newArgs F k f r.1.2)) := by
  intro rules
  induction rules with
  | nil => intro row; simp
  | cons r rs ih =>
    intro row
    rw [List.foldl_cons, ih]
    by_cases hm : matchesTgt F k r = true
    · rw [if_pos hm]
      by_cases hf : r.1.1 = f
      · have hp : isAlt F k f r = true := by simp [isAlt, hm, hf]
        rw [List.filter_cons_of_pos hp, List.map_cons, if_neg (List.cons_ne_nil _ _)]
        have hl : AList.lookup f (appendAlt r.1.1 (newArgs F k r.1.1 r.1.2) row) =
            some ((AList.lookup f row).getD [] ++ [newArgs F k f r.1.2]) := by
          unfold appendAlt
          rw [hf, AList.lookup_insert_self]
        rw [hl]
        by_cases hL : (rs.filter (isAlt F k f)).map
            (fun r => newArgs F k f r.1.2) = []
        · rw [if_pos hL, hL]
        · rw [if_neg hL]
          simp only [Option.getD_some, List.append_assoc, List.cons_append, List.nil_append]
      · have hp : ¬ isAlt F k f r = true := by simp [isAlt, hf]
        rw [List.filter_cons_of_neg hp]
        have hl : AList.lookup f (appendAlt r.1.1 (newArgs F k r.1.1 r.1.2) row) = AList.lookup f row := by
          unfold appendAlt
          exact AList.lookup_insert_ne _ _ (fun e => hf e.symm)
        rw [hl]
    · have hp : ¬ isAlt F k f r = true := by simp [isAlt, hm]
      rw [List.filter_cons_of_neg hp, if_neg hm]

theorem lookup_rowFor (F : Flat Q U V) (A : DFTA Sym Q) (k : UNT V) (f : Sym) :
    AList.lookup f (rowFor F A k) = if altsOf F A k f = [] then none else some (altsOf F A k f) := by
  unfold rowFor altsOf
  rw [lookup_foldl_appendAlt]
  simp

theorem mem_of_mem_keys {κ ν : Type} {k : κ} {d : AList κ ν} (h : k ∈ AList.keys d) :
    ∃ v, (k, v) ∈ d := by
  obtain ⟨e, he, hk⟩ := List.mem_map.mp h
  exact ⟨e.2, by rw [← hk]; exact he⟩

theorem alts_of_built {F : Flat Q U V} {A : DFTA Sym Q} {G : UCFG V} (hb : Built F A G)
    (k : UNT V) (hk : k ∈ AList.keys G.rules) (f : Sym) :
    G.alts? k f = if altsOf F A k f = [] then none else some (altsOf F A k f) := by
  obtain ⟨row, hrow⟩ := mem_of_mem_keys hk
  have hl := AList.lookup_of_mem_nodup hb.nodup hrow
  have := hb.rows _ hrow
  simp only at this
  unfold UCFG.alts?
  rw [hl, this]
  exact lookup_rowFor F A k f

/-- the derivations of an application at a key, in terms of the automaton's rules -/
theorem derivs_node {F : Flat Q U V} {A : DFTA Sym Q} {G : UCFG V} (hb : Built F A G)
    (k : UNT V) (hk : k ∈ AList.keys G.rules) (f : Sym) (kids : List Prog) :
    derivs G (.node f kids) k =
      (altsOf F A k f).flatMap (fun args => (derivsList G kids args).map (fun r => (k, f, args) :: r)) := by
  rw [derivs, alts_of_built hb k hk f]
  by_cases h : altsOf F A k f = []
  · simp [h]
  · simp [h]

/-! ### counting lemmas -/

theorem sum_filter_map {α : Type} (p : α → Bool) (g : α → Nat) (l : List α) :
    ((l.filter p).map g).sum = (l.map (fun x => if p x then g x else 0)).sum := by
  induction l with
  | nil => rfl
  | cons x xs ih =>
    by_cases h : p x = true
    · simp [h, ih]
    · simp [h, ih]

theorem sum_indicator {α : Type} [DecidableEq α] (a : α) (l : List α) (hn : l.Nodup) :
    (l.map (fun x => if x = a then 1 else 0)).sum = if a ∈ l then 1 else 0 := by
  induction l with
  | nil => simp
  | cons x xs ih =>
    rw [List.nodup_cons] at hn
    simp only [List.map_cons, List.sum_cons, ih hn.2, List.mem_cons]
    by_cases h : x = a
    · subst h
      simp [hn.1]
    · have h' : ¬ a = x := fun e => h e.symm
      simp [h, h']

theorem sum_zero {α : Type} (l : List α) (g : α → Nat) (h : ∀ x ∈ l, g x = 0) : (l.map g).sum = 0 := by
  induction l with
  | nil => rfl
  | cons x xs ih =>
    simp only [List.map_cons, List.sum_cons, h x (by simp), ih (fun y hy => h y (by simp [hy]))]

theorem length_flatMap_map {α β γ : Type} (l : List α) (g : α → List β) (c : α → β → γ) :
    (l.flatMap (fun a => (g a).map (c a))).length = (l.map (fun a => (g a).length)).sum := by
  induction l with
  | nil => rfl
  | cons x xs ih => simp [ih]

/-! ### the key fact -/

section Key
variable {F : Flat Q U V} {A : DFTA Sym Q} {G : UCFG V}

mutual
  theorem derivs_length (hb : Built F A G) (ok : FlatOK F A) (hd : A.Det) :
      ∀ (t : Prog) (k : UNT V) (q : Q), k ∈ AList.keys G.rules → q ∈ A.allStates →
        F.proj k = F.d q → (derivs G t k).length = if run A t = some q then 1 else 0
    | .node f kids, k, q, hk, hq, hkq => by
      rw [derivs_node hb k hk f kids, length_flatMap_map, altsOf, List.map_map, sum_filter_map]
      rw [run_node]
      -- every summand, by the induction hypothesis on the children
      have hsum : ∀ r ∈ A.rules,
          (if isAlt F k f r = true then
              ((fun a => (derivsList G kids a).length) ∘ fun r => newArgs F k f r.1.2) r else 0) =
            if r = ((f, (runList A kids).getD []), q) ∧ (runList A kids).isSome then 1 else 0 := by
        intro r hr
        obtain ⟨⟨l, args⟩, dst⟩ := r
        have hst := mem_allStates_of_rule A hr
        have hmq : matchesTgt F k ((l, args), dst) = true ↔ dst = q := by
          simp only [matchesTgt, decide_eq_true_eq]
          constructor
          · intro h; exact ok.inj dst hst.1 q hq (h.trans hkq)
          · intro h; rw [h, hkq]
        by_cases hdq : dst = q
        · by_cases hf : l = f
          · have hm := hmq.mpr hdq
            subst hf
            have hia : isAlt F k l ((l, args), dst) = true := by simp [isAlt, hm]
            rw [if_pos hia]
            have hcl := hb.closed k hk _ hr hm
            have ih := derivsList_length hb ok hd kids k l 0 args hst.2 (fun x hx => hcl x hx)
            simp only [Function.comp]
            unfold newArgs
            rw [ih, hdq]
            cases hrl : runList A kids with
            | none => simp
            | some qs =>
              by_cases he : qs = args
              · subst he; simp
              · have he' : ¬ args = qs := fun e => he e.symm
                simp [he, he']
          · have hia : ¬ isAlt F k f ((l, args), dst) = true := by simp [isAlt, hf]
            have hne : ¬ ((l, args), dst) = ((f, (runList A kids).getD []), q) := by
              intro e; simp only [Prod.mk.injEq] at e; exact hf e.1.1
            rw [if_neg hia, if_neg (fun e => hne e.1)]
        · have hia : ¬ isAlt F k f ((l, args), dst) = true := by
            intro h
            simp only [isAlt, Bool.and_eq_true] at h
            exact hdq (hmq.mp h.1)
          have hne : ¬ ((l, args), dst) = ((f, (runList A kids).getD []), q) := by
            intro e; simp only [Prod.mk.injEq] at e; exact hdq e.2
          rw [if_neg hia, if_neg (fun e => hne e.1)]
      rw [List.map_congr_left hsum]
      cases hrl : runList A kids with
      | none =>
        simp
      | some qs =>
        simp only [Option.getD_some, Option.isSome_some, and_true, Option.bind_some]
        have hnd : A.rules.Nodup :=
          List.Pairwise.of_map (fun r => r.1) (fun a b h e => h (e ▸ rfl)) hd
        rw [sum_indicator _ _ hnd]
        have := read_eq_some_iff A hd f qs q
        by_cases hmem : ((f, qs), q) ∈ A.rules
        · rw [if_pos hmem, if_pos (this.mpr hmem)]
        · rw [if_neg hmem, if_neg (fun e => hmem (this.mp e))]
  theorem derivsList_length (hb : Built F A G) (ok : FlatOK F A) (hd : A.Det) :
      ∀ (ks : List Prog) (tgt : UNT V) (P : Sym) (i : Nat) (args : List Q),
        (∀ a ∈ args, a ∈ A.allStates) →
        (∀ x ∈ (args.zipIdx i).map (fun ai => F.child tgt P ai.2 (F.d ai.1)), x ∈ AList.keys G.rules) →
        (derivsList G ks ((args.zipIdx i).map (fun ai => F.child tgt P ai.2 (F.d ai.1)))).length =
          if runList A ks = some args then 1 else 0
    | [], tgt, P, i, [], _, _ => by simp [derivsList]
    | [], tgt, P, i, a :: as, _, _ => by simp [derivsList, List.zipIdx_cons]
    | k :: ks, tgt, P, i, [], _, _ => by
      simp only [List.zipIdx_nil, List.map_nil, derivsList, List.length_nil, runList_cons]
      cases run A k with
      | none => simp
      | some q => cases runList A ks <;> simp
    | k :: ks, tgt, P, i, a :: as, hst, hkeys => by
      simp only [List.zipIdx_cons, List.map_cons] at hkeys ⊢
      rw [derivsList, runList_cons]
      have h1 := derivs_length hb ok hd k (F.child tgt P i (F.d a)) a (hkeys _ (by simp))
        (hst a (by simp)) (ok.proj_child tgt P i (F.d a))
      have h2 := derivsList_length hb ok hd ks tgt P (i + 1) as (fun x hx => hst x (by simp [hx]))
        (fun x hx => hkeys x (by simp [hx]))
      cases hr : run A k with
      | none =>
        rw [hr] at h1
        simp only [reduceCtorEq, if_false, List.length_eq_zero_iff] at h1
        simp [h1]
      | some q =>
        rw [hr] at h1
        by_cases hq : q = a
        · subst hq
          simp only [if_true] at h1
          obtain ⟨d0, hd0⟩ := List.length_eq_one_iff.mp h1
          rw [hd0]
          simp only [List.flatMap_cons, List.flatMap_nil, List.append_nil, List.length_map, h2,
            Option.bind_some]
          cases hrl : runList A ks with
          | none => simp
          | some qs =>
            simp only [Option.map_some, Option.some.injEq, List.cons.injEq, true_and]
        · have : ¬ some q = some a := fun e => hq (Option.some.inj e)
          simp only [this, if_false, List.length_eq_zero_iff] at h1
          rw [h1]
          simp only [List.flatMap_nil, List.length_nil, Option.bind_some]
          cases hrl : runList A ks with
          | none => simp
          | some qs =>
            simp only [Option.map_some, Option.some.injEq, List.cons.injEq]
            simp [hq]
end

end Key

/-! ### start symbols -/

theorem run_mem_allStates (A : DFTA Sym Q) (t : Prog) (q : Q) (h : run A t = some q) :
    q ∈ A.allStates := by
  obtain ⟨f, kids⟩ := t
  rw [run_node] at h
  cases hrl : runList A kids with
  | none => rw [hrl] at h; simp at h
  | some qs =>
    rw [hrl] at h
    simp only [Option.bind_some] at h
    exact (mem_allStates_of_rule A (AList.lookup_some_mem h)).1

theorem mem_finals_allStates (A : DFTA Sym Q) (q : Q) (h : q ∈ A.finals) : q ∈ A.allStates :=
  List.mem_append_right _ h

theorem startsOf_nodup (F : Flat Q U V) (A : DFTA Sym Q) : (startsOf F A).Nodup :=
  foldl_addNew_nodup _ _ List.nodup_nil

theorem mem_startsOf (F : Flat Q U V) (A : DFTA Sym Q) (s : UNT V) :
    s ∈ startsOf F A ↔ ∃ q ∈ A.finals, F.root (F.d q) = s := by
  unfold startsOf
  rw [mem_foldl_addNew]
  simp

/-- **one derivation for an accepted tree, none otherwise** -/
theorem allDerivs_length {F : Flat Q U V} {A : DFTA Sym Q} {G : UCFG V} (hb : Built F A G)
    (ok : FlatOK F A) (hd : A.Det) (t : Prog) :
    (allDerivs G t).length = if A.accepts t = true then 1 else 0 := by
  unfold allDerivs
  rw [length_flatMap_map, hb.starts_eq]
  have hlen : ∀ s ∈ startsOf F A, (derivs G t s).length =
      if (run A t).map (fun q => F.root (F.d q)) = some s then 1 else 0 := by
    intro s hs
    obtain ⟨q, hqf, hqs⟩ := (mem_startsOf F A s).mp hs
    have hk : s ∈ AList.keys G.rules := hb.starts s (by rw [hb.starts_eq]; exact hs)
    have hqa := mem_finals_allStates A q hqf
    rw [derivs_length hb ok hd t s q hk hqa (by rw [← hqs, ok.proj_root])]
    cases hr : run A t with
    | none => simp
    | some q0 =>
      simp only [Option.some.injEq, Option.map_some]
      by_cases he : q0 = q
      · simp [he, hqs]
      · have : ¬ F.root (F.d q0) = s := by
          intro e
          apply he
          have h2 : F.d q0 = F.d q := by
            have := congrArg F.proj (e.trans hqs.symm)
            rwa [ok.proj_root, ok.proj_root] at this
          exact ok.inj q0 (run_mem_allStates A t q0 hr) q hqa h2
        simp [he, this]
  rw [List.map_congr_left hlen]
  unfold accepts
  cases hr : run A t with
  | none => simp
  | some q0 =>
    simp only [Option.map_some, Option.some.injEq]
    have hind : ∀ s ∈ startsOf F A, (if F.root (F.d q0) = s then 1 else 0) =
        (fun x => if x = F.root (F.d q0) then 1 else 0) s := by
      intro s _
      by_cases e : F.root (F.d q0) = s
      · simp [e]
      · have : ¬ s = F.root (F.d q0) := fun e' => e e'.symm
        simp [e, this]
    rw [List.map_congr_left hind, sum_indicator _ _ (startsOf_nodup F A)]
    have hiff : F.root (F.d q0) ∈ startsOf F A ↔ q0 ∈ A.finals := by
      rw [mem_startsOf]
      constructor
      · rintro ⟨q, hqf, hq⟩
        have h2 : F.d q = F.d q0 := by
          have := congrArg F.proj hq
          rwa [ok.proj_root, ok.proj_root] at this
        rw [← ok.inj q (mem_finals_allStates A q hqf) q0 (run_mem_allStates A t q0 hr) h2]
        exact hqf
      · intro h; exact ⟨q0, h, rfl⟩
    by_cases hf : q0 ∈ A.finals
    · rw [if_pos (hiff.mpr hf)]; simp [hf]
    · rw [if_neg (fun e => hf (hiff.mp e))]; simp [hf]

theorem genU_eq_accepts {F : Flat Q U V} {A : DFTA Sym Q} {G : UCFG V} (hb : Built F A G)
    (ok : FlatOK F A) (hd : A.Det) (t : Prog) : genU G t = A.accepts t := by
  have h := allDerivs_length hb ok hd t
  unfold genU
  cases ha : A.accepts t with
  | false =>
    rw [ha] at h
    simp only [Bool.false_eq_true, if_false, List.length_eq_zero_iff] at h
    simp [h]
  | true =>
    rw [ha] at h
    simp only [if_true] at h
    obtain ⟨x, hx⟩ := List.length_eq_one_iff.mp h
    simp [hx]

theorem contains_eq_accepts {F : Flat Q U V} {A : DFTA Sym Q} {G : UCFG V} (hb : Built F A G)
    (ok : FlatOK F A) (hd : A.Det) (t : Prog) : contains G t = A.accepts t := by
  rw [contains_eq_genU, genU_eq_accepts hb ok hd]

theorem reduceAll_length {F : Flat Q U V} {A : DFTA Sym Q} {G : UCFG V} (hb : Built F A G)
    (ok : FlatOK F A) (hd : A.Det) (t : Prog) :
    (reduceAll G t).length = if A.accepts t = true then 1 else 0 := by
  have h := congrArg List.length (reduceAll_derivs G t)
  simp only [List.length_map] at h
  rw [h, allDerivs_length hb ok hd]

end PS.U.FD
