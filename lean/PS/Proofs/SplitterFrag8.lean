/- C08, fragment grammar, part 8: the weights — `normaliseTags` row by row, copied rows, rows of
   the paths, and the row of a start copy built by successive assignments. -/
import PS.Proofs.SplitterFrag7
namespace PS.Sp
open PS PS.G

variable {U : Type} [DecidableEq U]

/-- total weight of a row of the weight table (what `ProbUGrammar.normalise` divides by) -/
def rowSum {κ : Type} (row : AList Sym (AList (List κ) Rat)) : Rat :=
  (row.map (fun r => (r.2.map (·.2)).sum)).sum

/-- the weight of a rule in a row (0 when absent) -/
def rawTag {κ : Type} [DecidableEq κ] (row : AList Sym (AList (List κ) Rat)) (P : Sym) (a : List κ) : Rat :=
  match AList.lookup P row with
  | none => 0
  | some dv => (AList.lookup a dv).getD 0

/-- every row of the weight table of the original grammar sums to 1 -/
def tagsNorm (pg : PUG U) : Bool := pg.tags.all (fun e => rowSum e.2 == 1)

theorem tagOf_eq (pg : PUG U) (S : UNT U) (P : Sym) (a : List (UNT U)) :
    tagOf pg S P a = match AList.lookup S pg.tags with
      | none => 0
      | some d => rawTag d P a := by
  unfold tagOf rawTag
  cases AList.lookup S pg.tags with
  | none => rfl
  | some d =>
    dsimp only
    cases AList.lookup P d <;> rfl

theorem lookup_map_val {κ ν μ : Type} [DecidableEq κ] (f : ν → μ) (k : κ) : ∀ (d : AList κ ν),
    AList.lookup k (d.map (fun e => (e.1, f e.2))) = (AList.lookup k d).map f
  | [] => rfl
  | (k', v) :: r => by
    by_cases hk : k' = k
    · simp [AList.lookup, hk]
    · simp only [List.map_cons, AList.lookup, hk, if_false]
      exact lookup_map_val f k r

theorem lookup_map_key {κ κ' ν : Type} [DecidableEq κ] [DecidableEq κ'] (f : κ → κ')
    (hf : ∀ a b, f a = f b → a = b) (k : κ) : ∀ (d : AList κ ν),
    AList.lookup (f k) (d.map (fun e => (f e.1, e.2))) = AList.lookup k d
  | [] => rfl
  | (k', v) :: r => by
    by_cases hk : k' = k
    · simp [AList.lookup, hk]
    · have : f k' ≠ f k := fun h => hk (hf _ _ h)
      simp only [List.map_cons, AList.lookup, hk, this, if_false]
      exact lookup_map_key f hf k r

/-- a row after `ProbUGrammar.normalise` -/
def normRow {κ : Type} (row : AList Sym (AList (List κ) Rat)) : AList Sym (AList (List κ) Rat) :=
  row.map (fun r => (r.1, r.2.map (fun vp => (vp.1, vp.2 / rowSum row))))

/-- the weight of a rule of the fragment: the raw weight divided by the total of its row -/
theorem tagOf_frag (pg : PUG U) (st : FragSt U) (Y : UNT (U × Nat)) (P : Sym) (a : List (UNT (U × Nat))) :
    tagOf (fragOf pg st) Y P a = match AList.lookup Y st.probs with
      | none => 0
      | some row => rawTag row P a / rowSum row := by
  rw [tagOf_eq]
  have htags : (fragOf pg st).tags = normaliseTags st.probs := rfl
  rw [htags]
  have : normaliseTags st.probs = st.probs.map (fun e => (e.1, normRow e.2)) := rfl
  rw [this, lookup_map_val normRow]
  cases AList.lookup Y st.probs with
  | none => rfl
  | some row =>
    simp only [Option.map_some, rawTag, normRow]
    rw [lookup_map_val (fun dv : AList (List (UNT (U × Nat))) Rat => dv.map (fun vp => (vp.1, vp.2 / rowSum row)))]
    cases AList.lookup P row with
    | none => simp only [Option.map_none]; grind
    | some dv =>
      simp only [Option.map_some]
      rw [lookup_map_val (fun x : Rat => x / rowSum row)]
      cases AList.lookup a dv with
      | none => simp only [Option.map_none, Option.getD_none]; grind
      | some x => simp

/-! ### copied rows -/

omit [DecidableEq U] in
theorem rowSum_copy (row : AList Sym (AList (List (UNT U)) Rat)) :
    rowSum (row.map (fun r => (r.1, r.2.map (fun vp => (vp.1.map free, vp.2))))) = rowSum row := by
  simp [rowSum, List.map_map, Function.comp_def]

theorem rawTag_copy (row : AList Sym (AList (List (UNT U)) Rat)) (P : Sym) (a : List (UNT U)) :
    rawTag (row.map (fun r => (r.1, r.2.map (fun vp => (vp.1.map free, vp.2))))) P (a.map free) = rawTag row P a := by
  unfold rawTag
  rw [lookup_map_val (fun dv : AList (List (UNT U)) Rat => dv.map (fun vp => (vp.1.map free, vp.2)))]
  cases AList.lookup P row with
  | none => rfl
  | some dv =>
    simp only [Option.map_some]
    rw [lookup_map_key (fun v : List (UNT U) => v.map free) (fun _ _ h => map_free_injective h)]

/-- a copy keeps the original weights (the rows of the original grammar sum to 1) -/
theorem tagOf_copy {pg : PUG U} (hn : tagsNorm pg = true) {st : FragSt U} {Y : UNT (U × Nat)}
    (hY : AList.lookup Y st.probs = some (copyP pg (er Y))) (P : Sym) (a : List (UNT U)) :
    tagOf (fragOf pg st) Y P (a.map free) = tagOf pg (er Y) P a := by
  rw [tagOf_frag, hY, tagOf_eq]
  simp only [copyP]
  cases hl : AList.lookup (er Y) pg.tags with
  | none => simp only [Option.getD_none, List.map_nil, rawTag, AList.lookup]; grind
  | some row =>
    simp only [Option.getD_some]
    rw [rawTag_copy, rowSum_copy]
    have : rowSum row = 1 := by
      have hm := AList.lookup_some_mem hl
      have := List.all_eq_true.mp hn _ hm
      simpa using this
    rw [this]
    grind

/-- a step of a path after the first one has weight 1 -/
theorem tagOf_chain (pg : PUG U) {st : FragSt U} {X : UNT (U × Nat)} {P : Sym} {m : List (UNT (U × Nat))}
    (h : AList.lookup X st.probs = some [(P, [(m, 1)])]) : tagOf (fragOf pg st) X P m = 1 := by
  rw [tagOf_frag, h]
  simp only [rawTag, rowSum, AList.lookup, if_true, Option.getD_some, List.map_cons, List.map_nil, List.sum_cons,
    List.sum_nil]
  decide +kernel

/-! ### the row of a start copy -/

/-- the key `(P, m)` has a weight in the row -/
def keyIn {κ : Type} [DecidableEq κ] (ps : AList Sym (AList (List κ) Rat)) (P : Sym) (m : List κ) : Prop :=
  ∃ dv, AList.lookup P ps = some dv ∧ ∃ x, AList.lookup m dv = some x

theorem sum_insert_none {κ : Type} [DecidableEq κ] {k : κ} {v : Rat} {d : AList κ Rat}
    (h : AList.lookup k d = none) : ((AList.insert k v d).map (·.2)).sum = (d.map (·.2)).sum + v := by
  rw [insert_of_lookup_none h]
  simp [Rat.add_zero]

theorem rowSum_insert_none {κ : Type} {P : Sym} {dv : AList (List κ) Rat} {ps : AList Sym (AList (List κ) Rat)}
    (h : AList.lookup P ps = none) : rowSum (AList.insert P dv ps) = rowSum ps + (dv.map (·.2)).sum := by
  rw [insert_of_lookup_none h]
  simp [rowSum, Rat.add_zero]

theorem rowSum_insert_some {κ : Type} {P : Sym} {dv old : AList (List κ) Rat} :
    ∀ {ps : AList Sym (AList (List κ) Rat)}, AList.lookup P ps = some old →
      rowSum (AList.insert P dv ps) = rowSum ps - (old.map (·.2)).sum + (dv.map (·.2)).sum
  | [], h => by simp at h
  | (k', v') :: r, h => by
    by_cases hk : k' = P
    · simp only [AList.lookup, hk, if_true, Option.some.injEq] at h
      subst h
      simp only [rowSum, AList.insert, hk, if_true, List.map_cons, List.sum_cons]
      grind
    · simp only [AList.lookup, hk, if_false] at h
      have ih := rowSum_insert_some (dv := dv) h
      simp only [rowSum] at ih
      simp only [rowSum, AList.insert, hk, if_false, List.map_cons, List.sum_cons, ih]
      grind

theorem rowSum_stepP {κ : Type} [DecidableEq κ] (ps : AList Sym (AList (List κ) Rat)) (P : Sym) (m : List κ) (w : Rat)
    (h : ¬ keyIn ps P m) : rowSum (stepP ps P m w) = rowSum ps + w := by
  unfold stepP
  cases hl : AList.lookup P ps with
  | none =>
    rw [rowSum_insert_none hl]
    simp [AList.insert, Rat.add_zero]
  | some old =>
    have hm : AList.lookup m old = none := by
      cases hx : AList.lookup m old with
      | none => rfl
      | some x => exact absurd ⟨old, hl, x, hx⟩ h
    rw [rowSum_insert_some hl, Option.getD_some, sum_insert_none hm]
    grind

theorem rawTag_stepP {κ : Type} [DecidableEq κ] (ps : AList Sym (AList (List κ) Rat)) (P Q : Sym) (m a : List κ) (w : Rat) :
    rawTag (stepP ps P m w) Q a = if Q = P ∧ a = m then w else rawTag ps Q a := by
  unfold rawTag stepP
  rw [AList.lookup_insert]
  by_cases hQ : Q = P
  · subst hQ
    simp only [if_true, true_and]
    rw [AList.lookup_insert]
    by_cases ha : a = m
    · simp [ha]
    · simp only [ha, if_false]
      cases AList.lookup Q ps <;> rfl
  · simp [hQ]

theorem keyIn_stepP {κ : Type} [DecidableEq κ] (ps : AList Sym (AList (List κ) Rat)) (P Q : Sym) (m a : List κ) (w : Rat)
    (h : keyIn (stepP ps P m w) Q a) : keyIn ps Q a ∨ (Q = P ∧ a = m) := by
  obtain ⟨dv, h1, x, h2⟩ := h
  unfold stepP at h1
  rw [AList.lookup_insert] at h1
  by_cases hQ : Q = P
  · subst hQ
    simp only [if_true, Option.some.injEq] at h1
    subst h1
    rw [AList.lookup_insert] at h2
    by_cases ha : a = m
    · exact Or.inr ⟨rfl, ha⟩
    · simp only [ha, if_false] at h2
      left
      cases hl : AList.lookup Q ps with
      | none => rw [hl] at h2; simp at h2
      | some old => rw [hl] at h2; exact ⟨old, hl, x, h2⟩
  · simp only [hQ, if_false] at h1
    exact Or.inl ⟨dv, h1, x, h2⟩

/-- the keys of the assignments are pairwise different -/
def DistinctKeys {κ : Type} (hs : List (Sym × List κ × Rat)) : Prop :=
  hs.Pairwise (fun h h' => ¬ (h.1 = h'.1 ∧ h.2.1 = h'.2.1))

theorem rawTag_foldl_frame {κ : Type} [DecidableEq κ] (Q : Sym) (a : List κ) :
    ∀ (hs : List (Sym × List κ × Rat)) (ps0 : AList Sym (AList (List κ) Rat)),
    (∀ h ∈ hs, ¬ (Q = h.1 ∧ a = h.2.1)) →
    rawTag (hs.foldl (fun ps h => stepP ps h.1 h.2.1 h.2.2) ps0) Q a = rawTag ps0 Q a
  | [], _, _ => rfl
  | h :: hs, ps0, hne => by
    simp only [List.foldl_cons]
    rw [rawTag_foldl_frame Q a hs _ (fun h' hh' => hne h' (List.mem_cons_of_mem _ hh')), rawTag_stepP,
      if_neg (hne h (by simp))]

theorem rawTag_foldl {κ : Type} [DecidableEq κ] :
    ∀ (hs : List (Sym × List κ × Rat)) (ps0 : AList Sym (AList (List κ) Rat)), DistinctKeys hs →
    ∀ h ∈ hs, rawTag (hs.foldl (fun ps h => stepP ps h.1 h.2.1 h.2.2) ps0) h.1 h.2.1 = h.2.2
  | [], _, _, h, hh => by cases hh
  | h0 :: hs, ps0, hd, h, hh => by
    simp only [List.foldl_cons]
    obtain ⟨d1, d2⟩ := List.pairwise_cons.mp hd
    rcases List.mem_cons.mp hh with hh | hh
    · subst hh
      rw [rawTag_foldl_frame h.1 h.2.1 hs _ (fun h' hh' => d1 h' hh'), rawTag_stepP]
      simp
    · exact rawTag_foldl hs _ d2 h hh

theorem rowSum_foldl {κ : Type} [DecidableEq κ] :
    ∀ (hs : List (Sym × List κ × Rat)) (ps0 : AList Sym (AList (List κ) Rat)), DistinctKeys hs →
    (∀ h ∈ hs, ¬ keyIn ps0 h.1 h.2.1) →
    rowSum (hs.foldl (fun ps h => stepP ps h.1 h.2.1 h.2.2) ps0) = rowSum ps0 + (hs.map (·.2.2)).sum
  | [], _, _, _ => by simp [Rat.add_zero]
  | h0 :: hs, ps0, hd, hk => by
    simp only [List.foldl_cons, List.map_cons, List.sum_cons]
    obtain ⟨d1, d2⟩ := List.pairwise_cons.mp hd
    rw [rowSum_foldl hs _ d2, rowSum_stepP _ _ _ _ (hk h0 (by simp))]
    · grind
    · intro h hh hin
      rcases keyIn_stepP _ _ _ _ _ _ hin with h1 | h1
      · exact hk h (List.mem_cons_of_mem _ hh) h1
      · exact d1 h hh ⟨h1.1.symm, h1.2.symm⟩

theorem rawTag_buildP {hs : List (Sym × List (UNT (U × Nat)) × Rat)} (hd : DistinctKeys hs)
    {h : Sym × List (UNT (U × Nat)) × Rat} (hh : h ∈ hs) : rawTag (buildP hs) h.1 h.2.1 = h.2.2 :=
  rawTag_foldl hs [] hd h hh

theorem rowSum_buildP {hs : List (Sym × List (UNT (U × Nat)) × Rat)} (hd : DistinctKeys hs) :
    rowSum (buildP hs) = (hs.map (·.2.2)).sum := by
  unfold buildP
  rw [rowSum_foldl hs [] hd]
  · simp [rowSum, Rat.zero_add]
  · intro h _ hin
    obtain ⟨dv, h1, _⟩ := hin
    simp at h1

end PS.Sp
