/-
  C05, part 6: the language of `__cfg2dfta__ G` against the language of `G`.
    cfg2dfta_complete : every program of a well-formed grammar is accepted ("never removes")
    cfg2dfta_exact    : under `cfg2dftaExact G` nothing else is        ("never adds", Hyp_C05)
-/
import PS.Proofs.ConstraintsCfg
set_option linter.unusedSectionVars false
namespace PS.C05
open PS DFTA PS.G

/-- height: 0 for a leaf -/
def hgt : Prog → Nat
  | .node _ ks => hgtList ks
where hgtList : List Prog → Nat
  | [] => 0
  | k :: ks => max (hgt k + 1) (hgtList ks)

def maxh (qs : List BaseSt) : Nat := (qs.map (·.2)).foldl max 0

/-- the dict writes of `__cfg2dfta__` for one grammar rule -/
def writes (md : Nat) (ty : Ty) (r : Sym × (List (Ty × CFGState) × Unit)) : List ((Sym × List BaseSt) × BaseSt) :=
  if r.2.1.length = 0 then [((r.1, []), (r.1.ty, 0))]
  else (cartesian (r.2.1.map (fun a => (List.range md).map (fun j => (a.1, j))))).filterMap (fun nargs =>
    if maxh nargs + 1 ≥ md then none else some ((r.1, nargs), (ty, maxh nargs + 1)))

def allWrites (G : CFG) : List ((Sym × List BaseSt) × BaseSt) :=
  G.rules.flatMap (fun e => e.2.flatMap (writes (maxDepth G) e.1.1))

theorem foldl_cond_insert {α κ ν : Type} [DecidableEq κ] (f : α → Option (κ × ν)) (xs : List α) (d : AList κ ν) :
    xs.foldl (fun acc x => match f x with | none => acc | some kv => AList.insert kv.1 kv.2 acc) d =
      AList.insertMany d (xs.filterMap f) := by
  induction xs generalizing d with
  | nil => rfl
  | cons x xs ih =>
    simp only [List.foldl_cons, List.filterMap_cons]
    cases hf : f x with
    | none => simp only [ih]
    | some kv => simp only [ih]; rfl

theorem cfg2dftaStep_eq (md : Nat) (ty : Ty) (acc : AList (Sym × List BaseSt) BaseSt)
    (r : Sym × (List (Ty × CFGState) × Unit)) :
    cfg2dftaStep md ty acc r = AList.insertMany acc (writes md ty r) := by
  unfold cfg2dftaStep writes
  simp only
  split
  · rfl
  · rw [← foldl_cond_insert]
    congr 1
    funext acc nargs
    unfold maxh
    split <;> rfl

theorem foldl_insertMany_flatMap {α κ ν : Type} [DecidableEq κ] (w : α → List (κ × ν)) (xs : List α) (d : AList κ ν) :
    xs.foldl (fun acc x => AList.insertMany acc (w x)) d = AList.insertMany d (xs.flatMap w) := by
  induction xs generalizing d with
  | nil => rfl
  | cons x xs ih => simp only [List.foldl_cons, List.flatMap_cons, AList.insertMany_append, ih]

theorem raw_rules_eq (G : CFG) : (cfg2dftaRaw G).rules = AList.insertMany [] (allWrites G) := by
  unfold cfg2dftaRaw allWrites
  simp only
  rw [← foldl_insertMany_flatMap]
  congr 1
  funext acc e
  rw [← foldl_insertMany_flatMap]
  congr 1
  funext acc r
  exact cfg2dftaStep_eq _ _ _ _

/-- membership in the grid of (type, height) argument tuples -/
theorem mem_grid (md : Nat) (args : List (Ty × CFGState)) (qs : List BaseSt) :
    qs ∈ cartesian (args.map (fun a => (List.range md).map (fun j => (a.1, j)))) ↔
      (qs.map (·.1) = args.map (·.1) ∧ ∀ q ∈ qs, q.2 < md) := by
  rw [mem_cartesian_iff]
  induction args generalizing qs with
  | nil =>
    constructor
    · intro h; cases h; simp
    · rintro ⟨h, _⟩
      cases qs with
      | nil => exact .nil
      | cons _ _ => simp at h
  | cons a as ih =>
    constructor
    · intro h
      cases h with
      | @cons q _ qs' _ h1 h2 =>
        obtain ⟨i1, i2⟩ := (ih qs').mp h2
        simp only [List.mem_map, List.mem_range] at h1
        obtain ⟨j, hj, e⟩ := h1
        subst e
        refine ⟨by simp [i1], ?_⟩
        intro x hx
        rcases List.mem_cons.mp hx with e | e
        · subst e; exact hj
        · exact i2 x e
    · rintro ⟨h1, h2⟩
      cases qs with
      | nil => simp at h1
      | cons q qs' =>
        simp only [List.map_cons, List.cons.injEq] at h1
        refine .cons ?_ ((ih qs').mpr ⟨h1.2, fun x hx => h2 x (List.mem_cons_of_mem _ hx)⟩)
        simp only [List.mem_map, List.mem_range]
        exact ⟨q.2, h2 q List.mem_cons_self, by rw [← h1.1]⟩

theorem mem_allWrites (G : CFG) (P : Sym) (qs : List BaseSt) (v : BaseSt) :
    ((P, qs), v) ∈ allWrites G ↔
      ∃ e ∈ G.rules, ∃ r ∈ e.2, r.1 = P ∧
        ((r.2.1 = [] ∧ qs = [] ∧ v = (P.ty, 0)) ∨
         (r.2.1 ≠ [] ∧ qs.map (·.1) = r.2.1.map (·.1) ∧ (∀ q ∈ qs, q.2 < maxDepth G) ∧
            maxh qs + 1 < maxDepth G ∧ v = (e.1.1, maxh qs + 1))) := by
  unfold allWrites
  simp only [List.mem_flatMap]
  constructor
  · rintro ⟨e, he, r, hr, hw⟩
    refine ⟨e, he, r, hr, ?_⟩
    unfold writes at hw
    split at hw
    · rename_i hl
      simp only [List.mem_singleton, Prod.mk.injEq] at hw
      obtain ⟨⟨e1, e2⟩, e3⟩ := hw
      exact ⟨e1.symm, Or.inl ⟨List.length_eq_zero_iff.mp hl, e2, by rw [e3, e1]⟩⟩
    · rename_i hl
      simp only [List.mem_filterMap] at hw
      obtain ⟨nargs, hn, hv⟩ := hw
      split at hv
      · cases hv
      · rename_i hlt
        simp only [Option.some.injEq, Prod.mk.injEq] at hv
        obtain ⟨⟨e1, e2⟩, e3⟩ := hv
        subst e2
        obtain ⟨g1, g2⟩ := (mem_grid _ _ _).mp hn
        exact ⟨e1, Or.inr ⟨fun h => hl (by simp [h]), g1, g2, by omega, e3.symm⟩⟩
  · rintro ⟨e, he, r, hr, e1, h⟩
    refine ⟨e, he, r, hr, ?_⟩
    unfold writes
    rcases h with ⟨h1, h2, h3⟩ | ⟨h1, h2, h3, h4, h5⟩
    · simp only [h1, List.length_nil, if_true, List.mem_singleton]
      rw [h2, h3, e1]
    · have hl : ¬ r.2.1.length = 0 := fun h => h1 (List.length_eq_zero_iff.mp h)
      simp only [hl, if_false, List.mem_filterMap]
      refine ⟨qs, (mem_grid _ _ _).mpr ⟨h2, h3⟩, ?_⟩
      have : ¬ (maxh qs + 1 ≥ maxDepth G) := by omega
      simp only [this, if_false, e1, h5]

/-- **what the table of `__cfg2dfta__` contains** (before `reduce`) -/
theorem raw_read_some (G : CFG) (P : Sym) (qs : List BaseSt) (v : BaseSt)
    (h : (cfg2dftaRaw G).read P qs = some v) : ((P, qs), v) ∈ allWrites G := by
  unfold DFTA.read at h
  rw [raw_rules_eq] at h
  exact AList.lookup_ofList_some h

theorem raw_read_of_unique (G : CFG) (P : Sym) (qs : List BaseSt) (v : BaseSt)
    (hex : ((P, qs), v) ∈ allWrites G) (hu : ∀ v', ((P, qs), v') ∈ allWrites G → v' = v) :
    (cfg2dftaRaw G).read P qs = some v := by
  unfold DFTA.read
  rw [raw_rules_eq]
  apply AList.lookup_insertMany_of_mem
  · exact ⟨_, hex, rfl⟩
  · rintro ⟨k, v'⟩ hx hk
    simp only at hk
    subst hk
    exact hu v' hx

/-! ### arithmetic of heights -/

theorem foldl_max_init (hs : List Nat) (a : Nat) : hs.foldl max a = max a (hs.foldl max 0) := by
  induction hs generalizing a with
  | nil => simp
  | cons h hs ih =>
    simp only [List.foldl_cons]
    rw [ih (max a h), ih (max 0 h)]
    omega

theorem maxh_cons (q : BaseSt) (qs : List BaseSt) : maxh (q :: qs) = max q.2 (maxh qs) := by
  unfold maxh
  simp only [List.map_cons, List.foldl_cons]
  rw [foldl_max_init]; omega

theorem maxh_le (qs : List BaseSt) (b : Nat) (h : ∀ q ∈ qs, q.2 ≤ b) : maxh qs ≤ b := by
  induction qs with
  | nil => simp [maxh]
  | cons q qs ih =>
    rw [maxh_cons]
    have := h q List.mem_cons_self
    have := ih (fun x hx => h x (List.mem_cons_of_mem _ hx))
    omega

theorem le_maxh (qs : List BaseSt) (q : BaseSt) (h : q ∈ qs) : q.2 ≤ maxh qs := by
  induction qs with
  | nil => cases h
  | cons x xs ih =>
    rw [maxh_cons]
    rcases List.mem_cons.mp h with e | e
    · subst e; omega
    · have := ih e; omega

theorem hgtList_eq (ks : List Prog) (qs : List BaseSt) (h : qs.map (·.2) = ks.map hgt) (hne : ks ≠ []) :
    hgt.hgtList ks = maxh qs + 1 := by
  induction ks generalizing qs with
  | nil => exact absurd rfl hne
  | cons k ks ih =>
    cases qs with
    | nil => simp at h
    | cons q qs =>
      simp only [List.map_cons, List.cons.injEq] at h
      rw [maxh_cons, hgt.hgtList, h.1]
      cases ks with
      | nil =>
        cases qs with
        | nil => simp [hgt.hgtList, maxh]
        | cons _ _ => simp at h
      | cons k' ks' =>
        rw [ih qs h.2 (by simp)]
        omega

theorem depth_lt_maxDepth (G : CFG) (e : CNT × AList Sym (List (Ty × CFGState) × Unit)) (he : e ∈ G.rules) :
    e.1.2.1.2 < maxDepth G := by
  unfold maxDepth
  have : ∀ (l : List Nat) (x : Nat), x ∈ l → x ≤ l.foldl max 0 := by
    intro l
    induction l with
    | nil => intro x hx; cases hx
    | cons y ys ih =>
      intro x hx
      simp only [List.foldl_cons]
      rw [foldl_max_init]
      rcases List.mem_cons.mp hx with e | e
      · subst e; omega
      · have := ih x e; omega
  have := this (G.rules.map (fun e => e.1.2.1.2)) e.1.2.1.2 (List.mem_map.mpr ⟨e, he, rfl⟩)
  omega

/-! ### unpacking `wfCFG`, `sigFunctional`, `gen` -/

structure WF (G : CFG) : Prop where
  nodup : (AList.keys G.rules).Nodup
  startKey : AList.contains G.start G.rules = true
  startDepth : G.start.2.1.2 = 0
  startTy : G.start.1.returns = G.start.1
  inner : ∀ e ∈ G.rules, (AList.keys e.2).Nodup ∧ ∀ r ∈ e.2,
    (r.2.1 = [] → r.1.ty = e.1.1) ∧ ∀ a ∈ r.2.1, a.2.2 = e.1.2.1.2 + 1 ∧ AList.contains (toNT a) G.rules = true

theorem wf_of (G : CFG) (h : wfCFG G = true) : WF G := by
  unfold wfCFG at h
  simp only [Bool.and_eq_true, decide_eq_true_eq, beq_iff_eq, List.all_eq_true] at h
  obtain ⟨⟨⟨⟨h1, h2⟩, h3⟩, h4⟩, h5⟩ := h
  refine ⟨h1, h2, h3, h4, ?_⟩
  intro e he
  obtain ⟨i1, i2⟩ := h5 e he
  refine ⟨i1, fun r hr => ?_⟩
  obtain ⟨j1, j2⟩ := i2 r hr
  refine ⟨?_, fun a ha => j2 a ha⟩
  intro hnil
  simpa [hnil] using j1

theorem sig_of (G : CFG) (h : sigFunctional G = true) :
    ∀ e ∈ G.rules, ∀ r ∈ e.2, ∀ e' ∈ G.rules, ∀ r' ∈ e'.2, r.1 = r'.1 →
      r.2.1.map (·.1) = r'.2.1.map (·.1) → e.1.1 = e'.1.1 := by
  unfold sigFunctional at h
  simp only [List.all_eq_true] at h
  intro e he r hr e' he' r' hr' h1 h2
  have := h e he r hr e' he' r' hr'
  simpa [h1, h2] using this

theorem gen_node (G : CFG) (f : Sym) (ks : List Prog) (nt : CNT) (h : gen G (.node f ks) nt = true) :
    ∃ rs args, (nt, rs) ∈ G.rules ∧ (f, (args, ())) ∈ rs ∧ genList G ks args = true := by
  rw [gen] at h
  unfold TT.rule? at h
  cases h1 : AList.lookup nt G.rules with
  | none => simp [h1] at h
  | some rs =>
    simp only [h1] at h
    cases h2 : AList.lookup f rs with
    | none => simp [h2] at h
    | some v =>
      obtain ⟨args, u⟩ := v
      simp only [h2] at h
      exact ⟨rs, args, AList.lookup_some_mem h1, AList.lookup_some_mem h2, h⟩

theorem mem_of_contains {κ ν : Type} [DecidableEq κ] {k : κ} {d : AList κ ν} (h : AList.contains k d = true) :
    ∃ v, (k, v) ∈ d := by
  obtain ⟨v, hv⟩ := AList.contains_iff_lookup.mp h
  exact ⟨v, AList.lookup_some_mem hv⟩

/-! ### completeness: the automaton reads a program of the grammar into (type, height) -/

mutual
  theorem gen_run (G : CFG) (hwf : WF G) (hsig : sigFunctional G = true) : ∀ (t : Prog) (nt : CNT),
      gen G t nt = true → DFTA.run (cfg2dftaRaw G) t = some (nt.1, hgt t) ∧ hgt t + nt.2.1.2 < maxDepth G
    | .node f ks, nt, h => by
      obtain ⟨rs, args, he, hr, hg⟩ := gen_node G f ks nt h
      obtain ⟨_, hin⟩ := hwf.inner _ he
      obtain ⟨hleaf, hargs⟩ := hin _ hr
      have hd := depth_lt_maxDepth G _ he
      obtain ⟨qs, hq1, hq2, hq3, hq4⟩ := genList_run G hwf hsig ks args nt.2.1.2 hg
        (fun a ha => ⟨(hargs a ha).2, (hargs a ha).1⟩)
      rw [run_node, hq1]
      simp only [Option.bind_some]
      have hlen : ks.length = args.length := by
        have a1 := congrArg List.length hq2
        have a2 := congrArg List.length hq3
        simp only [List.length_map] at a1 a2
        omega
      by_cases hnil : args = []
      · subst hnil
        have hks : ks = [] := List.length_eq_zero_iff.mp (by simpa using hlen)
        subst hks
        have hqs : qs = [] := by simpa using hq2
        subst hqs
        refine ⟨?_, by simp [hgt, hgt.hgtList]; exact hd⟩
        rw [← hleaf rfl]
        apply raw_read_of_unique
        · exact (mem_allWrites G f [] _).mpr ⟨_, he, _, hr, rfl, Or.inl ⟨rfl, rfl, rfl⟩⟩
        · intro v' hv'
          obtain ⟨e', _, r', _, _, h'⟩ := (mem_allWrites G f [] v').mp hv'
          rcases h' with ⟨_, _, e3⟩ | ⟨g1, g2, _⟩
          · exact e3
          · exact absurd (List.map_eq_nil_iff.mp g2.symm) g1
      · have hksne : ks ≠ [] := by
          intro e; subst e
          exact hnil (List.length_eq_zero_iff.mp (by simpa using hlen.symm))
        have hqsne : qs ≠ [] := by
          intro e; subst e
          simp at hq3
          exact hksne hq3
        have hh : hgt (.node f ks) = maxh qs + 1 := by
          rw [hgt]; exact hgtList_eq ks qs hq3 hksne
        have hmax : maxh qs + (nt.2.1.2 + 1) < maxDepth G := by
          cases qs with
          | nil => exact absurd rfl hqsne
          | cons q0 qs0 =>
            have hb : ∀ q ∈ (q0 :: qs0), q.2 ≤ maxDepth G - (nt.2.1.2 + 1) - 1 := by
              intro q hq; have := hq4 q hq; omega
            have := maxh_le _ _ hb
            have := hq4 q0 List.mem_cons_self
            omega
        rw [hh]
        refine ⟨?_, by omega⟩
        apply raw_read_of_unique
        · exact (mem_allWrites G f qs _).mpr ⟨_, he, _, hr, rfl, Or.inr ⟨hnil, hq2,
            fun q hq => by have := hq4 q hq; omega, by omega, rfl⟩⟩
        · intro v' hv'
          obtain ⟨e', he', r', hr', e1, h'⟩ := (mem_allWrites G f qs v').mp hv'
          rcases h' with ⟨_, g2, _⟩ | ⟨_, g2, _, _, g5⟩
          · exact absurd g2 hqsne
          · rw [g5]
            have := sig_of G hsig _ he _ hr e' he' r' hr' e1.symm (by rw [← hq2, g2])
            simp only at this
            rw [this]
  theorem genList_run (G : CFG) (hwf : WF G) (hsig : sigFunctional G = true) : ∀ (ks : List Prog)
      (args : List (Ty × CFGState)) (d : Nat), genList G ks args = true →
      (∀ a ∈ args, AList.contains (toNT a) G.rules = true ∧ a.2.2 = d + 1) →
      ∃ qs, runList (cfg2dftaRaw G) ks = some qs ∧ qs.map (·.1) = args.map (·.1) ∧ qs.map (·.2) = ks.map hgt ∧
        ∀ q ∈ qs, q.2 + (d + 1) < maxDepth G
    | [], [], _, _, _ => ⟨[], by simp, rfl, rfl, by simp⟩
    | [], _ :: _, _, h, _ => by simp [genList] at h
    | _ :: _, [], _, h, _ => by simp [genList] at h
    | k :: ks, a :: as, d, h, ha => by
      obtain ⟨t, s⟩ := a
      simp only [genList, Bool.and_eq_true] at h
      obtain ⟨h1, h2⟩ := h
      obtain ⟨r1, r2⟩ := gen_run G hwf hsig k (t, (s, ())) h1
      obtain ⟨qs, q1, q2, q3, q4⟩ := genList_run G hwf hsig ks as d h2 (fun x hx => ha x (List.mem_cons_of_mem _ hx))
      refine ⟨(t, hgt k) :: qs, ?_, by simp [q2], by simp [q3], ?_⟩
      · rw [runList_cons, r1, q1]; rfl
      · intro q hq
        rcases List.mem_cons.mp hq with e | e
        · subst e
          have := (ha (t, s) List.mem_cons_self).2
          simp only at this r2 ⊢
          omega
        · exact q4 q e
end

/-- **never removes**: every program of a well-formed grammar is accepted by `__cfg2dfta__ G` -/
theorem cfg2dfta_complete (G : CFG) (hwf : wfCFG G = true) (hsig : sigFunctional G = true) (t : Prog)
    (ht : gen G t G.start = true) : (cfg2dfta G).accepts t = true := by
  have w := wf_of G hwf
  rw [cfg2dfta_accepts]
  obtain ⟨h1, h2⟩ := gen_run G w hsig t G.start ht
  unfold DFTA.accepts
  rw [h1]
  simp only [decide_eq_true_eq]
  show (G.start.1, hgt t) ∈ (List.range (maxDepth G)).map (fun x => (G.start.1.returns, x))
  rw [w.startTy]
  exact List.mem_map.mpr ⟨hgt t, List.mem_range.mpr (by omega), rfl⟩

/-! ### exactness under `cfg2dftaExact` -/

theorem reduce_rules_sub {σ Q : Type} [DecidableEq σ] [DecidableEq Q] (A : DFTA σ Q) :
    ∀ x ∈ (reduce A).rules, x ∈ A.rules := by
  intro x hx
  unfold reduce removeUnproductive removeUnreachable at hx
  simp only at hx
  exact (List.mem_filter.mp (List.mem_filter.mp hx).1).1

theorem reduce_finals_sub {σ Q : Type} [DecidableEq σ] [DecidableEq Q] (A : DFTA σ Q) :
    ∀ x ∈ (reduce A).finals, x ∈ A.finals := by
  intro x hx
  unfold reduce removeUnproductive removeUnreachable at hx
  simp only at hx
  exact (List.mem_filter.mp hx).1

theorem exact_of (G : CFG) (h : cfg2dftaExact G = true) :
    ∀ r ∈ (cfg2dfta G).rules, ∀ e ∈ G.rules, e.1.1 = r.2.1 → e.1.2.1.2 + r.2.2 < maxDepth G →
      ∃ args u, AList.lookup r.1.1 e.2 = some (args, u) ∧ args.map (·.1) = r.1.2.map (·.1) := by
  unfold cfg2dftaExact at h
  simp only [List.all_eq_true] at h
  intro r hr e he h1 h2
  have := h r hr e he
  simp only [h1, h2, and_self, if_true] at this
  cases hl : AList.lookup r.1.1 e.2 with
  | none => simp [hl] at this
  | some v =>
    obtain ⟨args, u⟩ := v
    simp only [hl, beq_iff_eq] at this
    exact ⟨args, u, rfl, this⟩

mutual
  theorem run_gen (G : CFG) (w : WF G) (hex : cfg2dftaExact G = true) : ∀ (t : Prog) (e : CNT × AList Sym (List (Ty × CFGState) × Unit))
      (h : Nat), e ∈ G.rules → DFTA.run (cfg2dfta G) t = some (e.1.1, h) → e.1.2.1.2 + h < maxDepth G →
      gen G t e.1 = true
    | .node f ks, e, h, he, hr, hlt => by
      rw [run_node] at hr
      cases hqs : runList (cfg2dfta G) ks with
      | none => rw [hqs] at hr; cases hr
      | some qs =>
        rw [hqs] at hr
        simp only [Option.bind_some] at hr
        have hD := (read_eq_some_iff _ (cfg2dfta_det G) _ _ _).mp hr
        obtain ⟨args, u, hl, hty⟩ := exact_of G hex _ hD e he rfl hlt
        simp only at hl hty
        -- the rule of the automaton was written for heights: h = maxh qs + 1 (or a leaf)
        have hraw := raw_read_some G f qs (e.1.1, h)
          ((read_eq_some_iff _ (cfg2dftaRaw_det G) _ _ _).mpr (reduce_rules_sub _ _ hD))
        have hh : ∀ q ∈ qs, q.2 + 1 ≤ h := by
          obtain ⟨_, _, _, _, _, h'⟩ := (mem_allWrites G f qs _).mp hraw
          rcases h' with ⟨_, g2, _⟩ | ⟨_, _, _, _, g5⟩
          · subst g2; intro q hq; cases hq
          · intro q hq
            have := le_maxh qs q hq
            simp only [Prod.mk.injEq] at g5
            omega
        rw [gen]
        have hrule : G.rule? e.1 f = some (args, u) := by
          unfold TT.rule?
          rw [AList.lookup_of_mem_nodup w.nodup (show (e.1, e.2) ∈ G.rules from he)]
          exact hl
        rw [hrule]
        simp only
        obtain ⟨_, hin⟩ := w.inner e he
        have hr' := AList.lookup_some_mem hl
        obtain ⟨_, hargs⟩ := hin _ hr'
        exact runList_gen G w hex ks args qs e.1.2.1.2 (e.1.2.1.2 + h + 1) hqs hty (fun a ha => hargs a ha)
          (fun q hq => by have := hh q hq; omega) (by omega)
  theorem runList_gen (G : CFG) (w : WF G) (hex : cfg2dftaExact G = true) : ∀ (ks : List Prog) (args : List (Ty × CFGState))
      (qs : List BaseSt) (d m : Nat), runList (cfg2dfta G) ks = some qs → args.map (·.1) = qs.map (·.1) →
      (∀ a ∈ args, a.2.2 = d + 1 ∧ AList.contains (toNT a) G.rules = true) →
      (∀ q ∈ qs, d + 1 + q.2 < m) → m ≤ maxDepth G → genList G ks args = true
    | [], [], _, _, _, _, _, _, _, _ => by simp [genList]
    | [], _ :: _, qs, _, _, hq, hty, _, _, _ => by
      simp only [runList_nil, Option.some.injEq] at hq
      subst hq; simp at hty
    | k :: ks, [], qs, _, _, hq, hty, _, _, _ => by
      rw [runList_cons] at hq
      cases h1 : DFTA.run (cfg2dfta G) k with
      | none => rw [h1] at hq; cases hq
      | some q =>
        cases h2 : runList (cfg2dfta G) ks with
        | none => rw [h1, h2] at hq; cases hq
        | some qs' =>
          rw [h1, h2] at hq
          simp only [Option.bind_some, Option.map_some, Option.some.injEq] at hq
          subst hq; simp at hty
    | k :: ks, a :: as, qs, d, m, hq, hty, ha, hb, hm => by
      rw [runList_cons] at hq
      cases h1 : DFTA.run (cfg2dfta G) k with
      | none => rw [h1] at hq; cases hq
      | some q =>
        cases h2 : runList (cfg2dfta G) ks with
        | none => rw [h1, h2] at hq; cases hq
        | some qs' =>
          rw [h1, h2] at hq
          simp only [Option.bind_some, Option.map_some, Option.some.injEq] at hq
          subst hq
          simp only [List.map_cons, List.cons.injEq] at hty
          obtain ⟨t, s⟩ := a
          obtain ⟨hd1, hk⟩ := ha (t, s) List.mem_cons_self
          obtain ⟨rs, hrs⟩ := mem_of_contains hk
          simp only [genList, Bool.and_eq_true]
          refine ⟨?_, runList_gen G w hex ks as qs' d m h2 hty.2 (fun x hx => ha x (List.mem_cons_of_mem _ hx))
            (fun x hx => hb x (List.mem_cons_of_mem _ hx)) hm⟩
          have hq0 := hb q List.mem_cons_self
          have := run_gen G w hex k (toNT (t, s), rs) q.2 hrs
            (by rw [h1]; simp only [toNT]; have := hty.1; simp only at this; rw [this]) (by simp only [toNT] at hd1 ⊢; omega)
          exact this
end

/-- **Hyp_C05 ⇒ exact**: under `cfg2dftaExact`, `__cfg2dfta__ G` accepts exactly the programs of `G` -/
theorem cfg2dfta_exact (G : CFG) (hwf : wfCFG G = true) (hsig : sigFunctional G = true)
    (hex : cfg2dftaExact G = true) (t : Prog) : (cfg2dfta G).accepts t = gen G t G.start := by
  have w := wf_of G hwf
  cases hg : gen G t G.start with
  | true => exact cfg2dfta_complete G hwf hsig t hg
  | false =>
    cases ha : (cfg2dfta G).accepts t with
    | false => rfl
    | true =>
      obtain ⟨q, hq, hf⟩ := (accepts_iff _ t).mp ha
      have hf' := reduce_finals_sub _ _ hf
      obtain ⟨x, hx, e⟩ := List.mem_map.mp hf'
      obtain ⟨rs, hrs⟩ := mem_of_contains w.startKey
      have := run_gen G w hex t (G.start, rs) x hrs (by rw [hq, ← e, w.startTy])
        (by simp only [w.startDepth]; have := List.mem_range.mp hx; omega)
      rw [hg] at this; cases this

end PS.C05
