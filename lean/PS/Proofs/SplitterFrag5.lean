/- C08, fragment grammar, part 5: the invariant of the loop `for node in group` of
   `__pcfg_from__` (`GoInv`) and its preservation by `addNode`. -/
import PS.Proofs.SplitterFrag4
namespace PS.Sp
open PS PS.G

variable {U : Type} [DecidableEq U]

/-! ### the row of a start copy: one rule per node that starts with it -/

/-- first renamed steps (symbol, arguments, weight of the node) of the nodes whose start copy is `X` -/
def heads (L : List (Lay U)) (X : UNT (U × Nat)) : List (Sym × List (UNT (U × Nat)) × Rat) :=
  (L.filter (fun l => decide (l.sp = X))).filterMap
    (fun l => l.steps'.head?.map (fun s => (s.2.1, s.2.2, l.n.prob)))

def buildR (hs : List (Sym × List (UNT (U × Nat)) × Rat)) : AList Sym (List (List (UNT (U × Nat)))) :=
  hs.foldl (fun rs h => stepR rs h.1 h.2.1) []

def buildP (hs : List (Sym × List (UNT (U × Nat)) × Rat)) : AList Sym (AList (List (UNT (U × Nat))) Rat) :=
  hs.foldl (fun ps h => stepP ps h.1 h.2.1 h.2.2) []

/-- total weight of the nodes whose start copy is `X` -/
def spMass (L : List (Lay U)) (X : UNT (U × Nat)) : Rat :=
  ((L.filter (fun l => decide (l.sp = X))).map (·.n.prob)).sum

theorem heads_append_ne (L : List (Lay U)) (l : Lay U) (X : UNT (U × Nat)) (h : l.sp ≠ X) :
    heads (L ++ [l]) X = heads L X := by
  simp [heads, List.filter_append, h]

theorem heads_append_nil (L : List (Lay U)) (l : Lay U) (X : UNT (U × Nat)) (h : l.steps' = []) :
    heads (L ++ [l]) X = heads L X := by
  by_cases hx : l.sp = X
  · simp [heads, List.filter_append, hx, h]
  · exact heads_append_ne L l X hx

theorem heads_append_eq (L : List (Lay U)) (l : Lay U) (s0 : Step (U × Nat)) (t : List (Step (U × Nat)))
    (h : l.steps' = s0 :: t) : heads (L ++ [l]) l.sp = heads L l.sp ++ [(s0.2.1, s0.2.2, l.n.prob)] := by
  simp [heads, List.filter_append, h]

theorem spMass_append (L : List (Lay U)) (l : Lay U) (X : UNT (U × Nat)) :
    spMass (L ++ [l]) X = spMass L X + (if l.sp = X then l.n.prob else 0) := by
  by_cases hx : l.sp = X
  · simp [spMass, List.filter_append, hx, Rat.add_zero]
  · simp [spMass, List.filter_append, hx, Rat.add_zero]

theorem spMass_none (L : List (Lay U)) (X : UNT (U × Nat)) (h : ∀ l ∈ L, l.sp ≠ X) : spMass L X = 0 := by
  have : L.filter (fun l => decide (l.sp = X)) = [] := by
    apply List.filter_eq_nil_iff.mpr
    intro l hl
    simpa using h l hl
  simp [spMass, this]

theorem heads_none (L : List (Lay U)) (X : UNT (U × Nat)) (h : ∀ l ∈ L, l.sp ≠ X) : heads L X = [] := by
  have : L.filter (fun l => decide (l.sp = X)) = [] := by
    apply List.filter_eq_nil_iff.mpr
    intro l hl
    simpa using h l hl
  simp [heads, this]

omit [DecidableEq U] in
theorem buildR_snoc (hs : List (Sym × List (UNT (U × Nat)) × Rat)) (h : Sym × List (UNT (U × Nat)) × Rat) :
    buildR (hs ++ [h]) = stepR (buildR hs) h.1 h.2.1 := by
  simp [buildR, List.foldl_append]

theorem buildP_snoc (hs : List (Sym × List (UNT (U × Nat)) × Rat)) (h : Sym × List (UNT (U × Nat)) × Rat) :
    buildP (hs ++ [h]) = stepP (buildP hs) h.1 h.2.1 h.2.2 := by
  simp [buildP, List.foldl_append]

/-! ### freshness of the copies of one node -/

theorem lay_own {lo hi : Nat} {start : UNT U} {sp : UNT (U × Nat)} {steps : List (Step U)}
    {steps' : List (Step (U × Nat))} {pend : List (UNT U × UNT (U × Nat))}
    (hp : renPath lo [(start, sp)] steps = some (hi, steps', pend)) (hsp : idx sp ≤ lo) :
    lo ≤ hi ∧ (targets steps' ++ names pend).Nodup ∧
    (∀ x ∈ targets steps' ++ names pend, x = sp ∨ (lo < idx x ∧ idx x ≤ hi)) ∧
    (∀ s ∈ steps', ∀ x ∈ s.2.2, lo < idx x ∧ idx x ≤ hi) ∧
    (steps ≠ [] → ∃ s0 t, steps' = s0 :: t ∧ s0.1 = sp) ∧
    (steps = [] → steps' = [] ∧ pend = [(start, sp)]) := by
  obtain ⟨h1, h2, h3, h4⟩ := renPath_names steps lo [(start, sp)] _ hp
    (by intro x hx; simp only [names, List.map_cons, List.map_nil, List.mem_singleton] at hx; subst hx; exact hsp)
    (by simp [names])
  refine ⟨h1, h2, ?_, h4, ?_, ?_⟩
  · intro x hx
    rcases h3 x hx with h | h
    · left; simpa [names] using h
    · right; exact h
  · intro hne
    cases steps with
    | nil => exact absurd rfl hne
    | cons st0 w =>
      obtain ⟨S, P, v⟩ := st0
      obtain ⟨Sp, rest, r0, e1, _, e3⟩ := renPath_cons_inv hp
      simp only [List.cons.injEq, Prod.mk.injEq, List.nil_eq] at e1
      simp only [Prod.mk.injEq] at e3
      exact ⟨_, _, e3.2.1, e1.1.2.symm⟩
  · intro hnil
    subst hnil
    simp only [renPath, Option.some.injEq, Prod.mk.injEq] at hp
    exact ⟨hp.2.1.symm, hp.2.2.symm⟩

/-! ### the invariant -/

structure GoInv (pg : PUG U) (st : FragSt U) (L : List (Lay U)) : Prop where
  path : ∀ l ∈ L, renPath l.lo [(l.n.start, l.sp)] l.n.steps = some (l.hi, l.steps', l.pend)
  rng : ∀ l ∈ L, 0 < idx l.sp ∧ idx l.sp ≤ l.lo ∧ l.hi ≤ st.counter
  spLook : ∀ l ∈ L, AList.lookup l.n.start st.newStarts = some l.sp
  spEr : ∀ l ∈ L, er l.sp = l.n.start
  spIdx : ∀ l ∈ L, ∀ l' ∈ L, idx l'.sp ≤ l.lo ∨ l.hi < idx l'.sp
  nsL : ∀ e ∈ st.newStarts, ∃ l ∈ L, l.n.start = e.1 ∧ l.sp = e.2
  keys : ∀ X, idx X = 0 ∨ st.counter < idx X → AList.lookup X st.rules = none ∧ AList.lookup X st.probs = none
  chain : ∀ l ∈ L, ∀ s ∈ l.steps'.tail, AList.lookup s.1 st.rules = some [(s.2.1, [s.2.2])] ∧
    AList.lookup s.1 st.probs = some [(s.2.1, [(s.2.2, 1)])]
  pendC : ∀ l ∈ L, ∀ e ∈ l.pend, IsCopy pg st.rules st.probs e.2 ∧ ∀ S' ∈ rhsSyms pg e.1, S' ∈ st.toFill
  startT : ∀ l ∈ L, (∀ l2 ∈ L, l2.sp = l.sp → l2.n.steps ≠ []) →
    (AList.lookup l.sp st.rules).getD [] = buildR (heads L l.sp) ∧
    (AList.lookup l.sp st.probs).getD [] = buildP (heads L l.sp)
  spKeys : ∀ X, X ∈ AList.keys st.startProbs ↔ ∃ l ∈ L, l.sp = X
  spVal : ∀ l ∈ L, AList.lookup l.sp st.startProbs = some (spMass L l.sp)
  spTot : (st.startProbs.map (·.2)).sum = (L.map (·.n.prob)).sum
  disj : L.Pairwise (fun a b => a.hi ≤ b.lo)

theorem goInv_init (pg : PUG U) : GoInv pg ⟨0, [], [], [], [], []⟩ [] := by
  refine ⟨?_, ?_, ?_, ?_, ?_, ?_, ?_, ?_, ?_, ?_, ?_, ?_, ?_, ?_⟩ <;> simp [AList.keys]

theorem mem_keys_insert {κ ν : Type} [DecidableEq κ] (k : κ) (v : ν) (x : κ) : ∀ (d : AList κ ν),
    x ∈ AList.keys (AList.insert k v d) ↔ x = k ∨ x ∈ AList.keys d
  | [] => by simp [AList.insert, AList.keys]
  | (k', v') :: r => by
    by_cases hk : k' = k
    · subst hk; simp [AList.insert, AList.keys]
    · have := mem_keys_insert k v x r
      simp only [AList.keys] at this
      simp only [AList.insert, hk, if_false, AList.keys, List.map_cons, List.mem_cons, this]
      constructor
      · rintro (h | h | h)
        · exact Or.inr (Or.inl h)
        · exact Or.inl h
        · exact Or.inr (Or.inr h)
      · rintro (h | h | h)
        · exact Or.inr (Or.inl h)
        · exact Or.inl h
        · exact Or.inr (Or.inr h)

/-- the allocation of the start copy -/
theorem alloc_spec {pg : PUG U} {st : FragSt U} {L : List (Lay U)} (hi : GoInv pg st L) (n : Node U) :
    (st2Of st n).rules = st.rules ∧ (st2Of st n).probs = st.probs ∧ (st2Of st n).toFill = st.toFill ∧
    st.counter ≤ (st2Of st n).counter ∧
    AList.lookup n.start (st2Of st n).newStarts = some (spOf st n) ∧
    (∀ s x, AList.lookup s st.newStarts = some x → AList.lookup s (st2Of st n).newStarts = some x) ∧
    er (spOf st n) = n.start ∧ 0 < idx (spOf st n) ∧ idx (spOf st n) ≤ (st2Of st n).counter ∧
    (∀ l ∈ L, idx (spOf st n) ≤ l.lo ∨ l.hi < idx (spOf st n)) ∧
    (∀ e ∈ (st2Of st n).newStarts, e ∈ st.newStarts ∨ e = (n.start, spOf st n)) ∧
    (∀ X, X ∈ AList.keys (st2Of st n).startProbs ↔ X = spOf st n ∨ X ∈ AList.keys st.startProbs) ∧
    AList.lookup (spOf st n) (st2Of st n).startProbs = some (spMass L (spOf st n) + n.prob) ∧
    (∀ X, X ≠ spOf st n → AList.lookup X (st2Of st n).startProbs = AList.lookup X st.startProbs) ∧
    ((st2Of st n).startProbs.map (·.2)).sum = (st.startProbs.map (·.2)).sum + n.prob ∧
    ((∃ l ∈ L, l.sp = spOf st n) ∨ ((∀ l ∈ L, l.sp ≠ spOf st n) ∧ st.counter < idx (spOf st n))) := by
  cases hl : AList.lookup n.start st.newStarts with
  | some x =>
    obtain ⟨l', hl', hs', hx'⟩ := hi.nsL (n.start, x) (AList.lookup_some_mem hl)
    simp only at hs' hx'
    have hsp : spOf st n = x := by simp [spOf, hl]
    have hval := hi.spVal l' hl'
    rw [hx'] at hval
    have hst2 : st2Of st n =
        { st with startProbs := AList.insert x ((AList.lookup x st.startProbs).getD 0 + n.prob) st.startProbs } := by
      simp [st2Of, hl, hsp]
    rw [hsp, hst2]
    have hr := hi.rng l' hl'
    rw [hx'] at hr
    refine ⟨rfl, rfl, rfl, Nat.le_refl _, hl, fun s y h => h, ?_, hr.1, ?_, ?_, fun e he => Or.inl he, ?_, ?_, ?_, ?_,
      Or.inl ⟨l', hl', hx'⟩⟩
    · rw [← hx', hi.spEr l' hl', hs']
    · have := hi.rng l' hl'; rw [hx'] at this
      have h2 := hi.path l' hl'
      have := (lay_own h2 (by rw [hx']; exact this.2.1)).1
      simp only; omega
    · intro l hl2
      have := hi.spIdx l hl2 l' hl'
      rw [hx'] at this; exact this
    · intro X; exact mem_keys_insert _ _ _ _
    · simp only [AList.lookup_insert_self, hval, Option.getD_some]
    · intro X hX
      exact AList.lookup_insert_ne _ _ hX
    · simp only
      rw [sum_insert_of_lookup_some hval, hval]
      simp only [Option.getD_some]
      grind
  | none =>
    have hsp : spOf st n = (n.start.1, (n.start.2, st.counter + 1)) := by simp [spOf, hl]
    have hno : ∀ l ∈ L, l.sp ≠ spOf st n := by
      intro l hl2 he
      have := hi.rng l hl2
      have h2 := (lay_own (hi.path l hl2) this.2.1).1
      rw [he, hsp] at this
      simp only [idx] at this
      omega
    have hnone : AList.lookup (spOf st n) st.startProbs = none := by
      cases h : AList.lookup (spOf st n) st.startProbs with
      | none => rfl
      | some v =>
        have : spOf st n ∈ AList.keys st.startProbs :=
          AList.lookup_isSome_iff_mem_keys.mp (by rw [h]; rfl)
        obtain ⟨l, hl2, he⟩ := (hi.spKeys _).mp this
        exact absurd he (hno l hl2)
    have hst2 : st2Of st n =
        { st with counter := st.counter + 1, newStarts := AList.insert n.start (spOf st n) st.newStarts,
                  startProbs := AList.insert (spOf st n) (0 + n.prob) (AList.insert (spOf st n) 0 st.startProbs) } := by
      simp [st2Of, hl, AList.lookup_insert_self]
    rw [hst2]
    have hidx : idx (spOf st n) = st.counter + 1 := by rw [hsp]; rfl
    refine ⟨rfl, rfl, rfl, Nat.le_succ _, AList.lookup_insert_self _ _ _, ?_, ?_, ?_, ?_, ?_, ?_, ?_, ?_, ?_, ?_,
      Or.inr ⟨hno, by rw [hidx]; exact Nat.lt_succ_self _⟩⟩
    · intro s y h
      have hne : s ≠ n.start := by intro he; rw [he, hl] at h; cases h
      simp only
      rw [AList.lookup_insert_ne _ _ hne]; exact h
    · rw [hsp]; rfl
    · rw [hidx]; exact Nat.succ_pos _
    · rw [hidx]; exact Nat.le_refl _
    · intro l hl2
      right
      have := hi.rng l hl2
      rw [hidx]; omega
    · intro e he
      simp only at he
      rw [insert_of_lookup_none hl] at he
      rcases List.mem_append.mp he with he | he
      · exact Or.inl he
      · right; simpa using he
    · intro X
      simp only
      rw [mem_keys_insert, mem_keys_insert]
      constructor
      · rintro (h | h | h)
        · exact Or.inl h
        · exact Or.inl h
        · exact Or.inr h
      · rintro (h | h)
        · exact Or.inl h
        · exact Or.inr (Or.inr h)
    · simp only [AList.lookup_insert_self, spMass_none L _ hno]
    · intro X hX
      simp only
      rw [AList.lookup_insert_ne _ _ hX, AList.lookup_insert_ne _ _ hX]
    · simp only
      rw [sum_insert_of_lookup_some (AList.lookup_insert_self _ _ _), insert_of_lookup_none hnone]
      simp only [List.map_append, List.sum_append, List.map_cons, List.map_nil, List.sum_cons, List.sum_nil]
      grind

end PS.Sp
