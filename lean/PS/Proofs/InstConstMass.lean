/- C17, probabilities: the instantiations of a template share its probability; row sums. -/
import PS.Proofs.InstConst
import Mathlib.Algebra.Order.Field.Rat
import Mathlib.Tactic.Ring
import Mathlib.Tactic.FieldSimp
namespace PS.IC
open PS PS.G

theorem rsum_append (a b : List Rat) : rsum (a ++ b) = rsum a + rsum b := by
  induction a with
  | nil => simp [rsum]
  | cons x xs ih => simp only [List.cons_append, rsum, ih]; ring

theorem rsum_map_mul_left {α : Type} (c : Rat) (g : α → Rat) (l : List α) :
    rsum (l.map fun x => c * g x) = c * rsum (l.map g) := by
  induction l with
  | nil => simp [rsum]
  | cons x xs ih => simp only [List.map_cons, rsum, ih]; ring

theorem rsum_map_const {α : Type} (c : Rat) (l : List α) :
    rsum (l.map fun _ => c) = (l.length : Rat) * c := by
  induction l with
  | nil => simp [rsum]
  | cons x xs ih => simp only [List.map_cons, rsum, ih, List.length_cons]; push_cast; ring

theorem rsum_map_congr {α : Type} {g g' : α → Rat} {l : List α} (h : ∀ x ∈ l, g x = g' x) :
    rsum (l.map g) = rsum (l.map g') := by
  induction l with
  | nil => rfl
  | cons x xs ih =>
    simp only [List.map_cons, rsum]
    rw [h x (by simp), ih (fun y hy => h y (by simp [hy]))]

/-- a sum over a product-shaped listing of a product-shaped function factorises -/
theorem rsum_flatMap_map {α β γ : Type} (g : α → β → γ) (hf : γ → Rat) (u : α → Rat) (w : β → Rat)
    (l : List α) (m : List β) (h : ∀ a ∈ l, ∀ b, hf (g a b) = u a * w b) :
    rsum ((l.flatMap fun a => m.map (g a)).map hf) = rsum (l.map u) * rsum (m.map w) := by
  induction l with
  | nil => simp [rsum]
  | cons a r ih =>
    rw [List.flatMap_cons, List.map_append, rsum_append, ih (fun a' ha' => h a' (by simp [ha']))]
    simp only [List.map_map, List.map_cons, rsum]
    have : rsum (m.map (hf ∘ g a)) = u a * rsum (m.map w) := by
      rw [← rsum_map_mul_left]
      exact rsum_map_congr (fun b _ => h a (by simp) b)
    rw [this]; ring

theorem rsum_flatMap {α : Type} (g : α → List Rat) (l : List α) :
    rsum (l.flatMap g) = rsum (l.map fun a => rsum (g a)) := by
  induction l with
  | nil => rfl
  | cons a r ih => rw [List.flatMap_cons, rsum_append, ih]; rfl

theorem rsum_share (x : Rat) (vals : List String) (h : vals ≠ []) :
    rsum (vals.map fun _ => x / (vals.length : Rat)) = x := by
  rw [rsum_map_const]
  have : (vals.length : Rat) ≠ 0 := by
    exact_mod_cast (by intro e; exact h (List.length_eq_zero_iff.mp e) : vals.length ≠ 0)
  field_simp

/-! ### row sums -/

/-- the weights of a row sum to the same value after instantiation -/
theorem rsum_instRow {fx : Fix} {tbl : Tbl} {row : AList Sym Rat} (h : rowOK fx tbl row = true)
    (hne : rowNonEmpty fx tbl row = true) :
    rsum (AList.values (instRow fx tbl (fun p n => p / (n : Rat)) row)) = rsum (AList.values row) := by
  rw [instRow_eq_flatMap h]
  unfold rowNonEmpty at hne
  rw [List.all_eq_true] at hne
  have hne' : ∀ e ∈ row, slot? fx tbl e.1 ≠ some [] := by
    intro e he hs
    have := hne e.1 (List.mem_map.mpr ⟨e, he, rfl⟩)
    rw [hs] at this
    cases this
  clear hne h
  unfold AList.values
  induction row with
  | nil => rfl
  | cons e r ih =>
    rw [List.flatMap_cons, List.map_append, rsum_append, ih (fun e' he' => hne' e' (by simp [he']))]
    simp only [List.map_cons, rsum]
    congr 1
    unfold expand
    cases hs : slot? fx tbl e.1 with
    | none => simp [rsum]
    | some vals =>
      simp only [List.map_map]
      have hv : vals ≠ [] := by
        intro e'; subst e'
        exact hne' e (by simp) hs
      exact rsum_share e.2 vals hv

theorem rsum_values_div {κ : Type} (d : AList κ Rat) (n : Rat) :
    rsum (AList.values (d.map fun kv => (kv.1, kv.2 / n))) = rsum (AList.values d) / n := by
  unfold AList.values
  induction d with
  | nil => simp [rsum]
  | cons e r ih =>
    simp only [List.map_cons, rsum] at ih ⊢
    rw [ih]; ring

theorem rsum_instURow {κ : Type} {fx : Fix} {tbl : Tbl} {row : AList Sym (AList κ Rat)} (h : rowOK fx tbl row = true)
    (hne : rowNonEmpty fx tbl row = true) :
    uRowSum (instRow fx tbl (fun d n => d.map (fun kv => (kv.1, kv.2 / (n : Rat)))) row) = uRowSum row := by
  rw [instRow_eq_flatMap h]
  unfold rowNonEmpty at hne
  rw [List.all_eq_true] at hne
  have hne' : ∀ e ∈ row, slot? fx tbl e.1 ≠ some [] := by
    intro e he hs
    have := hne e.1 (List.mem_map.mpr ⟨e, he, rfl⟩)
    rw [hs] at this
    cases this
  clear hne h
  unfold uRowSum
  induction row with
  | nil => rfl
  | cons e r ih =>
    rw [List.flatMap_cons, List.map_append, rsum_append, ih (fun e' he' => hne' e' (by simp [he']))]
    simp only [List.map_cons, rsum]
    congr 1
    unfold expand
    cases hs : slot? fx tbl e.1 with
    | none => simp [rsum]
    | some vals =>
      simp only [List.map_map]
      have hv : vals ≠ [] := by
        intro e'; subst e'
        exact hne' e (by simp) hs
      have : ((fun e : Sym × AList κ Rat => rsum (AList.values e.2)) ∘ fun val =>
          (Sym.const e.1.ty val, List.map (fun kv => (kv.1, kv.2 / (vals.length : Rat))) e.2)) =
          fun _ => rsum (AList.values e.2) / (vals.length : Rat) := by
        funext val
        simp only [Function.comp]
        exact rsum_values_div e.2 _
      rw [this]
      exact rsum_share _ vals hv

/-! ### probabilities in the instantiated grammar -/

section grammar
variable {S : Type} [DecidableEq S]

theorem tag?_inst_of_produces {fx : Fix} {tbl : Tbl} {tags : Tags S Unit} (h : rulesOK fx tbl tags = true)
    (nt : NT S Unit) {P k : Sym} (hP : okKey fx tbl P) (hp : produces fx tbl P k) :
    tag? (instTags fx tags tbl) nt k =
      (tag? tags nt P).map (fun v => match slot? fx tbl P with
        | some vals => v / (vals.length : Rat) | none => v) := by
  unfold tag? instTags
  simp only [lookup_instRules]
  cases hl : AList.lookup nt tags with
  | none => rfl
  | some row =>
    simp only [Option.map_some]
    rw [lookup_instRow_of_produces (rulesOK_row h hl) hP hp]
    rfl

/-- which heads `allInstSym` lists: the program side and the grammar side make the same test -/
theorem allInstSym_produces {fx : Fix} {tbl : Tbl} {P : Sym} {hs : List Sym}
    (e : allInstSym fx tbl P = some hs) :
    (∀ k ∈ hs, produces fx tbl P k) ∧
    (match slot? fx tbl P with
      | some vals => hs = vals.map (fun v => Sym.const P.ty v)
      | none => hs = [P]) := by
  unfold allInstSym at e
  have self_case : slot? fx tbl P = none → hs = [P] →
      (∀ k ∈ hs, produces fx tbl P k) ∧
      (match slot? fx tbl P with
        | some vals => hs = vals.map (fun v => Sym.const P.ty v)
        | none => hs = [P]) := by
    intro hs' he
    rw [hs']
    refine ⟨?_, he⟩
    intro k hk'
    rw [he] at hk'
    simp only [List.mem_singleton] at hk'
    unfold produces
    rw [hs']
    exact hk'
  by_cases hk : P.kind = .const
  · rw [if_pos hk] at e
    by_cases hc : fx.isConst P = true
    · rw [if_pos hc] at e
      cases hl : AList.lookup P.ty tbl with
      | none =>
        rw [hl] at e
        simp only at e
        have hs' : slot? fx tbl P = none := by simp [slot?, hc, hl]
        by_cases h4 : fx.f4 = true
        · rw [if_pos h4] at e
          simp only [Option.some.injEq] at e
          exact self_case hs' e.symm
        · rw [if_neg h4] at e; cases e
      | some vals0 =>
        rw [hl] at e
        simp only [Option.some.injEq] at e
        have hs' : slot? fx tbl P = some (fx.vals vals0) := by simp [slot?, hc, hl]
        rw [hs']
        refine ⟨?_, e.symm⟩
        intro k hk'
        rw [← e] at hk'
        obtain ⟨v, hv, rfl⟩ := List.mem_map.mp hk'
        unfold produces
        rw [hs']
        exact ⟨v, hv, rfl⟩
    · rw [if_neg hc] at e
      simp only [Option.some.injEq] at e
      exact self_case (by simp [slot?, hc]) e.symm
  · rw [if_neg hk] at e
    simp only [Option.some.injEq] at e
    exact self_case (by simp [slot?, Fix.isConst, hk]) e.symm

mutual
  theorem mass (fx : Fix) (tbl : Tbl) (G : TT S Unit) (tags : Tags S Unit)
      (hG : rulesOK fx tbl G.rules = true) (hT : rulesOK fx tbl tags = true)
      (hne : rulesNonEmpty fx tbl G.rules = true) :
      ∀ (t : Prog) (nt : NT S Unit) (l : List Prog), gen G t nt = true → allInst fx tbl t = some l →
        rsum (l.map fun t' => prob (inst fx G tbl) (instTags fx tags tbl) t' nt) = prob G tags t nt
    | .node P kids, nt, l => by
      intro hg ha
      unfold gen at hg
      cases hr : G.rule? nt P with
      | none => rw [hr] at hg; cases hg
      | some r =>
        obtain ⟨args, u⟩ := r
        rw [hr] at hg
        simp only at hg
        have hok := okKey_of_rule hG hr
        unfold allInst at ha
        cases e1 : allInstSym fx tbl P with
        | none => rw [e1] at ha; cases ha
        | some hs =>
          rw [e1] at ha
          obtain ⟨hprod, hshape⟩ := allInstSym_produces e1
          cases hs with
          | nil =>
            -- an empty list of heads: the slot has no value, excluded by `rulesNonEmpty`
            exfalso
            unfold TT.rule? at hr
            cases hl : AList.lookup nt G.rules with
            | none => rw [hl] at hr; cases hr
            | some row =>
              rw [hl] at hr
              have hrow := rulesNonEmpty_row hne hl
              unfold rowNonEmpty at hrow
              rw [List.all_eq_true] at hrow
              have := hrow P (mem_keys_of_lookup hr)
              cases hs' : slot? fx tbl P with
              | none => rw [hs'] at hshape; cases hshape
              | some vals =>
                rw [hs'] at hshape this
                cases vals with
                | nil => cases this
                | cons v vs => cases hshape
          | cons h0 hs0 =>
            simp only at ha
            cases e2 : allInstList fx tbl kids with
            | none => rw [e2] at ha; cases ha
            | some poss =>
              rw [e2] at ha
              simp only [Option.some.injEq] at ha
              rw [← ha]
              have ih := massList fx tbl G tags hG hT hne kids args poss hg e2
              have hfac : ∀ k ∈ h0 :: hs0, ∀ ks',
                  prob (inst fx G tbl) (instTags fx tags tbl) (Tree.node k ks') nt =
                    (tag? (instTags fx tags tbl) nt k).getD 0 *
                      probList (inst fx G tbl) (instTags fx tags tbl) ks' args := by
                intro k hk ks'
                unfold prob
                rw [rule?_inst_of_produces hG nt hok (hprod k hk), hr]
              rw [rsum_flatMap_map (fun f' ks => Tree.node f' ks) _ _ _ _ _ hfac, ih]
              unfold prob
              rw [hr]
              simp only
              congr 1
              -- the heads share the tag of the template symbol
              have htag : ∀ k ∈ h0 :: hs0, (tag? (instTags fx tags tbl) nt k).getD 0 =
                  (match slot? fx tbl P with
                    | some vals => (tag? tags nt P).getD 0 / (vals.length : Rat)
                    | none => (tag? tags nt P).getD 0) := by
                intro k hk
                rw [tag?_inst_of_produces hT nt hok (hprod k hk)]
                cases tag? tags nt P with
                | none => cases slot? fx tbl P <;> simp
                | some v => cases slot? fx tbl P <;> simp
              rw [rsum_map_congr htag]
              cases hs' : slot? fx tbl P with
              | none =>
                rw [hs'] at hshape
                rw [hshape]
                simp [rsum]
              | some vals =>
                rw [hs'] at hshape
                rw [hshape, List.map_map]
                have hv : vals ≠ [] := by
                  intro e; subst e; cases hshape
                exact rsum_share _ vals hv
  theorem massList (fx : Fix) (tbl : Tbl) (G : TT S Unit) (tags : Tags S Unit)
      (hG : rulesOK fx tbl G.rules = true) (hT : rulesOK fx tbl tags = true)
      (hne : rulesNonEmpty fx tbl G.rules = true) :
      ∀ (ks : List Prog) (args : List (Ty × S)) (poss : List (List Prog)),
        genList G ks args = true → allInstList fx tbl ks = some poss →
        rsum ((product poss).map fun ks' => probList (inst fx G tbl) (instTags fx tags tbl) ks' args) =
          probList G tags ks args
    | [], [], poss => by
      intro _ ha
      unfold allInstList at ha
      cases ha
      simp [product, probList, rsum]
    | [], _ :: _, _ => by intro hg; simp [genList] at hg
    | _ :: _, [], _ => by intro hg; simp [genList] at hg
    | k :: ks, (t, s) :: as, poss => by
      intro hg ha
      unfold genList at hg
      rw [Bool.and_eq_true] at hg
      unfold allInstList at ha
      cases e1 : allInst fx tbl k with
      | none => rw [e1] at ha; cases ha
      | some l =>
        cases e2 : allInstList fx tbl ks with
        | none => rw [e1, e2] at ha; cases ha
        | some ls =>
          rw [e1, e2] at ha
          simp only [Option.some.injEq] at ha
          rw [← ha]
          have ih1 := mass fx tbl G tags hG hT hne k (t, (s, ())) l hg.1 e1
          have ih2 := massList fx tbl G tags hG hT hne ks as ls hg.2 e2
          unfold product
          rw [rsum_flatMap_map (fun x r => x :: r) _
            (fun x => prob (inst fx G tbl) (instTags fx tags tbl) x (t, (s, ())))
            (fun r => probList (inst fx G tbl) (instTags fx tags tbl) r as) _ _
            (fun a _ b => by simp only [probList])]
          rw [ih1, ih2]
          simp only [probList]
end

end grammar

end PS.IC
