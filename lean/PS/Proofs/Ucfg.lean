/-
  Unambiguous grammars (C04): the stack-based derivation enumeration
  `__reduce_derivations_rec__` / membership `__contains_rec__` of u_grammar.py agree with the
  stack-free specification `derivs`, and `ProbUGrammar.probability` with `probU`.
-/
import PS.Model.Prob
namespace PS.U
open PS PS.G
variable {U : Type} [DecidableEq U]
set_option linter.unusedSectionVars false

/-- the rule used by a step -/
def Step.rule (e : Step U) : UNT U × Sym × List (UNT U) := (e.nt, e.sym, e.args)

/-- what a completed sub-derivation leaves: the pending stack popped once -/
def pop (G : UCFG U) : List (UNT U) → List (UNT U) × UNT U
  | i :: rest => (rest, i)
  | [] => ([], (Ty.unknown, G.someStart.2))

/-- `p` is non-empty and its last step carries the popped stack -/
def Fin (G : UCFG U) (info : List (UNT U)) (p : List (Step U)) : Prop :=
  ∃ e, p.getLast? = some e ∧ (e.info, e.next) = pop G info

/-- `L` projects onto `D` and every member ends with the popped stack -/
def Good (G : UCFG U) (info : List (UNT U)) (L : List (List (Step U))) (D : List (Der U)) : Prop :=
  L.map (fun p => p.map Step.rule) = D ∧ ∀ q ∈ L, Fin G info q

theorem flatMap_congr' {α β : Type} {l : List α} {f g : α → List β}
    (h : ∀ x ∈ l, f x = g x) : l.flatMap f = l.flatMap g := by
  induction l with
  | nil => rfl
  | cons a l ih =>
    simp only [List.flatMap_cons]
    rw [h a (by simp), ih (fun x hx => h x (by simp [hx]))]

theorem Good_nil (G : UCFG U) (info : List (UNT U)) : Good G info [] [] := by
  simp [Good]

theorem Good_append {G : UCFG U} {info : List (UNT U)} {L₁ L₂ : List (List (Step U))}
    {D₁ D₂ : List (Der U)} (h₁ : Good G info L₁ D₁) (h₂ : Good G info L₂ D₂) :
    Good G info (L₁ ++ L₂) (D₁ ++ D₂) := by
  refine ⟨by rw [List.map_append, h₁.1, h₂.1], ?_⟩
  intro q hq
  rcases List.mem_append.mp hq with hq | hq
  · exact h₁.2 q hq
  · exact h₂.2 q hq

theorem Good_flatMap {α : Type} {G : UCFG U} {info : List (UNT U)} (xs : List α)
    (f : α → List (List (Step U))) (g : α → List (Der U))
    (h : ∀ x ∈ xs, Good G info (f x) (g x)) :
    Good G info (xs.flatMap f) (xs.flatMap g) := by
  induction xs with
  | nil => exact Good_nil G info
  | cons a l ih =>
    simp only [List.flatMap_cons]
    exact Good_append (h a (by simp)) (ih (fun x hx => h x (by simp [hx])))

/-! ### `reduceArgs` distributes over the possibility list -/

theorem reduceArgs_append (G : UCFG U) (ks : List Prog) :
    ∀ (l₁ l₂ : List (List (Step U))),
      reduceArgs G ks (l₁ ++ l₂) = reduceArgs G ks l₁ ++ reduceArgs G ks l₂ := by
  induction ks with
  | nil => intro l₁ l₂; simp [reduceArgs]
  | cons k ks ih => intro l₁ l₂; simp only [reduceArgs, List.flatMap_append, ih]

theorem reduceArgs_nil (G : UCFG U) (ks : List Prog) : reduceArgs G ks [] = [] := by
  induction ks with
  | nil => simp [reduceArgs]
  | cons k ks ih => simp only [reduceArgs, List.flatMap_nil, ih]

theorem reduceArgs_flatMap {α : Type} (G : UCFG U) (ks : List Prog) (xs : List α)
    (g : α → List (List (Step U))) :
    reduceArgs G ks (xs.flatMap g) = xs.flatMap (fun x => reduceArgs G ks (g x)) := by
  induction xs with
  | nil => simp [reduceArgs_nil]
  | cons a l ih => simp only [List.flatMap_cons, reduceArgs_append, ih]

theorem derivsList_len_ne (G : UCFG U) :
    ∀ (ks : List Prog) (as : List (UNT U)), as.length ≠ ks.length → derivsList G ks as = []
  | [], [], h => by simp at h
  | [], _ :: _, _ => by simp [derivsList]
  | _ :: _, [], _ => by simp [derivsList]
  | k :: ks, a :: as, h => by
    have : as.length ≠ ks.length := by simpa using h
    simp [derivsList, derivsList_len_ne G ks as this]

theorem deriveOne_args (G : UCFG U) (info args : List (UNT U)) :
    (deriveOne G info args).2.2 = args := by
  cases args with
  | nil => cases info <;> rfl
  | cons a r => rfl

theorem deriveOne_pop (G : UCFG U) (info args : List (UNT U)) :
    ((deriveOne G info args).1, (deriveOne G info args).2.1) = pop G (args ++ info) := by
  cases args with
  | nil => cases info <;> rfl
  | cons a r => rfl

/-- the initial possibilities of `reduceRec`, as a `flatMap` over the alternatives -/
theorem init_flatMap (G : UCFG U) (info : List (UNT U)) (nt : UNT U) (f : Sym) (n : Nat)
    (cands : List (List (UNT U))) :
    (((cands.map (deriveOne G info)).filter (fun d => d.2.2.length == n)).map
        (fun d => [(⟨d.2.1, nt, f, d.2.2, d.1⟩ : Step U)])) =
      cands.flatMap (fun args =>
        if args.length = n then
          [[(⟨(pop G (args ++ info)).2, nt, f, args, (pop G (args ++ info)).1⟩ : Step U)]]
        else []) := by
  induction cands with
  | nil => rfl
  | cons c cs ih =>
    simp only [List.map_cons, List.flatMap_cons, List.filter_cons, deriveOne_args]
    have hp := deriveOne_pop G info c
    by_cases h : c.length = n
    · simp only [h, beq_self_eq_true, if_true, List.map_cons, ih, deriveOne_args]
      rw [← hp]; rfl
    · have : (c.length == n) = false := by simp [h]
      simp only [this, h, if_false, Bool.false_eq_true, ih, List.nil_append]

theorem getLast?_append_some {α : Type} (p q : List α) (e : α) (h : q.getLast? = some e) :
    (p ++ q).getLast? = some e := by
  rw [List.getLast?_append, h]; rfl

theorem map_eq_flatMap {α β : Type} (f : α → β) (l : List α) :
    l.map f = l.flatMap (fun x => [f x]) := by
  induction l with
  | nil => rfl
  | cons a l ih => simp [ih]

theorem Good_prefix {G : UCFG U} {info : List (UNT U)} {L : List (List (Step U))}
    {D : List (Der U)} (h : Good G info L D) (p : List (Step U)) :
    Good G info (L.map (fun alt => p ++ alt)) (D.map (fun d => p.map Step.rule ++ d)) := by
  obtain ⟨h1, h2⟩ := h
  refine ⟨?_, ?_⟩
  · rw [← h1]; simp [List.map_map, Function.comp_def]
  · intro q hq
    obtain ⟨alt, halt, rfl⟩ := List.mem_map.mp hq
    obtain ⟨e, he, hp⟩ := h2 alt halt
    exact ⟨e, getLast?_append_some p alt e he, hp⟩

/-! ### T1 -/

mutual
  theorem reduceRec_good (G : UCFG U) :
      ∀ (t : Prog) (nt : UNT U) (info : List (UNT U)),
        Good G info (reduceRec G t nt info) (derivs G t nt)
    | .node f kids, nt, info => by
      rw [reduceRec, derivs, derive]
      cases hr : G.alts? nt f with
      | none =>
        simp only [List.filter_nil, List.map_nil, reduceArgs_nil]
        exact Good_nil G info
      | some cands =>
        simp only
        rw [init_flatMap, reduceArgs_flatMap]
        apply Good_flatMap
        intro args _
        by_cases hlen : args.length = kids.length
        · simp only [hlen, if_true]
          cases args with
          | nil =>
            have hk : kids = [] := List.length_eq_zero_iff.mp hlen.symm
            rw [hk]
            simp [reduceArgs, derivsList, Good, Fin, Step.rule]
          | cons a as =>
            have := reduceArgs_single G kids
              [(⟨a, nt, f, a :: as, as ++ info⟩ : Step U)] ⟨a, nt, f, a :: as, as ++ info⟩
              a as info rfl rfl rfl hlen.symm
            simpa [Step.rule, pop] using this
        · simp only [hlen, if_false, reduceArgs_nil, derivsList_len_ne G kids args hlen,
            List.map_nil]
          exact Good_nil G info
  theorem reduceArgs_single (G : UCFG U) :
      ∀ (ks : List Prog) (p : List (Step U)) (e : Step U) (a : UNT U) (as info : List (UNT U)),
        p.getLast? = some e → e.next = a → e.info = as ++ info → ks.length = (a :: as).length →
        Good G info (reduceArgs G ks [p])
          ((derivsList G ks (a :: as)).map (fun d => p.map Step.rule ++ d))
    | [], p, e, a, as, info, _, _, _, h => by simp at h
    | k :: ks, p, e, a, as, info, hl, hn, hi, h => by
      have ih1 := reduceRec_good G k a (as ++ info)
      rw [reduceArgs]
      simp only [List.flatMap_cons, List.flatMap_nil, List.append_nil, hl, hn, hi]
      rw [derivsList]
      cases as with
      | nil =>
        have hks : ks = [] := by simpa using h
        rw [hks]
        simp only [reduceArgs, derivsList, List.nil_append] at ih1 ⊢
        have := Good_prefix ih1 p
        simpa using this
      | cons a' as' =>
        have hm : (reduceRec G k a (a' :: as' ++ info)).map (fun alt => p ++ alt) =
            (reduceRec G k a (a' :: as' ++ info)).flatMap (fun alt => [p ++ alt]) := by
          exact map_eq_flatMap _ _
        rw [hm, reduceArgs_flatMap, ← ih1.1, List.flatMap_map, List.map_flatMap]
        apply Good_flatMap
        intro alt halt
        obtain ⟨e', hl', hp'⟩ := ih1.2 alt halt
        simp only [pop, List.cons_append, Prod.mk.injEq] at hp'
        have hlen : ks.length = (a' :: as').length := by simpa using h
        have := reduceArgs_single G ks (p ++ alt) e' a' as' info
          (getLast?_append_some p alt e' hl') hp'.2 hp'.1 hlen
        simpa [List.map_append, List.append_assoc, List.map_map, Function.comp_def] using this
end

/-- T1: the stack-based `__reduce_derivations_rec__` lists exactly the derivations of the
    specification, in the same order — for every grammar, term, non-terminal and pending stack -/
theorem reduceRec_derivs (G : UCFG U) (t : Prog) (nt : UNT U) (info : List (UNT U)) :
    (reduceRec G t nt info).map (fun p => p.map Step.rule) = derivs G t nt :=
  (reduceRec_good G t nt info).1

/-- every derivation produced is non-empty and its last step carries the popped stack -/
theorem reduceRec_last (G : UCFG U) (t : Prog) (nt : UNT U) (info : List (UNT U))
    (p : List (Step U)) (hp : p ∈ reduceRec G t nt info) :
    ∃ e, p.getLast? = some e ∧ (e.info, e.next) = pop G info :=
  (reduceRec_good G t nt info).2 p hp

theorem reduceAll_derivs (G : UCFG U) (t : Prog) :
    (reduceAll G t).map (fun p => p.map Step.rule) = (allDerivs G t).map (·.2) := by
  unfold reduceAll allDerivs
  rw [List.map_flatMap, List.map_flatMap]
  apply flatMap_congr'
  intro s _
  rw [reduceRec_derivs]
  simp [List.map_map, Function.comp_def]

/-! ### T3 -/

theorem foldSteps_none (tg : UTags U) (p : List (Step U)) : foldSteps tg none p = none := by
  cases p <;> rfl

theorem foldSteps_spec (tg : UTags U) :
    ∀ (p : List (Step U)) (c : Rat),
      (∀ v, foldSteps tg (some c) p = some v → v = c * derWeightU tg (p.map Step.rule)) ∧
      (foldSteps tg (some c) p = none → derWeightU tg (p.map Step.rule) = 0)
  | [], c => by simp [foldSteps, derWeightU, Rat.mul_one]
  | e :: es, c => by
    rw [foldSteps]
    have hw : derWeightU tg ((e :: es).map Step.rule) =
        (tagOfU tg e.nt e.sym e.args).getD 0 * derWeightU tg (es.map Step.rule) := by
      simp [derWeightU, weightU, Step.rule, List.prod_cons]
    rw [hw]
    cases ht : tagOfU tg e.nt e.sym e.args with
    | none => simp [foldSteps_none, Rat.zero_mul]
    | some w =>
      obtain ⟨h1, h2⟩ := foldSteps_spec tg es (c * w)
      simp only [Option.map_some, Option.getD_some]
      refine ⟨?_, ?_⟩
      · intro v hv
        rw [h1 v hv, Rat.mul_assoc]
      · intro hn
        rw [h2 hn, Rat.mul_zero]

/-- T3: on a term with at most one derivation, when every start symbol has weight 1 (e.g. a
    single start symbol with normalised start weights) the reported probability is the
    specification's -/
theorem probabilityU_eq_probU (G : UCFG U) (tg : UTags U) (t : Prog)
    (hu : unambiguousOn G t = true) (hs : ∀ s ∈ G.starts, startWeight tg s = 1) :
    probabilityU G tg t = probU G tg t := by
  have hred := reduceAll_derivs G t
  have hlen : (reduceAll G t).length = (allDerivs G t).length := by
    have := congrArg List.length hred
    simpa using this
  have hu' : (allDerivs G t).length ≤ 1 := by simpa [unambiguousOn] using hu
  unfold probabilityU probU
  cases hA : allDerivs G t with
  | nil =>
    rw [hA] at hlen
    have hR : reduceAll G t = [] := List.length_eq_zero_iff.mp (by simpa using hlen)
    simp [hR]
  | cons sd rest =>
    obtain ⟨s, d⟩ := sd
    have hsmem : s ∈ G.starts := by
      have hm : (s, d) ∈ allDerivs G t := by rw [hA]; simp
      unfold allDerivs at hm
      obtain ⟨s', hs', hm'⟩ := List.mem_flatMap.mp hm
      obtain ⟨_, _, he⟩ := List.mem_map.mp hm'
      cases he
      exact hs'
    rw [hA] at hu' hlen hred
    have hrest : rest = [] := by
      apply List.length_eq_zero_iff.mp
      simp only [List.length_cons] at hu'; omega
    rw [hrest] at hlen hred
    cases hR : reduceAll G t with
    | nil => rw [hR] at hlen; simp at hlen
    | cons p ps =>
      rw [hR] at hlen hred
      have hps : ps = [] := by
        apply List.length_eq_zero_iff.mp
        simp only [List.length_cons, List.length_nil] at hlen; omega
      rw [hps] at hred ⊢
      have hd : p.map Step.rule = d := by simpa using hred
      simp only [hs s hsmem, Rat.one_mul]
      obtain ⟨h1, h2⟩ := foldSteps_spec tg p 1
      cases hf : foldSteps tg (some 1) p with
      | none =>
        simp only [List.map_cons, List.map_nil, hf, List.any_cons, Option.isNone_none,
          Bool.true_or, if_true]
        rw [← hd, h2 hf]
      | some v =>
        simp only [List.map_cons, List.map_nil, hf, List.any_cons, Option.isNone_some,
          List.any_nil, Bool.or_self, Bool.false_eq_true, if_false]
        rw [h1 v hf, Rat.one_mul, hd]

/-! ### T2 -/

/-- the `(information, next)` pair carried by the last step of a derivation under construction -/
def lastPair (G : UCFG U) (p : List (Step U)) : List (UNT U) × UNT U :=
  match p.getLast? with
  | some e => (e.info, e.next)
  | none => ([], G.someStart)

theorem lastPair_append (G : UCFG U) (p q : List (Step U)) (hq : q ≠ []) :
    lastPair G (p ++ q) = lastPair G q := by
  unfold lastPair
  cases hl : q.getLast? with
  | none => exact absurd (List.getLast?_eq_none_iff.mp hl) hq
  | some e => rw [getLast?_append_some p q e hl]

theorem reduceRec_ne_nil (G : UCFG U) (t : Prog) (nt : UNT U) (info : List (UNT U))
    (p : List (Step U)) (hp : p ∈ reduceRec G t nt info) : p ≠ [] := by
  obtain ⟨e, he, _⟩ := reduceRec_last G t nt info p hp
  intro h; rw [h] at he; simp at he

/-- the possibilities of the next argument, as last pairs -/
theorem next_lastPair (G : UCFG U) (k : Prog) (poss : List (List (Step U)))
    (hne : ∀ p ∈ poss, p ≠ []) :
    (poss.flatMap (fun p =>
        match p.getLast? with
        | none => []
        | some e => (reduceRec G k e.next e.info).map (fun alt => p ++ alt))).map (lastPair G) =
      poss.flatMap (fun p =>
        (reduceRec G k (lastPair G p).2 (lastPair G p).1).map (lastPair G)) := by
  rw [List.map_flatMap]
  apply flatMap_congr'
  intro p hp
  cases hl : p.getLast? with
  | none => exact absurd (List.getLast?_eq_none_iff.mp hl) (hne p hp)
  | some e =>
    simp only [lastPair, hl, List.map_map]
    apply List.map_congr_left
    intro alt halt
    exact lastPair_append G p alt (reduceRec_ne_nil G k _ _ alt halt)

mutual
  theorem containsRec_red (G : UCFG U) :
      ∀ (t : Prog) (nt : UNT U) (info : List (UNT U)),
        containsRec G t nt info =
          (!(reduceRec G t nt info).isEmpty, (reduceRec G t nt info).map (lastPair G))
    | .node f kids, nt, info => by
      rw [containsRec, reduceRec]
      simp only [possibles]
      have ih := containsArgs_red G kids
      suffices key : ∀ L : List (List (UNT U) × UNT U × List (UNT U)),
          (if (L.map (fun d => (d.1, d.2.1))).isEmpty = true then (false, [])
            else containsArgs G kids (L.map (fun d => (d.1, d.2.1)))) =
          (!(reduceArgs G kids
              (L.map (fun d => [(⟨d.2.1, nt, f, d.2.2, d.1⟩ : Step U)]))).isEmpty,
            (reduceArgs G kids
              (L.map (fun d => [(⟨d.2.1, nt, f, d.2.2, d.1⟩ : Step U)]))).map (lastPair G)) from
        key _
      intro L
      have hm : L.map (fun d => (d.1, d.2.1)) =
          (L.map (fun d => [(⟨d.2.1, nt, f, d.2.2, d.1⟩ : Step U)])).map (lastPair G) := by
        simp [List.map_map, Function.comp_def, lastPair]
      rw [hm]
      by_cases hE : L = []
      · simp [hE, reduceArgs_nil]
      · rw [ih _ (by
          intro p hp
          obtain ⟨d, _, rfl⟩ := List.mem_map.mp hp
          simp) (Or.inl (by simpa using hE))]
        simp [hE]
  theorem containsArgs_red (G : UCFG U) :
      ∀ (ks : List Prog) (poss : List (List (Step U))),
        (∀ p ∈ poss, p ≠ []) → (poss ≠ [] ∨ ks ≠ []) →
        containsArgs G ks (poss.map (lastPair G)) =
          (!(reduceArgs G ks poss).isEmpty, (reduceArgs G ks poss).map (lastPair G))
    | [], poss, _, h => by
      have : poss ≠ [] := by simpa using h
      simp [containsArgs, reduceArgs, this]
    | k :: ks, poss, hne, _ => by
      have ih1 := containsRec_red G k
      rw [containsArgs, reduceArgs]
      rw [flatMap_congr' (l := poss.map (lastPair G))
        (g := fun p => (reduceRec G k p.2 p.1).map (lastPair G))]
      · rw [List.flatMap_map, ← next_lastPair G k poss hne]
        generalize hP : poss.flatMap (fun p =>
          match p.getLast? with
          | none => []
          | some e => (reduceRec G k e.next e.info).map (fun alt => p ++ alt)) = poss'
        have hne' : ∀ q ∈ poss', q ≠ [] := by
          intro q hq
          rw [← hP] at hq
          obtain ⟨p, hp, hq'⟩ := List.mem_flatMap.mp hq
          cases hl : p.getLast? with
          | none => rw [hl] at hq'; simp at hq'
          | some e =>
            rw [hl] at hq'
            obtain ⟨alt, _, rfl⟩ := List.mem_map.mp hq'
            simp [hne p hp]
        by_cases hE : poss' = []
        · simp [hE, reduceArgs_nil]
        · rw [containsArgs_red G ks poss' hne' (Or.inl hE)]
          simp [hE]
      · intro p _
        rw [ih1]
        cases reduceRec G k p.2 p.1 <;> rfl
end

/-- T2: membership by possibility lists = existence of a derivation -/
theorem containsRec_derivs (G : UCFG U) (t : Prog) (nt : UNT U) (info : List (UNT U)) :
    (containsRec G t nt info).1 = !(derivs G t nt).isEmpty := by
  rw [containsRec_red, ← reduceRec_derivs G t nt info]
  cases reduceRec G t nt info <;> rfl

/-- the possibilities returned by `__contains_rec__`: the popped stack, once per derivation -/
theorem containsRec_snd (G : UCFG U) (t : Prog) (nt : UNT U) (info : List (UNT U)) :
    (containsRec G t nt info).2 = (derivs G t nt).map (fun _ => pop G info) := by
  rw [containsRec_red, ← reduceRec_derivs G t nt info, List.map_map]
  apply List.map_congr_left
  intro p hp
  obtain ⟨e, he, hpop⟩ := reduceRec_last G t nt info p hp
  simp [lastPair, he, hpop]

theorem contains_eq_genU (G : UCFG U) (t : Prog) : contains G t = genU G t := by
  unfold contains genU allDerivs
  simp only [containsRec_derivs]
  induction G.starts with
  | nil => rfl
  | cons s ss ih =>
    simp only [List.any_cons, List.flatMap_cons, ih]
    cases derivs G t s <;> simp

end PS.U
