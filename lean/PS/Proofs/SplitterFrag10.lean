/- C08, fragment grammar, part 10: `__pcfg_from__` does not fail on valid nodes and the loop
   `while to_fill` terminates (an explicit bound on the fuel). -/
import PS.Proofs.SplitterFrag7
namespace PS.Sp
open PS PS.G

variable {U : Type} [DecidableEq U]

/-- the loop over the nodes does not fail (no `assert`, no `IndexError`) on legal derivation prefixes -/
theorem go_some {pg : PUG U} : ∀ (group : List (Node U)) (st : FragSt U), (∀ n ∈ group, Valid pg.g n) →
    ∃ st', pcfgFrom.go pg st group = some st'
  | [], st, _ => ⟨st, rfl⟩
  | n :: rest, st, hv => by
    have hval := hv n (by simp)
    obtain ⟨r, hr⟩ := renPath_exists pg.g n.steps (st2Of st n).counter [(n.start, spOf st n)] n.config
      (by simpa [srcs] using hval.2.2.2.1)
    have ha : ∃ st1, addNode pg st n = some st1 := by
      rw [addNode_eq, hr]; exact ⟨_, rfl⟩
    obtain ⟨st1, hst1⟩ := ha
    obtain ⟨st', hst'⟩ := go_some rest st1 (fun m hm => hv m (List.mem_cons_of_mem _ hm))
    exact ⟨st', by simp only [pcfgFrom.go, hst1, hst']⟩

/-- all non-terminals on right-hand sides of the original grammar -/
def allRhs (pg : PUG U) : List (UNT U) :=
  pg.g.rules.flatMap (fun e => e.2.flatMap (fun r => r.2.flatMap id))

omit [DecidableEq U] in
theorem length_le_flatMap {α β : Type} (f : α → List β) : ∀ (l : List α) (x : α), x ∈ l →
    (f x).length ≤ (l.flatMap f).length
  | [], _, h => by cases h
  | a :: l, x, h => by
    simp only [List.flatMap_cons, List.length_append]
    rcases List.mem_cons.mp h with h | h
    · subst h; omega
    · have := length_le_flatMap f l x h; omega

theorem rhsSyms_sub (pg : PUG U) (S : UNT U) :
    (∀ S' ∈ rhsSyms pg S, S' ∈ allRhs pg) ∧ (rhsSyms pg S).length ≤ (allRhs pg).length := by
  unfold rhsSyms allRhs
  cases hl : AList.lookup S pg.g.rules with
  | none => simp
  | some rs =>
    have hm := AList.lookup_some_mem hl
    simp only [Option.getD_some]
    refine ⟨?_, length_le_flatMap (fun e : UNT U × AList Sym (List (List (UNT U))) => e.2.flatMap (fun r => r.2.flatMap id))
      pg.g.rules (S, rs) hm⟩
    intro S' hS'
    exact List.mem_flatMap.mpr ⟨(S, rs), hm, hS'⟩

/-- the non-terminals of `univ` that have no free copy yet -/
def missing (univ : List (UNT U)) (st : FragSt U) : Nat :=
  (univ.filter (fun S => !AList.contains (free S) st.rules)).length

omit [DecidableEq U] in
theorem filter_length_lt {α : Type} (p p' : α → Bool) : ∀ (l : List α), (∀ x, p' x = true → p x = true) →
    (∃ x ∈ l, p x = true ∧ p' x = false) → (l.filter p').length < (l.filter p).length
  | [], _, h => by obtain ⟨x, hx, _⟩ := h; cases hx
  | a :: l, himp, h => by
    obtain ⟨x, hx, h1, h2⟩ := h
    have hle : (l.filter p').length ≤ (l.filter p).length := by
      clear hx
      induction l with
      | nil => simp
      | cons b l ih =>
        simp only [List.filter_cons]
        cases hb' : p' b with
        | true => simp only [himp b hb', if_true, List.length_cons]; omega
        | false => cases hb : p b <;> simp <;> omega
    simp only [List.filter_cons]
    rcases List.mem_cons.mp hx with hx | hx
    · subst hx
      simp only [h1, h2, if_true, List.length_cons]
      simp; omega
    · have ih := filter_length_lt p p' l himp ⟨x, hx, h1, h2⟩
      cases ha' : p' a with
      | true => simp only [himp a ha', if_true, List.length_cons]; omega
      | false => cases ha : p a <;> simp <;> omega

/-- **termination of `while to_fill`**: the loop exits within
    `|to_fill| + |univ| · (M + 1)` iterations, where `M` bounds the right-hand sides -/
theorem fill_done (pg : PUG U) (univ : List (UNT U)) (hall : ∀ S ∈ allRhs pg, S ∈ univ) :
    ∀ (fuel : Nat) (st : FragSt U), (∀ S ∈ st.toFill, S ∈ univ) →
      st.toFill.length + missing univ st * ((allRhs pg).length + 1) ≤ fuel → (fillLoop pg fuel st).toFill = []
  | 0, st, _, hb => by
    simp only [fillLoop]
    exact List.eq_nil_of_length_eq_zero (by omega)
  | f + 1, st, hsub, hb => by
    unfold fillLoop
    cases hrev : st.toFill.reverse with
    | nil => simpa using hrev
    | cons S restRev =>
      have htf : st.toFill = restRev.reverse ++ [S] := by
        have := congrArg List.reverse hrev
        simpa using this
      have hlen : st.toFill.length = restRev.reverse.length + 1 := by rw [htf]; simp
      simp only
      by_cases hc : AList.contains (free S) st.rules = true
      · simp only [hc, if_true]
        apply fill_done pg univ hall f
        · intro S' hS'
          exact hsub S' (by rw [htf]; exact List.mem_append.mpr (Or.inl hS'))
        · have : missing univ { st with toFill := restRev.reverse } = missing univ st := rfl
          rw [this]
          simp only at hlen ⊢
          omega
      · simp only [hc]
        have hSu : S ∈ univ := hsub S (by rw [htf]; simp)
        obtain ⟨r1, r2⟩ := rhsSyms_sub pg S
        apply fill_done pg univ hall f
        · intro S' hS'
          rw [copyRules_eq] at hS'
          rcases List.mem_append.mp hS' with h | h
          · exact hsub S' (by rw [htf]; exact List.mem_append.mpr (Or.inl h))
          · exact hall S' (r1 S' h)
        · have hmiss : missing univ (copyRules pg { st with toFill := restRev.reverse } S (free S)) < missing univ st := by
            unfold missing
            apply filter_length_lt
            · intro x hx
              rw [copyRules_eq] at hx
              simp only [AList.contains, AList.lookup_insert, Bool.not_eq_true'] at hx ⊢
              by_cases he : free x = free S
              · simp [he] at hx
              · simpa [he] using hx
            · refine ⟨S, hSu, by simpa using hc, ?_⟩
              rw [copyRules_eq]
              simp [AList.contains, AList.lookup_insert_self]
          have hlen2 : (copyRules pg { st with toFill := restRev.reverse } S (free S)).toFill.length
              = restRev.reverse.length + (rhsSyms pg S).length := by
            rw [copyRules_eq]; simp
          rw [hlen2]
          have hmul : (missing univ (copyRules pg { st with toFill := restRev.reverse } S (free S)) + 1) *
              ((allRhs pg).length + 1) ≤ missing univ st * ((allRhs pg).length + 1) :=
            Nat.mul_le_mul_right _ hmiss
          rw [Nat.succ_mul] at hmul
          omega

/-- a fuel that suffices for the refilling loop from the state `st` -/
def fillBound (pg : PUG U) (st : FragSt U) : Nat :=
  st.toFill.length + (st.toFill ++ allRhs pg).length * ((allRhs pg).length + 1)

theorem fill_done_bound (pg : PUG U) (st : FragSt U) (fuel : Nat) (h : fillBound pg st ≤ fuel) :
    (fillLoop pg fuel st).toFill = [] := by
  apply fill_done pg (st.toFill ++ allRhs pg) (fun S hS => List.mem_append.mpr (Or.inr hS)) fuel st
    (fun S hS => List.mem_append.mpr (Or.inl hS))
  have : missing (st.toFill ++ allRhs pg) st ≤ (st.toFill ++ allRhs pg).length := List.length_filter_le _ _
  have := Nat.mul_le_mul_right ((allRhs pg).length + 1) this
  unfold fillBound at h
  omega

/-- **`__pcfg_from__` returns a grammar** on valid nodes, and from some fuel on the model's
    refilling loop runs to completion (`while to_fill` terminates) -/
theorem pcfgFrom_total (pg : PUG U) (group : List (Node U)) (hv : ∀ n ∈ group, Valid pg.g n) :
    ∃ fuel0, ∀ fuel, fuel0 ≤ fuel → (pcfgFrom pg group fuel).isSome = true ∧ fillDone pg group fuel = true := by
  obtain ⟨stG, hg⟩ := go_some (pg := pg) group ⟨0, [], [], [], [], []⟩ hv
  refine ⟨fillBound pg stG, ?_⟩
  intro fuel hfuel
  have hd := fill_done_bound pg stG fuel hfuel
  constructor
  · rw [pcfgFrom_eq]; simp [fragState, hg]
  · simp [fillDone, fragState, hg, hd]

end PS.Sp
