/-
  Lemmas for C10, restart part (continued): end states and statistics of the restart solver and of
  the plain solver, and the plain solver on an enumeration cut after the first raising program.
-/
import PS.Proofs.SolverRestart
set_option linter.unusedSimpArgs false
set_option linter.unusedSectionVars false
namespace PS.C10
open PS
open PS.C11 (Outcome)

variable {St P I V E En : Type}

theorem toBase_accepted {r : RStatus E} (h : r.toBase = .finished .accepted) : r = .finished .accepted := by
  cases r with
  | finished x => cases x <;> simp_all [RStatus.toBase]
  | suspended => simp [RStatus.toBase] at h
  | outOfFuel => simp [RStatus.toBase] at h

theorem toBase_timeout {r : RStatus E} (h : r.toBase = .finished .timeout) : r = .finished .timeout := by
  cases r with
  | finished x => cases x <;> simp_all [RStatus.toBase]
  | suspended => simp [RStatus.toBase] at h
  | outOfFuel => simp [RStatus.toBase] at h

theorem toBase_suspended {r : RStatus E} (h : r.toBase = .suspended) : r = .suspended := by
  cases r with
  | finished x => cases x <;> simp_all [RStatus.toBase]
  | suspended => rfl
  | outOfFuel => simp [RStatus.toBase] at h

theorem toBase_raised {r : RStatus E} {e : E} (h : r.toBase = .finished (.raised e)) : r = .finished (.raised e) := by
  cases r with
  | finished x => cases x <;> simp_all [RStatus.toBase]
  | suspended => simp [RStatus.toBase] at h
  | outOfFuel => simp [RStatus.toBase] at h

/-- the value `_stats["programs"]` restarts from when the task is closed (pbe_solver.py:183-187):
    the meta solver's own count after the repair C10-F3, the sub-solver's as the code is -/
def statsBase (fixStats : Bool) (s : RSolver P) : Nat :=
  if fixStats then s.self.statsPrograms else s.sub.statsPrograms + s.sub.programs

theorem closeR_statsPrograms (fx : Bool) (s : RSolver P) (p : P) :
    (closeR fx s p).self.statsPrograms = statsBase fx s + s.self.programs := by
  cases fx <;> simp [closeR, closeTask, statsBase]

theorem closeR_statsLast (fx : Bool) (s : RSolver P) (p : P) :
    (closeR fx s p).self.statsLast = some p ∧ (closeR fx s p).sub.statsLast = some p := by
  cases fx <;> simp [closeR, closeTask]

theorem closeR_statsRestarts (fx : Bool) (s : RSolver P) (p : P) :
    (closeR fx s p).statsRestarts = s.statsRestarts + s.restarts := by
  cases fx <;> simp [closeR]

theorem closeR_subCloses (fx : Bool) (s : RSolver P) (p : P) :
    (closeR fx s p).sub.statsCloses = s.sub.statsCloses + 1 := by
  cases fx <;> simp [closeR, closeTask]

/-- summands `time_used` in the meta solver's `_stats["time"]` after closing: one more than before
    after the repair; as the code is, the sub-solver's count (just increased) plus one -/
theorem closeR_selfCloses (fx : Bool) (s : RSolver P) (p : P) :
    (closeR fx s p).self.statsCloses = (if fx then s.self.statsCloses else s.sub.statsCloses + 1) + 1 := by
  cases fx <;> simp [closeR, closeTask]

theorem statsBase_frame {fx : Bool} {s s' : RSolver P} (h : Frame s s') : statsBase fx s' = statsBase fx s := by
  cases fx <;> simp [statsBase, h.selfStatsPrograms, h.subStatsPrograms, h.subPrograms]

/-! ### the plain solver: statistics at the end of a run, whatever the test -/
section base
variable {T : St → P → St × Except E (Bool × Score)}

/-- the plain solver adds its counter to the statistics exactly when it closes the task -/
theorem base_stats (es : List P) : ∀ (s : Solver P) (st : St) (dl as : List Bool),
    (((drive T (advance T s st es dl) as).status = .finished .accepted ∨
      (drive T (advance T s st es dl) as).status = .finished .timeout) →
      (drive T (advance T s st es dl) as).solver.statsPrograms =
        s.statsPrograms + (drive T (advance T s st es dl) as).solver.programs) ∧
    (¬ ((drive T (advance T s st es dl) as).status = .finished .accepted ∨
        (drive T (advance T s st es dl) as).status = .finished .timeout) →
      (drive T (advance T s st es dl) as).solver.statsPrograms = s.statsPrograms) := by
  induction es with
  | nil => intro s st dl as; simp [advance, drive_finished]
  | cons p rest ih =>
    intro s st dl as
    rw [advance_cons]
    by_cases hd : deadlinePassed dl = true
    · simp [hd, drive_finished, closeTask]
    · simp only [hd, if_false, Bool.false_eq_true]
      generalize T st p = r
      obtain ⟨st', a⟩ := r
      cases a with
      | error e => simp [drive_finished]
      | ok v =>
        obtain ⟨b, sc⟩ := v
        cases b with
        | false => simpa using ih _ st' dl.tail as
        | true =>
          simp only [if_true]
          cases as with
          | nil => simp [drive]
          | cons a as' =>
            cases a with
            | true => simp [drive, send, drive_finished, closeTask]
            | false => simpa [drive, send] using ih _ st' dl.tail as'

/-- keep an enumeration up to and including the first program whose test raises -/
def cutAtError (tp : P → Except E (Bool × Score)) : List P → List P
  | [] => []
  | p :: rest =>
    match tp p with
    | .error _ => [p]
    | .ok _ => p :: cutAtError tp rest

/-- the plain solver never looks beyond a program whose test raises -/
theorem base_cut {tp : P → Except E (Bool × Score)} {Inv : St → Prop} (hT : RefinesS T tp Inv) (es : List P) :
    ∀ (s : Solver P) (st : St) (dl as : List Bool), Inv st →
      drive T (advance T s st (cutAtError tp es) dl) as = drive T (advance T s st es dl) as := by
  induction es with
  | nil => intro s st dl as _; rfl
  | cons p rest ih =>
    intro s st dl as hst
    rcases stepR_cases hT st p hst with ⟨st', er, hT', htp, hinv⟩ | ⟨st', b, sc, hT', htp, hinv⟩
    · simp only [cutAtError, htp]
      rw [advance_cons, advance_cons]
      by_cases hd : deadlinePassed dl = true
      · simp [hd]
      · simp [hd, hT']
    · simp only [cutAtError, htp]
      rw [advance_cons, advance_cons]
      by_cases hd : deadlinePassed dl = true
      · simp [hd]
      · simp only [hd, if_false, Bool.false_eq_true, hT']
        cases b with
        | false => simpa using ih _ st' dl.tail as hinv
        | true =>
          simp only [if_true]
          cases as with
          | nil => simp [drive]
          | cons a as' =>
            cases a with
            | true => simp [drive, send]
            | false =>
              simp only [drive, send, Bool.false_eq_true, if_false]
              rw [ih _ st' dl.tail as' hinv]

end base

section noRestart
variable {prm : Params En P} {tp : P → Except E (Bool × Score)}

/-- with a criterion that never fires and a list `es` as the enumerator's stream, the segmented
    enumeration is `es` from the current position, cut at the fuel and after the first test that raises -/
theorem segEnum_no_restart_cut (hc : ∀ s, prm.criterion s = false) (en : En) (es : List P)
    (hs : ∀ i, prm.stream en i = es[i]?) :
    ∀ (fuel : Nat) (s : RSolver P) (pos : Nat),
      segEnum prm tp fuel s en pos = cutAtError tp ((es.drop pos).take fuel) := by
  intro fuel
  induction fuel with
  | zero => intro s pos; simp [segEnum, segRun, cutAtError]
  | succ fuel ih =>
    intro s pos
    cases hp : es[pos]? with
    | none =>
      have : prm.stream en pos = none := by rw [hs, hp]
      have hlen : es.length ≤ pos := by simpa using hp
      simp [segEnum, segRun_none this, List.drop_eq_nil_of_le hlen, cutAtError]
    | some p =>
      have hst : prm.stream en pos = some p := by rw [hs, hp]
      have hd : es.drop pos = p :: es.drop (pos + 1) := by
        have hlt : pos < es.length := by
          rcases Nat.lt_or_ge pos es.length with h | h
          · exact h
          · have : es[pos]? = none := by simp [h]
            rw [this] at hp; cases hp
        have : es[pos] = p := by simpa [List.getElem?_eq_getElem hlt] using hp
        rw [← this]; exact List.drop_eq_getElem_cons hlt
      cases ht : tp p with
      | error er =>
        simp [segEnum, segRun_error hst ht, hd, cutAtError, ht]
      | ok v =>
        obtain ⟨b, sc⟩ := v
        obtain ⟨s2, _, _, _, _, _, _, h | h⟩ := afterTest_cases prm (testedS s sc) p en (pos + 1)
        · have := ih s2 (pos + 1)
          simp only [segEnum] at this ⊢
          rw [segRun_ok hst ht, h.2, hd]
          simp [this, cutAtError, ht]
        · rw [hc s2] at h; cases h.1

end noRestart


section more
variable {prm : Params En P} {T : St → P → St × Except E (Bool × Score)}
  {tp : P → Except E (Bool × Score)} {Inv : St → Prop}

/-- a run that is out of fuel consumed one entry of the segmented enumeration per unit of fuel -/
theorem outOfFuel_length (hT : RefinesS T tp Inv) : ∀ (fuel : Nat) (s : RSolver P) (st : St) (en : En) (pos : Nat)
    (dl as : List Bool), Inv st →
    (driveR prm T (advanceR prm T fuel s st en pos dl) as).status = .outOfFuel →
    (segRun prm tp fuel s en pos).length = fuel := by
  intro fuel
  induction fuel with
  | zero => intro s st en pos dl as _ _; rfl
  | succ fuel ih =>
    intro s st en pos dl as hst
    rw [advanceR_succ]
    cases hs : prm.stream en pos with
    | none => simp [driveR_finished]
    | some p =>
      simp only
      by_cases hd : deadlinePassed dl = true
      · simp [hd, driveR_finished]
      · simp only [hd, if_false, Bool.false_eq_true]
        rcases stepR_cases hT st p hst with ⟨st', er, hT', htp, hinv⟩ | ⟨st', b, sc, hT', htp, hinv⟩
        · simp [hT', driveR_finished]
        · simp only [hT', segRun_ok hs htp, List.length_cons]
          cases b with
          | false =>
            simp only [Bool.false_eq_true, if_false]
            intro h; rw [ih _ st' _ _ dl.tail as hinv h]
          | true =>
            simp only [if_true]
            cases as with
            | nil => simp [driveR]
            | cons a as' =>
              cases a with
              | true => simp [driveR, sendR, driveR_finished]
              | false =>
                simp only [driveR, sendR, Bool.false_eq_true, if_false]
                intro h; rw [ih _ st' _ _ dl.tail as' hinv h]

theorem closeR_restarts (fx : Bool) (s : RSolver P) (p : P) : (closeR fx s p).restarts = s.restarts := by
  cases fx <;> rfl

/-- with a criterion that never fires, `_restarts` never changes -/
theorem no_restart_restarts (hc : ∀ s, prm.criterion s = false) : ∀ (fuel : Nat) (s : RSolver P) (st : St) (en : En)
    (pos : Nat) (dl as : List Bool),
    (driveR prm T (advanceR prm T fuel s st en pos dl) as).solver.restarts = s.restarts := by
  have haft : ∀ (s : RSolver P) (p : P) (en : En) (pos : Nat), (afterTest prm s p en pos).1.restarts = s.restarts := by
    intro s p en pos
    obtain ⟨s2, _, _, _, h4, _, _, h | h⟩ := afterTest_cases prm s p en pos
    · rw [h.2]; exact h4
    · rw [hc s2] at h; cases h.1
  intro fuel
  induction fuel with
  | zero => intro s st en pos dl as; simp [advanceR, driveR_running]
  | succ fuel ih =>
    intro s st en pos dl as
    rw [advanceR_succ]
    cases hs : prm.stream en pos with
    | none => simp [driveR_finished]
    | some p =>
      simp only
      by_cases hd : deadlinePassed dl = true
      · simp [hd, driveR_finished, closeR_restarts]
      · simp only [hd, if_false, Bool.false_eq_true]
        generalize T st p = r
        obtain ⟨st', a⟩ := r
        cases a with
        | error er => simp [driveR_finished, countedS]
        | ok v =>
          obtain ⟨b, sc⟩ := v
          cases b with
          | false =>
            simp only [Bool.false_eq_true, if_false]
            rw [ih, haft]; rfl
          | true =>
            simp only [if_true]
            cases as with
            | nil => simp [driveR, testedS, countedS]
            | cons a as' =>
              cases a with
              | true => simp [driveR, sendR, driveR_finished, closeR_restarts, testedS, countedS]
              | false =>
                simp only [driveR, sendR, Bool.false_eq_true, if_false]
                rw [ih, haft]; rfl

/-- the restart solver writes `statsBase + _programs` into `_stats["programs"]` exactly when it
    closes the task -/
theorem r_stats : ∀ (fuel : Nat) (s : RSolver P) (st : St) (en : En) (pos : Nat) (dl as : List Bool),
    ((driveR prm T (advanceR prm T fuel s st en pos dl) as).status = .finished .accepted ∨
     (driveR prm T (advanceR prm T fuel s st en pos dl) as).status = .finished .timeout) →
    (driveR prm T (advanceR prm T fuel s st en pos dl) as).solver.self.statsPrograms =
      statsBase prm.fixStats s + (driveR prm T (advanceR prm T fuel s st en pos dl) as).solver.self.programs := by
  intro fuel
  induction fuel with
  | zero => intro s st en pos dl as; simp [advanceR, driveR_running]
  | succ fuel ih =>
    intro s st en pos dl as
    rw [advanceR_succ]
    cases hs : prm.stream en pos with
    | none => cases hfx : prm.fixNext <;> simp [driveR_finished, hfx]
    | some p =>
      simp only
      by_cases hd : deadlinePassed dl = true
      · simp [hd, driveR_finished, closeR_statsPrograms, closeR_programs]
      · simp only [hd, if_false, Bool.false_eq_true]
        generalize T st p = r
        obtain ⟨st', a⟩ := r
        cases a with
        | error er => simp [driveR_finished]
        | ok v =>
          obtain ⟨b, sc⟩ := v
          have hfr : statsBase prm.fixStats (afterTest prm (testedS s sc) p en (pos + 1)).1 =
              statsBase prm.fixStats s :=
            statsBase_frame ((frame_testedS s sc).trans (frame_afterTest prm _ _ _ _))
          cases b with
          | false =>
            simp only [Bool.false_eq_true, if_false]
            intro h; rw [ih _ st' _ _ dl.tail as h, hfr]
          | true =>
            simp only [if_true]
            cases as with
            | nil => simp [driveR]
            | cons a as' =>
              cases a with
              | true =>
                intro _
                simp only [driveR, sendR, if_true, driveR_finished, closeR_statsPrograms, closeR_programs]
                rw [statsBase_frame (frame_testedS s sc)]
              | false =>
                simp only [driveR, sendR, Bool.false_eq_true, if_false]
                intro h; rw [ih _ st' _ _ dl.tail as' h, hfr]

end more

/-- the segmented enumeration of `solve(task, en)` called on the solver object `s`, with `fuel` loop
    iterations: entries (program, enumerator, position, solver object at the loop head) -/
def segOf [DecidableEq V] (prm : Params En P) (k : Kind) (spec : P → I → Outcome V E) (exs : List (I × V))
    (fuel : Nat) (s : RSolver P) (en : En) : List (Entry P En) :=
  segRun prm (pureTest k spec exs) fuel (initTaskR s) en 0

/-- … and its programs -/
def segProgs [DecidableEq V] (prm : Params En P) (k : Kind) (spec : P → I → Outcome V E) (exs : List (I × V))
    (fuel : Nat) (s : RSolver P) (en : En) : List P :=
  (segOf prm k spec exs fuel s en).map (·.p)

theorem mem_split_map {α β : Type} (f : α → β) (l : List α) (pre : List β) (q : β) (post : List β)
    (h : l.map f = pre ++ q :: post) :
    ∃ pre' e post', l = pre' ++ e :: post' ∧ pre'.map f = pre ∧ f e = q ∧ post'.map f = post := by
  induction l generalizing pre with
  | nil => simp at h
  | cons x xs ih =>
    cases pre with
    | nil =>
      simp at h
      exact ⟨[], x, xs, rfl, rfl, h.1, h.2⟩
    | cons y ys =>
      simp at h
      obtain ⟨pre', e, post', h1, h2, h3, h4⟩ := ih ys h.2
      exact ⟨x :: pre', e, post', by rw [h1]; rfl, by simp [h.1, h2], h3, h4⟩

end PS.C10
