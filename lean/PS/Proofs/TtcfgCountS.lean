/-
  C13, part 14: the tables returned by the constructors satisfy the hypotheses of the counting
  theorem `programsR_count`: rows are dicts, the end-marker type occurs neither as a non-terminal
  nor as an argument slot - for the saturation table (from the decidable `noUnknownDsl`) and for
  whatever `clean()` makes of a table that satisfies them.
-/
import PS.Proofs.TtcfgCountR
import PS.Proofs.TtcfgBuild
namespace PS.T
open PS PS.G

variable {S T : Type} [DecidableEq S] [DecidableEq T]

/-! ### `clean()` keeps the three hypotheses -/

omit [DecidableEq S] [DecidableEq T] in
theorem keys_filterMap_sublist (F : Sym → Option (List (Ty × S) × T)) : ∀ l : List Sym,
    (AList.keys (l.filterMap (fun P => match F P with
      | some v => some (P, v)
      | none => none))).Sublist l
  | [] => by simp [AList.keys]
  | P :: l => by
    rw [List.filterMap_cons]
    cases h : F P with
    | none => simp only; exact (keys_filterMap_sublist F l).cons _
    | some v =>
      simp only [AList.keys, List.map_cons]
      exact (keys_filterMap_sublist F l).cons_cons _

theorem restrict_mem (G : TT S T) (nr : Marks S T) (e : NT S T × Row S T) (he : e ∈ (restrict G nr).rules) :
    ∃ l, (e.1, l) ∈ nr ∧ e.2 = l.filterMap (fun P => match G.rule? e.1 P with
      | some v => some (P, v)
      | none => none) := by
  simp only [restrict, List.mem_map] at he
  obtain ⟨e0, he0, rfl⟩ := he
  exact ⟨e0.2, he0, rfl⟩

theorem restrict_rowsNodup (G : TT S T) (nr : Marks S T) (hinv : PInv G nr) : rowsNodup (restrict G nr) = true := by
  unfold rowsNodup
  rw [List.all_eq_true]
  intro e he
  obtain ⟨l, hl, hrow⟩ := restrict_mem G nr e he
  have hnd : l.Nodup := hinv.vals e.1 l (AList.lookup_of_mem_nodup hinv.keys hl)
  simp only [decide_eq_true_eq]
  rw [hrow]
  exact (keys_filterMap_sublist (G.rule? e.1) l).nodup hnd

theorem restrict_noUnknownKey (G : TT S T) (nr : Marks S T) (hinv : PInv G nr) (hU : noUnknownKey G = true) :
    noUnknownKey (restrict G nr) = true := by
  unfold noUnknownKey
  rw [List.all_eq_true]
  intro e he
  obtain ⟨l, hl, _⟩ := restrict_mem G nr e he
  have hc : AList.contains e.1 nr = true := contains_of_lookup (AList.lookup_of_mem_nodup hinv.keys hl)
  simpa using noUnknown_inRules G hU e.1 (hinv.sub e.1 hc)

theorem restrict_noUnknownArg (G : TT S T) (nr : Marks S T) (hA : noUnknownArg G = true) :
    noUnknownArg (restrict G nr) = true := by
  unfold noUnknownArg at hA ⊢
  rw [List.all_eq_true] at hA ⊢
  intro e he
  obtain ⟨l, _, hrow⟩ := restrict_mem G nr e he
  rw [List.all_eq_true]
  intro r hr
  rw [hrow, List.mem_filterMap] at hr
  obtain ⟨P, _, hP⟩ := hr
  cases hrl : G.rule? e.1 P with
  | none => simp [hrl] at hP
  | some v =>
    simp only [hrl, Option.some.injEq] at hP
    subst hP
    obtain ⟨row, h1, h2⟩ := rule_mem_row G e.1 P v hrl
    have := hA _ (AList.lookup_some_mem h1)
    rw [List.all_eq_true] at this
    exact this _ h2

/-- **`clean()` keeps the hypotheses of the counting theorem** -/
theorem clean_countHyps (G G' : TT S T) (hU : noUnknownKey G = true) (hA : noUnknownArg G = true) (fuel : Nat)
    (h : clean G fuel = .ok G') : rowsNodup G' = true ∧ noUnknownKey G' = true ∧ noUnknownArg G' = true := by
  obtain ⟨nr, rfl, hinv⟩ := clean_result G G' hU fuel h
  exact ⟨restrict_rowsNodup G nr hinv, restrict_noUnknownKey G nr hinv hU, restrict_noUnknownArg G nr hA⟩

/-! ### the saturation table satisfies them -/

theorem dictOf_keys_nodup {κ ν : Type} [DecidableEq κ] : ∀ (l : List (κ × ν)) (d0 : AList κ ν),
    (AList.keys d0).Nodup → (AList.keys (dictOf l d0)).Nodup
  | [], _, h => h
  | r :: rs, d0, h => by
    rw [dictOf_cons]
    exact dictOf_keys_nodup rs _ (nodup_insert' _ _ _ h)

omit [DecidableEq S] [DecidableEq T] in
theorem rowDict_nodup (B : Builder S T) (prims : List Sym) (request : Ty) (rule : NT S T) :
    (AList.keys (rowDict B prims request rule)).Nodup :=
  dictOf_keys_nodup (rowList B prims request rule) [] (by simp [AList.keys])

omit [DecidableEq S] [DecidableEq T] in
theorem rowDict_mem (B : Builder S T) (prims : List Sym) (request : Ty) (rule : NT S T)
    (r : Sym × (List (Ty × S) × T)) (hr : r ∈ rowDict B prims request rule) : r ∈ rowList B prims request rule := by
  have hl := AList.lookup_of_mem_nodup (rowDict_nodup B prims request rule) hr
  rcases lookup_dictOf_mem r.1 r.2 (rowList B prims request rule) [] hl with h1 | h1
  · exact h1
  · simp [AList.lookup] at h1

theorem saturation_countHyps (B : Builder S T) (dsl : Dsl) (request : Ty) (stackKey : Bool) (fuel : Nat) (G : TT S T)
    (hd : noUnknownDsl dsl request = true) (h : saturationTable B dsl.prims request stackKey fuel = some G) :
    rowsNodup G = true ∧ noUnknownKey G = true ∧ noUnknownArg G = true := by
  obtain ⟨_, _, _, hrows⟩ := saturationTable_spec B dsl.prims request stackKey fuel G h
  refine ⟨?_, saturation_noUnknown B dsl request stackKey fuel G hd h, ?_⟩
  · unfold rowsNodup
    rw [List.all_eq_true]
    intro e he
    rw [hrows e he]
    simpa using rowDict_nodup B dsl.prims request e.1
  · unfold noUnknownDsl at hd
    simp only [Bool.and_eq_true, decide_eq_true_eq, List.all_eq_true] at hd
    unfold noUnknownArg
    rw [List.all_eq_true]
    intro e he
    rw [List.all_eq_true]
    intro r hr
    rw [hrows e he] at hr
    rw [List.all_eq_true]
    intro a ha
    obtain ⟨p, hp, hpa⟩ := rowList_types B dsl.prims request e.1 r (rowDict_mem B dsl.prims request e.1 r hr) a ha
    simpa using hd.2 p hp _ hpa

end PS.T
