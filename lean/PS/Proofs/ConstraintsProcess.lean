/-
  C05, part 3: `__process__` by induction on the token.
  `attrs tok t` lists the components `__process__(·, tok)` puts on top of the state reached on
  `t` (newest first); its head is the bit "`t` matches `tok`" (`attrs_head`).
  `processInner_refines`: processInner B tok = some A → Refines B A (width tok) (attrs tok).
-/
import PS.Proofs.ConstraintsRefine
import PS.Spec.Constraints
set_option linter.unusedSectionVars false
namespace PS.C05
open PS DFTA

variable {σ Q : Type} [DecidableEq σ] [DecidableEq Q]

/-! ### the attributes, as functions of the tree -/

def countAttrs (S : List σ) (n : Nat) (most : Bool) (t : Tree σ) : List Nat :=
  let c := min (cnt S t) (cmaxi n most)
  [bit (if most then decide (c ≤ n) else decide (c = n)), c]

mutual
  def width : Tok σ → Nat
    | .any => 0
    | .allow _ => 1
    | .atMost _ _ => 2
    | .atLeast _ _ => 2
    | .forbidSub _ => 2
    | .forceSub _ => 2
    | .func _ args => 1 + (widthArgs args + 1)
  def widthArgs : List (Tok σ) → Nat
    | [] => 0
    | a :: as => widthArgs as + width a
end

mutual
  def attrs : Tok σ → Tree σ → List Nat
    | .any, _ => []
    | .allow S, t => [bit (decide (t.label ∈ S))]
    | .atMost S n, t => countAttrs S n true t
    | .atLeast S n, t => countAttrs S n false t
    | .forbidSub S, t => countAttrs S 0 true t
    | .forceSub S, t => countAttrs S 1 false t
    | .func H args, t =>
      bit (decide (t.label ∈ H) && matchBits args t.kids) :: (attrsArgs args t ++ [bit (decide (t.label ∈ H))])
  /-- components of the argument patterns, the last pattern's first -/
  def attrsArgs : List (Tok σ) → Tree σ → List Nat
    | [], _ => []
    | a :: as, t => attrsArgs as t ++ attrs a t
  /-- argument patterns against children, positionally: a pattern that added components must
      have its newest component equal to 1 on the child -/
  def matchBits : List (Tok σ) → List (Tree σ) → Bool
    | [], _ => true
    | _ :: _, [] => true
    | a :: as, k :: ks => (decide (width a = 0) || ((attrs a k).head? == some 1)) && matchBits as ks
end

mutual
  theorem attrs_length : ∀ (tok : Tok σ) (t : Tree σ), (attrs tok t).length = width tok
    | .any, _ => by simp [attrs, width]
    | .allow _, _ => by simp [attrs, width]
    | .atMost _ _, _ => by simp [attrs, width, countAttrs]
    | .atLeast _ _, _ => by simp [attrs, width, countAttrs]
    | .forbidSub _, _ => by simp [attrs, width, countAttrs]
    | .forceSub _, _ => by simp [attrs, width, countAttrs]
    | .func _ args, t => by
      simp only [attrs, width, List.length_cons, List.length_append, List.length_nil, attrsArgs_length args t]
      omega
  theorem attrsArgs_length : ∀ (args : List (Tok σ)) (t : Tree σ), (attrsArgs args t).length = widthArgs args
    | [], _ => by simp [attrsArgs, widthArgs]
    | a :: as, t => by
      simp [attrsArgs, widthArgs, attrs_length a t, attrsArgs_length as t]
end

theorem bit_eq_one (c : Bool) : (bit c = 1) ↔ c = true := by cases c <;> simp [bit]

mutual
  /-- the newest component is the match bit of the pattern -/
  theorem attrs_head : ∀ (tok : Tok σ) (t : Tree σ), width tok ≠ 0 →
      (attrs tok t).head? = some (bit (matchesTok tok t))
    | .any, _ => by simp [width]
    | .allow _, _ => by simp [attrs, matchesTok]
    | .atMost S n, t => by
      intro _
      simp only [attrs, countAttrs, matchesTok, cmaxi, if_true, List.head?_cons, Option.some.injEq]
      congr 1
      by_cases h : cnt S t ≤ n <;> simp [h] <;> omega
    | .atLeast S n, t => by
      intro _
      simp only [attrs, countAttrs, matchesTok, cmaxi, List.head?_cons, Option.some.injEq]
      congr 1
      by_cases h : cnt S t ≥ n <;> simp [h] <;> omega
    | .forbidSub S, t => by
      intro _
      simp only [attrs, countAttrs, matchesTok, cmaxi, if_true, List.head?_cons, Option.some.injEq]
      congr 1
      by_cases h : cnt S t = 0 <;> simp [h] <;> omega
    | .forceSub S, t => by
      intro _
      simp only [attrs, countAttrs, matchesTok, cmaxi, List.head?_cons, Option.some.injEq]
      congr 1
      by_cases h : cnt S t ≥ 1 <;> simp [h] <;> omega
    | .func H args, t => by
      intro _
      simp only [attrs, matchesTok, List.head?_cons, Option.some.injEq]
      rw [matchBits_eq args t.kids]
  theorem matchBits_eq : ∀ (args : List (Tok σ)) (ks : List (Tree σ)), matchBits args ks = matchesArgs args ks
    | [], _ => by simp [matchBits, matchesArgs]
    | _ :: _, [] => by simp [matchBits, matchesArgs]
    | a :: as, k :: ks => by
      simp only [matchBits, matchesArgs]
      rw [matchBits_eq as ks]
      congr 1
      by_cases hw : width a = 0
      · have : a = .any := by
          cases a <;> simp [width] at hw ⊢
        subst this
        simp [width, matchesTok]
      · rw [attrs_head a k hw]
        simp only [hw, decide_false, Bool.false_or]
        cases matchesTok a k <;> simp [bit]
end

/-! ### uniform length of the final states, `__tuple_len__` -/

def Uniform (B : DFTA σ (St Q)) (L : Nat) : Prop := ∀ q ∈ B.finals, q.2.length = L

theorem Refines.uniform {B A : DFTA σ (St Q)} {w L : Nat} {v : Tree σ → List Nat}
    (h : Refines B A w v) (hu : Uniform B L) : Uniform A (w + L) := by
  intro q hq
  obtain ⟨d, hd, cs, hl, e⟩ := h.finDown q hq
  subst e
  simp [extL, hl, hu d hd]

theorem tupleLen_of_uniform (B : DFTA σ (St Q)) (L : Nat) (hne : B.finals ≠ []) (hu : Uniform B L) :
    tupleLen B = some (1 + L) := by
  unfold tupleLen
  cases hf : B.finals with
  | nil => exact absurd hf hne
  | cons q qs =>
    simp only [List.head?_cons, Option.map_some, Option.some.injEq]
    rw [hu q (by rw [hf]; exact List.mem_cons_self)]

theorem tupleLen_some (B : DFTA σ (St Q)) (L l : Nat) (hu : Uniform B L) (h : tupleLen B = some l) :
    l = 1 + L ∧ B.finals ≠ [] := by
  unfold tupleLen at h
  cases hf : B.finals with
  | nil => rw [hf] at h; cases h
  | cons q qs =>
    rw [hf] at h
    simp only [List.head?_cons, Option.map_some, Option.some.injEq] at h
    rw [hu q (by rw [hf]; exact List.mem_cons_self)] at h
    exact ⟨h.symm, by simp⟩

/-! ### `allow` -/

theorem allow_refines (B : DFTA σ (St Q)) (hd : B.Det) (S : List σ) :
    Refines B (tag B (fun P _ _ => decide (P ∈ S))) 1 (fun t => [bit (decide (t.label ∈ S))]) := by
  apply (tag_refines B _ hd).congr
  intro t d hr
  cases t with
  | node l ks =>
    obtain ⟨qs, _, _, h3⟩ := (tag_sim B (fun P _ _ => decide (P ∈ S)) hd).2.2 l ks d hr
    rw [h3]; rfl

/-! ### counting -/

theorem min_sum_min (cs : List Nat) (b m : Nat) :
    min ((cs.map (fun c => min c m)).sum + b) m = min (cs.sum + b) m := by
  induction cs generalizing b with
  | nil => rfl
  | cons c cs ih =>
    simp only [List.map_cons, List.sum_cons]
    have h1 := ih (b + min c m)
    have h2 := ih (b + c)
    omega

theorem cntList_eq_sum (S : List σ) (ks : List (Tree σ)) : cntList S ks = (ks.map (cnt S)).sum := by
  induction ks with
  | nil => simp [cntList]
  | cons k ks ih => simp [cntList, ih]

theorem topVal_of_run {A : DFTA σ (St Q)} {t : Tree σ} {s : St Q} (h : DFTA.run A t = some s) :
    topVal A t = lastVal s := by
  unfold topVal; rw [h]; rfl

theorem topVal_count (B : DFTA σ (St Q)) (hd : B.Det) (n : Nat) (S : List σ) (most : Bool) :
    ∀ t d, DFTA.run B t = some d → topVal (count B n S most) t = min (cnt S t) (cmaxi n most) := by
  apply run_induction
  intro l ks ih d hr
  obtain ⟨ss, hss, hv⟩ := (count_sim B n S most hd).2.2 l ks d hr
  rw [hv]
  unfold countVal
  have hF := (runList_eq_some_iff _ ks ss).mp hss
  have hsim := (count_sim B n S most hd).1
  have hmap : ss.map lastVal = (ks.map (cnt S)).map (fun c => min c (cmaxi n most)) := by
    clear hss hv hr
    induction hF with
    | nil => rfl
    | @cons k s ks' ss' h1 _ ihF =>
      simp only [List.map_cons, List.cons.injEq]
      refine ⟨?_, ihF (fun k' hk' => ih k' (List.mem_cons_of_mem _ hk'))⟩
      have hb := hsim k
      rw [h1] at hb
      cases hbk : DFTA.run B k with
      | none => rw [hbk] at hb; cases hb
      | some dk =>
        rw [← topVal_of_run h1]
        exact ih k List.mem_cons_self dk hbk
  rw [hmap, min_sum_min]
  simp only [cnt, cntList_eq_sum]
  congr 1
  omega

theorem processCount_refines (B : DFTA σ (St Q)) (hd : B.Det) (S : List σ) (n : Nat) (most : Bool) :
    Refines B (processCount B S n most) 2 (countAttrs S n most) := by
  unfold processCount
  have h1 := count_refines B n S most hd
  have h2 := tag_refines (count B n S most) (fun _ _ st =>
    match st.2[1]? with
    | some c => if most then decide (c ≤ n) else decide (c = n)
    | none => false) h1.det
  apply (h1.trans h2).congr
  intro t d hr
  have hc := topVal_count B hd n S most t d hr
  have hrC : DFTA.run (count B n S most) t = some (extL d [topVal (count B n S most) t]) := by
    rw [h1.run, hr]; rfl
  cases t with
  | node l ks =>
    obtain ⟨qs, _, _, h3⟩ := (tag_sim (count B n S most) _ h1.det).2.2 l ks _ hrC
    simp only [List.cons_append, List.nil_append]
    rw [h3, hc]
    unfold countAttrs tagBitOf
    simp only [aug, extL, List.cons_append, List.nil_append, List.getElem?_cons_succ, List.getElem?_cons_zero]

/-! ### the function pattern: offsets -/

def psums : Nat → List (Tok σ) → List Nat
  | _, [] => []
  | base, a :: as => (base + width a) :: psums (base + width a) as

def offs : List (Tok σ) → List Nat
  | [] => []
  | _ :: as => widthArgs as :: offs as

theorem psums_offs (args : List (Tok σ)) (base : Nat) :
    (psums base args).map (fun l => base + widthArgs args - l) = offs args := by
  induction args generalizing base with
  | nil => rfl
  | cons a as ih =>
    simp only [psums, offs, List.map_cons, widthArgs, List.cons.injEq]
    refine ⟨by omega, ?_⟩
    rw [← ih (base + width a)]
    apply List.map_congr_left
    intro l _
    omega

theorem getLastD_psums (args : List (Tok σ)) (base : Nat) (pre : List Nat) (h : pre.getLastD 0 = base) :
    (pre ++ psums base args).getLastD 0 = base + widthArgs args := by
  induction args generalizing base pre with
  | nil => simpa [psums, widthArgs] using h
  | cons a as ih =>
    have := ih (base + width a) (pre ++ [base + width a]) (by simp)
    simp only [psums, widthArgs]
    rw [show pre ++ (base + width a) :: psums (base + width a) as = (pre ++ [base + width a]) ++ psums (base + width a) as by simp]
    rw [this]; omega

theorem forall₂_imp' {α β : Type} {R R' : α → β → Prop} {xs : List α} {ys : List β}
    (h : List.Forall₂ R xs ys) (hp : ∀ x y, R x y → R' x y) : List.Forall₂ R' xs ys := by
  induction h with
  | nil => exact .nil
  | cons h1 _ ih => exact .cons (hp _ _ h1) ih

/-- what `__match__` computes on the children, when their states carry the components of the
    argument patterns on top -/
theorem matchArgs_eq (args : List (Tok σ)) (ks : List (Tree σ)) (qs : List (St Q))
    (h : List.Forall₂ (fun k (q : St Q) => ∃ tl, q.2 = attrsArgs args k ++ tl) ks qs) :
    ((qs.map aug).zip ((offs args).zip (args.map (fun a => decide (width a > 0))))).all
      (fun x => !x.2.2 || (x.1.2[x.2.1 + 1]? == some 1)) = matchBits args ks := by
  induction args generalizing ks qs with
  | nil => simp [offs, matchBits]
  | cons a as ih =>
    cases h with
    | nil => simp [matchBits]
    | @cons k q ks' qs' h1 h2 =>
      simp only [offs, List.map_cons, List.zip_cons_cons, List.all_cons, matchBits]
      congr 1
      · obtain ⟨tl, e⟩ := h1
        simp only [aug, List.getElem?_cons_succ]
        rw [e]
        simp only [attrsArgs, List.append_assoc]
        rw [List.getElem?_append_right (by simp [attrsArgs_length])]
        simp only [attrsArgs_length, Nat.sub_self]
        by_cases hw : width a = 0
        · simp [hw]
        · have hl := attrs_length a k
          cases hat : attrs a k with
          | nil => rw [hat] at hl; simp at hl; exact absurd hl.symm hw
          | cons x xs =>
            have : width a > 0 := by omega
            simp [hw, this]
      · apply ih
        refine forall₂_imp h2 ?_
        rintro k' q' ⟨tl, e⟩
        exact ⟨attrs a k' ++ tl, by rw [e]; simp [attrsArgs]⟩
where
  forall₂_imp {α β : Type} {R R' : α → β → Prop} {xs : List α} {ys : List β}
      (h : List.Forall₂ R xs ys) (hp : ∀ x y, R x y → R' x y) : List.Forall₂ R' xs ys := by
    induction h with
    | nil => exact .nil
    | cons h1 _ ih => exact .cons (hp _ _ h1) ih

/-! ### the induction on the token -/

mutual
  theorem processInner_refines : ∀ (tok : Tok σ) (B A : DFTA σ (St Q)) (L : Nat), B.Det →
      Uniform B L → processInner B tok = some A → Refines B A (width tok) (attrs tok)
    | .any, B, A, _, hd, _, h => by
      simp only [processInner, Option.some.injEq] at h
      subst h
      exact (Refines.refl B hd).congr (fun _ _ _ => by simp [attrs])
    | .allow S, B, A, _, hd, _, h => by
      simp only [processInner, Option.some.injEq] at h
      subst h
      exact (allow_refines B hd S).congr (fun _ _ _ => by simp [attrs])
    | .atMost S n, B, A, _, hd, _, h => by
      simp only [processInner, Option.some.injEq] at h
      subst h
      exact (processCount_refines B hd S n true).congr (fun _ _ _ => by simp [attrs])
    | .atLeast S n, B, A, _, hd, _, h => by
      simp only [processInner, Option.some.injEq] at h
      subst h
      exact (processCount_refines B hd S n false).congr (fun _ _ _ => by simp [attrs])
    | .forbidSub S, B, A, _, hd, _, h => by
      simp only [processInner, Option.some.injEq] at h
      subst h
      exact (processCount_refines B hd S 0 true).congr (fun _ _ _ => by simp [attrs])
    | .forceSub S, B, A, _, hd, _, h => by
      simp only [processInner, Option.some.injEq] at h
      subst h
      exact (processCount_refines B hd S 1 false).congr (fun _ _ _ => by simp [attrs])
    | .func H args, B, A, L, hd, hu, h => by
      simp only [processInner] at h
      have r0 := allow_refines B hd H
      have hu0 := r0.uniform hu
      cases htl : tupleLen (tag B (fun P _ _ => decide (P ∈ H))) with
      | none => rw [htl] at h; cases h
      | some l0 =>
      obtain ⟨el0, hne0⟩ := tupleLen_some _ _ _ hu0 htl
      subst el0
      rw [htl] at h
      simp only at h
      cases hpa : processArgs (tag B (fun P _ _ => decide (P ∈ H))) args [1 + (1 + L)] [] with
      | none => rw [hpa] at h; cases h
      | some res =>
        obtain ⟨g', lengths, hasCheck⟩ := res
        rw [hpa] at h
        simp only [Option.some.injEq] at h
        obtain ⟨r1, hl, hc⟩ := processArgs_refines args _ (1 + L) [1 + (1 + L)] [] (g', lengths, hasCheck)
          r0.det hu0 (by simp) hpa
        simp only at hl hc r1
        have r01 := r0.trans r1
        have r2 := tag_refines g' (matchCheck ((lengths.map (fun l => lengths.getLastD 0 - l)).headD 0)
          (lengths.map (fun l => lengths.getLastD 0 - l)).tail hasCheck) r1.det
        rw [h] at r2
        apply (r01.trans r2).congr
        intro t d hr
        -- the offsets
        have hlast : lengths.getLastD 0 = 1 + (1 + L) + widthArgs args := by
          rw [hl]; exact getLastD_psums args _ _ (by simp)
        have hidx : lengths.map (fun l => lengths.getLastD 0 - l) = widthArgs args :: offs args := by
          rw [hlast, hl]
          simp only [List.map_cons, List.singleton_append, List.cons.injEq]
          exact ⟨by omega, psums_offs args _⟩
        have hrg : DFTA.run g' t = some (extL d (attrsArgs args t ++ [bit (decide (t.label ∈ H))])) := by
          rw [r01.run, hr]; rfl
        cases t with
        | node l ks =>
          rw [← h] at r2 ⊢
          obtain ⟨qs, hqs, _, h3⟩ := (tag_sim g' _ r1.det).2.2 l ks _ hrg
          simp only [attrs, Tree.label, Tree.kids, List.cons_append, List.nil_append, List.cons.injEq, and_true]
          rw [h3, hidx]
          unfold tagBitOf
          congr 1
          simp only [List.headD_cons, List.tail_cons, matchCheck, hc, List.nil_append]
          congr 1
          · simp only [aug, extL, List.getElem?_cons_succ, Tree.label]
            rw [List.append_assoc, List.getElem?_append_right (by simp [attrsArgs_length])]
            simp only [attrsArgs_length, Nat.sub_self, List.cons_append, List.nil_append, List.getElem?_cons_zero]
            by_cases hm : l ∈ H <;> simp [bit, hm]
          · apply matchArgs_eq
            have hF := (runList_eq_some_iff g' ks qs).mp hqs
            refine forall₂_imp' hF ?_
            intro k q h1
            have := r01.run k
            rw [h1] at this
            cases hbk : DFTA.run B k with
            | none => rw [hbk] at this; cases this
            | some dk =>
              rw [hbk] at this
              simp only [Option.map_some, Option.some.injEq] at this
              rw [this]
              exact ⟨[bit (decide (k.label ∈ H))] ++ dk.2, by simp [extL]⟩
  theorem processArgs_refines : ∀ (args : List (Tok σ)) (g : DFTA σ (St Q)) (L : Nat) (lengths : List Nat)
      (hasCheck : List Bool) (res : DFTA σ (St Q) × List Nat × List Bool), g.Det → Uniform g L →
      lengths.getLastD 0 = 1 + L → processArgs g args lengths hasCheck = some res →
      Refines g res.1 (widthArgs args) (attrsArgs args) ∧ res.2.1 = lengths ++ psums (1 + L) args ∧
        res.2.2 = hasCheck ++ args.map (fun a => decide (width a > 0))
    | [], g, _, lengths, hasCheck, res, hd, _, _, h => by
      simp only [processArgs, Option.some.injEq] at h
      subst h
      exact ⟨(Refines.refl g hd).congr (fun _ _ _ => by simp [attrsArgs]), by simp [psums], by simp⟩
    | a :: as, g, L, lengths, hasCheck, res, hd, hu, hlast, h => by
      simp only [processArgs] at h
      cases hp : processInner g a with
      | none => rw [hp] at h; cases h
      | some g1 =>
        rw [hp] at h
        simp only at h
        have r1 := processInner_refines a g g1 L hd hu hp
        have hu1 := r1.uniform hu
        cases htl : tupleLen g1 with
        | none => rw [htl] at h; cases h
        | some cur =>
        obtain ⟨ecur, _⟩ := tupleLen_some _ _ _ hu1 htl
        subst ecur
        rw [htl] at h
        simp only at h
        obtain ⟨r2, hl, hc⟩ := processArgs_refines as g1 (width a + L) _ _ res r1.det hu1 (by simp) h
        refine ⟨(r1.trans r2).congr (fun _ _ _ => by simp [attrsArgs]), ?_, ?_⟩
        · rw [hl]
          simp only [psums, List.append_assoc, List.singleton_append]
          rw [show 1 + L + width a = 1 + (width a + L) by omega]
        · rw [hc, hlast]
          simp only [List.map_cons, List.append_assoc, List.singleton_append, List.append_cancel_left_eq,
            List.cons.injEq, and_true]
          have : 1 + (width a + L) - (1 + L) = width a := by omega
          rw [this]
end

end PS.C05
