/-
  `UCFG.from_CFG` (u_cfg.py:254-268): the unambiguous grammar built from a deterministic CFG has
  the same rules (each with a single alternative), hence exactly one derivation per derivable
  term, none otherwise: it is unambiguous and has the language of the CFG.

  Hypotheses `hk`, `hr`: the rule tables have distinct keys (always true of a Python dict).
-/
import PS.Model.Ucfg
namespace PS.U.FromCfg
open PS PS.G PS.U

/-! ### folding `AList.insert` over a list (Python: `for e in l: d[key e] = val e`) -/

section Fold
variable {α κ ν : Type} [DecidableEq κ]

theorem lookup_foldl_insert_ne (key : α → κ) (val : α → ν) (k : κ) :
    ∀ (l : List α) (acc : AList κ ν), (∀ e ∈ l, key e ≠ k) →
      AList.lookup k (l.foldl (fun acc e => AList.insert (key e) (val e) acc) acc)
        = AList.lookup k acc
  | [], _, _ => rfl
  | e :: l, acc, h => by
    rw [List.foldl_cons, lookup_foldl_insert_ne key val k l _
      (fun e' he' => h e' (List.mem_cons_of_mem _ he'))]
    exact AList.lookup_insert_ne _ _ (Ne.symm (h e List.mem_cons_self))

theorem lookup_foldl_insert_mem (key : α → κ) (val : α → ν) :
    ∀ (l : List α) (acc : AList κ ν), (l.map key).Nodup → ∀ e ∈ l,
      AList.lookup (key e) (l.foldl (fun acc e => AList.insert (key e) (val e) acc) acc)
        = some (val e)
  | [], _, _, e, he => by cases he
  | x :: l, acc, hnd, e, he => by
    rw [List.map_cons, List.nodup_cons] at hnd
    rw [List.foldl_cons]
    rcases List.mem_cons.mp he with h | h
    · rw [h, lookup_foldl_insert_ne key val (key x) l _
        (fun e' he' hk => hnd.1 (hk ▸ List.mem_map.mpr ⟨e', he', rfl⟩))]
      exact AList.lookup_insert_self _ _ _
    · exact lookup_foldl_insert_mem key val l _ hnd.2 e h

end Fold

variable {S : Type} [DecidableEq S]

def toU (nt : NT S Unit) : UNT S := (nt.1, nt.2.1)

omit [DecidableEq S] in
theorem toU_injective {a b : NT S Unit} (h : toU a = toU b) : a = b := by
  obtain ⟨t, s, u⟩ := a
  obtain ⟨t', s', u'⟩ := b
  simp only [toU, Prod.mk.injEq] at h
  cases u; cases u'
  rw [h.1, h.2]

theorem nodup_map_of_injective {α β : Type} (f : α → β) (hf : ∀ a b, f a = f b → a = b) :
    ∀ (l : List α), l.Nodup → (l.map f).Nodup
  | [], _ => List.nodup_nil
  | x :: l, h => by
    rw [List.nodup_cons] at h
    rw [List.map_cons, List.nodup_cons]
    refine ⟨?_, nodup_map_of_injective f hf l h.2⟩
    intro hm
    obtain ⟨y, hy, hxy⟩ := List.mem_map.mp hm
    rw [hf _ _ hxy] at hy
    exact h.1 hy

/-- F1: the rules of `fromCFG G` are the rules of `G`, each with a single alternative -/
theorem alts_fromCFG (G : TT S Unit) (hk : (AList.keys G.rules).Nodup)
    (hr : ∀ e ∈ G.rules, (AList.keys e.2).Nodup) (nt : NT S Unit) (f : Sym) :
    (fromCFG G).alts? (toU nt) f = (G.rule? nt f).map (fun r => [r.1]) := by
  unfold UCFG.alts? TT.rule? fromCFG
  simp only
  cases h : AList.lookup nt G.rules with
  | none =>
    rw [lookup_foldl_insert_ne (fun e : NT S Unit × _ => (e.1.1, e.1.2.1)) _ (toU nt)]
    · rfl
    · intro e he hek
      have : e.1 = nt := toU_injective hek
      have hm : nt ∈ AList.keys G.rules := List.mem_map.mpr ⟨e, he, this⟩
      have := AList.lookup_isSome_iff_mem_keys.mpr hm
      rw [h] at this
      cases this
  | some rs =>
    have hmem := AList.lookup_some_mem h
    have hnd : (G.rules.map (fun e : NT S Unit × _ => toU e.1)).Nodup := by
      have := nodup_map_of_injective (toU (S := S)) (fun _ _ => toU_injective) _ hk
      rwa [AList.keys, List.map_map] at this
    have := lookup_foldl_insert_mem (fun e : NT S Unit × _ => (e.1.1, e.1.2.1))
      (fun e : NT S Unit × AList Sym (List (Ty × S) × Unit) =>
        e.2.foldl (fun d r => AList.insert r.1 [r.2.1] d) []) G.rules [] hnd _ hmem
    simp only at this
    simp only [toU]
    rw [this]
    simp only
    have hrs := hr _ hmem
    simp only at hrs
    cases h2 : AList.lookup f rs with
    | none =>
      rw [lookup_foldl_insert_ne (fun r : Sym × _ => r.1) _ f]
      · rfl
      · intro e he hek
        have hm : f ∈ AList.keys rs := List.mem_map.mpr ⟨e, he, hek⟩
        have := AList.lookup_isSome_iff_mem_keys.mpr hm
        rw [h2] at this
        cases this
    | some r =>
      have hm2 := AList.lookup_some_mem h2
      have := lookup_foldl_insert_mem (fun r : Sym × List (Ty × S) × Unit => r.1)
        (fun r => [r.2.1]) rs [] hrs _ hm2
      simp only at this
      rw [this]
      rfl

/-! ### F2: one derivation per derivable term -/

mutual
  theorem derivs_fromCFG_length (G : TT S Unit) (hk : (AList.keys G.rules).Nodup)
      (hr : ∀ e ∈ G.rules, (AList.keys e.2).Nodup) :
      ∀ (t : Prog) (nt : NT S Unit),
        (derivs (fromCFG G) t (toU nt)).length = if gen G t nt = true then 1 else 0
    | .node f kids, nt => by
      rw [derivs, gen, alts_fromCFG G hk hr]
      cases h : G.rule? nt f with
      | none => simp
      | some r =>
        obtain ⟨args, u⟩ := r
        simp only [Option.map_some, List.flatMap_cons, List.flatMap_nil, List.append_nil,
          List.length_map]
        exact derivsList_fromCFG_length G hk hr kids args
  theorem derivsList_fromCFG_length (G : TT S Unit) (hk : (AList.keys G.rules).Nodup)
      (hr : ∀ e ∈ G.rules, (AList.keys e.2).Nodup) :
      ∀ (ks : List Prog) (args : List (Ty × S)),
        (derivsList (fromCFG G) ks args).length = if genList G ks args = true then 1 else 0
    | [], [] => by simp [derivsList, genList]
    | [], _ :: _ => by simp [derivsList, genList]
    | _ :: _, [] => by simp [derivsList, genList]
    | k :: ks, (t, s) :: as => by
      have h1 := derivs_fromCFG_length G hk hr k (t, (s, ()))
      have h2 := derivsList_fromCFG_length G hk hr ks as
      rw [derivsList, genList]
      change (derivs (fromCFG G) k (t, s)).length = _ at h1
      cases hg : gen G k (t, (s, ())) with
      | false =>
        rw [hg] at h1
        simp only [Bool.false_eq_true, if_false, List.length_eq_zero_iff] at h1
        simp [h1]
      | true =>
        rw [hg] at h1
        simp only [if_true] at h1
        obtain ⟨d, hd⟩ := List.length_eq_one_iff.mp h1
        rw [hd]
        simp [h2]
end

/-! ### F3 -/

theorem allDerivs_fromCFG_length (G : TT S Unit) (hk : (AList.keys G.rules).Nodup)
    (hr : ∀ e ∈ G.rules, (AList.keys e.2).Nodup) (t : Prog) :
    (allDerivs (fromCFG G) t).length = if gen G t G.start = true then 1 else 0 := by
  have h := derivs_fromCFG_length G hk hr t G.start
  unfold allDerivs
  show ([toU G.start].flatMap _).length = _
  simp only [List.flatMap_cons, List.flatMap_nil, List.append_nil, List.length_map]
  exact h

/-- F3: `fromCFG G` is unambiguous -/
theorem fromCFG_unambiguous (G : TT S Unit) (hk : (AList.keys G.rules).Nodup)
    (hr : ∀ e ∈ G.rules, (AList.keys e.2).Nodup) (t : Prog) :
    unambiguousOn (fromCFG G) t = true := by
  unfold unambiguousOn
  rw [allDerivs_fromCFG_length G hk hr t]
  split <;> simp

/-- F3: `fromCFG G` has the language of `G` -/
theorem genU_fromCFG (G : TT S Unit) (hk : (AList.keys G.rules).Nodup)
    (hr : ∀ e ∈ G.rules, (AList.keys e.2).Nodup) (t : Prog) :
    genU (fromCFG G) t = gen G t G.start := by
  have h := allDerivs_fromCFG_length G hk hr t
  unfold genU
  cases hg : gen G t G.start with
  | false =>
    rw [hg] at h
    simp only [Bool.false_eq_true, if_false, List.length_eq_zero_iff] at h
    simp [h]
  | true =>
    rw [hg] at h
    simp only [if_true] at h
    obtain ⟨d, hd⟩ := List.length_eq_one_iff.mp h
    simp [hd]

end PS.U.FromCfg
