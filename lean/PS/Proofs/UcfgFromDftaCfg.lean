/-
  C06, part 6: `UCFG.from_CFG`: the enumeration / boundedness / count of the unambiguous grammar
  built from a deterministic CFG are those of the CFG itself.
-/
import PS.Proofs.FromCfg
import PS.Proofs.Ucfg
import PS.Proofs.UOps
import PS.Proofs.Lang
import PS.Proofs.UcfgFromDfta
namespace PS.U.FromCfg
open PS PS.G PS.U

variable {S : Type} [DecidableEq S]
set_option linter.unusedSectionVars false

section Fold
variable {α κ ν : Type} [DecidableEq κ]

/-- Python `d = {}; for e in l: d[key e] = val e` with distinct keys is the list of pairs -/
theorem foldl_insert_eq_append (key : α → κ) (val : α → ν) :
    ∀ (l : List α) (acc : AList κ ν), (AList.keys acc ++ l.map key).Nodup →
      l.foldl (fun acc e => AList.insert (key e) (val e) acc) acc = acc ++ l.map (fun e => (key e, val e))
  | [], acc, _ => by simp
  | e :: l, acc, h => by
    rw [List.foldl_cons]
    have hnot : key e ∉ AList.keys acc := by
      intro hm
      have := (List.nodup_append.mp h).2.2 (key e) hm (key e) (by simp)
      exact this rfl
    have hl : AList.lookup (key e) acc = none := by
      cases hq : AList.lookup (key e) acc with
      | none => rfl
      | some v =>
        exact absurd (AList.lookup_isSome_iff_mem_keys.mp (by rw [hq]; rfl)) hnot
    rw [FD.insert_of_lookup_none _ _ _ hl]
    rw [foldl_insert_eq_append key val l (acc ++ [(key e, val e)])]
    · simp
    · rw [FD.keys_append]
      have : AList.keys [(key e, val e)] = [key e] := rfl
      rw [this, List.append_assoc]
      simpa using h

theorem foldl_insert_eq_map (key : α → κ) (val : α → ν) (l : List α) (h : (l.map key).Nodup) :
    l.foldl (fun acc e => AList.insert (key e) (val e) acc) [] = l.map (fun e => (key e, val e)) := by
  have := foldl_insert_eq_append key val l [] (by simpa [AList.keys] using h)
  simpa using this

end Fold

/-- the row of a non-terminal in `fromCFG G`: the row of `G`, every rule with one alternative -/
theorem lookup_fromCFG (G : TT S Unit) (hk : (AList.keys G.rules).Nodup)
    (hr : ∀ e ∈ G.rules, (AList.keys e.2).Nodup) (nt : NT S Unit) :
    AList.lookup (toU nt) (fromCFG G).rules =
      (AList.lookup nt G.rules).map (fun rs => rs.map (fun r => (r.1, [r.2.1]))) := by
  unfold fromCFG
  simp only
  cases h : AList.lookup nt G.rules with
  | none =>
    rw [lookup_foldl_insert_ne (fun e : NT S Unit × _ => (e.1.1, e.1.2.1)) _ (toU nt)]
    · rfl
    · intro e he hek
      have : e.1 = nt := toU_injective hek
      have hm : nt ∈ AList.keys G.rules := List.mem_map.mpr ⟨e, he, this⟩
      have := AList.lookup_isSome_iff_mem_keys.mpr hm
      rw [h] at this
      cases this
  | some rs =>
    have hmem := AList.lookup_some_mem h
    have hnd : (G.rules.map (fun e : NT S Unit × _ => toU e.1)).Nodup := by
      have := nodup_map_of_injective (toU (S := S)) (fun _ _ => toU_injective) _ hk
      rwa [AList.keys, List.map_map] at this
    have := lookup_foldl_insert_mem (fun e : NT S Unit × _ => (e.1.1, e.1.2.1))
      (fun e : NT S Unit × AList Sym (List (Ty × S) × Unit) =>
        e.2.foldl (fun d r => AList.insert r.1 [r.2.1] d) []) G.rules [] hnd _ hmem
    simp only at this
    simp only [toU, Option.map_some]
    rw [this]
    have hrs := hr _ hmem
    simp only at hrs
    rw [foldl_insert_eq_map (fun r : Sym × List (Ty × S) × Unit => r.1) (fun r => [r.2.1]) rs hrs]

theorem toU_arg (a : Ty × S) : toU ((a.1, (a.2, ())) : NT S Unit) = a := rfl

/-- the two enumerations coincide, entry by entry -/
theorem langU_fromCFG (G : TT S Unit) (hk : (AList.keys G.rules).Nodup)
    (hr : ∀ e ∈ G.rules, (AList.keys e.2).Nodup) :
    ∀ (k : Nat) (nt : NT S Unit), langU (fromCFG G) k (toU nt) = lang G k nt := by
  intro k
  induction k with
  | zero => intro nt; rfl
  | succ k ih =>
    intro nt
    rw [langU, lang, lookup_fromCFG G hk hr]
    cases AList.lookup nt G.rules with
    | none => rfl
    | some rs =>
      simp only [Option.map_some, List.flatMap_map, List.flatMap_cons, List.flatMap_nil,
        List.append_nil]
      apply flatMap_congr'
      intro r _
      congr 2
      apply List.map_congr_left
      intro a _
      exact ih (a.1, (a.2, ()))

theorem boundedU_fromCFG (G : TT S Unit) (hk : (AList.keys G.rules).Nodup)
    (hr : ∀ e ∈ G.rules, (AList.keys e.2).Nodup) :
    ∀ (k : Nat) (nt : NT S Unit), boundedU (fromCFG G) k (toU nt) = bounded G k nt := by
  intro k
  induction k with
  | zero => intro nt; rfl
  | succ k ih =>
    intro nt
    rw [boundedU, bounded, lookup_fromCFG G hk hr]
    cases AList.lookup nt G.rules with
    | none => rfl
    | some rs =>
      simp only [Option.map_some, List.all_map, List.all_cons, List.all_nil, Bool.and_true,
        Function.comp_def]
      congr 1
      funext r
      congr 1
      funext a
      exact ih (a.1, (a.2, ()))

end PS.U.FromCfg
