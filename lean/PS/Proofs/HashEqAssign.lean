/- C16: `Constant.assign`/`reset` with the repair proposed for C16-F7 — every hash that is read
   after an assignment is the hash of the object as it is now. -/
import PS.Proofs.HashEq
namespace PS.C16
open PS

mutual
  /-- every cached hash that `hashAfter` reads is the hash of the object as it is now -/
  def Good (h : HashFns) : Obj → Prop
    | .node l ks => (l.1.recomputes = false → l.2 = hashS h (.node l.1 (eraseList ks))) ∧ GoodList h ks
  def GoodList (h : HashFns) : List Obj → Prop
    | [] => True
    | k :: ks => Good h k ∧ GoodList h ks
end

theorem recomputes_not_sum {l : Lab} (hr : l.recomputes = true) : l.key ≠ .tsum := by
  cases l <;> simp [Lab.recomputes, Lab.key] at hr ⊢

mutual
  theorem hashAfter_eq (h : HashFns) : (o : Obj) → Good h o → hashAfter h o = hashS h (erase o)
    | .node l ks => by
      intro hg
      unfold Good at hg
      unfold hashAfter erase
      by_cases hr : l.1.recomputes = true
      · rw [if_pos hr, hashS, if_neg (recomputes_not_sum hr), hashAfterList_eq h ks hg.2]
      · have hr' : l.1.recomputes = false := by simpa using hr
        rw [if_neg hr]
        exact hg.1 hr'
  theorem hashAfterList_eq (h : HashFns) : (ks : List Obj) → GoodList h ks →
      hashAfterList h ks = hashListS h (eraseList ks)
    | [] => by intro _; rfl
    | k :: ks => by
      intro hg
      unfold GoodList at hg
      unfold hashAfterList eraseList hashListS
      rw [hashAfter_eq h k hg.1, hashAfterList_eq h ks hg.2]
end

mutual
  theorem good_build (h : HashFns) (hl : h.Lawful) : (t : T) → Good h (build h t)
    | .node l ks => by
      have hc := cached_build h hl (.node l ks)
      rw [pyHash_eq_spec h hl] at hc
      rw [build, construct] at hc ⊢
      unfold Good
      refine ⟨fun _ => ?_, goodList_buildList h hl ks⟩
      rw [eraseList_buildList]
      exact hc
  theorem goodList_buildList (h : HashFns) (hl : h.Lawful) : (ks : List T) → GoodList h (buildList h ks)
    | [] => by unfold buildList GoodList; trivial
    | k :: ks => by
      unfold buildList GoodList
      exact ⟨good_build h hl k, goodList_buildList h hl ks⟩
end

theorem cached_of_good (h : HashFns) : (k : Obj) → Good h k → k.label.1.recomputes = false →
    cached k = hashS h (erase k)
  | .node l ks => by
    intro hg hr
    unfold Good at hg
    unfold cached erase
    exact hg.1 hr

theorem map_cached_of_good (h : HashFns) : (ks : List Obj) → GoodList h ks →
    (∀ k ∈ ks, k.label.1.recomputes = false) → ks.map cached = (eraseList ks).map (hashS h)
  | [] => by intro _ _; rfl
  | k :: ks => by
    intro hg hr
    unfold GoodList at hg
    unfold eraseList
    simp only [List.map_cons]
    rw [cached_of_good h k hg.1 (hr k (by simp)),
      map_cached_of_good h ks hg.2 (fun k' hk' => hr k' (by simp [hk']))]

theorem goodList_modifyNth (h : HashFns) (f : Obj → Obj) : (i : Nat) → (ks : List Obj) → GoodList h ks →
    (∀ k, ks[i]? = some k → Good h (f k)) → GoodList h (modifyNth f i ks)
  | _, [] => by intro _ _; unfold modifyNth GoodList; trivial
  | 0, k :: ks => by
    intro hg hf
    unfold GoodList at hg
    unfold modifyNth GoodList
    exact ⟨hf k (by simp), hg.2⟩
  | j + 1, k :: ks => by
    intro hg hf
    unfold GoodList at hg
    unfold modifyNth GoodList
    exact ⟨hg.1, goodList_modifyNth h f j ks hg.2 (fun k' hk' => hf k' (by simpa using hk'))⟩

/-- an assignment (or reset) along a valid path keeps every cached hash that will be read correct -/
theorem good_assignAt (h : HashFns) (hv : Bool) (v : PyVal) (r : String) :
    (p : List Nat) → (o : Obj) → Good h o → validAt p o = true → Good h (assignAt h hv v r p o)
  | [], .node l ks => by
    intro hg hval
    unfold Good at hg
    unfold validAt at hval
    rw [Bool.and_eq_true] at hval
    obtain ⟨hc, hk⟩ := hval
    obtain ⟨l1, c⟩ := l
    cases l1 <;> simp only [Bool.false_eq_true] at hc
    case pconst hv0 v0 r0 =>
      simp only [assignAt, construct]
      unfold Good
      refine ⟨fun _ => ?_, hg.2⟩
      have hne : Lab.key (.pconst hv v r) ≠ .tsum := by simp [Lab.key]
      rw [hashS_node, if_neg hne, if_neg hne, List.map_map]
      have : ((fun x : T × Int => x.2) ∘ fun k => (erase k, cached k)) = cached := rfl
      rw [this, map_cached_of_good h ks hg.2 (fun k hk' => by
        have := List.all_eq_true.mp hk k hk'
        simpa using this)]
  | i :: p, .node l ks => by
    intro hg hval
    unfold Good at hg
    unfold validAt at hval
    rw [Bool.and_eq_true] at hval
    obtain ⟨hr, hk⟩ := hval
    simp only [assignAt]
    unfold Good
    refine ⟨fun hr' => ?_, ?_⟩
    · rw [hr] at hr'; exact absurd hr' (by simp)
    apply goodList_modifyNth h _ i ks hg.2
    intro k hki
    rw [hki] at hk
    have hgk : Good h k := goodList_get h ks hg.2 i k hki
    exact good_assignAt h hv v r p k hgk hk
where
  goodList_get (h : HashFns) : (ks : List Obj) → GoodList h ks → (i : Nat) → (k : Obj) →
      ks[i]? = some k → Good h k
    | [], _, _, _, hk => by simp at hk
    | k0 :: ks, hg, 0, k, hk => by
      unfold GoodList at hg
      simp at hk; subst hk; exact hg.1
    | k0 :: ks, hg, j + 1, k, hk => by
      unfold GoodList at hg
      exact goodList_get h ks hg.2 j k (by simpa using hk)

theorem good_runOps (h : HashFns) : (ops : List Op) → (o : Obj) → Good h o → validOps h ops o = true →
    Good h (runOps h ops o)
  | [], o => by intro hg _; exact hg
  | op :: ops, o => by
    intro hg hv
    unfold validOps at hv
    rw [Bool.and_eq_true] at hv
    unfold runOps
    exact good_runOps h ops _ (good_assignAt h _ _ _ op.path o hg hv.1) hv.2

end PS.C16
