/- C08, fragment grammar, part 11: what the node splitting and the balancing loop guarantee about
   the nodes of a group — they are valid, pairwise prefix-incomparable, carry the probability of
   their derivation prefix, and that probability is positive (`NodesOK`). -/
import PS.Proofs.SplitterFrag3
namespace PS.Sp
open PS PS.G

variable {U : Type} [DecidableEq U]

/-! ### invariants of node lists that are closed under permutation and under splitting a node -/

structure SplitClosed (pg : PUG U) (I : List (Node U) → Prop) : Prop where
  perm : ∀ {a b : List (Node U)}, a.Perm b → I a → I b
  split : ∀ {ns ns' kids : List (Node U)} {nd : Node U}, I ns → nd ∈ ns → nodeSplit pg nd = (true, kids) →
    (nd :: ns').Perm (ns ++ kids) → I ns'

theorem splitUntil_inv {pg : PUG U} {I : List (Node U) → Prop} (hI : SplitClosed pg I) (q : Nat) :
    ∀ (f : Nat) (nodes res : List (Node U)), splitUntil pg q f nodes = some res → I nodes → I res
  | 0, nodes, res, h, hc => by
    simp only [splitUntil] at h
    split at h
    · cases h
    · simp at h; subst h; exact hc
  | f + 1, nodes, res, h, hc => by
    simp only [splitUntil] at h
    split at h
    · split at h
      · cases h
      · rename_i kids rest hs
        obtain ⟨nd, hp, hsp⟩ := splitSome_spec pg _ _ _ _ _ hs
        refine splitUntil_inv hI q f _ res h ?_
        refine hI.split hc (hp.mem_iff.mpr (by simp)) hsp ?_
        have a := foldl_insertNode_perm kids rest
        exact (List.Perm.cons nd a).trans (List.perm_middle.symm.trans
          ((List.Perm.append_left kids hp.symm).trans List.perm_append_comm))
    · simp at h; subst h; exact hc

theorem trySplit_inv {pg : PUG U} {I : List (Node U) → Prop} (hI : SplitClosed pg I) {pgs pgs' : PG U} {gi : Nat}
    (h : trySplit pg pgs gi = some pgs') (hc : I (flat pgs)) : I (flat pgs') := by
  unfold trySplit at h
  split at h
  · cases h
  · rename_i ga hga
    split at h
    · cases h
    · rename_i idx kids hl
      simp only [Option.some.injEq] at h; subst h
      obtain ⟨nd, hnd, hs⟩ := trySplitLoop_spec pg ga.1 _ _ _ _ _ hl
      have p1 := flat_set_perm pgs gi ga (ga.1.eraseIdx idx ++ kids, ga.2) hga
      have p3 := perm_cons_eraseIdx ga.1 idx nd hnd
      simp only at p1
      refine hI.split hc (mem_flat_of_getElem hga (List.mem_of_getElem? hnd)) hs ?_
      have : ((nd :: flat (pgs.set gi (ga.1.eraseIdx idx ++ kids, ga.2))) ++ ga.1.eraseIdx idx).Perm
          ((flat pgs ++ kids) ++ ga.1.eraseIdx idx) := by
        have a : ((nd :: flat (pgs.set gi (ga.1.eraseIdx idx ++ kids, ga.2))) ++ ga.1.eraseIdx idx).Perm
            (flat (pgs.set gi (ga.1.eraseIdx idx ++ kids, ga.2)) ++ ga.1) := by
          simp only [List.cons_append]
          exact (List.perm_middle.symm).trans (List.Perm.append_left _ p3.symm)
        refine a.trans (p1.trans ?_)
        rw [List.append_assoc]
        exact List.Perm.append_left _ List.perm_append_comm
      exact (List.perm_append_right_iff _).mp this

theorem applyTrace_inv {pg : PUG U} {I : List (Node U) → Prop} (hI : SplitClosed pg I) :
    ∀ (tr : List Op) (pgs pgs' : PG U), applyTrace pg pgs tr = some pgs' → I (flat pgs) → I (flat pgs')
  | [], pgs, pgs', h, hc => by simp [applyTrace] at h; subst h; exact hc
  | op :: tr, pgs, pgs', h, hc => by
    simp only [applyTrace] at h
    split at h
    · cases h
    · rename_i pgs1 h1
      refine applyTrace_inv hI tr pgs1 pgs' h ?_
      cases op with
      | swap gi j k l => exact hI.perm (applySwap_perm h1).symm hc
      | splitIn gi => exact trySplit_inv hI h1 hc

/-! ### the invariant -/

/-- all weights are positive (decidable) -/
def posW (pg : PUG U) : Bool :=
  pg.g.rules.all (fun e => (alts pg.g e.1).all (fun pa => decide (0 < tagOf pg e.1 pa.1 pa.2))) &&
  pg.startTags.all (fun e => decide (0 < e.2))

/-- what `C08_fragment_lang` / `C08_fragment_prob` require of the nodes of a group -/
def NodesOK (pg : PUG U) (ns : List (Node U)) : Prop :=
  (∀ n ∈ ns, Valid pg.g n ∧ n.prob = derivProb pg n.start n.steps ∧ 0 < n.prob) ∧ PrefixFree ns

omit [DecidableEq U] in
theorem prefixRel_symm (a b : Node U)
    (h : a.start = b.start → ¬ a.steps <+: b.steps ∧ ¬ b.steps <+: a.steps) :
    b.start = a.start → ¬ b.steps <+: a.steps ∧ ¬ a.steps <+: b.steps :=
  fun he => (h he.symm).symm

theorem nodesOK_closed {pg : PUG U} (hw : WFp pg) (hp : posW pg = true) : SplitClosed pg (NodesOK pg) := by
  constructor
  · intro a b hab h
    refine ⟨fun n hn => h.1 n (hab.mem_iff.mpr hn), ?_⟩
    exact (List.Perm.pairwise_iff (fun {x y} => prefixRel_symm x y) hab).mp h.2
  · intro ns ns' kids nd h hnd hs hperm
    obtain ⟨s, t, rfl⟩ := List.append_of_mem hnd
    have hperm' : ns'.Perm ((s ++ t) ++ kids) := by
      have : (nd :: ns').Perm (nd :: ((s ++ t) ++ kids)) := by
        refine hperm.trans ?_
        simp only [List.append_assoc, List.cons_append]
        exact List.perm_middle
      exact this.cons_inv
    have hpf : (nd :: (s ++ t)).Pairwise
        (fun a b => a.start = b.start → ¬ a.steps <+: b.steps ∧ ¬ b.steps <+: a.steps) :=
      (List.Perm.pairwise_iff (fun {x y} => prefixRel_symm x y) List.perm_middle).mp h.2
    obtain ⟨hnd1, hst⟩ := List.pairwise_cons.mp hpf
    obtain ⟨hval, hprob, hpos⟩ := h.1 nd hnd
    obtain ⟨⟨rs, hm⟩, hk⟩ := nodeSplit_eq hw hs
    have hkid : ∀ k ∈ kids, ∃ pa ∈ alts pg.g nd.S, k = child pg nd pa.1
        ((deriveOne pg.g nd.info pa.2).1, (deriveOne pg.g nd.info pa.2).2, pa.2) := by
      intro k hk'
      rw [hk] at hk'
      obtain ⟨pa, hpa, rfl⟩ := List.mem_map.mp hk'
      exact ⟨pa, hpa, rfl⟩
    have hksteps : ∀ k ∈ kids, k.start = nd.start ∧ ∃ pa ∈ alts pg.g nd.S, k.steps = nd.steps ++ [(nd.S, pa.1, pa.2)] ∧
        k.prob = nd.prob * tagOf pg nd.S pa.1 pa.2 := by
      intro k hk'
      obtain ⟨pa, hpa, rfl⟩ := hkid k hk'
      exact ⟨start_child _ _ _ _, pa, hpa, steps_child pg nd pa.1 _ hval.2.1 hval.2.2.1, rfl⟩
    refine (nodesOK_perm hperm') ?_
    constructor
    · intro n hn
      rcases List.mem_append.mp hn with hn | hn
      · exact h.1 n (by
          rcases List.mem_append.mp hn with hn | hn
          · exact List.mem_append.mpr (Or.inl hn)
          · exact List.mem_append.mpr (Or.inr (List.mem_cons_of_mem _ hn)))
      · obtain ⟨hs1, pa, hpa, hs2, hs3⟩ := hksteps n hn
        refine ⟨kids_valid hw hval hs n hn, ?_, ?_⟩
        · rw [hs1, hs2, hs3, hprob]
          simp only [derivProb, stepsProb_append, stepsProb, Rat.mul_one, Rat.mul_assoc]
        · rw [hs3]
          apply Rat.mul_pos hpos
          simp only [posW, Bool.and_eq_true, List.all_eq_true, decide_eq_true_eq] at hp
          exact hp.1 (nd.S, rs) hm pa hpa
    · apply List.pairwise_append.mpr
      refine ⟨hst, ?_, ?_⟩
      · -- siblings
        rw [hk]
        apply List.pairwise_map.mpr
        have hnd' := (hw.rules_ok _ _ hm).2.2.1
        refine List.Pairwise.imp ?_ hnd'
        intro pa pa' hne _
        have e1 := steps_child pg nd pa.1 ((deriveOne pg.g nd.info pa.2).1, (deriveOne pg.g nd.info pa.2).2, pa.2)
          hval.2.1 hval.2.2.1
        have e2 := steps_child pg nd pa'.1 ((deriveOne pg.g nd.info pa'.2).1, (deriveOne pg.g nd.info pa'.2).2, pa'.2)
          hval.2.1 hval.2.2.1
        simp only at e1 e2
        rw [e1, e2]
        constructor
        · intro hpre
          have := hpre.eq_of_length (by simp)
          have := List.append_cancel_left this
          simp only [List.cons.injEq, Prod.mk.injEq, and_true, true_and] at this
          exact hne (Prod.ext this.1 this.2)
        · intro hpre
          have := hpre.eq_of_length (by simp)
          have := List.append_cancel_left this
          simp only [List.cons.injEq, Prod.mk.injEq, and_true, true_and] at this
          exact hne (Prod.ext this.1.symm this.2.symm)
      · intro r hr k hk' hsame
        obtain ⟨hs1, pa, _, hs2, _⟩ := hksteps k hk'
        have hR := hnd1 r hr (by rw [← hs1, hsame])
        rw [hs2]
        constructor
        · intro hpre
          rcases List.prefix_concat_iff.mp hpre with h1 | h1
          · exact hR.1 (by rw [h1]; exact List.prefix_append _ _)
          · exact hR.2 h1
        · intro hpre
          exact hR.1 ((List.prefix_append _ _).trans hpre)
where
  nodesOK_perm {pg : PUG U} {a b : List (Node U)} (hab : a.Perm b) (h : NodesOK pg b) : NodesOK pg a :=
    ⟨fun n hn => h.1 n (hab.mem_iff.mp hn),
     (List.Perm.pairwise_iff (fun {x y} => prefixRel_symm x y) hab).mpr h.2⟩

theorem nodesOK_start {pg : PUG U} (hw : WFp pg) (hp : posW pg = true) : NodesOK pg (startNodes pg) := by
  constructor
  · intro n hn
    refine ⟨(cover_start hw).1 n hn, ?_, ?_⟩
    · simp only [startNodes, List.mem_map] at hn
      obtain ⟨kp, hkp, rfl⟩ := hn
      have : AList.lookup kp.1 pg.startTags = some kp.2 := AList.lookup_of_mem_nodup hw.stkeys_nodup hkp
      simp [derivProb, Node.start, Node.steps, stepsProb, this, Rat.mul_one]
    · simp only [startNodes, List.mem_map] at hn
      obtain ⟨kp, hkp, rfl⟩ := hn
      simp only [posW, Bool.and_eq_true, List.all_eq_true, decide_eq_true_eq] at hp
      exact hp.2 kp hkp
  · unfold PrefixFree startNodes
    apply List.pairwise_map.mpr
    have := hw.stkeys_nodup
    unfold AList.keys at this
    have := List.pairwise_map.mp this
    refine List.Pairwise.imp ?_ this
    intro a b hne hsame
    exact absurd hsame hne

omit [DecidableEq U] in
theorem group_sublist_flat : ∀ {pgs : PG U} {g : List (Node U) × Rat}, g ∈ pgs → g.1.Sublist (flat pgs)
  | [], _, h => by cases h
  | x :: r, g, h => by
    simp only [flat, List.flatMap_cons]
    rcases List.mem_cons.mp h with h | h
    · subst h; exact List.sublist_append_left _ _
    · exact (group_sublist_flat h).trans (List.sublist_append_right _ _)

/-- **the groups of the whole pipeline satisfy the hypotheses of the fragment theorems** -/
theorem groups_ok {pg : PUG U} (hw : WFp pg) (hp : posW pg = true) (splits fuel : Nat) (hs : 0 < splits)
    (nodes : List (Node U)) (trace : List Op) (pgs' : PG U)
    (h1 : splitUntil pg splits fuel (startNodes pg) = some nodes)
    (h2 : applyTrace pg (initGroups nodes splits) trace = some pgs') :
    ∀ g ∈ pgs', NodesOK pg g.1 := by
  have hI := nodesOK_closed hw hp
  have a := splitUntil_inv hI splits fuel _ _ h1 (nodesOK_start hw hp)
  have b := applyTrace_inv hI trace _ _ h2 (hI.perm (initGroups_perm nodes splits hs).symm a)
  intro g hg
  have hsub := group_sublist_flat hg
  exact ⟨fun n hn => b.1 n (hsub.subset hn), List.Pairwise.sublist hsub b.2⟩

end PS.Sp
