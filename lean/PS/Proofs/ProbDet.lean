/-
  Property C04, deterministic part: `ProbDetGrammar.probability` against the specification
  `prob`, `normalise`, `uniform`, `pcfg_from_samples`.
-/
import PS.Model.Prob
import PS.Proofs.Grammar
namespace PS.G
open PS

variable {S : Type} [DecidableEq S]

/-- one step of the fold of `reduce_derivations` over a derivation -/
def stepDer {α : Type} (G : TT S Unit) (f : α → NT S Unit → Sym → (List (Ty × S) × Unit) → α)
    (a : α) (x : NT S Unit × Sym) : α :=
  match G.rule? x.1 x.2 with
  | some r => f a x.1 x.2 r
  | none => a

theorem genList_length (G : TT S Unit) (ks : List Prog) (args : List (Ty × S))
    (h : genList G ks args = true) : ks.length = args.length := by
  by_cases hl : ks.length = args.length
  · exact hl
  · rw [genList_len_ne G ks args hl] at h; cases h

mutual
  theorem reduceRec_aux {α : Type} (G : TT S Unit)
      (f : α → NT S Unit → Sym → (List (Ty × S) × Unit) → α) :
      ∀ (t : Prog) (nt : NT S Unit) (info : List (Ty × S)) (v : α), gen G t nt = true →
        ∃ i n, reduceRec G f v t nt info
            = some ((derivation G t nt).foldl (stepDer G f) v, i, n) ∧
          i = info.tail ∧ ∀ b rest, info = b :: rest → n = (b.1, (b.2, ()))
    | .node h kids, nt, info, v, hg => by
      rw [gen] at hg
      rw [reduceRec, derivation]
      cases hr : G.rule? nt h with
      | none => rw [hr] at hg; simp at hg
      | some r =>
        obtain ⟨args, st⟩ := r
        rw [hr] at hg
        simp only at hg ⊢
        cases args with
        | nil =>
          cases kids with
          | cons _ _ => simp [genList] at hg
          | nil =>
            cases info <;> simp [reduceList, derivationList, deriveWith, stepDer, hr]
        | cons a as =>
          obtain ⟨i, n, h1, h2, h3⟩ :=
            reduceList_aux G f kids a as info (f v nt h (a :: as, st)) hg
          refine ⟨i, n, ?_, h2, h3⟩
          simp only [deriveWith, List.cons_append, List.foldl_cons, stepDer, hr]
          exact h1
  theorem reduceList_aux {α : Type} (G : TT S Unit)
      (f : α → NT S Unit → Sym → (List (Ty × S) × Unit) → α) :
      ∀ (ks : List Prog) (a : Ty × S) (as : List (Ty × S)) (info : List (Ty × S)) (v : α),
        genList G ks (a :: as) = true →
        ∃ i n, reduceList G f v ks (as ++ info) (a.1, (a.2, ()))
            = some ((derivationList G ks (a :: as)).foldl (stepDer G f) v, i, n) ∧
          i = info.tail ∧ ∀ b rest, info = b :: rest → n = (b.1, (b.2, ()))
    | [], a, as, info, v, hg => by simp [genList] at hg
    | k :: ks, a, as, info, v, hg => by
      obtain ⟨a1, a2⟩ := a
      rw [genList, Bool.and_eq_true] at hg
      obtain ⟨hg1, hg2⟩ := hg
      obtain ⟨i, n, h1, h2, h3⟩ := reduceRec_aux G f k (a1, (a2, ())) (as ++ info) v hg1
      rw [reduceList, derivationList, h1, List.foldl_append]
      simp only
      cases as with
      | nil =>
        cases ks with
        | cons _ _ => simp [genList] at hg2
        | nil =>
          refine ⟨i, n, ?_, ?_, ?_⟩
          · simp [reduceList, derivationList]
          · simpa using h2
          · simpa using h3
      | cons a' as' =>
        have hn := h3 a' (as' ++ info) rfl
        simp only [List.cons_append, List.tail_cons] at h2
        rw [h2, hn]
        exact reduceList_aux G f ks a' as' info _ hg2
end

/-- A1: on a member, the stack-based `reduce_derivations` is the left fold of the reducer over
    the (stack-free) derivation — for every grammar, reducer, term, start and pending stack -/
theorem reduceRec_derivation {α : Type} (G : TT S Unit)
    (f : α → NT S Unit → Sym → (List (Ty × S) × Unit) → α) (t : Prog) (nt : NT S Unit)
    (info : List (Ty × S)) (v : α) (h : gen G t nt = true) :
    (reduceRec G f v t nt info).map (·.1) = some ((derivation G t nt).foldl (stepDer G f) v) := by
  obtain ⟨i, n, h1, _, _⟩ := reduceRec_aux G f t nt info v h
  rw [h1]; rfl

/-- `reduce_derivations` on a member of the language -/
theorem reduceDerivations_derivation {α : Type} (G : TT S Unit)
    (f : α → NT S Unit → Sym → (List (Ty × S) × Unit) → α) (t : Prog) (v : α)
    (h : gen G t G.start = true) :
    reduceDerivations G f v t = some ((derivation G t G.start).foldl (stepDer G f) v) :=
  reduceRec_derivation G f t G.start [] v h

/- every entry of a derivation is a rule of the grammar -/
mutual
  theorem derivation_rule (G : TT S Unit) :
      ∀ (t : Prog) (nt : NT S Unit), ∀ x ∈ derivation G t nt, (G.rule? x.1 x.2).isSome = true
    | .node f kids, nt => by
      rw [derivation]
      cases hr : G.rule? nt f with
      | none => simp
      | some r =>
        obtain ⟨args, st⟩ := r
        intro x hx
        simp only [List.mem_cons] at hx
        rcases hx with hx | hx
        · rw [hx]; simp [hr]
        · exact derivationList_rule G kids args x hx
  theorem derivationList_rule (G : TT S Unit) :
      ∀ (ks : List Prog) (as : List (Ty × S)), ∀ x ∈ derivationList G ks as,
        (G.rule? x.1 x.2).isSome = true
    | [], _ => by simp [derivationList]
    | _ :: _, [] => by simp [derivationList]
    | k :: ks, (t, s) :: as => by
      intro x hx
      rw [derivationList, List.mem_append] at hx
      rcases hx with hx | hx
      · exact derivation_rule G k _ x hx
      · exact derivationList_rule G ks as x hx
end

theorem foldl_stepDer_none (G : TT S Unit) (tags : Tags S Unit) (d : List (NT S Unit × Sym)) :
    d.foldl (stepDer G (mulTag tags)) none = none := by
  induction d with
  | nil => rfl
  | cons x d ih =>
    rw [List.foldl_cons]
    have : stepDer G (mulTag tags) none x = none := by
      unfold stepDer; cases G.rule? x.1 x.2 <;> simp [mulTag]
    rw [this, ih]

/-- the fold of `probability` over a list of rules of the grammar is the product of the weights
    (an absent weight — `KeyError` — makes it `none`, and the product 0) -/
theorem foldl_stepDer_mulTag (G : TT S Unit) (tags : Tags S Unit) (d : List (NT S Unit × Sym))
    (hd : ∀ x ∈ d, (G.rule? x.1 x.2).isSome = true) (c : Rat) :
    (d.foldl (stepDer G (mulTag tags)) (some c)).getD 0 = c * derWeight tags d := by
  induction d generalizing c with
  | nil => simp [derWeight, Rat.mul_one]
  | cons x d ih =>
    have hx := hd x (List.mem_cons_self ..)
    have hd' : ∀ y ∈ d, (G.rule? y.1 y.2).isSome = true :=
      fun y hy => hd y (List.mem_cons_of_mem _ hy)
    rw [List.foldl_cons]
    obtain ⟨r, hr⟩ := Option.isSome_iff_exists.mp hx
    have hs : stepDer G (mulTag tags) (some c) x = (tagOf tags x.1 x.2).map (fun w => c * w) := by
      simp [stepDer, hr, mulTag]
    rw [hs]
    have hw : derWeight tags (x :: d) = weight tags x.1 x.2 * derWeight tags d := by
      simp [derWeight]
    rw [hw, weight]
    cases ht : tagOf tags x.1 x.2 with
    | none =>
      simp [foldl_stepDer_none, Rat.zero_mul, Rat.mul_zero]
    | some w =>
      simp only [Option.map_some, Option.getD_some]
      rw [ih hd', Rat.mul_assoc]

/-- A2: `ProbDetGrammar.probability` = the specification, for EVERY tagged grammar (tags may be
    incomplete or unnormalised), every program, every start non-terminal -/
theorem probabilityDetFrom_eq_prob (G : TT S Unit) (tags : Tags S Unit) (t : Prog)
    (nt : NT S Unit) : probabilityDetFrom G tags t nt = prob G tags t nt := by
  unfold probabilityDetFrom prob
  rw [(containsRec_gen G t nt []).1]
  cases hg : gen G t nt with
  | false => simp
  | true =>
    obtain ⟨i, n, h1, _, _⟩ := reduceRec_aux G (mulTag tags) t nt [] (some 1) hg
    have h2 := foldl_stepDer_mulTag G tags (derivation G t nt) (derivation_rule G t nt) 1
    rw [Rat.one_mul] at h2
    rw [h1]
    simp only [Bool.not_true, Bool.false_eq_true, if_false, if_true]
    rw [← h2]
    cases (derivation G t nt).foldl (stepDer G (mulTag tags)) (some 1) <;> rfl

theorem probabilityDet_eq_prob (G : TT S Unit) (tags : Tags S Unit) (t : Prog) :
    probabilityDet G tags t = prob G tags t G.start :=
  probabilityDetFrom_eq_prob G tags t G.start

/-- A3: outside the language the probability is 0 (any state type `T`) -/
theorem probabilityDet_outside {T : Type} [DecidableEq T] (G : TT S T) (tags : Tags S T)
    (t : Prog) (h : contains G t = false) : probabilityDet G tags t = 0 := by
  unfold contains at h
  simp [probabilityDet, probabilityDetFrom, h]

/-! ### `normalise` -/

theorem Rat_div_self' (a : Rat) (h : a ≠ 0) : a / a = 1 := by
  rw [Rat.div_def, Rat.mul_inv_cancel a h]

theorem sum_map_div {β : Type} (l : List β) (g : β → Rat) (s : Rat) :
    (l.map (fun e => g e / s)).sum = (l.map g).sum / s := by
  induction l with
  | nil => simp [Rat.div_def, Rat.zero_mul]
  | cons a l ih =>
    simp only [List.map_cons, List.sum_cons, ih]
    rw [Rat.div_def, Rat.div_def, Rat.div_def, Rat.add_mul]

theorem rowSum_normaliseRow_eq (d : AList Sym Rat) :
    rowSum (normaliseRow d) = rowSum d / rowSum d := by
  have := sum_map_div d (fun e => e.2) (rowSum d)
  simpa [rowSum, normaliseRow, List.map_map, Function.comp_def] using this

/-- A4: `normalise` makes every row with a non-zero sum sum to 1, keeps the keys -/
theorem rowSum_normaliseRow (d : AList Sym Rat) (h : rowSum d ≠ 0) :
    rowSum (normaliseRow d) = 1 := by
  rw [rowSum_normaliseRow_eq, Rat_div_self' _ h]

theorem keys_normaliseRow (d : AList Sym Rat) : AList.keys (normaliseRow d) = AList.keys d := by
  simp [AList.keys, normaliseRow, List.map_map, Function.comp_def]

omit [DecidableEq S] in
theorem normalise_rows {T : Type} (tags : Tags S T) :
    ∀ e ∈ normalise tags, ∃ e' ∈ tags, e.1 = e'.1 ∧ e.2 = normaliseRow e'.2 := by
  intro e he
  obtain ⟨e', he', rfl⟩ := List.mem_map.mp he
  exact ⟨e', he', rfl, rfl⟩

omit [DecidableEq S] in
theorem keys_normalise {T : Type} (tags : Tags S T) :
    AList.keys (normalise tags) = AList.keys tags := by
  simp [AList.keys, normalise, List.map_map, Function.comp_def]

/-! ### `uniform` -/

theorem sum_map_const {β : Type} (l : List β) (c : Rat) :
    (l.map (fun _ => c)).sum = (l.length : Rat) * c := by
  induction l with
  | nil => simp [Rat.zero_mul]
  | cons a l ih =>
    simp only [List.map_cons, List.sum_cons, ih, List.length_cons]
    rw [Rat.natCast_add, Rat.add_mul, Rat.add_comm]
    congr 1
    exact (Rat.one_mul c).symm

theorem natCast_mul_one_div (n : Nat) (h : n ≠ 0) : (n : Rat) * (1 / (n : Rat)) = 1 := by
  have hn : (n : Rat) ≠ 0 := fun h0 => h (Rat.natCast_eq_zero_iff.mp h0)
  rw [Rat.div_def, Rat.one_mul, Rat.mul_inv_cancel _ hn]

omit [DecidableEq S] in
/-- A5: uniform weights: every non-empty row sums to 1 -/
theorem rowSum_uniform {T : Type} [DecidableEq T] (G : TT S T) :
    ∀ e ∈ uniform G, e.2 ≠ [] → rowSum e.2 = 1 := by
  intro e he hne
  obtain ⟨e', he', rfl⟩ := List.mem_map.mp he
  simp only [ne_eq, List.map_eq_nil_iff] at hne
  simp only [rowSum, List.map_map, Function.comp_def]
  rw [sum_map_const]
  exact natCast_mul_one_div _ (fun h => hne (List.length_eq_zero_iff.mp h))

omit [DecidableEq S] in
theorem keys_uniform {T : Type} [DecidableEq T] (G : TT S T) :
    AList.keys (uniform G) = AList.keys G.rules := by
  simp [AList.keys, uniform, List.map_map, Function.comp_def]

/-- the weight of a rule in the uniform grammar -/
theorem weight_uniform (G : TT S Unit) (hk : (AList.keys G.rules).Nodup)
    (e : NT S Unit × AList Sym (List (Ty × S) × Unit)) (he : e ∈ G.rules)
    (hn : (AList.keys e.2).Nodup) (r : Sym × (List (Ty × S) × Unit)) (hr : r ∈ e.2) :
    weight (uniform G) e.1 r.1 = 1 / (e.2.length : Rat) := by
  have h1 : AList.lookup e.1 (uniform G)
      = some (e.2.map (fun r => (r.1, 1 / (e.2.length : Rat)))) := by
    apply AList.lookup_of_mem_nodup
    · rw [keys_uniform]; exact hk
    · exact List.mem_map.mpr ⟨e, he, rfl⟩
  have h2 : AList.lookup r.1 (e.2.map (fun r => (r.1, 1 / (e.2.length : Rat))))
      = some (1 / (e.2.length : Rat)) := by
    apply AList.lookup_of_mem_nodup
    · simpa [AList.keys, List.map_map, Function.comp_def] using hn
    · exact List.mem_map.mpr ⟨r, hr, rfl⟩
  simp [weight, tagOf, h1, h2]

/-- … and the uniform grammar is `Normalised` when no row is empty and dict keys are distinct -/
theorem uniform_normalised (G : TT S Unit) (hk : (AList.keys G.rules).Nodup)
    (hr : ∀ e ∈ G.rules, e.2 ≠ [] ∧ (AList.keys e.2).Nodup) : Normalised G (uniform G) := by
  intro e he
  obtain ⟨hne, hnd⟩ := hr e he
  refine ⟨?_, hnd⟩
  have : e.2.map (fun r => weight (uniform G) e.1 r.1)
      = e.2.map (fun _ => 1 / (e.2.length : Rat)) :=
    List.map_congr_left (fun r hr' => weight_uniform G hk e he hnd r hr')
  rw [this, sum_map_const]
  exact natCast_mul_one_div _ (fun h => hne (List.length_eq_zero_iff.mp h))

/-! ### `pcfg_from_samples` -/

/-- the shape of a two-level dict: the keys and, for each, the keys of its row, in order -/
def shape {κ ν : Type} (c : AList κ (AList Sym ν)) : List (κ × List Sym) :=
  c.map (fun e => (e.1, AList.keys e.2))

/-- overwriting a key that is present keeps the keys (Python dict: in place) -/
theorem keys_insert_of_lookup {κ ν : Type} [DecidableEq κ] {k : κ} {v : ν} (v' : ν)
    {d : AList κ ν} (h : AList.lookup k d = some v) :
    AList.keys (AList.insert k v' d) = AList.keys d := by
  induction d with
  | nil => simp [AList.lookup] at h
  | cons p r ih =>
    obtain ⟨k2, v2⟩ := p
    by_cases hk : k2 = k
    · simp [AList.insert, AList.keys, hk]
    · simp only [AList.lookup, hk, if_false] at h
      have := ih h
      simp only [AList.keys] at this
      simp [AList.insert, AList.keys, hk, this]

theorem shape_insert {κ ν : Type} [DecidableEq κ] {k : κ} {row : AList Sym ν} (row' : AList Sym ν)
    {c : AList κ (AList Sym ν)} (h : AList.lookup k c = some row)
    (hk : AList.keys row' = AList.keys row) : shape (AList.insert k row' c) = shape c := by
  induction c with
  | nil => simp [AList.lookup] at h
  | cons p r ih =>
    obtain ⟨k2, v2⟩ := p
    by_cases hk2 : k2 = k
    · simp only [AList.lookup, hk2, if_true, Option.some.injEq] at h
      simp [AList.insert, shape, hk2, hk, h]
    · simp only [AList.lookup, hk2, if_false] at h
      have := ih h
      simp only [shape] at this
      simp [AList.insert, shape, hk2, this]

theorem addLeaf_shape (cnt : Counts S) (nt : NT S Unit) (P : Sym) (b : Bool) (cnt' : Counts S)
    (h : addLeaf cnt nt P = .ok (b, cnt')) : shape cnt' = shape cnt := by
  unfold addLeaf at h
  cases h1 : AList.lookup nt cnt with
  | none => rw [h1] at h; simp at h
  | some row =>
    rw [h1] at h
    simp only at h
    cases h2 : AList.lookup P row with
    | none =>
      rw [h2] at h
      simp only [Except.ok.injEq, Prod.mk.injEq] at h
      rw [← h.2]
    | some c =>
      rw [h2] at h
      simp only [Except.ok.injEq, Prod.mk.injEq] at h
      rw [← h.2]
      exact shape_insert _ h1 (keys_insert_of_lookup _ h2)

mutual
  theorem addCount_shape (G : TT S Unit) :
      ∀ (t : Prog) (cnt : Counts S) (nt : NT S Unit) (cnt' : Counts S),
        addCount G cnt nt t = .ok cnt' → shape cnt' = shape cnt
    | .node f kids, cnt, nt, cnt', h => by
      rw [addCount] at h
      cases hl : addLeaf cnt nt f with
      | error e => rw [hl] at h; simp at h
      | ok p =>
        obtain ⟨b, c1⟩ := p
        rw [hl] at h
        simp only at h
        have hs := addLeaf_shape cnt nt f b c1 hl
        by_cases hk : kids.isEmpty = true
        · simp only [hk, if_true, Except.ok.injEq] at h
          rw [← h]; exact hs
        · simp only [hk] at h
          cases hr : G.rule? nt f with
          | none => rw [hr] at h; simp at h
          | some r =>
            obtain ⟨args, st⟩ := r
            rw [hr] at h
            simp only [Bool.false_eq_true, if_false] at h
            rw [addCountList_shape G kids c1 args cnt' h]; exact hs
  theorem addCountList_shape (G : TT S Unit) :
      ∀ (ks : List Prog) (cnt : Counts S) (as : List (Ty × S)) (cnt' : Counts S),
        addCountList G cnt ks as = .ok cnt' → shape cnt' = shape cnt
    | [], cnt, _, cnt', h => by
      rw [addCountList] at h
      simp only [Except.ok.injEq] at h
      rw [h]
    | _ :: _, _, [], _, h => by simp [addCountList] at h
    | k :: ks, cnt, (t, s) :: as, cnt', h => by
      rw [addCountList] at h
      cases hc : addCount G cnt (t, (s, ())) k with
      | error e => rw [hc] at h; simp at h
      | ok c =>
        rw [hc] at h
        simp only at h
        rw [addCountList_shape G ks c as cnt' h]
        exact addCount_shape G k cnt _ c hc
end

theorem addSamples_shape (G : TT S Unit) (ps : List Prog) :
    ∀ (cnt cnt' : Counts S), addSamples G cnt ps = .ok cnt' → shape cnt' = shape cnt := by
  induction ps with
  | nil =>
    intro cnt cnt' h
    simp only [addSamples, Except.ok.injEq] at h
    rw [h]
  | cons p ps ih =>
    intro cnt cnt' h
    rw [addSamples] at h
    cases hc : addCount G cnt G.start p with
    | error e => rw [hc] at h; simp at h
    | ok c =>
      rw [hc] at h
      simp only at h
      rw [ih c cnt' h]
      exact addCount_shape G p cnt _ c hc

omit [DecidableEq S] in
theorem shape_initCounts (G : TT S Unit) : shape (initCounts G) = shape G.rules := by
  simp [shape, initCounts, AList.keys, List.map_map, Function.comp_def]

theorem keys_eq_of_shape {κ ν ν' : Type} {c : AList κ (AList Sym ν)} {c' : AList κ (AList Sym ν')}
    (h : shape c = shape c') : AList.keys c = AList.keys c' := by
  have := congrArg (List.map (·.1)) h
  simpa [shape, AList.keys, List.map_map, Function.comp_def] using this

theorem mem_of_shape {κ ν ν' : Type} {c : AList κ (AList Sym ν)} {c' : AList κ (AList Sym ν')}
    (h : shape c = shape c') {e : κ × AList Sym ν'} (he : e ∈ c') :
    ∃ row, (e.1, row) ∈ c ∧ AList.keys row = AList.keys e.2 := by
  have h1 : (e.1, AList.keys e.2) ∈ shape c := by
    rw [h]; exact List.mem_map.mpr ⟨e, he, rfl⟩
  obtain ⟨x, hx, hxe⟩ := List.mem_map.mp h1
  simp only [Prod.mk.injEq] at hxe
  refine ⟨x.2, ?_, hxe.2⟩
  rw [← hxe.1]; exact hx

theorem map_lookup_self {ν : Type} (dflt : ν) (row : AList Sym ν)
    (hn : (AList.keys row).Nodup) :
    row.map (fun c => (AList.lookup c.1 row).getD dflt) = row.map (·.2) := by
  apply List.map_congr_left
  intro c hc
  rw [AList.lookup_of_mem_nodup hn (show (c.1, c.2) ∈ row from hc)]
  rfl

theorem natCast_sum {β : Type} (l : List β) (g : β → Nat) :
    (((l.map g).sum : Nat) : Rat) = (l.map (fun c => (g c : Rat))).sum := by
  induction l with
  | nil => rfl
  | cons a l ih => simp only [List.map_cons, List.sum_cons, Rat.natCast_add, ih]

/-- with the shape of the rule table, `total` is the sum of the row of counts -/
theorem totalOf_eq (cnt : Counts S) (e : NT S Unit × AList Sym (List (Ty × S) × Unit))
    (row : AList Sym Nat) (hl : AList.lookup e.1 cnt = some row)
    (hk : AList.keys row = AList.keys e.2) (hn : (AList.keys e.2).Nodup) :
    totalOf cnt e = (row.map (·.2)).sum := by
  unfold totalOf countOf
  rw [hl]
  simp only
  have h1 : e.2.map (fun r => (AList.lookup r.1 row).getD 0)
      = (AList.keys e.2).map (fun k => (AList.lookup k row).getD 0) := by
    simp [AList.keys, List.map_map, Function.comp_def]
  have h2 : (AList.keys row).map (fun k => (AList.lookup k row).getD 0)
      = row.map (fun c => (AList.lookup c.1 row).getD 0) := by
    simp [AList.keys, List.map_map, Function.comp_def]
  rw [h1, ← hk, h2, map_lookup_self 0 row (hk ▸ hn)]

/-- A6: weights learnt from samples: every row that is produced sums to 1 -/
theorem fromSamples_rows (G : TT S Unit) (hk : (AList.keys G.rules).Nodup)
    (hr : ∀ e ∈ G.rules, (AList.keys e.2).Nodup) (samples : List Prog) (tags : Tags S Unit)
    (h : fromSamples G samples = .ok tags) : ∀ e ∈ tags, rowSum e.2 = 1 := by
  unfold fromSamples at h
  cases hs : addSamples G (initCounts G) samples with
  | error x => rw [hs] at h; simp at h
  | ok cnt =>
    rw [hs] at h
    simp only [Except.ok.injEq] at h
    have hsh : shape cnt = shape G.rules :=
      (addSamples_shape G samples _ _ hs).trans (shape_initCounts G)
    intro e he
    rw [← h, probsOfCounts, List.mem_filterMap] at he
    obtain ⟨e0, he0, hopt⟩ := he
    by_cases hpos : totalOf cnt e0 > 0
    · simp only [hpos, if_true, Option.some.injEq] at hopt
      obtain ⟨row, hrow, hkeys⟩ := mem_of_shape hsh he0
      have hkc : (AList.keys cnt).Nodup := by rw [keys_eq_of_shape hsh]; exact hk
      have hl : AList.lookup e0.1 cnt = some row := AList.lookup_of_mem_nodup hkc hrow
      have htot := totalOf_eq cnt e0 row hl hkeys (hr e0 he0)
      rw [← hopt, hl]
      simp only [Option.getD_some, rowSum, List.map_map, Function.comp_def]
      rw [sum_map_div row (fun c => (c.2 : Rat)) _, ← natCast_sum row (·.2), ← htot]
      apply Rat_div_self'
      intro h0
      have := Rat.natCast_eq_zero_iff.mp h0
      omega
    · simp [hpos] at hopt

end PS.G
