/-
  Property C04, deterministic part: `ProbDetGrammar.probability` against the specification
  `prob`, `normalise`, `uniform`, `pcfg_from_samples`.
-/
import PS.Model.Prob
import PS.Proofs.Grammar
namespace PS.G
open PS

variable {S : Type} [DecidableEq S]

/-- one step of the fold of `reduce_derivations` over a derivation -/
def stepDer {α : Type} (G : TT S Unit) (f : α → NT S Unit → Sym → (List (Ty × S) × Unit) → α)
    (a : α) (x : NT S Unit × Sym) : α :=
  match G.rule? x.1 x.2 with
  | some r => f a x.1 x.2 r
  | none => a

theorem genList_length (G : TT S Unit) (ks : List Prog) (args : List (Ty × S))
    (h : genList G ks args = true) : ks.length = args.length := by
  by_cases hl : ks.length = args.length
  · exact hl
  · rw [genList_len_ne G ks args hl] at h; cases h

mutual
  theorem reduceRec_aux {α : Type} (G : TT S Unit)
      (f : α → NT S Unit → Sym → (List (Ty × S) × Unit) → α) :
      ∀ (t : Prog) (nt : NT S Unit) (info : List (Ty × S)) (v : α), gen G t nt = true →
        ∃ i n, reduceRec G f v t nt info
            = some ((derivation G t nt).foldl (stepDer G f) v, i, n) ∧
          i = info.tail ∧ ∀ b rest, info = b :: rest → n = (b.1, (b.2, ()))
    | .node h kids, nt, info, v, hg => by
      rw [gen] at hg
      rw [reduceRec, derivation]
      cases hr : G.rule? nt h with
      | none => rw [hr] at hg; simp at hg
      | some r =>
        obtain ⟨args, st⟩ := r
        rw [hr] at hg
        simp only at hg ⊢
        cases args with
        | nil =>
          cases kids with
          | cons _ _ => simp [genList] at hg
          | nil =>
            cases info <;> simp [reduceList, derivationList, deriveWith, stepDer, hr]
        | cons a as =>
          obtain ⟨i, n, h1, h2, h3⟩ :=
            reduceList_aux G f kids a as info (f v nt h (a :: as, st)) hg
          refine ⟨i, n, ?_, h2, h3⟩
          simp only [deriveWith, List.cons_append, List.foldl_cons, stepDer, hr]
          exact h1
  theorem reduceList_aux {α : Type} (G : TT S Unit)
      (f : α → NT S Unit → Sym → (List (Ty × S) × Unit) → α) :
      ∀ (ks : List Prog) (a : Ty × S) (as : List (Ty × S)) (info : List (Ty × S)) (v : α),
        genList G ks (a :: as) = true →
        ∃ i n, reduceList G f v ks (as ++ info) (a.1, (a.2, ()))
            = some ((derivationList G ks (a :: as)).foldl (stepDer G f) v, i, n) ∧
          i = info.tail ∧ ∀ b rest, info = b :: rest → n = (b.1, (b.2, ()))
    | [], a, as, info, v, hg => by simp [genList] at hg
    | k :: ks, a, as, info, v, hg => by
      obtain ⟨a1, a2⟩ := a
      rw [genList, Bool.and_eq_true] at hg
      obtain ⟨hg1, hg2⟩ := hg
      obtain ⟨i, n, h1, h2, h3⟩ := reduceRec_aux G f k (a1, (a2, ())) (as ++ info) v hg1
      rw [reduceList, derivationList, h1, List.foldl_append]
      simp only
      cases as with
      | nil =>
        cases ks with
        | cons _ _ => simp [genList] at hg2
        | nil =>
          refine ⟨i, n, ?_, ?_, ?_⟩
          · simp [reduceList, derivationList]
          · simpa using h2
          · simpa using h3
      | cons a' as' =>
        have hn := h3 a' (as' ++ info) rfl
        simp only [List.cons_append, List.tail_cons] at h2
        rw [h2, hn]
        exact reduceList_aux G f ks a' as' info _ hg2
end

/-- A1: on a member, the stack-based `reduce_derivations` is the left fold of the reducer over
    the (stack-free) derivation — for every grammar, reducer, term, start and pending stack -/
theorem reduceRec_derivation {α : Type} (G : TT S Unit)
    (f : α → NT S Unit → Sym → (List (Ty × S) × Unit) → α) (t : Prog) (nt : NT S Unit)
    (info : List (Ty × S)) (v : α) (h : gen G t nt = true) :
    (reduceRec G f v t nt info).map (·.1) = some ((derivation G t nt).foldl (stepDer G f) v) := by
  obtain ⟨i, n, h1, _, _⟩ := reduceRec_aux G f t nt info v h
  rw [h1]; rfl

/-- `reduce_derivations` on a member of the language -/
theorem reduceDerivations_derivation {α : Type} (G : TT S Unit)
    (f : α → NT S Unit → Sym → (List (Ty × S) × Unit) → α) (t : Prog) (v : α)
    (h : gen G t G.start = true) :
    reduceDerivations G f v t = some ((derivation G t G.start).foldl (stepDer G f) v) :=
  reduceRec_derivation G f t G.start [] v h

/- every entry of a derivation is a rule of the grammar -/
mutual
  theorem derivation_rule (G : TT S Unit) :
      ∀ (t : Prog) (nt : NT S Unit), ∀ x ∈ derivation G t nt, (G.rule? x.1 x.2).isSome = true
    | .node f kids, nt => by
      rw [derivation]
      cases hr : G.rule? nt f with
      | none => simp
      | some r =>
        obtain ⟨args, st⟩ := r
        intro x hx
        simp only [List.mem_cons] at hx
        rcases hx with hx | hx
        · rw [hx]; simp [hr]
        · exact derivationList_rule G kids args x hx
  theorem derivationList_rule (G : TT S Unit) :
      ∀ (ks : List Prog) (as : List (Ty × S)), ∀ x ∈ derivationList G ks as,
        (G.rule? x.1 x.2).isSome = true
    | [], _ => by simp [derivationList]
    | _ :: _, [] => by simp [derivationList]
    | k :: ks, (t, s) :: as => by
      intro x hx
      rw [derivationList, List.mem_append] at hx
      rcases hx with hx | hx
      · exact derivation_rule G k _ x hx
      · exact derivationList_rule G ks as x hx
end

theorem foldl_stepDer_none (G : TT S Unit) (tags : Tags S Unit) (d : List (NT S Unit × Sym)) :
    d.foldl (stepDer G (mulTag tags)) none = none := by
  induction d with
  | nil => rfl
  | cons x d ih =>
    rw [List.foldl_cons]
    have : stepDer G (mulTag tags) none x = none := by
      unfold stepDer; cases G.rule? x.1 x.2 <;> simp [mulTag]
    rw [this, ih]

/-- the fold of `probability` over a list of rules of the grammar is the product of the weights
    (an absent weight — `KeyError` — makes it `none`, and the product 0) -/
theorem foldl_stepDer_mulTag (G : TT S Unit) (tags : Tags S Unit) (d : List (NT S Unit × Sym))
    (hd : ∀ x ∈ d, (G.rule? x.1 x.2).isSome = true) (c : Rat) :
    (d.foldl (stepDer G (mulTag tags)) (some c)).getD 0 = c * derWeight tags d := by
  induction d generalizing c with
  | nil => simp [derWeight, Rat.mul_one]
  | cons x d ih =>
    have hx := hd x (List.mem_cons_self ..)
    have hd' : ∀ y ∈ d, (G.rule? y.1 y.2).isSome = true :=
      fun y hy => hd y (List.mem_cons_of_mem _ hy)
    rw [List.foldl_cons]
    obtain ⟨r, hr⟩ := Option.isSome_iff_exists.mp hx
    have hs : stepDer G (mulTag tags) (some c) x = (tagOf tags x.1 x.2).map (fun w => c * w) := by
      simp [stepDer, hr, mulTag]
    rw [hs]
    have hw : derWeight tags (x :: d) = weight tags x.1 x.2 * derWeight tags d := by
      simp [derWeight]
    rw [hw, weight]
    cases ht : tagOf tags x.1 x.2 with
    | none =>
      simp [foldl_stepDer_none, Rat.zero_mul, Rat.mul_zero]
    | some w =>
      simp only [Option.map_some, Option.getD_some]
      rw [ih hd', Rat.mul_assoc]

/-- A2: `ProbDetGrammar.probability` = the specification, for EVERY tagged grammar (tags may be
    partial or unnormalised), every program, every start non-terminal -/
theorem probabilityDetFrom_eq_prob (G : TT S Unit) (tags : Tags S Unit) (t : Prog)
    (nt : NT S Unit) : probabilityDetFrom G tags t nt = prob G tags t nt := by
  unfold probabilityDetFrom prob
  rw [(containsRec_gen G t nt []).1]
  cases hg : gen G t nt with
  | false => simp
  | true =>
    obtain ⟨i, n, h1, _, _⟩ := reduceRec_aux G (mulTag tags) t nt [] (some 1) hg
    have h2 := foldl_stepDer_mulTag G tags (derivation G t nt) (derivation_rule G t nt) 1
    rw [Rat.one_mul] at h2
    rw [h1]
    simp only [Bool.not_true, Bool.false_eq_true, if_false, if_true]
    rw [← h2]
    cases (derivation G t nt).foldl (stepDer G (mulTag tags)) (some 1) <;> rfl

theorem probabilityDet_eq_prob (G : TT S Unit) (tags : Tags S Unit) (t : Prog) :
    probabilityDet G tags t = prob G tags t G.start :=
  probabilityDetFrom_eq_prob G tags t G.start

/-- A3: outside the language the probability is 0 (any state type `T`) -/
theorem probabilityDet_outside {T : Type} [DecidableEq T] (G : TT S T) (tags : Tags S T)
    (t : Prog) (h : contains G t = false) : probabilityDet G tags t = 0 := by
  unfold contains at h
  simp [probabilityDet, probabilityDetFrom, h]

end PS.G
