/- Total probability mass of a normalised probabilistic grammar (property C04):
   Σ over `lang G k nt` of `prob` = 1 once every derivation from `nt` finishes within `k` levels. -/
import PS.Model.Prob
import PS.Proofs.Lang
namespace PS.G
open PS

variable {S : Type} [DecidableEq S]

/-! ### sums and products of `Rat` lists -/

theorem sum_flatMap_rat {α β : Type} (l : List α) (g : α → List β) (f : β → Rat) :
    ((l.flatMap g).map f).sum = (l.map (fun x => ((g x).map f).sum)).sum := by
  induction l with
  | nil => simp
  | cons x xs ih =>
    simp only [List.flatMap_cons, List.map_append, List.sum_append, List.map_cons, List.sum_cons, ih]

theorem sum_map_mul_left {α : Type} (l : List α) (c : Rat) (g : α → Rat) :
    (l.map (fun x => c * g x)).sum = c * (l.map g).sum := by
  induction l with
  | nil => simp [Rat.mul_zero]
  | cons x xs ih => simp only [List.map_cons, List.sum_cons, ih, Rat.mul_add]

theorem sum_map_mul_right {α : Type} (l : List α) (c : Rat) (g : α → Rat) :
    (l.map (fun x => g x * c)).sum = (l.map g).sum * c := by
  induction l with
  | nil => simp [Rat.zero_mul]
  | cons x xs ih => simp only [List.map_cons, List.sum_cons, ih, Rat.add_mul]

/-- M1: Σ over a product = Π of the Σ's.  `F a x` is the value of element `x` chosen for slot `a` -/
theorem sum_product {α β : Type} (F : α → β → Rat) (L : α → List β) (as : List α) :
    ((product (as.map L)).map (fun xs => ((as.zip xs).map (fun p => F p.1 p.2)).prod)).sum
      = (as.map (fun a => ((L a).map (F a)).sum)).prod := by
  induction as with
  | nil => simp [product, Rat.add_zero]
  | cons a as ih =>
    simp only [List.map_cons, product, List.prod_cons]
    rw [sum_flatMap_rat]
    simp only [List.map_map, Function.comp_def, List.zip_cons_cons, List.map_cons, List.prod_cons]
    rw [← ih]
    rw [← sum_map_mul_right]
    apply congrArg
    apply List.map_congr_left
    intro x _
    rw [sum_map_mul_left]

/-! ### probability of an application -/

theorem derWeight_append (tags : Tags S Unit) (a b : List (NT S Unit × Sym)) :
    derWeight tags (a ++ b) = derWeight tags a * derWeight tags b := by
  induction a with
  | nil => simp [derWeight, Rat.one_mul]
  | cons x xs ih =>
    simp only [derWeight, List.cons_append, List.map_cons, List.prod_cons] at ih ⊢
    rw [ih, Rat.mul_assoc]

theorem prob_of_gen (G : TT S Unit) (tags : Tags S Unit) (t : Prog) (nt : NT S Unit)
    (h : gen G t nt = true) : prob G tags t nt = derWeight tags (derivation G t nt) := by
  simp [prob, h]

theorem derWeight_derivationList (G : TT S Unit) (tags : Tags S Unit) :
    ∀ (kids : List Prog) (args : List (Ty × S)), genList G kids args = true →
      derWeight tags (derivationList G kids args)
        = ((args.zip kids).map (fun p => prob G tags p.2 (argNT p.1))).prod
  | [], [] => by intro _; simp [derivationList, derWeight]
  | [], _ :: _ => by intro h; simp [genList] at h
  | _ :: _, [] => by intro h; simp [genList] at h
  | k :: ks, (t, s) :: as => by
    intro h
    simp only [genList, Bool.and_eq_true] at h
    simp only [derivationList, derWeight_append, List.zip_cons_cons, List.map_cons, List.prod_cons]
    rw [derWeight_derivationList G tags ks as h.2]
    rw [prob_of_gen G tags k (argNT (t, s)) h.1]
    rfl

/-- M2: probability of an application = weight of its rule × product of the probabilities of its
    arguments (when the arguments are derivable from the rule's non-terminals) -/
theorem prob_node (G : TT S Unit) (tags : Tags S Unit) (nt : NT S Unit) (f : Sym)
    (args : List (Ty × S)) (kids : List Prog)
    (hr : G.rule? nt f = some (args, ()))
    (hk : genList G kids args = true) :
    prob G tags (.node f kids) nt
      = weight tags nt f * ((args.zip kids).map (fun p => prob G tags p.2 (argNT p.1))).prod := by
  have hg : gen G (.node f kids) nt = true := by rw [gen, hr]; exact hk
  rw [prob_of_gen G tags _ nt hg, derivation, hr]
  simp only [derWeight, List.map_cons, List.prod_cons]
  rw [← derWeight_derivationList G tags kids args hk]
  rfl

/-! ### one level of the recursion -/

/-- M3: one level of the recursion -/
theorem mass_succ (G : TT S Unit) (tags : Tags S Unit) (h : RowsNodup G) (k : Nat) (nt : NT S Unit)
    (rs : AList Sym (List (Ty × S) × Unit)) (hl : AList.lookup nt G.rules = some rs) :
    mass G tags (k + 1) nt
      = (rs.map (fun r => weight tags nt r.1 * (r.2.1.map (fun a => mass G tags k (argNT a))).prod)).sum := by
  unfold mass
  simp only [lang, hl]
  rw [sum_flatMap_rat]
  apply congrArg
  apply List.map_congr_left
  intro r hr
  obtain ⟨f, args, u⟩ := r
  cases u
  have hrule : G.rule? nt f = some (args, ()) := by
    simp only [TT.rule?, hl]
    exact AList.lookup_of_mem_nodup (h nt rs hl) hr
  simp only [List.map_map, Function.comp_def]
  have e1 : (product (args.map (fun a => lang G k (a.1, (a.2, ()))))).map
        (fun kids => prob G tags (Tree.node f kids) nt)
      = (product (args.map (fun a => lang G k (a.1, (a.2, ()))))).map
        (fun kids => weight tags nt f *
          ((args.zip kids).map (fun p => prob G tags p.2 (argNT p.1))).prod) := by
    apply List.map_congr_left
    intro kids hm
    have hg := ((mem_product_lang G k (mem_lang_iff G h k) kids args).mp hm).1
    exact prob_node G tags nt f args kids hrule hg
  rw [e1, sum_map_mul_left]
  apply congrArg
  exact sum_product (fun a t => prob G tags t (argNT a)) (fun a => lang G k (argNT a)) args

/-! ### the total mass -/

theorem rowsNodup_of_normalised (G : TT S Unit) (tags : Tags S Unit) (hn : Normalised G tags) :
    RowsNodup G := by
  intro nt rs hl
  exact (hn (nt, rs) (AList.lookup_some_mem hl)).2

theorem prod_eq_one_of_forall {α : Type} (l : List α) (g : α → Rat) (h : ∀ x ∈ l, g x = 1) :
    (l.map g).prod = 1 := by
  induction l with
  | nil => simp
  | cons x xs ih =>
    simp only [List.map_cons, List.prod_cons]
    rw [h x (by simp), ih (fun y hy => h y (by simp [hy])), Rat.mul_one]

/-- M4 (the theorem): a normalised grammar, all of whose derivations from `nt` finish within `k`
    levels, gives total probability 1 to the programs derivable from `nt` -/
theorem mass_eq_one (G : TT S Unit) (tags : Tags S Unit) (hk : (AList.keys G.rules).Nodup)
    (hn : Normalised G tags) (k : Nat) (nt : NT S Unit) (hb : bounded G k nt = true) :
    mass G tags k nt = 1 := by
  have _ := hk
  induction k generalizing nt with
  | zero => simp [bounded] at hb
  | succ k ih =>
    unfold bounded at hb
    cases hl : AList.lookup nt G.rules with
    | none => rw [hl] at hb; simp at hb
    | some rs =>
      rw [hl] at hb
      simp only [List.all_eq_true] at hb
      rw [mass_succ G tags (rowsNodup_of_normalised G tags hn) k nt rs hl]
      have e : rs.map (fun r => weight tags nt r.1 *
            (r.2.1.map (fun a => mass G tags k (argNT a))).prod)
          = rs.map (fun r => weight tags nt r.1) := by
        apply List.map_congr_left
        intro r hr
        rw [prod_eq_one_of_forall _ _ (fun a ha => ih (argNT a) (hb r hr a ha)), Rat.mul_one]
      rw [e]
      exact (hn (nt, rs) (AList.lookup_some_mem hl)).1

/-! ### `bounded` -/

/-- M5: `bounded` is monotone, and bounds the depth of every derivable term: `lang G k nt` is then
    the whole language of `nt` -/
theorem bounded_mono (G : TT S Unit) (k : Nat) (nt : NT S Unit) (h : bounded G k nt = true) :
    bounded G (k + 1) nt = true := by
  induction k generalizing nt with
  | zero => simp [bounded] at h
  | succ k ih =>
    rw [bounded] at h ⊢
    cases hl : AList.lookup nt G.rules with
    | none => rw [hl] at h; simp at h
    | some rs =>
      rw [hl] at h
      simp only [List.all_eq_true] at h ⊢
      intro r hr a ha
      exact ih (argNT a) (h r hr a ha)

theorem depthList_le_of_bounded (G : TT S Unit) (k : Nat)
    (ih : ∀ (t : Prog) (nt : NT S Unit), bounded G k nt = true → gen G t nt = true →
      Tree.depth t ≤ k) :
    ∀ (kids : List Prog) (args : List (Ty × S)),
      (∀ a ∈ args, bounded G k (argNT a) = true) → genList G kids args = true →
      Tree.depthList kids ≤ k
  | [], _ => by intro _ _; simp [Tree.depthList]
  | _ :: _, [] => by intro _ h; simp [genList] at h
  | t :: ts, (ty, s) :: as => by
    intro hb hg
    simp only [genList, Bool.and_eq_true] at hg
    simp only [Tree.depthList]
    apply Nat.max_le.mpr
    constructor
    · exact ih t (ty, (s, ())) (hb (ty, s) (by simp)) hg.1
    · exact depthList_le_of_bounded G k ih ts as (fun a ha => hb a (by simp [ha])) hg.2

theorem depth_le_of_bounded (G : TT S Unit) (k : Nat) (t : Prog) (nt : NT S Unit)
    (hb : bounded G k nt = true) (hg : gen G t nt = true) : Tree.depth t ≤ k := by
  induction k generalizing t nt with
  | zero => simp [bounded] at hb
  | succ k ih =>
    cases t with
    | node f kids =>
      rw [bounded] at hb
      rw [gen] at hg
      simp only [TT.rule?] at hg
      cases hl : AList.lookup nt G.rules with
      | none => rw [hl] at hb; simp at hb
      | some rs =>
        rw [hl] at hb hg
        simp only [List.all_eq_true] at hb hg
        cases hlk : AList.lookup f rs with
        | none => rw [hlk] at hg; simp at hg
        | some r =>
          obtain ⟨args, u⟩ := r
          rw [hlk] at hg
          have hmem := AList.lookup_some_mem hlk
          have := depthList_le_of_bounded G k ih kids args (fun a ha => hb _ hmem a ha) hg
          simp only [Tree.depth]
          omega

theorem mem_lang_of_bounded (G : TT S Unit) (h : RowsNodup G) (k : Nat) (t : Prog) (nt : NT S Unit)
    (hb : bounded G k nt = true) : t ∈ lang G k nt ↔ gen G t nt = true := by
  rw [mem_lang_iff G h k t nt]
  exact ⟨fun h => h.1, fun hg => ⟨hg, depth_le_of_bounded G k t nt hb hg⟩⟩

/-! ### the counter -/

theorem count_succ (G : TT S Unit) (k : Nat) (nt : NT S Unit)
    (rs : AList Sym (List (Ty × S) × Unit)) (hl : AList.lookup nt G.rules = some rs) :
    count G (k + 1) nt
      = (rs.map (fun r => (r.2.1.map (fun a => count G k (argNT a))).foldl (· * ·) 1)).sum := by
  simp only [count, hl]
  rfl

/-- M6: the counter is stable once the grammar is exhausted -/
theorem count_stable (G : TT S Unit) (k : Nat) (nt : NT S Unit) (hb : bounded G k nt = true) :
    count G (k + 1) nt = count G k nt := by
  induction k generalizing nt with
  | zero => simp [bounded] at hb
  | succ k ih =>
    rw [bounded] at hb
    cases hl : AList.lookup nt G.rules with
    | none => rw [hl] at hb; simp at hb
    | some rs =>
      rw [hl] at hb
      simp only [List.all_eq_true] at hb
      rw [count_succ G (k + 1) nt rs hl, count_succ G k nt rs hl]
      apply congrArg
      apply List.map_congr_left
      intro r hr
      congr 1
      apply List.map_congr_left
      intro a ha
      exact ih (argNT a) (hb r hr a ha)

end PS.G
