/- C17, program side: `allInst` lists the instantiations of a template exactly once. -/
import PS.Proofs.InstConst
namespace PS.IC
open PS PS.G

theorem nodup_flatMap_map {α β γ : Type} (g : α → β → γ)
    (hinj : ∀ a b a' b', g a b = g a' b' → a = a' ∧ b = b') {l : List α} {m : List β}
    (hl : l.Nodup) (hm : m.Nodup) : (l.flatMap fun a => m.map (g a)).Nodup := by
  induction l with
  | nil => simp
  | cons a r ih =>
    rw [List.nodup_cons] at hl
    rw [List.flatMap_cons, List.nodup_append]
    refine ⟨List.Nodup.map (fun b b' e => (hinj a b a b' e).2) hm, ih hl.2, ?_⟩
    intro x hx y hy hxy
    subst hxy
    obtain ⟨b, _, rfl⟩ := List.mem_map.mp hx
    obtain ⟨a', ha', hy'⟩ := List.mem_flatMap.mp hy
    obtain ⟨b', _, e⟩ := List.mem_map.mp hy'
    have := (hinj a' b' a b e).1
    subst this
    exact hl.1 ha'

theorem mem_flatMap_map {α β γ : Type} (g : α → β → γ) {l : List α} {m : List β} {x : γ} :
    x ∈ (l.flatMap fun a => m.map (g a)) ↔ ∃ a ∈ l, ∃ b ∈ m, x = g a b := by
  simp only [List.mem_flatMap, List.mem_map]
  constructor
  · rintro ⟨a, ha, b, hb, rfl⟩; exact ⟨a, ha, b, hb, rfl⟩
  · rintro ⟨a, ha, b, hb, rfl⟩; exact ⟨a, ha, b, hb, rfl⟩

/-- the head symbols: a duplicate-free listing of the instantiations of the symbol -/
theorem allInstSym_spec {fx : Fix} {tbl : Tbl} {P : Sym} (h : symOK fx tbl P = true) :
    ∃ hs, allInstSym fx tbl P = some hs ∧ hs.Nodup ∧ ∀ k, k ∈ hs ↔ symInst tbl P k = true := by
  unfold symOK at h
  unfold allInstSym
  by_cases hk : P.kind = .const
  · simp only [hk, decide_true, Bool.not_true, Bool.false_or] at h
    rw [if_pos hk]
    by_cases hn : P.name = ""
    · rw [if_pos hn] at h
      have hc : fx.isConst P = true := by simp [Fix.isConst, hk, hn]
      rw [if_pos hc]
      cases hl : AList.lookup P.ty tbl with
      | none =>
        rw [hl] at h
        simp only at h
        refine ⟨[P], by simp [h], by simp, ?_⟩
        intro k
        have : isSlot tbl P = false := by simp [isSlot, AList.contains, hl]
        rw [symInst_of_not_isSlot this]; simp
      | some vals0 =>
        rw [hl] at h
        simp only [decide_eq_true_eq] at h
        refine ⟨_, rfl, List.Nodup.map (fun a b e => (const_inj e).2) h, ?_⟩
        intro k
        have : isSlot tbl P = true := by simp [isSlot, hk, hn, AList.contains, hl]
        unfold symInst
        rw [this]
        simp only [if_true, hl, List.mem_map, List.any_eq_true, decide_eq_true_eq]
        constructor
        · rintro ⟨v, hv, rfl⟩; exact ⟨v, mem_fxvals.mp hv, rfl⟩
        · rintro ⟨v, hv, rfl⟩; exact ⟨v, mem_fxvals.mpr hv, rfl⟩
    · rw [if_neg hn] at h
      have hc : fx.isConst P = false := by simp [Fix.isConst, hk, hn, h]
      rw [hc]
      refine ⟨[P], by simp, by simp, ?_⟩
      intro k
      have : isSlot tbl P = false := by simp [isSlot, hn]
      rw [symInst_of_not_isSlot this]; simp
  · rw [if_neg hk]
    refine ⟨[P], rfl, by simp, ?_⟩
    intro k
    have : isSlot tbl P = false := by simp [isSlot, hk]
    rw [symInst_of_not_isSlot this]; simp

mutual
  theorem allInst_spec (fx : Fix) (tbl : Tbl) : ∀ (t : Prog), progOK fx tbl t = true →
      ∃ l, allInst fx tbl t = some l ∧ l.Nodup ∧ ∀ t', t' ∈ l ↔ isInst tbl t t' = true
    | .node f kids => by
      intro h
      unfold progOK at h
      rw [Bool.and_eq_true] at h
      obtain ⟨hs, e1, nd1, m1⟩ := allInstSym_spec h.1
      obtain ⟨poss, e2, nd2, m2⟩ := allInstList_spec fx tbl kids h.2
      have key : ∀ t', t' ∈ (hs.flatMap fun f' => (product poss).map (fun ks => Tree.node f' ks)) ↔
          isInst tbl (.node f kids) t' = true := by
        intro t'
        obtain ⟨k, kids'⟩ := t'
        rw [mem_flatMap_map (fun f' ks => Tree.node f' ks)]
        unfold isInst
        rw [Bool.and_eq_true, ← m1 k, ← m2 kids']
        constructor
        · rintro ⟨a, ha, b, hb, e⟩
          cases e
          exact ⟨ha, hb⟩
        · rintro ⟨ha, hb⟩
          exact ⟨k, ha, kids', hb, rfl⟩
      cases hs with
      | nil =>
        refine ⟨[], by unfold allInst; rw [e1], List.nodup_nil, ?_⟩
        intro t'
        rw [← key t']
        simp
      | cons a r =>
        refine ⟨_, by unfold allInst; rw [e1, e2], ?_, key⟩
        exact nodup_flatMap_map (fun f' ks => Tree.node f' ks)
          (fun a b a' b' e => by cases e; exact ⟨rfl, rfl⟩) nd1 nd2
  theorem allInstList_spec (fx : Fix) (tbl : Tbl) : ∀ (ks : List Prog), progOKList fx tbl ks = true →
      ∃ poss, allInstList fx tbl ks = some poss ∧ (product poss).Nodup ∧
        ∀ ks', ks' ∈ product poss ↔ isInstList tbl ks ks' = true
    | [] => by
      intro _
      refine ⟨[], rfl, by simp [product], ?_⟩
      intro ks'
      cases ks' <;> simp [product, isInstList]
    | k :: ks => by
      intro h
      unfold progOKList at h
      rw [Bool.and_eq_true] at h
      obtain ⟨l, e1, nd1, m1⟩ := allInst_spec fx tbl k h.1
      obtain ⟨ls, e2, nd2, m2⟩ := allInstList_spec fx tbl ks h.2
      refine ⟨l :: ls, by unfold allInstList; rw [e1, e2], ?_, ?_⟩
      · unfold product
        exact nodup_flatMap_map (fun x r => x :: r)
          (fun a b a' b' e => by cases e; exact ⟨rfl, rfl⟩) nd1 nd2
      · intro ks'
        unfold product
        rw [mem_flatMap_map (fun x r => x :: r)]
        cases ks' with
        | nil => simp [isInstList]
        | cons k' r' =>
          unfold isInstList
          rw [Bool.and_eq_true, ← m1 k', ← m2 r']
          constructor
          · rintro ⟨a, ha, b, hb, e⟩
            cases e
            exact ⟨ha, hb⟩
          · rintro ⟨ha, hb⟩
            exact ⟨k', ha, r', hb, rfl⟩
end

end PS.IC
