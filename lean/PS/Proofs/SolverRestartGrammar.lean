/-
  Lemmas for C10, restart part: what `_restart_` computes (model `PS.C10.RG.restartTags`).
  Weight calculus on two-level association lists: scaling, adding a score along a derivation,
  adding the uniform prior, normalising.
-/
import PS.Model.SolverRestart
import PS.Proofs.ProbDet
set_option linter.unusedSimpArgs false
set_option linter.unusedSectionVars false
namespace PS.C10.RG
open PS PS.G

variable {S : Type} [DecidableEq S]

theorem lookup_mapk {κ ν μ : Type} [DecidableEq κ] (F : κ → ν → μ) (k : κ) : ∀ (d : AList κ ν),
    AList.lookup k (d.map (fun e => (e.1, F e.1 e.2))) = (AList.lookup k d).map (F k)
  | [] => rfl
  | (k', v) :: r => by
    by_cases hk : k' = k
    · subst hk; simp [AList.lookup]
    · simp only [List.map_cons, AList.lookup, hk, if_false]
      exact lookup_mapk F k r

/-- every rule of the grammar has a tag -/
def Covers (G : TT S Unit) (tags : Tags S Unit) : Prop :=
  ∀ nt P, (G.rule? nt P).isSome = true → (tagOf tags nt P).isSome = true

theorem tagOf_scale (c : Rat) (tags : Tags S Unit) (nt : NT S Unit) (P : Sym) :
    tagOf (scaleTags c tags) nt P = (tagOf tags nt P).map (fun w => c * w) := by
  unfold tagOf scaleTags
  rw [lookup_mapk (fun _ (row : AList Sym Rat) => row.map (fun r => (r.1, c * r.2)))]
  cases AList.lookup nt tags with
  | none => rfl
  | some row =>
    simp only [Option.map_some]
    exact lookup_mapk (fun _ w => c * w) P row

theorem weight_scale (c : Rat) (tags : Tags S Unit) (nt : NT S Unit) (P : Sym) :
    weight (scaleTags c tags) nt P = c * weight tags nt P := by
  unfold weight
  rw [tagOf_scale]
  cases tagOf tags nt P with
  | none => simp [Rat.mul_zero]
  | some w => rfl

/-- one `pcfg.probabilities[S][P] += score` on a rule that has a tag -/
theorem addScore_some (sc : Rat) (tags : Tags S Unit) (nt : NT S Unit) (P : Sym) (x : List (Ty × S) × Unit)
    (h : (tagOf tags nt P).isSome = true) :
    ∃ tags', addScore sc (some tags) nt P x = some tags' ∧
      ∀ nt' P', tagOf tags' nt' P' =
        if nt' = nt ∧ P' = P then (tagOf tags nt P).map (· + sc) else tagOf tags nt' P' := by
  unfold tagOf at h
  unfold addScore
  cases hr : AList.lookup nt tags with
  | none => rw [hr] at h; cases h
  | some row =>
    rw [hr] at h
    simp only at h ⊢
    cases hw : AList.lookup P row with
    | none => rw [hw] at h; cases h
    | some w =>
      refine ⟨AList.insert nt (AList.insert P (w + sc) row) tags, by simp [hr, hw], ?_⟩
      intro nt' P'
      unfold tagOf
      rw [AList.lookup_insert]
      by_cases hn : nt' = nt
      · subst hn
        simp only [if_true, true_and, hr]
        rw [AList.lookup_insert]
        by_cases hp : P' = P
        · subst hp; simp [hw]
        · simp [hp]
      · simp [hn]

/-- the fold of `reduce_derivations` over a derivation all of whose entries have a tag -/
theorem fold_addScore (G : TT S Unit) (sc : Rat) (d : List (NT S Unit × Sym)) :
    ∀ (tags : Tags S Unit), (∀ x ∈ d, (G.rule? x.1 x.2).isSome = true) → Covers G tags →
    ∃ tags', d.foldl (stepDer G (addScore sc)) (some tags) = some tags' ∧
      (∀ nt P, (tagOf tags' nt P).isSome = (tagOf tags nt P).isSome) ∧
      (∀ nt P, (tagOf tags nt P).isSome = true → weight tags' nt P = weight tags nt P + sc * (uses d nt P : Rat)) := by
  induction d with
  | nil =>
    intro tags _ _
    exact ⟨tags, rfl, fun _ _ => rfl, fun nt P _ => by simp [uses, Rat.mul_zero, Rat.add_zero]⟩
  | cons x rest ih =>
    intro tags hd hc
    have hx := hd x (by simp)
    obtain ⟨r, hr⟩ := Option.isSome_iff_exists.mp hx
    obtain ⟨t1, h1, h2⟩ := addScore_some sc tags x.1 x.2 r (hc x.1 x.2 hx)
    have hsome1 : ∀ nt P, (tagOf t1 nt P).isSome = (tagOf tags nt P).isSome := by
      intro nt P
      rw [h2]
      by_cases hq : nt = x.1 ∧ P = x.2
      · obtain ⟨rfl, rfl⟩ := hq; simp
      · simp [hq]
    have hc1 : Covers G t1 := fun nt P hh => by rw [hsome1]; exact hc nt P hh
    obtain ⟨t2, g1, g2, g3⟩ := ih t1 (fun y hy => hd y (by simp [hy])) hc1
    refine ⟨t2, ?_, fun nt P => by rw [g2, hsome1], ?_⟩
    · simp only [List.foldl_cons, stepDer, hr]
      rw [h1]; exact g1
    · intro nt P hs
      rw [g3 nt P (by rw [hsome1]; exact hs)]
      have hw1 : weight t1 nt P = weight tags nt P + (if (nt, P) = x then sc else 0) := by
        unfold weight
        rw [h2]
        by_cases hq : nt = x.1 ∧ P = x.2
        · obtain ⟨rfl, rfl⟩ := hq
          obtain ⟨w, hw⟩ := Option.isSome_iff_exists.mp hs
          simp [hw]
        · have : ¬ (nt, P) = x := fun h => hq ⟨by rw [← h], by rw [← h]⟩
          simp [hq, this, Rat.add_zero]
      rw [hw1]
      simp only [uses, List.countP_cons]
      by_cases hq : (nt, P) = x
      · have : decide (x = (nt, P)) = true := by simp [hq]
        simp only [hq, if_true, this]
        rw [Rat.natCast_add, Rat.mul_add, Rat.add_assoc]
        congr 1
        rw [Rat.add_comm]
        congr 1
        simp [Rat.mul_one]
      · have hq' : ¬ x = (nt, P) := fun h => hq h.symm
        have : decide (x = (nt, P)) = false := by simp [hq']
        simp [hq, this, Rat.add_zero]

/-- **accumulation**: after `for program, score in _data: pcfg.reduce_derivations(…)` every tagged
    rule holds its initial weight plus its accumulated score -/
theorem accumulate_spec (G : TT S Unit) (data : List (Prog × Rat)) :
    ∀ (tags : Tags S Unit), Covers G tags → (∀ d ∈ data, gen G d.1 G.start = true) →
    ∃ acc, accumulate G tags data = some acc ∧
      (∀ nt P, (tagOf acc nt P).isSome = (tagOf tags nt P).isSome) ∧
      (∀ nt P, (tagOf tags nt P).isSome = true → weight acc nt P = weight tags nt P + accScore G data nt P) := by
  induction data with
  | nil =>
    intro tags _ _
    exact ⟨tags, rfl, fun _ _ => rfl, fun nt P _ => by simp [accScore, Rat.add_zero]⟩
  | cons d rest ih =>
    intro tags hc hd
    obtain ⟨p, sc⟩ := d
    have hg := hd (p, sc) (by simp)
    obtain ⟨t1, h1, h2, h3⟩ := fold_addScore G sc (derivation G p G.start) tags
      (fun x hx => derivation_rule G p G.start x hx) hc
    have hc1 : Covers G t1 := fun nt P hh => by rw [h2]; exact hc nt P hh
    obtain ⟨acc, g1, g2, g3⟩ := ih t1 hc1 (fun e he => hd e (by simp [he]))
    refine ⟨acc, ?_, fun nt P => by rw [g2, h2], ?_⟩
    · simp only [accumulate]
      rw [reduceDerivations_derivation G (addScore sc) p (some tags) hg, h1]
      exact g1
    · intro nt P hs
      rw [g3 nt P (by rw [h2]; exact hs), h3 nt P hs]
      simp only [accScore, List.map_cons, List.sum_cons]
      rw [Rat.add_assoc]

theorem tagOf_addTags (a b : Tags S Unit) (nt : NT S Unit) (P : Sym) :
    tagOf (addTags a b) nt P = (tagOf a nt P).map (· + weight b nt P) := by
  unfold tagOf addTags
  rw [lookup_mapk (fun k (row : AList Sym Rat) => row.map (fun r => (r.1, r.2 + weight b k r.1)))]
  cases AList.lookup nt a with
  | none => rfl
  | some row =>
    simp only [Option.map_some]
    exact lookup_mapk (fun k w => w + weight b nt k) P row

/-- `normalise`: every weight divided by the sum of its row -/
theorem tagOf_normalise (t : Tags S Unit) (nt : NT S Unit) (P : Sym) :
    tagOf (normalise t) nt P =
      match AList.lookup nt t with
      | none => none
      | some row => (AList.lookup P row).map (· / rowSum row) := by
  unfold tagOf normalise
  rw [lookup_mapk (fun _ (row : AList Sym Rat) => normaliseRow row)]
  cases AList.lookup nt t with
  | none => rfl
  | some row =>
    simp only [Option.map_some, normaliseRow]
    exact lookup_mapk (fun _ w => w / rowSum row) P row

end PS.C10.RG

namespace PS.C10.RG
open PS PS.G
variable {S : Type} [DecidableEq S]

theorem isSome_tagOf_normalise (t : Tags S Unit) (nt : NT S Unit) (P : Sym) :
    (tagOf (normalise t) nt P).isSome = (tagOf t nt P).isSome := by
  rw [tagOf_normalise]
  unfold tagOf
  cases AList.lookup nt t with
  | none => rfl
  | some row => simp only []; cases AList.lookup P row <;> rfl

/-- `ProbDetGrammar.uniform(G)` tags every rule of `G` -/
theorem covers_uniform (G : TT S Unit) : Covers G (uniform G) := by
  intro nt P h
  unfold TT.rule? at h
  unfold tagOf uniform
  rw [lookup_mapk (fun _ (rs : AList Sym (List (Ty × S) × Unit)) => rs.map (fun r => (r.1, 1 / (rs.length : Rat))))]
  cases hl : AList.lookup nt G.rules with
  | none => rw [hl] at h; cases h
  | some rs =>
    rw [hl] at h
    simp only [Option.map_some] at h ⊢
    rw [lookup_mapk (fun _ (_ : List (Ty × S) × Unit) => 1 / (rs.length : Rat))]
    cases hp : AList.lookup P rs with
    | none => rw [hp] at h; cases h
    | some r => rfl

/-- **what `_restart_` computes.**  From a table that tags every rule of the grammar and data all
    derivable in it: the result is `normalise u` for a table `u` with the same tagged rules whose
    weights are *accumulated score + prior × uniform weight*. -/
theorem restartTags_spec (G : TT S Unit) (tags0 : Tags S Unit) (data : List (Prog × Rat)) (prior : Rat)
    (hcov : Covers G tags0) (hdata : ∀ d ∈ data, gen G d.1 G.start = true) :
    ∃ u, restartTags G tags0 data prior = some (normalise u) ∧
      (∀ nt P, (tagOf u nt P).isSome = (tagOf tags0 nt P).isSome) ∧
      (∀ nt P, (tagOf tags0 nt P).isSome = true →
        weight u nt P = accScore G data nt P + (if 0 < prior then prior * weight (uniform G) nt P else 0)) := by
  have hs0 : ∀ nt P, (tagOf (scaleTags 0 tags0) nt P).isSome = (tagOf tags0 nt P).isSome := by
    intro nt P; rw [tagOf_scale]; cases tagOf tags0 nt P <;> rfl
  have hc0 : Covers G (scaleTags 0 tags0) := fun nt P h => by rw [hs0]; exact hcov nt P h
  obtain ⟨acc, h1, h2, h3⟩ := accumulate_spec G data (scaleTags 0 tags0) hc0 hdata
  have hw : ∀ nt P, (tagOf tags0 nt P).isSome = true → weight acc nt P = accScore G data nt P := by
    intro nt P hs
    rw [h3 nt P (by rw [hs0]; exact hs), weight_scale, Rat.zero_mul, Rat.zero_add]
  unfold restartTags
  rw [h1]
  by_cases hp : 0 < prior
  · refine ⟨addTags acc (scaleTags prior (uniform G)), by simp [hp], ?_, ?_⟩
    · intro nt P
      rw [tagOf_addTags, ← hs0, ← h2]
      cases tagOf acc nt P <;> rfl
    · intro nt P hs
      have hsa : (tagOf acc nt P).isSome = true := by rw [h2, hs0]; exact hs
      obtain ⟨w, hwv⟩ := Option.isSome_iff_exists.mp hsa
      have : weight (addTags acc (scaleTags prior (uniform G))) nt P =
          weight acc nt P + weight (scaleTags prior (uniform G)) nt P := by
        unfold weight
        rw [tagOf_addTags, hwv]
        rfl
      rw [this, hw nt P hs, weight_scale]
      simp [hp]
  · refine ⟨acc, by simp [hp], fun nt P => by rw [h2, hs0], ?_⟩
    intro nt P hs
    rw [hw nt P hs]
    simp [hp, Rat.add_zero]

/-- the weights of `normalise u`: each weight of `u` divided by the sum of its row; a row whose sum
    is not 0 becomes a row of sum 1 -/
theorem normalise_weights (u : Tags S Unit) (nt : NT S Unit) (row : AList Sym Rat)
    (h : AList.lookup nt u = some row) :
    (∀ P, weight (normalise u) nt P = weight u nt P / rowSum row) ∧
    AList.lookup nt (normalise u) = some (normaliseRow row) ∧
    (rowSum row ≠ 0 → rowSum (normaliseRow row) = 1) := by
  refine ⟨?_, ?_, rowSum_normaliseRow row⟩
  · intro P
    unfold weight
    rw [tagOf_normalise, h]
    unfold tagOf
    rw [h]
    simp only []
    cases hl : AList.lookup P row with
    | none => simp [Rat.div_def, Rat.zero_mul]
    | some w => simp
  · unfold normalise
    rw [lookup_mapk (fun _ (r : AList Sym Rat) => normaliseRow r), h]
    rfl

end PS.C10.RG
